/-
  GM.Proof.CMFragClassG — stage 22 of GM.Spec.CMFrag: the WIDER class of quoted contents.
  * `noBar_of_noBarEnd`: a source no line of which has `-` or `=` as its last byte that is not white space has no rest
    of a line that `matchesSetextHeadingBar` accepts (`GM.Blocks.NoBar`);
  * `gqclean_classG` / `guqclean_classG`: the contents `spellK d` (`GQFrag d`) / `spellU d` (`GUQFrag d`) are in the class
    `GM.Blocks.C08ClassG` of the block-quote simulation with lists and blank lines (GM.Proof.QuoteSimLists);
  * the class is kept by the prefix, SPEC-LEVEL route: `noBarEnd (quoteLines s true) = noBarEnd s` (`gq_noBarEnd_quoteLines`),
    so `GQClass` (no tab, no CR, final line feed, `noBarEnd`) is kept by `quotePrefix` (`gqClass_prefix`,
    `gqClass_quoteLinesN`) and gives `C08ClassG` at every level (`gqClass_classG`);
  * the converse `noBarEnd_of_noBar` (`-` / `=` followed by white space only IS an underline, `gq_bar_ok`), hence
    `c08ClassG_prefixN`: `C08ClassG S` with a final line feed gives `C08ClassG (quotePrefix S)` with a final line feed.
  Core Lean only.
-/
import GM.Proof.QuoteSimLists
import GM.Proof.CMFragClassUQ
import GM.Proof.CMFragNSeg
import GM.Proof.CMFragRenderN
namespace GM.Proof.CMFrag
open GM GM.Text GM.Blocks GM.Spec.CM GM.Spec.CMFrag

/-! ### the last byte of a line that is not white space -/

/-- the last byte that is not white space (`isSpace`), `l` if there is none -/
def gqLastNS : Bytes → UInt8 → UInt8
  | [], l => l
  | c :: cs, l => gqLastNS cs (if isSpace c then l else c)

theorem gqLastNS_append (a b : Bytes) (l : UInt8) : gqLastNS (a ++ b) l = gqLastNS b (gqLastNS a l) := by
  induction a generalizing l with
  | nil => rfl
  | cons c cs ih => simp only [List.cons_append, gqLastNS, ih]

theorem gqLastNS_space (a : Bytes) (l : UInt8) (h : ∀ c ∈ a, isSpace c = true) : gqLastNS a l = l := by
  induction a generalizing l with
  | nil => rfl
  | cons c cs ih =>
    rw [gqLastNS, h c (List.mem_cons_self ..), if_pos rfl]
    exact ih l (fun x hx => h x (List.mem_cons_of_mem _ hx))

theorem gqLastNS_run (ch : UInt8) (hch : isSpace ch = false) (a : Bytes) (l : UInt8) (hne : a ≠ [])
    (h : ∀ c ∈ a, c = ch) : gqLastNS a l = ch := by
  induction a generalizing l with
  | nil => exact absurd rfl hne
  | cons c cs ih =>
    have e : c = ch := h c (List.mem_cons_self ..)
    subst e
    rw [gqLastNS, hch]
    cases cs with
    | nil => rfl
    | cons d ds => exact ih _ (by simp) (fun x hx => h x (List.mem_cons_of_mem _ hx))

/-- the state does not matter once a byte that is not white space has been seen -/
theorem gqLastNS_state (a : Bytes) (l l' : UInt8) :
    gqLastNS a l = gqLastNS a l' ∨ (gqLastNS a l = l ∧ gqLastNS a l' = l') := by
  induction a generalizing l l' with
  | nil => exact .inr ⟨rfl, rfl⟩
  | cons c cs ih =>
    rw [gqLastNS, gqLastNS]
    cases isSpace c with
    | true => exact ih l l'
    | false => exact .inl rfl

/-! ### a setext heading underline ends (up to white space) with `-` or `=` -/

theorem gq_takeWhile_all {α} (p : α → Bool) : ∀ (A B : List α), A.length ≤ ((A ++ B).takeWhile p).length →
    ∀ x ∈ A, p x = true
  | [], _, _ => fun _ hx => nomatch hx
  | a :: A, B, h => by
    simp only [List.cons_append, List.takeWhile] at h
    cases hp : p a with
    | false => rw [hp] at h; simp at h
    | true =>
      rw [hp] at h
      simp only [List.length_cons] at h
      intro x hx
      rcases List.mem_cons.mp hx with rfl | hx
      · exact hp
      · exact gq_takeWhile_all p A B (by omega) x hx

theorem gq_length_takeWhile_le {α} (p : α → Bool) : ∀ l : List α, (l.takeWhile p).length ≤ l.length
  | [] => Nat.le_refl _
  | a :: l => by
    simp only [List.takeWhile]
    cases p a with
    | true => simp only [List.length_cons]; have := gq_length_takeWhile_le p l; omega
    | false => simp

theorem gq_drop_takeWhile {α} (p : α → Bool) : ∀ l : List α, l.drop (l.takeWhile p).length = l.dropWhile p
  | [] => rfl
  | a :: l => by
    simp only [List.takeWhile, List.dropWhile]
    cases p a with
    | true => simpa using gq_drop_takeWhile p l
    | false => rfl

theorem gq_mem_takeWhile {α} (p : α → Bool) : ∀ (l : List α) (x : α), x ∈ l.takeWhile p → p x = true
  | [], _, h => nomatch h
  | a :: l, x, h => by
    simp only [List.takeWhile] at h
    cases hp : p a with
    | false => rw [hp] at h; cases h
    | true =>
      rw [hp] at h
      rcases List.mem_cons.mp h with rfl | h
      · exact hp
      · exact gq_mem_takeWhile p l x h

/-- the shape of an underline: spaces, a run of one of the two bytes, white space -/
theorem gq_bar_lastNS (line : Bytes) (ch : UInt8) (h : matchesSetextHeadingBar line = .ok (ch, true)) :
    gqLastNS line 0 = 45 ∨ gqLastNS line 0 = 61 := by
  unfold matchesSetextHeadingBar at h
  simp only [bind, Except.bind, pure, Except.pure] at h
  split at h
  · cases h
  · have hsl : slice line (↑(countLeading 32 line)) (↑line.length) = .ok (line.dropWhile (· == 32)) := by
      have hle : countLeading 32 line ≤ line.length := by
        unfold countLeading; exact gq_length_takeWhile_le ..
      unfold slice sliceB
      rw [if_pos ⟨by omega, by omega, Int.le_refl _⟩]
      simp only [sub, Int.toNat_natCast]
      rw [List.take_of_length_le (by simp)]
      unfold countLeading
      rw [gq_drop_takeWhile]
    rw [hsl] at h
    simp only at h
    cases hi : idx line ((line.length : Int) - 1) with
    | error x => rw [hi] at h; cases h
    | ok last =>
      rw [hi] at h
      simp only at h
      -- the decomposition
      have e0 : line = line.takeWhile (· == 32) ++ line.dropWhile (· == 32) := (List.takeWhile_append_dropWhile ..).symm
      generalize hrest : line.dropWhile (· == 32) = rest at h e0
      have hsp : ∀ c ∈ line.takeWhile (· == 32), isSpace c = true := fun c hc => by
        have := gq_mem_takeWhile _ _ c hc
        have e : c = 32 := by simpa using this
        subst e; rfl
      have hlen : line.length = countLeading 32 line + rest.length := by
        have := congrArg List.length e0
        rw [List.length_append] at this
        unfold countLeading
        exact this
      -- a run of `ch'` of length `lv > 0` that ends at `stop`
      have key : ∀ ch' : UInt8, isSpace ch' = false → 0 < countLeading ch' rest →
          ((countLeading 32 line : Int) + (countLeading ch' rest : Int) =
            if isSpace last = true then (line.length : Int) - (trimRightSpaceLength rest : Int) else (line.length : Int)) →
          gqLastNS line 0 = ch' := by
        intro ch' hch' hpos hstop
        have e1 : rest = rest.takeWhile (· == ch') ++ rest.dropWhile (· == ch') :=
          (List.takeWhile_append_dropWhile ..).symm
        have hrun : ∀ c ∈ rest.takeWhile (· == ch'), c = ch' := fun c hc => by
          simpa using gq_mem_takeWhile _ _ c hc
        have hne : rest.takeWhile (· == ch') ≠ [] := by
          intro e; unfold countLeading at hpos; rw [e] at hpos; exact absurd hpos (by simp)
        have hl2 : rest.length = countLeading ch' rest + (rest.dropWhile (· == ch')).length := by
          have := congrArg List.length e1
          rw [List.length_append] at this
          unfold countLeading
          exact this
        have htr : trimRightSpaceLength rest ≤ rest.length := by
          unfold trimRightSpaceLength
          exact Nat.le_trans (gq_length_takeWhile_le ..) (by simp)
        have hws : ∀ c ∈ rest.dropWhile (· == ch'), isSpace c = true := by
          split at hstop
          · have hle : (rest.dropWhile (· == ch')).length ≤ trimRightSpaceLength rest := by omega
            unfold trimRightSpaceLength at hle
            have e2 : rest.reverse = (rest.dropWhile (· == ch')).reverse ++ (rest.takeWhile (· == ch')).reverse := by
              conv => lhs; rw [e1]
              simp
            rw [e2] at hle
            intro c hc
            exact gq_takeWhile_all isSpace _ _ (by simpa using hle) c (List.mem_reverse.mpr hc)
          · have : (rest.dropWhile (· == ch')).length = 0 := by omega
            rw [List.length_eq_zero_iff.mp this]
            exact fun _ hx => nomatch hx
        rw [e0, e1, gqLastNS_append, gqLastNS_append, gqLastNS_space _ _ hsp, gqLastNS_space _ _ hws]
        exact gqLastNS_run ch' hch' _ _ hne hrun
      by_cases h1 : countLeading 61 rest = 0
      · simp only [h1] at h
        by_cases h2 : 0 < countLeading 45 rest
        · left
          refine key 45 (by decide) h2 ?_
          by_cases hc : ((countLeading 32 line : Int) + (countLeading 45 rest : Int) =
              if isSpace last = true then (line.length : Int) - (trimRightSpaceLength rest : Int) else (line.length : Int))
          · exact hc
          · exfalso
            simp [hc] at h
        · exfalso
          have e2 : countLeading 45 rest = 0 := by omega
          simp [e2] at h
      · right
        refine key 61 (by decide) (by omega) ?_
        by_cases hc : ((countLeading 32 line : Int) + (countLeading 61 rest : Int) =
            if isSpace last = true then (line.length : Int) - (trimRightSpaceLength rest : Int) else (line.length : Int))
        · exact hc
        · exfalso
          have hb : (((countLeading 61 rest : Nat) : Int) == 0) = false := by
            rw [beq_eq_false_iff_ne]; omega
          simp only [hb] at h
          simp [hc] at h

/-! ### `noBarEnd` gives `NoBar` -/

theorem gq_space_eq (c : UInt8) (h : (c == 10) = false) : (c == 32 || c == 9 || c == 13) = isSpace c := by
  have h10 : c ≠ 10 := by simpa using h
  revert h10
  revert c
  apply forall_uint8; decide +kernel

/-- the first line of the source (with its line feed) does not end in `-` / `=` -/
theorem gq_noBarEndGo_first : ∀ (s : Bytes) (l : UInt8), noBarEndGo s l = true →
    gqEndOK (gqLastNS (s.take (lineLen s)) l) = true
  | [], l, h => by simpa [noBarEndGo, lineLen, gqLastNS] using h
  | c :: cs, l, h => by
    rw [noBarEndGo] at h
    rw [lineLen]
    cases hc : c == 10 with
    | true =>
      rw [hc] at h
      simp only [if_true, Bool.and_eq_true] at h
      have e : c = 10 := by simpa using hc
      subst e
      simpa [gqLastNS, isSpace] using h.1
    | false =>
      rw [hc] at h
      simp only [Bool.false_eq_true, if_false] at h ⊢
      rw [Nat.add_comm, List.take_succ_cons, gqLastNS, ← gq_space_eq c hc]
      exact gq_noBarEndGo_first cs _ h

/-- every suffix of the source is accepted from some state -/
theorem gq_noBarEndGo_drop : ∀ (p : Nat) (s : Bytes) (l : UInt8), noBarEndGo s l = true →
    ∃ l', noBarEndGo (s.drop p) l' = true
  | 0, s, l, h => ⟨l, h⟩
  | _ + 1, [], l, h => ⟨l, h⟩
  | p + 1, c :: cs, l, h => by
    rw [noBarEndGo] at h
    rw [List.drop_succ_cons]
    split at h
    · simp only [Bool.and_eq_true] at h
      exact gq_noBarEndGo_drop p cs 0 h.2
    · exact gq_noBarEndGo_drop p cs _ h

/-- **the heart**: no line ends (up to white space) in `-` or `=`, so no rest of a line is a setext heading underline -/
theorem noBar_of_noBarEnd (s : Bytes) (h : noBarEnd s = true) : GM.Blocks.NoBar s := by
  intro p hp c hbar
  have e : sub s p (lineEnd s p) = (s.drop p).take (lineLen (s.drop p)) := by
    unfold sub lineEnd
    rw [if_pos (by omega), Nat.add_sub_cancel_left]
  rw [e] at hbar
  obtain ⟨l', hl'⟩ := gq_noBarEndGo_drop p s 0 h
  have h1 := gq_noBarEndGo_first _ _ hl'
  have h2 := gq_bar_lastNS _ c hbar
  rcases gqLastNS_state ((s.drop p).take (lineLen (s.drop p))) 0 l' with e0 | ⟨e0, _⟩
  · rw [← e0] at h1
    rcases h2 with h2 | h2 <;> rw [h2] at h1 <;> exact absurd h1 (by decide)
  · rcases h2 with h2 | h2 <;> rw [h2] at e0 <;> exact absurd e0 (by decide)

/-! ### the class, spec level -/

/-- the spec-level class of quoted contents: no tab, no carriage return, a final line feed, no line ends in `-` / `=` -/
structure GQClass (S : Bytes) : Prop where
  tf : ∀ c ∈ S, c ≠ 9
  cr : ∀ c ∈ S, c ≠ 13
  nl : S.getLast? = some 10
  nb : noBarEnd S = true

theorem gqClass_classG {S : Bytes} (h : GQClass S) : GM.Blocks.C08ClassG S where
  tf := h.tf
  cr := h.cr
  ne := fun e => by have := h.nl; rw [e] at this; cases this
  last := fun c hc => by
    rw [h.nl] at hc
    cases hc
    decide
  nobar := noBar_of_noBarEnd S h.nb

theorem gq_go_marker (X : Bytes) (l : UInt8) : noBarEndGo (62 :: 32 :: X) l = noBarEndGo X 62 := by
  simp [noBarEndGo]

/-- the marker `> ` never is the end of a line that ends in `-` / `=` -/
theorem gq_noBarEndGo_quote : ∀ (s : Bytes) (b : Bool) (l l' : UInt8), (b = true → gqEndOK l' = true) →
    gqEndOK l = gqEndOK l' → noBarEndGo (quoteLines s b) l = noBarEndGo s l'
  | [], b, l, l', _, h => by
    rw [quoteLines, noBarEndGo]; exact h
  | c :: cs, false, l, l', _, h => by
    show noBarEndGo (c :: quoteLines cs (c == 10)) l = _
    rw [noBarEndGo, noBarEndGo]
    cases hc : c == 10 with
    | true =>
      simp only [if_true]
      rw [h, gq_noBarEndGo_quote cs true 0 0 (fun _ => rfl) rfl]
    | false =>
      simp only [Bool.false_eq_true, if_false]
      refine gq_noBarEndGo_quote cs false _ _ (fun e => by cases e) ?_
      split
      · exact h
      · rfl
  | c :: cs, true, l, l', hb, _ => by
    show noBarEndGo (62 :: 32 :: c :: quoteLines cs (c == 10)) l = _
    rw [gq_go_marker, noBarEndGo, noBarEndGo]
    cases hc : c == 10 with
    | true =>
      simp only [if_true]
      rw [hb rfl, gq_noBarEndGo_quote cs true 0 0 (fun _ => rfl) rfl]
      rfl
    | false =>
      simp only [Bool.false_eq_true, if_false]
      refine gq_noBarEndGo_quote cs false _ _ (fun e => by cases e) ?_
      split
      · rw [hb rfl]; rfl
      · rfl

/-- SPEC-LEVEL route: the prefixed source has the property iff the source has it -/
theorem gq_noBarEnd_quoteLines (s : Bytes) : noBarEnd (quoteLines s true) = noBarEnd s :=
  gq_noBarEndGo_quote s true 0 0 (fun _ => rfl) rfl

theorem gq_noBarEnd_quoteLinesN (k : Nat) (s : Bytes) : noBarEnd (quoteLinesN k s) = noBarEnd s := by
  induction k with
  | zero => rfl
  | succ k ih => rw [quoteLinesN, gq_noBarEnd_quoteLines, ih]

/-- the class is kept by the prefix -/
theorem gqClass_prefix {S : Bytes} (h : GQClass S) : GQClass (quotePrefix S) where
  tf := fun c hc => by
    rcases mem_quotePrefixGoN S true c hc with rfl | rfl | hm
    · decide
    · decide
    · exact h.tf c hm
  cr := fun c hc => by
    rcases mem_quotePrefixGoN S true c hc with rfl | rfl | hm
    · decide
    · decide
    · exact h.cr c hm
  nl := getLast_quotePrefixGoN S true 10 h.nl
  nb := by rw [← quoteLines_eq, gq_noBarEnd_quoteLines]; exact h.nb

theorem gqClass_quoteLinesN {S : Bytes} (h : GQClass S) : ∀ k, GQClass (quoteLinesN k S)
  | 0 => h
  | k + 1 => by
    rw [quoteLinesN, quoteLines_eq]
    exact gqClass_prefix (gqClass_quoteLinesN h k)

/-- the class of the block-quote simulation (lists and blank lines) at EVERY level of nesting -/
theorem gqClass_classG_N {S : Bytes} (h : GQClass S) (k : Nat) :
    GM.Blocks.C08ClassG (quoteLinesN k S) ∧ (quoteLinesN k S).getLast? = some 10 :=
  ⟨gqClass_classG (gqClass_quoteLinesN h k), (gqClass_quoteLinesN h k).nl⟩

/-! ### quoted stage-6 documents -/

theorem gqclean_facts : ∀ c : UInt8, gqcleanByte c = true → c ≠ 9 ∧ c ≠ 13 ∧ c ≠ 91 := by
  apply forall_uint8; decide +kernel

theorem gqfrag_partsG (d : KDoc) (h : GQFrag d) :
    KFrag d ∧ d.items ≠ [] ∧ (∀ c ∈ spellK d, gqcleanByte c = true) ∧ noBarEnd (spellK d) = true := by
  have := h
  simp only [GQFrag, gqfragB, Bool.and_eq_true, List.all_eq_true, Bool.not_eq_true', List.isEmpty_eq_false_iff] at this
  exact ⟨this.1.1.1, this.1.1.2, this.1.2, this.2⟩

theorem gqfrag_kfrag (d : KDoc) (h : GQFrag d) : KFrag d := (gqfrag_partsG d h).1

theorem gqfrag_items_ne (d : KDoc) (h : GQFrag d) : d.items ≠ [] := (gqfrag_partsG d h).2.1

theorem gqclean_no_bracket (d : KDoc) (h : GQFrag d) : ∀ c ∈ spellK d, c ≠ 91 :=
  fun c hcm => (gqclean_facts c ((gqfrag_partsG d h).2.2.1 c hcm)).2.2

theorem gqclean_gqClass (d : KDoc) (h : GQFrag d) : GQClass (spellK d) := by
  obtain ⟨hk, hne, hc, hb⟩ := gqfrag_partsG d h
  exact
    { tf := fun c hcm => (gqclean_facts c (hc c hcm)).1
      cr := fun c hcm => (gqclean_facts c (hc c hcm)).2.1
      nl := (endsNl_spellKQ d (kfrag_okK d hk).1 hne).getLast
      nb := hb }

/-- the contents of a stage-22 document are in the class of the block-quote simulation with lists and blank lines -/
theorem gqclean_classG (d : KDoc) (h : GQFrag d) : GM.Blocks.C08ClassG (spellK d) :=
  gqClass_classG (gqclean_gqClass d h)

/-- … and so is the source at every level of nesting (`spellNQ k d = quoteLinesN (k + 1) (spellK d)`) -/
theorem gqclean_classG_N (d : KDoc) (h : GQFrag d) (k : Nat) :
    GM.Blocks.C08ClassG (quoteLinesN k (spellK d)) ∧ (quoteLinesN k (spellK d)).getLast? = some 10 :=
  gqClass_classG_N (gqclean_gqClass d h) k

/-! ### quoted union documents -/

theorem guqfrag_partsG (d : UDocS) (h : GUQFrag d) :
    UFrag d ∧ d.items ≠ [] ∧ (∀ it ∈ d.items, it.block.isIc = false) ∧ (∀ c ∈ spellU d, gqcleanByte c = true) ∧
      noBarEnd (spellU d) = true := by
  have := h
  simp only [GUQFrag, guqfragB, Bool.and_eq_true, List.all_eq_true, Bool.not_eq_true', List.isEmpty_eq_false_iff] at this
  exact ⟨this.1.1.1.1, this.1.1.1.2, this.1.1.2, this.1.2, this.2⟩

theorem guqfrag_ufrag {d : UDocS} (h : GUQFrag d) : UFrag d := (guqfrag_partsG d h).1

theorem guqfrag_items_ne {d : UDocS} (h : GUQFrag d) : d.items ≠ [] := (guqfrag_partsG d h).2.1

/-- a quoted union document has no indented code block -/
theorem guqfrag_noic {d : UDocS} (h : GUQFrag d) : ∀ it ∈ d.items, it.block.isIc = false := (guqfrag_partsG d h).2.2.1

theorem guqclean_no_bracket (d : UDocS) (h : GUQFrag d) : ∀ c ∈ spellU d, c ≠ 91 :=
  fun c hcm => (gqclean_facts c ((guqfrag_partsG d h).2.2.2.1 c hcm)).2.2

theorem guqclean_gqClass (d : UDocS) (h : GUQFrag d) : GQClass (spellU d) := by
  obtain ⟨hu, hne, _, hc, hb⟩ := guqfrag_partsG d h
  exact
    { tf := fun c hcm => (gqclean_facts c (hc c hcm)).1
      cr := fun c hcm => (gqclean_facts c (hc c hcm)).2.1
      nl := (uqendsNl_spellU d (ufrag_parts13 d hu).1 hne).getLast
      nb := hb }

theorem guqclean_classG (d : UDocS) (h : GUQFrag d) : GM.Blocks.C08ClassG (spellU d) :=
  gqClass_classG (guqclean_gqClass d h)

theorem guqclean_classG_N (d : UDocS) (h : GUQFrag d) (k : Nat) :
    GM.Blocks.C08ClassG (quoteLinesN k (spellU d)) ∧ (quoteLinesN k (spellU d)).getLast? = some 10 :=
  gqClass_classG_N (guqclean_gqClass d h) k

/-! ### the converse: `NoBar` gives `noBarEnd`, so `C08ClassG` itself is kept by the prefix -/

theorem gq_countLeading_ne (c b : UInt8) (l : Bytes) (h : b ≠ c) : countLeading c (b :: l) = 0 := by
  have e : (b == c) = false := by simpa using h
  simp [countLeading, List.takeWhile, e]

theorem gq_countLeading_space (ch : UInt8) (hch : isSpace ch = false) (ws : Bytes) (hws : ∀ x ∈ ws, isSpace x = true) :
    countLeading ch ws = 0 := by
  cases ws with
  | nil => rfl
  | cons w ws' =>
    refine gq_countLeading_ne ch w ws' ?_
    intro e
    have := hws w (List.mem_cons_self ..)
    rw [e, hch] at this
    cases this

theorem gq_takeWhile_stop {α} (p : α → Bool) (y : α) (hy : p y = false) : ∀ (A : List α), (∀ x ∈ A, p x = true) →
    (A ++ [y]).takeWhile p = A
  | [], _ => by simp [List.takeWhile, hy]
  | a :: A, h => by
    simp only [List.cons_append, List.takeWhile, h a (List.mem_cons_self ..)]
    rw [gq_takeWhile_stop p y hy A (fun x hx => h x (List.mem_cons_of_mem _ hx))]

/-- `-` or `=` followed by white space only is an underline -/
theorem gq_bar_ok (ch : UInt8) (hch : ch = 45 ∨ ch = 61) (ws : Bytes) (hws : ∀ x ∈ ws, isSpace x = true) :
    matchesSetextHeadingBar (ch :: ws) = .ok (ch, true) := by
  have hsp : isSpace ch = false := by rcases hch with rfl | rfl <;> rfl
  have h32 : countLeading 32 (ch :: ws) = 0 :=
    gq_countLeading_ne 32 ch ws (by rcases hch with rfl | rfl <;> decide)
  have hsl : slice (ch :: ws) 0 ((ch :: ws).length : Nat) = .ok (ch :: ws) := by
    unfold slice sliceB
    rw [if_pos ⟨Int.le_refl _, by omega, Int.le_refl _⟩]
    simp [sub]
  obtain ⟨last, hlast, hget⟩ := GM.Blocks.idx_ok (ch :: ws) (((ch :: ws).length : Nat) - 1)
    (by simp only [List.length_cons]; omega) (by omega)
  have htrim : trimRightSpaceLength (ch :: ws) = ws.length := by
    unfold trimRightSpaceLength
    rw [List.reverse_cons, gq_takeWhile_stop isSpace ch hsp _ (fun x hx => hws x (List.mem_reverse.mp hx))]
    simp
  have hrun : countLeading ch (ch :: ws) = 1 := by
    have := gq_countLeading_space ch hsp ws hws
    unfold countLeading at this ⊢
    simp only [List.takeWhile, beq_self_eq_true, List.length_cons, this]
  have hstop : (if isSpace last = true then (((ch :: ws).length : Nat) : Int) - ((trimRightSpaceLength (ch :: ws) : Nat) : Int)
      else (((ch :: ws).length : Nat) : Int)) = 1 := by
    rw [htrim]
    cases ws with
    | nil =>
      have e : last = ch := by simpa using hget.symm
      rw [e, hsp]; rfl
    | cons w ws' =>
      have hm : last ∈ w :: ws' := by
        have e : ((((ch :: w :: ws').length : Nat) : Int) - 1).toNat = ws'.length + 1 := by
          simp only [List.length_cons]; omega
        rw [e, List.getElem?_cons_succ] at hget
        exact List.mem_of_getElem? hget
      rw [hws last hm, if_pos rfl]
      simp only [List.length_cons]; omega
  unfold matchesSetextHeadingBar
  simp only [bind, Except.bind, pure, Except.pure, h32]
  simp only [Int.cast_ofNat_Int]
  rw [if_neg (by omega), hsl]
  simp only [hlast]
  rw [hstop]
  rcases hch with rfl | rfl
  · have h61 : countLeading 61 ((45 : UInt8) :: ws) = 0 := gq_countLeading_ne 61 45 ws (by decide)
    simp [h61, hrun]
  · simp [hrun]

theorem gq_endOK_false : ∀ c : UInt8, gqEndOK c = false → c = 45 ∨ c = 61 := by
  apply forall_uint8; decide +kernel

/-- no rest of a line of a suffix of the source is an underline -/
def GQNoBarL (t : Bytes) : Prop :=
  ∀ p, p < t.length → ∀ c, matchesSetextHeadingBar ((t.drop p).take (lineLen (t.drop p))) ≠ .ok (c, true)

theorem gqNoBarL_of_noBar (s : Bytes) (h : GM.Blocks.NoBar s) : GQNoBarL s := by
  intro p hp c
  have e : sub s p (lineEnd s p) = (s.drop p).take (lineLen (s.drop p)) := by
    unfold sub lineEnd
    rw [if_pos (by omega), Nat.add_sub_cancel_left]
  rw [← e]
  exact h p hp c

theorem gqNoBarL_tail {c : UInt8} {cs : Bytes} (h : GQNoBarL (c :: cs)) : GQNoBarL cs := by
  intro p hp ch
  have := h (p + 1) (by simp only [List.length_cons]; omega) ch
  rwa [List.drop_succ_cons] at this

theorem gq_noBarEndGo_of : ∀ (s : Bytes) (l : UInt8), GQNoBarL s →
    (gqEndOK l = false → ¬ ∀ x ∈ s.take (lineLen s), isSpace x = true) → noBarEndGo s l = true
  | [], l, _, hl => by
    rw [noBarEndGo]
    cases hg : gqEndOK l with
    | true => rfl
    | false => exact absurd (fun x hx => nomatch hx) (hl hg)
  | c :: cs, l, hP, hl => by
    rw [noBarEndGo]
    rw [lineLen] at hl
    cases hc : c == 10 with
    | true =>
      rw [hc] at hl
      simp only [if_true, Bool.and_eq_true]
      have e : c = 10 := by simpa using hc
      subst e
      refine ⟨?_, gq_noBarEndGo_of cs 0 (gqNoBarL_tail hP) (fun h => by cases h)⟩
      cases hg : gqEndOK l with
      | true => rfl
      | false =>
        refine absurd ?_ (hl hg)
        intro x hx
        have : x = 10 := by simpa using hx
        subst this; rfl
    | false =>
      rw [hc] at hl
      simp only [Bool.false_eq_true, if_false] at hl ⊢
      rw [Nat.add_comm, List.take_succ_cons] at hl
      rw [gq_space_eq c hc]
      refine gq_noBarEndGo_of cs _ (gqNoBarL_tail hP) ?_
      cases hs : isSpace c with
      | true =>
        simp only [if_true]
        intro hg hall
        refine hl hg ?_
        intro x hx
        rcases List.mem_cons.mp hx with rfl | hx
        · exact hs
        · exact hall x hx
      | false =>
        simp only [Bool.false_eq_true, if_false]
        intro hg hall
        have hch : c = 45 ∨ c = 61 := gq_endOK_false c hg
        have h0 := hP 0 (by simp) c
        rw [List.drop_zero, lineLen, hc] at h0
        simp only [Bool.false_eq_true, if_false] at h0
        rw [Nat.add_comm, List.take_succ_cons] at h0
        exact h0 (gq_bar_ok c hch _ hall)

theorem noBarEnd_of_noBar (s : Bytes) (h : GM.Blocks.NoBar s) : noBarEnd s = true :=
  gq_noBarEndGo_of s 0 (gqNoBarL_of_noBar s h) (fun hg => by cases hg)

theorem gqClass_of_classG {S : Bytes} (h : GM.Blocks.C08ClassG S) (hnl : S.getLast? = some 10) : GQClass S :=
  { tf := h.tf, cr := h.cr, nl := hnl, nb := noBarEnd_of_noBar S h.nobar }

/-- the class of the block-quote simulation with lists and blank lines is kept by the prefix (for sources that end with a
    line feed) -/
theorem c08ClassG_prefixN {S : Bytes} (h : GM.Blocks.C08ClassG S) (hnl : S.getLast? = some 10) :
    GM.Blocks.C08ClassG (quotePrefix S) ∧ (quotePrefix S).getLast? = some 10 :=
  ⟨gqClass_classG (gqClass_prefix (gqClass_of_classG h hnl)), (gqClass_prefix (gqClass_of_classG h hnl)).nl⟩

end GM.Proof.CMFrag
