/-
  GM.Proof.ShiftSimXRel — the state relation of the C09 shift simulation and the model's primitives under it.

  Run A works on the source `b`, run B on `F.p ++ b`. B's state is (almost) a FUNCTION of A's:
  * reader: `sB.r = shR F sA.r` (GM.Proof.ShiftSimXCalc), A's reader satisfies the reader invariant `RI`;
  * node store: A's node `j` is B's node `F.ι j` (`ι 0 = 0`, `ι j = j + c`), and is `shN F (j == 0)` of it: ids
    inside the node mapped by `ι`, every segment moved by `|p|`, B's Document has the children `kids0` in front.
    The relation is total over ids (beyond the stores both sides read `default`); B's nodes `1..c` are never looked at;
  * context: same keys (ids mapped), same open-block stack; `emptyItemBlank` is related only while a list is open
    (it survives the closing of its list: `GM.Props.C09.close_keeps_list_flags`); `BlockOffset/BlockIndent` are related
    in `SR` and not in the weak relation `SRw` that holds between lines (openBlocks writes them before anything reads them).
  `SRL` ("limbo"): what is left of `SR` after a leaf parser's `Open` advanced to the end of its line with an
  `Advance(n)` whose `n` is not known to be ≥ 0: stores and contexts related, readers related after the next
  `AdvanceLine` (nothing reads the reader in between).
-/
import GM.Proof.ShiftSimXCalc

namespace GM.Blocks.Xs
open GM GM.Text GM.Spec GM.Proof.Reader GM.Blocks

/-! ### ids, nodes, stores -/

def Frame.ι (F : Frame) (j : Nat) : Nat := if j = 0 then 0 else j + F.c

@[simp] theorem ι_zero (F : Frame) : F.ι 0 = 0 := rfl

theorem ι_pos (F : Frame) {j : Nat} (h : j ≠ 0) : F.ι j = j + F.c := by simp [Frame.ι, h]

theorem ι_inj (F : Frame) {i j : Nat} (h : F.ι i = F.ι j) : i = j := by
  unfold Frame.ι at h
  split at h <;> split at h <;> omega

theorem ι_eq_zero (F : Frame) {j : Nat} : F.ι j = 0 ↔ j = 0 := by
  unfold Frame.ι; split <;> omega

theorem ι_not_kid (F : Frame) (hF : F.OK) (j : Nat) : F.ι j ∉ F.kids0 := by
  intro hm
  have := hF.kids _ hm
  unfold Frame.ι at this
  split at this <;> omega

theorem ι_beq (F : Frame) (i j : Nat) : (F.ι i == F.ι j) = (i == j) := by
  by_cases h : i = j
  · subst h; simp
  · have : F.ι i ≠ F.ι j := fun e => h (ι_inj F e)
    rw [beq_eq_false_iff_ne.mpr this, beq_eq_false_iff_ne.mpr h]

/-- an HTML block's closure line: `{-1,-1}` (none) stays, a real segment is moved -/
def shClosure (d : Int) (s : Segment) : Segment := if s.start < 0 then s else moveSeg d s

/-- B's node as a function of A's (`root`: the Document) -/
def shN (F : Frame) (root : Bool) (n : Node) : Node :=
  { n with parent := n.parent.map F.ι,
           children := (if root then F.kids0 else []) ++ n.children.map F.ι,
           lines := n.lines.map (moveSeg F.d),
           info := n.info.map (moveSeg F.d),
           closure := shClosure F.d n.closure }

theorem shN_default (F : Frame) : shN F false (default : Node) = default := by
  simp [shN, shClosure, default, instInhabitedNode.default]

structure StoreRel (F : Frame) (nA nB : List Node) : Prop where
  pos : 0 < nA.length
  len : nB.length = nA.length + F.c
  node : ∀ j, nB.getD (F.ι j) default = shN F (j == 0) (nA.getD j default)
  doc : (nA.getD 0 default).kind = .document
  /-- B's old nodes `1..c` are never touched -/
  old : ∀ i, 1 ≤ i → i ≤ F.c → nB.getD i default = F.oldNodes.getD i default

/-! ### contexts -/

def shB (F : Frame) (b : Block) : Block := { b with node := F.ι b.node }
def shF (F : Frame) (f : FenceData) : FenceData := { f with node := F.ι f.node }

/-- a list or a list item is open -/
def ListOpen (a : Ctx) : Prop := ∃ x ∈ a.opened, x.bp = .list ∨ x.bp = .listItem

/-- the relation of the flag `emptyListItemWithBlankLines`. The flag survives the closing of its list
    (`GM.Props.C09.close_keeps_list_flags`), so after a prefix it may differ from a fresh run; it is read only by
    `listParser.Continue` / `listItemParser.Continue`. It is related (equal) only for frames with `flag = true`; the
    theorems that do not cover the list parsers hold for every frame. -/
def ListFlagRel (F : Frame) (a b : Ctx) : Prop := F.flag = true → b.emptyItemBlank = a.emptyItemBlank

/-- everything but `BlockOffset` / `BlockIndent` -/
structure CtxRelW (F : Frame) (a b : Ctx) : Prop where
  opened : b.opened = a.opened.map (shB F)
  tmpPara : b.tmpPara = a.tmpPara.map F.ι
  fence : b.fence = a.fence.map (shF F)
  skipList : b.skipList = a.skipList
  emptyItemBlank : ListFlagRel F a b

structure CtxRel (F : Frame) (a b : Ctx) : Prop extends CtxRelW F a b where
  blockOffset : b.blockOffset = a.blockOffset
  blockIndent : b.blockIndent = a.blockIndent

/-- the last opened block of A and of B -/
theorem CtxRelW.last {F : Frame} {a b : Ctx} (h : CtxRelW F a b) :
    b.opened.getLast? = a.opened.getLast?.map (shB F) := by
  rw [h.opened, List.getLast?_map]

/-! ### the state relations -/

/-- between lines: `BlockOffset` / `BlockIndent` not related -/
structure SRw (F : Frame) (b : Bytes) (sA sB : St) : Prop where
  ri : ∃ c, RI b sA.r c
  r : sB.r = shR F sA.r
  n : StoreRel F sA.nodes sB.nodes
  c : CtxRelW F sA.pc sB.pc

structure SR (F : Frame) (b : Bytes) (sA sB : St) : Prop where
  ri : ∃ c, RI b sA.r c
  r : sB.r = shR F sA.r
  n : StoreRel F sA.nodes sB.nodes
  c : CtxRel F sA.pc sB.pc

theorem SR.w {F b sA sB} (h : SR F b sA sB) : SRw F b sA sB := ⟨h.ri, h.r, h.n, h.c.toCtxRelW⟩

/-- stores and contexts related, the readers are `rA` / `rB` (not looked at, except for their sources): the relation
    under which `Close` functions and tree operations work -/
structure SRL (F : Frame) (b : Bytes) (rA rB : Reader) (sA sB : St) : Prop where
  ra : sA.r = rA
  rb : sB.r = rB
  srcA : rA.source = b
  srcB : rB.source = F.p ++ b ++ F.q
  n : StoreRel F sA.nodes sB.nodes
  c : CtxRel F sA.pc sB.pc

/-- "limbo": the readers are related after the next `AdvanceLine` (nothing reads them before) -/
def QNL (F : Frame) (b : Bytes) : Prop := F.q = [] ∨ b.getLast? = some 10

/-- run A's reader stands at the end of `b` after AdvanceLine, run B's at the first line of the suffix -/
def AtEndR (F : Frame) (b : Bytes) (rA rB : Reader) : Prop :=
  F.q ≠ [] ∧ rA.source = b ∧ rA.pos.stop = (b.length : Int) ∧ rB.source = F.p ++ b ++ F.q ∧
  rB.pos.stop = rA.pos.stop + F.d ∧ rB.pos.forceNewline = rA.pos.forceNewline ∧ rB.line = rA.line + F.dl

def Limbo (F : Frame) (b : Bytes) (rA rB : Reader) : Prop :=
  (∃ c, RI b rA.advanceLine c) ∧
    ((rB.advanceLine = shR F rA.advanceLine ∧ (F.q = [] ∨ rA.pos.stop < (b.length : Int))) ∨ AtEndR F b rA rB)

/-- after a leaf parser consumed its line with `Advance(n)`, `n` not known to be ≥ 0 -/
def SRLim (F : Frame) (b : Bytes) (sA sB : St) : Prop := SRL F b sA.r sB.r sA sB ∧ Limbo F b sA.r sB.r

theorem RI.start_nonneg {src r c} (h : RI src r c) : 0 ≤ r.pos.start := by rw [h.pos]; simp
theorem RI.stop_nonneg {src r c} (h : RI src r c) : 0 ≤ r.pos.stop := by rw [h.pos]; simp

theorem SR.l {F b sA sB} (h : SR F b sA sB) : SRL F b sA.r sB.r sA sB := by
  obtain ⟨c, hc⟩ := h.ri
  exact ⟨rfl, rfl, hc.source, by rw [h.r]; simp [shR, hc.source], h.n, h.c⟩

theorem SR.limbo {F b sA sB} (h : SR F b sA sB) (hq : QNL F b) : SRLim F b sA sB := by
  obtain ⟨c, hc⟩ := h.ri
  refine ⟨h.l, ⟨_, ri_advanceLine hc⟩, ?_⟩
  by_cases hlt : F.q = [] ∨ sA.r.pos.stop < (b.length : Int)
  · left
    refine ⟨?_, hlt⟩
    rw [h.r, advanceLine_sh F _ (RI.stop_nonneg hc)]
    rw [hc.source]
    rcases hlt with h1 | h1
    · exact .inl h1
    · rcases hq with h2 | h2
      · exact .inl h2
      · exact .inr ⟨h1, h2⟩
  · right
    have hle := GM.Blocks.lineEnd_le b c.p
    have hst : sA.r.pos.stop = (b.length : Int) := by
      have : ¬ sA.r.pos.stop < (b.length : Int) := fun x => hlt (.inr x)
      rw [hc.pos] at this ⊢; simp only at this ⊢; omega
    refine ⟨fun x => hlt (.inl x), hc.source, hst, by rw [h.r]; simp [shR, hc.source], by rw [h.r]; rfl,
      by rw [h.r]; rfl, by rw [h.r]; rfl⟩

/-- back from `SRL` when the readers are still the related ones -/
theorem SRL.sr {F b sA sB sA' sB'} (h0 : SR F b sA sB) (h : SRL F b sA.r sB.r sA' sB') : SR F b sA' sB' :=
  ⟨by rw [h.ra]; exact h0.ri, by rw [h.ra, h.rb]; exact h0.r, h.n, h.c⟩

/-- replace the readers -/
theorem SR.withR {F b sA sB} (h : SR F b sA sB) {rA : Reader} {c : RCur} (hc : RI b rA c) :
    SR F b { sA with r := rA } { sB with r := shR F rA } := ⟨⟨c, hc⟩, rfl, h.n, h.c⟩

theorem SRw.withR {F b sA sB} (h : SRw F b sA sB) {rA : Reader} {c : RCur} (hc : RI b rA c) :
    SRw F b { sA with r := rA } { sB with r := shR F rA } := ⟨⟨c, hc⟩, rfl, h.n, h.c⟩

/-! ### reader primitives

Each comes in a core form (readers only: `RD`), from which the `SR` and `SRw` forms follow. -/

/-- the reader part of the relation -/
def RD (F : Frame) (b : Bytes) (sA sB : St) : Prop := (∃ c, RI b sA.r c) ∧ sB.r = shR F sA.r

/-- only the readers changed, and they are related again -/
def RDstep (F : Frame) (b : Bytes) (sA sB sA' sB' : St) : Prop :=
  ∃ rA c, RI b rA c ∧ sA' = { sA with r := rA } ∧ sB' = { sB with r := shR F rA }

theorem RDstep.sr {F b sA sB sA' sB'} (h : SR F b sA sB) (hs : RDstep F b sA sB sA' sB') : SR F b sA' sB' := by
  obtain ⟨rA, c, hc, e1, e2⟩ := hs; subst e1 e2; exact h.withR hc

theorem RDstep.srw {F b sA sB sA' sB'} (h : SRw F b sA sB) (hs : RDstep F b sA sB sA' sB') : SRw F b sA' sB' := by
  obtain ⟨rA, c, hc, e1, e2⟩ := hs; subst e1 e2; exact h.withR hc

theorem RI.peek_hq {F : Frame} {b : Bytes} {r : Reader} {c : RCur} (hc : RI b r c)
    (hq : F.q = [] ∨ ∃ c, RI b r c ∧ c.p < b.length) :
    F.q = [] ∨ (r.pos.start < r.source.length ∧ r.pos.stop ≤ r.source.length) := by
  refine hq.imp id ?_
  rintro ⟨c', hc', hlt⟩
  have := GM.Blocks.lineEnd_le b c'.p
  rw [hc'.source, hc'.pos]; simp only; omega

theorem peekLine_core {F : Frame} {b : Bytes} {sA sB : St} (h : RD F b sA sB)
    (hq : F.q = [] ∨ ∃ c, RI b sA.r c ∧ c.p < b.length) :
    P2 (fun x y sA' sB' => (∃ c, RI b sA'.r c ∧ x = (RCur.view b c, RCur.seg b c)) ∧ y = (x.1, moveSeg F.d x.2) ∧
        RDstep F b sA sB sA' sB') (peekLine sA) (peekLine sB) := by
  obtain ⟨⟨c, hc⟩, hr⟩ := h
  obtain ⟨r', h1, h2⟩ := ri_peekLine hc
  have hB : sB.r.peekLine = .ok ((RCur.view b c, moveSeg F.d (RCur.seg b c)), shR F r') := by
    rw [hr, peekLine_sh F _ (RI.start_nonneg hc) (RI.peek_hq hc hq), h1]; rfl
  unfold GM.Blocks.peekLine
  rw [h1, hB]
  exact P2.ok ⟨⟨c, h2, rfl⟩, rfl, r', c, h2, rfl, rfl⟩

theorem lineOffset_core {F : Frame} {b : Bytes} {sA sB : St} (h : RD F b sA sB) :
    P2 (fun x y sA' sB' => y = x ∧ (∃ c, RI b sA'.r c ∧ (c.p < b.length → x = loVal b c)) ∧
        RDstep F b sA sB sA' sB') (lineOffset sA) (lineOffset sB) := by
  obtain ⟨⟨c, hc⟩, hr⟩ := h
  obtain ⟨v, r', h1, h2, h3⟩ := ri_lineOffset hc
  have hB : sB.r.lineOffsetOp = .ok (v, shR F r') := by
    rw [hr, lineOffsetOp_sh F _ hc.head (.inr (by have := hc.inRange; rw [hc.source, hc.pos]; simp only; omega)), h1]; rfl
  unfold GM.Blocks.lineOffset
  rw [h1, hB]
  exact P2.ok ⟨rfl, ⟨c, h2, h3⟩, r', c, h2, rfl, rfl⟩

/-- the simple sufficient condition for the suffix hypothesis of `advance_*`: the advance ends in front of the
    line's last byte -/
theorem RI.adv_hq {b : Bytes} {r : Reader} {c : RCur} (hc : RI b r c) {n : Int} (hn : 0 ≤ n)
    (h : r.pos.start + n < r.pos.stop) : r.pos.start < r.pos.stop ∧ r.pos.start + n < r.pos.stop + r.pos.padding := by
  rw [hc.pos] at h ⊢; simp only at h ⊢; omega

theorem advance_core {F : Frame} {b : Bytes} {sA sB : St} (h : RD F b sA sB) {n : Int} (hn : 0 ≤ n)
    (hq : F.q = [] ∨ (sA.r.pos.start < sA.r.pos.stop ∧ sA.r.pos.start + n < sA.r.pos.stop + sA.r.pos.padding)) :
    P2 (fun _ _ sA' sB' => RDstep F b sA sB sA' sB') (advance n sA) (advance n sB) := by
  obtain ⟨⟨c, hc⟩, hr⟩ := h
  obtain ⟨r', h1, h2⟩ := ri_advance hc hn
  have hB : sB.r.advance n = .ok (shR F r') := by
    rw [hr, advance_sh F _ n (RI.start_nonneg hc) (RI.stop_nonneg hc) (hq.imp id (RI.noLF hc)), h1]; rfl
  unfold GM.Blocks.advance
  rw [h1, hB]
  exact P2.ok ⟨r', _, h2, rfl, rfl⟩

theorem advanceAndSetPadding_core {F : Frame} {b : Bytes} {sA sB : St} (h : RD F b sA sB) {n : Int} (hn : 0 ≤ n)
    (pd : Int) (hq : F.q = [] ∨ (sA.r.pos.start < sA.r.pos.stop ∧ sA.r.pos.start + n < sA.r.pos.stop + sA.r.pos.padding)) :
    P2 (fun _ _ sA' sB' => RDstep F b sA sB sA' sB') (advanceAndSetPadding n pd sA) (advanceAndSetPadding n pd sB) := by
  obtain ⟨⟨c, hc⟩, hr⟩ := h
  obtain ⟨r', h1, h2⟩ := ri_advanceAndSetPadding hc hn pd
  have hB : sB.r.advanceAndSetPadding n pd = .ok (shR F r') := by
    rw [hr, advanceAndSetPadding_sh F _ n pd (RI.start_nonneg hc) (RI.stop_nonneg hc) (hq.imp id (RI.noLF hc)), h1]; rfl
  unfold GM.Blocks.advanceAndSetPadding
  rw [h1, hB]
  exact P2.ok ⟨r', _, h2, rfl, rfl⟩

theorem advanceLine_core {F : Frame} {b : Bytes} {sA sB : St} (h : RD F b sA sB)
    (hq : F.q = [] ∨ (sA.r.pos.stop < (b.length : Int) ∧ b.getLast? = some 10)) :
    P2 (fun _ _ sA' sB' => RDstep F b sA sB sA' sB') (advanceLine sA) (advanceLine sB) := by
  obtain ⟨⟨c, hc⟩, hr⟩ := h
  unfold GM.Blocks.advanceLine
  refine P2.ok ⟨_, _, ri_advanceLine hc, rfl, ?_⟩
  rw [hr, advanceLine_sh F _ (RI.stop_nonneg hc) (by rw [hc.source]; exact hq)]

theorem skipBlankLinesR_core {F : Frame} {b : Bytes} {sA sB : St} (h : RD F b sA sB) (hq : F.q = []) :
    P2 (fun x y sA' sB' => y = (moveSeg F.d x.1, x.2.1, x.2.2) ∧ RDstep F b sA sB sA' sB')
      (skipBlankLinesR sA) (skipBlankLinesR sB) := by
  obtain ⟨⟨c, hc⟩, hr⟩ := h
  intro x sA' y sB' e1 e2
  unfold skipBlankLinesR at e1 e2
  cases h1 : skipBlankLines readerOps (loopFuel sA.r.source) 0 sA.r with
  | error e => rw [h1] at e1; cases e1
  | ok v1 =>
    cases h2 : skipBlankLines readerOps (loopFuel sB.r.source) 0 sB.r with
    | error e => rw [h2] at e2; cases e2
    | ok v2 =>
      rw [h1] at e1; rw [h2] at e2
      cases e1; cases e2
      rw [hr] at h2
      obtain ⟨q1, q2, c', q3⟩ := skipBlankLines_sh F hq _ _ 0 sA.r c b hc v1.1 v1.2 v2.1 v2.2 h1 h2
      exact ⟨q1, v1.2, c', q3, rfl, by rw [q2]⟩

/-! SR forms -/

theorem SR.rd {F b sA sB} (h : SR F b sA sB) : RD F b sA sB := ⟨h.ri, h.r⟩
theorem SRw.rd {F b sA sB} (h : SRw F b sA sB) : RD F b sA sB := ⟨h.ri, h.r⟩

/-- `PeekLine`: the same line on both sides, B's segment moved. `x = (view, seg)` of A's cursor `c`: use
    `view_eq`, `view_none`, `view_len`, `seg_ok` (GM.Proof.BlocksTotal) for facts about them. -/
theorem peekLine_p2 {F b sA sB} (h : SR F b sA sB) (hq : F.q = [] ∨ ∃ c, RI b sA.r c ∧ c.p < b.length) :
    P2 (fun x y sA' sB' => (∃ c, RI b sA'.r c ∧ x = (RCur.view b c, RCur.seg b c)) ∧ y = (x.1, moveSeg F.d x.2) ∧
        SR F b sA' sB') (peekLine sA) (peekLine sB) :=
  (peekLine_core h.rd hq).mono fun _ _ _ _ ⟨h1, h2, h3⟩ => ⟨h1, h2, h3.sr h⟩

theorem lineOffset_p2 {F b sA sB} (h : SR F b sA sB) :
    P2 (fun x y sA' sB' => y = x ∧ (∃ c, RI b sA'.r c ∧ (c.p < b.length → x = loVal b c)) ∧ SR F b sA' sB')
      (lineOffset sA) (lineOffset sB) :=
  (lineOffset_core h.rd).mono fun _ _ _ _ ⟨h1, h2, h3⟩ => ⟨h1, h2, h3.sr h⟩

theorem advance_p2 {F b sA sB} (h : SR F b sA sB) {n m : Int} (hm : m = n) (hn : 0 ≤ n)
    (hq : F.q = [] ∨ (sA.r.pos.start < sA.r.pos.stop ∧ sA.r.pos.start + n < sA.r.pos.stop + sA.r.pos.padding)) :
    P2 (fun _ _ sA' sB' => SR F b sA' sB') (advance n sA) (advance m sB) := by
  subst hm; exact (advance_core h.rd hn hq).mono fun _ _ _ _ h3 => h3.sr h

theorem advanceAndSetPadding_p2 {F b sA sB} (h : SR F b sA sB) {n m pd pd' : Int} (hm : m = n) (hpd : pd' = pd)
    (hn : 0 ≤ n) (hq : F.q = [] ∨ (sA.r.pos.start < sA.r.pos.stop ∧ sA.r.pos.start + n < sA.r.pos.stop + sA.r.pos.padding)) :
    P2 (fun _ _ sA' sB' => SR F b sA' sB') (advanceAndSetPadding n pd sA) (advanceAndSetPadding m pd' sB) := by
  subst hm hpd; exact (advanceAndSetPadding_core h.rd hn _ hq).mono fun _ _ _ _ h3 => h3.sr h

theorem position_p2 {F b sA sB} (h : SR F b sA sB) :
    P2 (fun x y sA' sB' => x = sA.r.position ∧ y = (x.1 + F.dl, moveSeg F.d x.2) ∧ sA' = sA ∧ sB' = sB)
      (position sA) (position sB) := by
  unfold GM.Blocks.position
  refine P2.ok ⟨rfl, ?_, rfl, rfl⟩
  rw [h.r]; rfl

theorem source_p2 {F b sA sB} (h : SR F b sA sB) :
    P2 (fun x y sA' sB' => x = b ∧ y = F.p ++ b ++ F.q ∧ sA' = sA ∧ sB' = sB) (source sA) (source sB) := by
  unfold GM.Blocks.source
  obtain ⟨c, hc⟩ := h.ri
  refine P2.ok ⟨hc.source, ?_, rfl, rfl⟩
  rw [h.r]; simp [shR, hc.source]

theorem advanceLine_congr' {r r' : Reader} (h0 : 0 ≤ r.pos.stop) (hs : r'.source = r.source)
    (hstop : r'.pos.stop = r.pos.stop) (hf : r'.pos.forceNewline = r.pos.forceNewline) (hl : r'.line = r.line) :
    r'.advanceLine = r.advanceLine := by
  unfold Reader.advanceLine
  have h1 : ¬ r.pos.stop < 0 := by omega
  simp only [if_neg h1, hs, hstop, hf, hl]

/-- the last `Advance(n)` of a leaf parser's `Open`, any `n` (fcode_block.go / code_block.go advance by
    `segment.Len() - 1`): afterwards only `SRL` -/
theorem advance_limbo {F b sA sB} (h : SR F b sA sB) (n : Int) (hq : QNL F b)
    (hr : F.q = [] ∨ n < 0 ∨
      (sA.r.pos.start < sA.r.pos.stop ∧ sA.r.pos.start + n < sA.r.pos.stop + sA.r.pos.padding)) :
    P2 (fun _ _ sA' sB' => SRLim F b sA' sB') (advance n sA) (advance n sB) := by
  by_cases hn : 0 ≤ n
  · exact (advance_p2 h rfl hn (hr.imp id (fun x => x.resolve_left (by omega)))).mono fun _ _ _ _ h3 => h3.limbo hq
  · obtain ⟨c, hc⟩ := h.ri
    obtain ⟨r', e1, e2, e3, e4, e5⟩ := advance_neg_one_like sA.r n (by omega)
    obtain ⟨r'', f1, f2, f3, f4, f5⟩ := advance_neg_one_like sB.r n (by omega)
    unfold GM.Blocks.advance
    rw [e1, f1]
    have hl := h.limbo hq
    have hA : r'.advanceLine = sA.r.advanceLine :=
      advanceLine_congr' (RI.stop_nonneg hc) e2 e3 e4 e5
    have hB : r''.advanceLine = sB.r.advanceLine :=
      advanceLine_congr' (by rw [h.r]; have := RI.stop_nonneg hc; simp only [shR, moveSeg, Frame.d]; omega) f2 f3 f4 f5
    refine P2.ok ⟨⟨rfl, rfl, by simp only; rw [e2]; exact hl.1.srcA, by simp only; rw [f2]; exact hl.1.srcB, h.n, h.c⟩, ?_, ?_⟩
    · simp only; rw [hA]; exact hl.2.1
    · simp only
      rcases hl.2.2 with ⟨h2, h2'⟩ | ⟨a1, a2, a3, a4, a5, a6, a7⟩
      · left; rw [hA, hB, e3]; exact ⟨h2, h2'⟩
      · right
        exact ⟨a1, by rw [e2]; exact a2, by rw [e3]; exact a3, by rw [f2]; exact a4, by rw [f3, e3]; exact a5,
          by rw [f4, e4]; exact a6, by rw [f5, e5]; exact a7⟩
where
  advance_neg_one_like (r : Reader) (n : Int) (hn : n < 0) : ∃ r', r.advance n = .ok r' ∧ r'.source = r.source ∧
      r'.pos.stop = r.pos.stop ∧ r'.pos.forceNewline = r.pos.forceNewline ∧ r'.line = r.line := by
    unfold Reader.advance
    simp only
    have : n.toNat = 0 := by omega
    rw [this]
    split <;> split <;> exact ⟨_, rfl, rfl, rfl, rfl, rfl⟩

/-! ### node store and context primitives, under `SRL` (the core) and under `SR` -/

theorem getD_set_ne {α} (l : List α) (i j : Nat) (a d : α) (h : i ≠ j) : (l.set i a).getD j d = l.getD j d := by
  simp [List.getD_eq_getElem?_getD, List.getElem?_set, h]

theorem getD_set_eq {α} (l : List α) (i : Nat) (a d : α) (h : i < l.length) : (l.set i a).getD i d = a := by
  simp [List.getD_eq_getElem?_getD, List.getElem?_set, h]

theorem set_ge {α} (l : List α) (i : Nat) (a : α) (h : l.length ≤ i) : l.set i a = l := by
  apply List.ext_getElem?
  intro j
  rw [List.getElem?_set]
  split
  · next e => subst e; rw [if_neg (by omega)]; simp [List.getElem?_eq_none h]
  · rfl

theorem ι_lt {F : Frame} {nA nB : List Node} (h : StoreRel F nA nB) (i : Nat) : F.ι i < nB.length ↔ i < nA.length := by
  have := h.len; have := h.pos
  unfold Frame.ι; split <;> omega

theorem StoreRel.set {F : Frame} {nA nB : List Node} (h : StoreRel F nA nB) (id : Nat) {a b : Node}
    (hab : b = shN F (id == 0) a) (hk : id = 0 → a.kind = .document) :
    StoreRel F (nA.set id a) (nB.set (F.ι id) b) := by
  refine ⟨by simp [h.pos], by simp [h.len], fun i => ?_, ?_, fun i h1 h2 => ?_⟩
  rotate_left 2
  · rw [getD_set_ne _ _ _ _ _ (by unfold Frame.ι; split <;> omega)]; exact h.old i h1 h2
  · by_cases hi : i = id
    · subst hi
      by_cases hlt : i < nA.length
      · rw [getD_set_eq _ _ _ _ hlt, getD_set_eq _ _ _ _ ((ι_lt h i).mpr hlt)]; exact hab
      · rw [set_ge nA i a (by omega), set_ge nB (F.ι i) b (Nat.le_of_not_lt (fun hh => hlt ((ι_lt h i).mp hh)))]; exact h.node i
    · rw [getD_set_ne _ _ _ _ _ (Ne.symm hi), getD_set_ne _ _ _ _ _ (fun e => hi (ι_inj F e).symm)]; exact h.node i
  · by_cases hi : id = 0
    · subst hi
      rw [getD_set_eq _ _ _ _ h.pos]; exact hk rfl
    · rw [getD_set_ne _ _ _ _ _ hi]; exact h.doc

theorem getD_append_lt {α} (l : List α) (x d : α) (i : Nat) (h : i ≠ l.length) : (l ++ [x]).getD i d = l.getD i d := by
  simp only [List.getD_eq_getElem?_getD]
  rcases Nat.lt_or_ge i l.length with h1 | h1
  · rw [List.getElem?_append_left h1]
  · rw [List.getElem?_eq_none (by simp; omega), List.getElem?_eq_none h1]

theorem getD_append_eq {α} (l : List α) (x d : α) : (l ++ [x]).getD l.length d = x := by
  simp [List.getD_eq_getElem?_getD]

theorem getNode_l {F b rA rB sA sB} (h : SRL F b rA rB sA sB) (id : Nat) :
    P2 (fun x y sA' sB' => x = sA.nodes.getD id default ∧ y = shN F (id == 0) x ∧ sA' = sA ∧ sB' = sB)
      (getNode id sA) (getNode (F.ι id) sB) := by
  unfold getNode
  exact P2.ok ⟨rfl, h.n.node id, rfl, rfl⟩

/-- `fB` does to B's node what `fA` does to A's, and the kind is kept -/
theorem modNode_l {F b rA rB sA sB} (h : SRL F b rA rB sA sB) (id : Nat) (fA fB : Node → Node)
    (hf : ∀ a, fB (shN F (id == 0) a) = shN F (id == 0) (fA a)) (hk : ∀ a, (fA a).kind = a.kind) :
    P2 (fun _ _ sA' sB' => SRL F b rA rB sA' sB') (modNode id fA sA) (modNode (F.ι id) fB sB) := by
  unfold modNode
  refine P2.ok ⟨h.ra, h.rb, h.srcA, h.srcB, ?_, h.c⟩
  refine h.n.set id ?_ (fun e => ?_)
  · rw [h.n.node id]; exact hf _
  · subst e; rw [hk]; exact h.n.doc

theorem newNode_l {F b rA rB sA sB} (h : SRL F b rA rB sA sB) (nA nB : Node) (hn : nB = shN F false nA) :
    P2 (fun x y sA' sB' => x = sA.nodes.length ∧ y = F.ι x ∧ x ≠ 0 ∧ SRL F b rA rB sA' sB')
      (newNode nA sA) (newNode nB sB) := by
  unfold newNode
  have hpos := h.n.pos
  have hl : sB.nodes.length = F.ι sA.nodes.length := by rw [h.n.len, ι_pos F (by omega)]
  refine P2.ok ⟨rfl, hl, by omega, h.ra, h.rb, h.srcA, h.srcB, ⟨by simp, by simp [h.n.len]; omega, fun i => ?_, ?_, fun i h1 h2 => ?_⟩, h.c⟩
  rotate_left 2
  · rw [getD_append_lt _ _ _ _ (by rw [h.n.len]; omega)]; exact h.n.old i h1 h2
  · by_cases hi : i = sA.nodes.length
    · subst hi
      rw [getD_append_eq, ← hl, getD_append_eq]
      have : (sA.nodes.length == 0) = false := beq_eq_false_iff_ne.mpr (by omega)
      rw [this]; exact hn
    · rw [getD_append_lt _ _ _ _ hi, getD_append_lt _ _ _ _ (by rw [hl]; exact fun e => hi (ι_inj F e))]
      exact h.n.node i
  · rw [getD_append_lt _ _ _ _ (by omega)]; exact h.n.doc

theorem getPc_l {F b rA rB sA sB} (h : SRL F b rA rB sA sB) :
    P2 (fun x y sA' sB' => x = sA.pc ∧ y = sB.pc ∧ CtxRel F x y ∧ sA' = sA ∧ sB' = sB) (getPc sA) (getPc sB) := by
  unfold getPc
  exact P2.ok ⟨rfl, rfl, h.c, rfl, rfl⟩

theorem modPc_l {F b rA rB sA sB} (h : SRL F b rA rB sA sB) (fA fB : Ctx → Ctx)
    (hf : ∀ x y, CtxRel F x y → CtxRel F (fA x) (fB y)) :
    P2 (fun _ _ sA' sB' => SRL F b rA rB sA' sB') (modPc fA sA) (modPc fB sB) := by
  unfold modPc
  exact P2.ok ⟨h.ra, h.rb, h.srcA, h.srcB, h.n, hf _ _ h.c⟩

theorem source_l {F b rA rB sA sB} (h : SRL F b rA rB sA sB) :
    P2 (fun x y sA' sB' => x = b ∧ y = F.p ++ b ++ F.q ∧ sA' = sA ∧ sB' = sB) (source sA) (source sB) := by
  unfold GM.Blocks.source
  exact P2.ok ⟨by rw [h.ra]; exact h.srcA, by rw [h.rb]; exact h.srcB, rfl, rfl⟩

theorem lastOpenedBlock_l {F b rA rB sA sB} (h : SRL F b rA rB sA sB) :
    P2 (fun x y sA' sB' => x = sA.pc.opened.getLast? ∧ y = x.map (shB F) ∧ sA' = sA ∧ sB' = sB)
      (lastOpenedBlock sA) (lastOpenedBlock sB) := by
  unfold lastOpenedBlock
  refine P2.bind (getPc_l h) (fun x y sA' sB' hq => ?_)
  obtain ⟨hx, hy, hc, h1, h2⟩ := hq
  subst hx hy h1 h2
  exact P2.pure ⟨rfl, hc.toCtxRelW.last, rfl, rfl⟩

/-- `node.Lines().Append(seg)` -/
theorem appendLine_l {F b rA rB sA sB} (h : SRL F b rA rB sA sB) (id : Nat) {s t : Segment} (hst : t = moveSeg F.d s) :
    P2 (fun _ _ sA' sB' => SRL F b rA rB sA' sB') (appendLine id s sA) (appendLine (F.ι id) t sB) := by
  unfold appendLine
  refine modNode_l h id _ _ (fun a => ?_) (fun _ => rfl)
  subst hst
  simp [shN]

/-! the `SR` forms -/

theorem getNode_p2 {F b sA sB} (h : SR F b sA sB) (id : Nat) :
    P2 (fun x y sA' sB' => x = sA.nodes.getD id default ∧ y = shN F (id == 0) x ∧ sA' = sA ∧ sB' = sB)
      (getNode id sA) (getNode (F.ι id) sB) := getNode_l h.l id

theorem modNode_p2 {F b sA sB} (h : SR F b sA sB) (id : Nat) (fA fB : Node → Node)
    (hf : ∀ a, fB (shN F (id == 0) a) = shN F (id == 0) (fA a)) (hk : ∀ a, (fA a).kind = a.kind) :
    P2 (fun _ _ sA' sB' => SR F b sA' sB') (modNode id fA sA) (modNode (F.ι id) fB sB) :=
  (modNode_l h.l id fA fB hf hk).mono fun _ _ _ _ h1 => h1.sr h

theorem newNode_p2 {F b sA sB} (h : SR F b sA sB) (nA nB : Node) (hn : nB = shN F false nA) :
    P2 (fun x y sA' sB' => x = sA.nodes.length ∧ y = F.ι x ∧ x ≠ 0 ∧ SR F b sA' sB')
      (newNode nA sA) (newNode nB sB) :=
  (newNode_l h.l nA nB hn).mono fun _ _ _ _ ⟨h1, h2, h3, h4⟩ => ⟨h1, h2, h3, h4.sr h⟩

theorem getPc_p2 {F b sA sB} (h : SR F b sA sB) :
    P2 (fun x y sA' sB' => x = sA.pc ∧ y = sB.pc ∧ CtxRel F x y ∧ sA' = sA ∧ sB' = sB) (getPc sA) (getPc sB) :=
  getPc_l h.l

theorem modPc_p2 {F b sA sB} (h : SR F b sA sB) (fA fB : Ctx → Ctx)
    (hf : ∀ x y, CtxRel F x y → CtxRel F (fA x) (fB y)) :
    P2 (fun _ _ sA' sB' => SR F b sA' sB') (modPc fA sA) (modPc fB sB) :=
  (modPc_l h.l fA fB hf).mono fun _ _ _ _ h1 => h1.sr h

theorem lastOpenedBlock_p2 {F b sA sB} (h : SR F b sA sB) :
    P2 (fun x y sA' sB' => x = sA.pc.opened.getLast? ∧ y = x.map (shB F) ∧ sA' = sA ∧ sB' = sB)
      (lastOpenedBlock sA) (lastOpenedBlock sB) := lastOpenedBlock_l h.l

theorem appendLine_p2 {F b sA sB} (h : SR F b sA sB) (id : Nat) {s t : Segment} (hst : t = moveSeg F.d s) :
    P2 (fun _ _ sA' sB' => SR F b sA' sB') (appendLine id s sA) (appendLine (F.ι id) t sB) :=
  (appendLine_l h.l id hst).mono fun _ _ _ _ h1 => h1.sr h

end GM.Blocks.Xs
