/-
  GM.Proof.BlocksOrdCont — `Continue` of the raw leaf parsers (indented code, fenced code, HTML block) writes ONLY its
  own node: `FrN X m` = "whenever `m` ends normally, the store is as long as it was, every node but `X` is what it was,
  and `X` keeps its kind". A syntactic walk (tactic `frn`), in the style of `pres` (GM.Proof.BlocksPres): every
  `modNode` / `appendLine` of these functions names the parser's own node and leaves `kind` alone.
  Hence these calls never touch the lines of a Paragraph / Heading / TextBlock (`Inv.onlyN`).
-/
import GM.Proof.BlocksOrdInv

namespace GM.Blocks
open GM GM.Text GM.Spec GM.Proof.Reader
open GM.Proof.BlocksWF0 (isRaw)

/-- only node `X` may have changed, and it kept its kind -/
def OnlyN (X : Nat) (s s' : St) : Prop :=
  s'.nodes.length = s.nodes.length ∧ (∀ i, i ≠ X → nd s' i = nd s i) ∧ (nd s' X).kind = (nd s X).kind

theorem OnlyN.refl (X : Nat) (s : St) : OnlyN X s s := ⟨rfl, fun _ _ => rfl, rfl⟩
theorem OnlyN.trans {X : Nat} {a b c : St} (h1 : OnlyN X a b) (h2 : OnlyN X b c) : OnlyN X a c :=
  ⟨h2.1.trans h1.1, fun i hi => (h2.2.1 i hi).trans (h1.2.1 i hi), h2.2.2.trans h1.2.2⟩
theorem OnlyN.of_nodes {X : Nat} {s s' : St} (h : s'.nodes = s.nodes) : OnlyN X s s' :=
  ⟨by rw [h], fun i _ => by simp only [nd, h], by simp only [nd, h]⟩

structure FrN (X : Nat) {α : Type} (m : M α) : Prop where
  h : ∀ s a s', m s = .ok (a, s') → OnlyN X s s'

variable {X : Nat}

theorem FrN.pure {α} (a : α) : FrN X (pure a : M α) := ⟨fun s _ _ h => by cases h; exact OnlyN.refl X s⟩

theorem FrN.bind {α β} {m : M α} {f : α → M β} (hm : FrN X m) (hf : ∀ a, FrN X (f a)) : FrN X (m >>= f) := by
  constructor
  intro s b s' h
  obtain ⟨a, s1, h1, k1⟩ := obind_ok h
  exact (hm.h s a s1 h1).trans ((hf a).h s1 b s' k1)

theorem FrN.ite {α} {c : Prop} [Decidable c] {a b : M α} (ha : FrN X a) (hb : FrN X b) :
    FrN X (if c then a else b) := by split <;> assumption

theorem FrN.throw {α} (e : Panic) : FrN X (throw e : M α) := ⟨fun _ _ _ h => by cases h⟩

theorem getNode_frn (id : Nat) : FrN X (getNode id) := ⟨fun s _ _ h => by cases h; exact OnlyN.refl X s⟩
theorem getPc_frn : FrN X getPc := ⟨fun s _ _ h => by cases h; exact OnlyN.refl X s⟩
theorem source_frn : FrN X source := ⟨fun s _ _ h => by cases h; exact OnlyN.refl X s⟩
theorem position_frn : FrN X position := ⟨fun s _ _ h => by cases h; exact OnlyN.refl X s⟩
theorem modPc_frn (f : Ctx → Ctx) : FrN X (modPc f) := ⟨fun s _ _ h => by cases h; exact OnlyN.of_nodes rfl⟩
theorem setPosition_frn (l : Int) (p : Segment) : FrN X (setPosition l p) :=
  ⟨fun s _ _ h => by cases h; exact OnlyN.of_nodes rfl⟩

theorem liftE_frn {α} (e : Except Panic α) : FrN X (liftE e) :=
  ⟨fun s _ _ h => by obtain ⟨_, hs⟩ := oliftE_ok h; rw [hs]; exact OnlyN.refl X s⟩

/-- a program that only moves the reader -/
theorem reader_frn {α β} (f : Reader → Except Panic (α × Reader)) (g : α → β) :
    FrN X (fun s => do let (x, r) ← f s.r; Pure.pure (g x, { s with r := r }) : M β) := by
  constructor
  intro s a s' h
  cases hf : f s.r with
  | error e => simp [hf, bind, Except.bind] at h
  | ok p =>
    simp only [hf, bind, Except.bind, Pure.pure, Except.pure] at h
    cases h
    exact OnlyN.of_nodes rfl

theorem peekLine_frn : FrN X peekLine := reader_frn (fun r => r.peekLine) id
theorem lineOffset_frn : FrN X lineOffset := reader_frn (fun r => r.lineOffsetOp) id

theorem advance_frn (n : Int) : FrN X (advance n) := by
  constructor
  intro s a s' h
  unfold advance at h
  cases hf : s.r.advance n with
  | error e => simp [hf, bind, Except.bind] at h
  | ok p => simp only [hf, bind, Except.bind, Pure.pure, Except.pure] at h; cases h; exact OnlyN.of_nodes rfl

theorem advanceAndSetPadding_frn (n p : Int) : FrN X (advanceAndSetPadding n p) := by
  constructor
  intro s a s' h
  unfold advanceAndSetPadding at h
  cases hf : s.r.advanceAndSetPadding n p with
  | error e => simp [hf, bind, Except.bind] at h
  | ok q => simp only [hf, bind, Except.bind, Pure.pure, Except.pure] at h; cases h; exact OnlyN.of_nodes rfl

/-- writing node `X` with a function that keeps the kind -/
theorem modNode_frn (f : Node → Node) (hf : ∀ n, (f n).kind = n.kind) : FrN X (modNode X f) := by
  constructor
  intro s a s' h
  rw [omodNode_ok h]
  have hnd : ∀ i, nd ({ s with nodes := s.nodes.set X (f (s.nodes.getD X default)) } : St) i = nd (upd s X f) i :=
    fun _ => rfl
  refine ⟨by simp, fun i hi => ?_, ?_⟩
  · rw [hnd, nd_upd, if_neg (fun hh => hi hh.1.symm)]
  · rw [hnd, nd_upd]
    split
    · exact hf _
    · rfl

theorem appendLine_frn (seg : Segment) : FrN X (appendLine X seg) := modNode_frn _ (fun _ => rfl)

macro "frn_step" : tactic =>
  `(tactic| first
    | with_reducible apply FrN.pure
    | with_reducible apply FrN.bind
    | with_reducible apply FrN.ite
    | with_reducible apply FrN.throw
    | with_reducible apply getNode_frn
    | with_reducible apply getPc_frn
    | with_reducible apply source_frn
    | with_reducible apply position_frn
    | with_reducible apply modPc_frn
    | with_reducible apply setPosition_frn
    | with_reducible apply liftE_frn
    | with_reducible apply peekLine_frn
    | with_reducible apply lineOffset_frn
    | with_reducible apply advance_frn
    | with_reducible apply advanceAndSetPadding_frn
    | with_reducible apply appendLine_frn
    | (with_reducible apply modNode_frn; intro _; rfl)
    | apply_hyp
    | intro _
    | split)

/-- walk over an `M` do block -/
macro "frn" : tactic => `(tactic| repeat' frn_step)

theorem preserveLeadingTab_frn (seg : Segment) (ind : Int) : FrN X (preserveLeadingTab seg ind) := by
  unfold preserveLeadingTab; frn

theorem codeTakeLine_frn (pos padding : Int) : FrN X (codeTakeLine X pos padding) := by
  have := @preserveLeadingTab_frn X
  unfold codeTakeLine; frn

theorem codeContinue_frn : FrN X (codeContinue X) := by
  have := @codeTakeLine_frn X
  unfold codeContinue; frn

theorem fencedContinue_frn : FrN X (fencedContinue X) := by
  have := @preserveLeadingTab_frn X
  unfold fencedContinue; frn

theorem htmlContinue_frn : FrN X (htmlContinue X) := by
  unfold htmlContinue; frn

/-- a step that writes only a RAW node keeps the invariant (given the new store's range clause, the unchanged
    context keys, and the order clause for the new lines of that node) -/
theorem Inv.onlyN {src : Bytes} {B : Int} {s s' : St} (hi : Inv src B s) (h : OnlyN X s s')
    (hraw : isRaw (nd s X).kind = true) (hpc : s'.pc = s.pc) (hn : NodesOK src s')
    (hX : OrdFrom 0 (nd s' X).lines ∧ Below B (nd s' X).lines) : Inv src B s' := by
  have hk : ∀ i, (nd s' i).kind = (nd s i).kind := fun i => by
    by_cases hx : i = X
    · subst hx; exact h.2.2
    · rw [h.2.1 i hx]
  refine ⟨fun i => ?_, fun i hkp => ?_, fun i hkp => ?_, fun t ht => ?_, fun b hb => ?_, hn⟩
  · by_cases hx : i = X
    · subst hx
      exact ⟨(fun hr => by rw [h.2.2, hraw] at hr; cases hr), fun _ => hX,
        (fun hr => by rw [h.2.2, noLinesKind_of_raw hraw] at hr; cases hr)⟩
    · rw [h.2.1 i hx]; exact hi.nrb i
  · by_cases hx : i = X
    · subst hx; rw [h.2.2] at hkp; rw [hkp] at hraw; cases hraw
    · rw [h.2.1 i hx] at hkp ⊢; exact hi.pne i hkp
  · by_cases hx : i = X
    · subst hx; rw [h.2.2] at hkp; rw [hkp] at hraw; cases hraw
    · rw [h.2.1 i hx] at hkp ⊢; exact hi.pnb i hkp
  · rw [hpc] at ht; rw [hk]; exact hi.tmpk t ht
  · rw [hpc] at hb; rw [hk, h.1]; exact hi.kinds b hb

end GM.Blocks
