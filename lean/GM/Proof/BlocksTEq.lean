/-
  GM.Proof.BlocksTEq — first steps towards `runT [] = run` (the block driver with paragraph transformers,
  GM.Model.Blocks.DriverT, instantiated with the EMPTY list of transformers is the driver of GM.Model.Blocks.Driver):
  `transformParagraph [] = pure false`, `closeLoopT [] = closeLoop`, `closeBlocksT [] = closeBlocks`. The remaining
  functions (`tryParsersT`, the retry loop, the line loops) differ only by the dead `retryTransformed` branch; their
  equalities are not mechanised (both drivers are tied to the real parser separately: components `blocks` and `convert`).
-/
import GM.Model.Blocks.DriverT

namespace GM.Blocks
open GM GM.Text

theorem transformParagraph_nil (n : Nat) : transformParagraph [] n = pure false := by
  unfold transformParagraph; rfl

theorem closeLoopT_nil (blocks : List Block) (to : Int) : ∀ k, closeLoopT [] blocks to k = closeLoop blocks to k
  | 0 => by unfold closeLoopT closeLoop; rfl
  | k + 1 => by
    unfold closeLoopT closeLoop
    rw [closeLoopT_nil blocks to k]
    funext s
    simp only [bind, StateT.bind, liftE, transformParagraph_nil, getNode, pure, StateT.pure, Except.pure, Except.bind]
    cases blockAt blocks (to + ↑k) with
    | error e => rfl
    | ok b =>
      simp only [Except.map]
      split <;> rfl

theorem closeBlocksT_nil (frm to : Int) : closeBlocksT [] frm to = closeBlocks frm to := by
  unfold closeBlocksT closeBlocks
  simp only [closeLoopT_nil]

end GM.Blocks
