/-
  GM.Proof.LinkRefAdj2 — the LANDING lemma of SkipSpaces on the block cursor (any paddings), and the reader helpers of
  the link reference definition scanner as steps on a block reader that stands for a well-formed cursor with `PadOK`
  (`BP` of GM.Proof.LinkRefPad), each with what the adjacency / totality proof of GM.Proof.LinkRefAdj3 needs: the line
  number and the byte offset never go back, a found closer / an `Advance` inside the line leaves the cursor on a line of
  the block, the segments FindClosure hands out are fit for `Value`.

  `NoBlank src segs`: no line of the block is blank (what the paragraph parser guarantees: it never appends a blank
  line). `Bnd c L` ("the cursor is bound for line `L`"): the cursor's line is exhausted, or it stands on line `L` in front
  of something that is not white space, or it stands on line `L - 1` in front of white space only. SkipSpaces from such a
  cursor ends with the block exhausted or ON LINE `L` in front of a byte that is not white space.
-/
import GM.Proof.LinkRefAdj1

namespace GM.Proof.LinkRefAdj
open GM GM.Text GM.Spec GM.Inl GM.LinkRef GM.Proof.Reader GM.Proof.InlinesReader GM.Proof.BlockReaderFuel
open GM.Proof.LinkRefPad

variable {src : Bytes} {segs : List Segment} {NB : Prop}

theorem sub_cons_tail {src : Bytes} {a b : Nat} {x : UInt8} {xs : Bytes} (h : sub src a b = x :: xs) :
    sub src (a + 1) b = xs := by
  unfold sub at h ⊢
  cases hd : src.drop a with
  | nil => rw [hd] at h; simp at h
  | cons y ys =>
    rw [hd] at h
    have e : src.drop (a + 1) = ys := by
      have : src.drop (a + 1) = (src.drop a).drop 1 := by rw [List.drop_drop]
      rw [this, hd]; rfl
    rw [e]
    cases hm : b - a with
    | zero => rw [hm] at h; simp at h
    | succ m =>
      rw [hm] at h
      simp only [List.take_succ_cons, List.cons.injEq] at h
      have : b - (a + 1) = m := by omega
      rw [this]; exact h.2

theorem isBlank_spaces_append (n : Nat) (l : Bytes) : isBlank (spaces n ++ l) = isBlank l := by
  unfold isBlank spaces
  rw [List.all_append]
  have : (List.replicate n (32 : UInt8)).all isSpace = true := by
    rw [List.all_eq_true]; intro x hx; rw [List.mem_replicate] at hx; rw [hx.2]; decide
  rw [this, Bool.true_and]

/-- no line of the block is blank -/
def NoBlank (src : Bytes) (segs : List Segment) : Prop :=
  ∀ j : Int, 0 ≤ j → j < BCur.k segs →
    isBlank (sub src (BCur.segOf segs j).start.toNat (BCur.segOf segs j).stop.toNat) = false

theorem view_lineCur (F : SegFacts src segs) {j : Int} (h0 : 0 ≤ j) (h1 : j < BCur.k segs) :
    BCur.view src segs (lineCur segs j) = some (spaces (BCur.segOf segs j).padding.toNat ++
      sub src (BCur.segOf segs j).start.toNat (BCur.segOf segs j).stop.toNat) := by
  have r := F.rng j h0 h1
  have hs := stop_le_last F h0 h1
  have hl : BCur.live segs (lineCur segs j) = true := by
    simp only [BCur.live, lineCur]
    rw [Bool.and_eq_true]
    exact ⟨decide_eq_true h1, decide_eq_true (by omega)⟩
  unfold BCur.view
  rw [if_pos hl]
  simp [lineCur, BCur.stopOf, h1]

theorem bwf_lineCur (F : SegFacts src segs) {j : Int} (h0 : 0 ≤ j) (h1 : j < BCur.k segs) : BWF segs (lineCur segs j) := by
  have r := F.rng j h0 h1
  exact { ln0 := h0, pad0 := r.2.2.2.1, inLine := fun _ => ⟨Int.le_refl _, Or.inl r.2.1⟩,
          past := fun h => by simp only [lineCur] at h; omega }

/-- one byte of the view forward: inside the line the view loses its first byte; behind the last byte of a line the cursor
    is at the head of the next line, or the block is exhausted -/
theorem adv1_view (F : SegFacts src segs) {c : BCur} (w : BWF segs c) {b : UInt8} {bs : Bytes}
    (hv : BCur.view src segs c = some (b :: bs)) :
    (bs ≠ [] ∧ BCur.view src segs (BCur.adv1 segs c) = some bs ∧ (BCur.adv1 segs c).ln = c.ln) ∨
    (bs = [] ∧ c.ln + 1 < BCur.k segs ∧ BCur.adv1 segs c = lineCur segs (c.ln + 1)) ∨
    (bs = [] ∧ BCur.k segs ≤ c.ln + 1 ∧ BCur.view src segs (BCur.adv1 segs c) = none) := by
  obtain ⟨_, _, hlive, _, hplt⟩ := bcur_view_len F w hv
  have hl := hlive
  simp only [BCur.live, Bool.and_eq_true, decide_eq_true_eq] at hl
  obtain ⟨l1, l2⟩ := hl
  have i1 := w.inLine l1
  have i2 := F.rng c.ln w.ln0 l1
  have hsl := stop_le_last F w.ln0 l1
  have hst : BCur.stopOf segs c = (BCur.segOf segs c.ln).stop := by simp [BCur.stopOf, l1]
  have hp0 := w.pad0
  simp only [BCur.view, hlive, if_true, Option.some.injEq] at hv
  have hsublen : (sub src c.p.toNat (BCur.stopOf segs c).toNat).length = (BCur.stopOf segs c).toNat - c.p.toNat :=
    length_sub src (b := (BCur.stopOf segs c).toNat) (by omega)
  by_cases hz : c.pad = 0
  · -- no padding left: a real byte
    rw [hz] at hv
    simp only [Int.toNat_zero, spaces, List.replicate_zero, List.nil_append] at hv
    have hlen : (bs.length : Int) + 1 = BCur.stopOf segs c - c.p := by
      have := congrArg List.length hv
      rw [hsublen] at this
      simp only [List.length_cons] at this
      omega
    have htail := sub_cons_tail hv
    by_cases hin : c.p + 1 < BCur.stopOf segs c
    · have e : BCur.adv1 segs c = { c with p := c.p + 1 } := by simp [BCur.adv1, hz, hin]
      left
      refine ⟨by intro hb; rw [hb] at hlen; simp at hlen; omega, ?_, by rw [e]⟩
      rw [e]
      have hl' : BCur.live segs { c with p := c.p + 1 } = true := by
        simp only [BCur.live, Bool.and_eq_true, decide_eq_true_eq]; exact ⟨l1, by omega⟩
      have hst' : BCur.stopOf segs { c with p := c.p + 1 } = BCur.stopOf segs c := by simp [BCur.stopOf]
      have : (c.p + 1).toNat = c.p.toNat + 1 := by omega
      unfold BCur.view
      rw [if_pos hl', hst']
      simp only [hz, Int.toNat_zero, spaces, List.replicate_zero, List.nil_append]
      rw [this, htail]
    · have hbs : bs = [] := by
        have : bs.length = 0 := by omega
        exact List.eq_nil_of_length_eq_zero this
      by_cases hk : BCur.k segs ≤ c.ln + 1
      · have e : BCur.adv1 segs c = { c with p := c.p + 1 } := by simp [BCur.adv1, hz, hk]
        right; right
        refine ⟨hbs, hk, ?_⟩
        rw [e]
        have hlast := F.last
        have ek : BCur.k segs - 1 = c.ln := by omega
        rw [ek] at hlast
        have hl' : BCur.live segs { c with p := c.p + 1 } = false := by
          simp only [BCur.live, Bool.and_eq_false_imp, decide_eq_true_eq, decide_eq_false_iff_not]
          intro _; omega
        simp [BCur.view, hl']
      · have e : BCur.adv1 segs c = lineCur segs (c.ln + 1) := by
          simp only [BCur.adv1, hz, ne_eq, not_true_eq_false, if_false, lineCur]
          rw [if_neg (by omega)]
        right; left
        exact ⟨hbs, by omega, e⟩
  · -- virtual padding: a space of the padding
    have hpos : 0 < c.pad := by omega
    have e : BCur.adv1 segs c = { c with pad := c.pad - 1 } := by simp [BCur.adv1, hz]
    have hsp : spaces c.pad.toNat = 32 :: spaces (c.pad - 1).toNat := by
      have : c.pad.toNat = (c.pad - 1).toNat + 1 := by omega
      rw [this]; simp [spaces, List.replicate_succ]
    rw [hsp] at hv
    simp only [List.cons_append, List.cons.injEq] at hv
    left
    refine ⟨?_, ?_, by rw [e]⟩
    · intro hb
      have := congrArg List.length hv.2
      rw [hb] at this
      simp only [List.length_append, List.length_nil, hsublen] at this
      omega
    · rw [e]
      have hl' : BCur.live segs { c with pad := c.pad - 1 } = true := by
        simp only [BCur.live, Bool.and_eq_true, decide_eq_true_eq]; exact ⟨l1, l2⟩
      have hst' : BCur.stopOf segs { c with pad := c.pad - 1 } = BCur.stopOf segs c := by simp [BCur.stopOf]
      simp only [BCur.view, hl', if_true, hst']
      rw [hv.2]

/-- "the cursor is bound for line `L`" -/
def Bnd (src : Bytes) (segs : List Segment) (c : BCur) (L : Int) : Prop :=
  BCur.view src segs c = none ∨
    ∃ l, BCur.view src segs c = some l ∧ ((c.ln = L ∧ isBlank l = false) ∨ (c.ln + 1 = L ∧ isBlank l = true))

theorem ssl_land (F : SegFacts src segs) (seg : Segment) :
    ∀ (l : Bytes) (i chars : Int) (c : BCur) (L : Int) res ch c', BWF segs c →
    ((l ≠ [] ∧ BCur.view src segs c = some l ∧ c.ln = L) ∨
      (l = [] ∧ ((L + 1 < BCur.k segs ∧ c = lineCur segs (L + 1)) ∨ (BCur.k segs ≤ L + 1 ∧ BCur.view src segs c = none)))) →
    skipSpacesLine (BCur.ops src segs) seg l i chars c = .ok (res, ch, c') →
    BWF segs c' ∧
    (res.isSome = true → ∃ b rest, BCur.view src segs c' = some (b :: rest) ∧ isSpace b = false ∧ c'.ln = L ∧ b ∈ l) ∧
    (res = none → isBlank l = true ∧
      ((L + 1 < BCur.k segs ∧ c' = lineCur segs (L + 1)) ∨ (BCur.k segs ≤ L + 1 ∧ BCur.view src segs c' = none))) := by
  intro l
  induction l with
  | nil =>
    intro i chars c L res ch c' w hyp h
    simp only [skipSpacesLine, pure, Except.pure, Except.ok.injEq, Prod.mk.injEq] at h
    obtain ⟨rfl, _, rfl⟩ := h
    rcases hyp with ⟨hne, _⟩ | ⟨_, hyp⟩
    · exact absurd rfl hne
    · exact ⟨w, by simp, fun _ => ⟨rfl, hyp⟩⟩
  | cons b bs ih =>
    intro i chars c L res ch c' w hyp h
    rcases hyp with ⟨_, hv, hL⟩ | ⟨hnil, _⟩
    · simp only [skipSpacesLine] at h
      split at h
      · rename_i hsp
        obtain ⟨v1, v2, hlive, _, _⟩ := bcur_view_len F w hv
        have ha : (BCur.ops src segs).advance 1 c = .ok (BCur.adv1 segs c) := by
          simp only [BCur.ops, BCur.advance]
          rw [if_pos ⟨by omega, by omega⟩]; rfl
        rw [ha] at h
        simp only [bind, Except.bind] at h
        obtain ⟨_, w1⟩ := rem_adv1 F w hlive
        have hyp1 : (bs ≠ [] ∧ BCur.view src segs (BCur.adv1 segs c) = some bs ∧ (BCur.adv1 segs c).ln = L) ∨
            (bs = [] ∧ ((L + 1 < BCur.k segs ∧ BCur.adv1 segs c = lineCur segs (L + 1)) ∨
              (BCur.k segs ≤ L + 1 ∧ BCur.view src segs (BCur.adv1 segs c) = none))) := by
          rcases adv1_view F w hv with ⟨a1, a2, a3⟩ | ⟨a1, a2, a3⟩ | ⟨a1, a2, a3⟩
          · exact .inl ⟨a1, a2, by omega⟩
          · exact .inr ⟨a1, .inl ⟨by omega, by rw [a3, hL]⟩⟩
          · exact .inr ⟨a1, .inr ⟨by omega, a3⟩⟩
        obtain ⟨g1, g2, g3⟩ := ih (i + 1) (chars + 1) _ L res ch c' w1 hyp1 h
        refine ⟨g1, ?_, ?_⟩
        · intro hs
          obtain ⟨b', rest, k1, k2, k3, k4⟩ := g2 hs
          exact ⟨b', rest, k1, k2, k3, List.mem_cons_of_mem _ k4⟩
        · intro hn
          obtain ⟨k1, k2⟩ := g3 hn
          refine ⟨?_, k2⟩
          simp only [isBlank, List.all_cons, Bool.and_eq_true] at k1 ⊢
          exact ⟨hsp, k1⟩
      · rename_i hsp
        simp only [pure, Except.pure, Except.ok.injEq, Prod.mk.injEq] at h
        obtain ⟨rfl, _, rfl⟩ := h
        exact ⟨w, fun _ => ⟨b, bs, hv, by simpa using hsp, hL, List.mem_cons_self ..⟩, by intro hh; cases hh⟩
    · cases hnil

/-- **the landing lemma of SkipSpaces** -/
theorem skipSpaces_land (F : SegFacts src segs) (hnb : NB → NoBlank src segs) :
    ∀ (fuel : Nat) (chars : Int) (c : BCur) (L : Int) x c', BWF segs c →
    skipSpaces (BCur.ops src segs) fuel chars c = .ok (x, c') →
    BCur.view src segs c' = none ∨
      ∃ b rest, BCur.view src segs c' = some (b :: rest) ∧ isSpace b = false ∧ (NB → Bnd src segs c L → c'.ln = L) := by
  intro fuel
  induction fuel with
  | zero => intro chars c L x c' _ h; simp [skipSpaces] at h
  | succ f ih =>
    intro chars c L x c' w h
    have hpl : (BCur.ops src segs).peekLine c = .ok ((BCur.view src segs c, BCur.seg segs c), c) := rfl
    simp only [skipSpaces, hpl, bind, Except.bind] at h
    cases hv : BCur.view src segs c with
    | none =>
      rw [hv] at h
      simp only [pure, Except.pure, Except.ok.injEq, Prod.mk.injEq] at h
      obtain ⟨_, rfl⟩ := h
      exact .inl hv
    | some l =>
      rw [hv] at h
      simp only at h
      obtain ⟨v1, _, _, _, _⟩ := bcur_view_len F w hv
      have hne : l ≠ [] := by intro e; rw [e] at v1; simp at v1
      cases hs : skipSpacesLine (BCur.ops src segs) (BCur.seg segs c) l 0 chars c with
      | error er => rw [hs] at h; simp at h
      | ok y =>
        obtain ⟨res, ch, c1⟩ := y
        rw [hs] at h
        obtain ⟨g1, g2, g3⟩ := ssl_land F (BCur.seg segs c) l 0 chars c c.ln res ch c1 w (.inl ⟨hne, hv, rfl⟩) hs
        cases res with
        | some v =>
          simp only [pure, Except.pure, Except.ok.injEq, Prod.mk.injEq] at h
          obtain ⟨_, rfl⟩ := h
          obtain ⟨b, rest, k1, k2, k3, k4⟩ := g2 rfl
          refine .inr ⟨b, rest, k1, k2, ?_⟩
          intro _ hb
          rcases hb with hb | ⟨l', hl', hb⟩
          · rw [hb] at hv; cases hv
          · rw [hv] at hl'; cases hl'
            rcases hb with ⟨e, _⟩ | ⟨_, hbl⟩
            · omega
            · have : isSpace b = true := by
                simp only [isBlank, List.all_eq_true] at hbl
                exact hbl b k4
              rw [this] at k2; cases k2
        | none =>
          simp only at h
          obtain ⟨k1, k2⟩ := g3 rfl
          rcases ih ch c1 L x c' g1 h with r | ⟨b, rest, r1, r2, r3⟩
          · exact .inl r
          · refine .inr ⟨b, rest, r1, r2, ?_⟩
            intro hN hb
            apply r3 hN
            rcases hb with hb | ⟨l', hl', hb⟩
            · rw [hb] at hv; cases hv
            · rw [hv] at hl'; cases hl'
              rcases hb with ⟨_, hbl⟩ | ⟨e, _⟩
              · rw [k1] at hbl; cases hbl
              · rcases k2 with ⟨q1, q2⟩ | ⟨_, q2⟩
                · have hq0 : 0 ≤ c.ln + 1 := by have := w.ln0; omega
                  right
                  refine ⟨_, by rw [q2]; exact view_lineCur F hq0 q1, .inl ⟨by rw [q2]; simp only [lineCur]; omega, ?_⟩⟩
                  rw [isBlank_spaces_append]
                  exact hnb hN _ hq0 q1
                · exact .inl q2

/-! ### the helpers as steps on `BP` -/

theorem J_self {c : BCur} (w : BWF segs c) (pd : PadOK segs c) : J segs c.ln c.p c :=
  ⟨w, pd, Int.le_refl _, Int.le_refl _⟩

theorem skipSpaces_bp (W : WFSegs src segs) (hnb : NB → NoBlank src segs) {r : BlockReader} {c : BCur} (h : BP src segs r c) :
    ∃ x r' c', skipSpaces blockOps (rdFuel r) 0 r = .ok (x, r') ∧ BP src segs r' c' ∧ c.ln ≤ c'.ln ∧ c.p ≤ c'.p ∧
      (BCur.view src segs c' = none ∨
        ∃ b rest, BCur.view src segs c' = some (b :: rest) ∧ isSpace b = false ∧ ∀ L, NB → Bnd src segs c L → c'.ln = L) := by
  have F := segFacts W
  obtain ⟨x, c', e, _, _⟩ := bcur_skipSpaces_ok (src := src) F (rdFuel r) 0 h.abs.wf (rdFuel_gt_pad W h)
  obtain ⟨w', pd', j1, j2⟩ := skipSpaces_J F (J_self h.abs.wf h.pad) e
  obtain ⟨r', e', a'⟩ := skipSpaces_sim (blockSim F) (rdFuel r) h.abs e
  refine ⟨x, r', c', e', ⟨a', pd'⟩, j1, j2, ?_⟩
  by_cases hv : BCur.view src segs c' = none
  · exact .inl hv
  · right
    rcases skipSpaces_land F hnb (rdFuel r) 0 c 0 x c' h.abs.wf e with q | ⟨b, rest, q1, q2, _⟩
    · exact absurd q hv
    · refine ⟨b, rest, q1, q2, ?_⟩
      intro L hN hb
      rcases skipSpaces_land F hnb (rdFuel r) 0 c L x c' h.abs.wf e with q | ⟨_, _, _, _, q3⟩
      · exact absurd q hv
      · exact q3 hN hb

theorem findClosure_bp (W : WFSegs src segs) {r : BlockReader} {c : BCur} (h : BP src segs r c) (o cl : UInt8) (hcl : cl ≠ 32) :
    ∃ x r' c', findClosure blockOps (rdFuel r) o cl linkFindClosureOptions r = .ok (x, r') ∧ BP src segs r' c' ∧
      c.ln ≤ c'.ln ∧ c.p ≤ c'.p ∧ (x.2 = true → c'.ln < BCur.k segs) ∧
      (∀ s ∈ x.1.getD [], c.p ≤ s.start ∧ s.start ≤ s.stop) := by
  have F := segFacts W
  obtain ⟨x, c', e, _⟩ := bcur_findClosure_ok (src := src) F o cl linkFindClosureOptions (rdFuel r) h.abs.wf (rdFuel_gt_pad W h)
  obtain ⟨w', pd', j1, j2⟩ := findClosure_J F (J_self h.abs.wf h.pad) e
  obtain ⟨f1, f2⟩ := findClosure_facts F o cl hcl (rdFuel r) h.abs.wf e
  obtain ⟨r', e', a'⟩ := findClosure_sim (blockSim F) (rdFuel r) o cl linkFindClosureOptions h.abs e
  exact ⟨x, r', c', e', ⟨a', pd'⟩, j1, j2, f1, f2⟩

theorem advance_bp (W : WFSegs src segs) {r : BlockReader} {c : BCur} (h : BP src segs r c) {l : Bytes}
    (hv : BCur.view src segs c = some l) {n : Int} (h0 : 0 ≤ n) (hn : n ≤ l.length) :
    ∃ r' c', r.advance n = .ok r' ∧ BP src segs r' c' ∧ c.ln ≤ c'.ln ∧ c.p ≤ c'.p ∧ c'.ln < BCur.k segs ∧
      (c.pad = 0 → 1 ≤ n → c.p < c'.p) := by
  have F := segFacts W
  have hr := (bcur_view_len F h.abs.wf hv).2.1
  have hs : BCur.advance segs n c = .ok (BCur.advN segs n.toNat c) := by
    simp only [BCur.advance]; rw [if_pos ⟨h0, by omega⟩]
  obtain ⟨r', hr', ha⟩ := badvance_ref F h.abs hs
  have h1 := advN_ln (segs := segs) n.toNat c
  have h2 := advN_p F n.toNat h.abs.wf (by omega)
  exact ⟨r', _, hr', ⟨ha, padOK_advN _ h.pad⟩, h1.1, h2.1, h1.2 (view_live hv), fun hz h1n => h2.2 hz (by omega)⟩

end GM.Proof.LinkRefAdj
