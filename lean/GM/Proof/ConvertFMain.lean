/-
  GM.Proof.ConvertFMain — facts about the composition GM.ConvertF.convertF: fuel exhaustion reduced to the two phase loops,
  what the inline parser's accept path returns, the C16 composition relative to the evaluated tree/abstraction agreement.
-/
import GM.Proof.ConvertFOff
import GM.Proof.ConvertFDecline
import GM.Proof.Footnote
import GM.Proof.ConvertFTree

namespace GM.ConvertF
open GM GM.Text GM.Blocks GM.Convert

/-! ### fuel exhaustion -/

/-- the block phase with the footnote block parser never exhausts its fuel (STATED; see GM.Props.C16E2E) -/
def BlockNoLoopF : Prop := ∀ src : Bytes, blockPhaseF true true src ≠ .error .loop

/-- the inline loop over the table with the footnote parser, behind the run-time check, never exhausts its fuel (STATED) -/
def InlineNoLoopF : Prop :=
  ∀ (refs : Option (List Bytes)) (env : GM.Inl.Env) (src : Bytes) (lines : List Segment),
    GM.LinkRef.wf0B src lines = true → GM.Inl.parseBlockX env (inlineTblF true refs) src lines ≠ .error .loop

theorem inlinePhaseF_noLoop (hI : InlineNoLoopF) (refs : Option (List Bytes)) (env : GM.Inl.Env) (src : Bytes) (n : Blocks.Node)
    {e : Err} (h : inlinePhaseF true true refs env src n = .error e) : e.isLoop = false := by
  unfold inlinePhaseF at h
  split at h
  · cases h
  · split at h
    · cases h
    · split at h
      · cases h; rfl
      · rename_i hw
        have hw' : GM.LinkRef.wf0B src n.lines = true := by
          simp only [Bool.true_and, Bool.not_eq_true', Bool.not_eq_false] at hw
          cases hb : GM.LinkRef.wf0B src n.lines with
          | true => rfl
          | false => rw [hb] at hw; simp at hw
        have := hI refs env src n.lines hw'
        cases hp : GM.Inl.parseBlockX env (inlineTblF true refs) src n.lines with
        | ok v => rw [hp] at h; cases h
        | error p =>
          rw [hp] at h
          simp only [liftErr, Except.error.injEq] at h
          subst h
          cases p <;> first | rfl | exact absurd hp this

open GM.Proof.ConvertTotal in
mutual
theorem docTreeF_noLoop (hI : InlineNoLoopF) (refs : Option (List Bytes)) (env : GM.Inl.Env) (src : Bytes) :
    ∀ (t : FTree) (e : Err), docTreeF true true refs env src t = .error e → e.isLoop = false
  | .node tag n cs, e, h => by
    unfold docTreeF at h
    simp only [bind, Except.bind] at h
    cases h1 : docTreesF true true refs env src cs with
    | error e1 => rw [h1] at h; cases h; exact docTreesF_noLoop hI refs env src cs _ h1
    | ok bs =>
      rw [h1] at h
      simp only at h
      cases h2 : inlinePhaseF true true refs env src n with
      | error e2 => rw [h2] at h; cases h; exact inlinePhaseF_noLoop hI refs env src n h2
      | ok kids =>
        rw [h2] at h
        simp only at h
        cases h3 : liftErr Err.value (inlineTreesF true (refs.getD []).length src kids) with
        | error e3 => rw [h3] at h; cases h; exact liftErr_value_noLoop h3
        | ok is =>
          rw [h3] at h
          simp only at h
          cases h4 : liftErr Err.value (blockKindF tag src n) with
          | error e4 => rw [h4] at h; cases h; exact liftErr_value_noLoop h4
          | ok k => rw [h4] at h; cases h
theorem docTreesF_noLoop (hI : InlineNoLoopF) (refs : Option (List Bytes)) (env : GM.Inl.Env) (src : Bytes) :
    ∀ (ts : List FTree) (e : Err), docTreesF true true refs env src ts = .error e → e.isLoop = false
  | [], e, h => by unfold docTreesF at h; cases h
  | t :: rest, e, h => by
    unfold docTreesF at h
    simp only [bind, Except.bind] at h
    cases h1 : docTreeF true true refs env src t with
    | error e1 => rw [h1] at h; cases h; exact docTreeF_noLoop hI refs env src t _ h1
    | ok x =>
      rw [h1] at h
      simp only at h
      cases h2 : docTreesF true true refs env src rest with
      | error e2 => rw [h2] at h; cases h; exact docTreesF_noLoop hI refs env src rest _ h2
      | ok xs => rw [h2] at h; cases h
end

theorem renderDocF_noLoop (on : Bool) (pre : Option Bytes) (o : ROpts) (t : GM.Node) {e : Err}
    (h : renderDocF on pre o t = .error e) : e.isLoop = false := by
  unfold renderDocF at h
  split at h
  · cases h; rfl
  · cases h

theorem parsePhases_noLoop_of (hB : BlockNoLoopF) (hI : InlineNoLoopF) (uc : List (Nat × (Bool × Bool))) (src : Bytes) {e : Err}
    (hp : parsePhases true true uc src = .error e) : e.isLoop = false := by
  unfold parsePhases at hp
  simp only [bind, Except.bind] at hp
  cases hb : blockPhaseF true true src with
  | error p =>
    rw [hb] at hp
    simp only [liftErr] at hp
    cases hp
    have := hB src
    cases p <;> first | rfl | exact absurd hb this
  | ok fs =>
    obtain ⟨f, st⟩ := fs
    rw [hb] at hp
    simp only [liftErr] at hp
    by_cases hc : monitorFires f st (treeOfF f st.nodes st.nodes.length .body 0) = true
    · simp only [hc, if_true] at hp
      cases hp; rfl
    · simp only [hc, Bool.false_eq_true, if_false] at hp
      cases hd : docTreeF true true (if f.list.isSome = true then some (labelsOf f st) else none)
          { refs := st.pc.refs, uc := uc } src (treeOfF f st.nodes st.nodes.length .body 0) with
      | error e2 => rw [hd] at hp; cases hp; exact docTreeF_noLoop hI _ _ src _ _ hd
      | ok t => rw [hd] at hp; cases hp

theorem convertF_noLoop_of (hB : BlockNoLoopF) (hI : InlineNoLoopF) (pre : Option Bytes) (uc : List (Nat × (Bool × Bool)))
    (o : ROpts) (src : Bytes) {e : Err} (h : convertF true pre uc o src = .error e) : e.isLoop = false := by
  unfold convertF convertFWith at h
  simp only [bind, Except.bind] at h
  cases hp : parseDocF true true uc src with
  | ok t => rw [hp] at h; exact renderDocF_noLoop true pre o t h
  | error e1 =>
    rw [hp] at h
    cases h
    unfold parseDocF at hp
    simp only [bind, Except.bind] at hp
    cases hq : parsePhases true true uc src with
    | error e2 => rw [hq] at hp; cases hp; exact parsePhases_noLoop_of hB hI uc src hq
    | ok v => rw [hq] at hp; cases hp

/-! ### the accept path of the inline parser -/

/-- `resolve` finds the FIRST definition with that label: the position GM.Spec.Footnote.resolve? names -/
theorem resolve_sound : ∀ (rs : List Bytes) (v : Bytes) (k0 k : Nat), resolve rs v k0 = some k →
    ∃ j, k = k0 + j ∧ rs[j]? = some v ∧ GM.Spec.Footnote.resolve? rs v = some j
  | [], _, _, _, h => by simp [resolve] at h
  | l :: ls, v, k0, k, h => by
    unfold resolve at h
    by_cases hl : l = v
    · subst hl
      simp only [beq_self_eq_true, if_true, Option.some.injEq] at h
      exact ⟨0, by omega, rfl, by simp [GM.Spec.Footnote.resolve?]⟩
    · have : (l == v) = false := by simp [hl]
      simp only [this, Bool.false_eq_true, if_false] at h
      obtain ⟨j, hj, hg, hr⟩ := resolve_sound ls v (k0 + 1) k h
      exact ⟨j + 1, by omega, by simpa using hg, by simp [GM.Spec.Footnote.resolve?, hl, hr]⟩

/-- every node (*footnoteParser).Parse returns is a FootnoteLink for a definition of the list: the one its label resolved to -/
theorem parseFootnote_node (rs : Option (List Bytes)) (env : GM.Inl.Env) (st : GM.Inl.St) :
    ∀ r n, parseFootnote rs env st = .ok r → r.1 = some n →
      ∃ labels v k, rs = some labels ∧ resolve labels v 0 = some k ∧ n = fnLinkNode k := by
  intro r n hr hn
  unfold parseFootnote at hr
  simp only [bind, Except.bind, pure, Except.pure] at hr
  cases hpl : st.rd.peekLine with
  | error e => rw [hpl] at hr; cases hr
  | ok pl =>
    obtain ⟨⟨line, segment⟩, rd⟩ := pl
    rw [hpl] at hr
    simp only [] at hr
    repeat' split at hr
    all_goals first
      | (cases hr; cases hn; done)
      | (cases hr; simp only [Option.some.injEq] at hn; subst hn; exact ⟨_, _, _, rfl, by assumption, rfl⟩)
      | cases hr

/-! ### C16 on the rendered tree, relative to the evaluated agreement of tree and abstraction -/

open GM.Footnote GM.Spec.Footnote in
/-- when the tree shows the output of the abstraction (`treeOutput = absOutput`), what the renderer writes satisfies the six
    clauses of C16 -/
theorem consistent_of_shows (pre : Bytes) (labels : List Bytes) (evs : List Event) (t : GM.Node)
    (h : treeOutput pre t = absOutput pre labels evs) :
    ∃ o : Output, Consistent pre labels (evs.map (·.label)) o ∧
      (treeOutput pre t).1 = o.items.map (fun it => (it.id, it.backs)) ∧ (treeOutput pre t).2 = o.refs :=
  ⟨GM.Footnote.render pre labels evs, GM.Proof.Footnote.consistent pre labels evs, by rw [h]; rfl, by rw [h]; rfl⟩

end GM.ConvertF
