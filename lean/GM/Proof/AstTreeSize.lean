/-
  GM.Proof.AstTreeSize — the tree unfolded from an acyclic forest with unique parents mentions every
  node at most once, so its size is bounded by the number of allocated nodes (Walk's fuel bound).
-/
import GM.Proof.AstWalk

namespace GM.Proof.AstHeap
open GM.Spec GM.Spec.Forest GM.AstHeap GM.Proof.ForestLists

mutual
def nodes : Tree → List Nat
  | .node a ks => a :: nodesL ks
def nodesL : List Tree → List Nat
  | [] => []
  | t :: ts => nodes t ++ nodesL ts
end

mutual
theorem size_eq_length : ∀ t : Tree, t.size = (nodes t).length
  | .node a ks => by simp [Tree.size, nodes, sizeL_eq_length ks]; omega
theorem sizeL_eq_length : ∀ ts : List Tree, Tree.sizeL ts = (nodesL ts).length
  | [] => rfl
  | t :: ts => by simp [Tree.sizeL, nodesL, size_eq_length t, sizeL_eq_length ts]
end

theorem idsL_cons (t : Tree) (ts : List Tree) : Tree.idsL (t :: ts) = t.id :: Tree.idsL ts := by
  cases t; simp [Tree.idsL, Tree.id]

theorem desc_trans {f : Forest} {a b c : Nat} (h1 : Desc f a b) (h2 : Desc f b c) : Desc f a c := by
  induction h2 with
  | refl => exact h1
  | step _ hc ih => exact Desc.step ih hc

mutual
theorem nodes_desc {f : Forest} : ∀ (t : Tree), Tree.IsTree f t → ∀ x ∈ nodes t, Desc f t.id x
  | .node a ks, ht, x, hx => by
    simp only [Tree.IsTree] at ht
    simp only [nodes, List.mem_cons] at hx
    rcases hx with e | hx
    · subst e; exact Desc.refl _
    · obtain ⟨k, hk, hd⟩ := nodesL_desc ks ht.2 x hx
      exact desc_trans (Desc.step (Desc.refl a) (ht.1 ▸ hk)) hd
theorem nodesL_desc {f : Forest} : ∀ (ts : List Tree), Tree.IsTreeL f ts → ∀ x ∈ nodesL ts,
    ∃ k ∈ Tree.idsL ts, Desc f k x
  | [], _, x, hx => by simp [nodesL] at hx
  | t :: ts, ht, x, hx => by
    simp only [Tree.IsTreeL] at ht
    simp only [nodesL, List.mem_append] at hx
    rw [idsL_cons]
    rcases hx with hx | hx
    · exact ⟨t.id, by simp, nodes_desc t ht.1 x hx⟩
    · obtain ⟨k, hk, hd⟩ := nodesL_desc ts ht.2 x hx
      exact ⟨k, by simp [hk], hd⟩
end

section unique
variable {f : Forest} (UP : ∀ c p q, c ∈ f p → c ∈ f q → p = q)
  {ht : Nat → Nat} (hht : ∀ q x, x ∈ f q → ht x < ht q)
include hht

theorem desc_ht {a b : Nat} (h : Desc f a b) : ht b ≤ ht a := by
  induction h with
  | refl => exact Nat.le_refl _
  | step _ hc ih => have := hht _ _ hc; omega

include UP

/-- the ancestors of a node form a chain -/
theorem desc_chain {k k' x : Nat} (h1 : Desc f k x) (h2 : Desc f k' x) : Desc f k k' ∨ Desc f k' k := by
  induction h1 generalizing k' with
  | refl => exact Or.inr h2
  | step hkb hx ih =>
    rename_i b x'
    cases h2 with
    | refl => exact Or.inl (Desc.step hkb hx)
    | step hk'b' hx' =>
      rename_i b'
      have : b' = b := UP _ _ _ hx' hx
      subst this
      exact ih hk'b'

/-- subtrees below two different children of one node share no node -/
theorem siblings_disjoint {a k k' x : Nat} (hk : k ∈ f a) (hk' : k' ∈ f a) (hne : k ≠ k')
    (h1 : Desc f k x) (h2 : Desc f k' x) : False := by
  have aux : ∀ {u v : Nat}, u ∈ f a → v ∈ f a → u ≠ v → Desc f u v → False := by
    intro u v hu hv huv hd
    cases hd with
    | refl => exact huv rfl
    | step hub hvb =>
      rename_i b
      have : b = a := UP _ _ _ hvb hv
      subst this
      have h1 := desc_ht hht hub
      have h2 := hht _ _ hu
      omega
  rcases desc_chain UP hht h1 h2 with h | h
  · exact aux hk hk' hne h
  · exact aux hk' hk (fun e => hne e.symm) h

mutual
theorem nodes_nodup : ∀ (t : Tree), Tree.IsTree f t → (∀ p, (f p).Nodup) → (nodes t).Nodup
  | .node a ks, hT, ND => by
    simp only [Tree.IsTree] at hT
    simp only [nodes, List.nodup_cons]
    refine ⟨?_, nodesL_nodup ks a hT.2 ND (fun k hk => hT.1 ▸ hk) (hT.1 ▸ ND a)⟩
    intro hm
    obtain ⟨k, hk, hd⟩ := nodesL_desc ks hT.2 a hm
    have h1 := desc_ht hht hd
    have h2 := hht a k (hT.1 ▸ hk)
    omega
theorem nodesL_nodup : ∀ (ts : List Tree) (a : Nat), Tree.IsTreeL f ts → (∀ p, (f p).Nodup) →
    (∀ k ∈ Tree.idsL ts, k ∈ f a) → (Tree.idsL ts).Nodup → (nodesL ts).Nodup
  | [], _, _, _, _, _ => by simp [nodesL]
  | t :: ts, a, hT, ND, hsub, hnd => by
    simp only [Tree.IsTreeL] at hT
    rw [idsL_cons] at hsub hnd
    have hnd' := List.nodup_cons.1 hnd
    simp only [nodesL, List.nodup_append]
    refine ⟨nodes_nodup t hT.1 ND, nodesL_nodup ts a hT.2 ND (fun k hk => hsub k (by simp [hk])) hnd'.2, ?_⟩
    intro x hx y hy e
    subst e
    obtain ⟨k, hk, hd⟩ := nodesL_desc ts hT.2 x hy
    have hne : t.id ≠ k := fun e => hnd'.1 (e ▸ hk)
    exact siblings_disjoint UP hht (hsub t.id (by simp)) (hsub k (by simp [hk])) hne
      (nodes_desc t hT.1 x hx) hd
end
end unique

/-- size of the unfolded tree ≤ number of allocated nodes -/
theorem tree_size_le {h : Heap} {f : Forest} (A : Abs h f) (hA : Acyclic f) {n : Nat} (B : Bounded n f)
    {t : Tree} (hT : Tree.IsTree f t) (hroot : t.id < n) : t.size ≤ n := by
  obtain ⟨ht, hht⟩ := hA
  have nd := nodes_nodup (fun c p q hp hq => A.disjoint hp hq) hht t hT A.nodup
  rw [size_eq_length]
  apply length_le_of_nodup_lt nd
  intro x hx
  have hd := nodes_desc t hT x hx
  cases hd with
  | refl => exact hroot
  | step _ hxb => exact B _ _ hxb


/-! ### the derived parent -/

theorem find?_unique {l : List Nat} {P : Nat → Bool} {p : Nat} (hp : p ∈ l) (hP : P p = true)
    (hu : ∀ q ∈ l, P q = true → q = p) : l.find? P = some p := by
  induction l with
  | nil => simp at hp
  | cons a t ih =>
    simp only [List.find?_cons]
    cases ha : P a with
    | true => simp [hu a (by simp) ha]
    | false =>
      simp only
      have : p ∈ t := by
        rcases List.mem_cons.1 hp with e | e
        · subst e; rw [hP] at ha; cases ha
        · exact e
      exact ih this (fun q hq => hu q (by simp [hq]))

theorem parentOf_eq {h : Heap} {f : Forest} (A : Abs h f) {n c p : Nat} (hp : p < n)
    (hc : h.parent c = some p) : parentOf n f c = some p := by
  have hm := (A.parent c p).1 hc
  apply find?_unique (by simp [hp]) (by simpa using hm)
  intro q _ hq
  exact A.disjoint (by simpa using hq) hm

end GM.Proof.AstHeap
