/-
  GM.Proof.CMFragNSeg — the segment facts of GM.Proof.CMFragQSeg / CMFragQPara for the ITERATED block-quote simulation
  (a quote inside a quote …): the input lines are already in position-list form (`LinesAtG`), the shape "natural-number
  bounds, non-empty, inside the source" (`NatSegs`) is kept by the images, and the classes (`C08Class`, no `[`) are
  kept by `quotePrefix`. Core Lean only.
-/
import GM.Proof.CMFragQPara
import GM.Proof.CMFragClassQ
namespace GM.Proof.CMFrag
open GM GM.Text GM.Blocks

/-- a non-last line of `LinesAtG` and its line feed lie inside the source -/
theorem linesAtG_boundN {S : Bytes} {p p' : Nat} {ps : List Nat} {l l' : Bytes} {rest : List Bytes}
    (h : LinesAtG S (p :: p' :: ps) (l :: l' :: rest)) : p + l.length + 1 ≤ S.length := by
  have hbd := paraEndG_boundsG rest ps p' l' h.2.2
  have hpp := h.2.1
  omega

/-- `segsRel_paraQ` for lines given by positions -/
theorem segsRel_paraG_N {S : Bytes} : ∀ (ls : List Bytes) (ps : List Nat) (L' : List Segment), LinesAtG S ps ls →
    (∀ l ∈ ls, l ≠ []) → SegsRel S (paraSegsG ps ls) L' →
    ∃ ps' : List Nat, L' = paraSegsG ps' ls ∧ LinesAtG (quotePrefix S) ps' ls
  | [], [], L', _, _, h => by
    cases L' with
    | nil => exact ⟨[], rfl, trivial⟩
    | cons _ _ => exact h.elim
  | [], [_], _, hla, _, _ => hla.elim
  | [], _ :: _ :: _, _, hla, _, _ => hla.elim
  | [_], [], _, hla, _, _ => hla.elim
  | [_], _ :: _ :: _, _, hla, _, _ => hla.elim
  | _ :: _ :: _, [], _, hla, _, _ => hla.elim
  | _ :: _ :: _, [_], _, hla, _, _ => hla.elim
  | [l], [p], L', hla, hne, h => by
    cases L' with
    | nil => exact h.elim
    | cons t L'' =>
      cases L'' with
      | cons _ _ => exact h.2.elim
      | nil =>
        have hl : 0 < l.length := List.length_pos_iff.mpr (hne l (List.mem_singleton.mpr rfl))
        have h1 : SegRel S { start := (p : Int), stop := (p : Int) + (l.length : Int) } t := h.1
        obtain ⟨A, ht, h2, h3, _⟩ := segRel_transportQ_int (n := l.length) h1 rfl hl hla.2
        refine ⟨[A], ?_, ?_, h2⟩
        · show [t] = [{ start := (A : Int), stop := (A : Int) + (l.length : Int) }]
          rw [ht ((A : Int) + (l.length : Int)) rfl]
        · rw [h3]; exact hla.1
  | l :: l' :: rest, p :: p' :: ps0, L', hla, hne, h => by
    cases L' with
    | nil => exact h.elim
    | cons t1 L1 =>
      have h1 : SegRel S { start := (p : Int), stop := (p : Int) + (l.length : Int) + 1 } t1 := h.1
      have hr : SegsRel S (paraSegsG (p' :: ps0) (l' :: rest)) L1 := h.2
      have hb : p + l.length + 1 ≤ S.length := linesAtG_boundN hla
      obtain ⟨hs, hpp, hla'⟩ := hla
      have hl' : 0 < l'.length :=
        List.length_pos_iff.mpr (hne l' (List.mem_cons_of_mem _ (List.mem_cons_self ..)))
      obtain ⟨ps, hL1, hG⟩ := segsRel_paraG_N (l' :: rest) (p' :: ps0) L1 hla'
        (fun x hx => hne x (List.mem_cons_of_mem _ hx)) hr
      obtain ⟨A1, ht1, _, s1, r1⟩ := segRel_transportQ_int (n := l.length + 1) h1 (by omega) (by omega) hb
      cases ps with
      | nil => exact hG.elim
      | cons A2 ps' =>
        have key : A1 + (l.length + 1) ≤ A2 := by
          subst hL1
          cases rest with
          | nil =>
            cases ps0 with
            | cons _ _ => exact hla'.elim
            | nil =>
              cases ps' with
              | cons _ _ => exact hG.elim
              | nil =>
                have h2 : SegRel S
                    { start := (p' : Int), stop := (p' : Int) + (l'.length : Int) }
                    { start := (A2 : Int), stop := (A2 : Int) + (l'.length : Int) } := hr.1
                exact segRel_orderQ_int (m := l'.length) r1 h2 rfl rfl (by omega) hl' (by omega) hla'.2
          | cons l'' rest' =>
            cases ps0 with
            | nil => exact hla'.elim
            | cons p'' ps00 =>
              cases ps' with
              | nil => exact hG.elim
              | cons A3 ps'' =>
                have hb' : p' + l'.length + 1 ≤ S.length := linesAtG_boundN hla'
                have h2 : SegRel S
                    { start := (p' : Int), stop := (p' : Int) + (l'.length : Int) + 1 }
                    { start := (A2 : Int), stop := (A2 : Int) + (l'.length : Int) + 1 } := hr.1
                exact segRel_orderQ_int (m := l'.length + 1) r1 h2 (by omega) (by omega) (by omega) (by omega)
                  (by omega) (by omega)
        refine ⟨A1 :: A2 :: ps', ?_, ?_, by omega, hG⟩
        · show t1 :: L1 = { start := (A1 : Int), stop := (A1 : Int) + (l.length : Int) + 1 } ::
            paraSegsG (A2 :: ps') (l' :: rest)
          rw [hL1, ht1 ((A1 : Int) + (l.length : Int) + 1) (by omega)]
        · exact s1.trans hs

/-- the shape "natural-number bounds, non-empty, inside the source" is kept by the images -/
def NatSegs (S : Bytes) (L : List Segment) : Prop :=
  ∀ s ∈ L, ∃ (a b : Nat) (fn : Bool),
    s = { start := (a : Int), stop := (b : Int), padding := 0, forceNewline := fn } ∧ a < b ∧ b ≤ S.length

theorem natSegs_imageN {S : Bytes} : ∀ (L L' : List Segment), SegsRel S L L' → NatSegs S L →
    NatSegs (quotePrefix S) L'
  | [], [], _, _ => fun _ hm => nomatch hm
  | [], _ :: _, h, _ => h.elim
  | _ :: _, [], h, _ => h.elim
  | s :: L, t :: L', ⟨h1, h2⟩, hs => by
    have ih := natSegs_imageN L L' h2 (fun x hx => hs x (List.mem_cons_of_mem _ hx))
    obtain ⟨a, b, fn, rfl, hab, hb⟩ := hs s (List.mem_cons_self ..)
    obtain ⟨A, ht, hA, _, _⟩ := segRel_transportQ h1 hab hb
    intro x hx
    rcases List.mem_cons.mp hx with rfl | hx
    · exact ⟨A, A + (b - a), fn, ht, by omega, hA⟩
    · exact ih x hx

theorem natSeg_imageN {S : Bytes} {s t : Segment} (h : SegRel S s t) (hs : NatSegs S [s]) :
    NatSegs (quotePrefix S) [t] :=
  natSegs_imageN [s] [t] ⟨h, trivial⟩ hs

/-- the value of a related segment of that shape (general form of `segRel_valueQ`) -/
theorem segRel_valueN {S : Bytes} {s t : Segment} (h : SegRel S s t) (_hs : NatSegs S [s]) :
    t.value (quotePrefix S) = s.value S :=
  html_value_q h

/-! ### the classes are kept by the prefix -/

/-- `quotePrefixGo` only adds the bytes `>` and space -/
theorem mem_quotePrefixGoN : ∀ (s : Bytes) (b : Bool) (c : UInt8), c ∈ quotePrefixGo s b → c = 62 ∨ c = 32 ∨ c ∈ s
  | [], _, c, h => by simp [quotePrefixGo] at h
  | x :: xs, b, c, h => by
    simp only [quotePrefixGo, List.mem_append, List.mem_cons] at h
    rcases h with h | h | h
    · cases b
      · simp at h
      · simp only [if_true, List.mem_cons, List.not_mem_nil, or_false] at h
        rcases h with h | h
        · exact .inl h
        · exact .inr (.inl h)
    · exact .inr (.inr (by rw [h]; exact List.mem_cons_self ..))
    · rcases mem_quotePrefixGoN xs _ c h with h | h | h
      · exact .inl h
      · exact .inr (.inl h)
      · exact .inr (.inr (List.mem_cons_of_mem _ h))

/-- `quotePrefixGo` keeps the last byte -/
theorem getLast_quotePrefixGoN : ∀ (s : Bytes) (b : Bool) (c : UInt8), s.getLast? = some c →
    (quotePrefixGo s b).getLast? = some c
  | [], _, _, h => by cases h
  | [x], b, c, h => by
    have e : x = c := by simpa using h
    subst e
    cases b <;> simp [quotePrefixGo]
  | x :: y :: ys, b, c, h => by
    have h' : (y :: ys).getLast? = some c := by rw [List.getLast?_cons_cons] at h; exact h
    have ih := getLast_quotePrefixGoN (y :: ys) (x == 10) c h'
    have hne : quotePrefixGo (y :: ys) (x == 10) ≠ [] := by
      intro e; rw [e] at ih; cases ih
    obtain ⟨z, zs, ez⟩ := List.exists_cons_of_ne_nil hne
    rw [ez] at ih
    cases b
    · show ([] ++ x :: quotePrefixGo (y :: ys) (x == 10)).getLast? = some c
      rw [ez]
      simp only [List.nil_append, List.getLast?_cons_cons]
      exact ih
    · show ([62, 32] ++ x :: quotePrefixGo (y :: ys) (x == 10)).getLast? = some c
      rw [ez]
      simp only [List.cons_append, List.nil_append, List.getLast?_cons_cons]
      exact ih

theorem c08Class_prefixN {S : Bytes} (h : C08Class S) : C08Class (quotePrefix S) where
  tf := fun c hc => by
    rcases mem_quotePrefixGoN S true c hc with rfl | rfl | hm
    · decide
    · decide
    · exact h.tf c hm
  cr := fun c hc => by
    rcases mem_quotePrefixGoN S true c hc with rfl | rfl | hm
    · decide
    · decide
    · exact h.cr c hm
  nl := getLast_quotePrefixGoN S true 10 h.nl
  nolist := fun c hc => by
    rcases mem_quotePrefixGoN S true c hc with rfl | rfl | hm
    · decide
    · decide
    · exact h.nolist c hm

theorem noBracket_prefixN {S : Bytes} (h : ∀ b ∈ S, b ≠ 91) : ∀ b ∈ quotePrefix S, b ≠ 91 := by
  intro b hb
  rcases mem_quotePrefixGoN S true b hb with rfl | rfl | hm
  · decide
  · decide
  · exact h b hm

end GM.Proof.CMFrag
