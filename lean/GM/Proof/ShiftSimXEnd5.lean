/-
  GM.Proof.ShiftSimXEnd5 — C09 first half for a NON-EMPTY first part: `Reach a h b` (GM.Proof.ShiftSimCompose) for every
  `a` that ends with a line feed, triggers none of the list / setext / fenced parsers (`Plain6`) and does not end in a raw
  block; hence `IndependentBlocks a h b` for all `h`, `b`.
-/
import GM.Proof.ShiftSimXEnd4
import GM.Proof.ShiftSimXReach
import GM.Proof.ShiftSimXDoc0
import GM.Proof.BlocksClosedEnd

namespace GM.Blocks.Xs
open GM GM.Text GM.Spec GM.Proof.Reader GM.Blocks GM.Blocks.L

theorem indepDoc_nl (a h b : Bytes) (ha : a.getLast? = some 10) :
    indepDoc a h b = a ++ 10 :: (Sh.hlB h ++ 10 :: b) := by
  have hs : indepSep a = [10] := by
    unfold indepSep
    rw [ha]
    simp
  unfold indepDoc
  rw [hs, Sh.headingLine_eq]
  simp

/-- the children lists of a final store only hold ids of the store -/
theorem run_kids_lt (src : Bytes) (s : St) (h : run src = .ok s) :
    ∀ j c, c ∈ (s.nodes.getD j default).children → c < s.nodes.length := by
  intro j c hc
  have := (L.run_closed_aux (lsp_all src) s h).1.tree
  exact (this.kid_lt (x := j) (c := c) hc).2

theorem reach_plainL_of (a h b : Bytes) (hh : ∀ c ∈ h, c ≠ 10) (ha : a.getLast? = some 10) (hpl : PlainL a)
    (hPK : PassKeeps a) (hOK : OpenKeeps a)
    (sa sh sd : St) (hsa : run a = .ok sa) (hsh : run (headingLine h) = .ok sh) (hsd : run (indepDoc a h b) = .ok sd)
    (hraw : endsInRawBlock sa = false) : Sh.Reach a h b sa sh sd := by
  rw [indepDoc_nl a h b ha] at hsd
  have hL : ∃ body, Sh.hlB h = body ++ [10] ∧ ∀ c ∈ body, c ≠ 10 := by
    refine ⟨35 :: 32 :: h, by simp [Sh.hlB], ?_⟩
    intro c hc
    simp only [List.mem_cons] at hc
    rcases hc with rfl | rfl | hc
    · decide
    · decide
    · exact hh c hc
  obtain ⟨s1, stats1, f1, hat, hloop⟩ :=
    run_reaches_top a (Sh.hlB h) (10 :: b) ha hpl hL (Sh.isBlank_hl h) hPK hOK sa sd hsa hsd hraw
  refine Sh.reach_of_atHeading a h b hh ha sa sh sd hsa hsh (Sh.run_doc0 a sa hsa) (run_kids_lt a sa hsa) s1 stats1 f1 ?_ hloop
  obtain ⟨x, s1', hsk, q1, q2, q3, q4, q5, q6, q7⟩ := hat.skip
  have hlen := Sh.hl_length hh
  refine ⟨hat.nodes, hat.opened, hat.keys.1, hat.keys.2.1, hat.keys.2.2.1, hat.keys.2.2.2,
    x, s1', hsk, q1, q2, q3, q4, ?_, q5, ?_, q7⟩
  · -- the line behind the heading line is the blank line
    have hstop : s1'.r.pos.stop = (((a ++ 10 :: Sh.hlB h).length : Nat) : Int) := by
      rw [q6]; simp; omega
    have hforce : s1'.r.pos.forceNewline = false := by rw [q6]
    have esrc : a ++ 10 :: (Sh.hlB h ++ 10 :: b) = (a ++ 10 :: Sh.hlB h) ++ ([10] ++ b) := by simp
    have e1 : lineEnd (a ++ 10 :: (Sh.hlB h ++ 10 :: b)) (a ++ 10 :: Sh.hlB h).length =
        (a ++ 10 :: Sh.hlB h).length + 1 := by
      rw [esrc]
      have := xsk_lineEnd_at (a ++ 10 :: Sh.hlB h) [10] b [] rfl (by intro c hc; cases hc)
      simpa using this
    have s1e : sub (a ++ 10 :: (Sh.hlB h ++ 10 :: b)) (a ++ 10 :: Sh.hlB h).length
        ((a ++ 10 :: Sh.hlB h).length + 1) = [10] := by
      rw [esrc]
      have := xsk_sub_at (a ++ 10 :: Sh.hlB h) [10] b
      simpa using this
    have := Sh.atLine_advanceLine (r := s1'.r) (src := a ++ 10 :: (Sh.hlB h ++ 10 :: b))
      (k := (a ++ 10 :: Sh.hlB h).length) q5 hstop hforce (by simp)
    rw [e1, s1e] at this
    exact this
  · rw [q6, hlen]

/-- **C09 first half for a non-empty first part** (given that run A's invariants survive a pass): every `a` that ends
    with a line feed and is in the positional class `PlainL`, every `h`, every `b` -/
theorem independent_blocks_plainL_of (a h b : Bytes) (ha : a.getLast? = some 10) (hpl : PlainL a)
    (hPK : PassKeeps a) (hOK : OpenKeeps a) :
    ∀ e g, indepPair a h b = some (e, g) → e = g := by
  intro e g hp
  have hh : ∀ c ∈ h, c ≠ 10 := by
    have hok : indepBytesOK a h b = true := by
      unfold indepPair at hp
      cases hq : indepBytesOK a h b with
      | true => rfl
      | false => rw [hq] at hp; simp at hp
    exact Sh.noLF_of_bytesOK hok
  exact Sh.independent_blocks_of_reach_raw a h b
    (fun sa sh sd h1 h2 h3 h4 => reach_plainL_of a h b hh ha hpl hPK hOK sa sh sd h1 h2 h3 h4) e g hp

end GM.Blocks.Xs
