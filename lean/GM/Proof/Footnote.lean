/-
  GM.Proof.Footnote — lemmas for property C16 over GM.Model.Footnote. Core Lean only.
-/
import GM.Model.Footnote
import GM.Spec.Footnote

namespace GM.Proof.Footnote
open GM GM.Footnote GM.Spec.Footnote

/-! ### decimal formatting -/

theorem digitChar_val {d : Nat} (h : d < 10) : digitVal? (digitChar d) = some d := by
  have : ∀ k : Fin 10, digitVal? (digitChar k.val) = some k.val := by decide
  exact this ⟨d, h⟩

theorem digitChar_ne_colon (d : Nat) : digitChar d ≠ 58 := by
  unfold digitChar; split <;> decide

/-- value of a least-significant-first digit string -/
def valRev : Bytes → Nat
  | [] => 0
  | c :: cs => (c.toNat - 48) + 10 * valRev cs

def allDigits (l : Bytes) : Prop := ∀ c ∈ l, ∃ d, d < 10 ∧ c = digitChar d

theorem revDigits_digits : ∀ f n, allDigits (revDigits f n)
  | 0, _ => by simp [revDigits, allDigits]
  | f + 1, n => by
    unfold revDigits
    split
    · intro c hc; simp at hc; exact ⟨n, by omega, hc⟩
    · intro c hc
      simp only [List.mem_cons] at hc
      rcases hc with hc | hc
      · exact ⟨n % 10, by omega, hc⟩
      · exact revDigits_digits f (n / 10) c hc

theorem digitChar_toNat {d : Nat} (h : d < 10) : (digitChar d).toNat - 48 = d := by
  have : ∀ k : Fin 10, (digitChar k.val).toNat - 48 = k.val := by decide
  exact this ⟨d, h⟩

theorem revDigits_val : ∀ f n, n < f → valRev (revDigits f n) = n
  | 0, _, h => by omega
  | f + 1, n, h => by
    unfold revDigits
    split
    · simp [valRev, digitChar_toNat (by omega : n < 10)]
    · simp only [valRev, digitChar_toNat (Nat.mod_lt n (by omega : 10 > 0))]
      rw [revDigits_val f (n / 10) (by omega)]
      omega

theorem revDigits_ne_nil (f n : Nat) : revDigits (f + 1) n ≠ [] := by
  unfold revDigits; split <;> simp

theorem digitsVal_append (acc : Nat) (a b : Bytes) :
    digitsVal? acc (a ++ b) = (digitsVal? acc a).bind fun v => digitsVal? v b := by
  induction a generalizing acc with
  | nil => simp [digitsVal?]
  | cons c cs ih =>
    simp only [List.cons_append, digitsVal?]
    cases digitVal? c with
    | none => simp
    | some d => simp [ih]

theorem digitsVal_reverse (r : Bytes) (h : allDigits r) (acc : Nat) :
    digitsVal? acc r.reverse = some (acc * 10 ^ r.length + valRev r) := by
  induction r generalizing acc with
  | nil => simp [digitsVal?, valRev]
  | cons c cs ih =>
    have hcs : allDigits cs := fun x hx => h x (List.mem_cons_of_mem _ hx)
    obtain ⟨d, hd, rfl⟩ := h c List.mem_cons_self
    rw [List.reverse_cons, digitsVal_append, ih hcs]
    simp only [Option.bind_some, digitsVal?, digitChar_val hd, valRev, digitChar_toNat hd, List.length_cons]
    congr 1
    rw [Nat.pow_succ]
    simp only [Nat.add_mul, Nat.mul_assoc]
    omega

theorem dec_ne_nil (n : Nat) : dec n ≠ [] := by
  unfold dec; simp [revDigits_ne_nil]

/-- `dec` writes a numeral whose value is `n`; in particular the fuel `n + 1` is never exhausted. -/
theorem decimalValue_dec (n : Nat) : decimalValue? (dec n) = some n := by
  have h := digitsVal_reverse (revDigits (n + 1) n) (revDigits_digits _ _) 0
  rw [revDigits_val (n + 1) n (by omega)] at h
  have hne := dec_ne_nil n
  unfold dec at hne ⊢
  cases hl : (revDigits (n + 1) n).reverse with
  | nil => exact absurd hl hne
  | cons c cs => simp [decimalValue?, ← hl, h]

theorem dec_injective {a b : Nat} (h : dec a = dec b) : a = b := by
  have := decimalValue_dec a
  rw [h, decimalValue_dec] at this
  exact (Option.some.inj this).symm

theorem colon_not_mem_dec (n : Nat) : (58 : UInt8) ∉ dec n := by
  intro h
  unfold dec at h
  rw [List.mem_reverse] at h
  obtain ⟨d, _, hd⟩ := revDigits_digits _ _ _ h
  exact digitChar_ne_colon d hd.symm

/-! ### ids -/

theorem itoa_ofNat (k : Nat) : itoa (k : Int) = dec k := rfl

theorem append_sep_inj {a a' b b' : Bytes} (ha : (58 : UInt8) ∉ a) (ha' : (58 : UInt8) ∉ a')
    (h : a ++ 58 :: b = a' ++ 58 :: b') : a = a' ∧ b = b' := by
  induction a generalizing a' with
  | nil =>
    cases a' with
    | nil => simpa using h
    | cons c cs =>
      simp only [List.nil_append, List.cons_append, List.cons.injEq] at h
      exact absurd h.1.symm (by intro hc; exact ha' (by simp [hc]))
  | cons x xs ih =>
    cases a' with
    | nil =>
      simp only [List.nil_append, List.cons_append, List.cons.injEq] at h
      exact absurd h.1 (by intro hc; exact ha (by simp [hc]))
    | cons c cs =>
      simp only [List.cons_append, List.cons.injEq] at h
      have := ih (a' := cs) (fun hm => ha (List.mem_cons_of_mem _ hm)) (fun hm => ha' (List.mem_cons_of_mem _ hm)) h.2
      exact ⟨by rw [h.1, this.1], this.2⟩

/-- the optional reference number between `fnref` and `:` -/
def refPart (r : Nat) : Bytes := if r > 0 then dec r else []

theorem colon_not_mem_refPart (r : Nat) : (58 : UInt8) ∉ refPart r := by
  unfold refPart; split
  · exact colon_not_mem_dec r
  · simp

theorem refPart_inj {r r' : Nat} (h : refPart r = refPart r') : r = r' := by
  unfold refPart at h
  split at h <;> split at h
  · exact dec_injective h
  · exact absurd h (dec_ne_nil r)
  · exact absurd h.symm (dec_ne_nil r')
  · omega

theorem linkId_eq (pre : Bytes) (l : Link) :
    linkId pre l = pre ++ (fnref ++ (refPart l.refIndex ++ 58 :: itoa l.index)) := by
  simp [linkId, refPart, List.append_assoc]

theorem linkId_inj {pre : Bytes} {l l' : Link} {k k' : Nat} (hk : l.index = (k : Int)) (hk' : l'.index = (k' : Int))
    (h : linkId pre l = linkId pre l') : k = k' ∧ l.refIndex = l'.refIndex := by
  rw [linkId_eq, linkId_eq, hk, hk', itoa_ofNat, itoa_ofNat] at h
  have h2 := List.append_cancel_left (List.append_cancel_left h)
  have := append_sep_inj (colon_not_mem_refPart _) (colon_not_mem_refPart _) h2
  exact ⟨dec_injective this.2, refPart_inj this.1⟩

/-- the id ignores `RefCount` -/
theorem linkId_congr (pre : Bytes) {l l' : Link} (hi : l.index = l'.index) (hr : l.refIndex = l'.refIndex) :
    linkId pre l = linkId pre l' := by
  simp [linkId, hi, hr]

theorem itemId_inj {pre : Bytes} {k k' : Nat} (h : itemId pre (k : Int) = itemId pre (k' : Int)) : k = k' := by
  unfold itemId at h
  rw [itoa_ofNat, itoa_ofNat] at h
  exact dec_injective (List.append_cancel_left h)

theorem itemId_ne_linkId (pre : Bytes) (i : Int) (l : Link) : itemId pre i ≠ linkId pre l := by
  intro h
  rw [linkId_eq] at h
  unfold itemId at h
  rw [List.append_assoc] at h
  have := List.append_cancel_left h
  simp [fnColon, fnref] at this

theorem dropPrefix_append (p t : Bytes) : dropPrefix? p (p ++ t) = some t := by
  induction p with
  | nil => cases t <;> simp [dropPrefix?]
  | cons c cs ih => simp [dropPrefix?, ih]

theorem itemNumber_itemId (pre : Bytes) (k : Nat) : itemNumber? pre (itemId pre (k : Int)) = some k := by
  unfold itemNumber? itemId
  rw [dropPrefix_append, itoa_ofNat]
  exact decimalValue_dec k

/-! ### inline phase -/

/-- the indices assigned so far, in list order -/
def used (D : List Def) : List Int := (D.map (·.index)).filter fun i => decide (0 ≤ i)

/-- positions (counted from `pos`) of the definitions that have an index -/
def keptPos : Nat → List Def → List Nat
  | _, [] => []
  | pos, d :: ds => if d.index < 0 then keptPos (pos + 1) ds else pos :: keptPos (pos + 1) ds

theorem used_cons (d : Def) (ds : List Def) :
    used (d :: ds) = if 0 ≤ d.index then d.index :: used ds else used ds := by
  simp only [used, List.map_cons, List.filter_cons]
  split <;> simp_all

theorem lookup_labels (v : Bytes) (c : Nat) (D : List Def) :
    (lookup v c D).1.map (·.label) = D.map (·.label) := by
  induction D with
  | nil => simp [lookup]
  | cons d ds ih =>
    unfold lookup
    by_cases hl : d.label = v
    · by_cases hi : d.index < 0 <;> simp [hl, hi]
    · simp [hl, ih]

theorem lookup_cases (v : Bytes) (c : Nat) (D : List Def) :
    ((lookup v c D).1 = D ∧ (lookup v c D).2.1 = c ∧ ((lookup v c D).2.2 = 0 ∨ (lookup v c D).2.2 ∈ used D)) ∨
    ((lookup v c D).2.1 = c + 1 ∧ (lookup v c D).2.2 = ((c + 1 : Nat) : Int) ∧
      (used (lookup v c D).1).Perm (((c + 1 : Nat) : Int) :: used D)) := by
  induction D with
  | nil => simp [lookup]
  | cons d ds ih =>
    unfold lookup
    by_cases hl : d.label = v
    · by_cases hi : d.index < 0
      · right
        simp only [hl, hi, if_true, true_and]
        rw [used_cons, used_cons]
        have h1 : (0 : Int) ≤ (c : Int) + 1 := by omega
        have h2 : ¬ (0 ≤ d.index) := by omega
        simp [h2, h1]
      · left
        simp only [hl, hi, if_true, if_false, true_and]
        right
        rw [used_cons]
        have : 0 ≤ d.index := by omega
        simp [this]
    · simp only [hl, if_false]
      rcases ih with ⟨h1, h2, h3⟩ | ⟨h1, h2, h3⟩
      · left
        refine ⟨by rw [h1], h2, ?_⟩
        rcases h3 with h3 | h3
        · exact Or.inl h3
        · right; rw [used_cons]; split
          · exact List.mem_cons_of_mem _ h3
          · exact h3
      · right
        refine ⟨h1, h2, ?_⟩
        rw [used_cons, used_cons]
        split
        · exact (List.Perm.cons _ h3).trans (List.Perm.swap _ _ _)
        · exact h3

theorem lookup_keptPos (v : Bytes) (c : Nat) (D : List Def) (pos : Nat) :
    ∀ q ∈ keptPos pos (lookup v c D).1,
      q ∈ keptPos pos D ∨ ∃ p, resolve? (D.map (·.label)) v = some p ∧ q = pos + p := by
  induction D generalizing pos with
  | nil => simp [lookup, keptPos]
  | cons d ds ih =>
    intro q hq
    unfold lookup at hq
    by_cases hl : d.label = v
    · by_cases hi : d.index < 0
      · simp only [hl, hi, if_true] at hq
        have h1 : ¬ (((c + 1 : Nat) : Int) < 0) := by omega
        simp only [keptPos, h1, if_false, List.mem_cons] at hq
        rcases hq with hq | hq
        · right; exact ⟨0, by simp [resolve?, hl], by omega⟩
        · left; simp [keptPos, hi, hq]
      · simp only [hl, hi, if_true, if_false] at hq
        exact Or.inl hq
    · simp only [hl, if_false] at hq
      have step : q ∈ keptPos (pos + 1) (lookup v c ds).1 → q ∈ keptPos (pos + 1) ds ∨
          ∃ p, resolve? ((d :: ds).map (·.label)) v = some p ∧ q = pos + p := by
        intro h
        rcases ih (pos + 1) q h with h | ⟨p, hp, hq⟩
        · exact Or.inl h
        · right; exact ⟨p + 1, by simp [resolve?, hl, hp], by omega⟩
      by_cases hi : d.index < 0
      · simp only [keptPos, hi, if_true] at hq ⊢
        exact step hq
      · simp only [keptPos, hi, if_false, List.mem_cons] at hq ⊢
        rcases hq with hq | hq
        · exact Or.inl (Or.inl hq)
        · rcases step hq with h | h
          · exact Or.inl (Or.inr h)
          · exact Or.inr h

/-- what holds of the parser state after the reference events `done` -/
structure Inv (labels : List Bytes) (done : List Event) (s : PState) : Prop where
  labels_eq : s.defs.map (·.label) = labels
  used_perm : (used s.defs).Perm ((List.range' 1 s.count).map Int.ofNat)
  link_idx : ∀ p ∈ s.links, p.2 ∈ used s.defs
  link_ev : ∀ p ∈ s.links, p.1 ∈ done
  used_linked : ∀ k ∈ used s.defs, k ∈ s.links.map (·.2)
  kept_ref : ∀ q ∈ keptPos 0 s.defs, ∃ e ∈ done, resolve? labels e.label = some q

theorem used_initDefs (labels : List Bytes) : used (initDefs labels) = [] := by
  induction labels with
  | nil => rfl
  | cons l ls ih =>
    have : initDefs (l :: ls) = { label := l, index := -1 } :: initDefs ls := rfl
    rw [this, used_cons]; simpa using ih

theorem keptPos_initDefs (labels : List Bytes) (pos : Nat) : keptPos pos (initDefs labels) = [] := by
  induction labels generalizing pos with
  | nil => rfl
  | cons l ls ih =>
    have : initDefs (l :: ls) = { label := l, index := -1 } :: initDefs ls := rfl
    rw [this]; simp [keptPos, ih]

theorem inv_init (labels : List Bytes) : Inv labels [] { defs := initDefs labels, count := 0, links := [] } where
  labels_eq := by simp [initDefs, Function.comp_def]
  used_perm := by simp [used_initDefs]
  link_idx := by simp
  link_ev := by simp
  used_linked := by simp [used_initDefs]
  kept_ref := by simp [keptPos_initDefs]

theorem inv_step {labels : List Bytes} {done : List Event} {s : PState} (h : Inv labels done s) (e : Event) :
    Inv labels (done ++ [e]) (parseRef s e) := by
  have hc := lookup_cases e.label s.count s.defs
  have hl := lookup_labels e.label s.count s.defs
  have hk := lookup_keptPos e.label s.count s.defs 0
  have kept : ∀ q ∈ keptPos 0 (lookup e.label s.count s.defs).1,
      ∃ e' ∈ done ++ [e], resolve? labels e'.label = some q := by
    intro q hq
    rcases hk q hq with h1 | ⟨p, hp, hq⟩
    · obtain ⟨e', he', hr⟩ := h.kept_ref q h1
      exact ⟨e', by simp [he'], hr⟩
    · rw [h.labels_eq] at hp
      exact ⟨e, by simp, by rw [hp, hq]; simp⟩
  unfold parseRef
  rcases hc with ⟨h1, h2, h3⟩ | ⟨h1, h2, h3⟩
  · -- the definitions are unchanged
    by_cases h0 : (lookup e.label s.count s.defs).2.2 = 0
    · simp only [h0, if_true]
      exact { labels_eq := by simpa [h1] using h.labels_eq
              used_perm := by simpa [h1, h2] using h.used_perm
              link_idx := by simpa [h1] using h.link_idx
              link_ev := fun p hp => by simp [h.link_ev p hp]
              used_linked := by simpa [h1] using h.used_linked
              kept_ref := kept }
    · simp only [h0, if_false]
      have hi : (lookup e.label s.count s.defs).2.2 ∈ used s.defs := by
        rcases h3 with h3 | h3
        · exact absurd h3 h0
        · exact h3
      exact { labels_eq := by simpa [h1] using h.labels_eq
              used_perm := by simpa [h1, h2] using h.used_perm
              link_idx := by
                intro p hp
                simp only [List.mem_append, List.mem_singleton] at hp
                rcases hp with hp | hp
                · simpa [h1] using h.link_idx p hp
                · simpa [h1, hp] using hi
              link_ev := by
                intro p hp
                simp only [List.mem_append, List.mem_singleton] at hp
                rcases hp with hp | hp
                · simp [h.link_ev p hp]
                · simp [hp]
              used_linked := by
                intro k hk'
                rw [h1] at hk'
                have := h.used_linked k hk'
                simp only [List.map_append, List.mem_append]
                exact Or.inl this
              kept_ref := kept }
  · -- a definition got the next index
    have h0 : (lookup e.label s.count s.defs).2.2 ≠ 0 := by rw [h2]; omega
    simp only [h0, if_false]
    have hmem : ∀ k, k ∈ used (lookup e.label s.count s.defs).1 ↔ k = ((s.count + 1 : Nat) : Int) ∨ k ∈ used s.defs := by
      intro k; rw [h3.mem_iff]; simp
    exact { labels_eq := by simpa [hl] using h.labels_eq
            used_perm := by
              show (used (lookup e.label s.count s.defs).1).Perm ((List.range' 1 (lookup e.label s.count s.defs).2.1).map Int.ofNat)
              rw [h1, List.range'_concat, List.map_append]
              refine h3.trans ?_
              refine ((List.Perm.cons _ h.used_perm).trans ?_)
              have : (((s.count + 1 : Nat) : Int)) = Int.ofNat (1 + 1 * s.count) := by simp; omega
              rw [this]
              exact (List.perm_append_singleton _ _).symm
            link_idx := by
              intro p hp
              simp only [List.mem_append, List.mem_singleton] at hp
              rcases hp with hp | hp
              · exact (hmem _).2 (Or.inr (h.link_idx p hp))
              · rw [hp]; exact (hmem _).2 (Or.inl h2)
            link_ev := by
              intro p hp
              simp only [List.mem_append, List.mem_singleton] at hp
              rcases hp with hp | hp
              · simp [h.link_ev p hp]
              · simp [hp]
            used_linked := by
              intro k hk'
              simp only [List.map_append, List.mem_append, List.map_cons, List.map_nil, List.mem_singleton]
              rcases (hmem k).1 hk' with hk' | hk'
              · right; rw [hk', h2]
              · exact Or.inl (h.used_linked k hk')
            kept_ref := kept }

theorem inv_foldl {labels : List Bytes} (evs : List Event) {done : List Event} {s : PState} (h : Inv labels done s) :
    Inv labels (done ++ evs) (evs.foldl parseRef s) := by
  induction evs generalizing done s with
  | nil => simpa using h
  | cons e es ih =>
    have := ih (inv_step h e)
    simpa [List.append_assoc] using this

theorem inv_final (labels : List Bytes) (evs : List Event) : Inv labels evs (inlinePhase labels evs) := by
  have := inv_foldl evs (inv_init labels)
  simpa [inlinePhase] using this

/-! ### Transform: kept definitions and their order -/

theorem keepDefs_index (idxs : List Int) (pos : Nat) (D : List Def) :
    (keepDefs idxs pos D).map (·.index) = used D := by
  induction D generalizing pos with
  | nil => rfl
  | cons d ds ih =>
    rw [used_cons]
    by_cases hi : d.index < 0
    · have : ¬ 0 ≤ d.index := by omega
      simp [keepDefs, hi, this, ih]
    · have : 0 ≤ d.index := by omega
      simp [keepDefs, hi, this, ih]

theorem keepDefs_src (idxs : List Int) (pos : Nat) (D : List Def) :
    (keepDefs idxs pos D).map (·.src) = keptPos pos D := by
  induction D generalizing pos with
  | nil => rfl
  | cons d ds ih =>
    by_cases hi : d.index < 0 <;> simp [keepDefs, keptPos, hi, ih]

theorem keepDefs_backs (idxs : List Int) (pos : Nat) (D : List Def) :
    ∀ n ∈ keepDefs idxs pos D, n.backs = backlinks n.index (counter idxs n.index) := by
  induction D generalizing pos with
  | nil => simp [keepDefs]
  | cons d ds ih =>
    intro n hn
    by_cases hi : d.index < 0
    · simp only [keepDefs, hi, if_true] at hn; exact ih _ n hn
    · simp only [keepDefs, hi, if_false, List.mem_cons] at hn
      rcases hn with hn | hn
      · rw [hn]
      · exact ih _ n hn

theorem keptPos_ge (pos : Nat) (D : List Def) : ∀ q ∈ keptPos pos D, pos ≤ q := by
  induction D generalizing pos with
  | nil => simp [keptPos]
  | cons d ds ih =>
    intro q hq
    by_cases hi : d.index < 0
    · simp only [keptPos, hi, if_true] at hq; have := ih _ q hq; omega
    · simp only [keptPos, hi, if_false, List.mem_cons] at hq
      rcases hq with hq | hq
      · omega
      · have := ih _ q hq; omega

theorem keptPos_nodup (pos : Nat) (D : List Def) : (keptPos pos D).Nodup := by
  induction D generalizing pos with
  | nil => simp [keptPos]
  | cons d ds ih =>
    by_cases hi : d.index < 0
    · simp only [keptPos, hi, if_true]; exact ih _
    · simp only [keptPos, hi, if_false, List.nodup_cons]
      refine ⟨fun h => ?_, ih _⟩
      have := keptPos_ge _ _ _ h; omega

theorem insertSorted_perm (x : FNode) (l : List FNode) : (insertSorted x l).Perm (x :: l) := by
  induction l with
  | nil => simp [insertSorted]
  | cons h t ih =>
    unfold insertSorted
    split
    · exact (List.Perm.cons _ ih).trans (List.Perm.swap _ _ _)
    · exact List.Perm.refl _

theorem insertSorted_sorted (x : FNode) (l : List FNode) (hl : l.Pairwise fun a b => a.index ≤ b.index) :
    (insertSorted x l).Pairwise fun a b => a.index ≤ b.index := by
  induction l with
  | nil => simp [insertSorted]
  | cons h t ih =>
    rw [List.pairwise_cons] at hl
    unfold insertSorted
    split
    · rename_i hlt
      rw [List.pairwise_cons]
      refine ⟨fun b hb => ?_, ih hl.2⟩
      have := (insertSorted_perm x t).mem_iff.1 hb
      simp only [List.mem_cons] at this
      rcases this with rfl | hb
      · omega
      · exact hl.1 b hb
    · rename_i hge
      rw [List.pairwise_cons]
      refine ⟨fun b hb => ?_, List.pairwise_cons.2 hl⟩
      simp only [List.mem_cons] at hb
      rcases hb with rfl | hb
      · omega
      · have := hl.1 b hb; omega

theorem foldl_insert_perm (l acc : List FNode) :
    (l.foldl (fun acc x => insertSorted x acc) acc).Perm (l ++ acc) := by
  induction l generalizing acc with
  | nil => simp
  | cons x xs ih =>
    simp only [List.foldl_cons, List.cons_append]
    exact (ih _).trans ((List.Perm.append_left _ (insertSorted_perm x acc)).trans List.perm_middle)

theorem foldl_insert_sorted (l acc : List FNode) (h : acc.Pairwise fun a b => a.index ≤ b.index) :
    (l.foldl (fun acc x => insertSorted x acc) acc).Pairwise fun a b => a.index ≤ b.index := by
  induction l generalizing acc with
  | nil => simpa using h
  | cons x xs ih => exact ih _ (insertSorted_sorted x acc h)

theorem sortChildren_perm (l : List FNode) : (sortChildren l).Perm l := by
  simpa [sortChildren] using foldl_insert_perm l []

theorem sortChildren_sorted (l : List FNode) : (sortChildren l).Pairwise fun a b => a.index ≤ b.index :=
  foldl_insert_sorted l [] List.Pairwise.nil

/-- a sorted list whose keys are a permutation of 1..c has exactly the keys 1, 2, …, c in this order -/
theorem sorted_indices {l : List FNode} {c : Nat} (hs : l.Pairwise fun a b => a.index ≤ b.index)
    (hp : (l.map (·.index)).Perm ((List.range' 1 c).map Int.ofNat)) :
    l.map (·.index) = (List.range' 1 c).map Int.ofNat := by
  refine List.Perm.eq_of_pairwise (le := fun a b : Int => a ≤ b) (fun a b _ _ h1 h2 => by omega) ?_ ?_ hp
  · exact List.pairwise_map.2 hs
  · refine List.pairwise_map.2 ((List.pairwise_le_range' (s := 1) (n := c)).imp ?_)
    intro a b h; simp only [Int.ofNat_eq_natCast]; omega

/-! ### Transform: reference counts and reference indices -/

theorem counter_eq_count (idxs : List Int) {i : Int} (hi : 0 ≤ i) : counter idxs i = idxs.count i := by
  unfold counter
  rw [List.count_eq_length_filter]
  congr 1
  apply List.filter_congr
  intro j _
  by_cases h : j = i
  · subst h; simp [hi]
  · simp [h]

theorem numberLinks_event (all seen : List Int) (L : List (Event × Int)) :
    ∀ p ∈ numberLinks all seen L, (p.1, p.2.index) ∈ L := by
  induction L generalizing seen with
  | nil => simp [numberLinks]
  | cons x rest ih =>
    obtain ⟨e, i⟩ := x
    intro p hp
    simp only [numberLinks, List.mem_cons] at hp
    rcases hp with rfl | hp
    · simp
    · exact List.mem_cons_of_mem _ (ih _ p hp)

theorem numberLinks_event' (all seen : List Int) (L : List (Event × Int)) :
    ∀ q ∈ L, ∃ p ∈ numberLinks all seen L, p.1 = q.1 ∧ p.2.index = q.2 := by
  induction L generalizing seen with
  | nil => simp
  | cons x rest ih =>
    obtain ⟨e, i⟩ := x
    intro q hq
    simp only [List.mem_cons] at hq
    rcases hq with rfl | hq
    · exact ⟨(e, { index := i, refCount := counter all i, refIndex := seen.count i }), by simp [numberLinks], rfl, rfl⟩
    · obtain ⟨p, hp, h1, h2⟩ := ih (i :: seen) q hq
      exact ⟨p, by simp [numberLinks, hp], h1, h2⟩

theorem numberLinks_refCount (all seen : List Int) (L : List (Event × Int)) :
    ∀ p ∈ numberLinks all seen L, p.2.refCount = counter all p.2.index := by
  induction L generalizing seen with
  | nil => simp [numberLinks]
  | cons x rest ih =>
    obtain ⟨e, i⟩ := x
    intro p hp
    simp only [numberLinks, List.mem_cons] at hp
    rcases hp with rfl | hp
    · rfl
    · exact ih _ p hp

theorem numberLinks_bounds (all seen : List Int) (L : List (Event × Int)) :
    ∀ p ∈ numberLinks all seen L, seen.count p.2.index ≤ p.2.refIndex ∧
      p.2.refIndex < seen.count p.2.index + (L.map (·.2)).count p.2.index := by
  induction L generalizing seen with
  | nil => simp [numberLinks]
  | cons x rest ih =>
    obtain ⟨e, i⟩ := x
    intro p hp
    simp only [numberLinks, List.mem_cons] at hp
    rcases hp with rfl | hp
    · simp
    · have := ih (i :: seen) p hp
      simp only [List.map_cons, List.count_cons] at this ⊢
      by_cases hh : i = p.2.index <;> simp [hh] at this ⊢ <;> omega

theorem numberLinks_exists (all seen : List Int) (L : List (Event × Int)) (i : Int) (j : Nat)
    (h1 : seen.count i ≤ j) (h2 : j < seen.count i + (L.map (·.2)).count i) :
    ∃ p ∈ numberLinks all seen L, p.2.index = i ∧ p.2.refIndex = j := by
  induction L generalizing seen with
  | nil => simp at h2; omega
  | cons x rest ih =>
    obtain ⟨e, i0⟩ := x
    by_cases hh : i0 = i ∧ j = seen.count i
    · refine ⟨(e, { index := i0, refCount := counter all i0, refIndex := seen.count i0 }), by simp [numberLinks], ?_, ?_⟩
      · exact hh.1
      · simp [hh.1, hh.2]
    · have : ∃ p ∈ numberLinks all (i0 :: seen) rest, p.2.index = i ∧ p.2.refIndex = j := by
        simp only [List.map_cons, List.count_cons] at h2
        apply ih
        · simp only [List.count_cons]
          by_cases h0 : i0 = i <;> simp [h0] at hh h2 ⊢ <;> omega
        · simp only [List.count_cons]
          by_cases h0 : i0 = i <;> simp [h0] at hh h2 ⊢ <;> omega
      obtain ⟨p, hp, h⟩ := this
      exact ⟨p, by simp [numberLinks, hp], h⟩

/-- (Index, RefIndex) of a link -/
def key (p : Event × Link) : Int × Nat := (p.2.index, p.2.refIndex)

theorem numberLinks_keys_nodup (all seen : List Int) (L : List (Event × Int)) :
    ((numberLinks all seen L).map key).Nodup := by
  induction L generalizing seen with
  | nil => simp [numberLinks]
  | cons x rest ih =>
    obtain ⟨e, i⟩ := x
    simp only [numberLinks, List.map_cons, List.nodup_cons]
    refine ⟨?_, ih _⟩
    intro hm
    obtain ⟨p, hp, hk⟩ := List.mem_map.1 hm
    have hb := numberLinks_bounds all (i :: seen) rest p hp
    simp only [key, Prod.mk.injEq] at hk
    rw [hk.1] at hb
    simp only [List.count_cons, beq_self_eq_true, if_true] at hb
    omega

theorem mem_backlinks {i : Int} {rc : Nat} {bl : Link} :
    bl ∈ backlinks i rc ↔ bl.index = i ∧ bl.refCount = rc ∧ bl.refIndex < rc := by
  unfold backlinks
  simp only [List.mem_map, List.mem_range]
  constructor
  · rintro ⟨j, hj, rfl⟩; exact ⟨rfl, rfl, hj⟩
  · rintro ⟨h1, h2, h3⟩; exact ⟨bl.refIndex, h3, by cases bl; simp_all⟩

theorem backlinks_refIndex_nodup (i : Int) (rc : Nat) : ((backlinks i rc).map (·.refIndex)).Nodup := by
  unfold backlinks
  simp only [List.map_map, Function.comp_def]
  simpa using List.nodup_range (n := rc)

theorem keptPos_of_get (D : List Def) (pos h : Nat) (d : Def) (hd : D[h]? = some d) (hi : 0 ≤ d.index) :
    pos + h ∈ keptPos pos D := by
  induction D generalizing pos h with
  | nil => simp at hd
  | cons x xs ih =>
    cases h with
    | zero =>
      simp only [List.getElem?_cons_zero, Option.some.injEq] at hd
      subst hd
      have : ¬ x.index < 0 := by omega
      simp [keptPos, this]
    | succ h =>
      simp only [List.getElem?_cons_succ] at hd
      have := ih (pos + 1) h hd
      have e : pos + 1 + h = pos + (h + 1) := by omega
      rw [e] at this
      by_cases hx : x.index < 0 <;> simp [keptPos, hx, this]

/-! ### general list facts -/

theorem nodup_map_transfer {α β γ : Type} {l : List α} {f : α → β} {g : α → γ} (h : (l.map g).Nodup)
    (hfg : ∀ a ∈ l, ∀ b ∈ l, f a = f b → g a = g b) : (l.map f).Nodup := by
  rw [List.nodup_iff_pairwise_ne, List.pairwise_map] at h ⊢
  exact h.imp_of_mem fun ha hb hne heq => hne (hfg _ ha _ hb heq)

theorem inj_of_nodup_map {α β : Type} {l : List α} {f : α → β} (h : (l.map f).Nodup) :
    ∀ a ∈ l, ∀ b ∈ l, f a = f b → a = b := by
  induction l with
  | nil => simp
  | cons x xs ih =>
    simp only [List.map_cons, List.nodup_cons, List.mem_map, not_exists, not_and] at h
    intro a ha b hb hab
    simp only [List.mem_cons] at ha hb
    rcases ha with rfl | ha <;> rcases hb with rfl | hb
    · rfl
    · exact absurd hab.symm (h.1 b hb)
    · exact absurd hab (h.1 a ha)
    · exact ih h.2 a ha b hb hab

theorem zip_range_spec {α β : Type} (f : α → β) (g : Nat → β) :
    ∀ (l : List α) (s c : Nat), l.map f = (List.range' s c).map g →
      ∀ p ∈ l.zip (List.range' s l.length), f p.1 = g p.2 ∧ s ≤ p.2 ∧ p.2 < s + c
  | [], _, _, _ => by simp
  | a :: l, s, 0, h => by simp at h
  | a :: l, s, c + 1, h => by
    simp only [List.range'_succ, List.map_cons, List.cons.injEq] at h
    intro p hp
    simp only [List.length_cons, List.range'_succ, List.zip_cons_cons, List.mem_cons] at hp
    rcases hp with rfl | hp
    · exact ⟨h.1, by omega, by omega⟩
    · have := zip_range_spec f g l (s + 1) c h.2 p hp
      exact ⟨this.1, by omega, by omega⟩

/-! ### facts about the transformed state, for all inputs -/

/-- the rendered links of `t` when the list is kept or empty -/
def shown (t : Transformed) : List (Event × Link) := bodyLinks t.links ++ t.nodes.flatMap (hostedLinks t.links)

/-- the links that pass `footnoteLinkIsRendered`, and their indices -/
def counted (labels : List Bytes) (evs : List Event) : List (Event × Int) :=
  (inlinePhase labels evs).links.filter fun p => isRendered (inlinePhase labels evs).defs p.1

def cidx (labels : List Bytes) (evs : List Event) : List Int := (counted labels evs).map (·.2)

structure Facts (pre : Bytes) (labels : List Bytes) (evs : List Event) : Prop where
  /-- kept footnotes carry the indices 1, 2, …, c in this order -/
  node_idx : (transform labels evs).nodes.map (·.index) =
    (List.range' 1 (inlinePhase labels evs).count).map Int.ofNat
  node_backs : ∀ n ∈ (transform labels evs).nodes,
    n.backs = backlinks n.index ((cidx labels evs).count n.index)
  node_ref : ∀ n ∈ (transform labels evs).nodes, ∃ e ∈ evs, resolve? labels e.label = some n.src
  node_src : ((transform labels evs).nodes.map (·.src)).Nodup
  link_idx : ∀ p ∈ (transform labels evs).links, ∃ k, 1 ≤ k ∧ k ≤ (inlinePhase labels evs).count ∧ p.2.index = (k : Int)
  link_ev : ∀ p ∈ (transform labels evs).links, p.1 ∈ evs
  link_rendered : ∀ p ∈ (transform labels evs).links, isRendered (inlinePhase labels evs).defs p.1 = true
  node_kept : ∀ (h : Nat) (d : Def), (inlinePhase labels evs).defs[h]? = some d → 0 ≤ d.index →
    ∃ n ∈ (transform labels evs).nodes, n.src = h
  link_ri : ∀ p ∈ (transform labels evs).links, p.2.refIndex < (cidx labels evs).count p.2.index
  link_ex : ∀ (i : Int) (j : Nat), j < (cidx labels evs).count i →
    ∃ p ∈ (transform labels evs).links, p.2.index = i ∧ p.2.refIndex = j
  link_keys : ((transform labels evs).links.map key).Nodup
  items_eq : (render pre labels evs).items = (transform labels evs).nodes.map (renderItem pre)
  refs_eq : (render pre labels evs).refs = (shown (transform labels evs)).map fun p => renderRef pre p.2
  node_listed : ∀ n ∈ (transform labels evs).nodes, (transform labels evs).listed = true
  node_linked : ∀ n ∈ (transform labels evs).nodes, ∃ q ∈ (inlinePhase labels evs).links, q.2 = n.index

theorem mem_range_map {c : Nat} {i : Int} : i ∈ (List.range' 1 c).map Int.ofNat ↔ ∃ k, 1 ≤ k ∧ k ≤ c ∧ i = (k : Int) := by
  simp only [List.mem_map, List.mem_range'_1]
  constructor
  · rintro ⟨k, hk, rfl⟩; exact ⟨k, by omega, by omega, rfl⟩
  · rintro ⟨k, h1, h2, rfl⟩; exact ⟨k, by omega, rfl⟩

theorem facts (pre : Bytes) (labels : List Bytes) (evs : List Event) : Facts pre labels evs := by
  have I := inv_final labels evs
  have hperm : ((transform labels evs).nodes.map (·.index)).Perm
      ((List.range' 1 (inlinePhase labels evs).count).map Int.ofNat) := by
    refine ((sortChildren_perm _).map _).trans ?_
    rw [keepDefs_index]; exact I.used_perm
  have node_idx := sorted_indices (sortChildren_sorted _) hperm
  have node_kd : ∀ n ∈ (transform labels evs).nodes,
      n ∈ keepDefs (cidx labels evs) 0 (inlinePhase labels evs).defs :=
    fun n hn => (sortChildren_perm _).mem_iff.1 hn
  have link_idx : ∀ p ∈ (transform labels evs).links, ∃ k, 1 ≤ k ∧ k ≤ (inlinePhase labels evs).count ∧ p.2.index = (k : Int) := by
    intro p hp
    have h1 : (p.1, p.2.index) ∈ counted labels evs := numberLinks_event _ _ _ p hp
    have h2 := I.link_idx _ (List.mem_filter.1 h1).1
    exact mem_range_map.1 (I.used_perm.mem_iff.1 h2)
  have hc0 : (inlinePhase labels evs).count = 0 → (transform labels evs).nodes = [] ∧ (transform labels evs).links = [] := by
    intro h0
    constructor
    · have := node_idx; rw [h0] at this; exact List.map_eq_nil_iff.1 this
    · apply List.eq_nil_iff_forall_not_mem.2
      intro p hp
      obtain ⟨k, h1, h2, _⟩ := link_idx p hp
      omega
  refine { node_idx := node_idx, link_idx := link_idx, node_backs := ?_, node_ref := ?_, node_src := ?_, link_ev := ?_,
           link_rendered := ?_, node_kept := ?_, link_ri := ?_, link_ex := ?_, link_keys := numberLinks_keys_nodup _ _ _, items_eq := ?_, refs_eq := ?_,
           node_listed := ?_, node_linked := ?_ }
  · intro n hn
    have hk := node_kd n hn
    have hb := keepDefs_backs _ _ _ n hk
    have hu : n.index ∈ used (inlinePhase labels evs).defs := by
      rw [← keepDefs_index (cidx labels evs) 0]; exact List.mem_map_of_mem hk
    obtain ⟨k, _, _, hki⟩ := mem_range_map.1 (I.used_perm.mem_iff.1 hu)
    have h0 : 0 ≤ n.index := by omega
    rw [counter_eq_count _ h0] at hb
    exact hb
  · intro n hn
    have hk := node_kd n hn
    have : n.src ∈ keptPos 0 (inlinePhase labels evs).defs := by
      rw [← keepDefs_src (cidx labels evs) 0]; exact List.mem_map_of_mem hk
    exact I.kept_ref _ this
  · refine (((sortChildren_perm _).map (·.src)).nodup_iff).2 ?_
    rw [keepDefs_src]; exact keptPos_nodup _ _
  · intro p hp
    have h1 : (p.1, p.2.index) ∈ counted labels evs := numberLinks_event _ _ _ p hp
    exact I.link_ev _ (List.mem_filter.1 h1).1
  · intro p hp
    have h1 : (p.1, p.2.index) ∈ counted labels evs := numberLinks_event _ _ _ p hp
    exact (List.mem_filter.1 h1).2
  · intro h d hd hi
    have h1 := keptPos_of_get _ 0 h d hd hi
    rw [Nat.zero_add, ← keepDefs_src (cidx labels evs) 0] at h1
    obtain ⟨n, hn, hs⟩ := List.mem_map.1 h1
    exact ⟨n, (sortChildren_perm _).mem_iff.2 hn, hs⟩
  · intro p hp
    have := numberLinks_bounds (cidx labels evs) [] (counted labels evs) p hp
    simpa [cidx] using this.2
  · intro i j hj
    exact numberLinks_exists (cidx labels evs) [] (counted labels evs) i j (by simp) (by simpa [cidx] using hj)
  · by_cases h0 : 0 < (inlinePhase labels evs).count
    · simp [render, transform, h0]
    · have := (hc0 (by omega)).1
      simp only [render, this]; simp
  · by_cases h0 : 0 < (inlinePhase labels evs).count
    · simp [render, renderedLinks, shown, transform, h0]
    · have := (hc0 (by omega)).1
      simp only [render, renderedLinks, shown, this]; simp
  · intro n hn
    by_cases h0 : 0 < (inlinePhase labels evs).count
    · simp [transform, h0]
    · have := (hc0 (by omega)).1
      rw [this] at hn; simp at hn
  · intro n hn
    have hk := node_kd n hn
    have hu : n.index ∈ used (inlinePhase labels evs).defs := by
      rw [← keepDefs_index (cidx labels evs) 0]; exact List.mem_map_of_mem hk
    obtain ⟨q, hq, h⟩ := List.mem_map.1 (I.used_linked _ hu)
    exact ⟨q, hq, h⟩

/-! ### which links are rendered -/

theorem shown_sub (t : Transformed) : ∀ p ∈ shown t, p ∈ t.links := by
  intro p hp
  simp only [shown, List.mem_append, List.mem_flatMap, bodyLinks, hostedLinks, List.mem_filter] at hp
  rcases hp with hp | ⟨n, _, hp⟩
  · exact hp.1
  · exact hp.1

/-- every link the transformer counts is rendered -/
theorem shown_all {pre : Bytes} {labels : List Bytes} {evs : List Event} (F : Facts pre labels evs) :
    ∀ p ∈ (transform labels evs).links, p ∈ shown (transform labels evs) := by
  intro p hp
  have hr := F.link_rendered p hp
  simp only [isRendered, Bool.and_eq_true, Bool.not_eq_true'] at hr
  simp only [shown, List.mem_append, List.mem_flatMap, bodyLinks, hostedLinks, List.mem_filter]
  cases hh : p.1.host with
  | none => left; simp [hp, hr.1]
  | some h =>
    right
    rw [hh] at hr
    cases hd : (inlinePhase labels evs).defs[h]? with
    | none => simp [hd] at hr
    | some d =>
      simp only [hd, decide_eq_true_eq] at hr
      obtain ⟨n, hn, hsrc⟩ := F.node_kept h d hd hr.2
      exact ⟨n, hn, hp, by simp [hr.1, hsrc]⟩

theorem link_ids_nodup {pre : Bytes} {labels : List Bytes} {evs : List Event} (F : Facts pre labels evs) :
    ((transform labels evs).links.map fun p => linkId pre p.2).Nodup := by
  refine nodup_map_transfer F.link_keys ?_
  intro a ha b hb hab
  obtain ⟨k, _, _, hk⟩ := F.link_idx a ha
  obtain ⟨k', _, _, hk'⟩ := F.link_idx b hb
  have := linkId_inj hk hk' hab
  simp only [key, Prod.mk.injEq]
  exact ⟨by rw [hk, hk', this.1], this.2⟩

/-- the ids of the rendered references are pairwise distinct (whatever is visible) -/
theorem shown_ids_nodup {pre : Bytes} {labels : List Bytes} {evs : List Event} (F : Facts pre labels evs) :
    ((shown (transform labels evs)).map fun p => linkId pre p.2).Nodup := by
  have hall := link_ids_nodup F
  have hinj := inj_of_nodup_map hall
  have hsub : ∀ (q : Event × Link → Bool), (((transform labels evs).links.filter q).map fun p => linkId pre p.2).Nodup :=
    fun q => (List.Sublist.map _ List.filter_sublist).nodup hall
  have hsrc : (transform labels evs).nodes.Pairwise fun a b => a.src ≠ b.src := by
    have := F.node_src; rwa [List.nodup_iff_pairwise_ne, List.pairwise_map] at this
  simp only [shown, List.map_append, List.map_flatMap]
  rw [List.nodup_append]
  refine ⟨hsub _, ?_, ?_⟩
  · rw [List.nodup_iff_pairwise_ne, List.pairwise_flatMap]
    refine ⟨fun n _ => hsub _, hsrc.imp ?_⟩
    intro a b hab x hx y hy hxy
    simp only [hostedLinks, List.mem_map, List.mem_filter] at hx hy
    obtain ⟨p, ⟨hp, hpa⟩, rfl⟩ := hx
    obtain ⟨q, ⟨hq, hqb⟩, rfl⟩ := hy
    have := hinj p hp q hq hxy
    subst this
    simp only [Bool.and_eq_true, beq_iff_eq] at hpa hqb
    rw [hpa.2] at hqb
    exact hab (by simpa using hqb.2)
  · intro x hx y hy hxy
    simp only [bodyLinks, hostedLinks, List.mem_map, List.mem_filter, List.mem_flatMap] at hx hy
    obtain ⟨p, ⟨hp, hpa⟩, rfl⟩ := hx
    obtain ⟨n, _, q, ⟨hq, hqb⟩, rfl⟩ := hy
    have := hinj p hp q hq hxy
    subst this
    simp only [Bool.and_eq_true, beq_iff_eq] at hpa hqb
    rw [hqb.2] at hpa
    simp at hpa

/-! ### the clauses of C16 -/

section clauses
variable {pre : Bytes} {labels : List Bytes} {evs : List Event}

theorem item_ids (F : Facts pre labels evs) :
    (render pre labels evs).items.map (·.id) =
      (List.range' 1 (inlinePhase labels evs).count).map fun k : Nat => itemId pre (k : Int) := by
  rw [F.items_eq, List.map_map]
  have : (fun n : FNode => itemId pre n.index) = (itemId pre) ∘ (·.index) := rfl
  show ((transform labels evs).nodes.map fun n : FNode => itemId pre n.index) = _
  rw [this, ← List.map_map, F.node_idx, List.map_map]
  rfl

theorem item_ids_nodup (F : Facts pre labels evs) : ((render pre labels evs).items.map (·.id)).Nodup := by
  rw [item_ids F]
  refine nodup_map_transfer (g := fun k : Nat => k) (by simpa using List.nodup_range' (s := 1) (n := (inlinePhase labels evs).count)) ?_
  intro a _ b _ h
  exact itemId_inj h

theorem numbered_spec (F : Facts pre labels evs) : ∀ p ∈ numbered (render pre labels evs).items,
    p.1.id = itemId pre (p.2 : Int) ∧ 1 ≤ p.2 ∧ p.2 ≤ (inlinePhase labels evs).count := by
  intro p hp
  have := zip_range_spec (fun it : Item => it.id) (fun k : Nat => itemId pre (k : Int)) _ 1 _ (item_ids F) p hp
  exact ⟨this.1, this.2.1, by omega⟩

theorem clause_numbering (F : Facts pre labels evs) :
    ∀ p ∈ numbered (render pre labels evs).items, itemNumber? pre p.1.id = some p.2 := by
  intro p hp
  rw [(numbered_spec F p hp).1, itemNumber_itemId]

theorem clause_refTarget (F : Facts pre labels evs) :
    ∀ r ∈ (render pre labels evs).refs, ((render pre labels evs).items.map (·.id)).count r.href = 1 ∧
      ∀ p ∈ numbered (render pre labels evs).items, p.1.id = r.href → decimalValue? r.text = some p.2 := by
  intro r hr
  rw [F.refs_eq] at hr
  obtain ⟨q, hq, rfl⟩ := List.mem_map.1 hr
  obtain ⟨k, h1, h2, hk⟩ := F.link_idx q (shown_sub _ q hq)
  constructor
  · rw [(item_ids_nodup F).count, item_ids F]
    have : (renderRef pre q.2).href ∈ (List.range' 1 (inlinePhase labels evs).count).map fun k : Nat => itemId pre (k : Int) :=
      List.mem_map.2 ⟨k, List.mem_range'_1.2 ⟨h1, by omega⟩, by simp [renderRef, hk]⟩
    simp [this]
  · intro p hp hid
    rw [(numbered_spec F p hp).1] at hid
    simp only [renderRef, hk] at hid ⊢
    rw [itemId_inj hid, itoa_ofNat, decimalValue_dec]

theorem node_of_index (F : Facts pre labels evs) {k : Nat} (h1 : 1 ≤ k) (h2 : k ≤ (inlinePhase labels evs).count) :
    ∃ n ∈ (transform labels evs).nodes, n.index = (k : Int) := by
  have : ((k : Nat) : Int) ∈ (transform labels evs).nodes.map (·.index) := by
    rw [F.node_idx]; exact mem_range_map.2 ⟨k, h1, h2, rfl⟩
  obtain ⟨n, hn, h⟩ := List.mem_map.1 this
  exact ⟨n, hn, h⟩

theorem node_index (F : Facts pre labels evs) : ∀ n ∈ (transform labels evs).nodes,
    ∃ k, 1 ≤ k ∧ k ≤ (inlinePhase labels evs).count ∧ n.index = (k : Int) := by
  intro n hn
  have : n.index ∈ (transform labels evs).nodes.map (·.index) := List.mem_map_of_mem hn
  rw [F.node_idx] at this
  exact mem_range_map.1 this

theorem clause_backTarget (F : Facts pre labels evs) :
    ∀ it ∈ (render pre labels evs).items, ∀ b ∈ it.backs,
      ((render pre labels evs).refs.map (·.id)).count b = 1 ∧
      ∀ r ∈ (render pre labels evs).refs, r.id = b → r.href = it.id := by
  intro it hit b hb
  rw [F.items_eq] at hit
  obtain ⟨n, hn, rfl⟩ := List.mem_map.1 hit
  simp only [renderItem, List.mem_map] at hb
  obtain ⟨bl, hbl, rfl⟩ := hb
  have hbacks := F.node_backs n hn
  rw [hbacks, mem_backlinks] at hbl
  obtain ⟨k, _, _, hk⟩ := node_index F n hn
  obtain ⟨p, hp, hpi, hpr⟩ := F.link_ex n.index bl.refIndex hbl.2.2
  have hps := shown_all F p hp
  have hids : (render pre labels evs).refs.map (·.id) = (shown (transform labels evs)).map fun p => linkId pre p.2 := by
    rw [F.refs_eq, List.map_map]; rfl
  constructor
  · rw [hids, (shown_ids_nodup F).count]
    have : linkId pre bl ∈ (shown (transform labels evs)).map fun p => linkId pre p.2 :=
      List.mem_map.2 ⟨p, hps, linkId_congr pre (by rw [hpi, hbl.1]) (by rw [hpr])⟩
    simp [this]
  · intro r hr hid
    rw [F.refs_eq] at hr
    obtain ⟨q, hq, rfl⟩ := List.mem_map.1 hr
    obtain ⟨k', _, _, hk'⟩ := F.link_idx q (shown_sub _ q hq)
    have := linkId_inj hk' (hbl.1.trans hk) hid
    simp only [renderRef, renderItem, hk', hk, this.1]

theorem back_ids_nodup (F : Facts pre labels evs) :
    ((render pre labels evs).items.flatMap (·.backs)).Nodup := by
  rw [F.items_eq, List.flatMap_map]
  have hidx : (transform labels evs).nodes.Pairwise fun a b => a.index ≠ b.index := by
    have : ((transform labels evs).nodes.map (·.index)).Nodup := by
      rw [F.node_idx]
      refine nodup_map_transfer (g := fun k : Nat => k) (by simpa using List.nodup_range' (s := 1) (n := (inlinePhase labels evs).count)) ?_
      intro a _ b _ h; exact Int.ofNat.inj h
    rwa [List.nodup_iff_pairwise_ne, List.pairwise_map] at this
  rw [List.nodup_iff_pairwise_ne, List.pairwise_flatMap]
  constructor
  · intro n hn
    have hbacks := F.node_backs n hn
    obtain ⟨k, _, _, hk⟩ := node_index F n hn
    show ((renderItem pre n).backs).Nodup
    simp only [renderItem, hbacks]
    refine nodup_map_transfer (backlinks_refIndex_nodup _ _) ?_
    intro a ha b hb hab
    exact (linkId_inj ((mem_backlinks.1 ha).1.trans hk) ((mem_backlinks.1 hb).1.trans hk) hab).2
  · refine hidx.imp_of_mem ?_
    intro a b ha hb hab x hx y hy hxy
    have hba := F.node_backs a ha
    have hbb := F.node_backs b hb
    obtain ⟨k, _, _, hk⟩ := node_index F a ha
    obtain ⟨k', _, _, hk'⟩ := node_index F b hb
    simp only [renderItem, List.mem_map, hba, hbb] at hx hy
    obtain ⟨u, hu, rfl⟩ := hx
    obtain ⟨w, hw, rfl⟩ := hy
    have := linkId_inj ((mem_backlinks.1 hu).1.trans hk) ((mem_backlinks.1 hw).1.trans hk') hxy
    exact hab (by rw [hk, hk', this.1])

theorem clause_refBack (F : Facts pre labels evs) :
    ∀ r ∈ (render pre labels evs).refs, ((render pre labels evs).items.flatMap (·.backs)).count r.id = 1 := by
  intro r hr
  rw [F.refs_eq] at hr
  obtain ⟨q, hq, rfl⟩ := List.mem_map.1 hr
  have hql := shown_sub _ q hq
  obtain ⟨k, h1, h2, hk⟩ := F.link_idx q hql
  have hri := F.link_ri q hql
  obtain ⟨n, hn, hni⟩ := node_of_index F h1 h2
  have hbacks := F.node_backs n hn
  rw [(back_ids_nodup F).count]
  have : (renderRef pre q.2).id ∈ (render pre labels evs).items.flatMap (·.backs) := by
    rw [F.items_eq, List.flatMap_map, List.mem_flatMap]
    refine ⟨n, hn, ?_⟩
    simp only [renderItem, renderRef, List.mem_map, hbacks]
    refine ⟨{ index := n.index, refCount := _, refIndex := q.2.refIndex }, mem_backlinks.2 ⟨rfl, rfl, ?_⟩,
      linkId_congr pre (by rw [hni, hk]) rfl⟩
    rw [hk, ← hni] at hri
    exact hri
  simp [this]

theorem clause_idsDistinct (F : Facts pre labels evs) :
    ((render pre labels evs).items.map (·.id) ++ (render pre labels evs).refs.map (·.id)).Nodup := by
  rw [List.nodup_append]
  refine ⟨item_ids_nodup F, ?_, ?_⟩
  · have : (render pre labels evs).refs.map (·.id) = (shown (transform labels evs)).map fun p => linkId pre p.2 := by
      rw [F.refs_eq, List.map_map]; rfl
    rw [this]; exact shown_ids_nodup F
  · intro a ha b hb hab
    rw [item_ids F] at ha
    rw [F.refs_eq, List.map_map] at hb
    obtain ⟨k, _, rfl⟩ := List.mem_map.1 ha
    obtain ⟨q, _, rfl⟩ := List.mem_map.1 hb
    exact itemId_ne_linkId pre _ _ hab

theorem clause_unreferenced (F : Facts pre labels evs) :
    ∀ it ∈ (render pre labels evs).items, ∃ l ∈ evs.map (·.label), resolve? labels l = some it.src := by
  intro it hit
  rw [F.items_eq] at hit
  obtain ⟨n, hn, rfl⟩ := List.mem_map.1 hit
  obtain ⟨e, he, hr⟩ := F.node_ref n hn
  exact ⟨e.label, List.mem_map_of_mem he, hr⟩

end clauses

/-- **C16, unconditionally** (after repair 97633bf). -/
theorem consistent (pre : Bytes) (labels : List Bytes) (evs : List Event) :
    Consistent pre labels (evs.map (·.label)) (render pre labels evs) :=
  have F := facts pre labels evs
  { numbering := clause_numbering F
    refTarget := clause_refTarget F
    backTarget := clause_backTarget F
    refBack := clause_refBack F
    idsDistinct := clause_idsDistinct F
    unreferenced := clause_unreferenced F }

/-- the references that appear in the output are exactly the links the transformer counted -/
theorem rendered_iff_counted (pre : Bytes) (labels : List Bytes) (evs : List Event) (p : Event × Link) :
    p ∈ renderedLinks (transform labels evs) ↔ p ∈ (transform labels evs).links := by
  have F := facts pre labels evs
  have hs : renderedLinks (transform labels evs) = shown (transform labels evs) := by
    have h1 := F.refs_eq
    by_cases hl : (transform labels evs).listed = true
    · simp [renderedLinks, shown, hl]
    · have hn : (transform labels evs).nodes = [] := by
        cases hnn : (transform labels evs).nodes with
        | nil => rfl
        | cons n ns => exact absurd (F.node_listed n (by simp [hnn])) hl
      simp [renderedLinks, shown, hl, hn]
  rw [hs]
  exact ⟨shown_sub _ p, shown_all F p⟩

/-- every link the inline phase created passes `footnoteLinkIsRendered` -/
def allCreatedRendered (labels : List Bytes) (evs : List Event) : Bool :=
  (inlinePhase labels evs).links.all fun p => isRendered (inlinePhase labels evs).defs p.1

/-- Stricter reading of "referenced": if no created link is filtered out, every listed item is the target of a
    rendered reference. (Without the hypothesis this fails: see the examples in Props/C16.) -/
theorem items_visibly_referenced (pre : Bytes) (labels : List Bytes) (evs : List Event)
    (h : allCreatedRendered labels evs = true) :
    ∀ it ∈ (render pre labels evs).items, ∃ r ∈ (render pre labels evs).refs, r.href = it.id := by
  have F := facts pre labels evs
  intro it hit
  rw [F.items_eq] at hit
  obtain ⟨n, hn, rfl⟩ := List.mem_map.1 hit
  obtain ⟨q, hq, hqi⟩ := F.node_linked n hn
  simp only [allCreatedRendered, List.all_eq_true] at h
  have hc : q ∈ counted labels evs := List.mem_filter.2 ⟨hq, h q hq⟩
  obtain ⟨p, hp, _, hpi⟩ := numberLinks_event' (cidx labels evs) [] (counted labels evs) q hc
  have hp' : p ∈ (transform labels evs).links := hp
  refine ⟨renderRef pre p.2, ?_, ?_⟩
  · rw [F.refs_eq]; exact List.mem_map_of_mem (shown_all F p hp')
  · simp [renderRef, renderItem, hpi, hqi]

end GM.Proof.Footnote
