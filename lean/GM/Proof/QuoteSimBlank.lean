/-
  GM.Proof.QuoteSimBlank — `openBlocks` on a line whose rest is blank, the last opened block not being a
  paragraph: nothing is opened; only reader caches and the published block offset change.
-/
import GM.Proof.QuoteSimRun

namespace GM.Blocks
open GM GM.Text GM.Spec GM.Proof.Reader

/-! ### pure facts about the line `replicate n 32 ++ [10]` -/

def blankL (n : Nat) : Bytes := List.replicate n 32 ++ [10]

theorem blankL_zero : blankL 0 = [10] := rfl
theorem blankL_succ (n : Nat) : blankL (n + 1) = 32 :: blankL n := by
  simp [blankL, List.replicate_succ]

theorem blankL_length (n : Nat) : (blankL n).length = n + 1 := by simp [blankL]

theorem indentWidthGo_blankL (cur : Int) : ∀ (n : Nat) (w p : Int),
    indentWidthGo cur (blankL n) w p = (w + n, p + n) := by
  intro n
  induction n with
  | zero => intro w p; simp [blankL_zero, indentWidthGo]
  | succ n ih =>
    intro w p
    rw [blankL_succ]
    unfold indentWidthGo
    simp only [beq_self_eq_true, if_true]
    rw [ih]
    simp only [Prod.mk.injEq]
    omega

theorem indentWidthI_blankL (n : Nat) (lo : Int) : indentWidthI (blankL n) lo = ((n : Int), (n : Int)) := by
  unfold indentWidthI
  rw [indentWidthGo_blankL]
  simp

theorem blankL_all (n : Nat) : (blankL n).all isSpace = true := by
  induction n with
  | zero => rfl
  | succ n ih => rw [blankL_succ, List.all_cons, ih]; rfl

theorem isBlank_blankL (n : Nat) : isBlank (blankL n) = true := blankL_all n

theorem takeWhile_all_bk {α} (p : α → Bool) : ∀ (l : List α), l.all p = true → l.takeWhile p = l
  | [], _ => rfl
  | a :: l, h => by
    simp only [List.all_cons, Bool.and_eq_true] at h
    simp only [List.takeWhile_cons, h.1, if_true, takeWhile_all_bk p l h.2]

theorem trimLeft_blankL (n : Nat) : trimLeftSpaceLength (blankL n) = n + 1 := by
  unfold trimLeftSpaceLength
  rw [takeWhile_all_bk _ _ (blankL_all n), blankL_length]

theorem idx_blankL_last (n : Nat) : idx (blankL n) (n : Int) = .ok 10 := by
  unfold idx getByte
  rw [if_neg (by omega)]
  simp [blankL]

theorem triggered_nl_bk : triggered 10 = none := by decide

/-! ### the reader calls, executed exactly -/

theorem peekLine_run_bk {src} {s : St} {c : RCur} (h : RI src s.r c) :
    ∃ r', peekLine s = .ok ((RCur.view src c, RCur.seg src c), { s with r := r' }) ∧ RI src r' c := by
  obtain ⟨r', h1, h2⟩ := ri_peekLine h
  refine ⟨r', ?_, h2⟩
  unfold GM.Blocks.peekLine; rw [h1]; rfl

theorem lineOffset_run_bk {src} {s : St} {c : RCur} (h : RI src s.r c) :
    ∃ v r', lineOffset s = .ok (v, { s with r := r' }) ∧ RI src r' c := by
  obtain ⟨v, r', h1, h2, _⟩ := ri_lineOffset h
  refine ⟨v, r', ?_, h2⟩
  unfold GM.Blocks.lineOffset; rw [h1]; rfl

/-- the cursor stands in front of `n` spaces and a newline -/
structure BlankAt (src : Bytes) (c : RCur) (n : Nat) : Prop where
  lt : c.p < src.length
  pad : c.pad = 0
  line : sub src c.p (lineEnd src c.p) = blankL n

theorem BlankAt.view {src c n} (h : BlankAt src c n) : RCur.view src c = some (blankL n) := by
  rw [view_eq src c h.lt, h.pad, h.line]; rfl

theorem BlankAt.stop {src c n} (h : BlankAt src c n) : lineEnd src c.p = c.p + (n + 1) := by
  have h1 := length_sub src (a := c.p) (lineEnd_le src c.p)
  rw [h.line, blankL_length] at h1
  omega

/-! ### the two free parsers on a blank line -/

theorem codeOpen_blank {src} {s : St} {c : RCur} {n : Nat} (h : RI src s.r c) (hb : BlankAt src c n)
    (parent : Nat) :
    ∃ r', codeOpen parent s = .ok ((none, stNoChildren), { s with r := r' }) ∧ RI src r' c := by
  obtain ⟨r1, p1, h1⟩ := peekLine_run_bk h
  obtain ⟨v, r2, p2, h2⟩ := lineOffset_run_bk (s := { s with r := r1 }) h1
  refine ⟨r2, ?_, h2⟩
  unfold codeOpen
  rw [bind_run p1]
  simp only [hb.view, Option.getD_some]
  rw [bind_run p2]
  rw [isBlank_blankL, Bool.or_true, if_pos rfl]
  rfl

theorem trimLeftSpace_blank {src c n} (hb : BlankAt src c n) :
    (RCur.seg src c).trimLeftSpace src =
      .ok { start := (lineEnd src c.p : Int), stop := (lineEnd src c.p : Int) } := by
  have hle := lineEnd_le src c.p
  have hstop := hb.stop
  unfold Segment.trimLeftSpace RCur.seg
  simp only
  rw [sliceB_ok src (by omega) (by omega) (by omega)]
  simp only [Int.toNat_natCast, hb.line, trimLeft_blankL, bind, Except.bind, pure, Except.pure]
  rw [hstop]
  congr 2 <;> omega

theorem paragraphOpen_blank {src} {s : St} {c : RCur} {n : Nat} (h : RI src s.r c) (hb : BlankAt src c n)
    (parent : Nat) :
    ∃ r', paragraphOpen parent s = .ok ((none, stNoChildren), { s with r := r' }) ∧ RI src r' c := by
  obtain ⟨r1, p1, h1⟩ := peekLine_run_bk h
  refine ⟨r1, ?_, h1⟩
  unfold paragraphOpen
  rw [bind_run p1]
  simp only
  have p2 : source { s with r := r1 } = .ok (src, { s with r := r1 }) := by
    unfold source; simp only [h1.source]; rfl
  rw [bind_run p2]
  have p3 : liftE ((RCur.seg src c).trimLeftSpace src) { s with r := r1 } =
      .ok (({ start := (lineEnd src c.p : Int), stop := (lineEnd src c.p : Int) } : Segment), { s with r := r1 }) := by
    rw [trimLeftSpace_blank hb]; rfl
  rw [bind_run p3]
  rw [if_pos (by simp [Segment.isEmpty])]
  rfl

/-! ### the driver -/

theorem toContinuable_false_bk (result : OpenResult) (lb : Option Block) (s : St) :
    toContinuable false result lb s = .ok (result, s) := by
  unfold toContinuable
  simp only [Bool.and_false, Bool.false_eq_true, if_false]
  rfl

theorem lastOpenedBlock_run_bk (s : St) : lastOpenedBlock s = .ok (s.pc.opened.getLast?, s) := rfl

/-- one parser that is tried and declines -/
theorem tryParsers_decline_bk {parent : Nat} {blank : Bool} {w : Int} {bp : BP} {bps : List BP} {lb : Option Block}
    {res : OpenResult} {s : St} {r' : Reader} {st : PState}
    (hw : (decide (w > 3) && !bp.canAcceptIndentedLine) = false)
    (ho : bpOpen bp parent s = .ok ((none, st), { s with r := r' })) :
    tryParsers parent blank false w (bp :: bps) res lb s =
      tryParsers parent blank false w bps res s.pc.opened.getLast? { s with r := r' } := by
  rw [tryParsers]
  simp only [Bool.false_and, Bool.false_eq_true, if_false, hw]
  rw [bind_run (lastOpenedBlock_run_bk s), bind_run ho]

/-- one parser that is skipped because the line is indented too far -/
theorem tryParsers_skip_bk {parent : Nat} {blank : Bool} {w : Int} {bp : BP} {bps : List BP} {lb : Option Block}
    {res : OpenResult} {s : St} (hw : (decide (w > 3) && !bp.canAcceptIndentedLine) = true) :
    tryParsers parent blank false w (bp :: bps) res lb s =
      tryParsers parent blank false w bps res lb s := by
  rw [tryParsers]
  simp only [Bool.false_and, Bool.false_eq_true, if_false, hw, if_true]

theorem tryParsers_nil_bk (parent : Nat) (blank cont : Bool) (w : Int) (res : OpenResult) (lb : Option Block) (s : St) :
    tryParsers parent blank cont w [] res lb s = .ok ((.done, res, lb), s) := by
  rw [tryParsers]; rfl

/-- the free parsers on a blank line: both decline (or the paragraph parser is not asked); the incoming result
    is passed through -/
theorem tryParsers_blank_res {src} {s : St} {c : RCur} {n : Nat} (h : RI src s.r c) (hb : BlankAt src c n)
    (parent : Nat) (blank : Bool) (res : OpenResult) (lb : Option Block) :
    ∃ r' lb', tryParsers parent blank false (n : Int) freeParsers res lb s =
        .ok ((.done, res, lb'), { s with r := r' }) ∧ RI src r' c := by
  obtain ⟨r1, o1, h1⟩ := codeOpen_blank h hb parent
  have hw1 : (decide ((n : Int) > 3) && !BP.code.canAcceptIndentedLine) = false := by
    simp [BP.canAcceptIndentedLine]
  rw [show freeParsers = [.code, .paragraph] from rfl, tryParsers_decline_bk (bp := .code) hw1 o1]
  by_cases hn : (n : Int) > 3
  · have hw2 : (decide ((n : Int) > 3) && !BP.paragraph.canAcceptIndentedLine) = true := by
      simp [BP.canAcceptIndentedLine, hn]
    rw [tryParsers_skip_bk hw2, tryParsers_nil_bk]
    exact ⟨r1, _, rfl, h1⟩
  · have hw2 : (decide ((n : Int) > 3) && !BP.paragraph.canAcceptIndentedLine) = false := by
      simp [hn]
    obtain ⟨r2, o2, h2⟩ := paragraphOpen_blank (s := { s with r := r1 }) h1 hb parent
    rw [tryParsers_decline_bk (bp := .paragraph) hw2 o2, tryParsers_nil_bk]
    exact ⟨r2, _, rfl, h2⟩

theorem tryParsers_blank {src} {s : St} {c : RCur} {n : Nat} (h : RI src s.r c) (hb : BlankAt src c n)
    (parent : Nat) (blank : Bool) (lb : Option Block) :
    ∃ r' lb', tryParsers parent blank false (n : Int) freeParsers .noBlocksOpened lb s =
        .ok ((.done, .noBlocksOpened, lb'), { s with r := r' }) ∧ RI src r' c :=
  tryParsers_blank_res h hb parent blank .noBlocksOpened lb

theorem liftE_run_bk {α} {e : Except Panic α} {a : α} (he : e = .ok a) (s : St) : liftE e s = .ok (a, s) := by
  subst he; rfl

theorem idx_blankL_zero (n : Nat) : idx (blankL n) 0 = .ok (if n = 0 then 10 else 32) := by
  cases n with
  | zero => rfl
  | succ m => rw [blankL_succ]; rfl

/-- one round of the `retry:` loop of `openBlocks` on a blank rest of line, not continuable: the incoming
    result is passed through -/
theorem openBlocksLoop_blank_res {src} {s : St} {c : RCur} {n : Nat} (h : RI src s.r c) (hb : BlankAt src c n)
    (parent : Nat) (blank : Bool) (res : OpenResult) (lb : Option Block) (fuel : Nat) :
    ∃ r', openBlocksLoop blank false (fuel + 1) parent res lb s =
        .ok (res, { s with r := r', pc := { s.pc with blockOffset := (n : Int), blockIndent := (n : Int) } }) ∧
      RI src r' c := by
  obtain ⟨r1, p1, h1⟩ := peekLine_run_bk h
  obtain ⟨v, r2, p2, h2⟩ := lineOffset_run_bk (s := { s with r := r1 }) h1
  rw [openBlocksLoop]
  rw [bind_run p1]
  simp only [hb.view, Option.getD_some]
  rw [bind_run p2]
  simp only [indentWidthI_blankL, blankL_length]
  have hlen : ¬ ((n : Int) ≥ ((n + 1 : Nat) : Int)) := by omega
  have hlen' : (n : Int) < ((n + 1 : Nat) : Int) := by omega
  simp only [if_neg hlen, if_pos hlen', Option.isNone_some, Bool.false_eq_true, if_false]
  have p3 : modPc (fun pc => { pc with blockOffset := (n : Int), blockIndent := (n : Int) }) { s with r := r2 } =
      .ok ((), { s with r := r2, pc := { s.pc with blockOffset := (n : Int), blockIndent := (n : Int) } }) := rfl
  rw [bind_run p3]
  rw [bind_run (liftE_run_bk (idx_blankL_zero n) _)]
  by_cases hn : n = 0
  · rw [if_pos hn, if_pos (by decide), toContinuable_false_bk]
    exact ⟨r2, rfl, h2⟩
  · rw [if_neg hn, if_neg (by decide)]
    rw [bind_run (liftE_run_bk (idx_blankL_last n) _)]
    simp only [pure_bind, triggered_nl_bk, Option.getD_none]
    obtain ⟨r3, lb', t3, h3⟩ := tryParsers_blank_res
      (s := { s with r := r2, pc := { s.pc with blockOffset := (n : Int), blockIndent := (n : Int) } })
      h2 hb parent blank res lb
    rw [bind_run (m := get) rfl, bind_run t3]
    simp only
    rw [toContinuable_false_bk]
    exact ⟨r3, rfl, h3⟩

theorem openBlocksLoop_blank {src} {s : St} {c : RCur} {n : Nat} (h : RI src s.r c) (hb : BlankAt src c n)
    (parent : Nat) (blank : Bool) (lb : Option Block) (fuel : Nat) :
    ∃ r', openBlocksLoop blank false (fuel + 1) parent .noBlocksOpened lb s =
        .ok (OpenResult.noBlocksOpened,
          { s with r := r', pc := { s.pc with blockOffset := (n : Int), blockIndent := (n : Int) } }) ∧
      RI src r' c :=
  openBlocksLoop_blank_res h hb parent blank .noBlocksOpened lb fuel

/-- `openBlocks` on a line whose rest is blank, the last opened block not being a paragraph: nothing is opened;
    only the reader caches and the published block offset change -/
theorem openBlocks_blank_qs {src : Bytes} {s : St} {c : RCur} (h : RI src s.r c) (hp : c.p < src.length)
    (hpad : c.pad = 0)
    (hline : ∃ n, sub src c.p (lineEnd src c.p) = List.replicate n 32 ++ [10])
    (hlast : ∃ lb, s.pc.opened.getLast? = some lb ∧ (s.nodes.getD lb.node default).kind ≠ .paragraph)
    (parent : Nat) (blank : Bool) :
    ∃ r' bo bi, openBlocks parent blank s =
        .ok (OpenResult.noBlocksOpened, { s with r := r', pc := { s.pc with blockOffset := bo, blockIndent := bi } }) ∧
      RI src r' c := by
  obtain ⟨n, hn⟩ := hline
  obtain ⟨lb, hlb, hk⟩ := hlast
  have hb : BlankAt src c n := ⟨hp, hpad, hn⟩
  obtain ⟨r', e, h'⟩ := openBlocksLoop_blank h hb parent blank (some lb) (2 * src.length + 7)
  refine ⟨r', (n : Int), (n : Int), ?_, h'⟩
  unfold openBlocks
  rw [bind_run (lastOpenedBlock_run_bk s), hlb]
  simp only
  rw [bind_run (m := getNode lb.node) (s1 := s) (a := s.nodes.getD lb.node default) rfl]
  have hk' : ((s.nodes.getD lb.node default).kind == Kind.paragraph) = false := beq_eq_false_iff_ne.mpr hk
  simp only [hk', pure_bind]
  rw [bind_run (m := source) (s1 := s) (a := s.r.source) rfl, h.source]
  exact e

end GM.Blocks
