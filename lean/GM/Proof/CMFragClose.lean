/-
  GM.Proof.CMFragClose — closing the open paragraph of a fragment document: the guarded link-reference transformer
  leaves the state as it is, `paragraphParser.Close` removes the last line feed, `closeBlocks` empties the list of
  opened blocks; the two places where the driver does that: a blank line, the end of the source.
-/
import GM.Proof.CMFragPara

namespace GM.Proof.CMFrag
open GM GM.Text GM.Blocks GM.Spec

theorem lineAt_snoc (init : List Segment) (x : Segment) :
    lineAt (init ++ [x]) (((init ++ [x]).length : Int) - 1) = .ok x := by
  have e : (((init ++ [x]).length : Int) - 1).toNat = init.length := by simp
  have c : ¬ (((init ++ [x]).length : Int) - 1 < 0) := by simp
  simp only [lineAt, segAt, c, if_false, e]
  simp

theorem lineSet_snoc (init : List Segment) (x y : Segment) :
    lineSet (init ++ [x]) (((init ++ [x]).length : Int) - 1) y = .ok (init ++ [y]) := by
  have e : (((init ++ [x]).length : Int) - 1).toNat = init.length := by simp
  have c : (0 ≤ ((init ++ [x]).length : Int) - 1 ∧ ((init ++ [x]).length : Int) - 1 < ((init ++ [x]).length : Int)) := by
    simp; omega
  simp only [lineSet, c, if_true, e]
  simp

theorem trimRight_line {src : Bytes} {q : Nat} {l : Bytes} (hl : Ln src q (q + l.length + 1) (l ++ [10])) (hb : BlkLine l) :
    (sg q (q + l.length + 1)).trimRightSpace src = .ok (sg q (q + l.length)) := by
  obtain ⟨c, t, hlc, hc⟩ := hb.first
  have c2 : (0 ≤ (q : Int) ∧ (q : Int) ≤ ((q + l.length + 1 : Nat) : Int) ∧ ((q + l.length + 1 : Nat) : Int) ≤ (src.length : Int)) := by
    have := hl.le; omega
  have hne : l ≠ [] := by rw [hlc]; simp
  have hlast : isSpace (l.getLast hne) = false := hb.lastNoSpace _ (List.getLast?_eq_some_getLast hne)
  have htr : trimRightSpaceLength (l ++ [10]) = 1 := by
    unfold trimRightSpaceLength
    rw [List.reverse_append]
    have e : l.reverse = l.getLast hne :: l.dropLast.reverse := by
      conv => lhs; rw [← List.dropLast_concat_getLast hne]
      simp
    have h10 : isSpace 10 = true := by decide
    simp [List.takeWhile, h10, e, hlast]
  have hs : sub src ((q : Nat) : Int).toNat ((q + l.length + 1 : Nat) : Int).toNat = l ++ [10] := by
    rw [Int.toNat_natCast, Int.toNat_natCast]; exact hl.sub
  simp only [Segment.trimRightSpace, sg, sliceB, c2, if_true, hs, and_self, bind, Except.bind, pure, Except.pure, htr]
  have : ¬ (1 = (l ++ [10]).length) := by
    rw [hlc]; simp
  simp [this]
  intro h0; exact absurd h0 hne

section close
variable {src : Bytes} {p : Nat} {ls : List Bytes}

/-- the guarded link-reference transformer on the open fragment paragraph (the last node): nothing changes -/
theorem guardedTransform_open (hne : ls ≠ []) (h : ParaAt src p ls) (hb : ∀ l ∈ ls, BlkLine l)
    (r : Reader) (hr : r.source = src) (d : Blocks.Node) (rest : List Blocks.Node) (b : Bool) (pc : Ctx) :
    GM.LinkRef.guardedTransform (rest.length + 1) ⟨r, d :: (rest ++ [paraN (openSegs p ls) b]), pc⟩ =
      .ok ((), ⟨r, d :: (rest ++ [paraN (openSegs p ls) b]), pc⟩) := by
  have hw := wf0B_open ls p hne h
  have hw' : GM.LinkRef.wfSegsB src (openSegs p ls) = true := by
    simp only [GM.LinkRef.wf0B, Bool.and_eq_true] at hw; exact hw.1
  unfold GM.LinkRef.guardedTransform
  simp only [bind_apply, getNode_run, getD_last, source_run, hr, paraN, hw', Bool.not_true, Bool.and_false,
    Bool.false_eq_true, if_false]
  apply GM.Proof.LinkRefFacts.transform_declined_state
  · simp only [getD_last]
    cases ls with
    | nil => exact absurd rfl hne
    | cons l rest' => simp [openSegs]
  · simp only [getD_last, hr]
    exact transformScan_open ls p hne h hb _

/-- paragraphParser.Close on the open fragment paragraph -/
theorem paragraphClose_open (hne : ls ≠ []) (h : ParaAt src p ls) (hb : ∀ l ∈ ls, BlkLine l)
    (r : Reader) (hr : r.source = src) (d : Blocks.Node) (rest : List Blocks.Node) (b : Bool) (pc : Ctx) :
    paragraphClose (rest.length + 1) ⟨r, d :: (rest ++ [paraN (openSegs p ls) b]), pc⟩ =
      .ok ((), ⟨r, d :: (rest ++ [paraN (paraSegs p ls) b]), pc⟩) := by
  obtain ⟨init, q, l, hmem, h1, h2, h3⟩ := segs_snoc ls p hne h
  have htl := trimLeftAll_open ls p h hb
  have htr := trimRight_line h3 (hb l hmem)
  unfold paragraphClose
  simp only [bind_apply, getNode_run, getD_last, source_run, hr, paraN, htl, liftE_ok]
  rw [h1, h2]
  have hlen : ((init ++ [sg q (q + l.length + 1)]).length != 0) = true := by simp
  simp only [hlen, if_true, bind_apply, liftE_ok, lineAt_snoc, htr, lineSet_snoc, modNode_run, getD_last, set_last,
    getNode_run]
  simp [pure_apply]

/-- the paragraph transformers of the default configuration, with the run-time check -/
abbrev pts : List PT := GM.Convert.paragraphTransformers true

/-- closeBlocks on the open fragment paragraph (the only opened block) -/
theorem closeBlocks_open (hne : ls ≠ []) (h : ParaAt src p ls) (hb : ∀ l ∈ ls, BlkLine l)
    (r : Reader) (hr : r.source = src) (d : Blocks.Node) (rest : List Blocks.Node) (b : Bool) (pc : Ctx)
    (hop : pc.opened = [{ node := rest.length + 1, bp := .paragraph }]) :
    closeBlocksT pts 0 0 ⟨r, d :: (rest ++ [paraN (openSegs p ls) b]), pc⟩ =
      .ok ((), ⟨r, d :: (rest ++ [paraN (paraSegs p ls) b]), { pc with opened := [] }⟩) := by
  have hg := guardedTransform_open hne h hb r hr d rest b pc
  have hc := paragraphClose_open hne h hb r hr d rest b pc
  unfold closeBlocksT
  simp only [bind_apply, getPc_run, hop]
  have e1 : ((0 : Int) - 0 + 1).toNat = 1 := by decide
  rw [e1, closeLoopT, closeLoopT]
  have e2 : ∀ blk : Block, blockAt [blk] (0 + ((0 : Nat) : Int)) = .ok blk := by intro blk; simp [blockAt]
  have e3 : (paraN (openSegs p ls) b).kind = .paragraph := rfl
  have e4 : (paraN (openSegs p ls) b).parent = some 0 := rfl
  have e5 : (paraN (paraSegs p ls) b).parent = some 0 := rfl
  simp only [bind_apply, e2, liftE_ok, getNode_run, getD_last, e3, e4, e5, pts, GM.Convert.paragraphTransformers,
    transformParagraph, hg, pure_apply, bpClose, hc, if_true, Option.isSome_some, Option.isNone_some, beq_self_eq_true,
    Bool.and_self, Bool.false_eq_true, if_false]
  simp [closeBlocks.slice', liftE_ok, bind_apply, modPc_run, pure_apply]
end close

end GM.Proof.CMFrag
