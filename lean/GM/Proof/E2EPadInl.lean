/-
  GM.Proof.E2EPadInl — the padding relation `P0` (GM.Proof.E2EPad) through the list surgery of the inline phase:
  MergeOrAppendTextSegment, RemoveDelimiter, ClearDelimiters, ProcessDelimiters (opener search, closer loop), the label
  bookkeeping of the link parser, CloseBlock. None of them creates a segment except by `withStop` on an existing one.
-/
import GM.Proof.E2EPad
import GM.Proof.Inlines

namespace GM.E2E.Pad
open GM GM.Text GM.Inl GM.Proof.InlinesTotal GM.Proof.Inlines

/-! ### nodes -/

theorem p0_text (s : Segment) (a b c : Bool) : P0.p (Node.text s a b c) ↔ s.padding = 0 := by
  show (∀ x ∈ segsOf (Node.text s a b c), x.padding = 0) ↔ _
  simp [segsOf]
theorem p0_textOf (s : Segment) : P0.p (textOf s) ↔ s.padding = 0 := p0_text s _ _ _
theorem p0_rawTextOf (s : Segment) : P0.p (rawTextOf s) ↔ s.padding = 0 := p0_text s _ _ _
theorem p0_autoLink (e : Bool) (s : Segment) : P0.p (Node.autoLink e s) ↔ s.padding = 0 := by
  show (∀ x ∈ segsOf (Node.autoLink e s), x.padding = 0) ↔ _
  simp [segsOf]
theorem p0_rawHTML (ss : List Segment) : P0.p (Node.rawHTML ss) ↔ P0.p ss := Iff.rfl
theorem p0_delim (id : Nat) (d : Delim) : P0.p (Node.delim id d) ↔ d.seg.padding = 0 := by
  show (∀ x ∈ segsOf (Node.delim id d), x.padding = 0) ↔ _
  simp [segsOf]
theorem p0_label (id : Nat) (s : Segment) (im : Bool) : P0.p (Node.label id s im) ↔ s.padding = 0 := by
  show (∀ x ∈ segsOf (Node.label id s im), x.padding = 0) ↔ _
  simp [segsOf]

theorem p0_nodes_iff : ∀ (ks : List Node), P0.p ks ↔ ∀ s ∈ segsOfL ks, s.padding = 0
  | [] => by simp [segsOfL]; exact p0_nil
  | n :: rest => by
    rw [p0_cons, p0_nodes_iff rest]
    simp only [segsOfL, List.mem_append]
    constructor
    · rintro ⟨h1, h2⟩ s (hs | hs)
      · exact h1 s hs
      · exact h2 s hs
    · intro h; exact ⟨fun s hs => h s (.inl hs), fun s hs => h s (.inr hs)⟩

theorem p0_codeSpan (ks : List Node) : P0.p (Node.codeSpan ks) ↔ P0.p ks := by
  rw [p0_nodes_iff]; exact Iff.rfl
theorem p0_emphasis (lv : Int) (ks : List Node) : P0.p (Node.emphasis lv ks) ↔ P0.p ks := by
  rw [p0_nodes_iff]; exact Iff.rfl
theorem p0_link (im : Bool) (d : Bytes) (t : Option Bytes) (ks : List Node) : P0.p (Node.link im d t ks) ↔ P0.p ks := by
  rw [p0_nodes_iff]; exact Iff.rfl

theorem p0_getLast {α} [P0 α] {l : List α} (h : P0.p l) {a : α} (e : l.getLast? = some a) : P0.p a :=
  h a (List.mem_of_getLast? e)

/-! ### text merge, delimiter removal -/

theorem mergeOrAppend_p0 {kids : List Node} {s : Segment} (hk : P0.p kids) (hs : s.padding = 0) :
    P0.p (mergeOrAppend kids s) := by
  unfold mergeOrAppend
  split
  · rename_i seg soft hard raw hl
    have hseg : seg.padding = 0 := (p0_text _ _ _ _).mp (p0_getLast hk hl)
    split
    · exact (p0_append _ _).mpr ⟨p0_dropLast hk, (p0_cons _ _).mpr ⟨(p0_text _ _ _ _).mpr (p0_withStop hseg _), p0_nil⟩⟩
    · exact (p0_append _ _).mpr ⟨hk, (p0_cons _ _).mpr ⟨(p0_textOf _).mpr hs, p0_nil⟩⟩
  · exact (p0_append _ _).mpr ⟨hk, (p0_cons _ _).mpr ⟨(p0_textOf _).mpr hs, p0_nil⟩⟩

theorem consume_p0 {d : Delim} (h : d.seg.padding = 0) (n : Int) : (d.consume n).seg.padding = 0 := h

theorem removeDelim_p0 {pre : List Node} {d : Delim} (hp : P0.p pre) (hd : d.seg.padding = 0) :
    P0.p (removeDelim pre d) := by
  unfold removeDelim
  split
  · exact mergeOrAppend_p0 hp hd
  · exact hp

theorem clearInner_p0 : ∀ (mid acc : List Node), P0.p acc → P0.p mid → P0.p (clearInner acc mid)
  | [], acc, ha, _ => by unfold clearInner; exact ha
  | n :: rest, acc, ha, hm => by
    have hm' := (p0_cons _ _).mp hm
    cases n with
    | delim id d =>
      unfold clearInner
      exact clearInner_p0 rest _ (removeDelim_p0 ha ((p0_delim _ _).mp hm'.1)) hm'.2
    | _ =>
      unfold clearInner
      exact clearInner_p0 rest _ ((p0_append _ _).mpr ⟨ha, (p0_cons _ _).mpr ⟨hm'.1, p0_nil⟩⟩) hm'.2

theorem clearRev_p0 (b : Bottom) : ∀ (l : List Node), P0.p l → P0.p (clearRev b l)
  | [], _ => by unfold clearRev; exact p0_nil
  | n :: rest, h => by
    have h' := (p0_cons _ _).mp h
    have ih := clearRev_p0 b rest h'.2
    cases n with
    | delim id d =>
      have hd : d.seg.padding = 0 := (p0_delim _ _).mp h'.1
      have hdef : P0.p (textOf d.seg :: clearRev b rest) := (p0_cons _ _).mpr ⟨(p0_textOf _).mpr hd, ih⟩
      unfold clearRev
      split
      · exact h
      · split
        · cases rest with
          | nil => simpa using hdef
          | cons x rest' =>
            cases x with
            | text seg so ha ra =>
              have hseg : seg.padding = 0 := (p0_text _ _ _ _).mp ((p0_cons _ _).mp h'.2).1
              cases hr : clearRev b (Node.text seg so ha ra :: rest') with
              | nil => rw [hr] at hdef; simpa [hr] using hdef
              | cons y r' =>
                rw [hr] at ih hdef
                simp only [hr]
                split
                · exact (p0_cons _ _).mpr ⟨(p0_text _ _ _ _).mpr (p0_withStop hseg _), ((p0_cons _ _).mp ih).2⟩
                · exact hdef
            | _ => simpa using hdef
        · exact ih
    | _ =>
      unfold clearRev
      exact (p0_cons _ _).mpr ⟨h'.1, ih⟩

theorem clearDelimiters_p0 (b : Bottom) {kids : List Node} (h : P0.p kids) : P0.p (clearDelimiters b kids) := by
  unfold clearDelimiters
  split
  · exact h
  · rename_i pre id d post hs
    have e := splitLastDelim_eq hs
    rw [e] at h
    have h1 := (p0_append _ _).mp h
    have h2 := (p0_cons _ _).mp h1.2
    refine (p0_append _ _).mpr ⟨(p0_reverse _).mpr (clearRev_p0 b _ ?_), h2.2⟩
    exact (p0_cons _ _).mpr ⟨h2.1, (p0_reverse _).mpr h1.1⟩

/-! ### ProcessDelimiters -/

theorem findOpener_p0 (b : Bottom) (closer : Delim) : ∀ (restR mid : List Node) (maybe : Bool), P0.p restR → P0.p mid →
    ∀ p1 oid od mid' c m, findOpener b closer restR mid maybe = (some (p1, oid, od, mid', c), m) →
      P0.p p1 ∧ od.seg.padding = 0 ∧ P0.p mid'
  | [], mid, maybe, _, _ => by intro p1 oid od mid' c m h; simp [findOpener] at h
  | n :: restR, mid, maybe, hr, hm => by
    intro p1 oid od mid' c m h
    have hr' := (p0_cons _ _).mp hr
    cases n with
    | delim id d =>
      unfold findOpener at h
      split at h
      · simp at h
      · split at h
        · simp only at h
          split at h
          · simp only [Prod.mk.injEq, Option.some.injEq] at h
            obtain ⟨⟨rfl, rfl, rfl, rfl, rfl⟩, _⟩ := h
            exact ⟨(p0_reverse _).mpr hr'.2, (p0_delim _ _).mp hr'.1, hm⟩
          · exact findOpener_p0 b closer restR _ _ hr'.2 ((p0_cons _ _).mpr ⟨hr'.1, hm⟩) _ _ _ _ _ _ h
        · exact findOpener_p0 b closer restR _ _ hr'.2 ((p0_cons _ _).mpr ⟨hr'.1, hm⟩) _ _ _ _ _ _ h
    | _ =>
      unfold findOpener at h
      exact findOpener_p0 b closer restR _ _ hr'.2 ((p0_cons _ _).mpr ⟨hr'.1, hm⟩) _ _ _ _ _ _ h

/-- the relation on one round's outcome -/
def CStepP0 : CStep → Prop
  | .done kids => P0.p kids
  | .next pre _ cd post => P0.p pre ∧ cd.seg.padding = 0 ∧ P0.p post
  | .bad => True

theorem advanceCloser_p0 {pre post : List Node} (hp : P0.p pre) (hq : P0.p post) : CStepP0 (advanceCloser pre post) := by
  unfold advanceCloser
  split
  · exact (p0_append _ _).mpr ⟨hp, hq⟩
  · rename_i mid nid nd post' hs
    have e := splitFirstDelim_eq hs
    rw [e] at hq
    have h1 := (p0_append _ _).mp hq
    have h2 := (p0_cons _ _).mp h1.2
    exact ⟨(p0_append _ _).mpr ⟨hp, h1.1⟩, (p0_delim _ _).mp h2.1, h2.2⟩

theorem closerStep_p0 (b : Bottom) {pre post : List Node} {cid : Nat} {cd : Delim} (hp : P0.p pre)
    (hd : cd.seg.padding = 0) (hq : P0.p post) : CStepP0 (closerStep b pre cid cd post) := by
  unfold closerStep
  split
  · trivial
  · split
    · exact advanceCloser_p0 ((p0_append _ _).mpr ⟨hp, (p0_cons _ _).mpr ⟨(p0_delim _ _).mpr hd, p0_nil⟩⟩) hq
    · split
      · refine advanceCloser_p0 ?_ hq
        split
        · exact removeDelim_p0 hp hd
        · exact (p0_append _ _).mpr ⟨hp, (p0_cons _ _).mpr ⟨(p0_delim _ _).mpr hd, p0_nil⟩⟩
      · rename_i p1 oid od mid consume m hf
        obtain ⟨h1, h2, h3⟩ := findOpener_p0 b cd pre.reverse [] false ((p0_reverse _).mpr hp) p0_nil _ _ _ _ _ _ hf
        split
        · trivial
        · simp only
          have hnode : P0.p (Node.emphasis consume (clearInner [] mid)) :=
            (p0_emphasis _ _).mpr (clearInner_p0 mid [] p0_nil h3)
          have hpre' : P0.p ((if (od.consume consume).length == 0 then p1
              else p1 ++ [Node.delim oid (od.consume consume)]) ++ [Node.emphasis consume (clearInner [] mid)]) := by
            refine (p0_append _ _).mpr ⟨?_, (p0_cons _ _).mpr ⟨hnode, p0_nil⟩⟩
            split
            · exact h1
            · exact (p0_append _ _).mpr ⟨h1, (p0_cons _ _).mpr ⟨(p0_delim _ _).mpr (consume_p0 h2 _), p0_nil⟩⟩
          split
          · exact advanceCloser_p0 hpre' hq
          · exact ⟨hpre', consume_p0 hd _, hq⟩

theorem closerLoop_p0 (b : Bottom) (pre : List Node) (cid : Nat) (cd : Delim) (post : List Node) :
    P0.p pre → cd.seg.padding = 0 → P0.p post → OKP (closerLoop b pre cid cd post) := by
  fun_induction closerLoop b pre cid cd post with
  | case1 pre cid cd post kids hs =>
    intro hp hd hq
    have := closerStep_p0 b (cid := cid) hp hd hq
    rw [hs] at this
    exact OKP.ok this
  | case2 => intro _ _ _; exact OKP.error _
  | case3 pre cid cd post pre' cid' cd' post' hs ih =>
    intro hp hd hq
    have := closerStep_p0 b (cid := cid) hp hd hq
    rw [hs] at this
    exact ih this.1 this.2.1 this.2.2

theorem processDelimiters_p0 (b : Bottom) {kids : List Node} (hk : P0.p kids) : OKP (processDelimiters b kids) := by
  unfold processDelimiters
  split
  · exact OKP.ok hk
  · simp only
    split
    · exact OKP.ok (clearDelimiters_p0 b hk)
    · rename_i cid _
      split
      · exact OKP.error _
      · rename_i pre cd post hs
        have e := splitAtDelim_eq hs
        rw [e] at hk
        have h1 := (p0_append _ _).mp hk
        have h2 := (p0_cons _ _).mp h1.2
        have hl := closerLoop_p0 b pre cid cd post h1.1 ((p0_delim _ _).mp h2.1) h2.2
        split
        · rename_i kids' hk'
          exact OKP.ok (clearDelimiters_p0 b (hl kids' hk'))
        · exact OKP.error _

/-! ### CloseBlock -/

mutual
theorem closeLabels_p0 : ∀ (n : Node), P0.p n → P0.p (closeLabels n)
  | .label id s im, h => by simp only [closeLabels]; exact (p0_textOf _).mpr ((p0_label _ _ _).mp h)
  | .emphasis lv ks, h => by
    simp only [closeLabels]; exact (p0_emphasis _ _).mpr (closeLabelsL_p0 ks ((p0_emphasis _ _).mp h))
  | .link im d t ks, h => by
    simp only [closeLabels]; exact (p0_link _ _ _ _).mpr (closeLabelsL_p0 ks ((p0_link _ _ _ _).mp h))
  | .codeSpan ks, h => by
    simp only [closeLabels]; exact (p0_codeSpan _).mpr (closeLabelsL_p0 ks ((p0_codeSpan _).mp h))
  | .text .., h => by simpa only [closeLabels] using h
  | .autoLink .., h => by simpa only [closeLabels] using h
  | .rawHTML .., h => by simpa only [closeLabels] using h
  | .delim .., h => by simpa only [closeLabels] using h
theorem closeLabelsL_p0 : ∀ (ks : List Node), P0.p ks → P0.p (closeLabelsL ks)
  | [], _ => by simp only [closeLabelsL]; exact p0_nil
  | n :: rest, h => by
    have h' := (p0_cons _ _).mp h
    simp only [closeLabelsL]
    exact (p0_cons _ _).mpr ⟨closeLabels_p0 n h'.1, closeLabelsL_p0 rest h'.2⟩
end

end GM.E2E.Pad
