/-
  GM.Proof.CMFrag9Inl — stage 9: the inline phase on a paragraph whose lines (all but the last) may end in a HARD LINE
  BREAK written with a backslash: `classify` shortens such a line by the backslash and the line feed and sets the
  hard + visible flags; the Text node covers the text in front of the backslash and has `hard = true`.
  Core Lean only.
-/
import GM.Proof.CMFrag9Defs

namespace GM.Proof.CMFrag
open GM GM.Text GM.Inl

/-! ### the block phase's view of a line -/

theorem hlineSrc_ne9 (x : HLine) (h : GoodLine x.l) : hlineSrc x ≠ [] := by
  unfold hlineSrc
  cases x.hard
  · simpa using h.ne
  · simp

theorem hline_blk9 (x : HLine) (h : GoodLine x.l) (hn : ∀ c ∈ x.l, c ≠ 10) : BlkLine (hlineSrc x) := by
  unfold hlineSrc
  cases hx : x.hard
  · simpa using h.blk hn
  · simp only [if_true]
    refine ⟨?_, ?_, ?_⟩
    · obtain ⟨c, t, hl, hc⟩ := (h.blk hn).first
      exact ⟨c, t ++ [92], by rw [hl]; rfl, hc⟩
    · intro c hc
      simp at hc
      subst hc
      decide
    · intro c hc
      simp only [List.mem_append, List.mem_cons, List.not_mem_nil, or_false] at hc
      rcases hc with hc | hc
      · exact hn c hc
      · subst hc; decide

/-! ### the children -/

/-- the inline children of the paragraph that starts at byte `p`: one Text per line; the Text of a hard line stops in
    front of the backslash and carries the hard flag -/
def hardKids9 : Nat → List HLine → List GM.Inl.Node
  | _, [] => []
  | p, [x] => [.text { start := p, stop := p + x.l.length } false false false]
  | p, x :: y :: rest =>
    .text { start := p, stop := p + x.l.length } (!x.hard) x.hard false ::
      hardKids9 (p + (hlineSrc x).length + 1) (y :: rest)

theorem hardKids_text9 : ∀ (ls : List HLine) (p : Nat), allText (hardKids9 p ls)
  | [], _ => trivial
  | [_], _ => trivial
  | x :: y :: rest, p => hardKids_text9 (y :: rest) (p + (hlineSrc x).length + 1)

/-! ### classify on a line that ends in one backslash and the line feed -/

theorem trailingBackslashes_bs9 (l0 : Bytes) (c : UInt8) (h : c ≠ 92) :
    trailingBackslashes (l0 ++ [c] ++ [92]) = 1 := by
  simp [trailingBackslashes, h]

theorem classify_bs9 (l0 : Bytes) (c : UInt8) (hb : c ≠ 92) :
    classify (l0 ++ [c] ++ [92] ++ [10]) = (l0.length + 1, 5) := by
  have e1 : (l0 ++ [c] ++ [92] ++ [10])[(l0 ++ [c] ++ [92] ++ [10]).length - 1]? = some 10 := by simp
  have e3 : List.take ((l0 ++ [c] ++ [92] ++ [10]).length - 1) (l0 ++ [c] ++ [92] ++ [10]) = l0 ++ [c] ++ [92] := by
    apply List.take_left'
    simp
  unfold classify
  simp only [e1, e3, trailingBackslashes_bs9 l0 c hb]
  simp

/-! ### the end of a hard line -/

theorem endOfLine_hard9 (src : Bytes) (segs : List Segment) (L : Int)
    (j p m : Nat) (l l0 : Bytes) (c : UInt8) (seg' : Segment) (ks : List Inl.Node) (nid : Nat) (bs : List Bottom)
    (e : Bool) (hl : l = l0 ++ [c]) (hm : m = l.length + 1)
    (hnext : segs[j + 1]? = some seg') :
    endOfLine 5 j
      { st := { rd := rdAt src segs L j { start := p, stop := (p : Int) + m + 1 } p, kids := ks,
                nextId := nid, bottoms := bs },
        n := l.length, sp := { start := p, stop := (p : Int) + m + 1 }, escaped := e } =
    .ok { rd := rdAt src segs L (j + 1) seg' seg'.start,
          kids := ks ++ [.text { start := p, stop := (p : Int) + l.length } false true false], nextId := nid,
          bottoms := bs } := by
  have hlen0 : l.length ≠ 0 := by subst hl; simp
  have hj : j + 1 < segs.length := (List.getElem?_eq_some_iff.mp hnext).1
  have hn : (((l.length : Nat) : Int) != 0) = true := by simp; intro h; simp [h] at hlen0
  unfold endOfLine
  simp only [hn, if_true, bind, Except.bind]
  rw [advance_fast _ _ _ _ _ _ _ _ (by omega)]
  simp only [BlockReader.position, rdAt, bne_self_eq_false, Bool.false_eq_true, if_false, Segment.between]
  simp only [Int.sub_self, pure, Except.pure]
  have het : ∀ d, eolText src 5 d ks = .ok (d, ks) := by
    intro d
    unfold eolText
    simp [pure, Except.pure]
  rw [het]
  have ha := advanceLine_next src segs L j { start := (p : Int) + l.length, stop := (p : Int) + m + 1 }
    seg' p hnext
  simp only [rdAt] at ha
  simp only [ha]
  rfl

theorem hard_step9 (env : Env) (henv : env.escapedSpace = false) (src : Bytes) (segs : List Segment) (L : Int)
    (j p m : Nat) (l l0 : Bytes) (c : UInt8) (seg' : Segment) (ks : List Inl.Node) (nid : Nat) (bs : List Bottom)
    (fuel : Nat) (hl : l = l0 ++ [c]) (hb : c ≠ 92) (hq : quiet l 0 false = true) (hm : m = l.length + 1)
    (hsub : sub src p (p + m + 1) = l ++ [92] ++ [10]) (hlen : p + m + 1 ≤ src.length)
    (hL : (p : Int) < L) (hnext : segs[j + 1]? = some seg') :
    lineLoop env (fuel + 1) false
      { rd := rdAt src segs L j { start := p, stop := (p : Int) + m + 1 } p, kids := ks, nextId := nid,
        bottoms := bs } =
    lineLoop env fuel false
      { rd := rdAt src segs L (j + 1) seg' seg'.start,
        kids := ks ++ [.text { start := p, stop := (p : Int) + l.length } false true false], nextId := nid,
        bottoms := bs } := by
  have hv : sliceB src (p : Int) ((p : Int) + m + 1) = .ok (l ++ [92] ++ [10]) := by
    have := sliceB_nat src p (m + 1) (by omega)
    rw [show p + (m + 1) = p + m + 1 by omega, hsub] at this
    rw [← this]; congr 1
  have hlive : (rdAt src segs L j { start := p, stop := (p : Int) + m + 1 } p).live = true := by
    have : j < segs.length := by
      have := (List.getElem?_eq_some_iff.mp hnext).1; omega
    simp [BlockReader.live, rdAt, this, hL]
  have hcl : classify (l ++ [92] ++ [10]) = (l.length, 5) := by
    rw [hl, classify_bs9 l0 c hb]; simp
  have hsc := scan_quiet env henv l [] 0
    { st := { rd := rdAt src segs L j { start := p, stop := (p : Int) + m + 1 } p, kids := ks, nextId := nid, bottoms := bs },
      n := 0, sp := { start := p, stop := (p : Int) + m + 1 }, escaped := false } hq (Or.inl rfl)
  rw [escAfter_good l l0 c hl hb] at hsc
  simp only [Int.zero_add, List.append_nil] at hsc
  have heol := endOfLine_hard9 src segs L j p m l l0 c seg' ks nid bs false hl hm hnext
  refine lineLoop_eol env fuel false _ _ (l ++ [92] ++ [10]) { start := p, stop := (p : Int) + m + 1 }
    { st := { rd := rdAt src segs L j { start := p, stop := (p : Int) + m + 1 } p, kids := ks, nextId := nid, bottoms := bs },
      n := l.length, sp := { start := p, stop := (p : Int) + m + 1 }, escaped := false } ?_ ?_ ?_ ?_ rfl
  · simp only [BlockReader.peekLine, hlive, if_true, bind, Except.bind, pure, Except.pure]
    simp only [rdAt, value_plain, hv]
  · simp
  · rw [hcl]
    have : List.take l.length (l ++ [92] ++ [10]) = l := by
      rw [List.append_assoc]; exact List.take_left' rfl
    simp only [this]
    exact hsc
  · rw [hcl]
    exact heol

/-! ### the whole paragraph -/

theorem hlinesOK_tail9 {x y : HLine} {rest : List HLine} (h : HLinesOK (x :: y :: rest)) : HLinesOK (y :: rest) :=
  ⟨fun z hz => h.1 z (by simp at hz ⊢; right; exact hz), fun z hz => h.2 z (by simpa using hz)⟩

theorem loop_hard9 (env : Env) (henv : env.escapedSpace = false) (src : Bytes) (segs : List Segment) (L : Int)
    (nid : Nat) (bs : List Bottom) :
    ∀ (ls : List HLine) (p : Nat) (done : List Segment) (ks : List Inl.Node) (fuel : Nat), ls ≠ [] →
      HLinesOK ls → LinesAtE src p (ls.map hlineSrc) → segs = done ++ paraSegs p (ls.map hlineSrc) →
      L = (paraEnd p (ls.map hlineSrc) : Nat) → ls.length + 1 ≤ fuel →
      ∃ rd', lineLoop env fuel false
        { rd := rdAt src segs L done.length ((paraSegs p (ls.map hlineSrc)).headD default) p, kids := ks,
          nextId := nid, bottoms := bs } =
        .ok { rd := rd', kids := ks ++ hardKids9 p ls, nextId := nid, bottoms := bs }
  | [], _, _, _, _, h, _, _, _, _, _ => absurd rfl h
  | [x], p, done, ks, fuel, _, hok, hla, hsegs, hL, hf => by
    have hg := (hok.1 x (by simp)).1
    have hx : x.hard = false := hok.2 x rfl
    have hsrc : hlineSrc x = x.l := by simp [hlineSrc, hx]
    simp only [List.map_cons, List.map_nil, hsrc] at hla hsegs hL ⊢
    obtain ⟨l0, c, hl, hs, hb⟩ := good_concat hg
    obtain ⟨hsub', hlen⟩ := hla
    obtain ⟨f, rfl⟩ : ∃ f, fuel = f + 2 := ⟨fuel - 2, by simp at hf; omega⟩
    have hL' : L = (p : Int) + x.l.length := by simp [hL, paraEnd]
    subst hL'
    have := last_step env henv src segs done.length p x.l l0 c ks nid bs f hl hs hb hg.quiet hsub'
      hlen (by simp [hsegs, paraSegs])
    exact ⟨_, this⟩
  | x :: y :: rest, p, done, ks, fuel, _, hok, hla, hsegs, hL, hf => by
    have hg := (hok.1 x (by simp)).1
    obtain ⟨l0, c, hl, hs, hb⟩ := good_concat hg
    simp only [List.map_cons] at hla hsegs hL ⊢
    obtain ⟨hsub, hlen, hla'⟩ := hla
    obtain ⟨f, rfl⟩ : ∃ f, fuel = f + 1 := ⟨fuel - 1, by simp at hf; omega⟩
    have hpL : (p : Int) < L := by
      have := paraEnd_ge (hlineSrc y :: rest.map hlineSrc) (p + (hlineSrc x).length + 1)
      simp only [paraEnd] at hL
      omega
    have hsegs' : segs = (done ++ [{ start := (p : Int), stop := (p : Int) + (hlineSrc x).length + 1 }]) ++
        paraSegs (p + (hlineSrc x).length + 1) (hlineSrc y :: rest.map hlineSrc) := by
      rw [hsegs]; simp [paraSegs]
    have hnext : segs[done.length + 1]? =
        some ((paraSegs (p + (hlineSrc x).length + 1) (hlineSrc y :: rest.map hlineSrc)).headD default) := by
      rw [hsegs']
      rw [List.getElem?_append_right (by simp)]
      simp only [List.length_append, List.length_cons, List.length_nil, Nat.zero_add, Nat.sub_self]
      cases rest <;> rfl
    have e1 : (paraSegs p (hlineSrc x :: hlineSrc y :: rest.map hlineSrc)).headD default =
        { start := (p : Int), stop := (p : Int) + (hlineSrc x).length + 1 } := rfl
    have hstep : lineLoop env (f + 1) false
        { rd := rdAt src segs L done.length { start := p, stop := (p : Int) + (hlineSrc x).length + 1 } p, kids := ks,
          nextId := nid, bottoms := bs } =
        lineLoop env f false
          { rd := rdAt src segs L (done.length + 1)
              ((paraSegs (p + (hlineSrc x).length + 1) (hlineSrc y :: rest.map hlineSrc)).headD default)
              ((paraSegs (p + (hlineSrc x).length + 1) (hlineSrc y :: rest.map hlineSrc)).headD default).start,
            kids := ks ++ [.text { start := p, stop := (p : Int) + x.l.length } (!x.hard) x.hard false], nextId := nid,
            bottoms := bs } := by
      cases hx : x.hard
      · have hsrc : hlineSrc x = x.l := by simp [hlineSrc, hx]
        rw [hsrc] at hsub hlen hnext ⊢
        exact line_step env henv src segs L done.length p x.l l0 c _ ks nid bs f hl hs hb hg.quiet
          hsub hlen hpL hnext
      · have hsrc : hlineSrc x = x.l ++ [92] := by simp [hlineSrc, hx]
        rw [hsrc] at hsub hlen hnext ⊢
        have h9 := hard_step9 env henv src segs L done.length p (x.l ++ [92]).length x.l l0 c _ ks nid bs f hl hb hg.quiet
          (by simp) hsub hlen hpL hnext
        exact h9
    obtain ⟨rd', ih⟩ := loop_hard9 env henv src segs L nid bs (y :: rest) (p + (hlineSrc x).length + 1)
      (done ++ [{ start := (p : Int), stop := (p : Int) + (hlineSrc x).length + 1 }])
      (ks ++ [.text { start := p, stop := (p : Int) + x.l.length } (!x.hard) x.hard false]) f (by simp)
      (hlinesOK_tail9 hok) hla' hsegs' (by rw [hL]; rfl) (by simp at hf ⊢; omega)
    refine ⟨rd', ?_⟩
    rw [e1, hstep]
    have e2 : ((done ++ [({ start := (p : Int), stop := (p : Int) + (hlineSrc x).length + 1 } : Segment)]).length : Int) =
        (done.length : Int) + 1 := by
      simp
    simp only [List.map_cons] at ih
    rw [e2] at ih
    have e3 : ((paraSegs (p + (hlineSrc x).length + 1) (hlineSrc y :: rest.map hlineSrc)).headD default).start =
        ((p + (hlineSrc x).length + 1 : Nat) : Int) := by
      cases rest <;> rfl
    rw [e3, ih]
    simp [hardKids9]

/-- the inline phase on a paragraph whose lines may end in a backslash hard line break -/
theorem parseBlock_hard9 (env : GM.Inl.Env) (henv : env.escapedSpace = false) (src : Bytes) (p : Nat)
    (ls : List HLine) (hne : ls ≠ []) (hok : HLinesOK ls) (h : LinesAtE src p (ls.map hlineSrc)) :
    GM.Inl.parseBlock env src (paraSegs p (ls.map hlineSrc)) = .ok (hardKids9 p ls) := by
  have hne' : ls.map hlineSrc ≠ [] := by simpa using hne
  have hfuel : ls.length + 1 ≤ blockFuel src (paraSegs p (ls.map hlineSrc)) := by
    unfold blockFuel
    rw [paraSegs_length, List.length_map]
    omega
  obtain ⟨rd', h⟩ := loop_hard9 env henv src (paraSegs p (ls.map hlineSrc))
    (paraEnd p (ls.map hlineSrc) : Nat) 0 [] ls p [] [] _ hne hok h rfl rfl hfuel
  unfold parseBlock
  simp only [bind, Except.bind, new_para _ (ls.map hlineSrc) p hne']
  have h' : lineLoop env (blockFuel src (paraSegs p (ls.map hlineSrc))) false
      { rd := rdAt src (paraSegs p (ls.map hlineSrc)) (paraEnd p (ls.map hlineSrc) : Nat) 0
          ((paraSegs p (ls.map hlineSrc)).headD default) p } =
      .ok { rd := rd', kids := hardKids9 p ls, nextId := 0, bottoms := [] } := by
    simpa using h
  rw [h']
  simp only [processDelimiters_text _ (hardKids_text9 ls p), closeLabelsL_text _ (hardKids_text9 ls p),
    pure, Except.pure]

/-! ### the children as renderer nodes -/

theorem text_value9 {src : Bytes} {p : Nat} {l : Bytes} (hs : sub src p (p + l.length) = l)
    (hle : p + l.length ≤ src.length) :
    Segment.value { start := (p : Int), stop := (p : Int) + (l.length : Int) } src = .ok l := by
  rw [value_plain, sliceB_nat src p l.length hle, hs]

theorem inlineTrees_hard9 (src : Bytes) : ∀ (p : Nat) (ls : List HLine), HLinesOK ls →
    LinesAtE src p (ls.map hlineSrc) → GM.Convert.inlineTrees src (hardKids9 p ls) = .ok (hardNodes9 ls)
  | _, [], _, _ => rfl
  | p, [x], hok, h => by
    have hx : x.hard = false := hok.2 x rfl
    have hsrc : hlineSrc x = x.l := by simp [hlineSrc, hx]
    simp only [List.map_cons, List.map_nil, hsrc] at h
    simp only [hardKids9, GM.Convert.inlineTrees, GM.Convert.inlineTree, text_value9 h.1 h.2, bind, Except.bind, pure,
      Except.pure, hardNodes9]
  | p, x :: y :: rest, hok, h => by
    simp only [List.map_cons] at h
    have ih := inlineTrees_hard9 src (p + (hlineSrc x).length + 1) (y :: rest) (hlinesOK_tail9 hok) h.2.2
    have hv : Segment.value { start := (p : Int), stop := (p : Int) + (x.l.length : Int) } src = .ok x.l := by
      have h1 := h.1
      have h2 := h.2.1
      cases hx : x.hard
      · have hsrc : hlineSrc x = x.l := by simp [hlineSrc, hx]
        rw [hsrc] at h1 h2
        exact text_value9 (sub_prefix src p x.l.length x.l 10 rfl h1) (by omega)
      · have hsrc : hlineSrc x = x.l ++ [92] := by simp [hlineSrc, hx]
        rw [hsrc] at h1 h2
        simp only [List.length_append, List.length_cons, List.length_nil] at h1 h2
        have h3 : sub src p (p + (x.l.length + 1)) = x.l ++ [92] :=
          sub_prefix src p (x.l.length + 1) (x.l ++ [92]) 10 (by simp) h1
        exact text_value9 (sub_prefix src p x.l.length x.l 92 rfl h3) (by omega)
    simp only [hardKids9, GM.Convert.inlineTrees, GM.Convert.inlineTree, hv, bind, Except.bind, pure,
      Except.pure, hardNodes9] at ih ⊢
    rw [ih]

example : GM.Inl.parseBlock {} [97, 98, 92, 10, 99, 100, 10, 101, 102, 10]
    (paraSegs 0 ([⟨[97, 98], true⟩, ⟨[99, 100], false⟩, ⟨[101, 102], false⟩].map hlineSrc)) =
    .ok [.text { start := 0, stop := 2 } false true false, .text { start := 4, stop := 6 } true false false,
      .text { start := 7, stop := 9 } false false false] := by
  have hg : ∀ a b : UInt8, GM.Spec.CM.isLetter a = true → quiet [a, b] 0 false = true → isSpace b = false → b ≠ 92 →
      GoodLine [a, b] := by
    intro a b h1 h2 h3 h4
    exact ⟨by simp, by intro c h; simp at h; subst h; exact h1, h2, by intro c h; simp at h; subst h; exact h3,
      by intro c h; simp at h; subst h; exact h4⟩
  have hok : HLinesOK [⟨[97, 98], true⟩, ⟨[99, 100], false⟩, ⟨[101, 102], false⟩] := by
    refine ⟨?_, ?_⟩
    · intro x hx
      simp only [List.mem_cons, List.not_mem_nil, or_false] at hx
      rcases hx with rfl | rfl | rfl
      · exact ⟨hg _ _ (by decide) (by decide) (by decide) (by decide), by decide⟩
      · exact ⟨hg _ _ (by decide) (by decide) (by decide) (by decide), by decide⟩
      · exact ⟨hg _ _ (by decide) (by decide) (by decide) (by decide), by decide⟩
    · intro x hx
      simp at hx
      subst hx
      rfl
  have hla : LinesAtE [97, 98, 92, 10, 99, 100, 10, 101, 102, 10] 0 [[97, 98, 92], [99, 100], [101, 102]] :=
    ⟨by decide, by decide, by decide, by decide, by decide, by decide⟩
  exact parseBlock_hard9 {} rfl _ 0 _ (by simp) hok hla

end GM.Proof.CMFrag
