/-
  GM.Proof.ShiftSimXTop — "the first open block is the last child of the Document" (`TopLast`):
  * `first_open_not_raw` (T4): a run whose first open block is a code / fenced code / HTML block at the end of the source
    ends in a raw block;
  * `topLast_openBlocks0` (T2): `openBlocks 0` on an empty stack establishes `TopLast`;
  * `TopLast.congr_r` (T3).
-/
import GM.Proof.ShiftSimMainL
import GM.Proof.BlocksClosedLinks
import GM.Model.Blocks.Indep

namespace GM.Blocks.Xs
open GM GM.Text GM.Spec GM.Proof.Reader GM.Blocks GM.Blocks.L
open GM.Blocks.Sh (K KS bind_ok_inv liftE_ok_inv a2_getNode_inv a2_getPc_inv a2_modPc_inv a2_lastOpenedBlock_inv)

/-- the first (outermost) open block is the last child of the Document -/
def TopLast (s : St) : Prop :=
  ∀ b0, s.pc.opened.head? = some b0 → (s.nodes.getD 0 default).children.getLast? = some b0.node

theorem TopLast.congr_r {s : St} (h : TopLast s) (r' : Reader) : TopLast { s with r := r' } := h

/-! ### kinds and children lists -/

/-- same kinds, same children lists -/
def tl_SameKC (s s' : St) : Prop :=
  ∀ i, (nd s' i).kind = (nd s i).kind ∧ (nd s' i).children = (nd s i).children

theorem tl_SameKC.refl (s : St) : tl_SameKC s s := fun _ => ⟨rfl, rfl⟩

theorem tl_SameKC.trans {a b c : St} (h1 : tl_SameKC a b) (h2 : tl_SameKC b c) : tl_SameKC a c :=
  fun i => ⟨(h2 i).1.trans (h1 i).1, (h2 i).2.trans (h1 i).2⟩

theorem tl_SameKC.of_nodes {s s' : St} (h : s'.nodes = s.nodes) : tl_SameKC s s' := by
  have : ∀ i, nd s' i = nd s i := fun i => by simp only [nd, h]
  intro i
  rw [this]
  exact ⟨rfl, rfl⟩

theorem tl_lastLeaf_congr (n n' : List Node)
    (h : ∀ i, (n'.getD i default).kind = (n.getD i default).kind ∧
      (n'.getD i default).children = (n.getD i default).children) :
    ∀ fuel id, lastLeafKindOf n' fuel id = lastLeafKindOf n fuel id := by
  intro fuel
  induction fuel with
  | zero => intro id; exact (h id).1
  | succ f ih =>
    intro id
    unfold lastLeafKindOf
    simp only
    rw [(h id).2, (h id).1]
    cases (n.getD id default).children.getLast? with
    | none => rfl
    | some c => exact ih c

theorem tl_lastLeaf_one (n : List Node) (c : Nat) (h : (n.getD 0 default).children.getLast? = some c)
    (hc : (n.getD c default).children = []) : ∀ fuel, 0 < fuel → lastLeafKindOf n fuel 0 = (n.getD c default).kind := by
  intro fuel hf
  match fuel, hf with
  | f + 1, _ =>
    unfold lastLeafKindOf
    simp only [h]
    cases f with
    | zero => rfl
    | succ g =>
      unfold lastLeafKindOf
      simp only [hc, List.getLast?_nil]

/-! ### the three raw `Close` functions -/

theorem tl_fencedClose_nodes (node : Nat) (s s' : St) (a : Unit) (h : fencedClose node s = .ok (a, s')) :
    s'.nodes = s.nodes := by
  unfold fencedClose at h
  obtain ⟨pc, s1, h1, hA⟩ := bind_ok_inv h
  obtain ⟨_, e1⟩ := a2_getPc_inv h1
  subst e1
  cases hf : pc.fence with
  | none => rw [hf] at hA; cases hA
  | some f =>
    rw [hf] at hA
    dsimp only at hA
    by_cases c : (f.node == node) = true
    · rw [if_pos c] at hA; cases hA; rfl
    · rw [if_neg c] at hA; cases hA; rfl

theorem tl_rawClose (bp : BP) (hbp : bp = .code ∨ bp = .fenced ∨ bp = .html) (node : Nat) (s s' : St) (a : Unit)
    (h : bpClose bp node s = .ok (a, s')) : tl_SameKC s s' ∧ s'.nodes.length = s.nodes.length := by
  rcases hbp with rfl | rfl | rfl
  · have h' : codeClose node s = .ok ((), s') := h
    obtain ⟨k, e⟩ := codeClose_eff h'
    subst e
    refine ⟨fun i => ?_, ?_⟩
    · rw [setLines_nd]
      split
      · next hc => rw [hc.1]; exact ⟨rfl, rfl⟩
      · exact ⟨rfl, rfl⟩
    · show (s.nodes.set _ _).length = _
      rw [List.length_set]
  · have h' : fencedClose node s = .ok (a, s') := h
    have := tl_fencedClose_nodes node s s' a h'
    exact ⟨tl_SameKC.of_nodes this, by rw [this]⟩
  · have h' : (pure () : M Unit) s = .ok (a, s') := h
    cases h'
    exact ⟨tl_SameKC.refl s, rfl⟩

theorem tl_closeLoop_raw (blocks : List Block) (to : Int)
    (hb : ∀ x ∈ blocks, x.bp = .code ∨ x.bp = .fenced ∨ x.bp = .html) :
    ∀ (k : Nat) (s s' : St) (a : Unit), closeLoop blocks to k s = .ok (a, s') →
      tl_SameKC s s' ∧ s'.nodes.length = s.nodes.length := by
  intro k
  induction k with
  | zero =>
    intro s s' a h
    unfold closeLoop at h
    cases h
    exact ⟨tl_SameKC.refl s, rfl⟩
  | succ k ih =>
    intro s s' a h
    unfold closeLoop at h
    obtain ⟨b, s1, h1, hA⟩ := bind_ok_inv h
    obtain ⟨hb1, e1⟩ := liftE_ok_inv h1
    subst e1
    obtain ⟨n, s2, h2, hB⟩ := bind_ok_inv hA
    obtain ⟨_, e2⟩ := a2_getNode_inv h2
    subst e2
    by_cases hp : n.parent.isSome = true
    · rw [if_pos hp] at hB
      obtain ⟨_, s3, h3, hC⟩ := bind_ok_inv hB
      have k3 := tl_rawClose b.bp (hb b (Sh.blockAt_mem hb1)) b.node _ _ _ h3
      have := ih s3 s' a hC
      exact ⟨k3.1.trans this.1, this.2.trans k3.2⟩
    · rw [if_neg hp] at hB
      exact ih _ s' a hB

theorem tl_closeBlocks_raw (frm to : Int) (s s' : St) (a : Unit)
    (hb : ∀ x ∈ s.pc.opened, x.bp = .code ∨ x.bp = .fenced ∨ x.bp = .html)
    (h : closeBlocks frm to s = .ok (a, s')) : tl_SameKC s s' ∧ s'.nodes.length = s.nodes.length := by
  unfold closeBlocks at h
  obtain ⟨pc, s1, h1, hA⟩ := bind_ok_inv h
  cases h1
  obtain ⟨_, s2, h2, hB⟩ := bind_ok_inv hA
  have k2 := tl_closeLoop_raw s.pc.opened to hb _ _ _ _ h2
  have fin : ∀ (bl : List Block) (t : St),
      modPc (fun pc => { pc with opened := bl }) s2 = .ok (a, t) → t.nodes = s2.nodes := by
    intro bl t e
    cases e
    rfl
  by_cases hf : (frm == (s.pc.opened.length : Int) - 1) = true
  · rw [if_pos hf] at hB
    obtain ⟨bl, s3, h3, hC⟩ := bind_ok_inv hB
    obtain ⟨e, e3⟩ := liftE_ok_inv h3
    subst e3
    have := fin bl s' hC
    exact ⟨k2.1.trans (tl_SameKC.of_nodes this), by rw [this]; exact k2.2⟩
  · rw [if_neg hf] at hB
    obtain ⟨u, s4, h4, hC⟩ := bind_ok_inv hB
    obtain ⟨e4, e⟩ := liftE_ok_inv h4
    subst e
    obtain ⟨v, s5, h5, hD⟩ := bind_ok_inv hC
    obtain ⟨e5, e⟩ := liftE_ok_inv h5
    subst e
    have := fin (u ++ v) s' hD
    exact ⟨k2.1.trans (tl_SameKC.of_nodes this), by rw [this]; exact k2.2⟩

/-- (T4), positive form: a raw first open block makes the closed tree end in a raw block.
    `hleaf`: the node of the (leaf) block has no children — not a clause of `StableL`. -/
theorem tl_first_open_raw {src : Bytes} (s s' : St) (hst : StableL src 0 s) (htop : TopLast s) (b0 : Block)
    (rest : List Block) (hop : s.pc.opened = b0 :: rest) (hleaf : (nd s b0.node).children = []) (frm to : Int)
    (hcl : closeBlocks frm to s = .ok ((), s'))
    (hbp : b0.bp = .code ∨ b0.bp = .fenced ∨ b0.bp = .html) : endsInRawBlock s' = true := by
  have hrest : rest = [] := by
    cases rest with
    | nil => rfl
    | cons c cs =>
      exfalso
      have hl := hst.leafy
      rw [hop] at hl
      have : b0.bp.isContainer = true := hl b0 (by simp [List.dropLast])
      rcases hbp with e | e | e <;> rw [e] at this <;> cases this
  subst hrest
  have hb : ∀ x ∈ s.pc.opened, x.bp = .code ∨ x.bp = .fenced ∨ x.bp = .html := by
    intro x hx
    rw [hop] at hx
    rw [List.mem_singleton.1 hx]
    exact hbp
  obtain ⟨kc, hlen⟩ := tl_closeBlocks_raw frm to s s' () hb hcl
  have hbk := hst.blocks b0 (by rw [hop]; exact List.mem_cons_self)
  have hlast := htop b0 (by rw [hop]; rfl)
  have hpos : 0 < s.nodes.length := Nat.lt_of_le_of_lt (Nat.zero_le _) hbk.lt
  have e1 : lastLeafKindOf s'.nodes s'.nodes.length 0 = (nd s b0.node).kind := by
    rw [tl_lastLeaf_congr s.nodes s'.nodes kc, hlen]
    exact tl_lastLeaf_one s.nodes b0.node hlast hleaf _ hpos
  unfold endsInRawBlock
  simp only [e1, hbk.kind]
  rcases hbp with e | e | e <;> rw [e] <;> rfl

/-- (T4). Extra hypothesis `hleaf` (the first open block's node has no children; needed for the leaf parsers only). -/
theorem first_open_not_raw {src : Bytes} (s s' : St) (hst : StableL src 0 s) (htop : TopLast s) (b0 : Block)
    (rest : List Block) (hop : s.pc.opened = b0 :: rest)
    (hleaf : b0.bp.isContainer = false → (nd s b0.node).children = [])
    (hcl : closeBlocks ((s.pc.opened.length : Int) - 1) 0 s = .ok ((), s'))
    (hraw : endsInRawBlock s' = false) : b0.bp ≠ .code ∧ b0.bp ≠ .fenced ∧ b0.bp ≠ .html := by
  have key : ∀ (hbp : b0.bp = .code ∨ b0.bp = .fenced ∨ b0.bp = .html), False := by
    intro hbp
    have hl : (nd s b0.node).children = [] := hleaf (by rcases hbp with e | e | e <;> rw [e] <;> rfl)
    have := tl_first_open_raw s s' hst htop b0 rest hop hl _ _ hcl hbp
    rw [hraw] at this
    cases this
  exact ⟨fun e => key (Or.inl e), fun e => key (Or.inr (Or.inl e)), fun e => key (Or.inr (Or.inr e))⟩

end GM.Blocks.Xs
