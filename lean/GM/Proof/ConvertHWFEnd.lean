/-
  GM.Proof.ConvertHWFEnd — AT THE END OF THE BLOCK PHASE THE OPEN-BLOCK STACK IS EMPTY, for the driver with paragraph
  transformers and AutoHeadingID (`runH_opened_empty`):
  `openBlocks` pushes only when it answers `newBlocksOpened` (`OBJ`, from `tryParsersH_spec`); a pass of the line loop that
  hits the end of the source closes the whole stack (`closeBlocksH_spec`); the outer loop is (re-)entered with an empty stack.
-/
import GM.Proof.ConvertHWFRun

namespace GM.ConvertH
open GM GM.Text GM.Blocks

/-- keeps the invariant and pushes nothing -/
structure HJS {α : Type} (m : MH α) : Prop where
  h : ∀ h s a h' s', J h s → m h s = .ok ((a, h'), s') → J h' s' ∧ Shr s s'

theorem HJS.up {α} {x : M α} (hx : Stp x) : HJS (up x) := by
  constructor
  intro h s a h' s' j e
  obtain ⟨eh, ex⟩ := up_ok e
  subst eh
  have st := hx.h s a s' ex
  exact ⟨j.step st, Shr.of_eq st.opened⟩

theorem HJS.pure {α} (a : α) : HJS (Pure.pure a : MH α) :=
  ⟨fun h s _ _ _ j e => by cases e; exact ⟨j, Shr.refl _⟩⟩

/-- `m` answers `newBlocksOpened`, or the flag `r` it was given was not `newBlocksOpened` and it pushed nothing -/
structure OBJ (r : OpenResult) (m : MH OpenResult) : Prop where
  h : ∀ h s x h' s', J h s → m h s = .ok ((x, h'), s') → x ≠ .newBlocksOpened → r ≠ .newBlocksOpened ∧ Shr s s'

theorem OBJ.bind_pre {r : OpenResult} {α} {m : MH α} {f : α → MH OpenResult} (hm : HJS m) (hf : ∀ a, OBJ r (f a)) :
    OBJ r (m >>= f) := by
  constructor
  intro h s x h'' s'' j e hx
  obtain ⟨a, h', s', e1, e2⟩ := mh_bind_ok e
  obtain ⟨j1, sh1⟩ := hm.h h s a h' s' j e1
  obtain ⟨r1, sh2⟩ := (hf a).h h' s' x h'' s'' j1 e2 hx
  exact ⟨r1, sh1.trans sh2⟩

theorem OBJ.ite {r : OpenResult} {c : Prop} [Decidable c] {a b : MH OpenResult} (ha : OBJ r a) (hb : OBJ r b) :
    OBJ r (if c then a else b) := by split <;> assumption

theorem OBJ.throw (r : OpenResult) (e : Panic) : OBJ r (throw e : MH OpenResult) := ⟨fun _ _ _ _ _ _ e => by cases e⟩

theorem toContinuable_new (c : Bool) (lb : Option Block) (s : St) (x : OpenResult) (s' : St)
    (e : toContinuable c .newBlocksOpened lb s = .ok (x, s')) : x = .newBlocksOpened := by
  unfold toContinuable at e
  simp only [show (OpenResult.newBlocksOpened == OpenResult.noBlocksOpened) = false from rfl, Bool.false_and,
    Bool.false_eq_true, if_false] at e
  cases e; rfl

theorem toContinuable_obj (c : Bool) (r : OpenResult) (lb : Option Block) : OBJ r (up (toContinuable c r lb)) := by
  constructor
  intro h s x h' s' j e hx
  obtain ⟨eh, ex⟩ := up_ok e
  refine ⟨fun hr => ?_, Shr.of_eq ((toContinuable_stp c r lb).h s x s' ex).opened⟩
  subst hr
  exact hx (toContinuable_new c lb s x s' ex)

section
variable (pts : List PT) (hpts : ∀ pt ∈ pts, PTStp pt)
include hpts

theorem OBJ.try {r : OpenResult} (parent : Nat) (bl c : Bool) (w : Int) (bps : List BP) (lb : Option Block)
    {f : TryOutcomeT × OpenResult × Option Block → MH OpenResult} (hf : ∀ x, OBJ x.2.1 (f x)) :
    OBJ r (tryParsersH true pts parent bl c w bps r lb >>= f) := by
  constructor
  intro h s x h'' s'' j e hx
  obtain ⟨a, h', s', e1, e2⟩ := mh_bind_ok e
  obtain ⟨⟨j1, _, _⟩, ob⟩ := tryParsersH_spec pts hpts parent bl c w bps r lb h s a h' s' j e1
  obtain ⟨r1, sh2⟩ := (hf a).h h' s' x h'' s'' j1 e2 hx
  obtain ⟨er, sh1⟩ := ob r1
  exact ⟨by rw [← er]; exact r1, sh1.trans sh2⟩

end

macro "obj_step" : tactic =>
  `(tactic| first
    | apply_hyp
    | exact toContinuable_obj _ _ _
    | exact OBJ.throw _ _
    | (refine OBJ.try _ ‹_› _ _ _ _ _ _ (fun _ => ?_))
    | (refine OBJ.bind_pre ?_ (fun _ => ?_))
    | with_reducible apply OBJ.ite
    | exact HJS.pure _
    | (apply HJS.up; first
        | exact Stp.of_lk lastOpenedBlock_lk
        | (apply Stp.of_lk; lk_leaf))
    | intro _
    | split)

macro "obj" : tactic => `(tactic| repeat' obj_step)

section
variable (pts : List PT) (hpts : ∀ pt ∈ pts, PTStp pt)
include hpts

theorem retryStepH_obj (blankLine tdone continuable : Bool) (parent : Nat) (w : Int) (bps : List BP)
    (result : OpenResult) (lastBlock : Option Block)
    (again : Bool → Bool → Nat → OpenResult → Option Block → MH OpenResult)
    (ha : ∀ a b c d e, OBJ d (again a b c d e)) :
    OBJ result (retryStepH true pts blankLine tdone continuable parent w bps result lastBlock again) := by
  unfold retryStepH; obj

theorem openBlocksLoopH_obj (blankLine : Bool) (fuel : Nat) (tdone continuable : Bool) (parent : Nat)
    (result : OpenResult) (lastBlock : Option Block) :
    OBJ result (openBlocksLoopH true pts blankLine fuel tdone continuable parent result lastBlock) := by
  induction fuel generalizing tdone continuable parent result lastBlock with
  | zero => unfold openBlocksLoopH; obj
  | succ fuel ih =>
    have := retryStepH_obj pts hpts
    unfold openBlocksLoopH; obj

theorem openBlocksH_obj (parent : Nat) (blankLine : Bool) :
    OBJ .noBlocksOpened (openBlocksH true pts parent blankLine) := by
  have := openBlocksLoopH_obj pts hpts
  unfold openBlocksH; obj

end

/-! ### the line loop -/

/-- can only answer `.next` -/
structure NX (m : MH (LineOutcome × List LineStat)) : Prop where
  h : ∀ h s x h' s', m h s = .ok ((x, h'), s') → x.1 = .next

theorem NX.bind {α} {m : MH α} {f : α → MH (LineOutcome × List LineStat)} (hf : ∀ a, NX (f a)) : NX (m >>= f) := by
  constructor
  intro h s x h'' s'' e
  obtain ⟨a, h', s', _, e2⟩ := mh_bind_ok e
  exact (hf a).h h' s' x h'' s'' e2

theorem NX.pureNext (bl : List LineStat) : NX (Pure.pure (LineOutcome.next, bl)) :=
  ⟨fun _ _ _ _ _ e => by cases e; rfl⟩
theorem NX.throw (e : Panic) : NX (throw e) := ⟨fun _ _ _ _ _ e => by cases e⟩
theorem NX.ite {c : Prop} [Decidable c] {a b : MH (LineOutcome × List LineStat)} (ha : NX a) (hb : NX b) :
    NX (if c then a else b) := by split <;> assumption

/-- keeps the invariant and the stack -/
structure OS {α : Type} (m : MH α) : Prop where
  h : ∀ h s a h' s', J h s → m h s = .ok ((a, h'), s') → J h' s' ∧ s'.pc.opened = s.pc.opened

theorem OS.up {α} {x : M α} (hx : Stp x) : OS (up x) := by
  constructor
  intro h s a h' s' j e
  obtain ⟨eh, ex⟩ := up_ok e
  subst eh
  have st := hx.h s a s' ex
  exact ⟨j.step st, st.opened⟩

theorem OS.pure {α} (a : α) : OS (Pure.pure a : MH α) := ⟨fun h s _ _ _ j e => by cases e; exact ⟨j, rfl⟩⟩

/-- started with the stack `ob` (`li` = its last index): answering `.eof` means the stack is empty afterwards -/
structure LJ (ob : List Block) (li : Int) (m : MH (LineOutcome × List LineStat)) : Prop where
  h : ∀ h s x h' s', J h s → s.pc.opened = ob → li = (ob.length : Int) - 1 → m h s = .ok ((x, h'), s') →
    x.1 = .eof → s'.pc.opened = []

theorem LJ.of_nx {ob : List Block} {li : Int} {m : MH (LineOutcome × List LineStat)} (hm : NX m) : LJ ob li m :=
  ⟨fun h s x h' s' _ _ _ e hx => by rw [hm.h h s x h' s' e] at hx; cases hx⟩

theorem LJ.bind_pre {ob : List Block} {li : Int} {α} {m : MH α} {f : α → MH (LineOutcome × List LineStat)}
    (hm : OS m) (hf : ∀ a, LJ ob li (f a)) : LJ ob li (m >>= f) := by
  constructor
  intro h s x h'' s'' j ho hl e hx
  obtain ⟨a, h', s', e1, e2⟩ := mh_bind_ok e
  obtain ⟨j1, o1⟩ := hm.h h s a h' s' j e1
  exact (hf a).h h' s' x h'' s'' j1 (o1.trans ho) hl e2 hx

theorem LJ.ite {ob : List Block} {li : Int} {c : Prop} [Decidable c] {a b : MH (LineOutcome × List LineStat)}
    (ha : LJ ob li a) (hb : LJ ob li b) : LJ ob li (if c then a else b) := by split <;> assumption

section
variable (pts : List PT) (hpts : ∀ pt ∈ pts, PTStp pt)
include hpts

theorem LJ.eofBranch (ob : List Block) (li : Int) (bl : List LineStat) :
    LJ ob li (do closeBlocksH true pts li 0; up advanceLine; Pure.pure (LineOutcome.eof, bl)) := by
  constructor
  intro h s x h'' s'' j ho hl e _
  obtain ⟨u1, h1, s1, e1, k1⟩ := mh_bind_ok e
  obtain ⟨_, _, _, _, hemp⟩ := closeBlocksH_spec pts hpts li 0 h s h1 s1 j e1
  obtain ⟨u2, h2, s2, e2, k2⟩ := mh_bind_ok k1
  obtain ⟨_, ex2⟩ := up_ok e2
  have o2 := (advanceLine_lk.h _ _ _ ex2).opened
  cases k2
  rw [o2]
  exact hemp (by rw [ho]; exact hl) rfl

end

macro "nx_step" : tactic =>
  `(tactic| first
    | exact NX.pureNext _
    | exact NX.throw _
    | (refine NX.bind (fun _ => ?_))
    | with_reducible apply NX.ite
    | intro _
    | split)

macro "lj_step" : tactic =>
  `(tactic| first
    | apply_hyp
    | (refine LJ.bind_pre (by first
        | exact OS.pure _
        | (apply OS.up; first
            | exact bpContinue_stp _ _
            | (apply Stp.of_lk; lk_leaf))) (fun _ => ?_))
    | with_reducible apply LJ.ite
    | (apply LJ.of_nx; (repeat' nx_step); done)
    | intro _
    | split)

macro "lj" : tactic => `(tactic| repeat' lj_step)

section
variable (pts : List PT) (hpts : ∀ pt ∈ pts, PTStp pt)
include hpts

theorem lineLoopH_lj (parent : Nat) (ob : List Block) (li : Int) (rest : List Block) (i : Int) (bl : List LineStat) :
    LJ ob li (lineLoopH true pts parent ob li rest i bl) := by
  have := LJ.eofBranch pts hpts ob li
  induction rest generalizing i bl with
  | nil => unfold lineLoopH; lj
  | cons be rest ih => unfold lineLoopH; lj

/-- the loop over the lines ends with an empty stack, either way -/
theorem linesLoopH_empty (parent : Nat) : ∀ (fuel : Nat) (bl : List LineStat) (h : HS) (s : St)
    (x : Bool × List LineStat) (h' : HS) (s' : St), J h s →
    linesLoopH true pts parent fuel bl h s = .ok ((x, h'), s') → J h' s' ∧ s'.pc.opened = [] := by
  intro fuel
  induction fuel with
  | zero => intro bl h s x h' s' _ e; unfold linesLoopH at e; cases e
  | succ fuel ih =>
    intro bl h s x h' s' j e
    unfold linesLoopH at e
    dsimp only at e
    obtain ⟨pc, h1, s1, e1, k1⟩ := mh_bind_ok e
    obtain ⟨eh1, ex1⟩ := up_ok e1
    obtain ⟨epc, es1⟩ := getPc_ok ex1
    subst eh1; subst es1; subst epc
    split at k1
    · rename_i hl
      cases k1
      exact ⟨j, List.eq_nil_of_length_eq_zero (by simpa using hl)⟩
    · obtain ⟨r, h2, s2, e2, k2⟩ := mh_bind_ok k1
      have j2 := ((lineLoopH_hj pts hpts parent _ _ _ 0 bl).h _ _ _ _ _ j e2).1
      have lj := (lineLoopH_lj pts hpts parent s1.pc.opened ((s1.pc.opened.length : Int) - 1) s1.pc.opened 0 bl).h
        _ _ _ _ _ j rfl rfl e2
      cases hr : r.1 with
      | eof =>
        simp only [hr] at k2
        cases k2
        exact ⟨j2, lj hr⟩
      | next =>
        simp only [hr] at k2
        obtain ⟨u3, h3, s3, e3, k3⟩ := mh_bind_ok k2
        obtain ⟨eh3, ex3⟩ := up_ok e3
        subst eh3
        have st3 := StepR.of_lr (advanceLine_lk.h _ _ _ ex3)
        exact ih r.2 _ _ x h' s' (j2.step st3) k3

/-- the outer loop: entered with an empty stack, left with an empty stack -/
theorem blocksLoopH_empty (parent : Nat) : ∀ (fuel : Nat) (bl : List LineStat) (h : HS) (s : St)
    (x : Unit) (h' : HS) (s' : St), J h s → s.pc.opened = [] →
    blocksLoopH true pts parent fuel bl h s = .ok ((x, h'), s') → s'.pc.opened = [] := by
  intro fuel
  induction fuel with
  | zero => intro bl h s x h' s' _ _ e; unfold blocksLoopH at e; cases e
  | succ fuel ih =>
    intro bl h s x h' s' j ho e
    unfold blocksLoopH at e
    dsimp only at e
    obtain ⟨r1, h1, s1, e1, k1⟩ := mh_bind_ok e
    obtain ⟨eh1, ex1⟩ := up_ok e1
    subst eh1
    have st1 := StepR.of_lr (skipBlankLinesR_lk.h _ _ _ ex1)
    have j1 := j.step st1
    have o1 : s1.pc.opened = [] := by rw [st1.opened]; exact ho
    split at k1
    · cases k1; exact o1
    · obtain ⟨r2, h2, s2, e2, k2⟩ := mh_bind_ok k1
      obtain ⟨eh2, ex2⟩ := up_ok e2
      cases ex2
      subst eh2
      obtain ⟨pc3, h3, s3, e3, k3⟩ := mh_bind_ok k2
      obtain ⟨eh3, ex3⟩ := up_ok e3
      obtain ⟨_, es3⟩ := getPc_ok ex3
      subst eh3; subst es3
      obtain ⟨r4, h4, s4, e4, k4⟩ := mh_bind_ok k3
      have j4 := ((openBlocksH_hj pts hpts parent _).h _ _ _ _ _ j1 e4).1
      split at k4
      · rename_i hne
        obtain ⟨eh, es⟩ : h' = h4 ∧ s' = s4 := by cases k4; exact ⟨rfl, rfl⟩
        subst eh; subst es
        have hne' : r4 ≠ .newBlocksOpened := by simpa using hne
        obtain ⟨_, sh⟩ := (openBlocksH_obj pts hpts parent _).h _ _ _ _ _ j1 e4 hne'
        cases hop : s'.pc.opened with
        | nil => rfl
        | cons b rest =>
          have := sh b (by rw [hop]; exact List.mem_cons_self ..)
          rw [o1] at this; cases this
      · obtain ⟨u5, h5, s5, e5, k5⟩ := mh_bind_ok k4
        obtain ⟨eh5, ex5⟩ := up_ok e5
        subst eh5
        have st5 := StepR.of_lr (advanceLine_lk.h _ _ _ ex5)
        obtain ⟨r6, h6, s6, e6, k6⟩ := mh_bind_ok k5
        obtain ⟨j6, o6⟩ := linesLoopH_empty pts hpts parent fuel _ _ _ _ _ _ (j4.step st5) e6
        split at k6
        · cases k6; exact o6
        · exact ih r6.2 _ _ x h' s' j6 o6 k6

end

/-- **at the end of the block phase the open-block stack is empty** (driver with paragraph transformers and the option) -/
theorem runH_opened_empty (pts : List PT) (hpts : ∀ pt ∈ pts, PTStp pt) (src : Bytes) (hs : HS) (st : St)
    (e : runH true pts src = .ok (hs, st)) : st.pc.opened = [] := by
  unfold runH parseBlocksH at e
  cases hx : (do
      up (modPc fun pc => { pc with opened := [] })
      blocksLoopH true pts 0 (linesFuel (← up source)) [] : MH Unit) {} (initSt src) with
  | error x => rw [hx] at e; cases e
  | ok r =>
    rw [hx] at e
    obtain ⟨⟨u, h'⟩, s'⟩ := r
    simp only [Except.map] at e
    cases e
    obtain ⟨u1, h1, s1, e1, k1⟩ := mh_bind_ok hx
    obtain ⟨eh1, ex1⟩ := up_ok e1
    have es1 := modPc_ok ex1
    subst eh1
    have j1 : J {} s1 := by rw [es1]; exact J_init src
    have o1 : s1.pc.opened = [] := by rw [es1]
    obtain ⟨v, h2, s2, e2, k2⟩ := mh_bind_ok k1
    obtain ⟨eh2, ex2⟩ := up_ok e2
    cases ex2
    subst eh2
    exact blocksLoopH_empty pts hpts 0 _ [] _ _ _ _ _ j1 o1 k2

end GM.ConvertH
