/-
  GM.Proof.CMFrag9Main — stage 9: paragraphs with hard line breaks written with a backslash; the phases composed.
-/
import GM.Proof.CMFragParas
import GM.Proof.CMFrag9Inl
import GM.Proof.CMFragRender9
import GM.Proof.CMFragSpec9

namespace GM.Proof.CMFrag
open GM GM.Text GM.Blocks GM.Spec GM.Spec.CM GM.Spec.CMFrag

/-- the paragraphs of a stage-9 document as `HLine`s -/
def hlinesOfB (d : BDoc) : List (List HLine) := d.items.map fun it => it.lines.map hlineOfB

/-- … and as byte lines with the extra blank lines in front -/
def itemsOfB (d : BDoc) : List (Nat × List Bytes) := d.items.map fun it => (it.gap, (it.lines.map hlineOfB).map hlineSrc)

theorem spellBItems_raw : ∀ (first : Bool) (its : List BItem) (trail : Nat),
    spellBItems first its ++ blanks trail =
      rawDoc6 (paraItems first (its.map fun it => (it.gap, (it.lines.map hlineOfB).map hlineSrc))) trail
  | _, [], _ => by simp [spellBItems, paraItems, rawDoc6, blanks_eq]
  | first, it :: rest, trail => by
    have ih := spellBItems_raw false rest trail
    rw [blanks_eq] at ih
    have e : it.lines.flatMap (fun x => spellBLine x ++ [10]) =
        paraBytes ((it.lines.map hlineOfB).map hlineSrc) := by
      simp [paraBytes, List.flatMap_map, hlineSrc_ofB9]
    simp only [spellBItems, List.map_cons, paraItems, rawDoc6, lines5, lines4, List.append_assoc, ih, e, blanks_eq]

theorem spellBD_raw (d : BDoc) : spellBD d = rawDoc6 (paraItems true (itemsOfB d)) d.trail :=
  spellBItems_raw true d.items d.trail

theorem bfrag_items (d : BDoc) (h : BFrag d) : ∀ it ∈ d.items, bitemOK it = true := by
  have := h; simp only [BFrag, bfragB, List.all_eq_true] at this; exact this

theorem itemsOfB_blk (d : BDoc) (h : BFrag d) : ∀ it ∈ itemsOfB d, it.2 ≠ [] ∧ ∀ l ∈ it.2, BlkLine l := by
  intro x hx
  obtain ⟨it, hit, rfl⟩ := List.mem_map.mp hx
  have hok := hlinesOK_item9 it (bfrag_items d h it hit)
  have hne := (bitemOK_parts9 it (bfrag_items d h it hit)).1
  refine ⟨by simpa using hne, ?_⟩
  intro l hl
  obtain ⟨y, hy, rfl⟩ := List.mem_map.mp hl
  exact hline_blk9 y (hok.1 y hy).1 (hok.1 y hy).2

theorem parasDT_B (env : GM.Inl.Env) (henv : env.escapedSpace = false) : ∀ (its : List BItem),
    (∀ it ∈ its, bitemOK it = true) →
    ParasDT env (its.map fun it => (it.gap, (it.lines.map hlineOfB).map hlineSrc))
      ((its.map fun it => it.lines.map hlineOfB).map hardNodes9)
  | [], _ => trivial
  | it :: rest, h => by
    have hok := hlinesOK_item9 it (h it (by simp))
    have hne : it.lines.map hlineOfB ≠ [] := by simpa using (bitemOK_parts9 it (h it (by simp))).1
    exact ⟨⟨fun p => hardKids9 p (it.lines.map hlineOfB),
        fun src p hl => parseBlock_hard9 env henv src p _ hne hok hl,
        fun src p hl => inlineTrees_hard9 src p _ hok hl⟩,
      parasDT_B env henv rest (fun x hx => h x (by simp [hx]))⟩

/-- **the conformance theorem of the stage-9 fragment** -/
theorem fragment9_conforms (d : BDoc) (h : BFrag d) (uc : List (Nat × (Bool × Bool))) :
    GM.Convert.convertCore uc cmOpts (spellBD d) = .ok (expectedBD d) := by
  rw [spellBD_raw]
  refine convert_paras_gen uc (itemsOfB d) d.trail ((hlinesOfB d).map hardNodes9) (expectedBD d) (itemsOfB_blk d h)
    (fun env henv => parasDT_B env henv d.items (bfrag_items d h)) ?_
  have := renderDoc_hard9 (hlinesOfB d)
  have e := hardHtml_doc9 d h
  simp only [hlinesOfB] at this ⊢
  rw [e] at this
  simpa [List.map_map, Function.comp_def] using this

/-- the stage-9 document without its final line feed -/
theorem fragment9_conforms_nofinal (d : BDoc) (h : BFrag d) (hne : d.items ≠ []) (uc : List (Nat × (Bool × Bool))) :
    GM.Convert.convertCore uc cmOpts (rawDoc6E (paraItems true (itemsOfB d))) = .ok (expectedBD d) := by
  refine convert_paras_genE uc (itemsOfB d) (by simpa [itemsOfB] using hne) ((hlinesOfB d).map hardNodes9) (expectedBD d)
    (itemsOfB_blk d h) (fun env henv => parasDT_B env henv d.items (bfrag_items d h)) ?_
  have := renderDoc_hard9 (hlinesOfB d)
  have e := hardHtml_doc9 d h
  simp only [hlinesOfB] at this ⊢
  rw [e] at this
  simpa [List.map_map, Function.comp_def] using this

end GM.Proof.CMFrag
