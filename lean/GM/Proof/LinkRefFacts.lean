/-
  GM.Proof.LinkRefFacts — what the link reference transformer does to the reference map and to the paragraph:
  a definition only ever extends the map and never changes the value of a key that is already there (first wins);
  a paragraph whose first call of `parseLinkReferenceDefinition` declines (e.g. its first byte is neither white space nor
  `[`) is returned untouched; the lines removed are a prefix when the removed ranges are adjacent from line 0.
-/
import GM.Proof.LinkRefTotal
import GM.Proof.Refs

namespace GM.Proof.LinkRefFacts
open GM GM.Text GM.Spec GM.Inl GM.LinkRef GM.Blocks GM.Proof.Reader GM.Proof.InlinesReader GM.Proof.LinkRefTotal

/-- `m'` extends `m` without changing what any key of `m` resolves to -/
def Extends (m m' : RefMap) : Prop := ∀ k v, m.lookup k = some v → m'.lookup k = some v

theorem Extends.refl (m : RefMap) : Extends m m := fun _ _ h => h
theorem Extends.trans {a b c : RefMap} (h1 : Extends a b) (h2 : Extends b c) : Extends a c :=
  fun k v h => h2 k v (h1 k v h)

/-- AddReference: first definition wins -/
theorem addReference_extends (m : RefMap) (l d : Bytes) (t : Option Bytes) : Extends m (addReference m l d t) := by
  intro k v h
  unfold addReference GM.Refs.addRef
  split
  · exact h
  · rw [GM.Refs.lookup_append', h]; rfl

/-- AddReference with a label whose normal form is already a key changes nothing -/
theorem addReference_dup (m : RefMap) (l d : Bytes) (t : Option Bytes) (h : (m.lookup (toLinkReference l)).isSome) :
    addReference m l d t = m := by
  unfold addReference GM.Refs.addRef
  simp [h]

/-- a new key resolves to the definition that introduced it -/
theorem addReference_new (m : RefMap) (l d : Bytes) (t : Option Bytes) (h : m.lookup (toLinkReference l) = none) :
    (addReference m l d t).lookup (toLinkReference l) = some (d, t) := by
  unfold addReference GM.Refs.addRef
  simp [h, GM.Refs.lookup_append', List.lookup]

/-- a stage of the scanner leaves the map alone or adds one reference -/
structure Step (refs : RefMap) (res : DefRes) : Prop where
  h : ∀ x r' refs', res = .ok (x, r', refs') → Extends refs refs'

theorem step_noDef (r : BlockReader) (refs : RefMap) : Step refs (noDef r refs) := by
  constructor; intro x r' refs' h; cases h; exact Extends.refl _

theorem step_ok (refs : RefMap) (x : Int × Int) (r : BlockReader) (l d : Bytes) (t : Option Bytes) :
    Step refs (.ok (x, r, addReference refs l d t)) := by
  constructor; intro x' r' refs' h; cases h; exact addReference_extends _ _ _ _

theorem step_pure (refs : RefMap) (x : Int × Int) (r : BlockReader) (l d : Bytes) (t : Option Bytes) :
    Step refs (pure (x, r, addReference refs l d t)) := step_ok refs x r l d t

theorem step_error (refs : RefMap) (e : Panic) : Step refs (.error e) := by
  constructor; intro _ _ _ h; cases h

theorem step_bind {α} (refs : RefMap) (m : Except Panic α) (f : α → DefRes) (h : ∀ a, Step refs (f a)) :
    Step refs (m >>= f) := by
  cases m with
  | error e => exact step_error refs e
  | ok a => exact h a

macro "step_tac" : tactic =>
  `(tactic| repeat' first
    | apply_hyp
    | with_reducible apply step_noDef
    | with_reducible apply step_pure
    | with_reducible apply step_ok
    | with_reducible apply step_error
    | with_reducible apply step_bind
    | intro _
    | split
    | dsimp only)

theorem defNoTitle_step (r : BlockReader) (refs : RefMap) (sl el : Int) (ep : Segment) (label dest : Bytes) :
    Step refs (defNoTitle r refs sl el ep label dest) := by
  unfold defNoTitle; step_tac

theorem defTitled_step (r : BlockReader) (refs : RefMap) (sl el : Int) (ep : Segment) (nl : Bool) (label dest : Bytes)
    (sg : List Segment) : Step refs (defTitled r refs sl el ep nl label dest sg) := by
  have := defNoTitle_step
  unfold defTitled; step_tac

theorem defAfterDest_step (r : BlockReader) (refs : RefMap) (sl : Int) (label dest : Bytes) :
    Step refs (defAfterDest r refs sl label dest) := by
  have := defTitled_step
  have := defNoTitle_step
  unfold defAfterDest; step_tac

theorem defAfterLabel_step (r : BlockReader) (refs : RefMap) (sl : Int) (label : Bytes) :
    Step refs (defAfterLabel r refs sl label) := by
  have := defAfterDest_step
  unfold defAfterLabel; step_tac

theorem defTail_step (r : BlockReader) (refs : RefMap) (sl pos : Int) : Step refs (defTail r refs sl pos) := by
  have := defAfterLabel_step
  unfold defTail; step_tac

theorem parseLinkReferenceDefinition_step (r : BlockReader) (refs : RefMap) :
    Step refs (parseLinkReferenceDefinition r refs) := by
  have := defTail_step
  unfold parseLinkReferenceDefinition; step_tac

theorem transformLoop_extends : ∀ (fuel : Nat) (rd : BlockReader) (refs : RefMap) (removes : List (Int × Int))
    (rm : List (Int × Int)) (refs' : RefMap), transformLoop fuel rd refs removes = .ok (rm, refs') → Extends refs refs'
  | 0, _, _, _, _, _, h => by unfold transformLoop at h; cases h
  | fuel + 1, rd, refs, removes, rm, refs', h => by
    unfold transformLoop at h
    cases hd : parseLinkReferenceDefinition rd refs with
    | error e => rw [hd] at h; cases h
    | ok a =>
      obtain ⟨⟨s, e⟩, rd1, refs1⟩ := a
      have h1 := (parseLinkReferenceDefinition_step rd refs).h _ _ _ hd
      rw [hd] at h
      simp only [bind, Except.bind, pure, Except.pure] at h
      split at h
      · split at h
        · cases h
        · exact h1.trans (transformLoop_extends fuel rd1 refs1 _ rm refs' h)
      · cases h; exact h1

/-- **first definition wins**: whatever a paragraph defines, a key the map already has keeps its destination and title -/
theorem transformScan_extends {src : Bytes} {lines : List Segment} {refs refs' : RefMap} {rm : List (Int × Int)}
    (h : transformScan src lines refs = .ok (rm, refs')) : Extends refs refs' := by
  unfold transformScan at h
  cases hn : BlockReader.new src lines with
  | error e => rw [hn] at h; cases h
  | ok b =>
    rw [hn] at h
    exact transformLoop_extends _ _ _ _ _ _ h

/-! ### paragraphs the transformer does not recognise -/

/-- when the first call declines, nothing is removed and the map is unchanged -/
theorem transformScan_declined {src : Bytes} {lines : List Segment} {refs : RefMap} {b r' : BlockReader}
    (hn : BlockReader.new src lines = .ok b) (hd : defHead b = .ok (none, r')) :
    transformScan src lines refs = .ok ([], refs) := by
  unfold transformScan
  simp only [hn, bind, Except.bind, transformFuel]
  unfold transformLoop parseLinkReferenceDefinition
  simp [hd, noDef, bind, Except.bind, pure, Except.pure]

theorem removeLoop_nil (lines : List Segment) : removeLoop [] 0 lines = .ok lines := by
  unfold removeLoop; rfl

/-- a paragraph (well-formed padding-free lines) whose first byte is neither white space nor `[` : the scanner's
    first `SkipSpaces` consumes nothing, `line[0] != '['`, and the transformer's scan answers "nothing to remove,
    map unchanged" -/
theorem transformScan_not_bracket {src : Bytes} {lines : List Segment} (W : WF0 src lines) (refs : RefMap)
    {b0 : UInt8} {rest : Bytes}
    (hv : BCur.view src lines (BCur.init lines) = some (b0 :: rest))
    (hsp : isSpace b0 = false) (hbr : b0 ≠ 91) :
    transformScan src lines refs = .ok ([], refs) := by
  obtain ⟨Wf, Z⟩ := W
  have F := segFacts Wf
  obtain ⟨r0, e0, a0⟩ := blockReader_init F
  have hz0 : (BCur.init lines).pad = 0 := segOf_pad F Z 0 (Int.le_refl _) F.kpos
  have hrs : RS src lines r0 (BCur.init lines) := ⟨a0, hz0⟩
  obtain ⟨hpl, _⟩ := peekLine_facts F hrs
  have hf : rdFuel r0 = (rdFuel r0 - 1) + 1 := by unfold rdFuel loopFuel; omega
  have hnsp : b0 ≠ 32 ∧ b0 ≠ 9 := by
    constructor <;> (intro e; subst e; revert hsp; decide)
  refine transformScan_declined (r' := r0) e0 ?_
  unfold defHead
  rw [hf]
  unfold skipSpaces
  simp only [blockOps, hpl, hv, bind, Except.bind, pure, Except.pure, skipSpacesLine, hsp, Bool.false_eq_true, if_false]
  simp only [GM.Blocks.indentWidthI, GM.Blocks.indentWidthGo, beq_iff_eq, hnsp.1, hnsp.2, if_false]
  simp [GM.Blocks.idx, getByte, hbr]

/-! ### which lines go -/

/-- removed ranges that start at `off` and are adjacent: `(off, e₁), (e₁, e₂), …`, ends non-decreasing -/
def Adjacent : Int → List (Int × Int) → Prop
  | _, [] => True
  | off, (r0, r1) :: rest => r0 = off ∧ off ≤ r1 ∧ Adjacent r1 rest

/-- the end of the last range -/
def lastEnd : Int → List (Int × Int) → Int
  | off, [] => off
  | _, (_, r1) :: rest => lastEnd r1 rest

/-- for adjacent ranges from `off` on, the second loop of Transform drops a PREFIX of the lines: the first
    `lastEnd − off` of them, nothing else, order kept -/
theorem removeLoop_front : ∀ (rs : List (Int × Int)) (off : Int) (lines : List Segment), Adjacent off rs →
    lastEnd off rs - off ≤ lines.length → removeLoop rs off lines = .ok (lines.drop (lastEnd off rs - off).toNat)
  | [], off, lines, _, _ => by simp [removeLoop, lastEnd, pure, Except.pure]
  | (r0, r1) :: rest, off, lines, ha, hl => by
    obtain ⟨h0, h1, hr⟩ := ha
    subst h0
    have hmono : ∀ (rs : List (Int × Int)) (o : Int), Adjacent o rs → o ≤ lastEnd o rs := by
      intro rs
      induction rs with
      | nil => intro o _; simp [lastEnd]
      | cons x xs ih => intro o h; obtain ⟨_, h2, h3⟩ := h; have := ih x.2 h3; simp only [lastEnd]; omega
    have hm := hmono rest r1 hr
    simp only [lastEnd] at hl ⊢
    unfold removeLoop
    by_cases hz : (lines.length == 0) = true
    · have : lines = [] := List.length_eq_zero_iff.1 (by simpa using hz)
      subst this
      simp [pure, Except.pure]
    · simp only [hz, Bool.false_eq_true, if_false]
      have hs : slicedSegs lines (r1 - r0) lines.length = .ok (lines.drop (r1 - r0).toNat) := by
        unfold slicedSegs
        rw [if_pos (by omega)]
        congr 1
        apply List.take_of_length_le
        simp only [List.length_drop]; omega
      have hk : slicedSegs lines 0 (r0 - r0) = .ok [] := by
        unfold slicedSegs
        rw [if_pos (by omega)]
        simp
      simp only [hs, bind, Except.bind]
      rw [if_neg (by omega)]
      simp only [hk, List.nil_append]
      have ih := removeLoop_front rest r1 (lines.drop (r1 - r0).toNat) hr (by simp only [List.length_drop]; omega)
      rw [ih, List.drop_drop]
      congr 2
      omega

end GM.Proof.LinkRefFacts

namespace GM.Proof.LinkRefFacts
open GM GM.Text GM.Spec GM.Inl GM.LinkRef GM.Blocks

theorem set_getD_self {α : Type} (l : List α) (i : Nat) (d : α) : l.set i (l.getD i d) = l := by
  induction l generalizing i with
  | nil => simp
  | cons a as ih =>
    cases i with
    | zero => simp
    | succ i => simp only [List.set_cons_succ, List.getD_cons_succ]; rw [ih]

theorem finishLines_nil (lines : List Segment) : finishLines [] lines = .ok lines := by
  simp [finishLines, adjacentB, lastEndOf, removeLoop_nil]

/-- **a paragraph the transformer does not recognise is returned untouched** — at the level of the block-phase state:
    when the scan declines (nothing to remove, map unchanged) on a paragraph that has lines, `Transform` ends in exactly
    the state it started from: same node store (lines, parent, children of every node), same parse context, same reader -/
theorem transform_declined_state (node : Nat) (s : GM.Blocks.St)
    (hne : (s.nodes.getD node default).lines ≠ [])
    (hscan : transformScan s.r.source (s.nodes.getD node default).lines s.pc.refs = .ok ([], s.pc.refs)) :
    transform node s = .ok ((), s) := by
  have hlen : ((s.nodes.getD node default).lines.length == 0) = false := by
    cases h : (s.nodes.getD node default).lines with
    | nil => exact absurd h hne
    | cons _ _ => simp
  unfold transform
  simp only [bind, StateT.bind, getNode, source, getPc, pure, Except.pure, Except.bind, liftE, hscan, Except.map,
    transformFinish, modPc, finishLines_nil, modNode, hlen, Bool.false_eq_true, if_false, StateT.pure]
  congr 2
  cases s with
  | mk r nodes pc =>
    simp only
    congr 1
    exact set_getD_self nodes node default

end GM.Proof.LinkRefFacts

namespace GM.Proof.LinkRefFacts
open GM GM.Text GM.Spec GM.Inl GM.LinkRef GM.Blocks

/-- `m'` is `m` after `pc.AddReference` of a list of definitions (label as written, destination, title), in order -/
def Adds (m m' : RefMap) : Prop := ∃ ds : List (Bytes × (Bytes × Option Bytes)), m' = ds.foldl GM.Refs.addRef m

theorem Adds.refl (m : RefMap) : Adds m m := ⟨[], rfl⟩
theorem Adds.one (m : RefMap) (l d : Bytes) (t : Option Bytes) : Adds m (addReference m l d t) := ⟨[(l, (d, t))], rfl⟩
theorem Adds.trans {a b c : RefMap} (h1 : Adds a b) (h2 : Adds b c) : Adds a c := by
  obtain ⟨d1, rfl⟩ := h1
  obtain ⟨d2, rfl⟩ := h2
  exact ⟨d1 ++ d2, by rw [List.foldl_append]⟩

structure StepA (refs : RefMap) (res : DefRes) : Prop where
  h : ∀ x r' refs', res = .ok (x, r', refs') → Adds refs refs'

theorem stepA_noDef (r : BlockReader) (refs : RefMap) : StepA refs (noDef r refs) := by
  constructor; intro x r' refs' h; cases h; exact Adds.refl _
theorem stepA_ok (refs : RefMap) (x : Int × Int) (r : BlockReader) (l d : Bytes) (t : Option Bytes) :
    StepA refs (.ok (x, r, addReference refs l d t)) := by
  constructor; intro x' r' refs' h; cases h; exact Adds.one _ _ _ _
theorem stepA_pure (refs : RefMap) (x : Int × Int) (r : BlockReader) (l d : Bytes) (t : Option Bytes) :
    StepA refs (pure (x, r, addReference refs l d t)) := stepA_ok refs x r l d t
theorem stepA_error (refs : RefMap) (e : Panic) : StepA refs (.error e) := by
  constructor; intro _ _ _ h; cases h
theorem stepA_bind {α} (refs : RefMap) (m : Except Panic α) (f : α → DefRes) (h : ∀ a, StepA refs (f a)) :
    StepA refs (m >>= f) := by
  cases m with
  | error e => exact stepA_error refs e
  | ok a => exact h a

macro "stepA_tac" : tactic =>
  `(tactic| repeat' first
    | apply_hyp
    | with_reducible apply stepA_noDef
    | with_reducible apply stepA_pure
    | with_reducible apply stepA_ok
    | with_reducible apply stepA_error
    | with_reducible apply stepA_bind
    | intro _
    | split
    | dsimp only)

theorem defNoTitle_stepA (r : BlockReader) (refs : RefMap) (sl el : Int) (ep : Segment) (label dest : Bytes) :
    StepA refs (defNoTitle r refs sl el ep label dest) := by
  unfold defNoTitle; stepA_tac
theorem defTitled_stepA (r : BlockReader) (refs : RefMap) (sl el : Int) (ep : Segment) (nl : Bool) (label dest : Bytes)
    (sg : List Segment) : StepA refs (defTitled r refs sl el ep nl label dest sg) := by
  have := defNoTitle_stepA
  unfold defTitled; stepA_tac
theorem defAfterDest_stepA (r : BlockReader) (refs : RefMap) (sl : Int) (label dest : Bytes) :
    StepA refs (defAfterDest r refs sl label dest) := by
  have := defTitled_stepA
  have := defNoTitle_stepA
  unfold defAfterDest; stepA_tac
theorem defAfterLabel_stepA (r : BlockReader) (refs : RefMap) (sl : Int) (label : Bytes) :
    StepA refs (defAfterLabel r refs sl label) := by
  have := defAfterDest_stepA
  unfold defAfterLabel; stepA_tac
theorem defTail_stepA (r : BlockReader) (refs : RefMap) (sl pos : Int) : StepA refs (defTail r refs sl pos) := by
  have := defAfterLabel_stepA
  unfold defTail; stepA_tac
theorem parseLinkReferenceDefinition_stepA (r : BlockReader) (refs : RefMap) :
    StepA refs (parseLinkReferenceDefinition r refs) := by
  have := defTail_stepA
  unfold parseLinkReferenceDefinition; stepA_tac

theorem transformLoop_adds : ∀ (fuel : Nat) (rd : BlockReader) (refs : RefMap) (removes : List (Int × Int))
    (rm : List (Int × Int)) (refs' : RefMap), transformLoop fuel rd refs removes = .ok (rm, refs') → Adds refs refs'
  | 0, _, _, _, _, _, h => by unfold transformLoop at h; cases h
  | fuel + 1, rd, refs, removes, rm, refs', h => by
    unfold transformLoop at h
    cases hd : parseLinkReferenceDefinition rd refs with
    | error e => rw [hd] at h; cases h
    | ok a =>
      obtain ⟨⟨s, e⟩, rd1, refs1⟩ := a
      have h1 := (parseLinkReferenceDefinition_stepA rd refs).h _ _ _ hd
      rw [hd] at h
      simp only [bind, Except.bind, pure, Except.pure] at h
      split at h
      · split at h
        · cases h
        · exact h1.trans (transformLoop_adds fuel rd1 refs1 _ rm refs' h)
      · cases h; exact h1

/-- **the reference map a paragraph leaves is the old map after `AddReference` of a list of definitions, in order**
    (`List.foldl GM.Refs.addRef`): the form the reference-map theorems of C09 / C19 (`GM.Refs.build`,
    `refs_first_wins`, `refs_move_invariant`, `lookup_label_variant`) are stated for -/
theorem transformScan_adds {src : Bytes} {lines : List Segment} {refs refs' : RefMap} {rm : List (Int × Int)}
    (h : transformScan src lines refs = .ok (rm, refs')) : Adds refs refs' := by
  unfold transformScan at h
  cases hn : BlockReader.new src lines with
  | error e => rw [hn] at h; cases h
  | ok b =>
    rw [hn] at h
    exact transformLoop_adds _ _ _ _ _ _ h

end GM.Proof.LinkRefFacts

namespace GM.Proof.LinkRefFacts
open GM GM.Text GM.Spec GM.Inl GM.LinkRef GM.Blocks

/-- the rest of the line behind the title, as `defTitled` reads it, is empty or blank -/
def RestBlank (r : BlockReader) : Prop :=
  ∃ line seg r1, r.peekLine = .ok ((line, seg), r1) ∧ (match line with | none => True | some l => isBlank l = true)

/-- the exits that end a definition behind the destination's line register it without a title, end it at
    `endLine + 1`, and leave the reader where `SetPosition(endLine, endPos); AdvanceLine()` puts it -/
theorem defNoTitle_result (r : BlockReader) (refs : RefMap) (sl el : Int) (ep : Segment) (label dest : Bytes)
    {x : Int × Int} {r' : BlockReader} {refs' : RefMap} (h : defNoTitle r refs sl el ep label dest = .ok (x, r', refs')) :
    x = (sl, el + 1) ∧ refs' = addReference refs label dest none ∧
      ∃ r1, r.setPosition el ep = .ok r1 ∧ r1.advanceLine = .ok r' := by
  unfold defNoTitle at h
  cases h1 : r.setPosition el ep with
  | error e => rw [h1] at h; cases h
  | ok r2 =>
    rw [h1] at h
    simp only [bind, Except.bind] at h
    cases h2 : r2.advanceLine with
    | error e => rw [h2] at h; cases h
    | ok r3 =>
      rw [h2] at h
      simp only [pure, Except.pure, Except.ok.injEq, Prod.mk.injEq] at h
      exact ⟨h.1.symm, h.2.2.symm, r2, rfl, h.2.1 ▸ h2⟩

/-- **a title is only ever registered when the rest of its line is blank** (since 0539a73): whatever `defTitled`
    answers, the map is unchanged, or the definition was registered WITHOUT a title, or it was registered with the
    title and nothing but white space follows the title on its line -/
theorem defTitled_title_needs_blank_rest (r : BlockReader) (refs : RefMap) (sl el : Int) (ep : Segment) (nl : Bool)
    (label dest : Bytes) (sg : List Segment) {x : Int × Int} {r' : BlockReader} {refs' : RefMap}
    (h : defTitled r refs sl el ep nl label dest sg = .ok (x, r', refs')) :
    refs' = refs ∨ refs' = addReference refs label dest none ∨
      (RestBlank r ∧ ∃ t, closureValue r sg = .ok t ∧ refs' = addReference refs label dest t) := by
  unfold defTitled at h
  cases hc : closureValue r sg with
  | error e => rw [hc] at h; cases h
  | ok t =>
    rw [hc] at h
    cases hp : r.peekLine with
    | error e => rw [hp] at h; cases h
    | ok y =>
      obtain ⟨⟨line, seg⟩, r1⟩ := y
      rw [hp] at h
      simp only [bind, Except.bind, pure, Except.pure] at h
      cases line with
      | none =>
        simp only [Bool.false_eq_true, if_false, Except.ok.injEq, Prod.mk.injEq] at h
        exact Or.inr (Or.inr ⟨⟨none, seg, r1, hp, trivial⟩, t, rfl, h.2.2.symm⟩)
      | some l =>
        simp only at h
        by_cases hb : isBlank l = true
        · simp only [hb, Bool.not_true, Bool.false_eq_true, if_false, Except.ok.injEq, Prod.mk.injEq] at h
          exact Or.inr (Or.inr ⟨⟨some l, seg, r1, hp, hb⟩, t, rfl, h.2.2.symm⟩)
        · have hb' : isBlank l = false := by simpa using hb
          simp only [hb', Bool.not_false, if_true] at h
          split at h
          · simp only [noDef, Except.ok.injEq, Prod.mk.injEq] at h
            exact Or.inl h.2.2.symm
          · exact Or.inr (Or.inl (defNoTitle_result _ _ _ _ _ _ _ h).2.1)

/-- **the scan stops at the first call that is not a definition**: when `parseLinkReferenceDefinition` declines, the
    `for` loop of Transform returns at once with the ranges and the map it has -/
theorem transformLoop_stops (fuel : Nat) (rd rd' : BlockReader) (refs refs' : RefMap) (removes : List (Int × Int))
    (s e : Int) (h : parseLinkReferenceDefinition rd refs = .ok ((s, e), rd', refs')) (hs : ¬ s > -1) :
    transformLoop (fuel + 1) rd refs removes = .ok (removes, refs') := by
  unfold transformLoop
  simp only [h, bind, Except.bind, pure, Except.pure, hs, if_false]

end GM.Proof.LinkRefFacts

namespace GM.Proof.LinkRefFacts
open GM GM.Text GM.LinkRef

theorem adjacentB_sound : ∀ (rs : List (Int × Int)) (off : Int), adjacentB off rs = true → Adjacent off rs
  | [], _, _ => trivial
  | (r0, r1) :: rest, off, h => by
    simp only [adjacentB, Bool.and_eq_true, beq_iff_eq, decide_eq_true_eq] at h
    exact ⟨h.1.1, by omega, adjacentB_sound rest r1 h.2⟩

theorem lastEndOf_eq : ∀ (rs : List (Int × Int)) (off : Int), lastEndOf off rs = lastEnd off rs
  | [], _ => rfl
  | (_, r1) :: rest, _ => by simp only [lastEndOf, lastEnd]; exact lastEndOf_eq rest r1

/-- **the transformer only removes lines from the FRONT of the paragraph** (unconditional, of the model): whatever ranges
    the scan hands over, when the second stage of Transform answers a line list, it is the paragraph's lines without an
    initial segment — the first `lastEnd` lines are gone, the others are kept in order -/
theorem finishLines_front {rs : List (Int × Int)} {lines ls : List Segment} (h : finishLines rs lines = .ok ls) :
    ls = lines.drop (lastEnd 0 rs).toNat := by
  unfold finishLines at h
  split at h
  · cases h
  · rename_i hc
    simp only [Bool.not_eq_true', Bool.and_eq_false_iff, not_or, Bool.not_eq_false, decide_eq_false_iff_not,
      Decidable.not_not] at hc
    have ha := adjacentB_sound rs 0 hc.1
    have hl : lastEnd 0 rs - 0 ≤ lines.length := by rw [← lastEndOf_eq]; have := hc.2; omega
    have := removeLoop_front rs 0 lines ha hl
    rw [this] at h
    simp only [Except.ok.injEq, Int.sub_zero] at h
    exact h.symm

end GM.Proof.LinkRefFacts
