/-
  GM.Proof.CMFragRender21 — the renderer half of the conformance proof for stage 21 (the union fragment with all inline
  atoms):
  * `renderNode_fatom21`: the node of one atom (`AtomShape21`: a code atom does not end with a line feed, the
    destination of a link / an image and the URI of an autolink need no escaping; from `FAtomOK`: `atomShape_of_ok21`);
  * `renderNodes_fline21`: the nodes of one line (`fatomNodes soft hard`) for a line that ends with a text atom
    (`LineShape21`, from `FRichLine`: `lineShape_of_frichLine21`);
  * `renderNodes_fNodes21`: the children of a paragraph; `renderNode_fblock21`: one block; `renderPanicsNode_fblock21`;
  * `renderDoc_f21`, `renderDoc_nest_f21`: the document, and the document inside `k` nested block quotes.
-/
import GM.Proof.CMFrag21Defs
import GM.Proof.CMFragRender13
import GM.Proof.CMFragRender16
import GM.Proof.CMFragRender17
import GM.Proof.CMFragRender18
import GM.Proof.CMFragRender19
import GM.Proof.CMFragRenderN
namespace GM.Proof.CMFrag
open GM GM.Spec.CM GM.Spec.CMFrag

/-! ### one atom -/

/-- what the renderer needs of an atom -/
def AtomShape21 : FAtom → Prop
  | .code bs => bs.getLast? ≠ some 10
  | .link _ d => ∀ c ∈ d, isDestC16 c = true
  | .img _ d => ∀ c ∈ d, isDestC16 c = true
  | .auto s r => ∀ c ∈ autoUri18 s r, isUriC18 c = true
  | _ => True

theorem atomShape_of_ok21 (a : FAtom) (h : FAtomOK a) : AtomShape21 a := by
  cases a with
  | code bs =>
    intro hlast
    obtain ⟨ys, hys⟩ := List.getLast?_eq_some_iff.mp hlast
    exact alnum_ne_lf8 10 (h.2 10 (by rw [hys]; simp)) rfl
  | link t d => exact h.2.2
  | img t d => exact h.2.2
  | auto s r =>
    intro c hc
    obtain ⟨⟨_, _, hs⟩, ⟨_, hr⟩⟩ := h
    simp only [autoUri18, List.mem_append, List.mem_singleton] at hc
    rcases hc with (hc | hc) | hc
    · exact (uriC_facts18 c).1 (hs c hc)
    · subst hc; rfl
    · exact (uriC_facts18 c).2.1 (hr c hc)
  | txt bs => trivial
  | em bs => trivial
  | strong bs => trivial
  | uem bs => trivial
  | ustrong bs => trivial
  | otag n => trivial
  | ctag n => trivial

/-- the renderer on the node of one atom -/
theorem renderNode_fatom21 (rc : RCfg) (hes : rc.core.escSpace = false) (hhw : rc.core.hardWraps = false)
    (hea : rc.core.ea = 0) (hx : rc.core.xhtml = true) (hu : rc.core.unsafe_ = true) (ph : Bool)
    (next : Option Node) (a : FAtom) (ha : AtomShape21 a) :
    renderNode rc ph next (fatomNode a) = fatomHtml a := by
  cases a with
  | txt bs => rw [fatomNode, fatomHtml, renderNode_text rc hes hhw hea]; simp
  | code bs => rw [fatomNode, fatomHtml, renderNode_code8 rc ph next bs ha]
  | em bs => rw [fatomNode, fatomHtml, renderNode_em13 rc hes hhw hea]
  | strong bs => rw [fatomNode, fatomHtml, renderNode_strong13 rc hes hhw hea]
  | uem bs => rw [fatomNode, fatomHtml, renderNode_em13 rc hes hhw hea]
  | ustrong bs => rw [fatomNode, fatomHtml, renderNode_strong13 rc hes hhw hea]
  | link t d => rw [fatomNode, fatomHtml, renderNode_link16 rc hes hhw hea hu ph next t d ha]
  | img t d => rw [fatomNode, fatomHtml, renderNode_img17 rc hes hu hx ph next t d ha]
  | auto s r => rw [fatomNode, fatomHtml, renderNode_auto18 rc hu ph next _ ha]
  | otag n => rw [fatomNode, fatomHtml, renderNode_raw19 rc hu]
  | ctag n => rw [fatomNode, fatomHtml, renderNode_raw19 rc hu]

theorem renderPanicsNode_fatom21 (rc : RCfg) (a : FAtom) : renderPanicsNode rc (fatomNode a) = none := by
  cases a <;>
    simp [fatomNode, renderPanicsNode, nodePanic, renderPanicsNodes, handled_codeSpan8, handled_emph13, handled_link16,
      handled_img17, handled_auto18, handled_raw19, skipsChildren, codeSpanChildrenText, Node.kind, Kind.isText]

/-! ### the nodes of one line -/

/-- what the renderer needs of a line: it ends with a text atom (the line break is a flag of the last Text node), and
    its atoms are of the shape `AtomShape21` -/
structure LineShape21 (l : List FAtom) : Prop where
  last : ∃ init bs, l = init ++ [.txt bs]
  atoms : ∀ a ∈ l, AtomShape21 a

theorem lineShape_of_frichLine21 (l : List FAtom) (h : FRichLine l) : LineShape21 l := by
  obtain ⟨init, bs, hl, _⟩ := h.last
  exact ⟨⟨init, bs, hl⟩, fun a ha => atomShape_of_ok21 a (h.ok a ha)⟩

theorem fatomNodes_consR21 (soft hard : Bool) (a : FAtom) (rest : List FAtom) (h : rest ≠ []) :
    fatomNodes soft hard (a :: rest) = fatomNode a :: fatomNodes soft hard rest := by
  cases rest with
  | nil => exact absurd rfl h
  | cons b rest => cases a <;> rfl

/-- the nodes of one line, followed by any other nodes -/
theorem renderNodes_fatoms21 (rc : RCfg) (hes : rc.core.escSpace = false) (hhw : rc.core.hardWraps = false)
    (hea : rc.core.ea = 0) (hx : rc.core.xhtml = true) (hu : rc.core.unsafe_ = true) (ph soft hard : Bool)
    (init : List FAtom) (bs : Bytes) (tail : List Node) (hc : ∀ a ∈ init, AtomShape21 a) :
    renderNodes rc ph (fatomNodes soft hard (init ++ [.txt bs]) ++ tail) =
      frichLineHtml (init ++ [.txt bs]) ++ lineBreak13 soft hard ++ renderNodes rc ph tail := by
  induction init with
  | nil =>
    simp only [List.nil_append, fatomNodes, List.cons_append, renderNodes, renderNode_text9 rc hes hhw hea hx,
      frichLineHtml, List.flatMap_cons, List.flatMap_nil, fatomHtml, List.append_nil, lineBreak13]
  | cons a init ih =>
    have ih' := ih (fun b hb => hc b (by simp [hb]))
    rw [List.cons_append, fatomNodes_consR21 soft hard a _ (by simp), List.cons_append, renderNodes,
      renderNode_fatom21 rc hes hhw hea hx hu _ _ a (hc a (by simp)), ih']
    simp [frichLineHtml]

/-- the nodes of one line of shape `LineShape21` -/
theorem renderNodes_fline21 (rc : RCfg) (hes : rc.core.escSpace = false) (hhw : rc.core.hardWraps = false)
    (hea : rc.core.ea = 0) (hx : rc.core.xhtml = true) (hu : rc.core.unsafe_ = true) (ph soft hard : Bool)
    (l : List FAtom) (hl : LineShape21 l) :
    renderNodes rc ph (fatomNodes soft hard l) =
      frichLineHtml l ++ (if hard then strBytes "<br />\n" else if soft then [10] else []) := by
  obtain ⟨⟨init, bs, rfl⟩, hc⟩ := hl
  have := renderNodes_fatoms21 rc hes hhw hea hx hu ph soft hard init bs [] (fun b hb => hc b (by simp [hb]))
  simpa [renderNodes, lineBreak13] using this

/-- the children of a paragraph -/
theorem renderNodes_fNodes21 (rc : RCfg) (hes : rc.core.escSpace = false) (hhw : rc.core.hardWraps = false)
    (hea : rc.core.ea = 0) (hx : rc.core.xhtml = true) (hu : rc.core.unsafe_ = true) (ph : Bool)
    (ls : List FLine21) (hl : ∀ x ∈ ls, LineShape21 x.atoms) :
    renderNodes rc ph (fNodes ls) = fHtml ls := by
  induction ls with
  | nil => simp [fNodes, renderNodes, fHtml]
  | cons x rest ih =>
    cases rest with
    | nil =>
      rw [fNodes, fHtml, renderNodes_fline21 rc hes hhw hea hx hu ph false false _ (hl x (by simp))]
      simp
    | cons y rest =>
      obtain ⟨⟨init, bs, hx'⟩, hc⟩ := hl x (by simp)
      have hc' : ∀ a ∈ init, AtomShape21 a := fun b hb => hc b (by rw [hx']; simp [hb])
      rw [fNodes, fHtml, hx', renderNodes_fatoms21 rc hes hhw hea hx hu ph _ _ init bs _ hc',
        ih (fun z hz => hl z (by simp [hz]))]
      cases x.hard <;> simp [lineBreak13]

theorem renderNodes_fNodesOK21 (rc : RCfg) (hes : rc.core.escSpace = false) (hhw : rc.core.hardWraps = false)
    (hea : rc.core.ea = 0) (hx : rc.core.xhtml = true) (hu : rc.core.unsafe_ = true) (ph : Bool)
    (ls : List FLine21) (hl : FLinesOK ls) :
    renderNodes rc ph (fNodes ls) = fHtml ls :=
  renderNodes_fNodes21 rc hes hhw hea hx hu ph ls (fun x hx' => lineShape_of_frichLine21 _ (hl.1 x hx'))

/-! ### no panic inside a line -/

theorem renderPanicsNodes_fatoms21 (rc : RCfg) (soft hard : Bool) (l : List FAtom) (tail : List Node)
    (ht : renderPanicsNodes rc tail = none) :
    renderPanicsNodes rc (fatomNodes soft hard l ++ tail) = none := by
  induction l with
  | nil => simpa [fatomNodes] using ht
  | cons a rest ih =>
    cases rest with
    | nil =>
      cases a <;>
        simp [fatomNodes, fatomNode, renderPanicsNodes, renderPanicsNode, nodePanic, ht, handled_codeSpan8,
          handled_emph13, handled_link16, handled_img17, handled_auto18, handled_raw19, skipsChildren,
          codeSpanChildrenText, Node.kind, Kind.isText]
    | cons b rest' =>
      rw [fatomNodes_consR21 soft hard a _ (by simp), List.cons_append, renderPanicsNodes, ih,
        renderPanicsNode_fatom21]

theorem renderPanicsNodes_fline21 (rc : RCfg) (soft hard : Bool) (l : List FAtom) :
    renderPanicsNodes rc (fatomNodes soft hard l) = none := by
  have := renderPanicsNodes_fatoms21 rc soft hard l [] (by simp [renderPanicsNodes])
  simpa using this

theorem renderPanicsNodes_fNodes21 (rc : RCfg) (ls : List FLine21) : renderPanicsNodes rc (fNodes ls) = none := by
  induction ls with
  | nil => simp [fNodes, renderPanicsNodes]
  | cons x rest ih =>
    cases rest with
    | nil => rw [fNodes]; exact renderPanicsNodes_fline21 rc false false x.atoms
    | cons y rest =>
      rw [fNodes]
      exact renderPanicsNodes_fatoms21 rc _ _ x.atoms _ ih

/-! ### one block -/

theorem renderNode_fpara21 (rc : RCfg) (hes : rc.core.escSpace = false) (hhw : rc.core.hardWraps = false)
    (hea : rc.core.ea = 0) (hx : rc.core.xhtml = true) (hu : rc.core.unsafe_ = true) (ph : Bool)
    (next : Option Node) (ls : List FLine21) (hl : ∀ x ∈ ls, LineShape21 x.atoms) :
    renderNode rc ph next (fNode (.para ls)) = fBlockHtml (.para ls) := by
  rw [fNode, fBlockHtml, renderNode]
  simp only [enter, leave, handled_para, skipsChildren, openTag, Kind.isTableHeader,
    renderNodes_fNodes21 rc hes hhw hea hx hu _ ls hl]
  have h1 : strBytes "<p>" = [60] ++ strBytes "p" ++ [62] := by decide +kernel
  rw [h1]; simp

theorem renderNode_fatx21 (rc : RCfg) (hes : rc.core.escSpace = false) (hhw : rc.core.hardWraps = false)
    (hea : rc.core.ea = 0) (hx : rc.core.xhtml = true) (hu : rc.core.unsafe_ = true) (ph : Bool)
    (next : Option Node) (level : Nat) (l : List FAtom) (hl : LineShape21 l) :
    renderNode rc ph next (fNode (.atx level l)) = fBlockHtml (.atx level l) := by
  rw [fNode, fBlockHtml, renderNode]
  simp only [enter, leave, handled_heading4, skipsChildren, Kind.isTableHeader, renderAttrs,
    renderNodes_fline21 rc hes hhw hea hx hu _ false false l hl]
  have h1 : strBytes ">\n" = [62, 10] := by decide +kernel
  rw [h1]; simp

/-- one block -/
theorem renderNode_fblock21 (rc : RCfg) (hes : rc.core.escSpace = false) (hhw : rc.core.hardWraps = false)
    (hea : rc.core.ea = 0) (hx : rc.core.xhtml = true) (hu : rc.core.unsafe_ = true) (ph : Bool)
    (next : Option Node) (b : FBlock21) (hg : FGood b) : renderNode rc ph next (fNode b) = fBlockHtml b := by
  cases b with
  | para ls =>
    exact renderNode_fpara21 rc hes hhw hea hx hu ph next ls
      (fun x hx' => lineShape_of_frichLine21 _ (hg.2.1.1 x hx'))
  | atx level l =>
    exact renderNode_fatx21 rc hes hhw hea hx hu ph next level l (lineShape_of_frichLine21 _ hg.2.2.1)
  | hr h => rw [fNode, fBlockHtml, renderNode_raw5 rc hes hhw hea hx]
  | fence fc n info ls => rw [fNode, fBlockHtml, renderNode_raw5 rc hes hhw hea hx]
  | icode ls => rw [fNode, fBlockHtml, renderNode_raw5 rc hes hhw hea hx]

theorem renderPanicsNode_fblock21 (rc : RCfg) (b : FBlock21) (hg : FGood b) :
    renderPanicsNode rc (fNode b) = none := by
  cases b with
  | para ls => simp [fNode, renderPanicsNode, nodePanic, renderPanicsNodes_fNodes21]
  | atx level l =>
    have h6 : ¬ level > 6 := by have := hg.2.1; omega
    simp [fNode, renderPanicsNode, nodePanic, handled_heading4, h6, skipsChildren, renderPanicsNodes_fline21]
  | hr h =>
    rw [fNode]
    exact renderPanicsNode_raw5 rc _ (fun level l he => by simp at he)
  | fence fc n info ls =>
    rw [fNode]
    exact renderPanicsNode_raw5 rc _ (fun level l he => by simp at he)
  | icode ls =>
    rw [fNode]
    exact renderPanicsNode_raw5 rc _ (fun level l he => by simp at he)

theorem renderPanics_fblock21 (rc : RCfg) (b : FBlock21) (hg : FGood b) : renderPanics rc (fNode b) = none :=
  renderPanicsNode_fblock21 rc b hg

/-! ### the blocks of a document -/

theorem renderNodes_fblocks21 (rc : RCfg) (hes : rc.core.escSpace = false) (hhw : rc.core.hardWraps = false)
    (hea : rc.core.ea = 0) (hx : rc.core.xhtml = true) (hu : rc.core.unsafe_ = true) (ph : Bool)
    (bs : List FBlock21) (hg : ∀ b ∈ bs, FGood b) :
    renderNodes rc ph (bs.map fNode) = fDocHtml bs := by
  induction bs with
  | nil => simp [renderNodes, fDocHtml]
  | cons b rest ih =>
    rw [List.map_cons, renderNodes, renderNode_fblock21 rc hes hhw hea hx hu _ _ b (hg b (by simp)),
      ih (fun x hx' => hg x (by simp [hx']))]
    simp [fDocHtml]

theorem renderPanicsNodes_fblocks21 (rc : RCfg) (bs : List FBlock21) (hg : ∀ b ∈ bs, FGood b) :
    renderPanicsNodes rc (bs.map fNode) = none := by
  induction bs with
  | nil => simp [renderPanicsNodes]
  | cons b rest ih =>
    rw [List.map_cons, renderPanicsNodes, ih (fun x hx' => hg x (by simp [hx'])),
      renderPanicsNode_fblock21 rc b (hg b (by simp))]

theorem render_fdoc21 (rc : RCfg) (hes : rc.core.escSpace = false) (hhw : rc.core.hardWraps = false)
    (hea : rc.core.ea = 0) (hx : rc.core.xhtml = true) (hu : rc.core.unsafe_ = true) (bs : List FBlock21)
    (hg : ∀ b ∈ bs, FGood b) :
    render rc (.mk .document none (bs.map fNode)) = fDocHtml bs := by
  rw [render, renderNode]
  simp [enter, leave, handled_doc, skipsChildren, Kind.isTableHeader,
    renderNodes_fblocks21 rc hes hhw hea hx hu _ bs hg]

theorem renderPanics_fdoc21 (rc : RCfg) (bs : List FBlock21) (hg : ∀ b ∈ bs, FGood b) :
    renderPanics rc (.mk .document none (bs.map fNode)) = none := by
  simp [renderPanics, renderPanicsNode, nodePanic, renderPanicsNodes_fblocks21 rc bs hg]

theorem renderDoc_f_any21 (o : GM.Convert.ROpts) (ho : o.hardWraps = false) (hx : o.xhtml = true)
    (hu : o.unsafe_ = true) (bs : List FBlock21) (hg : ∀ b ∈ bs, FGood b) :
    GM.Convert.renderDoc o (.mk .document none (bs.map fNode)) = .ok (fDocHtml bs) := by
  rw [GM.Convert.renderDoc, renderPanics_fdoc21 o.rcfg bs hg,
    render_fdoc21 o.rcfg (rcfg_escSpace o) (by rw [rcfg_hardWraps, ho]) (rcfg_ea o) (by rw [rcfg_xhtml4, hx])
      (by rw [rcfg_unsafe16, hu]) bs hg]

/-- the renderer on a document of stage-21 blocks -/
theorem renderDoc_f21 (bs : List FBlock21) (hg : ∀ b ∈ bs, FGood b) :
    GM.Convert.renderDoc cmOpts (.mk .document none (bs.map fNode)) = .ok (fDocHtml bs) :=
  renderDoc_f_any21 cmOpts rfl rfl rfl bs hg

/-- the renderer on `k` nested block quotes around stage-21 blocks -/
theorem renderDoc_nest_f21 (k : Nat) (bs : List FBlock21) (hg : ∀ b ∈ bs, FGood b) :
    GM.Convert.renderDoc cmOpts (nestNodeN k (bs.map fNode)) = .ok (wrapQ k (fDocHtml bs)) :=
  renderDoc_nest_anyN cmOpts _ _
    (fun ph => renderNodes_fblocks21 cmOpts.rcfg (rcfg_escSpace cmOpts) (by rw [rcfg_hardWraps]; rfl)
      (rcfg_ea cmOpts) (by rw [rcfg_xhtml4]; rfl) (by rw [rcfg_unsafe16]; rfl) ph bs hg)
    (renderPanicsNodes_fblocks21 cmOpts.rcfg bs hg) k

end GM.Proof.CMFrag
