/-
  GM.Proof.CMFrag21Inl — stage 21: the inline phase on a paragraph whose lines mix all inline atoms (text, code spans,
  `*` / `_` emphasis, inline links, images, autolinks, raw tags), lines at arbitrary positions (`LinesAtG`).
  Part 1: `processDelimiters` over children with delimiter runs of both bytes.
-/
import GM.Proof.CMFrag21Defs
import GM.Proof.CMFrag13Inl
import GM.Proof.CMFrag16Inl
import GM.Proof.CMFrag17Inl
import GM.Proof.CMFrag18Inl
import GM.Proof.CMFrag19Inl
import GM.Proof.CMFrag20Inl
import GM.Proof.CMFrag21Link

namespace GM.Proof.CMFrag
open GM GM.Text GM.Inl
open GM.Spec (BCur WFSegs WFSegsFrom)

/-! ### `processDelimiters` over segments of `*` items, `_` items and plain nodes -/

theorem runC_itemsX21u (X : List Inl.Node) : ∀ (its : List RItem20) (pre : List Inl.Node), (∀ n ∈ pre, n.isDelim = false) →
    runC20 (advanceCloser pre (raw20 its ++ X)) = runC20 (advanceCloser (pre ++ fin20 its) X)
  | [], pre, _ => by simp [raw20, fin20]
  | .text seg soft :: rest, pre, hp => by
    have ih := runC_itemsX21u X rest (pre ++ [.text seg soft false false]) (by
      intro n hn; simp at hn; rcases hn with hn | rfl
      · exact hp n hn
      · rfl)
    have e : raw20 (.text seg soft :: rest) ++ X = .text seg soft false false :: (raw20 rest ++ X) := by simp [raw20, RItem20.raw]
    rw [e, advanceCloser_cons20 _ _ _ rfl, ih]
    simp [fin20, RItem20.fin]
  | .code seg :: rest, pre, hp => by
    have ih := runC_itemsX21u X rest (pre ++ [.codeSpan [.text seg false false true]]) (by
      intro n hn; simp at hn; rcases hn with hn | rfl
      · exact hp n hn
      · rfl)
    have e : raw20 (.code seg :: rest) ++ X = .codeSpan [.text seg false false true] :: (raw20 rest ++ X) := by
      simp [raw20, RItem20.raw]
    rw [e, advanceCloser_cons20 _ _ _ rfl, ih]
    simp [fin20, RItem20.fin]
  | .emph oid cid so sc content two oc cc :: rest, pre, hp => by
    have ih := runC_itemsX21u X rest (pre ++ [.emphasis (elen20 two : Nat) [.text content false false false]]) (by
      intro n hn; simp at hn; rcases hn with hn | rfl
      · exact hp n hn
      · rfl)
    have e : raw20 (.emph oid cid so sc content two oc cc :: rest) ++ X =
        .delim oid (mkDelim20 so two true oc) :: .text content false false false ::
          .delim cid (mkDelim20 sc two cc true) :: (raw20 rest ++ X) := by
      simp [raw20, RItem20.raw]
    have hpr : ∀ n ∈ pre.reverse, n.isDelim = false := fun n hn => hp n (by simpa using hn)
    -- the opening run as a closer: nothing in front of it
    have s1 : closerStep .nil pre oid (mkDelim20 so two true oc)
        (.text content false false false :: .delim cid (mkDelim20 sc two cc true) :: (raw20 rest ++ X)) =
        .next (pre ++ [.delim oid (mkDelim20 so two true oc), .text content false false false]) cid
          (mkDelim20 sc two cc true) ((raw20 rest ++ X)) := by
      unfold closerStep
      have hl : ¬ ((mkDelim20 so two true oc).length < 1) := by cases two <;> simp [mkDelim20, elen20]
      rw [if_neg hl, findOpener_noDelim20 _ _ _ _ hpr]
      cases oc <;> simp [mkDelim20, advanceCloser, splitFirstDelim]
    -- the closing run finds it
    have s2 : closerStep .nil (pre ++ [.delim oid (mkDelim20 so two true oc), .text content false false false]) cid
          (mkDelim20 sc two cc true) ((raw20 rest ++ X)) =
        advanceCloser (pre ++ [.emphasis (elen20 two : Nat) [.text content false false false]]) ((raw20 rest ++ X)) := by
      unfold closerStep
      have hl : ¬ ((mkDelim20 sc two cc true).length < 1) := by cases two <;> simp [mkDelim20, elen20]
      rw [if_neg hl]
      have hrev : (pre ++ [Node.delim oid (mkDelim20 so two true oc), Node.text content false false false]).reverse =
          Node.text content false false false :: Node.delim oid (mkDelim20 so two true oc) :: pre.reverse := by simp
      rw [hrev]
      cases two <;> cases oc <;> cases cc <;>
        simp [mkDelim20, elen20, findOpener, Delim.calcConsumption, Delim.consume, clearInner, Int.tmod]
    rw [e]
    show runC20 (advanceCloser pre (.delim oid (mkDelim20 so two true oc) :: _)) = _
    have e0 : advanceCloser pre (.delim oid (mkDelim20 so two true oc) :: .text content false false false ::
          .delim cid (mkDelim20 sc two cc true) :: (raw20 rest ++ X)) =
        .next pre oid (mkDelim20 so two true oc)
          (.text content false false false :: .delim cid (mkDelim20 sc two cc true) :: (raw20 rest ++ X)) := by
      simp [advanceCloser, splitFirstDelim]
    rw [e0]
    simp only [runC20]
    rw [closerLoop_run20, s1]
    simp only [runC20]
    rw [closerLoop_run20, s2, ih]
    simp [fin20, RItem20.fin, runC20]



theorem runC_eq21 (s : CStep) : runC20 s = runC11 s := by cases s <;> rfl

inductive Seg21 where
  | star (its : List RItem11)
  | under (its : List RItem20)
  | plain (n : Inl.Node)

def Seg21.raw : Seg21 → List Inl.Node
  | .star its => raw11 its
  | .under its => raw20 its
  | .plain n => [n]

def Seg21.fin : Seg21 → List Inl.Node
  | .star its => fin11 its
  | .under its => fin20 its
  | .plain n => [n]

def rawS21 (l : List Seg21) : List Inl.Node := l.flatMap Seg21.raw
def finS21 (l : List Seg21) : List Inl.Node := l.flatMap Seg21.fin

theorem rawS_append21 (a b : List Seg21) : rawS21 (a ++ b) = rawS21 a ++ rawS21 b := by simp [rawS21]
theorem finS_append21 (a b : List Seg21) : finS21 (a ++ b) = finS21 a ++ finS21 b := by simp [finS21]

def SegOK21 : Seg21 → Prop
  | .plain n => n.isDelim = false ∧ closeLabels n = n
  | _ => True

theorem fin_noDelim21 (s : Seg21) (h : SegOK21 s) : ∀ n ∈ s.fin, n.isDelim = false := by
  cases s with
  | star its => exact fin_noDelim11 its
  | under its => exact fin_noDelim20 its
  | plain n => intro m hm; simp [Seg21.fin] at hm; subst hm; exact h.1

theorem finS_noDelim21 (l : List Seg21) (h : ∀ s ∈ l, SegOK21 s) : ∀ n ∈ finS21 l, n.isDelim = false := by
  intro n hn
  simp only [finS21, List.mem_flatMap] at hn
  obtain ⟨s, hs, hn⟩ := hn
  exact fin_noDelim21 s (h s hs) n hn

theorem runC_segs21 : ∀ (l : List Seg21) (pre : List Inl.Node), (∀ n ∈ pre, n.isDelim = false) →
    (∀ s ∈ l, SegOK21 s) → runC11 (advanceCloser pre (rawS21 l)) = .ok (pre ++ finS21 l)
  | [], pre, _, _ => by simp [rawS21, finS21, advanceCloser, splitFirstDelim, runC11]
  | s :: rest, pre, hp, hok => by
    have hp' : ∀ n ∈ pre ++ s.fin, n.isDelim = false := by
      intro n hn
      simp only [List.mem_append] at hn
      rcases hn with hn | hn
      · exact hp n hn
      · exact fin_noDelim21 s (hok s (by simp)) n hn
    have ih := runC_segs21 rest (pre ++ s.fin) hp' (fun x hx => hok x (by simp [hx]))
    have e : rawS21 (s :: rest) = s.raw ++ rawS21 rest := by simp [rawS21]
    have e2 : finS21 (s :: rest) = s.fin ++ finS21 rest := by simp [finS21]
    rw [e, e2, ← List.append_assoc, ← ih]
    cases s with
    | star its => exact runC_itemsX13 _ its pre hp
    | under its =>
      have := runC_itemsX21u (rawS21 rest) its pre hp
      rw [runC_eq21, runC_eq21] at this
      exact this
    | plain n =>
      have hn : SegOK21 (.plain n) := hok (.plain n) (by simp)
      exact congrArg runC11 (advanceCloser_cons11 _ _ _ hn.1)

theorem processDelimiters_rawS21 (l : List Seg21) (h : ∀ s ∈ l, SegOK21 s) :
    processDelimiters .nil (rawS21 l) = .ok (finS21 l) :=
  processDelimiters_of_runC13 _ _ (by simpa using runC_segs21 l [] (by simp) h) (finS_noDelim21 l h)

theorem closeLabelsL_finS21 : ∀ (l : List Seg21), (∀ s ∈ l, SegOK21 s) → closeLabelsL (finS21 l) = finS21 l
  | [], _ => by simp [finS21, closeLabelsL]
  | s :: rest, h => by
    have e2 : finS21 (s :: rest) = s.fin ++ finS21 rest := by simp [finS21]
    rw [e2, closeLabelsL_append13, closeLabelsL_finS21 rest (fun x hx => h x (by simp [hx]))]
    congr 1
    cases s with
    | star its => exact closeLabelsL_fin11 its
    | under its => exact closeLabelsL_fin20 its
    | plain n =>
      have hn : SegOK21 (.plain n) := h (.plain n) (by simp)
      simp [Seg21.fin, closeLabelsL, hn.2]

/-! ### the `_` steps for a line that `classify` may shorten -/

theorem scan_starX21u (env : Env) (henv : env.escapedSpace = false) (src : Bytes) (segs : List Segment) (L j hd : Int)
    (q n : Nat) (bs tail : Bytes) (e : Int) (ks : List Inl.Node) (nid b : Nat) (bts : List Bottom)
    (hn : 1 ≤ n) (he : e = (q : Int) + bs.length + n + tail.length)
    (hj : j < segs.length) (hlen : q + bs.length + n + tail.length ≤ src.length) (hL : e ≤ L)
    (hsub : sub src q (q + (bs.length + n + tail.length)) = bs ++ (List.replicate n 95 ++ tail))
    (hbs : bs ≠ []) (hq : quiet bs 0 false = true) (hesc : escAfter bs false = false)
    (htail : tail ≠ []) (ht42 : tail.head? ≠ some 95) (X : Bytes) (hnm : NoMergeAt13 ks q)
    (hb : (rdAt src segs L j { start := (q : Int) + bs.length, stop := e } hd).precendingCharacter = .ok b) :
    scan env (bs ++ 95 :: X) 0
      { st := { rd := rdAt src segs L j { start := q, stop := e } hd, kids := ks, nextId := nid, bottoms := bts },
        n := 0, sp := { start := q, stop := e }, escaped := false } =
    .ok (.hit { rd := rdAt src segs L j { start := (q : Int) + bs.length + n, stop := e } hd,
                kids := ks ++ [.text { start := q, stop := (q : Int) + bs.length } false false false,
                  .delim nid { seg := { start := (q : Int) + bs.length, stop := (q : Int) + bs.length + n },
                               canOpen := left20 env b (toRune (List.replicate n 95 ++ tail) n),
                               canClose := right20 env b (toRune (List.replicate n 95 ++ tail) n),
                               length := (n : Nat), origLength := (n : Nat), char := 95 }],
                nextId := nid + 1, bottoms := bts } false) := by
  have hbl : 0 < bs.length := List.length_pos_iff.mpr hbs
  have htl : 0 < tail.length := List.length_pos_iff.mpr htail
  obtain ⟨m, rfl⟩ : ∃ m, n = m + 1 := ⟨n - 1, by omega⟩
  rw [scan_pre8 env henv bs _ 0 _ hq]
  simp only [hesc, Nat.zero_add, Int.zero_add]
  have hT : isTrigger env 95 bs.length false = true := by
    simp [isTrigger]; left; left; decide
  have hP : parserChar 95 bs.length = 95 := by
    have h1 : isSpace 95 = false := by decide
    have h2 : isPunct 95 = true := by decide
    simp [parserChar, h1, h2]
  have hF : parsersFor 95 = [.emphasis] := by decide
  have hline : List.replicate (m + 1) (95 : UInt8) ++ tail = 95 :: (List.replicate m 95 ++ tail) := by
    simp [List.replicate_succ]
  rw [scan]
  simp only [show ((95 : UInt8) == 10) = false by decide, Bool.false_eq_true, if_false, hT, hP, hF]
  simp only [List.isEmpty_cons, Bool.not_false, Bool.and_self, if_true]
  unfold trigger
  simp only [bind, Except.bind]
  rw [advance_fast _ _ _ _ _ _ _ _ (by omega)]
  have hne0 : (bs.length != 0) = true := by simp; omega
  have hsub2 : sub src (q + bs.length) (q + bs.length + (m + 1 + tail.length)) =
      List.replicate (m + 1) 95 ++ tail := by
    have := sub_sub8 src q (bs.length + (m + 1) + tail.length) bs.length
      (bs.length + (m + 1 + tail.length)) (by omega)
    rw [hsub] at this
    rw [show q + bs.length + (m + 1 + tail.length) = q + (bs.length + (m + 1 + tail.length)) by omega,
      this, List.drop_left]
    apply List.take_of_length_le
    simp <;> omega
  have hparse := parseEmphasis_run20 env src segs L j hd (q + bs.length) (m + 1) tail e nid b hn
    (by push_cast; omega) hj (by omega) hL hsub2 htail ht42 (by rw [Int.natCast_add]; exact hb)
  rw [Int.natCast_add] at hparse
  simp only [hne0, if_true, BlockReader.position, Segment.between,
    Except.map, tryParsers, Ip.parse, liftR, bind, Except.bind]
  simp only [show (rdAt src segs L j { start := (q : Int) + bs.length, stop := e } hd).pos =
    { start := (q : Int) + bs.length, stop := e } from rfl, bne_self_eq_false, Bool.false_eq_true, if_false]
  simp only [hparse, pure, Except.pure]
  simp
  rw [hnm]
  simp [textOf]


theorem star_stepX21u (env : Env) (henv : env.escapedSpace = false) (src : Bytes) (segs : List Segment) (L j hd : Int)
    (q n : Nat) (bs tail : Bytes) (e : Int) (ks : List Inl.Node) (nid b : Nat) (bts : List Bottom) (fuel : Nat)
    (hn : 1 ≤ n) (he : e = (q : Int) + bs.length + n + tail.length)
    (hj : j < segs.length) (hlen : q + bs.length + n + tail.length ≤ src.length) (hL : e ≤ L)
    (hsub : sub src q (q + (bs.length + n + tail.length)) = bs ++ (List.replicate n 95 ++ tail))
    (hend : CutOK13 tail)
    (hbs : bs ≠ []) (hq : quiet bs 0 false = true) (hesc : escAfter bs false = false)
    (htail : tail ≠ []) (ht42 : tail.head? ≠ some 95) (hnm : NoMergeAt13 ks q)
    (hb : (rdAt src segs L j { start := (q : Int) + bs.length, stop := e } hd).precendingCharacter = .ok b) :
    lineLoop env (fuel + 1) false
      { rd := rdAt src segs L j { start := q, stop := e } hd, kids := ks, nextId := nid, bottoms := bts } =
    lineLoop env fuel false
      { rd := rdAt src segs L j { start := (q : Int) + bs.length + n, stop := e } hd,
        kids := ks ++ [.text { start := q, stop := (q : Int) + bs.length } false false false,
          .delim nid { seg := { start := (q : Int) + bs.length, stop := (q : Int) + bs.length + n },
                       canOpen := left20 env b (toRune (List.replicate n 95 ++ tail) n),
                       canClose := right20 env b (toRune (List.replicate n 95 ++ tail) n),
                       length := (n : Nat), origLength := (n : Nat), char := 95 }],
        nextId := nid + 1, bottoms := bts } := by
  have hbl : 0 < bs.length := List.length_pos_iff.mpr hbs
  have hp := peekLine_at8 src segs L j q e hd hj (by omega) (by omega) (by omega) (by omega)
  have t1 : ((q : Int)).toNat = q := by omega
  have t2 : e.toNat = q + (bs.length + n + tail.length) := by omega
  rw [t1, t2, hsub] at hp
  refine lineLoop_hit8 env fuel false false _ _ _ _ hp ?_ ?_
  · cases bs with
    | nil => exact absurd rfl hbs
    | cons _ _ => rfl
  · obtain ⟨m, hm⟩ : ∃ m, n = m + 1 := ⟨n - 1, by omega⟩
    obtain ⟨Y, hY⟩ := cutOK_app13 (List.replicate m 95) tail hend (bs ++ [95])
    have e1 : bs ++ [95] ++ (List.replicate m 95 ++ tail) = bs ++ (List.replicate n 95 ++ tail) := by
      rw [hm]; simp [List.replicate_succ]
    rw [e1] at hY
    rw [hY, show bs ++ [95] ++ Y = bs ++ 95 :: Y by simp]
    exact scan_starX21u env henv src segs L j hd q n bs tail e ks nid b bts hn he hj hlen hL hsub hbs hq hesc htail ht42
      _ hnm hb


theorem em_stepX21u (env : Env) (henv : env.escapedSpace = false) (src : Bytes) (segs : List Segment) (L : Int) (j : Nat)
    (hd : Int) (s0 : Segment) (h0 : segs[0]? = some s0) (hs0 : (j : Int) = 0 → s0.start ≤ hd)
    (q : Nat) (two : Bool) (bs cs rest : Bytes) (e : Int) (ks : List Inl.Node) (nid : Nat) (bts : List Bottom)
    (fuel : Nat)
    (he : e = (q : Int) + bs.length + elen20 two + cs.length + elen20 two + rest.length)
    (hj : (j : Int) < segs.length)
    (hlen : q + bs.length + elen20 two + cs.length + elen20 two + rest.length ≤ src.length) (hL : e ≤ L)
    (hq0 : hd ≤ q)
    (hsub : sub src q (q + (bs.length + elen20 two + cs.length + elen20 two + rest.length)) =
      bs ++ (List.replicate (elen20 two) 95 ++ (cs ++ (List.replicate (elen20 two) 95 ++ rest))))
    (hend : CutOK13 rest)
    (hbs : bs ≠ []) (hq : quiet bs 0 false = true) (hesc : escAfter bs false = false)
    (hcs : cs ≠ []) (hal : ∀ c ∈ cs, GM.Spec.CM.isAlnumC c = true) (hrest : rest ≠ [])
    (hr42 : rest.head? ≠ some 95) (hnm : NoMergeAt13 ks q)
    (hnb1 : ∀ c, bs.getLast? = some c → unNbOK c = true) (hnb2 : ∀ c, rest.head? = some c → unNbOK c = true) :
    ∃ oc cc, lineLoop env (fuel + 2) false
      { rd := rdAt src segs L j { start := q, stop := e } hd, kids := ks, nextId := nid, bottoms := bts } =
    lineLoop env fuel false
      { rd := rdAt src segs L j { start := (q : Int) + bs.length + elen20 two + cs.length + elen20 two, stop := e } hd,
        kids := ks ++ ([.text { start := q, stop := (q : Int) + bs.length } false false false] ++
          RItem20.raw (.emph nid (nid + 1)
            { start := (q : Int) + bs.length, stop := (q : Int) + bs.length + elen20 two }
            { start := (q : Int) + bs.length + elen20 two + cs.length,
              stop := (q : Int) + bs.length + elen20 two + cs.length + elen20 two }
            { start := (q : Int) + bs.length + elen20 two, stop := (q : Int) + bs.length + elen20 two + cs.length }
            two oc cc)),
        nextId := nid + 2, bottoms := bts } := by
  have hn : 1 ≤ elen20 two := by cases two <;> simp [elen20]
  have hcl : 0 < cs.length := List.length_pos_iff.mpr hcs
  have hrl : 0 < rest.length := List.length_pos_iff.mpr hrest
  obtain ⟨c0, cs', hcs0⟩ : ∃ c0 cs', cs = c0 :: cs' := by
    cases cs with
    | nil => exact absurd rfl hcs
    | cons c0 cs' => exact ⟨c0, cs', rfl⟩
  have hc0 : GM.Spec.CM.isAlnumC c0 = true := hal c0 (by simp [hcs0])
  obtain ⟨⟨hqc, hescc⟩⟩ : Nonempty (quiet cs 0 false = true ∧ escAfter cs false = false) := ⟨alnum_quiet20 cs 0 hal⟩
  -- first pass
  have hbl : 0 < bs.length := List.length_pos_iff.mpr hbs
  obtain ⟨cb, hcb⟩ : ∃ c, bs[bs.length - 1]? = some c := ⟨bs[bs.length - 1], by rw [List.getElem?_eq_getElem]⟩
  have hcbn : unNbOK cb = true := hnb1 cb (by rw [List.getLast?_eq_getElem?]; exact hcb)
  have hsubb : sub src q (q + bs.length) = bs := by
    have := sub_sub8 src q (bs.length + elen20 two + cs.length + elen20 two + rest.length) 0 bs.length (by omega)
    rw [hsub] at this
    simpa using this
  have hkb : src[q + (bs.length - 1)]? = some cb := by
    rw [sub_get8 src q bs.length (bs.length - 1) (by omega), hsubb, hcb]
  have hb1 := prec_ascii20 src segs L j hd e (q + (bs.length - 1)) cb s0 h0
    (by intro hj0; have := hs0 hj0; omega) hkb (nb_facts20 cb hcbn).1 (nb_facts20 cb hcbn).2.1
  rw [show ((q + (bs.length - 1) : Nat) : Int) + 1 = (q : Int) + bs.length by push_cast; omega] at hb1
  obtain ⟨b1, hb1e⟩ : ∃ b1, b1 = cb.toNat := ⟨_, rfl⟩
  rw [← hb1e] at hb1
  have hlen1 : (cs ++ (List.replicate (elen20 two) 95 ++ rest)).length = cs.length + elen20 two + rest.length := by
    simp; omega
  have step1 := star_stepX21u env henv src segs L j hd q (elen20 two) bs (cs ++ (List.replicate (elen20 two) 95 ++ rest))
    e ks nid b1 bts (fuel + 1) hn (by rw [hlen1]; push_cast; omega) hj (by rw [hlen1]; omega) hL
    (by rw [hlen1, show q + (bs.length + elen20 two + (cs.length + elen20 two + rest.length)) =
      q + (bs.length + elen20 two + cs.length + elen20 two + rest.length) by omega]; exact hsub)
    (cutOK_app13 _ _ (cutOK_app13 _ _ hend)) hbs hq hesc (by simp [hcs])
    (by rw [hcs0]; simp; intro h; have := (alnum_facts20 c0 hc0).2.2.2.2.1; simp [h] at this) hnm hb1
  have hopen : left20 env b1 (toRune (List.replicate (elen20 two) 95 ++ (cs ++ (List.replicate (elen20 two) 95 ++ rest)))
      (elen20 two)) = true := by
    rw [toRune_alnum20 _ (elen20 two) c0 (cs' ++ (List.replicate (elen20 two) 95 ++ rest))
      (by rw [List.drop_left' (by simp), hcs0]; rfl) hc0]
    have hr := rune_nb20 env cb hcbn
    rw [hb1e]
    cases h1 : isSpaceRune env cb.toNat <;> cases h2 : isPunctRune env cb.toNat <;>
      simp [left20, isLeft20, isRight20, (rune_alnum20 env c0 hc0).1, (rune_alnum20 env c0 hc0).2, h1, h2] at hr ⊢
  -- second pass
  obtain ⟨c1, hc1⟩ : ∃ c, cs[cs.length - 1]? = some c := ⟨cs[cs.length - 1], by rw [List.getElem?_eq_getElem]⟩
  have hc1a : GM.Spec.CM.isAlnumC c1 = true := hal c1 (List.mem_of_getElem? hc1)
  have hsubc : sub src (q + bs.length + elen20 two) (q + bs.length + elen20 two + cs.length) = cs := by
    have := sub_mid8 src q (bs ++ List.replicate (elen20 two) 95) cs (List.replicate (elen20 two) 95 ++ rest)
      (by
        have e1 : (bs ++ List.replicate (elen20 two) 95 ++ cs ++ (List.replicate (elen20 two) 95 ++ rest)).length =
          bs.length + elen20 two + cs.length + elen20 two + rest.length := by simp; omega
        rw [e1, hsub]; simp)
    simpa [Nat.add_assoc] using this
  have hk : src[q + bs.length + elen20 two + (cs.length - 1)]? = some c1 := by
    rw [sub_get8 src (q + bs.length + elen20 two) cs.length (cs.length - 1) (by omega), hsubc, hc1]
  have hb2 := prec_alnum20 src segs L j hd e (q + bs.length + elen20 two + (cs.length - 1)) c1 s0 h0
    (by intro hj0; have := hs0 hj0; omega) hk hc1a
  have e2 : ((q + bs.length + elen20 two + (cs.length - 1) : Nat) : Int) + 1 =
      ((q + bs.length + elen20 two : Nat) : Int) + cs.length := by push_cast; omega
  rw [e2] at hb2
  have step2 := star_stepX21u env henv src segs L j hd (q + bs.length + elen20 two) (elen20 two) cs rest e
    (ks ++ [.text { start := q, stop := (q : Int) + bs.length } false false false,
          .delim nid { seg := { start := (q : Int) + bs.length, stop := (q : Int) + bs.length + elen20 two },
                       canOpen := left20 env b1 (toRune (List.replicate (elen20 two) 95 ++
                         (cs ++ (List.replicate (elen20 two) 95 ++ rest))) (elen20 two)),
                       canClose := right20 env b1 (toRune (List.replicate (elen20 two) 95 ++
                         (cs ++ (List.replicate (elen20 two) 95 ++ rest))) (elen20 two)),
                       length := (elen20 two : Nat), origLength := (elen20 two : Nat), char := 95 }])
    (nid + 1) c1.toNat bts fuel hn (by push_cast; omega) hj (by omega) hL
    (by
      have := sub_sub8 src q (bs.length + elen20 two + cs.length + elen20 two + rest.length) (bs.length + elen20 two)
        (bs.length + elen20 two + cs.length + elen20 two + rest.length) (Nat.le_refl _)
      rw [hsub] at this
      rw [show q + bs.length + elen20 two + (cs.length + elen20 two + rest.length) =
        q + (bs.length + elen20 two + cs.length + elen20 two + rest.length) by omega,
        show q + bs.length + elen20 two = q + (bs.length + elen20 two) by omega, this]
      rw [← List.append_assoc bs, List.drop_left' (by simp)]
      apply List.take_of_length_le
      simp <;> omega)
    hend hcs hqc hescc hrest hr42
    (by rw [show ∀ (a b : Inl.Node), ks ++ [a, b] = (ks ++ [a]) ++ [b] by simp]
        exact noMergeAt_of8_13 (noMerge_delim20 _ _ _) _)
    hb2
  have hclose : right20 env c1.toNat (toRune (List.replicate (elen20 two) 95 ++ rest) (elen20 two)) = true := by
    obtain ⟨r0, rest', hr0⟩ : ∃ r0 rest', rest = r0 :: rest' := by
      cases rest with
      | nil => exact absurd rfl hrest
      | cons r0 rest' => exact ⟨r0, rest', rfl⟩
    have hr0n : unNbOK r0 = true := hnb2 r0 (by simp [hr0])
    rw [toRune_ascii20 _ (elen20 two) r0 rest' (by rw [List.drop_left' (by simp), hr0])
      (nb_facts20 r0 hr0n).1 (nb_facts20 r0 hr0n).2.1]
    have hr := rune_nb20 env r0 hr0n
    cases h1 : isSpaceRune env r0.toNat <;> cases h2 : isPunctRune env r0.toNat <;>
      simp [right20, isLeft20, isRight20, (rune_alnum20 env c1 hc1a).1, (rune_alnum20 env c1 hc1a).2, h1, h2] at hr ⊢
  have e3 : ((q + bs.length + elen20 two : Nat) : Int) = (q : Int) + bs.length + elen20 two := by push_cast; rfl
  rw [e3] at step2
  rw [hopen] at step1 step2
  rw [hclose] at step2
  refine ⟨right20 env b1 (toRune (List.replicate (elen20 two) 95 ++
      (cs ++ (List.replicate (elen20 two) 95 ++ rest))) (elen20 two)),
    left20 env c1.toNat (toRune (List.replicate (elen20 two) 95 ++ rest) (elen20 two)), ?_⟩
  rw [show fuel + 2 = fuel + 1 + 1 from rfl, step1, step2]
  simp [RItem20.raw, mkDelim20]


/-! ### one text atom and the atom behind it, uniformly -/

/-- what is fixed while the line loop works on one line -/
structure Ctx21 where
  env : Env
  henv : env.escapedSpace = false
  src : Bytes
  segs : List Segment
  L : Int
  j : Nat
  hd : Int
  e : Int
  s0 : Segment
  h0 : segs[0]? = some s0
  hs0 : (j : Int) = 0 → s0.start ≤ hd
  hj : (j : Int) < segs.length
  bts : List Bottom

def Ctx21.st (C : Ctx21) (q : Nat) (ks : List Inl.Node) (nid : Nat) : St :=
  { rd := rdAt C.src C.segs C.L C.j { start := q, stop := C.e } C.hd, kids := ks, nextId := nid, bottoms := C.bts }

/-- what the raw-tag parsers need to know about the block's segments -/
def TagCtx21 (C : Ctx21) : Prop :=
  WFSegs C.src C.segs ∧ (∀ s ∈ C.segs, s.padding = 0) ∧ C.L = BCur.lastStop C.segs ∧
    C.segs[C.j]? = some { start := C.hd, stop := C.e }

def FAtom.isTag : FAtom → Bool
  | .otag _ => true
  | .ctag _ => true
  | _ => false

/-- the inline node of a non-text atom that starts at byte `p` -/
def atomKid21 (p : Int) : FAtom → Inl.Node
  | .txt _ => .text { start := p, stop := p } false false false
  | .code cs => .codeSpan [.text { start := p + 1, stop := p + 1 + cs.length } false false true]
  | .em cs => .emphasis 1 [.text { start := p + 1, stop := p + 1 + cs.length } false false false]
  | .strong cs => .emphasis 2 [.text { start := p + 2, stop := p + 2 + cs.length } false false false]
  | .uem cs => .emphasis 1 [.text { start := p + 1, stop := p + 1 + cs.length } false false false]
  | .ustrong cs => .emphasis 2 [.text { start := p + 2, stop := p + 2 + cs.length } false false false]
  | .link t d => .link false d none [.text { start := p + 1, stop := p + 1 + t.length } false false false]
  | .img t d => .link true d none [.text { start := p + 1 + 1, stop := p + 1 + 1 + t.length } false false false]
  | .auto s r => .autoLink false { start := p + 1, stop := p + 1 + s.length + 1 + r.length }
  | .otag n => .rawHTML [{ start := p, stop := p + ((fatomSrc (.otag n)).length : Nat) }]
  | .ctag n => .rawHTML [{ start := p, stop := p + ((fatomSrc (.ctag n)).length : Nat) }]

def cost21 : FAtom → Nat
  | .txt _ => 0
  | .code _ => 1
  | .auto _ _ => 1
  | .otag _ => 1
  | .ctag _ => 1
  | _ => 2

def BsOK21 (a : FAtom) (bs : Bytes) : Prop :=
  bs ≠ [] ∧ quiet bs 0 false = true ∧ escAfter bs false = false ∧
    (a.isUnder = true → ∀ c, bs.getLast? = some c → unNbOK c = true)

def RestOK21 (a : FAtom) (rest : Bytes) : Prop :=
  rest ≠ [] ∧ rest.head? ≠ some 96 ∧ rest.head? ≠ some 42 ∧ rest.head? ≠ some 95 ∧
    (a.isUnder = true → ∀ c, rest.head? = some c → unNbOK c = true)

/-- the conclusion of a step: the segments it appends, and the line loop afterwards -/
def StepRes21 (C : Ctx21) (bs : Bytes) (a : FAtom) (q : Nat) (ks : List Inl.Node) (nid fuel : Nat) : Prop :=
  ∃ (sg : List Seg21) (nid' : Nat), (∀ s ∈ sg, SegOK21 s) ∧ NoLab21 (rawS21 sg) ∧ NoMerge8 (ks ++ rawS21 sg) ∧
    finS21 sg = [.text { start := q, stop := (q : Int) + bs.length } false false false,
      atomKid21 ((q : Int) + bs.length) a] ∧
    lineLoop C.env (fuel + cost21 a) false (C.st q ks nid) =
      lineLoop C.env fuel false (C.st (q + bs.length + (fatomSrc a).length) (ks ++ rawS21 sg) nid')

theorem at_parts21 {src : Bytes} {L : Int} {q : Nat} {e : Int} {line : Bytes} (h : At16 src L q e line) :
    sub src q (q + line.length) = line ∧ q + line.length ≤ src.length ∧ e = (q : Int) + line.length ∧ e ≤ L := by
  obtain ⟨h1, h2, h3, h4⟩ := h
  exact ⟨h1, h2, by rw [h3]; push_cast; rfl, h4⟩

theorem plainOK_text21 (sg : Segment) (s h r : Bool) : SegOK21 (.plain (.text sg s h r)) := ⟨rfl, by simp [closeLabels]⟩


theorem stepRes_plain21 (C : Ctx21) (bs : Bytes) (a : FAtom) (q : Nat) (ks : List Inl.Node) (nid fuel : Nat)
    (nd : Inl.Node) (nid' : Nat) (hnd1 : nd.isDelim = false) (hnd2 : closeLabels nd = nd) (hnd3 : nd.isLabel = false)
    (hnm : ∀ ks', NoMerge8 (ks' ++ [nd])) (hkid : nd = atomKid21 ((q : Int) + bs.length) a)
    (hstep : lineLoop C.env (fuel + cost21 a) false (C.st q ks nid) =
      lineLoop C.env fuel false (C.st (q + bs.length + (fatomSrc a).length)
        (ks ++ [.text { start := q, stop := (q : Int) + bs.length } false false false, nd]) nid')) :
    StepRes21 C bs a q ks nid fuel := by
  refine ⟨[.plain (.text { start := q, stop := (q : Int) + bs.length } false false false), .plain nd], nid', ?_, ?_, ?_,
    ?_, ?_⟩
  · intro s hs
    simp at hs
    rcases hs with rfl | rfl
    · exact plainOK_text21 _ _ _ _
    · exact ⟨hnd1, hnd2⟩
  · intro n hn
    simp [rawS21, Seg21.raw] at hn
    rcases hn with rfl | rfl
    · rfl
    · exact hnd3
  · simp only [rawS21, Seg21.raw, List.flatMap_cons, List.flatMap_nil, List.append_nil]
    rw [show ∀ (a b : Inl.Node), ks ++ ([a] ++ [b]) = (ks ++ [a]) ++ [b] by simp]
    exact hnm _
  · simp [finS21, Seg21.fin, hkid]
  · rw [hstep]
    simp [rawS21, Seg21.raw]

theorem step_code21 (C : Ctx21) (bs cs : Bytes) (hbs : BsOK21 (.code cs) bs) (hok : FAtomOK (.code cs))
    (q : Nat) (rest : Bytes) (ks : List Inl.Node) (nid fuel : Nat)
    (h : At16 C.src C.L q C.e (bs ++ (fatomSrc (.code cs) ++ rest))) (hend : CutOK13 rest)
    (hrest : RestOK21 (.code cs) rest) (hnm : NoMergeAt13 ks q) :
    StepRes21 C bs (.code cs) q ks nid fuel := by
  obtain ⟨hb0, hbq, hbe, _⟩ := hbs
  obtain ⟨hr0, hr96, _, _, _⟩ := hrest
  obtain ⟨hc0, hcal⟩ := hok
  have hline : bs ++ (fatomSrc (.code cs) ++ rest) = bs ++ 96 :: (cs ++ 96 :: rest) := by simp [fatomSrc]
  rw [hline] at h
  obtain ⟨h1, h2, h3, h4⟩ := at_parts21 h
  have hlenE : (bs ++ 96 :: (cs ++ 96 :: rest)).length = bs.length + cs.length + 2 + rest.length := by simp; omega
  rw [hlenE] at h1 h2 h3
  have hstep := code_stepX13 C.env C.henv C.src C.segs C.L C.j C.hd q bs cs rest C.e ks nid C.bts fuel
    (by rw [h3]; push_cast; omega) C.hj (by omega) h4 h1 hend hb0 hbq hbe hc0 hcal hr0 hr96 hnm
  refine stepRes_plain21 C bs _ q ks nid fuel
    (.codeSpan [.text { start := (q : Int) + bs.length + 1, stop := (q : Int) + bs.length + 1 + cs.length } false false true])
    nid rfl (by simp [closeLabels, closeLabelsL]) rfl
    (fun ks' => noMerge_code8 ks' _) (by simp [atomKid21]) ?_
  have e1 : ((q + bs.length + (fatomSrc (.code cs)).length : Nat) : Int) = (q : Int) + bs.length + cs.length + 2 := by
    simp [fatomSrc]; omega
  simp only [Ctx21.st, cost21, e1]
  exact hstep

theorem step_star21 (C : Ctx21) (two : Bool) (a : FAtom) (bs cs : Bytes)
    (hsrc : fatomSrc a = List.replicate (elen11 two) 42 ++ (cs ++ List.replicate (elen11 two) 42))
    (hkid : ∀ p : Int, atomKid21 p a = .emphasis ((elen11 two : Nat) : Int)
      [.text { start := p + ((elen11 two : Nat) : Int), stop := p + ((elen11 two : Nat) : Int) + cs.length } false false false])
    (hcost : cost21 a = 2) (hbs : BsOK21 a bs) (hok : AlnumNE cs)
    (q : Nat) (rest : Bytes) (ks : List Inl.Node) (nid fuel : Nat)
    (h : At16 C.src C.L q C.e (bs ++ (fatomSrc a ++ rest))) (hend : CutOK13 rest)
    (hrest : RestOK21 a rest) (hnm : NoMergeAt13 ks q) (hq0 : C.hd ≤ q) :
    StepRes21 C bs a q ks nid fuel := by
  obtain ⟨hb0, hbq, hbe, hnb1⟩ := hbs
  obtain ⟨hr0, _, hr42, hr95, hnb2⟩ := hrest
  obtain ⟨hc0, hcal⟩ := hok
  have hline : bs ++ (fatomSrc a ++ rest) =
      bs ++ (List.replicate (elen11 two) 42 ++ (cs ++ (List.replicate (elen11 two) 42 ++ rest))) := by
    rw [hsrc]; simp
  rw [hline] at h
  obtain ⟨h1, h2, h3, h4⟩ := at_parts21 h
  have hlenE : (bs ++ (List.replicate (elen11 two) 42 ++ (cs ++ (List.replicate (elen11 two) 42 ++ rest)))).length =
      bs.length + elen11 two + cs.length + elen11 two + rest.length := by simp; omega
  rw [hlenE] at h1 h2 h3
  obtain ⟨oc, cc, hstep⟩ := em_stepX13 C.env C.henv C.src C.segs C.L C.j C.hd C.s0 C.h0 C.hs0 q two bs cs rest C.e ks nid
    C.bts fuel (by rw [h3]; push_cast; omega) C.hj (by omega) h4 hq0 h1 hend hb0 hbq hbe hc0 hcal hr0 hr42 hnm
  refine ⟨[.star [.text { start := q, stop := (q : Int) + bs.length } false,
      .emph nid (nid + 1)
        { start := (q : Int) + bs.length, stop := (q : Int) + bs.length + elen11 two }
        { start := (q : Int) + bs.length + elen11 two + cs.length,
          stop := (q : Int) + bs.length + elen11 two + cs.length + elen11 two }
        { start := (q : Int) + bs.length + elen11 two, stop := (q : Int) + bs.length + elen11 two + cs.length }
        two oc cc]], nid + 2, ?_, ?_, ?_, ?_, ?_⟩
  · intro s hs
    simp at hs
    subst hs
    trivial
  · intro n hn
    simp [rawS21, Seg21.raw, raw11, RItem11.raw] at hn
    rcases hn with rfl | rfl | rfl | rfl <;> rfl
  · simp only [rawS21, Seg21.raw, List.flatMap_cons, List.flatMap_nil, List.append_nil, raw11, RItem11.raw]
    rw [show ∀ (a b c d : Inl.Node), ks ++ ([a] ++ [b, c, d]) = (ks ++ [a, b, c]) ++ [d] by simp]
    exact noMerge_delim11 _ _ _
  · simp [finS21, Seg21.fin, fin11, RItem11.fin, hkid]
  · have e1 : ((q + bs.length + (fatomSrc a).length : Nat) : Int) =
        (q : Int) + bs.length + elen11 two + cs.length + elen11 two := by
      rw [hsrc]; simp; omega
    simp only [Ctx21.st, hcost, e1]
    rw [hstep]
    simp [rawS21, Seg21.raw, raw11, RItem11.raw]

theorem step_under21 (C : Ctx21) (two : Bool) (a : FAtom) (bs cs : Bytes)
    (hsrc : fatomSrc a = List.replicate (elen20 two) 95 ++ (cs ++ List.replicate (elen20 two) 95))
    (hkid : ∀ p : Int, atomKid21 p a = .emphasis ((elen20 two : Nat) : Int)
      [.text { start := p + ((elen20 two : Nat) : Int), stop := p + ((elen20 two : Nat) : Int) + cs.length } false false false])
    (hcost : cost21 a = 2) (hbs : BsOK21 a bs) (hok : AlnumNE cs)
    (q : Nat) (rest : Bytes) (ks : List Inl.Node) (nid fuel : Nat)
    (h : At16 C.src C.L q C.e (bs ++ (fatomSrc a ++ rest))) (hend : CutOK13 rest)
    (hrest : RestOK21 a rest) (hnm : NoMergeAt13 ks q) (hq0 : C.hd ≤ q) (hu : a.isUnder = true) :
    StepRes21 C bs a q ks nid fuel := by
  obtain ⟨hb0, hbq, hbe, hnb1⟩ := hbs
  obtain ⟨hr0, _, hr42, hr95, hnb2⟩ := hrest
  obtain ⟨hc0, hcal⟩ := hok
  have hline : bs ++ (fatomSrc a ++ rest) =
      bs ++ (List.replicate (elen20 two) 95 ++ (cs ++ (List.replicate (elen20 two) 95 ++ rest))) := by
    rw [hsrc]; simp
  rw [hline] at h
  obtain ⟨h1, h2, h3, h4⟩ := at_parts21 h
  have hlenE : (bs ++ (List.replicate (elen20 two) 95 ++ (cs ++ (List.replicate (elen20 two) 95 ++ rest)))).length =
      bs.length + elen20 two + cs.length + elen20 two + rest.length := by simp; omega
  rw [hlenE] at h1 h2 h3
  obtain ⟨oc, cc, hstep⟩ := em_stepX21u C.env C.henv C.src C.segs C.L C.j C.hd C.s0 C.h0 C.hs0 q two bs cs rest C.e ks nid
    C.bts fuel (by rw [h3]; push_cast; omega) C.hj (by omega) h4 hq0 h1 hend hb0 hbq hbe hc0 hcal hr0 hr95 hnm (hnb1 hu) (hnb2 hu)
  refine ⟨[.under [.text { start := q, stop := (q : Int) + bs.length } false,
      .emph nid (nid + 1)
        { start := (q : Int) + bs.length, stop := (q : Int) + bs.length + elen20 two }
        { start := (q : Int) + bs.length + elen20 two + cs.length,
          stop := (q : Int) + bs.length + elen20 two + cs.length + elen20 two }
        { start := (q : Int) + bs.length + elen20 two, stop := (q : Int) + bs.length + elen20 two + cs.length }
        two oc cc]], nid + 2, ?_, ?_, ?_, ?_, ?_⟩
  · intro s hs
    simp at hs
    subst hs
    trivial
  · intro n hn
    simp [rawS21, Seg21.raw, raw20, RItem20.raw] at hn
    rcases hn with rfl | rfl | rfl | rfl <;> rfl
  · simp only [rawS21, Seg21.raw, List.flatMap_cons, List.flatMap_nil, List.append_nil, raw20, RItem20.raw]
    rw [show ∀ (a b c d : Inl.Node), ks ++ ([a] ++ [b, c, d]) = (ks ++ [a, b, c]) ++ [d] by simp]
    exact noMerge_delim20 _ _ _
  · simp [finS21, Seg21.fin, fin20, RItem20.fin, hkid]
  · have e1 : ((q + bs.length + (fatomSrc a).length : Nat) : Int) =
        (q : Int) + bs.length + elen20 two + cs.length + elen20 two := by
      rw [hsrc]; simp; omega
    simp only [Ctx21.st, hcost, e1]
    rw [hstep]
    simp [rawS21, Seg21.raw, raw20, RItem20.raw]

theorem step_link21 (C : Ctx21) (bs t d : Bytes) (hbs : BsOK21 (.link t d) bs) (hok : FAtomOK (.link t d))
    (q : Nat) (rest : Bytes) (ks : List Inl.Node) (nid fuel : Nat)
    (h : At16 C.src C.L q C.e (bs ++ (fatomSrc (.link t d) ++ rest))) (hend : CutOK13 rest)
    (hrest : RestOK21 (.link t d) rest) (hnm : NoMergeAt13 ks q) (hks : NoLab21 ks) :
    StepRes21 C bs (.link t d) q ks nid fuel := by
  obtain ⟨hb0, hbq, hbe, _⟩ := hbs
  obtain ⟨⟨ht0, htc⟩, hd0, hdc⟩ := hok
  have hline : bs ++ (fatomSrc (.link t d) ++ rest) = bs ++ 91 :: (t ++ 93 :: 40 :: (d ++ 41 :: rest)) := by
    simp [fatomSrc]
  rw [hline] at h
  have hstep := link_stepX21 C.env C.henv C.src C.segs C.L C.j C.hd q bs t d rest C.e ks nid C.bts fuel h C.hj hend
    hb0 hbq hbe ht0 htc hd0 hdc hrest.1 hnm hks
  have ec : ((q + bs.length : Nat) : Int) = (q : Int) + bs.length := by push_cast; rfl
  rw [ec] at hstep
  refine stepRes_plain21 C bs _ q ks nid fuel
    (.link false d none [.text ⟨((q + bs.length + 1 : Nat) : Int), ((q + bs.length + 1 + t.length : Nat) : Int), 0, false⟩ false false false])
    (nid + 1) rfl (by simp [closeLabels, closeLabelsL]) rfl
    (fun ks' => noMerge_link16 ks' _ _ _ _) (by simp [atomKid21]) ?_
  have e1 : q + bs.length + (fatomSrc (.link t d)).length = q + bs.length + 1 + t.length + 1 + 1 + d.length + 1 := by
    simp [fatomSrc]; omega
  simp only [Ctx21.st, cost21, e1]
  exact hstep

theorem step_img21 (C : Ctx21) (bs t d : Bytes) (hbs : BsOK21 (.img t d) bs) (hok : FAtomOK (.img t d))
    (q : Nat) (rest : Bytes) (ks : List Inl.Node) (nid fuel : Nat)
    (h : At16 C.src C.L q C.e (bs ++ (fatomSrc (.img t d) ++ rest))) (hend : CutOK13 rest)
    (hrest : RestOK21 (.img t d) rest) (hnm : NoMergeAt13 ks q) (hks : NoLab21 ks) :
    StepRes21 C bs (.img t d) q ks nid fuel := by
  obtain ⟨hb0, hbq, hbe, _⟩ := hbs
  obtain ⟨⟨ht0, htc⟩, hd0, hdc⟩ := hok
  have hline : bs ++ (fatomSrc (.img t d) ++ rest) = bs ++ 33 :: 91 :: (t ++ 93 :: 40 :: (d ++ 41 :: rest)) := by
    simp [fatomSrc]
  rw [hline] at h
  have hstep := img_stepX21 C.env C.henv C.src C.segs C.L C.j C.hd q bs t d rest C.e ks nid C.bts fuel h C.hj hend
    hb0 hbq hbe ht0 htc hd0 hdc hrest.1 hnm hks
  have ec : ((q + bs.length : Nat) : Int) = (q : Int) + bs.length := by push_cast; rfl
  rw [ec] at hstep
  refine stepRes_plain21 C bs _ q ks nid fuel
    (.link true d none [.text ⟨((q + bs.length + 1 + 1 : Nat) : Int), ((q + bs.length + 1 + 1 + t.length : Nat) : Int), 0, false⟩ false false false])
    (nid + 1) rfl (by simp [closeLabels, closeLabelsL]) rfl
    (fun ks' => noMerge_link16 ks' _ _ _ _) (by simp [atomKid21]) ?_
  have e1 : q + bs.length + (fatomSrc (.img t d)).length = q + bs.length + 1 + 1 + t.length + 1 + 1 + d.length + 1 := by
    simp [fatomSrc]; omega
  simp only [Ctx21.st, cost21, e1]
  exact hstep

theorem step_auto21 (C : Ctx21) (bs s r : Bytes) (hbs : BsOK21 (.auto s r) bs) (hok : FAtomOK (.auto s r))
    (q : Nat) (rest : Bytes) (ks : List Inl.Node) (nid fuel : Nat)
    (h : At16 C.src C.L q C.e (bs ++ (fatomSrc (.auto s r) ++ rest))) (hend : CutOK13 rest)
    (hrest : RestOK21 (.auto s r) rest) (hnm : NoMergeAt13 ks q) :
    StepRes21 C bs (.auto s r) q ks nid fuel := by
  obtain ⟨hb0, hbq, hbe, _⟩ := hbs
  obtain ⟨⟨hs2, hs32, hsl⟩, _, hrc⟩ := hok
  have hline : bs ++ (fatomSrc (.auto s r) ++ rest) = bs ++ 60 :: (s ++ 58 :: (r ++ 62 :: rest)) := by
    simp [fatomSrc]
  rw [hline] at h
  have hstep := auto_stepX21 C.env C.henv C.src C.segs C.L C.j C.hd q bs s r rest C.e ks nid C.bts fuel h C.hj hend
    hb0 hbq hbe hs2 hs32 hsl hrc hrest.1 hnm
  have ec : ((q + bs.length : Nat) : Int) = (q : Int) + bs.length := by push_cast; rfl
  rw [ec] at hstep
  refine stepRes_plain21 C bs _ q ks nid fuel
    (.autoLink false ⟨((q + bs.length + 1 : Nat) : Int), ((q + bs.length + 1 + s.length + 1 + r.length : Nat) : Int), 0, false⟩)
    nid rfl (by simp [closeLabels]) rfl
    (fun ks' => noMerge_auto18 ks' _ _) (by simp [atomKid21]) ?_
  have e1 : q + bs.length + (fatomSrc (.auto s r)).length = q + bs.length + 1 + s.length + 1 + r.length + 1 := by
    simp [fatomSrc]; omega
  simp only [Ctx21.st, cost21, e1]
  exact hstep

theorem step_tag21 (C : Ctx21) (bs : Bytes) (a : FAtom) (hcost : cost21 a = 1)
    (hkid : ∀ p : Int, atomKid21 p a = .rawHTML [{ start := p, stop := p + ((fatomSrc a).length : Nat) }])
    (htag : IsTag19 (fatomSrc a)) (hbs : BsOK21 a bs) (hT : TagCtx21 C)
    (q : Nat) (rest : Bytes) (ks : List Inl.Node) (nid fuel : Nat)
    (h : At16 C.src C.L q C.e (bs ++ (fatomSrc a ++ rest))) (hend : CutOK13 rest)
    (hrest : RestOK21 a rest) (hnm : NoMergeAt13 ks q) (hq0 : C.hd ≤ q) :
    StepRes21 C bs a q ks nid fuel := by
  obtain ⟨hb0, hbq, hbe, _⟩ := hbs
  obtain ⟨W, Z, hLs, hseg⟩ := hT
  have hstep := tag_stepX21 C.env C.henv C.src C.segs C.L C.j C.hd q bs (fatomSrc a) rest C.e ks nid C.bts fuel W Z hLs
    hseg hq0 h hend hb0 hbq hbe htag hrest.1 hnm
  have ec : ((q + bs.length : Nat) : Int) = (q : Int) + bs.length := by push_cast; rfl
  rw [ec] at hstep
  refine stepRes_plain21 C bs _ q ks nid fuel
    (.rawHTML [{ start := (q : Int) + bs.length, stop := ((q + bs.length + (fatomSrc a).length : Nat) : Int) }])
    nid rfl (by simp [closeLabels]) rfl
    (fun ks' => noMerge_raw19 ks' _) (by rw [hkid]; simp) ?_
  simp only [Ctx21.st, hcost]
  exact hstep

theorem isTag_otag21 (n : Bytes) (hok : TagNameOK19 n) : IsTag19 (fatomSrc (.otag n)) ∧ IsTag19 (fatomSrc (.ctag n)) := by
  obtain ⟨hne, hh, hal⟩ := hok
  cases n with
  | nil => exact absurd rfl hne
  | cons c n' =>
    exact ⟨⟨c, n', hh c rfl, fun x hx => hal x (by simp [hx]), Or.inl (by simp [fatomSrc])⟩,
      ⟨c, n', hh c rfl, fun x hx => hal x (by simp [hx]), Or.inr (by simp [fatomSrc])⟩⟩

/-- every non-text atom steps -/
theorem step21 (C : Ctx21) (bs : Bytes) (a : FAtom) (hnt : a.isTxt = false) (hbs : BsOK21 a bs) (hok : FAtomOK a)
    (hT : a.isTag = true → TagCtx21 C)
    (q : Nat) (rest : Bytes) (ks : List Inl.Node) (nid fuel : Nat)
    (h : At16 C.src C.L q C.e (bs ++ (fatomSrc a ++ rest))) (hend : CutOK13 rest)
    (hrest : RestOK21 a rest) (hnm : NoMergeAt13 ks q) (hks : NoLab21 ks) (hq0 : C.hd ≤ q) :
    StepRes21 C bs a q ks nid fuel := by
  cases a with
  | txt _ => simp [FAtom.isTxt] at hnt
  | code cs => exact step_code21 C bs cs hbs hok q rest ks nid fuel h hend hrest hnm
  | em cs =>
    exact step_star21 C false _ bs cs (by simp [fatomSrc, elen11, List.replicate]) (by intro p; simp [atomKid21, elen11])
      rfl hbs hok q rest ks nid fuel h hend hrest hnm hq0
  | strong cs =>
    exact step_star21 C true _ bs cs (by simp [fatomSrc, elen11, List.replicate]) (by intro p; simp [atomKid21, elen11])
      rfl hbs hok q rest ks nid fuel h hend hrest hnm hq0
  | uem cs =>
    exact step_under21 C false _ bs cs (by simp [fatomSrc, elen20, List.replicate]) (by intro p; simp [atomKid21, elen20])
      rfl hbs hok q rest ks nid fuel h hend hrest hnm hq0 rfl
  | ustrong cs =>
    exact step_under21 C true _ bs cs (by simp [fatomSrc, elen20, List.replicate]) (by intro p; simp [atomKid21, elen20])
      rfl hbs hok q rest ks nid fuel h hend hrest hnm hq0 rfl
  | link t d => exact step_link21 C bs t d hbs hok q rest ks nid fuel h hend hrest hnm hks
  | img t d => exact step_img21 C bs t d hbs hok q rest ks nid fuel h hend hrest hnm hks
  | auto s r => exact step_auto21 C bs s r hbs hok q rest ks nid fuel h hend hrest hnm
  | otag n =>
    exact step_tag21 C bs _ rfl (by intro p; rfl) (isTag_otag21 n hok).1 hbs (hT rfl) q rest ks nid fuel h hend hrest hnm hq0
  | ctag n =>
    exact step_tag21 C bs _ rfl (by intro p; rfl) (isTag_otag21 n hok).2 hbs (hT rfl) q rest ks nid fuel h hend hrest hnm hq0

/-! ### one line -/

inductive FT21 : List FAtom → Prop
  | last (bs l0 : Bytes) (c : UInt8) : bs = l0 ++ [c] → isSpace c = false → c ≠ 92 → quiet bs 0 false = true →
      FT21 [.txt bs]
  | cons (bs : Bytes) (a : FAtom) (rest : List FAtom) : a.isTxt = false → BsOK21 a bs → FAtomOK a →
      (a.isUnder = true → ∀ c, (flineSrc rest).head? = some c → unNbOK c = true) → FT21 rest →
      FT21 (.txt bs :: a :: rest)

def atomKids21 (soft hard : Bool) : Nat → List FAtom → List Inl.Node
  | q, [.txt bs] => [.text { start := q, stop := (q : Int) + bs.length } soft hard false]
  | q, .txt bs :: a :: rest =>
    .text { start := q, stop := (q : Int) + bs.length } false false false :: atomKid21 ((q : Int) + bs.length) a ::
      atomKids21 soft hard (q + bs.length + (fatomSrc a).length) rest
  | _, _ => []

def pre21 : List FAtom → Nat
  | .txt _ :: a :: rest => cost21 a + pre21 rest
  | _ => 0

theorem flineSrc_single21 (bs : Bytes) : flineSrc [.txt bs] = bs := by simp [flineSrc, fatomSrc]

theorem flineSrc_cons21 (bs : Bytes) (a : FAtom) (rest : List FAtom) :
    flineSrc (.txt bs :: a :: rest) = bs ++ (fatomSrc a ++ flineSrc rest) := by simp [flineSrc, fatomSrc]

theorem ft_head21 {as : List FAtom} (h : FT21 as) :
    flineSrc as ≠ [] ∧ (flineSrc as).head? ≠ some 96 ∧ (flineSrc as).head? ≠ some 42 ∧ (flineSrc as).head? ≠ some 95 := by
  have key : ∀ (bs : Bytes) (t : Bytes), bs ≠ [] → quiet bs 0 false = true →
      bs ++ t ≠ [] ∧ (bs ++ t).head? ≠ some 96 ∧ (bs ++ t).head? ≠ some 42 ∧ (bs ++ t).head? ≠ some 95 := by
    intro bs t hne hq
    cases bs with
    | nil => exact absurd rfl hne
    | cons x xs =>
      exact ⟨by simp, by simpa using quiet_head8 _ _ hq, by simpa using quiet_head42_11 _ _ hq,
        by simpa using quiet_head42_20 _ _ hq⟩
  cases h with
  | last bs l0 c hl hs hb hq =>
    rw [flineSrc_single21]
    have := key bs [] (by subst hl; simp) hq
    simpa using this
  | cons bs a rest _ hbs _ _ _ => rw [flineSrc_cons21]; exact key bs _ hbs.1 hbs.2.1

theorem ft_concat21 {as : List FAtom} (h : FT21 as) :
    ∃ l0 c, flineSrc as = l0 ++ [c] ∧ isSpace c = false ∧ c ≠ 92 := by
  induction h with
  | last bs l0 c hl hs hb hq => exact ⟨l0, c, by rw [flineSrc_single21, hl], hs, hb⟩
  | cons bs a rest _ _ _ _ _ ih =>
    obtain ⟨l0, c, hl, hs, hb⟩ := ih
    exact ⟨bs ++ (fatomSrc a ++ l0), c, by rw [flineSrc_cons21, hl]; simp, hs, hb⟩

theorem atoms21 (C : Ctx21) (hTag : TagCtx21 C) (tl : Bytes) (soft hard : Bool) (F : Nat)
    (K : List Inl.Node → Nat → Except Panic St)
    (hendtl : ∀ l0 c, isSpace c = false → c ≠ 92 → CutOK13 (l0 ++ [c] ++ tl))
    (hfin : ∀ (q : Nat) (bs l0 : Bytes) (c : UInt8) (ks : List Inl.Node) (nid : Nat), bs = l0 ++ [c] →
      isSpace c = false → c ≠ 92 → quiet bs 0 false = true → At16 C.src C.L q C.e (bs ++ tl) →
      lineLoop C.env F false (C.st q ks nid) =
        K (ks ++ [.text { start := q, stop := (q : Int) + bs.length } soft hard false]) nid) :
    ∀ (as : List FAtom), FT21 as → ∀ (q : Nat) (ks : List Inl.Node) (nid : Nat),
      At16 C.src C.L q C.e (flineSrc as ++ tl) → NoMergeAt13 ks q → NoLab21 ks → C.hd ≤ q →
      ∃ (sg : List Seg21) (sgl : Segment) (nid' : Nat), (∀ s ∈ sg, SegOK21 s) ∧ sgl.stop + tl.length = C.e ∧
        finS21 sg ++ [.text sgl soft hard false] = atomKids21 soft hard q as ∧ NoLab21 (rawS21 sg) ∧
        lineLoop C.env (F + pre21 as) false (C.st q ks nid) =
          K (ks ++ (rawS21 sg ++ [.text sgl soft hard false])) nid' := by
  intro as h
  induction h with
  | last bs l0 c hl hs hb hq =>
    intro q ks nid hat hnm hks hq0
    rw [flineSrc_single21] at hat
    refine ⟨[], { start := q, stop := (q : Int) + bs.length }, nid, by simp, ?_, by simp [finS21, atomKids21],
      by intro n hn; simp [rawS21] at hn, ?_⟩
    · obtain ⟨_, _, h3, _⟩ := at_parts21 hat
      simp only [] at h3 ⊢
      rw [h3]; simp; omega
    · have := hfin q bs l0 c ks nid hl hs hb hq hat
      simpa [pre21, rawS21] using this
  | cons bs a rest hnt hbs hok hnb hrt ih =>
    intro q ks nid hat hnm hks hq0
    obtain ⟨hrne, hr96, hr42, hr95⟩ := ft_head21 hrt
    obtain ⟨l0, c, hl0, hs, hb⟩ := ft_concat21 hrt
    have hline : flineSrc (.txt bs :: a :: rest) ++ tl = bs ++ (fatomSrc a ++ (flineSrc rest ++ tl)) := by
      rw [flineSrc_cons21]; simp
    rw [hline] at hat
    have hend : CutOK13 (flineSrc rest ++ tl) := by rw [hl0]; exact hendtl l0 c hs hb
    have hhead : (flineSrc rest ++ tl).head? = (flineSrc rest).head? := by
      cases hx : flineSrc rest with
      | nil => exact absurd hx hrne
      | cons x xs => rfl
    have hrestOK : RestOK21 a (flineSrc rest ++ tl) := by
      refine ⟨by simp [hrne], ?_, ?_, ?_, ?_⟩
      · rw [hhead]; exact hr96
      · rw [hhead]; exact hr42
      · rw [hhead]; exact hr95
      · intro hu c hc; rw [hhead] at hc; exact hnb hu c hc
    obtain ⟨sg1, nid1, hok1, hlab1, hnm1, hfin1, hrun1⟩ := step21 C bs a hnt hbs hok (fun _ => hTag) q
      (flineSrc rest ++ tl) ks nid (F + pre21 rest) hat hend hrestOK hnm hks hq0
    have hat' : At16 C.src C.L (q + bs.length + (fatomSrc a).length) C.e (flineSrc rest ++ tl) :=
      (hat.drop bs _).drop (fatomSrc a) _
    obtain ⟨sg2, sgl, nid2, hok2, hstop, hfin2, hlab2, hrun2⟩ := ih (q + bs.length + (fatomSrc a).length)
      (ks ++ rawS21 sg1) nid1 hat' (noMergeAt_of8_13 hnm1 _)
      (by intro n hn; simp only [List.mem_append] at hn; rcases hn with hn | hn
          · exact hks n hn
          · exact hlab1 n hn)
      (by omega)
    refine ⟨sg1 ++ sg2, sgl, nid2, ?_, hstop, ?_, ?_, ?_⟩
    · intro s hs'
      simp only [List.mem_append] at hs'
      rcases hs' with h' | h'
      · exact hok1 s h'
      · exact hok2 s h'
    · rw [finS_append21, List.append_assoc, hfin2, hfin1]
      simp [atomKids21]
    · intro n hn
      rw [rawS_append21] at hn
      simp only [List.mem_append] at hn
      rcases hn with hn | hn
      · exact hlab1 n hn
      · exact hlab2 n hn
    · have e0 : F + pre21 (.txt bs :: a :: rest) = F + pre21 rest + cost21 a := by simp only [pre21]; omega
      rw [e0, hrun1, hrun2, rawS_append21]
      simp [List.append_assoc]

/-! ### the whole paragraph -/

def richKids21 : List Nat → List FLine21 → List Inl.Node
  | [p], [x] => atomKids21 false false p x.atoms
  | p :: ps, x :: ls => atomKids21 (!x.hard) x.hard p x.atoms ++ richKids21 ps ls
  | _, _ => []

def need21 : List FLine21 → Nat
  | [] => 1
  | x :: rest => pre21 x.atoms + 1 + need21 rest

theorem at_of_parts21 {src : Bytes} {L : Int} {q : Nat} {e : Int} {line : Bytes}
    (h1 : sub src q (q + line.length) = line) (h2 : q + line.length ≤ src.length)
    (h3 : e = (q : Int) + line.length) (h4 : e ≤ L) : At16 src L q e line :=
  ⟨h1, h2, by rw [h3]; push_cast; rfl, h4⟩

theorem loop21 (env : Env) (henv : env.escapedSpace = false) (src : Bytes) (segs : List Segment) (L : Int)
    (bts : List Bottom) (s0 : Segment) (h0 : segs[0]? = some s0)
    (W : WFSegs src segs) (Z : ∀ s ∈ segs, s.padding = 0) (hLs : L = BCur.lastStop segs) :
    ∀ (ls : List FLine21) (ps : List Nat) (done : List Segment) (ks : List Inl.Node) (f nid : Nat), ls ≠ [] →
      (∀ x ∈ ls, FT21 x.atoms) → (∀ x, ls.getLast? = some x → x.hard = false) →
      LinesAtG src ps (ls.map flineSrc21) → segs = done ++ paraSegsG ps (ls.map flineSrc21) →
      L = (paraEndG ps (ls.map flineSrc21) : Nat) → (∀ p, ps.head? = some p → NoMergeAt13 ks p) → NoLab21 ks →
      ∃ (sg : List Seg21) (rd' : BlockReader) (nid' : Nat), (∀ s ∈ sg, SegOK21 s) ∧ finS21 sg = richKids21 ps ls ∧
        lineLoop env (f + need21 ls) false
        { rd := rdAt src segs L done.length ((paraSegsG ps (ls.map flineSrc21)).headD default)
            ((paraSegsG ps (ls.map flineSrc21)).headD default).start, kids := ks, nextId := nid, bottoms := bts } =
        .ok { rd := rd', kids := ks ++ rawS21 sg, nextId := nid', bottoms := bts }
  | [], _, _, _, _, _, h, _, _, _, _, _, _, _ => absurd rfl h
  | [x], [p], done, ks, f, nid, _, hg, hlast, hla, hsegs, hL, hnm, hks => by
    have hx : x.hard = false := hlast x rfl
    have hsrc : flineSrc21 x = flineSrc x.atoms := by simp [flineSrc21, hx]
    simp only [List.map_cons, List.map_nil, hsrc] at hla hsegs hL ⊢
    obtain ⟨hsub, hlen⟩ := hla
    have hL' : L = (p : Int) + (flineSrc x.atoms).length := by simp [hL, paraEndG]
    have hjl : done.length + 1 = segs.length := by simp [hsegs, paraSegsG]
    have hs0 : ((done.length : Nat) : Int) = 0 → s0.start ≤ (p : Int) := by
      intro hz
      have hd0 : done = [] := List.eq_nil_of_length_eq_zero (by omega)
      subst hd0
      rw [hsegs] at h0
      simp [paraSegsG] at h0
      rw [← h0]; simp
    have hseg : segs[done.length]? = some { start := (p : Int), stop := L } := by
      rw [hsegs, List.getElem?_append_right (Nat.le_refl _)]
      simp [paraSegsG, hL']
    let C : Ctx21 := ⟨env, henv, src, segs, L, done.length, p, L, s0, h0, hs0, by omega, bts⟩
    have := atoms21 C ⟨W, Z, hLs, hseg⟩ [] false false (f + 2)
      (fun kids n => .ok (St.mk (rdAt src segs L (done.length + 1) { start := L, stop := L } L) kids n bts))
      (by intro l0 c hs hb; exact cutOK_of_end13 (by simpa using endOK_nolf11 l0 c hs))
      (by
        intro q bs l0 c ks nid hl hs hb hq hat
        obtain ⟨h1, h2, h3, _⟩ := at_parts21 hat
        simp only [List.append_nil] at h1 h2 h3
        have he' : L = (q : Int) + bs.length := h3
        simp only [Ctx21.st, C]
        subst he'
        exact last_step8 env henv src segs p done.length q bs l0 c ks nid bts f hl hs hb hq h1 h2 hjl)
      x.atoms (hg x (by simp)) p ks nid
      (at_of_parts21 (by simpa using hsub) (by simpa using hlen) (by simpa using hL') (Int.le_refl _))
      (hnm p rfl) hks (Int.le_refl _)
    obtain ⟨sg, sgl, nid', hok, _, hfin, _, hrun⟩ := this
    refine ⟨sg ++ [.plain (.text sgl false false false)], rdAt src segs L (done.length + 1) { start := L, stop := L } L,
      nid', ?_, ?_, ?_⟩
    · intro s hs
      simp only [List.mem_append, List.mem_cons, List.not_mem_nil, or_false] at hs
      rcases hs with hs | rfl
      · exact hok s hs
      · exact plainOK_text21 _ _ _ _
    · rw [finS_append21]
      simpa [richKids21, finS21, Seg21.fin] using hfin
    · have e1 : (paraSegsG [p] [flineSrc x.atoms]).headD default = { start := (p : Int), stop := L } := by
        rw [hL']; rfl
      rw [e1]
      have e2 : f + need21 [x] = f + 2 + pre21 x.atoms := by simp [need21]; omega
      rw [e2, rawS_append21]
      simpa [Ctx21.st, C, rawS21, Seg21.raw] using hrun
  | x :: y :: rest, p :: p' :: ps, done, ks, f, nid, _, hg, hlast, hla, hsegs, hL, hnm, hks => by
    have hrt := hg x (by simp)
    simp only [List.map_cons] at hla hsegs hL ⊢
    have hbd := paraEndG_boundsG (rest.map flineSrc21) ps p' (flineSrc21 y) hla.2.2
    obtain ⟨hsub, hpp, hla'⟩ := hla
    have hL2 : L = (paraEndG (p' :: ps) (flineSrc21 y :: rest.map flineSrc21) : Nat) := by rw [hL]; rfl
    have hpL : (p : Int) + (flineSrc21 x).length + 1 ≤ L := by omega
    have hlen : p + (flineSrc21 x).length + 1 ≤ src.length := by omega
    have hsegs' : segs = (done ++ [{ start := (p : Int), stop := (p : Int) + (flineSrc21 x).length + 1 }]) ++
        paraSegsG (p' :: ps) (flineSrc21 y :: rest.map flineSrc21) := by
      rw [hsegs]; simp [paraSegsG]
    have hnext : segs[done.length + 1]? =
        some ((paraSegsG (p' :: ps) (flineSrc21 y :: rest.map flineSrc21)).headD default) := by
      rw [hsegs']
      rw [List.getElem?_append_right (by simp)]
      simp only [List.length_append, List.length_cons, List.length_nil, Nat.zero_add, Nat.sub_self]
      cases rest <;> cases ps <;> rfl
    have hjlt : done.length + 1 < segs.length := (List.getElem?_eq_some_iff.mp hnext).1
    have hs0 : ((done.length : Nat) : Int) = 0 → s0.start ≤ (p : Int) := by
      intro hz
      have hd0 : done = [] := List.eq_nil_of_length_eq_zero (by omega)
      subst hd0
      rw [hsegs] at h0
      simp [paraSegsG] at h0
      rw [← h0]; simp
    have hseg : segs[done.length]? = some { start := (p : Int), stop := (p : Int) + (flineSrc21 x).length + 1 } := by
      rw [hsegs, List.getElem?_append_right (Nat.le_refl _)]
      simp [paraSegsG]
    let C : Ctx21 := ⟨env, henv, src, segs, L, done.length, p, (p : Int) + (flineSrc21 x).length + 1, s0, h0, hs0,
      by omega, bts⟩
    have hline : ∃ (sg : List Seg21) (sgl : Segment) (nid1 : Nat), (∀ s ∈ sg, SegOK21 s) ∧ sgl.stop < (p' : Int) ∧
        finS21 sg ++ [.text sgl (!x.hard) x.hard false] = atomKids21 (!x.hard) x.hard p x.atoms ∧ NoLab21 (rawS21 sg) ∧
        lineLoop env (f + need21 (y :: rest) + 1 + pre21 x.atoms) false
          { rd := rdAt src segs L done.length { start := p, stop := (p : Int) + (flineSrc21 x).length + 1 } p, kids := ks,
            nextId := nid, bottoms := bts } =
        lineLoop env (f + need21 (y :: rest)) false
          (St.mk (rdAt src segs L (done.length + 1)
            ((paraSegsG (p' :: ps) (flineSrc21 y :: rest.map flineSrc21)).headD default)
            ((paraSegsG (p' :: ps) (flineSrc21 y :: rest.map flineSrc21)).headD default).start)
            (ks ++ (rawS21 sg ++ [.text sgl (!x.hard) x.hard false])) nid1 bts) := by
      cases hx : x.hard
      · have hsrc : flineSrc21 x = flineSrc x.atoms := by simp [flineSrc21, hx]
        have := atoms21 C ⟨W, Z, hLs, hseg⟩ [10] true false (f + need21 (y :: rest) + 1)
          (fun kids n => lineLoop env (f + need21 (y :: rest)) false (St.mk (rdAt src segs L (done.length + 1) _ _) kids n bts))
          (fun l0 c hs hb => cutOK_of_end13 (endOK_lf11 l0 c hs hb))
          (by
            intro q bs l0 c ks nid hl hs hb hq hat
            obtain ⟨h1, h2, h3, _⟩ := at_parts21 hat
            simp only [List.length_append, List.length_cons, List.length_nil] at h1 h2 h3
            simp only [Ctx21.st, C] at h3 ⊢
            have he' : (p : Int) + (flineSrc21 x).length + 1 = (q : Int) + bs.length + 1 := by rw [h3]; push_cast; omega
            rw [he']
            exact line_step8 env henv src segs L p done.length q bs l0 c _ ks nid bts _ hl hs hb hq
              (by simpa [Nat.add_assoc] using h1) (by omega) (by omega) hnext)
          x.atoms hrt p ks nid
          (at_of_parts21 (by rw [← hsrc]; simpa [Nat.add_assoc] using hsub) (by rw [← hsrc]; simp; omega)
            (by rw [← hsrc]; simp [C]; omega) hpL)
          (hnm p rfl) hks (Int.le_refl _)
        obtain ⟨sg, sgl, nid1, hok, hsg, hfin, hlab, hrun⟩ := this
        refine ⟨sg, sgl, nid1, hok, ?_, by simpa using hfin, hlab, by simpa [Ctx21.st, C] using hrun⟩
        simp [C] at hsg; omega
      · have hsrc : flineSrc21 x = flineSrc x.atoms ++ [92] := by simp [flineSrc21, hx]
        have hlen1 : (flineSrc21 x).length = (flineSrc x.atoms).length + 1 := by rw [hsrc]; simp
        have := atoms21 C ⟨W, Z, hLs, hseg⟩ [92, 10] false true (f + need21 (y :: rest) + 1)
          (fun kids n => lineLoop env (f + need21 (y :: rest)) false (St.mk (rdAt src segs L (done.length + 1) _ _) kids n bts))
          (fun l0 c _ hb => cutOK_bs13 l0 c hb)
          (by
            intro q bs l0 c ks nid hl hs hb hq hat
            obtain ⟨h1, h2, h3, _⟩ := at_parts21 hat
            simp only [List.length_append, List.length_cons, List.length_nil] at h1 h2 h3
            simp only [Ctx21.st, C] at h3 ⊢
            have he' : (p : Int) + (flineSrc21 x).length + 1 = (q : Int) + (bs.length + 1 : Nat) + 1 := by
              rw [h3]; push_cast; omega
            rw [he']
            exact hard_step13 env henv src segs L p done.length q (bs.length + 1) bs l0 c _ ks nid bts _ hl hb hq rfl
              (by simpa [Nat.add_assoc] using h1) (by omega) (by omega) hnext)
          x.atoms hrt p ks nid
          (at_of_parts21 (by rw [hsrc] at hsub; simpa [Nat.add_assoc] using hsub) (by simp [C]; omega)
            (by simp [C]; omega) hpL)
          (hnm p rfl) hks (Int.le_refl _)
        obtain ⟨sg, sgl, nid1, hok, hsg, hfin, hlab, hrun⟩ := this
        refine ⟨sg, sgl, nid1, hok, ?_, by simpa using hfin, hlab, by simpa [Ctx21.st, C] using hrun⟩
        simp [C] at hsg; omega
    obtain ⟨sg1, sgl, nid1, hok1, hsg, hfin1, hlab1, hrun1⟩ := hline
    obtain ⟨sg2, rd', nid', hok2, hfin2, ih⟩ := loop21 env henv src segs L bts s0 h0 W Z hLs (y :: rest) (p' :: ps)
      (done ++ [{ start := (p : Int), stop := (p : Int) + (flineSrc21 x).length + 1 }])
      (ks ++ (rawS21 sg1 ++ [.text sgl (!x.hard) x.hard false])) f nid1 (by simp)
      (fun z hz => hg z (by simp at hz ⊢; right; exact hz)) (fun z hz => hlast z (by simpa using hz)) hla' hsegs' hL2
      (by
        intro q hq
        simp at hq; subst hq
        rw [← List.append_assoc]
        exact noMergeAt_text13 _ _ _ _ _ _ hsg)
      (by
        intro n hn
        simp only [List.mem_append, List.mem_cons, List.not_mem_nil, or_false] at hn
        rcases hn with hn | hn | rfl
        · exact hks n hn
        · exact hlab1 n hn
        · rfl)
    refine ⟨sg1 ++ [.plain (.text sgl (!x.hard) x.hard false)] ++ sg2, rd', nid', ?_, ?_, ?_⟩
    · intro s hs
      simp only [List.mem_append, List.mem_cons, List.not_mem_nil, or_false] at hs
      rcases hs with (hs | rfl) | hs
      · exact hok1 s hs
      · exact plainOK_text21 _ _ _ _
      · exact hok2 s hs
    · rw [finS_append21, finS_append21, hfin2]
      have : finS21 [Seg21.plain (.text sgl (!x.hard) x.hard false)] = [.text sgl (!x.hard) x.hard false] := by
        simp [finS21, Seg21.fin]
      rw [this, hfin1]; rfl
    · have e1 : (paraSegsG (p :: p' :: ps) (flineSrc21 x :: flineSrc21 y :: rest.map flineSrc21)).headD default =
          { start := (p : Int), stop := (p : Int) + (flineSrc21 x).length + 1 } := rfl
      have e0 : f + need21 (x :: y :: rest) = f + need21 (y :: rest) + 1 + pre21 x.atoms := by
        simp only [need21]; omega
      rw [e1, e0]
      show lineLoop env _ false
        { rd := rdAt src segs L done.length { start := (p : Int), stop := (p : Int) + (flineSrc21 x).length + 1 } p,
          kids := ks, nextId := nid, bottoms := bts } = _
      rw [hrun1]
      have e2 : ((done ++ [({ start := (p : Int), stop := (p : Int) + (flineSrc21 x).length + 1 } : Segment)]).length : Int) =
          (done.length : Int) + 1 := by
        simp
      simp only [List.map_cons] at ih
      rw [e2] at ih
      rw [ih, rawS_append21, rawS_append21]
      simp [rawS21, Seg21.raw, List.append_assoc]
  | [_], [], _, _, _, _, _, _, _, h, _, _, _, _ => h.elim
  | [_], _ :: _ :: _, _, _, _, _, _, _, _, h, _, _, _, _ => h.elim
  | _ :: _ :: _, [], _, _, _, _, _, _, _, h, _, _, _, _ => h.elim
  | _ :: _ :: _, [_], _, _, _, _, _, _, _, h, _, _, _, _ => h.elim

/-! ### rich lines have the shape `FT21` -/

theorem isTxt_txt21 (a : FAtom) (h : a.isTxt = true) : ∃ bs, a = .txt bs := by
  cases a <;> simp [FAtom.isTxt] at h
  exact ⟨_, rfl⟩

theorem ft_of_rich_aux21 : ∀ (n : Nat) (as : List FAtom), as.length ≤ n → falternating as = true →
    (∃ bs rest, as = .txt bs :: rest) →
    (∃ bs, as.getLast? = some (.txt bs) ∧ ∀ c, bs.getLast? = some c → isSpace c = false ∧ c ≠ 92) →
    (∀ a ∈ as, FAtomOK a) →
    (∀ init a x b rest, as = init ++ [.txt a, x, .txt b] ++ rest → x.isUnder = true →
      (∀ c, a.getLast? = some c → unNbOK c = true) ∧ (∀ c, b.head? = some c → unNbOK c = true)) →
    FT21 as
  | _, [], _, _, hf, _, _, _ => by obtain ⟨_, _, h⟩ := hf; simp at h
  | _, [a], _, _, hf, hl, hok, _ => by
    obtain ⟨bs, r, he⟩ := hf
    cases he
    obtain ⟨bs', hb', hc⟩ := hl
    simp at hb'; subst hb'
    obtain ⟨hne, hq, _⟩ := hok (.txt bs) (by simp)
    rcases List.eq_nil_or_concat bs with h0 | ⟨l0, c, hl⟩
    · exact absurd h0 hne
    · have hl' : bs = l0 ++ [c] := by simpa using hl
      have := hc c (by simp [hl'])
      exact .last bs l0 c hl' this.1 this.2 (hq 0)
  | _, [a, b], _, ha, hf, hl, _, _ => by
    obtain ⟨bs, r, he⟩ := hf
    cases he
    obtain ⟨x, hx, _⟩ := hl
    simp at hx; subst hx
    simp [falternating, FAtom.isTxt] at ha
  | n + 1, a :: b :: c :: rest, hn, ha, hf, hl, hok, hnb => by
    obtain ⟨bs, r, he⟩ := hf
    cases he
    simp only [falternating, Bool.and_eq_true] at ha
    obtain ⟨h1, h2, h3⟩ := ha
    have hbt : b.isTxt = false := by simpa [FAtom.isTxt] using h1
    have hct : c.isTxt = true := by rw [hbt] at h2; simpa using h2
    obtain ⟨b', rfl⟩ := isTxt_txt21 c hct
    obtain ⟨hne, hq, hesc⟩ := hok (.txt bs) (by simp)
    obtain ⟨hb'ne, _, _⟩ := hok (.txt b') (by simp)
    have hrec := ft_of_rich_aux21 n (.txt b' :: rest) (by simp at hn ⊢; omega) h3 ⟨b', rest, rfl⟩
      (by obtain ⟨x, hx, hc⟩ := hl; exact ⟨x, by simpa [List.getLast?_cons_cons] using hx, hc⟩)
      (fun a h => hok a (by simp at h ⊢; right; right; exact h))
      (fun init a x b0 rest' h hx => hnb (.txt bs :: b :: init) a x b0 rest' (by rw [h]; simp) hx)
    refine FT21.cons bs b _ hbt ⟨hne, hq 0, hesc, fun hu => (hnb [] bs b b' rest (by simp) hu).1⟩ (hok b (by simp)) ?_ hrec
    intro hu ch hc
    apply (hnb [] bs b b' rest (by simp) hu).2 ch
    cases b' with
    | nil => exact absurd rfl hb'ne
    | cons y ys => simpa [flineSrc, fatomSrc] using hc

theorem ft_of_rich21 {as : List FAtom} (h : FRichLine as) : FT21 as := by
  refine ft_of_rich_aux21 as.length as (Nat.le_refl _) h.alt
    (by obtain ⟨bs, rest, he, _⟩ := h.first; exact ⟨bs, rest, he⟩) ?_ h.ok h.nb
  obtain ⟨init, bs, he, hc⟩ := h.last
  exact ⟨bs, by rw [he]; simp, hc⟩

/-! ### the paragraph's segments -/

theorem flineSrc21_ne21 (x : FLine21) (h : FT21 x.atoms) : flineSrc21 x ≠ [] := by
  have := (ft_head21 h).1
  unfold flineSrc21
  simp [this]

theorem wfFrom_linesG21 (src : Bytes) : ∀ (ls : List Bytes) (ps : List Nat) (lo : Int),
    (∀ p, ps.head? = some p → lo ≤ p) → (∀ l ∈ ls, l ≠ []) → LinesAtG src ps ls →
    WFSegsFrom src lo (paraSegsG ps ls)
  | [], [], _, _, _, _ => trivial
  | [l], [p], lo, hlo, hne, h => by
    obtain ⟨_, hlen⟩ := h
    have : 0 < l.length := List.length_pos_iff.mpr (hne l (by simp))
    refine ⟨hlo p rfl, ?_, ?_, Int.le_refl _, rfl, trivial⟩
    · show (p : Int) < (p : Int) + l.length; omega
    · show (p : Int) + l.length ≤ src.length; omega
  | l :: l' :: rest, p :: p' :: ps, lo, hlo, hne, h => by
    have hbd := paraEndG_boundsG rest ps p' l' h.2.2
    obtain ⟨_, hpp, h'⟩ := h
    refine ⟨hlo p rfl, ?_, ?_, Int.le_refl _, rfl, ?_⟩
    · show (p : Int) < (p : Int) + l.length + 1; omega
    · show (p : Int) + l.length + 1 ≤ src.length; omega
    · exact wfFrom_linesG21 src (l' :: rest) (p' :: ps) _
        (by intro q hq; simp at hq; subst hq; show (p : Int) + l.length + 1 ≤ _; omega)
        (fun x hx => hne x (by simp at hx ⊢; right; exact hx)) h'
  | [], [_], _, _, _, h => h.elim
  | [], _ :: _ :: _, _, _, _, h => h.elim
  | [_], [], _, _, _, h => h.elim
  | [_], _ :: _ :: _, _, _, _, h => h.elim
  | _ :: _ :: _, [], _, _, _, h => h.elim
  | _ :: _ :: _, [_], _, _, _, h => h.elim

theorem pad_linesG21 : ∀ (ls : List Bytes) (ps : List Nat), ∀ s ∈ paraSegsG ps ls, s.padding = 0 := by
  intro ls ps s hs
  have := pad0_paraG ls ps
  simp only [GM.LinkRef.pad0B, List.all_eq_true] at this
  have h := this s hs
  simpa using h

/-! ### fuel; the inline phase -/

theorem atom_len21 (a : FAtom) (h : a.isTxt = false) : cost21 a ≤ 1 + (fatomSrc a).length := by
  cases a <;> simp [FAtom.isTxt] at h <;> simp [cost21, fatomSrc] <;> omega

theorem pre_le21 {as : List FAtom} (h : FT21 as) : pre21 as + 1 ≤ (flineSrc as).length := by
  induction h with
  | last bs l0 c hl _ _ _ => rw [flineSrc_single21, hl]; simp [pre21]
  | cons bs a rest hnt hbs _ _ _ ih =>
    have := atom_len21 a hnt
    have hb : 0 < bs.length := List.length_pos_iff.mpr hbs.1
    rw [flineSrc_cons21]
    simp only [pre21, List.length_append]
    omega

theorem flineSrc21_len21 (x : FLine21) : (flineSrc x.atoms).length ≤ (flineSrc21 x).length := by
  unfold flineSrc21; simp

theorem need_le21 (src : Bytes) : ∀ (ls : List FLine21) (ps : List Nat) (p : Nat), (∀ x ∈ ls, FT21 x.atoms) →
    LinesAtG src (p :: ps) (ls.map flineSrc21) → p + need21 ls ≤ src.length + 1
  | [], _, _, _, h => by simp [LinesAtG] at h
  | [x], [], p, hg, hla => by
    have := pre_le21 (hg x (by simp))
    have := flineSrc21_len21 x
    obtain ⟨_, hlen⟩ := hla
    simp only [need21]; omega
  | x :: y :: rest, p' :: ps, p, hg, hla => by
    have := pre_le21 (hg x (by simp))
    have := flineSrc21_len21 x
    obtain ⟨_, hpp, hla'⟩ := hla
    have ih := need_le21 src (y :: rest) ps p' (fun z hz => hg z (by simp at hz ⊢; right; exact hz)) hla'
    simp only [need21] at ih ⊢; omega
  | [_], _ :: _, _, _, h => h.elim
  | _ :: _ :: _, [], _, _, h => h.elim

theorem parseBlock_f21 (env : GM.Inl.Env) (henv : env.escapedSpace = false) (src : Bytes) (ps : List Nat)
    (ls : List FLine21) (hne : ls ≠ []) (hok : FLinesOK ls) (h : LinesAtG src ps (ls.map flineSrc21)) :
    GM.Inl.parseBlock env src (paraSegsG ps (ls.map flineSrc21)) = .ok (richKids21 ps ls) := by
  have hrt : ∀ x ∈ ls, FT21 x.atoms := fun x hx => ft_of_rich21 (hok.1 x hx)
  have hne' : ls.map flineSrc21 ≠ [] := by simpa using hne
  obtain ⟨p, ps', rfl⟩ : ∃ p ps', ps = p :: ps' := by
    cases ps with
    | nil =>
      cases ls with
      | nil => exact absurd rfl hne
      | cons _ _ => exact h.elim
    | cons p ps' => exact ⟨p, ps', rfl⟩
  have hfuel : need21 ls ≤ blockFuel src (paraSegsG (p :: ps') (ls.map flineSrc21)) := by
    have := need_le21 src ls ps' p hrt h
    unfold blockFuel
    omega
  obtain ⟨f, hf⟩ : ∃ f, blockFuel src (paraSegsG (p :: ps') (ls.map flineSrc21)) = f + need21 ls :=
    ⟨_, (Nat.sub_add_cancel hfuel).symm⟩
  have hh0 := paraSegsG_headG (ls.map flineSrc21) (p :: ps') hne' h
  have hnel : ∀ l ∈ ls.map flineSrc21, l ≠ [] := by
    intro l hl
    obtain ⟨x, hx, rfl⟩ := List.mem_map.mp hl
    exact flineSrc21_ne21 x (hrt x hx)
  have W : WFSegs src (paraSegsG (p :: ps') (ls.map flineSrc21)) := by
    refine ⟨?_, wfFrom_linesG21 src _ _ 0 (by intro q _; omega) hnel h⟩
    intro he
    rw [he] at hh0
    simp at hh0
  have hLs : ((paraEndG (p :: ps') (ls.map flineSrc21) : Nat) : Int) =
      BCur.lastStop (paraSegsG (p :: ps') (ls.map flineSrc21)) := by
    obtain ⟨sl, h1, h2⟩ := paraSegsG_lastG (ls.map flineSrc21) (p :: ps') hne' h
    unfold BCur.lastStop
    rw [List.getLast?_eq_getElem?, h1]
    exact h2.symm
  obtain ⟨sg, rd', nid', hsok, hfin, h2⟩ := loop21 env henv src (paraSegsG (p :: ps') (ls.map flineSrc21))
    (paraEndG (p :: ps') (ls.map flineSrc21) : Nat) [] _ hh0 W (pad_linesG21 _ _) hLs ls (p :: ps') [] [] f 0 hne hrt
    hok.2 h rfl rfl (fun q _ => noMergeAt_of8_13 noMerge_nil8 q) (by intro n hn; simp at hn)
  unfold parseBlock
  simp only [bind, Except.bind, new_paraG (ls.map flineSrc21) (p :: ps') hne' h]
  have h' : lineLoop env (blockFuel src (paraSegsG (p :: ps') (ls.map flineSrc21))) false
      { rd := rdAt src (paraSegsG (p :: ps') (ls.map flineSrc21)) (paraEndG (p :: ps') (ls.map flineSrc21) : Nat) 0
          ((paraSegsG (p :: ps') (ls.map flineSrc21)).headD default)
          ((paraSegsG (p :: ps') (ls.map flineSrc21)).headD default).start } =
      .ok { rd := rd', kids := rawS21 sg, nextId := nid', bottoms := [] } := by
    rw [hf]
    simpa using h2
  rw [h']
  simp only [processDelimiters_rawS21 sg hsok, pure, Except.pure]
  rw [closeLabelsL_finS21 sg hsok, hfin]

/-! ### the renderer's nodes -/

/-- the value of the bytes `b` that stand `a.length` bytes behind `P` -/
theorem value_mid21 (src : Bytes) (P : Nat) (a b c : Bytes) (h : sub src P (P + (a ++ b ++ c).length) = a ++ b ++ c)
    (hlen : P + (a ++ b ++ c).length ≤ src.length) (x y : Int) (hx : x = (P : Int) + a.length)
    (hy : y = (P : Int) + a.length + b.length) :
    Segment.value { start := x, stop := y } src = .ok b := by
  have h1 := sub_mid8 src P a b c h
  have h2 : P + a.length + b.length ≤ src.length := by simp at hlen; omega
  exact value_at8 src (P + a.length) b h1 h2 x y (by rw [hx]; push_cast; rfl) (by rw [hy]; push_cast; rfl)

theorem tree_kid21 (src : Bytes) (P : Nat) (a : FAtom) (hnt : a.isTxt = false)
    (h : sub src P (P + (fatomSrc a).length) = fatomSrc a) (hlen : P + (fatomSrc a).length ≤ src.length) :
    GM.Convert.inlineTree src (atomKid21 (P : Int) a) = .ok (fatomNode a) := by
  cases a with
  | txt _ => simp [FAtom.isTxt] at hnt
  | code cs =>
    have hv := value_mid21 src P [96] cs [96] (by simpa [fatomSrc] using h) (by simpa [fatomSrc] using hlen)
      ((P : Int) + 1) ((P : Int) + 1 + cs.length) (by simp) (by simp)
    simp [atomKid21, fatomNode, GM.Convert.inlineTree, GM.Convert.inlineTrees, hv, bind, Except.bind, pure, Except.pure]
  | em cs =>
    have hv := value_mid21 src P [42] cs [42] (by simpa [fatomSrc] using h) (by simpa [fatomSrc] using hlen)
      ((P : Int) + 1) ((P : Int) + 1 + cs.length) (by simp) (by simp)
    simp [atomKid21, fatomNode, GM.Convert.inlineTree, GM.Convert.inlineTrees, hv, bind, Except.bind, pure, Except.pure]
  | strong cs =>
    have hv := value_mid21 src P [42, 42] cs [42, 42] (by simpa [fatomSrc] using h) (by simpa [fatomSrc] using hlen)
      ((P : Int) + 2) ((P : Int) + 2 + cs.length) (by simp) (by simp)
    simp [atomKid21, fatomNode, GM.Convert.inlineTree, GM.Convert.inlineTrees, hv, bind, Except.bind, pure, Except.pure]
  | uem cs =>
    have hv := value_mid21 src P [95] cs [95] (by simpa [fatomSrc] using h) (by simpa [fatomSrc] using hlen)
      ((P : Int) + 1) ((P : Int) + 1 + cs.length) (by simp) (by simp)
    simp [atomKid21, fatomNode, GM.Convert.inlineTree, GM.Convert.inlineTrees, hv, bind, Except.bind, pure, Except.pure]
  | ustrong cs =>
    have hv := value_mid21 src P [95, 95] cs [95, 95] (by simpa [fatomSrc] using h) (by simpa [fatomSrc] using hlen)
      ((P : Int) + 2) ((P : Int) + 2 + cs.length) (by simp) (by simp)
    simp [atomKid21, fatomNode, GM.Convert.inlineTree, GM.Convert.inlineTrees, hv, bind, Except.bind, pure, Except.pure]
  | link t d =>
    have hv := value_mid21 src P [91] t (93 :: 40 :: (d ++ [41])) (by simpa [fatomSrc] using h)
      (by simpa [fatomSrc] using hlen) ((P : Int) + 1) ((P : Int) + 1 + t.length) (by simp) (by simp)
    simp [atomKid21, fatomNode, GM.Convert.inlineTree, GM.Convert.inlineTrees, hv, bind, Except.bind, pure, Except.pure]
  | img t d =>
    have hv := value_mid21 src P [33, 91] t (93 :: 40 :: (d ++ [41])) (by simpa [fatomSrc] using h)
      (by simpa [fatomSrc] using hlen) ((P : Int) + 1 + 1) ((P : Int) + 1 + 1 + t.length) (by simp; omega) (by simp; omega)
    simp [atomKid21, fatomNode, GM.Convert.inlineTree, GM.Convert.inlineTrees, hv, bind, Except.bind, pure, Except.pure]
  | auto s r =>
    have hv := value_mid21 src P [60] (s ++ 58 :: r) [62] (by simpa [fatomSrc] using h)
      (by simpa [fatomSrc] using hlen) ((P : Int) + 1) ((P : Int) + 1 + s.length + 1 + r.length) (by simp)
      (by simp; omega)
    simp [atomKid21, fatomNode, GM.Convert.inlineTree, hv, bind, Except.bind, pure, Except.pure, autoUri18]
  | otag n =>
    have hv := value_mid21 src P [] (fatomSrc (.otag n)) [] (by simpa using h) (by simpa using hlen)
      (P : Int) ((P : Int) + ((fatomSrc (.otag n)).length : Nat)) (by simp) (by simp)
    simp only [atomKid21, fatomNode, GM.Convert.inlineTree, GM.Convert.segValues, hv, bind, Except.bind, pure, Except.pure]
  | ctag n =>
    have hv := value_mid21 src P [] (fatomSrc (.ctag n)) [] (by simpa using h) (by simpa using hlen)
      (P : Int) ((P : Int) + ((fatomSrc (.ctag n)).length : Nat)) (by simp) (by simp)
    simp only [atomKid21, fatomNode, GM.Convert.inlineTree, GM.Convert.segValues, hv, bind, Except.bind, pure, Except.pure]

theorem fatomNodes_cons21 (soft hard : Bool) (bs : Bytes) (a : FAtom) (rest : List FAtom) :
    fatomNodes soft hard (.txt bs :: a :: rest) =
      .mk (.text bs false false false false) none [] :: fatomNodes soft hard (a :: rest) := by
  simp [fatomNodes, fatomNode]

theorem fatomNodes_nt21 (soft hard : Bool) (a : FAtom) (rest : List FAtom) (h : a.isTxt = false) :
    fatomNodes soft hard (a :: rest) = fatomNode a :: fatomNodes soft hard rest := by
  cases a <;> simp [FAtom.isTxt] at h <;> simp [fatomNodes]

theorem atomTrees21 (src : Bytes) (soft hard : Bool) : ∀ (as : List FAtom), FT21 as → ∀ (q : Nat),
    sub src q (q + (flineSrc as).length) = flineSrc as → q + (flineSrc as).length ≤ src.length →
    GM.Convert.inlineTrees src (atomKids21 soft hard q as) = .ok (fatomNodes soft hard as) := by
  intro as h
  induction h with
  | last bs l0 c hl hs hb hq =>
    intro q h hlen
    rw [flineSrc_single21] at h hlen
    simp [atomKids21, fatomNodes, GM.Convert.inlineTrees, GM.Convert.inlineTree, bind, Except.bind, pure, Except.pure,
      value_at8 src q bs h hlen _ _ rfl rfl]
  | cons bs a rest hnt hbs hok hnb hrt ih =>
    intro q h hlen
    rw [flineSrc_cons21] at h hlen
    have hA : sub src q (q + ([] ++ bs ++ (fatomSrc a ++ flineSrc rest)).length) = [] ++ bs ++ (fatomSrc a ++ flineSrc rest) := by
      simpa using h
    have h1 := sub_mid8 src q [] bs (fatomSrc a ++ flineSrc rest) hA
    have hB : sub src q (q + (bs ++ fatomSrc a ++ flineSrc rest).length) = bs ++ fatomSrc a ++ flineSrc rest := by
      simpa [List.append_assoc] using h
    have h2 := sub_mid8 src q bs (fatomSrc a) (flineSrc rest) hB
    have hC : sub src q (q + ((bs ++ fatomSrc a) ++ flineSrc rest ++ []).length) = (bs ++ fatomSrc a) ++ flineSrc rest ++ [] := by
      simpa [List.append_assoc] using h
    have h3 := sub_mid8 src q (bs ++ fatomSrc a) (flineSrc rest) [] hC
    simp only [List.length_append, List.length_nil, Nat.add_zero] at h1 h2 h3 hlen
    have hk := tree_kid21 src (q + bs.length) a hnt h2 (by omega)
    rw [Int.natCast_add] at hk
    have ih' := ih (q + bs.length + (fatomSrc a).length) (by rw [← Nat.add_assoc] at h3; exact h3) (by omega)
    rw [fatomNodes_cons21, fatomNodes_nt21 _ _ _ _ hnt]
    simp only [atomKids21, GM.Convert.inlineTrees, GM.Convert.inlineTree, bind, Except.bind, pure, Except.pure,
      value_at8 src q bs h1 (by omega) _ _ rfl rfl, hk, ih']

theorem inlineTrees_f21 (src : Bytes) : ∀ (ps : List Nat) (ls : List FLine21), (∀ x ∈ ls, FT21 x.atoms) →
    (∀ x, ls.getLast? = some x → x.hard = false) → LinesAtG src ps (ls.map flineSrc21) →
    GM.Convert.inlineTrees src (richKids21 ps ls) = .ok (fNodes ls)
  | [], [], _, _, _ => by simp [richKids21, fNodes, GM.Convert.inlineTrees, pure, Except.pure]
  | [p], [x], hg, hlast, h => by
    have hx : x.hard = false := hlast x rfl
    have hsrc : flineSrc21 x = flineSrc x.atoms := by simp [flineSrc21, hx]
    simp only [List.map_cons, List.map_nil, hsrc] at h
    exact atomTrees21 src false false x.atoms (hg x (by simp)) p h.1 h.2
  | p :: p' :: ps, x :: y :: rest, hg, hlast, h => by
    simp only [List.map_cons] at h
    have hbd := paraEndG_boundsG (rest.map flineSrc21) ps p' (flineSrc21 y) h.2.2
    have ih := inlineTrees_f21 src (p' :: ps) (y :: rest) (fun z hz => hg z (by simp at hz ⊢; right; exact hz))
      (fun z hz => hlast z (by simpa using hz)) h.2.2
    have h1 := h.1
    have h2 := h.2.1
    have hsub : sub src p (p + (flineSrc x.atoms).length) = flineSrc x.atoms ∧
        p + (flineSrc x.atoms).length ≤ src.length := by
      cases hx : x.hard
      · have hsrc : flineSrc21 x = flineSrc x.atoms := by simp [flineSrc21, hx]
        rw [hsrc] at h1 h2
        exact ⟨sub_prefix src p _ _ 10 rfl h1, by omega⟩
      · have hsrc : flineSrc21 x = flineSrc x.atoms ++ [92] := by simp [flineSrc21, hx]
        rw [hsrc] at h1 h2
        simp only [List.length_append, List.length_cons, List.length_nil] at h1 h2
        have h3 : sub src p (p + ((flineSrc x.atoms).length + 1)) = flineSrc x.atoms ++ [92] :=
          sub_prefix src p ((flineSrc x.atoms).length + 1) (flineSrc x.atoms ++ [92]) 10 (by simp) h1
        exact ⟨sub_prefix src p _ _ 92 rfl h3, by omega⟩
    exact inlineTrees_append8 src _ _ _ _
      (atomTrees21 src (!x.hard) x.hard x.atoms (hg x (by simp)) p hsub.1 hsub.2) ih
  | [_], [], _, _, h => h.elim
  | _ :: _ :: _, [], _, _, h => h.elim
  | [], [_], _, _, h => h.elim
  | [], _ :: _ :: _, _, _, h => h.elim
  | [_], _ :: _ :: _, _, _, h => h.elim
  | _ :: _ :: _, [_], _, _, h => h.elim

/-- the inline facts of stage 21 in position-list form (`F21Restr` is not used) -/
theorem f21InlG_holds : F21InlG := by
  intro env henv ls hne hok _
  exact ⟨fun ps => richKids21 ps ls, fun src ps h => parseBlock_f21 env henv src ps ls hne hok h,
    fun src ps h => inlineTrees_f21 src ps ls (fun x hx => ft_of_rich21 (hok.1 x hx)) hok.2 h⟩

end GM.Proof.CMFrag
