-- GENERATED from BlocksTNP26.lean by tools/port_blocks_v.py (package headingids): the same proofs for the monitored driver runV. Do not edit.
/-
  GM.Proof.BlocksTNP26 — **the block phase WITH paragraph transformers ends normally for EVERY source** (or with the
  transformers' run-time guard error `e`): `runV_total`. No Go panic of `parseBlocks` / `openBlocks` / `closeBlocks` /
  `transformParagraph` and the ten default block parsers — including the RequireParagraph path (parser.go:985-997:
  `last == parent.LastChild()` always holds there, `paragraph.Close`, pop, transform, `goto retry` with
  `continuable = false`), `closeBlocks(lastIndex, i)` after a transformed retry (something is opened on the underline, so
  the stale slice read and the loop bounds are right) —, no fuel exhaustion, and neither contract monitor of `retryStepV`
  fires. The final state satisfies `NodesOK` (all line segments inside the source) and `KidsOK`.
  Assembly of GM.Proof.BlocksTNP20–25 with the per-parser lemmas (`lsp_all`) and the termination theorem `GM.Blocks.V.runV_noLoop`.
-/
import GM.Proof.BlocksVNP25
import GM.Proof.BlocksNoPanicAll
import GM.Proof.BlocksVT

namespace GM.Blocks.TV
open GM GM.Text GM.Spec GM.Proof.Reader

theorem runV_total (src : Bytes) (e : Panic) (pts : List PT) (hs : PTsSpec src e pts) (hl : PTsOK pts) :
    (∃ s, runV pts src = .ok s ∧ NodesOK src s ∧ KidsOK s) ∨ runV pts src = .error e := by
  rcases L.GV.runG (lsp_all src) hs with h | h | h
  · exact .inl h
  · exact absurd h (GM.Blocks.V.runV_noLoop hl src)
  · exact .inr h

end GM.Blocks.TV
