/-
  GM.Proof.InlineLoopUnused — "never consulted" for the inline driver model GM.Model.InlineLoop:
  a parser none of whose trigger bytes occurs in the source (and which is not registered for ' ', the table
  index of white space and of a line head) changes NOTHING: the run with it is equal to the run without it —
  same children, same reader, same call log. (C11, item "never consulted".)
  Also: `WithEscapedSpace` is irrelevant when no parser is registered for ' '.
-/
import GM.Model.InlineLoop
import GM.Proof.InlineLoop

namespace GM.Proof.InlineLoopUnused
open GM GM.InlineLoop GM.Proof.InlineLoop

theorem table_single_off (q : Parser) (pc : UInt8) (h : pc ∉ q.triggers) : table [q] pc = [] := by
  have : q.triggers.filter (· == pc) = [] := by
    rw [List.filter_eq_nil_iff]
    intro a ha hEq
    have : a = pc := by simpa using hEq
    exact h (this ▸ ha)
  simp [table, this]

theorem table_insert_off (l1 l2 : List Parser) (q : Parser) (pc : UInt8) (h : pc ∉ q.triggers) :
    table (l1 ++ q :: l2) pc = table (l1 ++ l2) pc := by
  have : l1 ++ q :: l2 = l1 ++ ([q] ++ l2) := by simp
  rw [this, table_append, table_append, table_append, table_single_off q pc h]
  simp

/-- the table index the loop computes for a byte is the byte itself (punctuation) or ' '; a byte that is neither
    punctuation nor white space passes the trigger test only at `i = 0`, with index ' ' -/
theorem step_insert_off (l1 l2 : List Parser) (q : Parser) (esc : Bool) (b : Block) (c : UInt8) (i n sp : Nat) (st : St)
    (h32 : (32 : UInt8) ∉ q.triggers) (hc : isPunct c = true → c ∉ q.triggers) :
    step ⟨l1 ++ q :: l2, esc⟩ b c i n sp st = step ⟨l1 ++ l2, esc⟩ b c i n sp st := by
  by_cases hp : isPunct c = true
  · unfold step
    simp only []
    have hpc : (if (isSpace c && c != 13 && c != 10) || (i == 0 && !isPunct c) then (32 : UInt8) else c) ∉ q.triggers := by
      split
      · exact h32
      · exact hc hp
    rw [table_insert_off l1 l2 q _ hpc]
  · by_cases hs : ((isSpace c && c != 13 && c != 10) || (i == 0 && !isPunct c)) = true
    · unfold step
      simp only [hs, if_true]
      rw [table_insert_off l1 l2 q 32 h32]
    · have hp' : isPunct c = false := by simpa using hp
      have hs' : ((isSpace c && c != 13 && c != 10) || (i == 0 && !isPunct c)) = false := by simpa using hs
      rw [hp'] at hs'
      simp only [Bool.not_false, Bool.and_true, Bool.or_eq_false_iff] at hs'
      unfold step
      simp [hp', hs'.1, hs'.2]

theorem scan_insert_off (l1 l2 : List Parser) (q : Parser) (esc : Bool) (b : Block)
    (h32 : (32 : UInt8) ∉ q.triggers) (cs : List UInt8) (hcs : ∀ c ∈ cs, isPunct c = true → c ∉ q.triggers)
    (i n sp : Nat) (st : St) :
    scan ⟨l1 ++ q :: l2, esc⟩ b cs i n sp st = scan ⟨l1 ++ l2, esc⟩ b cs i n sp st := by
  induction cs generalizing i n sp st with
  | nil => rfl
  | cons c cs ih =>
    unfold scan
    rw [step_insert_off l1 l2 q esc b c i n sp st h32 (hcs c (by simp))]
    split
    · rfl
    · split
      · rfl
      · exact ih (fun x hx => hcs x (by simp [hx])) _ _ _ _

theorem mem_slice {src : Bytes} {a z : Nat} {c : UInt8} (h : c ∈ slice src a z) : c ∈ src := by
  unfold slice at h
  exact List.mem_of_mem_drop (List.mem_of_mem_take h)

theorem pass_insert_off (l1 l2 : List Parser) (q : Parser) (esc : Bool) (b : Block)
    (h32 : (32 : UInt8) ∉ q.triggers) (hsrc : ∀ c ∈ b.src, isPunct c = true → c ∉ q.triggers) (st : St) :
    pass ⟨l1 ++ q :: l2, esc⟩ b st = pass ⟨l1 ++ l2, esc⟩ b st := by
  unfold pass
  cases hp : peekLine b st.rd with
  | none => rfl
  | panic => rfl
  | line line =>
    simp only []
    have hline : ∀ c ∈ line, c ∈ b.src := by
      intro c hc
      unfold peekLine at hp
      split at hp
      · split at hp
        · cases hp; exact mem_slice hc
        · cases hp
      · cases hp
    rw [scan_insert_off l1 l2 q esc b h32 (line.take (classify line).1)
      (fun c hc => hsrc c (hline c (List.mem_of_mem_take hc)))]

theorem loop_insert_off (l1 l2 : List Parser) (q : Parser) (esc : Bool) (b : Block)
    (h32 : (32 : UInt8) ∉ q.triggers) (hsrc : ∀ c ∈ b.src, isPunct c = true → c ∉ q.triggers) (fuel : Nat) (st : St) :
    loop ⟨l1 ++ q :: l2, esc⟩ b fuel st = loop ⟨l1 ++ l2, esc⟩ b fuel st := by
  induction fuel generalizing st with
  | zero => rfl
  | succ f ih =>
    unfold loop
    rw [pass_insert_off l1 l2 q esc b h32 hsrc st]
    split
    · rfl
    · rfl
    · exact ih _

/-- NEVER CONSULTED. If no PUNCTUATION byte of the source is a trigger byte of `q` (other bytes are never table
    indices) and `q` is not registered for ' ', the run with `q` inserted anywhere in the priority order EQUALS the
    run without it (children, reader, log, outcome). -/
theorem run_unused_punct (b : Block) (l1 l2 : List Parser) (q : Parser) (esc : Bool)
    (h32 : (32 : UInt8) ∉ q.triggers) (hsrc : ∀ c ∈ b.src, isPunct c = true → c ∉ q.triggers) :
    run ⟨l1 ++ q :: l2, esc⟩ b = run ⟨l1 ++ l2, esc⟩ b :=
  loop_insert_off l1 l2 q esc b h32 hsrc (fuelFor b) (initSt b)

theorem run_unused (b : Block) (l1 l2 : List Parser) (q : Parser) (esc : Bool)
    (h32 : (32 : UInt8) ∉ q.triggers) (hsrc : ∀ c ∈ b.src, c ∉ q.triggers) :
    run ⟨l1 ++ q :: l2, esc⟩ b = run ⟨l1 ++ l2, esc⟩ b :=
  run_unused_punct b l1 l2 q esc h32 (fun c hc _ => hsrc c hc)

/-! ### WithEscapedSpace without a parser for ' ' -/

theorem step_escSpace (ps : List Parser) (b : Block) (h : table ps 32 = []) (c : UInt8) (i n sp : Nat) (st : St) :
    step ⟨ps, true⟩ b c i n sp st = step ⟨ps, false⟩ b c i n sp st := by
  unfold step
  simp only []
  by_cases hs : (isSpace c && c != 13 && c != 10) = true
  · simp [hs, h]
  · simp [hs]

theorem scan_escSpace (ps : List Parser) (b : Block) (h : table ps 32 = []) (cs : List UInt8) (i n sp : Nat) (st : St) :
    scan ⟨ps, true⟩ b cs i n sp st = scan ⟨ps, false⟩ b cs i n sp st := by
  induction cs generalizing i n sp st with
  | nil => rfl
  | cons c cs ih =>
    unfold scan
    rw [step_escSpace ps b h]
    split
    · rfl
    · split
      · rfl
      · exact ih _ _ _ _

theorem loop_escSpace (ps : List Parser) (b : Block) (h : table ps 32 = []) (fuel : Nat) (st : St) :
    loop ⟨ps, true⟩ b fuel st = loop ⟨ps, false⟩ b fuel st := by
  induction fuel generalizing st with
  | zero => rfl
  | succ f ih =>
    unfold loop
    have : pass ⟨ps, true⟩ b st = pass ⟨ps, false⟩ b st := by
      unfold pass
      split
      · rfl
      · rfl
      · simp only [scan_escSpace ps b h]
    rw [this]
    split
    · rfl
    · rfl
    · exact ih _

/-- parser.WithEscapedSpace (CJK) changes nothing in the inline loop when no inline parser is registered for ' '
    (true of every built-in configuration without Linkify): the flag is read only in the trigger test of a
    space/tab, whose table entry is then empty. -/
theorem run_escSpace (ps : List Parser) (b : Block) (h : table ps 32 = []) :
    run ⟨ps, true⟩ b = run ⟨ps, false⟩ b := loop_escSpace ps b h (fuelFor b) (initSt b)

end GM.Proof.InlineLoopUnused
