/-
  GM.Proof.CMFrag7Inl — the inline phase on a paragraph of "good" lines stated positionally: for a paragraph whose
  last line ends the source WITHOUT a final line feed (`parseBlock_quietE`), and for a line-feed-terminated one
  (`parseBlock_quietP`). Core Lean only.
-/
import GM.Proof.CMFragInl
import GM.Proof.CMFragMain
import GM.Proof.CMFrag7Defs

namespace GM.Proof.CMFrag
open GM GM.Text GM.Inl

/-- the lines `ls` sit in `src` from offset `p` on, every one but the last with its line feed; nothing is asked of
    what follows the last line -/
def LinesAtE (src : Bytes) : Nat → List Bytes → Prop
  | _, [] => True
  | p, [l] => sub src p (p + l.length) = l ∧ p + l.length ≤ src.length
  | p, l :: l' :: rest =>
    sub src p (p + l.length + 1) = l ++ [10] ∧ p + l.length + 1 ≤ src.length ∧
      LinesAtE src (p + l.length + 1) (l' :: rest)

theorem linesAtE_of_paraAtE {src : Bytes} : ∀ (ls : List Bytes) (p : Nat), ParaAtE src p ls → LinesAtE src p ls
  | [], _, h => h.elim
  | [_], _, h => ⟨h.1.sub, h.1.le⟩
  | _ :: l' :: rest, _, h => ⟨h.1.sub, h.1.le, linesAtE_of_paraAtE (l' :: rest) _ h.2⟩

theorem linesAtE_of_paraAtLfE {src : Bytes} : ∀ (ls : List Bytes) (p : Nat), ParaAt src p ls → LinesAtE src p ls
  | [], _, _ => trivial
  | [l], p, h => ⟨sub_prefix src p l.length l 10 rfl h.1.sub, by have := h.1.le; omega⟩
  | _ :: l' :: rest, _, h => ⟨h.1.sub, h.1.le, linesAtE_of_paraAtLfE (l' :: rest) _ h.2⟩

theorem loop_quietE (env : Env) (henv : env.escapedSpace = false) (src : Bytes) (segs : List Segment) (L : Int)
    (nid : Nat) (bs : List Bottom) :
    ∀ (ls : List Bytes) (p : Nat) (done : List Segment) (ks : List Inl.Node) (fuel : Nat), ls ≠ [] →
      (∀ l ∈ ls, GoodLine l) → LinesAtE src p ls → segs = done ++ paraSegs p ls → L = (paraEnd p ls : Nat) →
      ls.length + 1 ≤ fuel →
      ∃ rd', lineLoop env fuel false
        { rd := rdAt src segs L done.length ((paraSegs p ls).headD default) p, kids := ks, nextId := nid, bottoms := bs } =
        .ok { rd := rd', kids := ks ++ paraKids p ls, nextId := nid, bottoms := bs }
  | [], _, _, _, _, h, _, _, _, _, _ => absurd rfl h
  | [l], p, done, ks, fuel, _, hg, hla, hsegs, hL, hf => by
    obtain ⟨l0, c, hl, hs, hb⟩ := good_concat (hg l (by simp))
    obtain ⟨hsub', hlen⟩ := hla
    obtain ⟨f, rfl⟩ : ∃ f, fuel = f + 2 := ⟨fuel - 2, by simp at hf; omega⟩
    have hL' : L = (p : Int) + l.length := by simp [hL, paraEnd]
    subst hL'
    have := last_step env henv src segs done.length p l l0 c ks nid bs f hl hs hb (hg l (by simp)).quiet hsub'
      hlen (by simp [hsegs, paraSegs])
    exact ⟨_, this⟩
  | l :: l' :: rest, p, done, ks, fuel, _, hg, hla, hsegs, hL, hf => by
    obtain ⟨l0, c, hl, hs, hb⟩ := good_concat (hg l (by simp))
    obtain ⟨hsub, hlen, hla'⟩ := hla
    obtain ⟨f, rfl⟩ : ∃ f, fuel = f + 1 := ⟨fuel - 1, by simp at hf; omega⟩
    have hpL : (p : Int) < L := by
      have := paraEnd_ge (l' :: rest) (p + l.length + 1)
      simp only [paraEnd] at hL
      omega
    have hsegs' : segs = (done ++ [{ start := (p : Int), stop := (p : Int) + l.length + 1 }]) ++
        paraSegs (p + l.length + 1) (l' :: rest) := by
      rw [hsegs]; simp [paraSegs]
    have hnext : segs[done.length + 1]? = some ((paraSegs (p + l.length + 1) (l' :: rest)).headD default) := by
      rw [hsegs']
      rw [List.getElem?_append_right (by simp)]
      simp only [List.length_append, List.length_cons, List.length_nil, Nat.zero_add, Nat.sub_self]
      cases rest <;> rfl
    have hstep := line_step env henv src segs L done.length p l l0 c _ ks nid bs f hl hs hb (hg l (by simp)).quiet
      hsub hlen hpL hnext
    obtain ⟨rd', ih⟩ := loop_quietE env henv src segs L nid bs (l' :: rest) (p + l.length + 1)
      (done ++ [{ start := (p : Int), stop := (p : Int) + l.length + 1 }])
      (ks ++ [.text { start := p, stop := (p : Int) + l.length } true false false]) f (by simp)
      (fun x hx => hg x (by simp at hx ⊢; right; exact hx)) hla' hsegs' (by rw [hL]; rfl) (by simp at hf ⊢; omega)
    refine ⟨rd', ?_⟩
    have e1 : (paraSegs p (l :: l' :: rest)).headD default = { start := (p : Int), stop := (p : Int) + l.length + 1 } := rfl
    rw [e1, hstep]
    have e2 : ((done ++ [({ start := (p : Int), stop := (p : Int) + l.length + 1 } : Segment)]).length : Int) = (done.length : Int) + 1 := by
      simp
    rw [e2] at ih
    have e3 : ((paraSegs (p + l.length + 1) (l' :: rest)).headD default).start = ((p + l.length + 1 : Nat) : Int) := by
      cases rest <;> rfl
    rw [e3, ih]
    simp [paraKids]

/-- the inline phase on good lines that lie at `p` (`LinesAtE`: nothing asked behind the last line) -/
theorem parseBlock_linesE (env : GM.Inl.Env) (henv : env.escapedSpace = false) (src : Bytes) (p : Nat)
    (ls : List Bytes) (hne : ls ≠ []) (hg : ∀ l ∈ ls, GoodLine l) (h : LinesAtE src p ls) :
    GM.Inl.parseBlock env src (paraSegs p ls) = .ok (paraKids p ls) := by
  have hfuel : ls.length + 1 ≤ blockFuel src (paraSegs p ls) := by
    unfold blockFuel
    rw [paraSegs_length]
    omega
  obtain ⟨rd', h⟩ := loop_quietE env henv src (paraSegs p ls)
    (paraEnd p ls : Nat) 0 [] ls p [] [] _ hne hg h rfl rfl hfuel
  unfold parseBlock
  simp only [bind, Except.bind, new_para _ ls p hne]
  have h' : lineLoop env (blockFuel src (paraSegs p ls)) false
      { rd := rdAt src (paraSegs p ls) (paraEnd p ls : Nat) 0 ((paraSegs p ls).headD default) p } =
      .ok { rd := rd', kids := paraKids p ls, nextId := 0, bottoms := [] } := by
    simpa using h
  rw [h']
  simp only [processDelimiters_text _ (paraKids_text ls p), closeLabelsL_text _ (paraKids_text ls p),
    pure, Except.pure]

theorem paraAtE_neE {src : Bytes} {p : Nat} {ls : List Bytes} (h : ParaAtE src p ls) : ls ≠ [] := by
  intro e; subst e; exact h

/-- a paragraph of good lines that ends the source without a final line feed -/
theorem parseBlock_quietE (env : GM.Inl.Env) (henv : env.escapedSpace = false) (src : Bytes) (p : Nat) (ls : List Bytes)
    (hg : ∀ l ∈ ls, GoodLine l) (h : ParaAtE src p ls) :
    GM.Inl.parseBlock env src (paraSegs p ls) = .ok (paraKids p ls) :=
  parseBlock_linesE env henv src p ls (paraAtE_neE h) hg (linesAtE_of_paraAtE ls p h)

/-- a line-feed-terminated paragraph of good lines, stated positionally -/
theorem parseBlock_quietP (env : GM.Inl.Env) (henv : env.escapedSpace = false) (src : Bytes) (p : Nat) (ls : List Bytes)
    (hne : ls ≠ []) (hg : ∀ l ∈ ls, GoodLine l) (h : ParaAt src p ls) (hp : p ≤ src.length) :
    GM.Inl.parseBlock env src (paraSegs p ls) = .ok (paraKids p ls) := by
  obtain ⟨pre, post, rfl, rfl⟩ := paraAt_decomp ls p h hp
  exact parseBlock_quiet env henv pre post ls hne hg

example : GM.Inl.parseBlock {} [120, 10, 97, 98, 10, 99, 100] (paraSegs 2 [[97, 98], [99, 100]]) =
    .ok [.text { start := 2, stop := 4 } true false false, .text { start := 5, stop := 7 } false false false] := by
  have hg : ∀ l ∈ [[97, 98], [99, 100]], GoodLine l := by
    intro l hl
    simp only [List.mem_cons, List.not_mem_nil, or_false] at hl
    rcases hl with rfl | rfl
    · exact ⟨by simp, by intro c h; simp at h; subst h; decide, by decide, by intro c h; simp at h; subst h; decide,
        by intro c h; simp at h; subst h; decide⟩
    · exact ⟨by simp, by intro c h; simp at h; subst h; decide, by decide, by intro c h; simp at h; subst h; decide,
        by intro c h; simp at h; subst h; decide⟩
  exact parseBlock_linesE {} rfl _ 2 [[97, 98], [99, 100]] (by simp) hg ⟨by decide, by decide, by decide, by decide⟩

end GM.Proof.CMFrag
