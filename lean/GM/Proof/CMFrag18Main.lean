/-
  GM.Proof.CMFrag18Main — stage 18: paragraphs whose lines contain URI autolinks; the phases composed.
-/
import GM.Proof.CMFragParas
import GM.Proof.CMFrag8Main
import GM.Proof.CMFrag18Inl
import GM.Proof.CMFragRender18
import GM.Proof.CMFragSpec18

namespace GM.Proof.CMFrag
open GM GM.Text GM.Blocks GM.Spec GM.Spec.CM GM.Spec.CMFrag

theorem letter_ne_lf18 : ∀ c : UInt8, GM.Spec.CM.isLetter c = true → c ≠ 10 := by
  exact GM.forall_uint8 _ (by decide +kernel)

theorem auto_ne_lf18 : ∀ c : UInt8, isAutoC18 c = true → c ≠ 10 := by
  exact GM.forall_uint8 _ (by decide +kernel)

theorem aatomSrc_noNl (a : AAtom) (h : AAtomOK a) : ∀ c ∈ aatomSrc a, c ≠ 10 := by
  cases a with
  | txt bs => exact quiet_no_nl bs 0 false (h.2.1 0)
  | auto s r =>
    intro c hc
    simp only [aatomSrc, List.mem_append, List.mem_cons, List.not_mem_nil, or_false] at hc
    rcases hc with (((rfl | hc) | rfl) | hc) | rfl
    · decide
    · exact letter_ne_lf18 c (h.1.2.2 c hc)
    · decide
    · exact auto_ne_lf18 c (h.2.2 c hc)
    · decide

theorem alineSrc_append (a b : List AAtom) : alineSrc (a ++ b) = alineSrc a ++ alineSrc b := by
  simp [alineSrc]

/-- a rich line is good for the block phase -/
theorem arichLine_blk {l : List AAtom} (h : ARichLine l) : BlkLine (alineSrc l) := by
  refine ⟨?_, ?_, ?_⟩
  · obtain ⟨bs, rest, e, hf⟩ := h.first
    have hok := h.ok (.txt bs) (by rw [e]; simp)
    cases bs with
    | nil => exact absurd rfl hok.1
    | cons c t =>
      exact ⟨c, t ++ alineSrc rest, by rw [e]; simp [alineSrc, aatomSrc], hf c rfl⟩
  · obtain ⟨init, bs, e, hl⟩ := h.last
    have hok := h.ok (.txt bs) (by rw [e]; simp)
    intro c hc
    have e2 : alineSrc l = alineSrc init ++ bs := by rw [e, alineSrc_append]; simp [alineSrc, aatomSrc]
    rw [e2, List.getLast?_append] at hc
    cases hb : bs.getLast? with
    | none => exact absurd (List.getLast?_eq_none_iff.mp hb) hok.1
    | some z =>
      rw [hb] at hc
      have hc' : z = c := by simpa using hc
      subst hc'
      exact (hl z hb).1
  · intro c hc
    simp only [alineSrc, List.mem_flatMap] at hc
    obtain ⟨a, ha, hca⟩ := hc
    exact aatomSrc_noNl a (h.ok a ha) c hca

/-- the paragraphs of a stage-18 document as byte lines with the extra blank lines in front -/
def itemsOfA (d : ADoc) : List (Nat × List Bytes) :=
  d.items.map fun it => (it.gap, (it.lines.map (·.map aatomOfS)).map alineSrc)

theorem spellAItems_raw : ∀ (first : Bool) (its : List AItem) (trail : Nat),
    spellAItems first its ++ GM.Spec.CMFrag.blanks trail =
      rawDoc6 (paraItems first (its.map fun it => (it.gap, (it.lines.map (·.map aatomOfS)).map alineSrc))) trail
  | _, [], _ => by simp [spellAItems, paraItems, rawDoc6, blanks_eq]
  | first, it :: rest, trail => by
    have ih := spellAItems_raw false rest trail
    have e : it.lines.flatMap (fun l => spellALine l ++ [10]) =
        paraBytes ((it.lines.map (·.map aatomOfS)).map alineSrc) := by
      simp [paraBytes, List.flatMap_map, alineSrc_aatomOfS18]
    simp only [spellAItems, List.map_cons, paraItems, rawDoc6, lines5, lines4, List.append_assoc, ih, e, blanks_eq]

theorem spellAD_raw (d : ADoc) : spellAD d = rawDoc6 (paraItems true (itemsOfA d)) d.trail :=
  spellAItems_raw true d.items d.trail

theorem afrag_items (d : ADoc) (h : AFrag d) : ∀ it ∈ d.items, aitemOKS it = true := by
  have := h; simp only [AFrag, afragB, List.all_eq_true] at this; exact this

theorem aitem_rich (it : AItem) (h : aitemOKS it = true) : ∀ l ∈ it.lines.map (·.map aatomOfS), ARichLine l := by
  intro l hl
  obtain ⟨r, hr, rfl⟩ := List.mem_map.mp hl
  exact arichLine_aatomOfS18 r ((aitemOKS_lines18 it h).2 r hr)

theorem itemsOfA_blk (d : ADoc) (h : AFrag d) : ∀ it ∈ itemsOfA d, it.2 ≠ [] ∧ ∀ l ∈ it.2, BlkLine l := by
  intro x hx
  obtain ⟨it, hit, rfl⟩ := List.mem_map.mp hx
  have hok := afrag_items d h it hit
  refine ⟨by simpa using (aitemOKS_lines18 it hok).1, ?_⟩
  intro l hl
  obtain ⟨y, hy, rfl⟩ := List.mem_map.mp hl
  exact arichLine_blk (aitem_rich it hok y hy)

theorem parasDT_A (env : GM.Inl.Env) (henv : env.escapedSpace = false) : ∀ (its : List AItem),
    (∀ it ∈ its, aitemOKS it = true) →
    ParasDT env (its.map fun it => (it.gap, (it.lines.map (·.map aatomOfS)).map alineSrc))
      ((its.map fun it => it.lines.map (·.map aatomOfS)).map arichNodes)
  | [], _ => trivial
  | it :: rest, h => by
    have hok := aitem_rich it (h it (by simp))
    have hne : it.lines.map (·.map aatomOfS) ≠ [] := by simpa using (aitemOKS_lines18 it (h it (by simp))).1
    exact ⟨⟨fun p => richKids18 p (it.lines.map (·.map aatomOfS)),
        fun src p hl => parseBlock_rich18 env henv src p _ hne hok hl,
        fun src p hl => inlineTrees_rich18 src p _ hok hl⟩,
      parasDT_A env henv rest (fun x hx => h x (by simp [hx]))⟩

/-- **the conformance theorem of the stage-18 fragment** -/
theorem fragment18_conforms (d : ADoc) (h : AFrag d) (uc : List (Nat × (Bool × Bool))) :
    GM.Convert.convertCore uc cmOpts (spellAD d) = .ok (expectedAD d) := by
  rw [spellAD_raw]
  refine convert_paras_gen uc (itemsOfA d) d.trail ((atomsOfA d).map arichNodes) (expectedAD d) (itemsOfA_blk d h)
    (fun env henv => parasDT_A env henv d.items (afrag_items d h)) ?_
  have := renderDoc_expectedAD18 d h
  simpa [List.map_map, Function.comp_def] using this

/-- the stage-18 document without its final line feed -/
theorem fragment18_conforms_nofinal (d : ADoc) (h : AFrag d) (hne : d.items ≠ []) (uc : List (Nat × (Bool × Bool))) :
    GM.Convert.convertCore uc cmOpts (rawDoc6E (paraItems true (itemsOfA d))) = .ok (expectedAD d) := by
  refine convert_paras_genE uc (itemsOfA d) (by simpa [itemsOfA] using hne) ((atomsOfA d).map arichNodes) (expectedAD d)
    (itemsOfA_blk d h) (fun env henv => parasDT_A env henv d.items (afrag_items d h)) ?_
  have := renderDoc_expectedAD18 d h
  simpa [List.map_map, Function.comp_def] using this

end GM.Proof.CMFrag
