/-
  GM.Proof.CMFragRender — the renderer half of the conformance proof for the fragment GM.Spec.CMFrag:
  * `renderDoc_paras(_any)`: the renderer model on Document[Paragraph[Text…]…] writes `parasHtml` and never panics;
  * `write_spelled`, `parasHtml_spelled`: on the spelled lines of a fragment document that is the prescribed HTML;
  * `paraBytes_spelled`: the source text of a paragraph;
  * `goodLine_of_lineOK`: the spelled lines are `GoodLine`s (the inline byte loop never consults a parser on them).
-/
import GM.Proof.CMFragDefs
import GM.Proof.CMSpec
namespace GM.Proof.CMFrag
open GM GM.Spec.CM GM.Spec.CMFrag

/-! ### R1: the renderer on a document of paragraphs of text lines -/

theorem rcfg_exts (o : GM.Convert.ROpts) : o.rcfg.exts = {} := rfl
theorem rcfg_escSpace (o : GM.Convert.ROpts) : o.rcfg.core.escSpace = false := rfl
theorem rcfg_ea (o : GM.Convert.ROpts) : o.rcfg.core.ea = 0 := rfl
theorem rcfg_hardWraps (o : GM.Convert.ROpts) : o.rcfg.core.hardWraps = o.hardWraps := by
  cases o with | mk u x h => cases h <;> rfl

theorem handled_text (e : Exts) (v : Bytes) (s h r c : Bool) : handled e (.text v s h r c) = true := rfl
theorem handled_para (e : Exts) : handled e .paragraph = true := rfl
theorem handled_doc (e : Exts) : handled e .document = true := rfl

/-- the renderer on one Text node of a paragraph line -/
theorem renderNode_text (rc : RCfg) (hes : rc.core.escSpace = false) (hhw : rc.core.hardWraps = false)
    (hea : rc.core.ea = 0) (ph : Bool) (next : Option Node) (l : Bytes) (soft : Bool) :
    renderNode rc ph next (.mk (.text l soft false false false) none []) =
      GM.write false l ++ (if soft then [10] else []) := by
  rw [renderNode]
  simp [enter, leave, handled_text, skipsChildren, renderNodes, hes, hhw, hea]

theorem renderNodes_textNodes (rc : RCfg) (hes : rc.core.escSpace = false) (hhw : rc.core.hardWraps = false)
    (hea : rc.core.ea = 0) (ph : Bool) (ls : List Bytes) :
    renderNodes rc ph (textNodes ls) = joinNl (ls.map (GM.write false)) := by
  induction ls with
  | nil => simp [textNodes, renderNodes, joinNl]
  | cons l rest ih =>
    cases rest with
    | nil => simp [textNodes, renderNodes, joinNl, renderNode_text rc hes hhw hea]
    | cons l' rest =>
      rw [textNodes, renderNodes, renderNode_text rc hes hhw hea, ih]
      simp [joinNl]

theorem renderNode_para (rc : RCfg) (hes : rc.core.escSpace = false) (hhw : rc.core.hardWraps = false)
    (hea : rc.core.ea = 0) (ph : Bool) (next : Option Node) (ls : List Bytes) :
    renderNode rc ph next (paraNode ls) =
      strBytes "<p>" ++ joinNl (ls.map (GM.write false)) ++ strBytes "</p>\n" := by
  rw [paraNode, renderNode]
  simp only [enter, leave, handled_para, skipsChildren, openTag, Kind.isTableHeader,
    renderNodes_textNodes rc hes hhw hea]
  have h1 : strBytes "<p>" = [60] ++ strBytes "p" ++ [62] := by decide +kernel
  rw [h1]; simp

theorem renderNodes_paras (rc : RCfg) (hes : rc.core.escSpace = false) (hhw : rc.core.hardWraps = false)
    (hea : rc.core.ea = 0) (ph : Bool) (ps : List (List Bytes)) :
    renderNodes rc ph (ps.map paraNode) = parasHtml ps := by
  induction ps with
  | nil => simp [renderNodes, parasHtml]
  | cons p rest ih =>
    rw [List.map_cons, renderNodes, renderNode_para rc hes hhw hea, ih]
    simp [parasHtml]

theorem render_docNode (rc : RCfg) (hes : rc.core.escSpace = false) (hhw : rc.core.hardWraps = false)
    (hea : rc.core.ea = 0) (ps : List (List Bytes)) :
    render rc (docNode ps) = parasHtml ps := by
  rw [render, docNode, renderNode]
  simp [enter, leave, handled_doc, skipsChildren, Kind.isTableHeader, renderNodes_paras rc hes hhw hea]

theorem nodePanic_text (rc : RCfg) (v : Bytes) (s h r c : Bool) (a : Option (List Attr)) (cs : List Node) :
    nodePanic rc (.text v s h r c) a cs = none := by
  simp [nodePanic]

theorem renderPanicsNodes_textNodes (rc : RCfg) (ls : List Bytes) : renderPanicsNodes rc (textNodes ls) = none := by
  induction ls with
  | nil => simp [textNodes, renderPanicsNodes]
  | cons l rest ih =>
    cases rest with
    | nil => simp [textNodes, renderPanicsNodes, renderPanicsNode, nodePanic]
    | cons l' rest =>
      rw [textNodes, renderPanicsNodes, ih]
      simp [renderPanicsNode, nodePanic, renderPanicsNodes]

theorem renderPanicsNodes_paras (rc : RCfg) (ps : List (List Bytes)) :
    renderPanicsNodes rc (ps.map paraNode) = none := by
  induction ps with
  | nil => simp [renderPanicsNodes]
  | cons p rest ih =>
    rw [List.map_cons, renderPanicsNodes, ih]
    simp [paraNode, renderPanicsNode, nodePanic, renderPanicsNodes_textNodes]

theorem renderPanics_docNode (rc : RCfg) (ps : List (List Bytes)) : renderPanics rc (docNode ps) = none := by
  simp [renderPanics, docNode, renderPanicsNode, nodePanic, renderPanicsNodes_paras]

theorem renderDoc_paras_any (o : GM.Convert.ROpts) (ho : o.hardWraps = false) (ps : List (List Bytes)) :
    GM.Convert.renderDoc o (docNode ps) = .ok (parasHtml ps) := by
  rw [GM.Convert.renderDoc, renderPanics_docNode,
    render_docNode o.rcfg (rcfg_escSpace o) (by rw [rcfg_hardWraps, ho]) (rcfg_ea o)]

theorem renderDoc_paras (ps : List (List Bytes)) :
    GM.Convert.renderDoc cmOpts (docNode ps) = .ok (parasHtml ps) :=
  renderDoc_paras_any cmOpts rfl ps

/-! ### R2, R3, R5: the spelled lines -/

theorem write_spelled (l : FLine) (hp : ∀ t ∈ l, printable t.c = true) :
    GM.write false (escSpell l) = escHtml (plain l) := by
  rw [GM.Proof.CMSpec.escSpell_decodes false l hp, GM.Proof.CMSpec.escHtml_eq_rawWrite]

theorem joinNl_eq (xs : List Bytes) : GM.Proof.CMFrag.joinNl xs = GM.Spec.CMFrag.joinNl xs := by
  induction xs with
  | nil => rfl
  | cons x rest ih =>
    cases rest with
    | nil => rfl
    | cons y rest => rw [GM.Proof.CMFrag.joinNl, GM.Spec.CMFrag.joinNl, ih]; simp

theorem map_write_spelled (ls : List FLine) (hp : ∀ l ∈ ls, ∀ t ∈ l, printable t.c = true) :
    (ls.map escSpell).map (GM.write false) = ls.map (fun l => escHtml (plain l)) := by
  rw [List.map_map]
  apply List.map_congr_left
  intro l hl
  exact write_spelled l (hp l hl)

theorem parasHtml_spelled (pss : List (List FLine))
    (hp : ∀ ls ∈ pss, ∀ l ∈ ls, ∀ t ∈ l, printable t.c = true) :
    parasHtml (pss.map (·.map escSpell)) = pss.flatMap (fun ls => expBlock (.para ls)) := by
  induction pss with
  | nil => rfl
  | cons ls rest ih =>
    have h1 := map_write_spelled ls (hp ls (by simp))
    have h2 := ih (fun x hx => hp x (by simp [hx]))
    simp only [parasHtml, List.map_cons, List.flatMap_cons] at h2 ⊢
    rw [h2, h1, joinNl_eq, expBlock]

theorem paraBytes_spelled (ls : List FLine) : paraBytes (ls.map escSpell) = spellBlock (.para ls) := by
  simp only [paraBytes, spellBlock, List.flatMap_map]
  rfl

/-! ### R4: the spelled lines are `GoodLine`s -/

/-- a byte on which the inline byte loop does nothing, whatever its index, when not escaped: no line feed, no
    backslash, no inline parser registered for it -/
def calmB (c : UInt8) : Bool := c != 10 && c != 92 && (GM.Inl.parsersFor c).isEmpty

theorem quiet_calm : ∀ c : UInt8, calmB c = true → ∀ (cs : Bytes) (i : Nat),
    quiet (c :: cs) i false = quiet cs (i + 1) false := by
  intro c hc cs i
  have h : ∀ c : UInt8, calmB c = true →
      c ≠ 10 ∧ c ≠ 92 ∧ (GM.Inl.parsersFor c).isEmpty = true ∧ (GM.Inl.parsersFor 32).isEmpty = true := by
    apply forall_uint8; decide +kernel
  obtain ⟨h10, h92, hp, h32⟩ := h c hc
  have hpc : (GM.Inl.parsersFor (GM.Inl.parserChar c i)).isEmpty = true := by
    simp only [GM.Inl.parserChar]
    split
    · exact h32
    · exact hp
  have e10 : (c != 10) = true := by simpa using h10
  have e92 : (c == 92) = false := by simpa using h92
  rw [quiet, hpc, e10, e92]
  simp

theorem quiet_calm_run (bs : Bytes) (h : ∀ b ∈ bs, calmB b = true) (rest : Bytes) (i : Nat) :
    quiet (bs ++ rest) i false = quiet rest (i + bs.length) false := by
  induction bs generalizing i with
  | nil => simp
  | cons b bs ih =>
    rw [List.cons_append, quiet_calm b (h b (by simp)), ih (fun x hx => h x (by simp [hx]))]
    simp; congr 1; omega

theorem quiet_escaped : ∀ c : UInt8, isPunct c = true → ∀ (cs : Bytes) (i : Nat),
    quiet (92 :: c :: cs) i false = quiet cs (i + 2) false := by
  intro c hc cs i
  have h : ∀ c : UInt8, isPunct c = true → c ≠ 10 ∧ (isSpace c) = false := by
    apply forall_uint8; decide +kernel
  obtain ⟨h10, hsp⟩ := h c hc
  have h92 : (GM.Inl.parsersFor (GM.Inl.parserChar 92 i)).isEmpty = true := by
    simp only [GM.Inl.parserChar]
    split <;> decide
  have e10 : (c != 10) = true := by simpa using h10
  rw [quiet, quiet, h92, e10]
  simp [GM.Inl.isTrigger, hsp]

/-- the two shapes of a character's spelling -/
def calmSpelling (bs : Bytes) : Bool :=
  bs.all calmB || (match bs with | [92, c] => isPunct c | _ => false)

theorem quiet_calmSpelling (bs : Bytes) (h : calmSpelling bs = true) (rest : Bytes) (i : Nat) :
    quiet (bs ++ rest) i false = quiet rest (i + bs.length) false := by
  unfold calmSpelling at h
  rcases Bool.or_eq_true_iff.mp h with h | h
  · exact quiet_calm_run bs (by simpa using h) rest i
  · split at h
    · rename_i c _; exact quiet_escaped c h rest i
    · cases h

theorem calm_lit : ∀ c : UInt8, charOK ⟨c, .lit⟩ = true → calmSpelling (spellChar ⟨c, .lit⟩) = true := by
  apply forall_uint8; decide +kernel
theorem calm_bs : ∀ c : UInt8, charOK ⟨c, .bs⟩ = true → calmSpelling (spellChar ⟨c, .bs⟩) = true := by
  apply forall_uint8; decide +kernel
theorem calm_named : ∀ c : UInt8, charOK ⟨c, .named⟩ = true → calmSpelling (spellChar ⟨c, .named⟩) = true := by
  apply forall_uint8; decide +kernel
theorem calm_numeric : ∀ c : UInt8, isNumeric c = true → calmB c = true := by
  apply forall_uint8; decide +kernel
theorem calm_hex : ∀ c : UInt8, isHex c = true → calmB c = true := by
  apply forall_uint8; decide +kernel

theorem calm_spellChar (t : TChar) (h : charOK t = true) : calmSpelling (spellChar t) = true := by
  obtain ⟨c, e⟩ := t
  cases e with
  | lit => exact calm_lit c h
  | bs => exact calm_bs c h
  | named => exact calm_named c h
  | dec pad =>
    unfold calmSpelling
    apply Bool.or_eq_true_iff.mpr; left
    simp only [spellChar, List.all_append, Bool.and_eq_true]
    refine ⟨⟨⟨by decide, ?_⟩, ?_⟩, by decide⟩
    · rw [List.all_eq_true]; exact GM.Proof.CMSpec.zeros_all calmB (by decide) _
    · rw [List.all_eq_true]; intro d hd
      exact calm_numeric d (List.all_eq_true.mp (GM.Proof.CMSpec.dec_num c) d hd)
  | hex pad upX upD =>
    unfold calmSpelling
    apply Bool.or_eq_true_iff.mpr; left
    simp only [spellChar, List.all_append, Bool.and_eq_true]
    refine ⟨⟨⟨by cases upX <;> decide, ?_⟩, ?_⟩, by decide⟩
    · rw [List.all_eq_true]; exact GM.Proof.CMSpec.zeros_all calmB (by decide) _
    · rw [List.all_eq_true]; intro d hd
      exact calm_hex d (List.all_eq_true.mp (GM.Proof.CMSpec.hex_hex c upD) d hd)

theorem quiet_escSpell (l : FLine) (h : ∀ t ∈ l, charOK t = true) (i : Nat) :
    quiet (escSpell l) i false = true := by
  induction l generalizing i with
  | nil => simp [escSpell, quiet]
  | cons t ts ih =>
    have := quiet_calmSpelling (spellChar t) (calm_spellChar t (h t (by simp))) (escSpell ts) i
    simp only [escSpell, List.flatMap_cons] at this ⊢
    rw [this]
    exact ih (fun x hx => h x (by simp [hx])) _

theorem spell_first : ∀ c : UInt8, ∀ e, firstOK ⟨c, e⟩ = true → spellChar ⟨c, e⟩ = [c] ∧ isLetter c = true := by
  intro c e h
  simp only [firstOK, Bool.and_eq_true] at h
  obtain ⟨h1, h2⟩ := h
  cases e <;> first | (cases h2; done) | skip
  revert c
  apply forall_uint8; decide +kernel

theorem spell_last : ∀ c : UInt8, ∀ e, lastOK ⟨c, e⟩ = true →
    spellChar ⟨c, e⟩ = [c] ∧ isSpace c = false ∧ c ≠ 92 := by
  intro c e h
  simp only [lastOK, Bool.and_eq_true] at h
  obtain ⟨h1, h2⟩ := h
  cases e <;> first | (cases h2; done) | skip
  revert c
  apply forall_uint8; decide +kernel

theorem lineOK_parts (l : FLine) (h : lineOK l = true) :
    ∃ a rest init z, l = a :: rest ∧ l = init ++ [z] ∧ firstOK a = true ∧ lastOK z = true ∧
      ∀ t ∈ l, charOK t = true := by
  unfold lineOK at h
  split at h
  · rename_i a z ha hz
    simp only [Bool.and_eq_true, List.all_eq_true] at h
    obtain ⟨⟨h1, h2⟩, h3⟩ := h
    cases l with
    | nil => cases ha
    | cons a' rest =>
      simp only [List.head?_cons, Option.some.injEq] at ha
      subst ha
      obtain ⟨ys, hys⟩ := List.getLast?_eq_some_iff.mp hz
      exact ⟨a', rest, ys, z, rfl, hys, h1, h2, h3⟩
  · cases h

theorem goodLine_of_lineOK (l : FLine) (h : lineOK l = true) : GoodLine (escSpell l) := by
  obtain ⟨a, rest, init, z, hl, hl', hf, hz, hall⟩ := lineOK_parts l h
  obtain ⟨ac, ae⟩ := a
  obtain ⟨zc, ze⟩ := z
  obtain ⟨sa, la⟩ := spell_first ac ae hf
  obtain ⟨sz, nsz, nbz⟩ := spell_last zc ze hz
  have e1 : escSpell l = ac :: escSpell rest := by
    rw [hl]; simp [escSpell, sa]
  have e2 : escSpell l = escSpell init ++ [zc] := by
    rw [hl']; simp [escSpell, sz]
  refine ⟨?_, ?_, quiet_escSpell l hall 0, ?_, ?_⟩
  · rw [e1]; simp
  · intro c hc; rw [e1] at hc; simp at hc; subst hc; exact la
  · intro c hc; rw [e2] at hc; simp at hc; subst hc; exact nsz
  · intro c hc; rw [e2] at hc; simp at hc; subst hc; exact nbz

end GM.Proof.CMFrag
