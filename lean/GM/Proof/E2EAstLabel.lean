/-
  GM.Proof.E2EAstLabel — clause (a) of C05 ("the result is a tree: sibling links both ways, ChildCount, parent links, no
  node twice") for ANY tree that is built as nested lists and then numbered: `relabel` fills the identity / link fields
  of a position dump (`GM.Spec.PNode`, the format of the harness dumper `DumpPositions`) from the nesting itself —
  id = preorder number, `parent` = the id of the node it hangs below, `fwd` = `bwd` = the ids of the children in order,
  `count` = their number. For such a dump the five link clauses of `Spec.nodeClause` and `node-occurs-twice` of
  `Spec.wfAst` hold BY CONSTRUCTION, and `wfAst` reduces to the clauses that speak about kinds, places, levels and
  segments (`SemNode`), which do not look at the identity fields.

  (The model `GM.Convert` builds the parsed document as nested lists — `Blocks.Tree` read off the node store, inline
  children as `List Inl.Node` — so clause (a) cannot fail for it; that the REAL parser's intrusive doubly linked lists
  agree with the nested-list view is C13 / C05's `parser_traces_refine`.)
-/
import GM.Spec.AstWF
import GM.Proof.RenderWF.Grammar

namespace GM.E2E
open GM GM.Spec

mutual
def psize : PNode → Nat
  | .mk _ cs => 1 + psizeL cs
def psizeL : List PNode → Nat
  | [] => 0
  | c :: r => psize c + psizeL r
end

mutual
/-- number the nodes in preorder from `next` on and fill the link fields; `par` = the id reported as `Parent()` -/
def relabel (next : Nat) (par : Int) : PNode → PNode
  | .mk i cs =>
    .mk { i with id := next, parent := par, count := cs.length, hasChildren := !cs.isEmpty,
                 fwd := (relabelL (next + 1) next cs).map (·.info.id),
                 bwd := (relabelL (next + 1) next cs).map (·.info.id) }
      (relabelL (next + 1) next cs)
def relabelL (next : Nat) (par : Nat) : List PNode → List PNode
  | [] => []
  | c :: r => relabel next par c :: relabelL (next + psize c) par r
end

theorem relabel_info (next : Nat) (par : Int) (i : PInfo) (cs : List PNode) :
    (relabel next par (.mk i cs)).info =
      { i with id := next, parent := par, count := cs.length, hasChildren := !cs.isEmpty,
               fwd := (relabelL (next + 1) next cs).map (·.info.id),
               bwd := (relabelL (next + 1) next cs).map (·.info.id) } := by
  simp [relabel, PNode.info]

theorem relabelL_length (next par : Nat) : ∀ cs, (relabelL next par cs).length = cs.length
  | [] => by simp [relabelL]
  | c :: r => by simp [relabelL, relabelL_length (next + psize c) par r]

theorem relabelL_parent (par : Nat) : ∀ (next : Nat) (cs : List PNode), ∀ c ∈ relabelL next par cs, c.info.parent = (par : Int)
  | _, [], c, h => by simp [relabelL] at h
  | next, d :: r, c, h => by
    simp only [relabelL, List.mem_cons] at h
    rcases h with rfl | h
    · cases d with
      | mk i cs => rw [relabel_info]
    · exact relabelL_parent par _ r c h

mutual
theorem allIds_relabel (next : Nat) (par : Int) : ∀ t, allIds (relabel next par t) = List.range' next (psize t)
  | .mk i cs => by
    simp only [relabel, allIds, psize, allIdsL_relabelL (next + 1) next cs]
    rw [Nat.add_comm 1, List.range'_succ]
theorem allIdsL_relabelL (next par : Nat) : ∀ cs, allIdsL (relabelL next par cs) = List.range' next (psizeL cs)
  | [] => by simp [relabelL, allIdsL, psizeL]
  | c :: r => by
    simp only [relabelL, allIdsL, psizeL, allIds_relabel next par c, allIdsL_relabelL (next + psize c) par r]
    rw [List.range'_append_1]
end

theorem allIds_nodup (next : Nat) (par : Int) (t : PNode) :
    ((allIds (relabel next par t)).eraseDups.length != (allIds (relabel next par t)).length) = false := by
  rw [allIds_relabel, GM.Proof.RenderWF.eraseDups_of_nodup _ (List.nodup_range' (step := 1) (by decide))]
  simp

/-! ### the clauses that do not look at the identity fields -/

mutual
theorem inlineSegs_relabel (next : Nat) (par : Int) : ∀ t, inlineSegs (relabel next par t) = inlineSegs t
  | .mk i cs => by
    simp only [relabel, inlineSegs, inlineSegsL_relabelL (next + 1) next cs]
theorem inlineSegsL_relabelL (next par : Nat) : ∀ cs, inlineSegsL (relabelL next par cs) = inlineSegsL cs
  | [] => by simp [relabelL]
  | c :: r => by
    simp only [relabelL, inlineSegsL, inlineSegs_relabel next par c, inlineSegsL_relabelL (next + psize c) par r]
end

/-- the clauses of `Spec.nodeClause` behind the five link clauses, for a node with info `i`, children `cs`, below a node
    of kind / node type `pk` (`none` = root), `inLink` = inside a Link -/
structure SemNode (len : Nat) (pk : Option (String × NType)) (inLink : Bool) (i : PInfo) (cs : List PNode) : Prop where
  pub : publicKinds.contains i.kind = true
  root : pk = none → i.kind = "Document"
  blockBelowInline : ∀ p, pk = some p → (i.ntype == NType.block && p.2 == NType.inline) = false
  inlineBelowDoc : ∀ p, pk = some p → (i.ntype == NType.inline && p.2 == NType.document) = false
  itemOutside : (match pk with | some p => (i.kind == "ListItem" && p.1 != "List") | none => i.kind == "ListItem") = false
  listChild : ∀ p, pk = some p → (p.1 == "List" && i.kind != "ListItem") = false
  codeSpan : ∀ p, pk = some p → (p.1 == "CodeSpan" && i.kind != "Text") = false
  heading : (i.kind == "Heading" && !(decide (1 ≤ i.level) && decide (i.level ≤ 6))) = false
  emphasis : (i.kind == "Emphasis" && !(decide (1 ≤ i.level) && decide (i.level ≤ 2))) = false
  link : (i.kind == "Link" && inLink) = false
  segs : (!i.segs.all (segOK len) || !i.xsegs.all (segOK len)) = false
  lines : (i.isLines && !linesIncreasing 0 i.segs) = false
  inl : (i.isLines && !i.segs.isEmpty && !rawBlockKinds.contains i.kind) = true →
    ((inlineSegsL cs).filter (segOK len)).all (fun s =>
        decide ((i.segs.head?.map (fun (s : Seg) => s.start)).getD 0 ≤ s.start) &&
        decide (s.stop ≤ (i.segs.getLast?.map (fun (s : Seg) => s.stop)).getD 0)) = true ∧
    linesIncreasing 0 ((inlineSegsL cs).filter (segOK len)) = true

mutual
/-- `SemNode` everywhere in the tree -/
def semWf (len : Nat) (pk : Option (String × NType)) (inLink : Bool) : PNode → Prop
  | .mk i cs => SemNode len pk inLink i cs ∧ semWfL len (i.kind, i.ntype) (inLink || i.kind == "Link") cs
def semWfL (len : Nat) (pk : String × NType) (inLink : Bool) : List PNode → Prop
  | [] => True
  | c :: r => semWf len (some pk) inLink c ∧ semWfL len pk inLink r
end

/-- for a relabelled node the clause function answers `none` as soon as the identity-free clauses hold -/
theorem nodeClause_relabel (len : Nat) (parent : Option PInfo) (inLink : Bool) (next : Nat) (par : Int) (i : PInfo)
    (cs : List PNode) (hroot : parent = none → par = -1)
    (h : SemNode len (parent.map fun p => (p.kind, p.ntype)) inLink i cs) :
    nodeClause len parent inLink (relabel next par (.mk i cs)).info (relabelL (next + 1) next cs) = none := by
  rw [relabel_info]
  have hpar : (relabelL (next + 1) next cs).any (fun c => c.info.parent != ((next : Nat) : Int)) = false := by
    rw [List.any_eq_false]
    intro c hc
    simp [relabelL_parent next _ cs c hc]
  have hlen : (List.map (fun x => x.info.id) (relabelL (next + 1) next cs)).length = cs.length := by
    simp [relabelL_length]
  have hemp : (List.map (fun x => x.info.id) (relabelL (next + 1) next cs)).isEmpty = cs.isEmpty := by
    cases cs <;> simp [relabelL]
  unfold nodeClause
  simp only [bne_self_eq_false, Bool.false_eq_true, if_false, hlen, hemp, hpar, h.pub, Bool.not_true, h.heading,
    h.emphasis, h.link, h.segs, h.lines, inlineSegsL_relabelL]
  cases parent with
  | none =>
    have h1 : (i.kind != "Document") = false := by rw [h.root rfl]; rfl
    have h5 := h.itemOutside
    simp only [Option.map] at h5
    simp only [h1, hroot rfl, h5, bne_self_eq_false, Bool.or_self, Bool.false_eq_true, if_false]
    split
    · rename_i hc
      have := h.inl hc
      simp only [this.1, this.2, Bool.not_true, Bool.false_eq_true, if_false]
    · rfl
  | some p =>
    have h3 := h.blockBelowInline _ rfl
    have h4 := h.inlineBelowDoc _ rfl
    have h5 := h.itemOutside
    have h6 := h.listChild _ rfl
    have h7 := h.codeSpan _ rfl
    simp only [Option.map] at h5
    simp only at h3 h4 h6 h7
    simp only [h3, h4, h5, h6, h7, Bool.false_eq_true, if_false]
    split
    · rename_i hc
      have := h.inl hc
      simp only [this.1, this.2, Bool.not_true, Bool.false_eq_true, if_false]
    · rfl

mutual
theorem wfNode_relabel (len : Nat) (parent : Option PInfo) (inLink : Bool) (next : Nat) (par : Int)
    (hroot : parent = none → par = -1) : ∀ t, semWf len (parent.map fun p => (p.kind, p.ntype)) inLink t →
    wfNode len parent inLink (relabel next par t) = none
  | .mk i cs, h => by
    simp only [semWf] at h
    have h1 := nodeClause_relabel len parent inLink next par i cs hroot h.1
    rw [relabel_info] at h1
    simp only [relabel, wfNode, h1]
    exact wfNodes_relabelL len _ _ (next + 1) next cs h.2
theorem wfNodes_relabelL (len : Nat) (parent : PInfo) (inLink : Bool) (next par : Nat) : ∀ cs,
    semWfL len (parent.kind, parent.ntype) inLink cs → wfNodes len parent inLink (relabelL next par cs) = none
  | [], _ => by simp [relabelL, wfNodes]
  | c :: r, h => by
    simp only [semWfL] at h
    have h1 := wfNode_relabel len (some parent) inLink next par (fun e => by cases e) c h.1
    simp only [relabelL, wfNodes, h1]
    exact wfNodes_relabelL len parent inLink (next + psize c) par r h.2
end

/-- **C05 for a numbered nested-list tree**: `wfAst` answers "well formed" as soon as the identity-free clauses hold -/
theorem wfAst_relabel (len : Nat) (t : PNode) (h : semWf len none false t) : wfAst len (relabel 0 (-1) t) = none := by
  unfold wfAst
  rw [allIds_nodup]
  simp only [Bool.false_eq_true, if_false]
  exact wfNode_relabel len none false 0 (-1) (fun _ => rfl) t h

end GM.E2E
