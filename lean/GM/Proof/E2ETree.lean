/-
  GM.Proof.E2ETree — `Spec.Inv` (the invariant under which the safe-mode theorems of C03 are stated) holds of the
  tree `GM.Convert.docTree` hands to the renderer model, for EVERY source:

    * block nodes: kinds Document / Paragraph / TextBlock / ThematicBreak / Blockquote / Heading / CodeBlock /
      FencedCodeBlock / HTMLBlock / List / ListItem only, no attributes (the default configuration has no attribute
      parser), a Heading's level is 1..6 (`BlockStoreOK` = `GM.E2E.HeadOK`, proved of every store the block phase
      returns in GM.Proof.E2EKeeps);
    * inline nodes: from the shape theorem of the inline phase (`GM.Proof.Inlines.parseBlock_wf`: no bookkeeping node,
      CodeSpan children are Text, emphasis levels 1..2) — kinds Text / CodeSpan / Emphasis / Link / Image / AutoLink /
      RawHTML, no attributes; no String node, no table node anywhere.
-/
import GM.Proof.E2EKeeps
import GM.Proof.Inlines
import GM.Model.Convert
import GM.Spec.RenderInv
import GM.Proof.RenderWF.Main

namespace GM.E2E
open GM GM.Text GM.Convert GM.Spec GM.Proof.RenderWF

theorem nodesInv_nil (rc : RCfg) (ctx : Spec.Ctx) : nodesInv rc ctx [] = true := rfl

/-- a node without attributes -/
theorem nodeInv_none (rc : RCfg) (ctx : Spec.Ctx) (k : GM.Kind) (cs : List GM.Node) :
    nodeInv rc ctx (.mk k none cs) = (kindInv rc ctx k none cs && nodesInv rc (childCtx k) cs) := by
  rw [nodeInv_mk]; simp [attrsInv, noClash]

theorem exc_bind_ok {ε α β : Type} {x : Except ε α} {f : α → Except ε β} {b : β}
    (h : (x >>= f) = .ok b) : ∃ a, x = .ok a ∧ f a = .ok b := by
  cases x with
  | error e => simp [bind, Except.bind] at h
  | ok a => exact ⟨a, rfl, h⟩

theorem liftErr_ok {α} {f : Panic → Err} {x : Except Panic α} {a : α} (h : liftErr f x = .ok a) : x = .ok a := by
  cases x with
  | error e => simp [liftErr] at h
  | ok v => simp only [liftErr, Except.ok.injEq] at h; rw [h]

theorem nodesInv_append (rc : RCfg) (ctx : Spec.Ctx) : ∀ (a b : List GM.Node),
    nodesInv rc ctx (a ++ b) = (nodesInv rc ctx a && nodesInv rc ctx b)
  | [], b => by simp [nodesInv_nil]
  | x :: a, b => by simp only [List.cons_append, nodesInv_cons, nodesInv_append rc ctx a b, Bool.and_assoc]

/-! ### inline nodes -/

/-- the children of a code span: Text nodes -/
theorem inlineTrees_text (rc : RCfg) (src : Bytes) : ∀ (ks : List GM.Inl.Node),
    ks.all GM.Proof.Inlines.isText = true → ∀ ts, inlineTrees src ks = .ok ts →
    codeSpanChildrenText ts = true ∧ nodesInv rc .any ts = true
  | [], _, ts, h => by
    unfold inlineTrees at h; cases h; simp [codeSpanChildrenText, nodesInv_nil]
  | k :: rest, ha, ts, h => by
    simp only [List.all_cons, Bool.and_eq_true] at ha
    unfold inlineTrees at h
    obtain ⟨t, ht, h⟩ := exc_bind_ok h
    obtain ⟨ts', hts, h⟩ := exc_bind_ok h
    cases h
    have ih := inlineTrees_text rc src rest ha.2 ts' hts
    cases k <;> simp [GM.Proof.Inlines.isText] at ha
    unfold inlineTree at ht
    obtain ⟨v, _, ht⟩ := exc_bind_ok ht
    cases ht
    simp [codeSpanChildrenText, nodesInv_cons, nodesInv_nil, nodeInv_none, kindInv, childCtx, Kind.isText, Node.kind, ih.1, ih.2]

mutual
theorem inlineTree_inv (rc : RCfg) (src : Bytes) : ∀ (n : GM.Inl.Node), GM.Proof.Inlines.wf false n = true →
    ∀ t, inlineTree src n = .ok t → nodeInv rc .any t = true
  | .text .., _, t, h => by
    unfold inlineTree at h
    obtain ⟨v, _, h⟩ := exc_bind_ok h
    cases h
    simp [nodeInv_none, kindInv, childCtx, nodesInv_nil]
  | .codeSpan ks, hw, t, h => by
    simp only [GM.Proof.Inlines.wf] at hw
    unfold inlineTree at h
    obtain ⟨ts, hts, h⟩ := exc_bind_ok h
    cases h
    have := inlineTrees_text rc src ks hw ts hts
    simp [nodeInv_none, kindInv, childCtx, this.1, this.2]
  | .emphasis _ ks, hw, t, h => by
    simp only [GM.Proof.Inlines.wf, Bool.and_eq_true] at hw
    unfold inlineTree at h
    obtain ⟨ts, hts, h⟩ := exc_bind_ok h
    cases h
    have := inlineTrees_inv rc src ks hw.2 ts hts
    simp [nodeInv_none, kindInv, childCtx, this]
  | .link im d ti ks, hw, t, h => by
    simp only [GM.Proof.Inlines.wf, Bool.and_eq_true] at hw
    unfold inlineTree at h
    obtain ⟨ts, hts, h⟩ := exc_bind_ok h
    cases h
    have := inlineTrees_inv rc src ks hw.1 ts hts
    cases im <;> cases ti <;> simp [nodeInv_none, kindInv, childCtx, this]
  | .autoLink .., _, t, h => by
    unfold inlineTree at h
    obtain ⟨v, _, h⟩ := exc_bind_ok h
    cases h
    simp [nodeInv_none, kindInv, childCtx, nodesInv_nil]
  | .rawHTML .., _, t, h => by
    unfold inlineTree at h
    obtain ⟨v, _, h⟩ := exc_bind_ok h
    cases h
    simp [nodeInv_none, kindInv, childCtx, nodesInv_nil]
  | .delim .., hw, _, _ => by simp [GM.Proof.Inlines.wf] at hw
  | .label .., hw, _, _ => by simp [GM.Proof.Inlines.wf] at hw
theorem inlineTrees_inv (rc : RCfg) (src : Bytes) : ∀ (ks : List GM.Inl.Node), GM.Proof.Inlines.wfL false ks = true →
    ∀ ts, inlineTrees src ks = .ok ts → nodesInv rc .any ts = true
  | [], _, ts, h => by unfold inlineTrees at h; cases h; simp [nodesInv_nil]
  | k :: rest, hw, ts, h => by
    simp only [GM.Proof.Inlines.wfL, Bool.and_eq_true] at hw
    unfold inlineTrees at h
    obtain ⟨t, ht, h⟩ := exc_bind_ok h
    obtain ⟨ts', hts, h⟩ := exc_bind_ok h
    cases h
    simp [nodesInv_cons, inlineTree_inv rc src k hw.1 t ht, inlineTrees_inv rc src rest hw.2 ts' hts]
end

/-- what `parseBlock(blockReader, node, pc)` appends to a block is well-shaped -/
theorem inlinePhase_wf {guard : Bool} {env : GM.Inl.Env} {src : Bytes} {n : GM.Blocks.Node} {kids : List GM.Inl.Node}
    (h : inlinePhase guard env src n = .ok kids) : GM.Proof.Inlines.wfL false kids = true := by
  unfold inlinePhase at h
  split at h
  · cases h; rfl
  · split at h
    · cases h; rfl
    · split at h
      · cases h
      · exact GM.Proof.Inlines.parseBlock_wf (liftErr_ok h)

/-! ### block nodes -/

/-- the kinds `blockKind` answers, with the kind-specific clause of `Spec.nodeInv` -/
def blockKindOK : GM.Kind → Bool
  | .document | .paragraph | .textBlock | .thematicBreak | .blockquote | .listItem => true
  | .heading level => 1 ≤ level && level ≤ 6
  | .codeBlock _ | .fencedCodeBlock _ _ | .htmlBlock _ _ | .list _ _ => true
  | _ => false

theorem nodeInv_block (rc : RCfg) (k : GM.Kind) (cs : List GM.Node) (hk : blockKindOK k = true)
    (hc : nodesInv rc .any cs = true) : nodeInv rc .any (.mk k none cs) = true := by
  cases k <;> simp [blockKindOK] at hk <;> simp [nodeInv_none, kindInv, childCtx, hc]
  exact hk

theorem blockKind_ok {src : Bytes} {n : GM.Blocks.Node} {k : GM.Kind} (hn : HeadP n)
    (h : blockKind src n = .ok k) : blockKindOK k = true := by
  unfold blockKind at h
  split at h
  all_goals first
    | (cases h; rfl)
    | skip
  · rename_i hk
    cases h
    have := hn hk
    simp only [blockKindOK, Bool.and_eq_true, decide_eq_true_eq]
    omega
  · obtain ⟨v, _, h⟩ := exc_bind_ok h
    cases h; rfl
  · simp only at h
    split at h
    · obtain ⟨v, _, h⟩ := exc_bind_ok h
      obtain ⟨w, _, h⟩ := exc_bind_ok h
      obtain ⟨u, _, h⟩ := exc_bind_ok h
      cases h; rfl
    · obtain ⟨w, _, h⟩ := exc_bind_ok h
      obtain ⟨u, _, h⟩ := exc_bind_ok h
      cases h; rfl
  · simp only at h
    split at h
    · obtain ⟨v, _, h⟩ := exc_bind_ok h
      obtain ⟨w, _, h⟩ := exc_bind_ok h
      obtain ⟨u, _, h⟩ := exc_bind_ok h
      cases h; rfl
    · obtain ⟨w, _, h⟩ := exc_bind_ok h
      obtain ⟨u, _, h⟩ := exc_bind_ok h
      cases h; rfl

mutual
/-- every node of the block tree satisfies `P` -/
def treeAll (P : GM.Blocks.Node → Prop) : GM.Blocks.Tree → Prop
  | .node n cs => P n ∧ treesAll P cs
def treesAll (P : GM.Blocks.Node → Prop) : List GM.Blocks.Tree → Prop
  | [] => True
  | t :: rest => treeAll P t ∧ treesAll P rest
end

theorem treesAll_map {P : GM.Blocks.Node → Prop} (f : Nat → GM.Blocks.Tree) (hf : ∀ i, treeAll P (f i)) :
    ∀ l : List Nat, treesAll P (l.map f)
  | [] => by simp [treesAll]
  | i :: rest => by simp only [List.map, treesAll]; exact ⟨hf i, treesAll_map f hf rest⟩

/-- the tree read out of a store whose every node (and the default node) satisfies `P` -/
theorem treeOf_all {P : GM.Blocks.Node → Prop} (nodes : List GM.Blocks.Node) (h : ∀ i, P (nodes.getD i default)) :
    ∀ fuel id, treeAll P (GM.Blocks.treeOf nodes fuel id)
  | 0, id => by simp only [GM.Blocks.treeOf, treeAll, treesAll]; exact ⟨h id, trivial⟩
  | fuel + 1, id => by
    simp only [GM.Blocks.treeOf, treeAll]
    exact ⟨h id, treesAll_map _ (treeOf_all nodes h fuel) _⟩

theorem headOK_getD {s : GM.Blocks.St} (h : HeadOK s) (i : Nat) : HeadP (s.nodes.getD i default) := by
  by_cases hlt : i < s.nodes.length
  · have : s.nodes.getD i default = s.nodes[i] := by simp [List.getD, hlt]
    rw [this]; exact h _ (List.getElem_mem hlt)
  · have : s.nodes.getD i default = default := by
      simp [List.getD, List.getElem?_eq_none (Nat.le_of_not_lt hlt)]
    rw [this]; exact headP_default

mutual
theorem docTree_inv (rc : RCfg) (guard : Bool) (env : GM.Inl.Env) (src : Bytes) : ∀ (t : GM.Blocks.Tree),
    treeAll HeadP t → ∀ x, docTree guard env src t = .ok x → nodeInv rc .any x = true
  | .node n cs, ha, x, h => by
    simp only [treeAll] at ha
    unfold docTree at h
    obtain ⟨bs, hbs, h⟩ := exc_bind_ok h
    obtain ⟨kids, hkids, h⟩ := exc_bind_ok h
    obtain ⟨is, his, h⟩ := exc_bind_ok h
    obtain ⟨k, hk, h⟩ := exc_bind_ok h
    cases h
    have h1 := docTrees_inv rc guard env src cs ha.2 bs hbs
    have h2 := inlineTrees_inv rc src kids (inlinePhase_wf hkids) is (liftErr_ok his)
    exact nodeInv_block rc k _ (blockKind_ok ha.1 (liftErr_ok hk)) (by rw [nodesInv_append, h1, h2]; rfl)
theorem docTrees_inv (rc : RCfg) (guard : Bool) (env : GM.Inl.Env) (src : Bytes) : ∀ (ts : List GM.Blocks.Tree),
    treesAll HeadP ts → ∀ xs, docTrees guard env src ts = .ok xs → nodesInv rc .any xs = true
  | [], _, xs, h => by unfold docTrees at h; cases h; simp [nodesInv_nil]
  | t :: rest, ha, xs, h => by
    simp only [treesAll] at ha
    unfold docTrees at h
    obtain ⟨x, hx, h⟩ := exc_bind_ok h
    obtain ⟨xs', hxs, h⟩ := exc_bind_ok h
    cases h
    simp [nodesInv_cons, docTree_inv rc guard env src t ha.1 x hx, docTrees_inv rc guard env src rest ha.2 xs' hxs]
end

/-! ### the composition -/

/-- the default transformer list keeps the store invariant -/
theorem paragraphTransformers_keep {I : GM.Blocks.St → Prop} [Frame I] (guard : Bool) :
    PTsKeep I (paragraphTransformers guard) := by
  intro pt hpt n
  simp only [paragraphTransformers, List.mem_singleton] at hpt
  subst hpt
  split
  · exact guardedTransform_keeps n
  · exact transform_keeps n

/-- **`BlockStoreOK` of every store the block phase returns** (every source, guarded or not) -/
theorem blockPhase_headOK (guard : Bool) (src : Bytes) (st : GM.Blocks.St) (h : blockPhase guard src = .ok st) :
    HeadOK st :=
  runT_headOK (paragraphTransformers_keep guard) src st h

/-- node 0 of every store the block phase returns is the Document -/
theorem blockPhase_rootDoc (guard : Bool) (src : Bytes) (st : GM.Blocks.St) (h : blockPhase guard src = .ok st) :
    RootDoc st :=
  runT_rootDoc (paragraphTransformers_keep guard) src st h

/-- from `BlockStoreOK` of the store to `nodeInv` of the rendered tree -/
theorem docTree_inv_of_store (rc : RCfg) (guard : Bool) (env : GM.Inl.Env) (src : Bytes) (st : GM.Blocks.St)
    (hs : HeadOK st) (fuel id : Nat) (x : GM.Node)
    (h : docTree guard env src (GM.Blocks.treeOf st.nodes fuel id) = .ok x) : nodeInv rc .any x = true :=
  docTree_inv rc guard env src _ (treeOf_all st.nodes (headOK_getD hs) fuel id) x h

/-- the footnote strings of the default renderer state are inert -/
theorem footCfgInv_mkRCfg (o : Opts) (e : Exts) : footCfgInv (mkRCfg o e).footc = true := by
  have : (mkRCfg o e).footc = {} := rfl
  rw [this]; decide +kernel

/-- **`Spec.Inv` of parser output**: whatever tree `parseDoc` answers satisfies the invariant of C03, for every
    renderer state built by `mkRCfg` -/
theorem parseDoc_inv (o : Opts) (e : Exts) (guard : Bool) (uc : List (Nat × (Bool × Bool))) (src : Bytes) (t : GM.Node)
    (h : parseDoc guard uc src = .ok t) : Spec.Inv (mkRCfg o e) t = true := by
  unfold parseDoc at h
  obtain ⟨st, hst, h⟩ := exc_bind_ok h
  have hs := blockPhase_headOK guard src st (liftErr_ok hst)
  simp only [Spec.Inv, Bool.and_eq_true]
  exact ⟨docTree_inv_of_store _ guard _ src st hs _ _ t h, footCfgInv_mkRCfg o e⟩

end GM.E2E
