/-
  GM.Proof.ShiftSimWDefs — contracts for the variant of the shift simulation that does NOT assume that the source ends
  with a line feed. On a last line without `\n` fencedCodeBlockParser.Continue may call `Advance(-1)` (fcode_block.go:104);
  then only the limbo relation holds afterwards. That is harmless because a leaf block is always the LAST open block
  (`Leafy`, an invariant of run A taken from the no-panic proof GM.Proof.BlocksDriverL), so the per-line loop ends there.
-/
import GM.Proof.ShiftSimDriver

namespace GM.Blocks.Sh
open GM GM.Text GM.Spec GM.Proof.Reader GM.Blocks

/-- `Continue` from related states on a line: same answer; afterwards the full relation — or, when the answer is
    "Continue, no children" (a leaf block that goes on), at least the limbo relation -/
def ContinueSimW (F : Frame) (b : Bytes) (bp : BP) : Prop := ∀ node sA sB, SR F b sA sB → HasLine b sA →
  P2 (fun x y sA' sB' => y = x ∧ SRLim F b sA' sB' ∧ ((x.cont = true ∧ x.hasChildren = false) ∨ SR F b sA' sB'))
    (bpContinue bp node sA) (bpContinue bp (F.ι node) sB)

/-- the parsers in `Cov` meet the contracts (no assumption on the end of the source) -/
structure PSimW (F : Frame) (b : Bytes) (Cov : BP → Prop) : Prop where
  op : ∀ bp, Cov bp → OpenSim F b bp
  co : ∀ bp, Cov bp → ContinueSimW F b bp
  coEof : ∀ bp, Cov bp → ContinueEofSim F b bp
  cl : ∀ bp, Cov bp → CloseSim F b bp

/-- every parser whose `Continue` can answer "Continue, no children" is a leaf parser … -/
def LeafCont (Cov : BP → Prop) : Prop := ∀ bp, Cov bp → bp.isContainer = true →
  ∀ node s s' (st : PState), bpContinue bp node s = .ok (st, s') → st.cont = true → st.hasChildren = true

/-- what is needed of `PSim` by `closeBlocks` / `tryParsers` (they only use `op` and `cl`) -/
theorem PSimW.toPSimOpCl {F : Frame} {b : Bytes} {Cov : BP → Prop} (h : PSimW F b Cov)
    (hco : ∀ bp, Cov bp → ContinueSim F b bp) : PSim F b Cov := ⟨h.op, hco, h.coEof, h.cl⟩

end GM.Blocks.Sh
