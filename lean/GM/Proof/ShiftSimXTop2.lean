/-
  GM.Proof.ShiftSimXTop2 — (T2) `openBlocks 0` on an empty stack establishes `TopLast`: the first block it opens is appended
  to the Document, every further one is opened below the block opened before (`tl_Ph`).
-/
import GM.Proof.ShiftSimXTop

namespace GM.Blocks.Xs
open GM GM.Text GM.Spec GM.Proof.Reader GM.Blocks GM.Blocks.L
open GM.Blocks.Sh (K KS bind_ok_inv liftE_ok_inv a2_getNode_inv a2_getPc_inv a2_modPc_inv a2_lastOpenedBlock_inv
  tpJp1 tpJp2 tpJp3 tpSome tryParsers_cons oblTry openBlocksLoop_succ)

/-- `openBlocks` in progress: nothing is open and the next block goes below the Document, or the first open block is
    the Document's last child and the next block goes below the last open block, which is attached -/
def tl_Ph (parent : Nat) (s : St) : Prop :=
  K s ∧ ((parent = 0 ∧ s.pc.opened = []) ∨
    (TopLast s ∧ s.pc.opened.getLast?.map (·.node) = some parent ∧ (nd s parent).parent.isSome = true))

theorem tl_Ph.top {parent : Nat} {s : St} (h : tl_Ph parent s) : TopLast s := by
  rcases h.2 with ⟨_, h0⟩ | ⟨h1, _⟩
  · intro b0 hb
    rw [h0] at hb
    cases hb
  · exact h1

theorem tl_Ph.same {parent : Nat} {s t : St} (h : tl_Ph parent s) (hn : t.nodes = s.nodes)
    (ho : t.pc.opened = s.pc.opened) : tl_Ph parent t := by
  refine ⟨(Sh.a2_KS_same h.1 ⟨hn, ho⟩).1, ?_⟩
  rcases h.2 with ⟨h0, h1⟩ | ⟨h1, h2, h3⟩
  · exact Or.inl ⟨h0, ho ▸ h1⟩
  · refine Or.inr ⟨?_, ?_, ?_⟩
    · intro b0 hb
      rw [ho] at hb
      have := h1 b0 hb
      rw [hn]
      exact this
    · rw [ho]; exact h2
    · have : nd t parent = nd s parent := by simp only [nd, hn]
      rw [this]; exact h3

theorem tl_modNode_inv {id : Nat} {f : Node → Node} {s s' : St} {a : Unit} (h : modNode id f s = .ok (a, s')) :
    s' = { s with nodes := s.nodes.set id (f (s.nodes.getD id default)) } := by
  cases h; rfl

/-- `AppendChild` of a node without parent -/
theorem tl_appendChild (p c : Nat) (s s' : St) (a : Unit) (hc : (nd s c).parent = none) (hcl : c < s.nodes.length)
    (h : appendChild p c s = .ok (a, s')) :
    s'.pc = s.pc ∧
    (∀ i, (nd s' i).children = if p = i ∧ p < s.nodes.length then (nd s p).children ++ [c] else (nd s i).children) ∧
    (nd s' c).parent = some p ∧ (∀ i, i ≠ c → (nd s' i).parent = (nd s i).parent) := by
  unfold appendChild at h
  obtain ⟨_, t1, g1, gA⟩ := bind_ok_inv h
  have e1 : t1 = s := by
    unfold ensureIsolated at g1
    obtain ⟨cn, t0, g0, gB⟩ := bind_ok_inv g1
    obtain ⟨ecn, e0⟩ := a2_getNode_inv g0
    subst e0
    have : cn.parent = none := by rw [ecn]; exact hc
    rw [this] at gB
    cases gB
    rfl
  subst e1
  obtain ⟨_, t2, g2, g3⟩ := bind_ok_inv gA
  have e2 := tl_modNode_inv g2
  subst e2
  have e3 := tl_modNode_inv g3
  subst e3
  refine ⟨rfl, fun i => ?_, ?_, fun i hi => ?_⟩
  · rw [nd_mod _ c (fun n => { n with parent := some p }) i]
    split
    · next hci =>
      obtain ⟨rfl, _⟩ := hci
      show (nd _ c).children = _
      rw [nd_mod t1 p (fun n => { n with children := n.children ++ [c] }) c]
      split <;> rfl
    · rw [nd_mod t1 p (fun n => { n with children := n.children ++ [c] }) i]
      split <;> rfl
  · rw [nd_mod _ c (fun n => { n with parent := some p }) c]
    rw [if_pos ⟨rfl, by show c < (t1.nodes.set _ _).length; rw [List.length_set]; exact hcl⟩]
  · rw [nd_mod _ c (fun n => { n with parent := some p }) i]
    rw [if_neg (fun hh => hi hh.1.symm)]
    rw [nd_mod t1 p (fun n => { n with children := n.children ++ [c] }) i]
    split
    · next hpi => obtain ⟨rfl, _⟩ := hpi; rfl
    · rfl

/-- what a successful candidate establishes: the next parent is the node just opened -/
def tl_Post (s' : St) (x : TryOutcome × OpenResult × Option Block) : Prop :=
  TopLast s' ∧ ∀ p', x.1 = .retry p' → tl_Ph p' s'

theorem tl_tpJp2 (parent node : Nat) (bp : BP) (state : PState) (lastBlock : Option Block) (s s' : St)
    (x : TryOutcome × OpenResult × Option Block) (hph : tl_Ph parent s) (hpn : parent < node)
    (hn : node < s.nodes.length) (hfr : (nd s node).parent = none)
    (h : tpJp2 parent node bp state lastBlock s = .ok (x, s')) : tl_Post s' x := by
  have hk := (Sh.a2_tpJp2 parent node bp state lastBlock s s' x hph.1 hpn hn h).1.1
  unfold tpJp2 at h
  obtain ⟨_, s1, h1, hA⟩ := bind_ok_inv h
  obtain ⟨epc, hch, hpar, hpo⟩ := tl_appendChild parent node s s1 _ hfr hn h1
  obtain ⟨_, s2, h2, hB⟩ := bind_ok_inv hA
  have e2 := a2_modPc_inv h2
  subst e2
  have hlen0 : 0 < s.nodes.length := hph.1.doc.1
  -- the state after the push
  have hfin : ∀ t : St, t = { s1 with pc := { s1.pc with opened := s1.pc.opened ++ [(⟨node, bp⟩ : Block)] } } →
      K t → tl_Ph node t := by
    intro t et kt
    subst et
    have htop : TopLast { s1 with pc := { s1.pc with opened := s1.pc.opened ++ [(⟨node, bp⟩ : Block)] } } := by
      intro b0 hb0
      show (nd s1 0).children.getLast? = some b0.node
      rw [hch 0]
      rcases hph.2 with ⟨hp0, ho⟩ | ⟨ht, hl, _⟩
      · subst hp0
        rw [if_pos ⟨rfl, hlen0⟩, List.getLast?_concat]
        have hb0' : (s1.pc.opened ++ [(⟨node, bp⟩ : Block)]).head? = some b0 := hb0
        rw [epc, ho] at hb0'
        cases hb0'
        rfl
      · have hne : parent ≠ 0 := by
          intro e
          cases hg : s.pc.opened.getLast? with
          | none => rw [hg] at hl; cases hl
          | some lb =>
            rw [hg] at hl
            have := (hph.1.opened lb (List.mem_of_getLast? hg)).1
            have hl' : some lb.node = some parent := hl
            cases hl'
            omega
        rw [if_neg (fun hh => hne hh.1)]
        have hb0' : (s1.pc.opened ++ [(⟨node, bp⟩ : Block)]).head? = some b0 := hb0
        rw [epc] at hb0'
        cases hop : s.pc.opened with
        | nil => rw [hop] at hl; cases hl
        | cons c cs =>
          rw [hop] at hb0'
          cases hb0'
          exact ht b0 (by rw [hop]; rfl)
    refine ⟨kt, Or.inr ⟨htop, ?_, ?_⟩⟩
    · show (s1.pc.opened ++ [(⟨node, bp⟩ : Block)]).getLast?.map (fun z : Block => z.node) = some node
      rw [List.getLast?_concat]; rfl
    · show (nd s1 node).parent.isSome = true
      rw [hpar]; rfl
  by_cases hc : state.hasChildren = true
  · rw [if_pos hc] at hB
    cases hB
    have := hfin _ rfl hk
    exact ⟨this.top, fun p' e => by cases e; exact this⟩
  · rw [if_neg hc] at hB
    cases hB
    have := hfin _ rfl hk
    exact ⟨this.top, fun p' e => by cases e⟩

theorem tl_Ph.lt {parent : Nat} {s : St} (h : tl_Ph parent s) : parent < s.nodes.length := by
  rcases h.2 with ⟨h0, _⟩ | ⟨_, hl, _⟩
  · rw [h0]; exact h.1.doc.1
  · cases hg : s.pc.opened.getLast? with
    | none => rw [hg] at hl; cases hl
    | some lb =>
      rw [hg] at hl
      have hl' : some lb.node = some parent := hl
      cases hl'
      exact (h.1.opened lb (List.mem_of_getLast? hg)).2

theorem tl_Ph.move {parent : Nat} {s t : St} (h : tl_Ph parent s) (kt : K t)
    (h0 : (nd t 0).children = (nd s 0).children) (hp : (nd t parent).parent = (nd s parent).parent)
    (ho : t.pc.opened = s.pc.opened) : tl_Ph parent t := by
  refine ⟨kt, ?_⟩
  rcases h.2 with ⟨h0', h1⟩ | ⟨h1, h2, h3⟩
  · exact Or.inl ⟨h0', ho ▸ h1⟩
  · refine Or.inr ⟨?_, ?_, ?_⟩
    · intro b0 hb
      rw [ho] at hb
      show (nd t 0).children.getLast? = _
      rw [h0]
      exact h1 b0 hb
    · rw [ho]; exact h2
    · rw [hp]; exact h3

theorem tl_tpJp1 (parent node : Nat) (bp : BP) (state : PState) (lastBlock : Option Block) (blankLine : Bool)
    (last : Option Nat) (s s' : St) (x : TryOutcome × OpenResult × Option Block) (hph : tl_Ph parent s)
    (hpn : parent < node) (hn : node < s.nodes.length) (hfr : (nd s node).parent = none)
    (hlast : last = s.pc.opened.getLast?.map (fun z : Block => z.node))
    (h : tpJp1 parent node bp state lastBlock blankLine last s = .ok (x, s')) : tl_Post s' x := by
  have hs := hph.1
  unfold tpJp1 at h
  obtain ⟨_, s1, h1, hA⟩ := bind_ok_inv h
  have a1 := Sh.ac_modNode_acyc node (fun n => { n with blankPrev := blankLine }) (fun _ => ⟨rfl, rfl⟩) s _ s1 hs.acyc h1
  have d1 := Sh.a2_modNode_ch node (fun n => { n with blankPrev := blankLine })
    (fun _ => ⟨rfl, rfl, fun x hx => Or.inl hx⟩) s _ s1 hs.doc h1
  have o1 := Sh.modNode_opened _ _ _ _ _ h1
  have l1 : s.nodes.length ≤ s1.nodes.length :=
    Sh.ac_modNode_len s.nodes.length node _ s _ s1 (Nat.le_refl _) h1
  have k1 : KS s s1 := Sh.a2_KS_mk hs a1 d1 o1 l1
  have e1 := tl_modNode_inv h1
  have hlk : ∀ i, (nd s1 i).parent = (nd s i).parent ∧ (nd s1 i).children = (nd s i).children := by
    intro i
    rw [e1, nd_mod s node (fun n => { n with blankPrev := blankLine }) i]
    split
    · next hc => obtain ⟨rfl, _⟩ := hc; exact ⟨rfl, rfl⟩
    · exact ⟨rfl, rfl⟩
  have hph1 : tl_Ph parent s1 := hph.move k1.1 (hlk 0).2 (hlk parent).1 o1
  have hn1 : node < s1.nodes.length := Nat.lt_of_lt_of_le hn l1
  have hfr1 : (nd s1 node).parent = none := by rw [(hlk node).1]; exact hfr
  cases last with
  | none => exact tl_tpJp2 parent node bp state lastBlock s1 s' x hph1 hpn hn1 hfr1 hA
  | some l =>
    obtain ⟨ln, s2, h2, hB⟩ := bind_ok_inv hA
    obtain ⟨eln, e2⟩ := a2_getNode_inv h2
    subst e2
    have hl : l = parent ∧ (nd s2 parent).parent.isSome = true := by
      rcases hph1.2 with ⟨_, h0⟩ | ⟨_, hg, hsome⟩
      · rw [← o1, h0] at hlast; cases hlast
      · rw [← o1, hg] at hlast; cases hlast; exact ⟨rfl, hsome⟩
    have hnot : ¬ (ln.parent.isNone = true) := by
      rw [eln, hl.1]
      have := hl.2
      cases hq : (nd s2 parent).parent with
      | none => rw [hq] at this; cases this
      | some q =>
        intro hh
        cases hh
    rw [if_neg hnot] at hB
    exact tl_tpJp2 parent node bp state lastBlock s2 s' x hph1 hpn hn1 hfr1 hB

theorem tl_tpSome (parent node : Nat) (bp : BP) (state : PState) (lastBlock : Option Block) (blankLine : Bool)
    (last : Option Nat) (s s' : St) (x : TryOutcome × OpenResult × Option Block) (hph : tl_Ph parent s)
    (hpn : parent < node) (hn : node < s.nodes.length) (hfr : (nd s node).parent = none)
    (hlb : lastBlock = s.pc.opened.getLast?) (hlast : last = lastBlock.map (fun z : Block => z.node))
    (h : tpSome parent node bp state lastBlock blankLine last s = .ok (x, s')) : tl_Post s' x := by
  have hlast' : last = s.pc.opened.getLast?.map (fun z : Block => z.node) := by rw [hlast, hlb]
  unfold tpSome at h
  by_cases hr : state.requirePara = true
  · rw [if_pos hr] at h
    obtain ⟨pn, s1, h1, hA⟩ := bind_ok_inv h
    obtain ⟨epn, e1⟩ := a2_getNode_inv h1
    subst e1
    by_cases hc : (last == pn.children.getLast?) = true
    · exfalso
      rw [if_pos hc] at hA
      rcases hph.2 with ⟨_, h0⟩ | ⟨_, hg, _⟩
      · rw [h0] at hlb
        subst hlb
        obtain ⟨_, _, h3, _⟩ := bind_ok_inv hA
        cases h3
      · rw [hg] at hlast'
        subst hlast'
        have hc' : some parent = pn.children.getLast? := by simpa using hc
        have hm : parent ∈ pn.children := List.mem_of_getLast? hc'.symm
        rw [epn] at hm
        have := hph.1.acyc.1 parent parent hm
        omega
    · rw [if_neg hc] at hA
      exact tl_tpJp1 parent node bp state lastBlock blankLine last _ s' x hph hpn hn hfr hlast' hA
  · rw [if_neg hr] at h
    exact tl_tpJp1 parent node bp state lastBlock blankLine last _ s' x hph hpn hn hfr hlast' h

theorem tl_tryParsers (parent : Nat) (blankLine continuable : Bool) (w : Int) :
    ∀ (bps : List BP) (result : OpenResult) (lastBlock : Option Block) (s s' : St)
      (x : TryOutcome × OpenResult × Option Block), tl_Ph parent s →
      tryParsers parent blankLine continuable w bps result lastBlock s = .ok (x, s') → tl_Post s' x := by
  intro bps
  induction bps with
  | nil =>
    intro result lastBlock s s' x hph h
    unfold tryParsers at h
    cases h
    exact ⟨hph.top, fun p' e => by cases e⟩
  | cons bp bps ih =>
    intro result lastBlock s s' x hph h
    rw [tryParsers_cons] at h
    by_cases c1 : (continuable && result == OpenResult.noBlocksOpened && !bp.canInterruptParagraph) = true
    · rw [if_pos c1] at h; exact ih result lastBlock s s' x hph h
    rw [if_neg c1] at h
    by_cases c2 : (decide (w > 3) && !bp.canAcceptIndentedLine) = true
    · rw [if_pos c2] at h; exact ih result lastBlock s s' x hph h
    rw [if_neg c2] at h
    obtain ⟨x0, s1, h1, hA⟩ := bind_ok_inv h
    obtain ⟨ex0, e1⟩ := a2_lastOpenedBlock_inv h1
    subst e1
    obtain ⟨y, s2, h2, hB⟩ := bind_ok_inv hA
    have k2 := Sh.a2_bpOpen_KS bp parent _ _ _ hph.1 h2
    have lk := (bpOpen_frl bp parent).h _ _ _ h2
    have o2 := bpOpen_opened bp parent _ _ _ h2
    have hp := hph.lt
    have hph2 : tl_Ph parent s2 :=
      hph.move k2.1 (lk.2.1 0 hph.1.doc.1).2 (lk.2.1 parent hp).1 o2
    cases hy : y.1 with
    | none =>
      rw [hy] at hB
      exact ih result x0 s2 s' x hph2 hB
    | some node =>
      rw [hy] at hB
      have hy' : y = (some node, y.2) := by rw [← hy]
      rw [hy'] at h2
      obtain ⟨f1, f2, f3, _⟩ := Sh.bpOpen_fresh bp parent _ _ node y.2 h2
      exact tl_tpSome parent node bp y.2 x0 blankLine _ s2 s' x hph2 (by omega) f2 f3 (by rw [o2]; exact ex0) rfl hB

theorem tl_toContinuable_false (result : OpenResult) (lastBlock : Option Block) (s s' : St) (x : OpenResult)
    (h : toContinuable false result lastBlock s = .ok (x, s')) : s' = s := by
  unfold toContinuable at h
  have : (result == OpenResult.noBlocksOpened && false) = false := Bool.and_false _
  rw [this] at h
  cases h
  rfl

theorem tl_oblTry (blankLine : Bool) (fuel : Nat)
    (ih : ∀ (parent : Nat) (result : OpenResult) (lastBlock : Option Block) (s s' : St) (x : OpenResult),
      tl_Ph parent s → openBlocksLoop blankLine false fuel parent result lastBlock s = .ok (x, s') → TopLast s')
    (parent : Nat) (w : Int) (result : OpenResult) (lastBlock : Option Block) (bps : List BP) (s s' : St)
    (x : OpenResult) (hph : tl_Ph parent s)
    (h : oblTry blankLine false fuel parent w result lastBlock bps s = .ok (x, s')) : TopLast s' := by
  unfold oblTry at h
  obtain ⟨s0, s1, h1, hA⟩ := bind_ok_inv h
  cases h1
  obtain ⟨y, s2, h2, hB⟩ := bind_ok_inv hA
  obtain ⟨ht, hr⟩ := tl_tryParsers parent blankLine false w bps result lastBlock _ _ _ hph h2
  cases hy : y.1 with
  | done =>
    rw [hy] at hB
    rw [tl_toContinuable_false _ _ _ _ _ hB]
    exact ht
  | retry p' =>
    rw [hy] at hB
    obtain ⟨s3, s4, h3, hC⟩ := bind_ok_inv hB
    cases h3
    split at hC
    · obtain ⟨_, _, h4, _⟩ := bind_ok_inv hC
      cases h4
    · exact ih p' y.2.1 y.2.2 _ _ _ (hr p' hy) hC

theorem tl_openBlocksLoop (blankLine : Bool) :
    ∀ (fuel parent : Nat) (result : OpenResult) (lastBlock : Option Block) (s s' : St) (x : OpenResult),
      tl_Ph parent s → openBlocksLoop blankLine false fuel parent result lastBlock s = .ok (x, s') → TopLast s' := by
  intro fuel
  induction fuel with
  | zero =>
    intro parent result lastBlock s s' x _ h
    unfold openBlocksLoop at h
    cases h
  | succ fuel ih =>
    intro parent result lastBlock s s' x hph h
    rw [openBlocksLoop_succ] at h
    obtain ⟨lp, s1, h1, hA⟩ := bind_ok_inv h
    have m1 : Sh.Same s s1 := peekLine_keeps (Sh.a2_same_noR s) s _ s1 ⟨rfl, rfl⟩ h1
    obtain ⟨lo, s2, h2, hB⟩ := bind_ok_inv hA
    have m2 : Sh.Same s s2 := lineOffset_keeps (Sh.a2_same_noR s) s1 _ s2 m1 h2
    obtain ⟨_, s3, h3, hC⟩ := bind_ok_inv hB
    have e3 := a2_modPc_inv h3
    have m3 : Sh.Same s s3 := by
      subst e3
      refine ⟨m2.1, ?_⟩
      show (ite _ _ _ : Ctx).opened = _
      split
      · exact m2.2
      · exact m2.2
    have hph3 : tl_Ph parent s3 := hph.same m3.1 m3.2
    by_cases c1 : lp.1.isNone = true
    · rw [if_pos c1] at hC
      rw [tl_toContinuable_false _ _ _ _ _ hC]
      exact hph3.top
    rw [if_neg c1] at hC
    obtain ⟨c0, s4, h4, hD⟩ := bind_ok_inv hC
    obtain ⟨_, e4⟩ := liftE_ok_inv h4
    subst e4
    by_cases c2 : (c0 == 10) = true
    · rw [if_pos c2] at hD
      rw [tl_toContinuable_false _ _ _ _ _ hD]
      exact hph3.top
    rw [if_neg c2] at hD
    split at hD
    · obtain ⟨c, s5, h5, hE⟩ := bind_ok_inv hD
      obtain ⟨_, e5⟩ := liftE_ok_inv h5
      subst e5
      exact tl_oblTry blankLine fuel ih parent _ result lastBlock _ _ _ _ hph3 hE
    · exact tl_oblTry blankLine fuel ih parent _ result lastBlock _ _ _ _ hph3 hD

/-- (T2) `openBlocks` below the Document on an empty stack -/
theorem topLast_openBlocks0 (blank : Bool) (s s' : St) (r : OpenResult) (hs : K s) (ho : s.pc.opened = [])
    (h : openBlocks 0 blank s = .ok (r, s')) : TopLast s' := by
  unfold openBlocks at h
  obtain ⟨x0, s1, h1, hA⟩ := bind_ok_inv h
  obtain ⟨ex0, e1⟩ := a2_lastOpenedBlock_inv h1
  subst e1
  rw [ho] at ex0
  subst ex0
  obtain ⟨src, s3, h3, hC⟩ := bind_ok_inv hA
  cases h3
  exact tl_openBlocksLoop blank _ 0 _ _ _ _ _ ⟨hs, Or.inl ⟨rfl, ho⟩⟩ hC

end GM.Blocks.Xs
