/-
  GM.Proof.BlockReader — lemmas for property C18: the block reader model refines the cursor `BCur`.
-/
import GM.Proof.Reader

namespace GM.Proof.Reader
open GM GM.Text GM.Spec

/-! ### well-formed segment lists, by index -/

theorem wfFrom_idx {src : Bytes} : ∀ {l : List Segment} {lo : Int} {i : Nat} {s : Segment},
    WFSegsFrom src lo l → l[i]? = some s →
    lo ≤ s.start ∧ s.start < s.stop ∧ s.stop ≤ src.length ∧ 0 ≤ s.padding ∧ s.forceNewline = false := by
  intro l
  induction l with
  | nil => intro lo i s _ h; simp at h
  | cons a rest ih =>
    intro lo i s hw h
    obtain ⟨w1, w2, w3, w4, w5, w6⟩ := hw
    cases i with
    | zero => simp at h; subst h; exact ⟨w1, w2, w3, w4, w5⟩
    | succ i =>
      simp at h
      obtain ⟨i1, i2, i3, i4, i5⟩ := ih w6 h
      exact ⟨by omega, i2, i3, i4, i5⟩

theorem wfFrom_mono {src : Bytes} : ∀ {l : List Segment} {lo : Int} {i j : Nat} {a b : Segment},
    WFSegsFrom src lo l → l[i]? = some a → l[j]? = some b → i < j → a.stop ≤ b.start := by
  intro l
  induction l with
  | nil => intro lo i j a b _ h; simp at h
  | cons x rest ih =>
    intro lo i j a b hw ha hb hij
    obtain ⟨w1, w2, w3, w4, w5, w6⟩ := hw
    cases j with
    | zero => omega
    | succ j =>
      simp at hb
      cases i with
      | zero => simp at ha; subst ha; exact (wfFrom_idx w6 hb).1
      | succ i => simp at ha; exact ih w6 ha hb (by omega)

/-- what the proofs use of `WFSegs` -/
structure SegFacts (src : Bytes) (segs : List Segment) : Prop where
  kpos : 0 < BCur.k segs
  get : ∀ ln : Int, 0 ≤ ln → ln < BCur.k segs → segs[ln.toNat]? = some (BCur.segOf segs ln)
  rng : ∀ ln : Int, 0 ≤ ln → ln < BCur.k segs →
    0 ≤ (BCur.segOf segs ln).start ∧ (BCur.segOf segs ln).start < (BCur.segOf segs ln).stop ∧
    (BCur.segOf segs ln).stop ≤ src.length ∧ 0 ≤ (BCur.segOf segs ln).padding ∧
    (BCur.segOf segs ln).forceNewline = false
  mono : ∀ i j : Int, 0 ≤ i → i < j → j < BCur.k segs → (BCur.segOf segs i).stop ≤ (BCur.segOf segs j).start
  last : BCur.lastStop segs = (BCur.segOf segs (BCur.k segs - 1)).stop

theorem segOf_get (segs : List Segment) (ln : Int) (h0 : 0 ≤ ln) (h1 : ln < BCur.k segs) :
    segs[ln.toNat]? = some (BCur.segOf segs ln) := by
  have hlt : ln.toNat < segs.length := by simp [BCur.k] at h1; omega
  simp [BCur.segOf, h0, List.getElem?_eq_getElem hlt]

theorem segFacts {src : Bytes} {segs : List Segment} (h : WFSegs src segs) : SegFacts src segs := by
  obtain ⟨hne, hw⟩ := h
  have hk : 0 < BCur.k segs := by
    cases segs with
    | nil => exact absurd rfl hne
    | cons a r => simp [BCur.k] <;> omega
  refine ⟨hk, segOf_get segs, ?_, ?_, ?_⟩
  · intro ln h0 h1
    have := wfFrom_idx hw (segOf_get segs ln h0 h1)
    exact ⟨by omega, this.2.1, this.2.2.1, this.2.2.2.1, this.2.2.2.2⟩
  · intro i j h0 hij hj
    exact wfFrom_mono hw (segOf_get segs i h0 (by omega)) (segOf_get segs j (by omega) hj) (by omega)
  · unfold BCur.lastStop
    rw [List.getLast?_eq_getElem?]
    have := segOf_get segs (BCur.k segs - 1) (by omega) (by omega)
    have e : (BCur.k segs - 1).toNat = segs.length - 1 := by simp [BCur.k] <;> omega
    rw [e] at this
    rw [this]

theorem segAt_ok (segs : List Segment) (ln : Int) (h0 : 0 ≤ ln) (h1 : ln < BCur.k segs) :
    segAt segs ln = .ok (BCur.segOf segs ln) := by
  unfold segAt
  have : ¬ ln < 0 := by omega
  simp [this, segOf_get segs ln h0 h1]

/-! ### the abstraction relation -/

/-- well-formed cursors: inside a line, at the very end of the last line, or (after AdvanceLine on the
    last line) past the end with the byte position still inside the last line -/
structure BWF (segs : List Segment) (c : BCur) : Prop where
  ln0 : 0 ≤ c.ln
  pad0 : 0 ≤ c.pad
  inLine : c.ln < BCur.k segs → (BCur.segOf segs c.ln).start ≤ c.p ∧
    (c.p < (BCur.segOf segs c.ln).stop ∨ (c.ln + 1 = BCur.k segs ∧ c.p = (BCur.segOf segs c.ln).stop))
  past : BCur.k segs ≤ c.ln → (BCur.segOf segs (BCur.k segs - 1)).start ≤ c.p ∧ c.p ≤ BCur.lastStop segs

structure BAbs (src : Bytes) (segs : List Segment) (r : BlockReader) (c : BCur) : Prop where
  source : r.source = src
  segments : r.segments = segs
  segLen : r.segmentsLength = BCur.k segs
  line : r.line = c.ln
  pos : r.pos = { start := c.p, stop := BCur.stopOf segs c, padding := c.pad, forceNewline := false }
  last : r.last = BCur.lastStop segs
  head : c.ln < BCur.k segs → r.head = (BCur.segOf segs c.ln).start
  lo : r.lineOffset < 0 ∨ (c.ln < BCur.k segs ∧
    r.lineOffset = (colFrom (sub src (BCur.segOf segs c.ln).start.toNat c.p.toNat) 0 : Int) - c.pad)
  wf : BWF segs c

variable {src : Bytes} {segs : List Segment} {r : BlockReader} {c : BCur}

/-- pos_in_range for the block reader -/
theorem bpos_wf (F : SegFacts src segs) (h : BAbs src segs r c) : segInRange src r.pos := by
  rw [h.pos]
  have w := h.wf
  unfold BCur.stopOf
  by_cases hl : c.ln < BCur.k segs
  · have := F.rng c.ln w.ln0 hl
    have := w.inLine hl
    simp only [hl, if_true]
    exact ⟨by simp; omega, by simp; omega, by simp; omega, by simp; exact w.pad0⟩
  · have := F.rng (BCur.k segs - 1) (by have := F.kpos; omega) (by omega)
    have := w.past (by omega)
    have := F.last
    simp only [hl, if_false]
    exact ⟨by simp; omega, by simp; omega, by simp; omega, by simp; exact w.pad0⟩

theorem live_iff (F : SegFacts src segs) (h : BAbs src segs r c) : r.live = BCur.live segs c := by
  unfold BlockReader.live BCur.live
  rw [h.line, h.segLen, h.pos, h.last]
  have := (bpos_wf F h).1
  rw [h.pos] at this
  simp only at this
  simp [this]

theorem bpeekLine_ref (F : SegFacts src segs) (h : BAbs src segs r c) :
    r.peekLine = .ok ((BCur.peekLine src segs c).1, r) := by
  unfold BlockReader.peekLine BCur.peekLine BCur.view
  rw [live_iff F h]
  by_cases hl : BCur.live segs c = true
  · simp only [hl, if_true]
    rw [h.source, value_spec src r.pos (bpos_wf F h)]
    simp only [bind, Except.bind, pure, Except.pure]
    have : BCur.seg segs c = r.pos := by rw [h.pos]; rfl
    rw [this]
    congr
    rw [h.pos]
    simp [segValue]
  · simp only [hl, Bool.false_eq_true, if_false, pure, Except.pure]
    have : BCur.seg segs c = r.pos := by rw [h.pos]; rfl
    rw [this]

theorem bpeek_ref (F : SegFacts src segs) (h : BAbs src segs r c) : r.peek = .ok (BCur.peek src segs c) := by
  unfold BlockReader.peek BCur.peek BCur.view
  rw [live_iff F h]
  by_cases hl : BCur.live segs c = true
  · simp only [hl, if_true]
    rw [h.pos, h.source]
    have w := h.wf
    simp only [BCur.live, Bool.and_eq_true, decide_eq_true_eq] at hl
    obtain ⟨l1, l2⟩ := hl
    have i1 := w.inLine l1
    have i2 := F.rng c.ln w.ln0 l1
    have hst : BCur.stopOf segs c = (BCur.segOf segs c.ln).stop := by simp [BCur.stopOf, l1]
    have hp0 : 0 ≤ c.p := by omega
    have hplt : c.p < BCur.stopOf segs c := by
      rw [hst]
      rcases i1.2 with h' | ⟨h1, h2⟩
      · exact h'
      · have := F.last
        have e : BCur.k segs - 1 = c.ln := by omega
        rw [e] at this
        omega
    by_cases hz : c.pad = 0
    · obtain ⟨p, hp⟩ : ∃ p : Nat, c.p = p := ⟨c.p.toNat, (Int.toNat_of_nonneg hp0).symm⟩
      obtain ⟨e, he⟩ : ∃ e : Nat, BCur.stopOf segs c = e := ⟨(BCur.stopOf segs c).toNat, (Int.toNat_of_nonneg (by omega)).symm⟩
      have hpl : p < src.length := by rw [hst] at he; omega
      have hpe : p < e := by omega
      simp [hz, spaces, hp, he, getByte_ok src hpl, sub_cons src hpl hpe]
    · have hpos : 0 < c.pad := by have := w.pad0; omega
      obtain ⟨k, hk⟩ : ∃ k : Nat, c.pad = ((k + 1 : Nat) : Int) := ⟨c.pad.toNat - 1, by omega⟩
      have : (c.pad != 0) = true := by simp; omega
      rw [if_pos this]
      simp [hk, spaces, List.replicate_succ, pure, Except.pure]
  · simp [hl, pure, Except.pure]

theorem bposition_ref (h : BAbs src segs r c) : r.position = BCur.position segs c := by
  simp [BlockReader.position, BCur.position, h.line, h.pos, BCur.seg]

theorem blineOffset_ref (F : SegFacts src segs) (h : BAbs src segs r c) {v : Int} {c' : BCur}
    (hs : BCur.lineOffset src segs c = .ok (v, c')) :
    ∃ r', r.lineOffsetOp = .ok (v, r') ∧ BAbs src segs r' c' := by
  unfold BCur.lineOffset at hs
  by_cases hl : c.ln < BCur.k segs
  · simp only [hl, if_true, Except.ok.injEq, Prod.mk.injEq] at hs
    obtain ⟨hv, hc⟩ := hs
    subst hc
    have w := h.wf
    have i1 := w.inLine hl
    have i2 := F.rng c.ln w.ln0 hl
    unfold BlockReader.lineOffsetOp
    by_cases hlo : r.lineOffset < 0
    · simp only [hlo, if_true]
      rw [h.source, h.head hl, h.pos]
      obtain ⟨a, ha⟩ : ∃ a : Nat, (BCur.segOf segs c.ln).start = a := ⟨_, (Int.toNat_of_nonneg i2.1).symm⟩
      obtain ⟨p, hp⟩ : ∃ p : Nat, c.p = p := ⟨c.p.toNat, (Int.toNat_of_nonneg (by omega)).symm⟩
      have hple : p ≤ src.length := by
        rcases i1.2 with h' | ⟨_, h'⟩ <;> omega
      simp only [ha, hp, colLoop_ok src (show a ≤ p by omega) hple, bind, Except.bind, pure, Except.pure]
      have hv' : (colFrom (sub src a p) 0 : Int) - c.pad = v := by rw [← hv, ha, hp]; simp
      refine ⟨_, by rw [hv'], ?_⟩
      exact { source := rfl, segments := h.segments, segLen := h.segLen, line := h.line,
              pos := by simp [hp], last := h.last,
              head := fun _ => by simp [ha], lo := Or.inr ⟨hl, by simp [ha, hp, hv']⟩, wf := h.wf }
    · simp only [hlo, if_false, pure, Except.pure]
      rcases h.lo with h1 | ⟨_, h1⟩
      · exact absurd h1 hlo
      · exact ⟨r, by simp [h1, ← hv], h⟩
  · simp [hl] at hs

theorem bsetPadding_ref (h : BAbs src segs r c) {v : Int} {c' : BCur}
    (hs : BCur.setPadding v c = .ok c') : BAbs src segs (r.setPadding v) c' := by
  unfold BCur.setPadding at hs
  by_cases hv : 0 ≤ v
  · simp only [hv, if_true, Except.ok.injEq] at hs
    subst hs
    have w := h.wf
    exact { source := h.source, segments := h.segments, segLen := h.segLen, line := h.line,
            pos := by simp [BlockReader.setPadding, h.pos, BCur.stopOf], last := h.last, head := h.head,
            lo := Or.inl (by simp [BlockReader.setPadding]),
            wf := { ln0 := w.ln0, pad0 := hv, inLine := w.inLine, past := w.past } }
  · simp [hv] at hs

theorem bsetPosition_ref (F : SegFacts src segs) (h : BAbs src segs r c) {line : Int} {s : Segment} {c' : BCur}
    (hs : BCur.setPosition segs line s c = .ok c') :
    ∃ r', r.setPosition line s = .ok r' ∧ BAbs src segs r' c' := by
  unfold BCur.setPosition at hs
  by_cases hw : BCur.WFPos segs line s
  · simp only [hw, if_true, Except.ok.injEq] at hs
    subst hs
    obtain ⟨w0, w1, w2, w3⟩ := hw
    unfold BlockReader.setPosition
    by_cases hl : line < BCur.k segs
    · simp only [hl, if_true] at w3
      have i2 := F.rng line w0 hl
      have hne : ¬ ((s.start == -1) = true) := by simp; omega
      simp only [hne, Bool.false_eq_true, if_false, h.segLen, hl, if_true, h.segments, segAt_ok segs line w0 hl, bind,
        Except.bind, pure, Except.pure]
      have e : BCur.stopOf segs { ln := line, p := s.start, pad := s.padding } = s.stop := by
        simp only [BCur.stopOf, hl, if_true]; exact w3.1.symm
      refine ⟨_, rfl, ?_⟩
      exact { source := h.source, segments := rfl, segLen := rfl, line := rfl,
              pos := by rw [e]; cases s; simp at w2 ⊢; exact w2, last := h.last,
              head := fun _ => rfl, lo := Or.inl (by simp),
              wf := { ln0 := w0, pad0 := w1, inLine := fun _ => ⟨w3.2.1, by rcases w3.2.2 with h' | ⟨h1, h2⟩ <;> simp_all <;> omega⟩,
                      past := fun hh => by simp at hh; omega } }
    · simp only [hl, if_false] at w3
      have hk := F.kpos
      have i2 := F.rng (BCur.k segs - 1) (by omega) (by omega)
      have hne : ¬ ((s.start == -1) = true) := by simp; omega
      simp only [hne, Bool.false_eq_true, if_false, h.segLen, hl, pure, Except.pure]
      have e : BCur.stopOf segs { ln := line, p := s.start, pad := s.padding } = s.stop := by
        simp only [BCur.stopOf, hl, if_false]; exact w3.1.symm
      refine ⟨_, rfl, ?_⟩
      exact { source := h.source, segments := h.segments, segLen := rfl, line := rfl,
              pos := by rw [e]; cases s; simp at w2 ⊢; exact w2, last := h.last,
              head := fun hh => by simp at hh; omega, lo := Or.inl (by simp),
              wf := { ln0 := w0, pad0 := w1, inLine := fun hh => by simp at hh; omega,
                      past := fun _ => ⟨w3.2.1, by simp; omega⟩ } }
  · simp [hw] at hs

theorem seg_eta (s : Segment) (h : s.forceNewline = false) :
    s = { start := s.start, stop := s.stop, padding := s.padding, forceNewline := false } := by
  cases s; simp at h ⊢; exact h

theorem stopOf_last (F : SegFacts src segs) (w : BWF segs c) (hl : BCur.k segs ≤ c.ln + 1) :
    BCur.stopOf segs c = BCur.lastStop segs := by
  unfold BCur.stopOf
  by_cases h : c.ln < BCur.k segs
  · have e : BCur.k segs - 1 = c.ln := by omega
    rw [if_pos h, F.last, e]
  · rw [if_neg h]

theorem badvanceLine_ref (F : SegFacts src segs) (h : BAbs src segs r c) :
    ∃ r', r.advanceLine = .ok r' ∧ BAbs src segs r' (BCur.advanceLine segs c) ∧ r'.lineOffset < 0 := by
  have w := h.wf
  unfold BlockReader.advanceLine BlockReader.setPosition BCur.advanceLine
  simp only [beq_self_eq_true, if_true, h.line, h.segLen, h.segments]
  by_cases hl : c.ln + 1 < BCur.k segs
  · have i2 := F.rng (c.ln + 1) (by have := w.ln0; omega) hl
    simp only [hl, if_true, segAt_ok segs (c.ln + 1) (by have := w.ln0; omega) hl, bind, Except.bind, pure, Except.pure]
    refine ⟨_, rfl, ?_, by simp⟩
    exact { source := h.source, segments := rfl, segLen := rfl, line := rfl
            pos := by
              simp only [BCur.stopOf, hl, if_true]
              exact seg_eta _ i2.2.2.2.2
            last := h.last, head := fun _ => rfl, lo := Or.inl (by simp)
            wf := { ln0 := by have := w.ln0; simp; omega, pad0 := i2.2.2.2.1,
                    inLine := fun _ => ⟨by simp, Or.inl (by simp; exact i2.2.1)⟩,
                    past := fun hh => by simp at hh; omega } }
  · simp only [hl, if_false, pure, Except.pure, bind, Except.bind]
    refine ⟨_, rfl, ?_, by simp⟩
    have hst := stopOf_last F w (by omega)
    have hk := F.kpos
    exact { source := h.source, segments := rfl, segLen := rfl, line := rfl
            pos := by
              rw [h.pos, hst]
              simp only [BCur.stopOf, show ¬ (c.ln + 1 < BCur.k segs) from hl, if_false]
            last := h.last, head := fun hh => by simp at hh; omega, lo := Or.inl (by simp)
            wf := { ln0 := by have := w.ln0; simp; omega, pad0 := w.pad0,
                    inLine := fun hh => by simp at hh; omega,
                    past := fun _ => by
                      simp only
                      by_cases h' : c.ln < BCur.k segs
                      · have e : BCur.k segs - 1 = c.ln := by omega
                        have i1 := w.inLine h'
                        rw [e, F.last, e]
                        exact ⟨i1.1, by rcases i1.2 with a | ⟨_, a⟩ <;> omega⟩
                      · exact w.past (by omega) } }

/-! #### Advance -/

theorem stop_le_last (F : SegFacts src segs) {i : Int} (h0 : 0 ≤ i) (h1 : i < BCur.k segs) :
    (BCur.segOf segs i).stop ≤ BCur.lastStop segs := by
  rw [F.last]
  by_cases e : i = BCur.k segs - 1
  · rw [e]; omega
  · have := F.mono i (BCur.k segs - 1) h0 (by omega) (by omega)
    have := F.rng (BCur.k segs - 1) (by omega) (by omega)
    omega

theorem stop_lt_last (F : SegFacts src segs) {i : Int} (h0 : 0 ≤ i) (h1 : i + 1 < BCur.k segs) :
    (BCur.segOf segs i).stop < BCur.lastStop segs := by
  have := F.mono i (i + 1) h0 (by omega) h1
  have := F.rng (i + 1) (by omega) h1
  have := stop_le_last F (i := i + 1) (by omega) h1
  omega

theorem viewsLen_drop (segs : List Segment) (i : Int) (h0 : 0 ≤ i) (h1 : i < BCur.k segs) :
    BCur.viewsLen (segs.drop i.toNat) = (BCur.segOf segs i).padding +
      ((BCur.segOf segs i).stop - (BCur.segOf segs i).start) + BCur.viewsLen (segs.drop (i.toNat + 1)) := by
  have hlt : i.toNat < segs.length := by simp [BCur.k] at h1; omega
  have hg := segOf_get segs i h0 h1
  rw [List.getElem?_eq_getElem hlt] at hg
  simp only [Option.some.injEq] at hg
  rw [List.drop_eq_getElem_cons hlt, hg]
  simp [BCur.viewsLen]

theorem viewsLen_drop_ge (segs : List Segment) (n : Nat) (h : segs.length ≤ n) :
    BCur.viewsLen (segs.drop n) = 0 := by
  rw [List.drop_eq_nil_of_le h]; rfl

/-- one byte forward uses up exactly one byte of what remains -/
theorem rem_adv1 (F : SegFacts src segs) (w : BWF segs c) (hl : BCur.live segs c = true) :
    BCur.remaining segs (BCur.adv1 segs c) = BCur.remaining segs c - 1 ∧ BWF segs (BCur.adv1 segs c) := by
  have hlive := hl
  simp only [BCur.live, Bool.and_eq_true, decide_eq_true_eq] at hl
  obtain ⟨l1, l2⟩ := hl
  have i1 := w.inLine l1
  have i2 := F.rng c.ln w.ln0 l1
  have hst : BCur.stopOf segs c = (BCur.segOf segs c.ln).stop := by simp [BCur.stopOf, l1]
  have hrem : BCur.remaining segs c = c.pad + (BCur.stopOf segs c - c.p) + BCur.viewsLen (segs.drop (c.ln.toNat + 1)) := by
    simp [BCur.remaining, hlive]
  by_cases hz : c.pad = 0
  · by_cases hin : c.p + 1 < BCur.stopOf segs c ∨ BCur.k segs ≤ c.ln + 1
    · have e : BCur.adv1 segs c = { c with p := c.p + 1 } := by simp [BCur.adv1, hz, hin]
      rw [e]
      have hst' : BCur.stopOf segs { c with p := c.p + 1 } = BCur.stopOf segs c := rfl
      have hw' : BWF segs { c with p := c.p + 1 } :=
        { ln0 := w.ln0, pad0 := w.pad0
          inLine := fun _ => by
            simp only
            refine ⟨by omega, ?_⟩
            rcases hin with a | a
            · left; omega
            · have := F.last
              have e : BCur.k segs - 1 = c.ln := by omega
              rw [e] at this
              by_cases hh : c.p + 1 < (BCur.segOf segs c.ln).stop
              · left; exact hh
              · right; omega
          past := fun hh => by simp at hh; omega }
      refine ⟨?_, hw'⟩
      by_cases hl2 : c.p + 1 < BCur.lastStop segs
      · have hl3 : BCur.live segs { c with p := c.p + 1 } = true := by simp [BCur.live, l1, hl2]
        have : BCur.remaining segs { c with p := c.p + 1 } =
            c.pad + (BCur.stopOf segs c - (c.p + 1)) + BCur.viewsLen (segs.drop (c.ln.toNat + 1)) := by
          simp [BCur.remaining, hl3, hst']
        rw [this, hrem]; omega
      · have hl3 : BCur.live segs { c with p := c.p + 1 } = false := by simp [BCur.live, hl2]
        have : BCur.remaining segs { c with p := c.p + 1 } = 0 := by simp [BCur.remaining, hl3]
        rw [this, hrem]
        have hle := stop_le_last F w.ln0 l1
        have hk : BCur.k segs ≤ c.ln + 1 := by
          rcases hin with a | a
          · omega
          · exact a
        have hlen : segs.length ≤ c.ln.toNat + 1 := by simp [BCur.k] at hk; omega
        rw [viewsLen_drop_ge segs _ hlen]
        have := F.last
        have e : BCur.k segs - 1 = c.ln := by omega
        rw [e] at this
        omega
    · have hl' : c.ln + 1 < BCur.k segs := by omega
      obtain ⟨c1, hc1⟩ : ∃ c1 : BCur, c1 = ⟨c.ln + 1, (BCur.segOf segs (c.ln + 1)).start, (BCur.segOf segs (c.ln + 1)).padding⟩ := ⟨_, rfl⟩
      have e : BCur.adv1 segs c = c1 := by rw [hc1]; simp [BCur.adv1, hz, hin]
      rw [e]
      have j2 := F.rng (c.ln + 1) (by have := w.ln0; omega) hl'
      have hplt : c.p < (BCur.segOf segs c.ln).stop := by
        rcases i1.2 with a | ⟨a, _⟩ <;> omega
      have hlt := stop_le_last F (i := c.ln + 1) (by have := w.ln0; omega) hl'
      have hlive' : BCur.live segs c1 = true := by rw [hc1]; simp [BCur.live, hl']; omega
      have hst2 : BCur.stopOf segs c1 = (BCur.segOf segs (c.ln + 1)).stop := by rw [hc1]; simp [BCur.stopOf, hl']
      have hw1 : BWF segs c1 := by
        rw [hc1]
        exact { ln0 := by have := w.ln0; simp; omega, pad0 := j2.2.2.2.1,
                inLine := fun _ => ⟨by simp, Or.inl (by simp; exact j2.2.1)⟩,
                past := fun hh => by simp at hh; omega }
      refine ⟨?_, hw1⟩
      have hr1 : BCur.remaining segs c1 = c1.pad + (BCur.stopOf segs c1 - c1.p) + BCur.viewsLen (segs.drop (c1.ln.toNat + 1)) := by
        simp [BCur.remaining, hlive']
      rw [hr1, hrem, hst2, hst]
      have e1 : c.ln.toNat + 1 = (c.ln + 1).toNat := by have := w.ln0; omega
      rw [e1, viewsLen_drop segs (c.ln + 1) (by have := w.ln0; omega) hl']
      rw [hc1]
      simp only
      omega
  · have e : BCur.adv1 segs c = { c with pad := c.pad - 1 } := by simp [BCur.adv1, hz]
    rw [e]
    have hpos : 0 < c.pad := by have := w.pad0; omega
    have hl3 : BCur.live segs { c with pad := c.pad - 1 } = true := hlive
    have : BCur.remaining segs { c with pad := c.pad - 1 } =
        (c.pad - 1) + (BCur.stopOf segs c - c.p) + BCur.viewsLen (segs.drop (c.ln.toNat + 1)) := by
      simp [BCur.remaining, hl3, BCur.stopOf]
    refine ⟨by rw [this, hrem]; omega, { ln0 := w.ln0, pad0 := by simp; omega, inLine := w.inLine, past := w.past }⟩

theorem rem_nonneg_live (h : 1 ≤ BCur.remaining segs c) : BCur.live segs c = true := by
  unfold BCur.remaining at h
  by_cases hl : BCur.live segs c = true
  · exact hl
  · simp [hl] at h

theorem badvanceLoop_ref (F : SegFacts src segs) (n : Nat) : ∀ {r : BlockReader} {c : BCur},
    BAbs src segs r c → r.lineOffset < 0 → (n : Int) ≤ BCur.remaining segs c →
    ∃ r', r.advanceLoop n = .ok r' ∧ BAbs src segs r' (BCur.advN segs n c) := by
  induction n with
  | zero => intro r c h _ _; exact ⟨r, rfl, h⟩
  | succ n ih =>
    intro r c h f2 hrem
    have w := h.wf
    have hlive := rem_nonneg_live (c := c) (segs := segs) (by omega)
    obtain ⟨hr1, hw1⟩ := rem_adv1 F w hlive
    have hrem1 : (n : Int) ≤ BCur.remaining segs (BCur.adv1 segs c) := by rw [hr1]; omega
    simp only [BCur.live, Bool.and_eq_true, decide_eq_true_eq] at hlive
    obtain ⟨l1, l2⟩ := hlive
    have i1 := w.inLine l1
    have hst : BCur.stopOf segs c = (BCur.segOf segs c.ln).stop := by simp [BCur.stopOf, l1]
    simp only [BlockReader.advanceLoop, BCur.advN]
    by_cases hz : c.pad = 0
    · have hz' : ¬ ((r.pos.padding != 0) = true) := by rw [h.pos]; simp [hz]
      rw [if_neg hz']
      by_cases hcond : r.pos.start ≥ r.pos.stop - 1 ∧ r.pos.stop < r.last
      · rw [if_pos hcond]
        rw [h.pos, h.last, hst] at hcond
        simp only at hcond
        have hl' : c.ln + 1 < BCur.k segs := by
          rcases Int.lt_or_le (c.ln + 1) (BCur.k segs) with a | a
          · exact a
          · have := F.last
            have e : BCur.k segs - 1 = c.ln := by omega
            rw [e] at this
            omega
        obtain ⟨r1, e1, hA1, f1⟩ := badvanceLine_ref F h
        rw [e1]
        simp only [bind, Except.bind]
        have e : BCur.adv1 segs c = BCur.advanceLine segs c := by
          have hin : ¬ (c.p + 1 < BCur.stopOf segs c ∨ BCur.k segs ≤ c.ln + 1) := by rw [hst]; omega
          simp [BCur.adv1, BCur.advanceLine, hz, hin, hl']
        rw [e] at hrem1 ⊢
        exact ih hA1 f1 hrem1
      · rw [if_neg hcond]
        rw [h.pos, h.last, hst] at hcond
        simp only at hcond
        have hin : c.p + 1 < BCur.stopOf segs c ∨ BCur.k segs ≤ c.ln + 1 := by
          rw [hst]
          by_cases a : c.p + 1 < (BCur.segOf segs c.ln).stop
          · left; exact a
          · right
            rcases Int.lt_or_le (c.ln + 1) (BCur.k segs) with b | b
            · have := stop_lt_last F w.ln0 b
              omega
            · exact b
        have e : BCur.adv1 segs c = { c with p := c.p + 1 } := by simp [BCur.adv1, hz, hin]
        rw [e] at hrem1 hw1 ⊢
        refine ih ?_ f2 hrem1
        exact { source := h.source, segments := h.segments, segLen := h.segLen, line := h.line
                pos := by simp [h.pos, BCur.stopOf], last := h.last, head := h.head, lo := Or.inl f2, wf := hw1 }
    · have hz' : (r.pos.padding != 0) = true := by rw [h.pos]; simp [hz]
      rw [if_pos hz']
      have e : BCur.adv1 segs c = { c with pad := c.pad - 1 } := by simp [BCur.adv1, hz]
      rw [e] at hrem1 hw1 ⊢
      refine ih ?_ f2 hrem1
      exact { source := h.source, segments := h.segments, segLen := h.segLen, line := h.line
              pos := by simp [h.pos, BCur.stopOf], last := h.last, head := h.head, lo := Or.inl f2, wf := hw1 }

/-- inside a line, with no padding, n steps are n bytes -/
theorem badvN_inline (segs : List Segment) (n : Nat) : ∀ (c : BCur), c.pad = 0 → c.p + n < BCur.stopOf segs c →
    BCur.advN segs n c = { c with p := c.p + n } := by
  induction n with
  | zero => intro c _ _; simp [BCur.advN]
  | succ n ih =>
    intro c hz hlt
    have hin : c.p + 1 < BCur.stopOf segs c ∨ BCur.k segs ≤ c.ln + 1 := Or.inl (by omega)
    have e : BCur.adv1 segs c = { c with p := c.p + 1 } := by simp [BCur.adv1, hz, hin]
    simp only [BCur.advN]
    rw [e, ih { c with p := c.p + 1 } hz (by simp [BCur.stopOf] at hlt ⊢; omega)]
    simp; omega

theorem badvance_ref (F : SegFacts src segs) (h : BAbs src segs r c) {n : Int} {c' : BCur}
    (hs : BCur.advance segs n c = .ok c') : ∃ r', r.advance n = .ok r' ∧ BAbs src segs r' c' := by
  unfold BCur.advance at hs
  by_cases hn : 0 ≤ n ∧ n ≤ BCur.remaining segs c
  · simp only [hn, and_self, if_true, Except.ok.injEq] at hs
    subst hs
    obtain ⟨hn0, hn1⟩ := hn
    obtain ⟨m, rfl⟩ : ∃ m : Nat, n = m := ⟨n.toNat, (Int.toNat_of_nonneg hn0).symm⟩
    simp only [Int.toNat_natCast]
    have w := h.wf
    have hclear : BAbs src segs { r with lineOffset := -1 } c :=
      { source := h.source, segments := h.segments, segLen := h.segLen, line := h.line, pos := h.pos,
        last := h.last, head := h.head, lo := Or.inl (by simp), wf := h.wf }
    unfold BlockReader.advance
    simp only
    by_cases hfast : ((m : Int) < r.pos.stop - r.pos.start) ∧ (r.pos.padding == 0) = true
    · rw [if_pos hfast]
      obtain ⟨hf1, hf2⟩ := hfast
      rw [h.pos] at hf1 hf2
      simp only at hf1 hf2
      have hz : c.pad = 0 := by simpa using hf2
      rw [badvN_inline segs m c hz (by omega)]
      refine ⟨_, rfl, ?_⟩
      by_cases hm : m = 0
      · subst hm
        simp only [Int.natCast_zero, Int.add_zero]
        exact hclear
      · have hlive := rem_nonneg_live (c := c) (segs := segs) (by omega)
        simp only [BCur.live, Bool.and_eq_true, decide_eq_true_eq] at hlive
        obtain ⟨l1, l2⟩ := hlive
        have i1 := w.inLine l1
        have hst : BCur.stopOf segs c = (BCur.segOf segs c.ln).stop := by simp [BCur.stopOf, l1]
        exact { source := h.source, segments := h.segments, segLen := h.segLen, line := h.line
                pos := by simp [h.pos, BCur.stopOf], last := h.last, head := h.head, lo := Or.inl (by simp)
                wf := { ln0 := w.ln0, pad0 := w.pad0,
                        inLine := fun _ => ⟨by simp; omega, Or.inl (by simp; omega)⟩,
                        past := fun hh => by simp at hh; omega } }
    · rw [if_neg hfast]
      simp only [Int.toNat_natCast]
      exact badvanceLoop_ref F m hclear (by simp) hn1
  · simp [hn] at hs


/-! ### every call of the block reader refines the cursor -/

theorem blockSim (F : SegFacts src segs) : Sim (BAbs src segs) blockOps (BCur.ops src segs) where
  peekLine := by
    intro r c x c' hA h
    simp only [BCur.ops, Except.ok.injEq] at h
    have h1 := bpeekLine_ref F hA
    have e2 : c' = c := by have := congrArg Prod.snd h; simpa [BCur.peekLine] using this.symm
    have e1 : x = (BCur.peekLine src segs c).1 := by rw [h]
    subst e2 e1
    exact ⟨r, h1, hA⟩
  advance := fun hA h => badvance_ref F hA h
  advanceLine := by
    intro r c c' hA h
    simp only [BCur.ops, Except.ok.injEq] at h
    subst h
    obtain ⟨r', h1, h2, _⟩ := badvanceLine_ref F hA
    exact ⟨r', h1, h2⟩
  position := fun hA => bposition_ref hA
  setPosition := fun hA h => bsetPosition_ref F hA h

theorem binit_ref (F : SegFacts src segs) (r : BlockReader) (hs : r.source = src) (hg : r.segments = segs)
    (hk : r.segmentsLength = BCur.k segs) :
    ∃ r', r.resetPosition = .ok r' ∧ BAbs src segs r' (BCur.init segs) := by
  have hk0 := F.kpos
  have i2 := F.rng 0 (by omega) hk0
  unfold BlockReader.resetPosition
  simp only [hk, hg, hk0, if_true, gt_iff_lt, segAt_ok segs (BCur.k segs - 1) (by omega) (by omega), bind, Except.bind,
    pure, Except.pure]
  unfold BlockReader.advanceLine BlockReader.setPosition
  simp only [beq_self_eq_true, if_true, hk, hg, show (-1 : Int) + 1 = 0 by omega, hk0, segAt_ok segs 0 (by omega) hk0,
    bind, Except.bind, pure, Except.pure]
  refine ⟨_, rfl, ?_⟩
  exact { source := hs, segments := rfl, segLen := rfl, line := rfl
          pos := by
            simp only [BCur.init, BCur.stopOf, hk0, if_true]
            exact seg_eta _ i2.2.2.2.2
          last := F.last.symm, head := fun _ => rfl, lo := Or.inl (by simp)
          wf := { ln0 := by simp [BCur.init], pad0 := i2.2.2.2.1,
                  inLine := fun _ => ⟨by simp [BCur.init], Or.inl (by simp [BCur.init]; exact i2.2.1)⟩,
                  past := fun hh => by simp [BCur.init] at hh; omega } }

theorem blockReader_refines (F : SegFacts src segs) {r : BlockReader} {c : BCur} (h : BAbs src segs r c) {op : Op}
    {out : Out} {c' : BCur} (hs : BCur.step src segs c op = .ok (out, c')) :
    ∃ r', r.step op = .ok (out, r') ∧ BAbs src segs r' c' := by
  cases op with
  | peek =>
    simp only [BCur.step, Except.ok.injEq, Prod.mk.injEq] at hs
    obtain ⟨e1, e2⟩ := hs; subst e1 e2
    exact ⟨r, by simp [BlockReader.step, bpeek_ref F h, bind, Except.bind, pure, Except.pure], h⟩
  | peekLine =>
    simp only [BCur.step, Except.ok.injEq, Prod.mk.injEq] at hs
    obtain ⟨e1, e2⟩ := hs; subst e1 e2
    exact ⟨r, by simp [BlockReader.step, bpeekLine_ref F h, bind, Except.bind, pure, Except.pure], h⟩
  | advance n =>
    simp only [BCur.step] at hs
    obtain ⟨c1, h1, h2⟩ := bind_ok hs
    simp only [pure, Except.pure, Except.ok.injEq, Prod.mk.injEq] at h2
    obtain ⟨e1, e2⟩ := h2; subst e1 e2
    obtain ⟨r', h3, h4⟩ := badvance_ref F h h1
    exact ⟨r', by simp [BlockReader.step, h3, bind, Except.bind, pure, Except.pure], h4⟩
  | advanceAndSetPadding n pad =>
    simp only [BCur.step] at hs
    obtain ⟨c1, h1, h2⟩ := bind_ok hs
    obtain ⟨r1, h3, h4⟩ := badvance_ref F h h1
    have hp : r1.pos.padding = c1.pad := by rw [h4.pos]
    by_cases hgt : pad > c1.pad
    · simp only [hgt, if_true] at h2
      obtain ⟨c2, h5, h6⟩ := bind_ok h2
      simp only [pure, Except.pure, Except.ok.injEq, Prod.mk.injEq] at h6
      obtain ⟨e1, e2⟩ := h6; subst e1 e2
      refine ⟨r1.setPadding pad, ?_, bsetPadding_ref h4 h5⟩
      simp [BlockReader.step, BlockReader.advanceAndSetPadding, h3, bind, Except.bind, pure, Except.pure, hp, hgt]
    · simp only [hgt, if_false, pure, Except.pure, Except.ok.injEq, Prod.mk.injEq] at h2
      obtain ⟨e1, e2⟩ := h2; subst e1 e2
      refine ⟨r1, ?_, h4⟩
      simp [BlockReader.step, BlockReader.advanceAndSetPadding, h3, bind, Except.bind, pure, Except.pure, hp, hgt]
  | advanceLine =>
    simp only [BCur.step, Except.ok.injEq, Prod.mk.injEq] at hs
    obtain ⟨e1, e2⟩ := hs; subst e1 e2
    obtain ⟨r', h1, h2, _⟩ := badvanceLine_ref F h
    exact ⟨r', by simp [BlockReader.step, h1, bind, Except.bind, pure, Except.pure], h2⟩
  | position =>
    simp only [BCur.step, Except.ok.injEq, Prod.mk.injEq] at hs
    obtain ⟨e1, e2⟩ := hs; subst e1 e2
    exact ⟨r, by simp [BlockReader.step, bposition_ref h, pure, Except.pure], h⟩
  | setPosition l s =>
    simp only [BCur.step] at hs
    obtain ⟨c1, h1, h2⟩ := bind_ok hs
    simp only [pure, Except.pure, Except.ok.injEq, Prod.mk.injEq] at h2
    obtain ⟨e1, e2⟩ := h2; subst e1 e2
    obtain ⟨r', h3, h4⟩ := bsetPosition_ref F h h1
    exact ⟨r', by simp [BlockReader.step, h3, bind, Except.bind, pure, Except.pure], h4⟩
  | setPadding v =>
    simp only [BCur.step] at hs
    obtain ⟨c1, h1, h2⟩ := bind_ok hs
    simp only [pure, Except.pure, Except.ok.injEq, Prod.mk.injEq] at h2
    obtain ⟨e1, e2⟩ := h2; subst e1 e2
    exact ⟨_, rfl, bsetPadding_ref h h1⟩
  | lineOffset =>
    simp only [BCur.step] at hs
    obtain ⟨⟨v, c1⟩, h1, h2⟩ := bind_ok hs
    simp only [pure, Except.pure, Except.ok.injEq, Prod.mk.injEq] at h2
    obtain ⟨e1, e2⟩ := h2; subst e1 e2
    obtain ⟨r', h3, h4⟩ := blineOffset_ref F h h1
    exact ⟨r', by simp [BlockReader.step, h3, bind, Except.bind, pure, Except.pure], h4⟩
  | value s => simp [BCur.step] at hs
  | skipSpaces =>
    simp only [BCur.step] at hs
    obtain ⟨⟨v, c1⟩, h1, h2⟩ := bind_ok hs
    simp only [pure, Except.pure, Except.ok.injEq, Prod.mk.injEq] at h2
    obtain ⟨e1, e2⟩ := h2; subst e1 e2
    obtain ⟨r', h3, h4⟩ := skipSpaces_sim (blockSim F) _ h h1
    exact ⟨r', by simp [BlockReader.step, h.source, h3, bind, Except.bind, pure, Except.pure], h4⟩
  | skipBlankLines =>
    simp only [BCur.step] at hs
    obtain ⟨⟨v, c1⟩, h1, h2⟩ := bind_ok hs
    simp only [pure, Except.pure, Except.ok.injEq, Prod.mk.injEq] at h2
    obtain ⟨e1, e2⟩ := h2; subst e1 e2
    obtain ⟨r', h3, h4⟩ := skipBlankLines_sim (blockSim F) _ h h1
    exact ⟨r', by simp [BlockReader.step, h.source, h3, bind, Except.bind, pure, Except.pure], h4⟩
  | readRune =>
    simp only [BCur.step] at hs
    obtain ⟨⟨v, c1⟩, h1, h2⟩ := bind_ok hs
    simp only [pure, Except.pure, Except.ok.injEq, Prod.mk.injEq] at h2
    obtain ⟨e1, e2⟩ := h2; subst e1 e2
    obtain ⟨r', h3, h4⟩ := readRune_sim (blockSim F) h h1
    exact ⟨r', by simp [BlockReader.step, h3, bind, Except.bind, pure, Except.pure], h4⟩
  | findClosure o cl opts =>
    simp only [BCur.step] at hs
    obtain ⟨⟨v, c1⟩, h1, h2⟩ := bind_ok hs
    simp only [pure, Except.pure, Except.ok.injEq, Prod.mk.injEq] at h2
    obtain ⟨e1, e2⟩ := h2; subst e1 e2
    obtain ⟨r', h3, h4⟩ := findClosure_sim (blockSim F) _ o cl opts h h1
    exact ⟨r', by simp [BlockReader.step, h.source, h3, bind, Except.bind, pure, Except.pure], h4⟩
  | precendingCharacter => simp [BCur.step] at hs
  | resetPosition =>
    simp only [BCur.step, Except.ok.injEq, Prod.mk.injEq] at hs
    obtain ⟨e1, e2⟩ := hs; subst e1 e2
    obtain ⟨r', h1, h2⟩ := binit_ref F r h.source h.segments h.segLen
    exact ⟨r', by simp [BlockReader.step, h1, bind, Except.bind, pure, Except.pure], h2⟩

/-- NewBlockReader stands for the cursor at the head of the first line view -/
theorem blockReader_init (F : SegFacts src segs) :
    ∃ r, BlockReader.new src segs = .ok r ∧ BAbs src segs r (BCur.init segs) := by
  unfold BlockReader.new
  exact binit_ref F _ rfl rfl rfl


/-! ### restoring positions (block reader) -/

theorem bcur_wfpos_seg (F : SegFacts src segs) (c : BCur) (w : BWF segs c) :
    BCur.WFPos segs c.ln (BCur.seg segs c) := by
  refine ⟨w.ln0, w.pad0, rfl, ?_⟩
  by_cases hl : c.ln < BCur.k segs
  · have i1 := w.inLine hl
    simp only [hl, if_true, BCur.seg, BCur.stopOf]
    exact ⟨trivial, i1.1, i1.2⟩
  · have i1 := w.past (by omega)
    simp only [hl, if_false, BCur.seg, BCur.stopOf]
    exact ⟨trivial, i1.1, i1.2⟩

theorem bcur_setPosition_seg (F : SegFacts src segs) (c c2 : BCur) (w : BWF segs c) :
    BCur.setPosition segs c.ln (BCur.seg segs c) c2 = .ok c := by
  unfold BCur.setPosition
  rw [if_pos (bcur_wfpos_seg F c w)]
  cases c; simp [BCur.seg]

theorem blockReader_setPosition_restores (F : SegFacts src segs) {r r2 : BlockReader} {c c2 : BCur}
    (h : BAbs src segs r c) (h2 : BAbs src segs r2 c2) :
    ∃ r3, r2.setPosition r.position.1 r.position.2 = .ok r3 ∧ BAbs src segs r3 c := by
  rw [bposition_ref h]
  exact bsetPosition_ref F h2 (bcur_setPosition_seg F c c2 h.wf)

theorem blockReader_findClosure_noAdvance (F : SegFacts src segs) {c c' : BCur} {o cl : UInt8}
    {opts : FindClosureOptions} {out : Out} (hadv : opts.advance = false) (w : BWF segs c)
    (hs : BCur.step src segs c (.findClosure o cl opts) = .ok (out, c')) : c' = c := by
  simp only [BCur.step] at hs
  obtain ⟨⟨v, c1⟩, h1, h2⟩ := bind_ok hs
  simp only [pure, Except.pure, Except.ok.injEq, Prod.mk.injEq] at h2
  obtain ⟨_, e2⟩ := h2; subst e2
  obtain ⟨s1, h3⟩ := findClosure_noAdvance_generic (BCur.ops src segs) _ o cl opts hadv h1
  have : (BCur.ops src segs).setPosition ((BCur.ops src segs).position c).1 ((BCur.ops src segs).position c).2 s1 = .ok c :=
    bcur_setPosition_seg F c s1 w
  rw [this] at h3
  simp only [Except.ok.injEq] at h3
  exact h3.symm

theorem blockReader_peek_head (F : SegFacts src segs) {r : BlockReader} {c : BCur} (h : BAbs src segs r c) :
    ∃ l s r', r.peekLine = .ok ((l, s), r') ∧ r.peek = .ok (match l with | some (b :: _) => b | _ => 255) :=
  ⟨_, _, r, bpeekLine_ref F h, by rw [bpeek_ref F h]; rfl⟩


/-! ### BlockReader.Value -/

theorem valueFindLine_ok (F : SegFacts src segs) (h : BAbs src segs r c) (s : Segment) (j : Nat)
    (hj : (j : Int) < BCur.k segs) (h1 : (BCur.segOf segs j).start ≤ s.start)
    (h2 : ∀ i : Nat, j < i → (i : Int) < BCur.k segs → s.start < (BCur.segOf segs i).start) :
    ∀ m : Nat, j + 1 ≤ m → (m : Int) ≤ BCur.k segs → BlockReader.valueFindLine r s m = .ok (j : Int) := by
  intro m
  induction m with
  | zero => intro h; omega
  | succ m ih =>
    intro hm hk
    simp only [BlockReader.valueFindLine, h.segments, segAt_ok segs (m : Int) (by omega) (by omega), bind, Except.bind]
    by_cases e : m = j
    · subst e
      simp [h1, pure, Except.pure]
    · have := h2 m (by omega) (by omega)
      have hn : ¬ (s.start ≥ (BCur.segOf segs (m : Int)).start) := by omega
      simp only [hn, if_false]
      exact ih (by omega) (by omega)

theorem copyRange_ok (src : Bytes) {a b : Int} (ha : 0 ≤ a) (hb : a ≥ b ∨ b ≤ src.length) :
    BlockReader.copyRange src a b = .ok (sub src a.toNat b.toNat) := by
  unfold BlockReader.copyRange
  by_cases e : a ≥ b
  · have : b.toNat - a.toNat = 0 := by omega
    simp [e, sub, this]
  · have e2 : ¬ (a < 0 ∨ b > (src.length : Int)) := by omega
    simp [e, e2]

/-- the loop of Value from the head of line `line` on (`i = -1`): every line contributes its view up to the stop -/
theorem valueLoop_rest (F : SegFacts src segs) (h : BAbs src segs r c) (s : Segment) (fuel : Nat) :
    ∀ (line : Int) (ret : Bytes), 0 ≤ line → line ≤ BCur.k segs → fuel = (BCur.k segs - line).toNat →
    BlockReader.valueLoop r s fuel line (-1) ret = .ok (ret ++ BCur.valueRest src s.stop (segs.drop line.toNat)) := by
  induction fuel with
  | zero =>
    intro line ret h0 h1 hf
    have : segs.length ≤ line.toNat := by simp [BCur.k] at h1 hf ⊢; omega
    simp [BlockReader.valueLoop, List.drop_eq_nil_of_le this, BCur.valueRest, pure, Except.pure]
  | succ fuel ih =>
    intro line ret h0 h1 hf
    have hlt : line < BCur.k segs := by omega
    have rng := F.rng line h0 hlt
    have hltn : line.toNat < segs.length := by simp [BCur.k] at hlt; omega
    have hg := segOf_get segs line h0 hlt
    rw [List.getElem?_eq_getElem hltn] at hg
    simp only [Option.some.injEq] at hg
    simp only [BlockReader.valueLoop, h.segments, segAt_ok segs line h0 hlt, bind, Except.bind, h.source,
      show ((-1 : Int) < 0) by omega, if_true, beq_self_eq_true]
    have hcopy := copyRange_ok src (a := (BCur.segOf segs line).start)
      (b := if s.stop < (BCur.segOf segs line).stop then s.stop else (BCur.segOf segs line).stop) rng.1
      (by split <;> omega)
    rw [hcopy]
    simp only
    rw [List.drop_eq_getElem_cons hltn, hg]
    simp only [BCur.valueRest]
    by_cases hge : (BCur.segOf segs line).stop ≥ s.stop
    · simp only [hge, if_true, pure, Except.pure]
      simp [Segment.concatPadding]
      split <;> simp
    · simp only [hge, if_false]
      rw [ih (line + 1) _ (by omega) (by omega) (by omega)]
      have e : (line + 1).toNat = line.toNat + 1 := by omega
      rw [e]
      simp [Segment.concatPadding]
      split <;> simp

/-- Value(seg) for a segment that starts in line `j` and may run on over later lines -/
theorem bvalue_multi (F : SegFacts src segs) (h : BAbs src segs r c) (j : Nat) (s : Segment)
    (hp : BCur.valueLineAt segs j s) : r.valueOp s = .ok (BCur.blockValue src segs j s) := by
  obtain ⟨l, hl, p1, p2, p6⟩ := hp
  have hjlt : j < segs.length := by
    rcases Nat.lt_or_ge j segs.length with a | a
    · exact a
    · simp [List.getElem?_eq_none a] at hl
  have hjk : (j : Int) < BCur.k segs := by simp [BCur.k]; omega
  have hseg : BCur.segOf segs (j : Int) = l := by
    have := segOf_get segs (j : Int) (by omega) hjk
    simp only [Int.toNat_natCast] at this
    rw [hl] at this
    simp at this
    exact this.symm
  have rng := F.rng (j : Int) (by omega) hjk
  rw [hseg] at rng
  have hlater : ∀ i : Nat, j < i → (i : Int) < BCur.k segs → s.start < (BCur.segOf segs i).start := by
    intro i hi hik
    have hj1 : ((j + 1 : Nat) : Int) < BCur.k segs := by omega
    have g := segOf_get segs ((j + 1 : Nat) : Int) (by omega) hj1
    simp only [Int.toNat_natCast] at g
    have := p6 _ g
    by_cases e : i = j + 1
    · subst e; exact this
    · have m := F.mono ((j + 1 : Nat) : Int) (i : Int) (by omega) (by omega) hik
      have r1 := F.rng ((j + 1 : Nat) : Int) (by omega) hj1
      omega
  unfold BlockReader.valueOp
  have e0 : ¬ (s.stop - s.start + 1 < 0) := by omega
  simp only [e0, if_false, bind, Except.bind, pure, Except.pure, h.segLen]
  have hk : (BCur.k segs).toNat = segs.length := by simp [BCur.k]
  rw [hk, valueFindLine_ok F h s j hjk (by rw [hseg]; exact p1) hlater segs.length (by omega) (by simp [BCur.k])]
  simp only
  obtain ⟨f, hf⟩ : ∃ f, (BCur.k segs - (j : Int)).toNat = f + 1 := ⟨(BCur.k segs - (j : Int)).toNat - 1, by omega⟩
  rw [hf]
  simp only [BlockReader.valueLoop, h.segments, segAt_ok segs (j : Int) (by omega) hjk, hseg, bind, Except.bind, h.source]
  have hi : ¬ (s.start < 0) := by omega
  simp only [hi, if_false]
  have hcopy := copyRange_ok src (a := s.start) (b := if s.stop < l.stop then s.stop else l.stop) (by omega)
    (by split <;> omega)
  rw [hcopy]
  simp only [BCur.blockValue, hl]
  by_cases hge : l.stop ≥ s.stop
  · simp only [hge, if_true, pure, Except.pure]
    by_cases he : s.start = l.start
    · simp [he]
    · simp [he]
  · simp only [hge, if_false]
    rw [valueLoop_rest F h s f ((j : Int) + 1) _ (by omega) (by omega) (by omega)]
    have e : ((j : Int) + 1).toNat = j + 1 := by omega
    rw [e]
    by_cases he : s.start = l.start
    · simp [he]
    · simp [he]

/-- inside one line the meaning is the segment's own value -/
theorem blockValue_single (src : Bytes) (segs : List Segment) (j : Nat) (s : Segment) (hp : BCur.valuePreAt segs j s) :
    BCur.blockValue src segs j s = segValue src s := by
  obtain ⟨l, hl, p1, p2, p3, p4, p5, p6⟩ := hp
  have hhi : (if s.stop < l.stop then s.stop else l.stop) = s.stop := by split <;> omega
  have hge : l.stop ≥ s.stop := by omega
  simp only [BCur.blockValue, hl, hhi, hge, if_true, List.append_nil]
  unfold segValue Segment.concatPadding
  simp only [p5, Bool.false_and, Bool.false_eq_true, if_false]
  rcases p4 with ⟨a, b⟩ | ⟨a, b⟩
  · simp only [a, if_true, b]
    by_cases hpad : l.padding > 0
    · simp [hpad]
    · have : l.padding.toNat = 0 := by omega
      simp [hpad, this, spaces]
  · have : ¬ s.start = l.start := by omega
    simp [this, b, spaces]

/-- Value(seg) of the block reader is the segment's own value when `valuePreAt j seg` holds for some line j -/
theorem bvalue_ref (F : SegFacts src segs) (h : BAbs src segs r c) (j : Nat) (s : Segment)
    (hp : BCur.valuePreAt segs j s) : r.valueOp s = .ok (segValue src s) := by
  have hp' : BCur.valueLineAt segs j s := by
    obtain ⟨l, hl, p1, p2, _, _, _, p6⟩ := hp
    exact ⟨l, hl, p1, p2, p6⟩
  rw [bvalue_multi F h j s hp', blockValue_single src segs j s hp]

end GM.Proof.Reader
