/-
  GM.Proof.CMFrag20Defs — stage 20 (underscore emphasis inside the text lines): lines made of text atoms, `_emphasis_` and
  `__strong emphasis__` atoms, as source bytes, as renderer nodes and as HTML. (Definitions only.)
-/
import GM.Proof.CMFrag11Defs

namespace GM.Proof.CMFrag
open GM GM.Text

/-- a piece of a line: literal text, `_bs_`, `__bs__` -/
inductive UnAtom where
  | txt (bs : Bytes)
  | em (bs : Bytes)
  | strong (bs : Bytes)
deriving Repr, Inhabited

def unatomSrc : UnAtom → Bytes
  | .txt bs => bs
  | .em bs => [95] ++ bs ++ [95]
  | .strong bs => [95, 95] ++ bs ++ [95, 95]

def unlineSrc (as : List UnAtom) : Bytes := as.flatMap unatomSrc

def UnAtom.isTxt : UnAtom → Bool
  | .txt _ => true
  | _ => false

/-- text atoms and emphasis atoms alternate -/
def unalternating : List UnAtom → Bool
  | a :: b :: rest => (a.isTxt != b.isTxt) && unalternating (b :: rest)
  | _ => true

/-- text = as `AtomOK (.txt bs)` (an `_` in it is escaped); em, strong = non-empty letters and digits -/
def UnAtomOK : UnAtom → Prop
  | .txt bs => bs ≠ [] ∧ (∀ i, quiet bs i false = true) ∧ escAfter bs false = false
  | .em bs => bs ≠ [] ∧ ∀ c ∈ bs, GM.Spec.CM.isAlnumC c = true
  | .strong bs => bs ≠ [] ∧ ∀ c ∈ bs, GM.Spec.CM.isAlnumC c = true

/-- a source byte that may stand directly outside a `_` run: white space or ASCII punctuation (the model's own
    classes; with it the opening run is left- and not right-flanking, the closing run right- and not left-flanking) -/
def unNbOK (c : UInt8) : Bool := isSpace c || isPunct c

/-- a rich line with underscore emphasis: as `ERichLine`, and the source byte directly before an opening run and
    directly after a closing run is white space or ASCII punctuation (`a_b_c` and `a _b_c` are literal text, in
    CommonMark and in goldmark) -/
structure UnRichLine (as : List UnAtom) : Prop where
  alt : unalternating as = true
  first : ∃ bs rest, as = .txt bs :: rest ∧ ∀ c, bs.head? = some c → GM.Spec.CM.isLetter c = true
  last : ∃ init bs, as = init ++ [.txt bs] ∧ (∀ c, bs.getLast? = some c → isSpace c = false ∧ c ≠ 92)
  ok : ∀ a ∈ as, UnAtomOK a
  nb : ∀ init a x b rest, as = init ++ [.txt a, x, .txt b] ++ rest → x.isTxt = false →
    (∀ c, a.getLast? = some c → unNbOK c = true) ∧ (∀ c, b.head? = some c → unNbOK c = true)

/-- the nodes of one line as the renderer reads them; `soft`: the line is not the last of its paragraph -/
def unatomNodes (soft : Bool) : List UnAtom → List GM.Node
  | [] => []
  | [.txt bs] => [.mk (.text bs soft false false false) none []]
  | .txt bs :: rest => .mk (.text bs false false false false) none [] :: unatomNodes soft rest
  | .em bs :: rest => .mk (.emphasis 1) none [.mk (.text bs false false false false) none []] :: unatomNodes soft rest
  | .strong bs :: rest =>
    .mk (.emphasis 2) none [.mk (.text bs false false false false) none []] :: unatomNodes soft rest

def unrichNodes : List (List UnAtom) → List GM.Node
  | [] => []
  | [l] => unatomNodes false l
  | l :: l' :: rest => unatomNodes true l ++ unrichNodes (l' :: rest)

/-- the HTML of one atom -/
def unatomHtml : UnAtom → Bytes
  | .txt bs => GM.write false bs
  | .em bs => strBytes "<em>" ++ GM.write false bs ++ strBytes "</em>"
  | .strong bs => strBytes "<strong>" ++ GM.write false bs ++ strBytes "</strong>"

def unrichLineHtml (as : List UnAtom) : Bytes := as.flatMap unatomHtml

end GM.Proof.CMFrag
