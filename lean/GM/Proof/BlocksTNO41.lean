/-
  GM.Proof.BlocksTNO15 — the close discipline through one pass of the `for i` loop of parseBlocksT
  (GM.Proof.BlocksClosedLoop for the driver WITH transformers). The walk is the one of `L.G.lineLoopL` (hypotheses:
  `StableG`, the list hints, `InvG` up to the line start); it carries `CInvG src s s.pc.opened` along.
-/
import GM.Proof.BlocksTNO40

namespace GM.Blocks.TX
open GM GM.Text GM.Spec GM.Proof.Reader GM.LinkRef GM.Blocks.L GM.Blocks.T GM.Blocks.TO GM.TableX
open GM.Proof.BlocksWF0 (isRaw)

/-- a step that writes only the lines of one raw node (`Continue` of a code block, a fenced code block, an HTML block) -/
theorem CInvG.onlyN {src : Bytes} {s s' : St} {U : List Block} {X : Nat} (h : CInvG False src s U) (ho : OnlyN X s s')
    (hraw : isRaw (nd s X).kind = true) (hpc : s'.pc = s.pc) (hinv' : ∃ B, InvG src B s') (hl : LinksKept s s') :
    CInvG False src s' U := by
  have hlinks : ∀ i, (nd s' i).parent = (nd s i).parent ∧ (nd s' i).children = (nd s i).children := by
    intro i
    rcases Nat.lt_or_ge i s.nodes.length with hi | hi
    · exact hl.2.1 i hi
    · rw [nd_default_of_ge s hi, nd_default_of_ge s' (by rw [ho.1]; exact hi)]; exact ⟨rfl, rfl⟩
  refine ⟨(by obtain ⟨B', hB'⟩ := hinv'; exact ⟨B', _, hB'⟩), h.tree.of_links hlinks, fun i hr => ?_,
    fun g hg => by rw [(hlinks g.node).1]; exact h.att g hg, h.nodup, fun g hg => by rw [hpc]; exact h.sub g hg,
    fun i hn => by
      by_cases hx : i = X
      · subst hx; rw [ho.2.2] at hn; have := noLinesKind_old hn; rw [noLinesKind_of_raw hraw] at this; cases this
      · rw [ho.2.1 i hx] at hn ⊢; exact h.nl i hn⟩
  by_cases hx : i = X
  · subst hx; rw [ho.2.2, hraw] at hr; cases hr
  · rw [ho.2.1 i hx] at hr ⊢
    rcases h.pad i hr with hc | hc | hab
    · exact .inl hc
    · exact .inr (.inl hc)
    · exact .inr (.inr hab)

/-- what a pass over the opened blocks ends in: the close discipline holds for the new stack, and at the end of the
    source the stack is empty -/
def QLG (src : Bytes) (x : LineOutcome × List LineStat) (s' : St) : Prop :=
  CInvG False src s' s'.pc.opened ∧ (x.1 = LineOutcome.eof → s'.pc.opened = [])

/-- a stack has one leaf at most: a Paragraph block and a setext block cannot both be open -/
theorem leaf_unique {ob : List Block} (h : Leafy ob) {g b : Block} (hg : g ∈ ob) (hb : b ∈ ob)
    (hgp : g.bp = .paragraph) (hbs : b.bp = .setext) : False := by
  have hlg : ob.getLast? = some g := by
    rcases mem_dropLast_or_last ob g hg with h' | h'
    · have := h g h'; rw [hgp] at this; cases this
    · exact h'
  have hlb : ob.getLast? = some b := by
    rcases mem_dropLast_or_last ob b hb with h' | h'
    · have := h b h'; rw [hbs] at this; cases this
    · exact h'
  rw [hlg] at hlb
  cases hlb
  rw [hgp] at hbs; cases hbs

/-- `Continue` of the eight list-free parsers, on a block that is not a Paragraph: the close discipline is kept -/
theorem bpContinue_cinvG {src : Bytes} {s s' : St} {st : PState} {U : List Block} (bp : BP) (node : Nat)
    (hi : CInvG False src s U) (c : RCur) (hri : RI src s.r c)
    (hnl : bp ≠ .list ∧ bp ≠ .listItem) (hnp : bp ≠ .paragraph) (hk : (nd s node).kind = bp.kind)
    (hpc : s'.pc = s.pc) (hinv' : ∃ B, InvG src B s') (e : bpContinue bp node s = .ok (st, s')) : CInvG False src s' U := by
  have same : s' = s → CInvG False src s' U := fun h => by rw [h]; exact hi
  have raw : isRaw bp.kind = true → FrN node (bpContinue bp node) → CInvG False src s' U := fun hr hf =>
    hi.onlyN (hf.h s st s' e) (by rw [hk]; exact hr) hpc hinv' ((bpContinue_frl bp node).h s st s' e)
  cases bp
  case setext => exact same (by have e' : (pure stClose : M PState) s = .ok (st, s') := e; exact (opure_ok e').2)
  case thematic => exact same (by have e' : (pure stClose : M PState) s = .ok (st, s') := e; exact (opure_ok e').2)
  case list => exact absurd rfl hnl.1
  case listItem => exact absurd rfl hnl.2
  case code => exact raw rfl codeContinue_frn
  case atx => exact same (by have e' : (pure stClose : M PState) s = .ok (st, s') := e; exact (opure_ok e').2)
  case fenced => exact raw rfl fencedContinue_frn
  case blockquote =>
    have e' : blockquoteContinue node s = .ok (st, s') := e
    unfold blockquoteContinue at e'
    obtain ⟨b, s1, h1, k1⟩ := obind_ok e'
    obtain ⟨r1, c1, hs1, _⟩ := (blockquoteProcess_okl hri).of_ok h1
    have hs' : s' = s1 := by
      split at k1
      · exact (opure_ok k1).2
      · exact (opure_ok k1).2
    rw [hs', hs1]
    exact hi.of_same rfl rfl rfl
  case html => exact raw rfl htmlContinue_frn
  case paragraph => exact absurd rfl hnp

section run
variable {src : Bytes} {pts : List PT} (hag : AgreeP src pts pts) (hagT : AgreeT src pts) (lsp : LSp src) {e : Panic} (hsp : GM.Blocks.L.G.X.PTsSpecX src e pts)
include hag hagT lsp hsp

/-- the fall-through continuation of one iteration of the `for i` loop; hypotheses as `lineFL` -/
theorem lineFT_clG {root : Nat} (Lb : Int) (parent : Nat) (hroot : parent = root) (pre : List Block) (be : Block)
    (rest : List Block) (ob : List Block) (li i : Int)
    (hob : ob = pre ++ be :: rest) (hli : li = (ob.length : Int) - 1) (hi : i = (pre.length : Int))
    (blank : Bool) (bl' : List LineStat) (s : St) (c : RCur) (x : LineOutcome × List LineStat) (s' : St)
    (hop : s.pc.opened = ob) (hri : RI src s.r c) (hpad : PadOK c) (hst : GM.Blocks.L.G.X.StableG src root s)
    (hmode : (nd s (lastNode root pre)).kind = .list → Due src s c (lastNode root pre))
    (hinv : InvG src Lb s) (hle : Lb ≤ c.p) (hpl : PadL Lb c) (hci : CInvG False src s s.pc.opened)
    (e0 : (if (i != 0) = true then do
          let b ← liftE (blockAt ob (i - 1))
          let thisParent ← pure b.node
          let lastNode ← liftE (blockAt ob li)
          let result ← openBlocksT pts thisParent blank
          if (result != OpenResult.paragraphContinuation) = true then do
              let __do_lift ← getPc
              closeBlocksT pts
                  (if (Option.map (fun x => x.node) (slotAfter ob __do_lift.opened li.toNat) != some lastNode.node) = true then
                    li - 1
                  else li)
                  i
              pure (LineOutcome.next, bl')
            else pure (LineOutcome.next, bl')
        else do
          let thisParent ← pure parent
          let lastNode ← liftE (blockAt ob li)
          let result ← openBlocksT pts thisParent blank
          if (result != OpenResult.paragraphContinuation) = true then do
              let __do_lift ← getPc
              closeBlocksT pts
                  (if (Option.map (fun x => x.node) (slotAfter ob __do_lift.opened li.toNat) != some lastNode.node) = true then
                    li - 1
                  else li)
                  i
              pure (LineOutcome.next, bl')
            else pure (LineOutcome.next, bl') : M _) s = .ok (x, s')) : QLG src x s' := by
  split at e0
  · next hi0 =>
    have hpos : 1 ≤ pre.length := by
      have : i ≠ 0 := by simpa using hi0
      omega
    have hlt : pre.length - 1 < ob.length := by rw [hob]; simp; omega
    have hba : blockAt ob (i - 1) = .ok ob[pre.length - 1] := by
      have : i - 1 = ((pre.length - 1 : Nat) : Int) := by omega
      rw [this]; exact blockAt_ok ob _ hlt
    obtain ⟨b, s1, h1, k1⟩ := obind_ok e0
    obtain ⟨hbv', hs1⟩ := oliftE_ok h1
    subst s1
    have hbv : b = ob[pre.length - 1] := by rw [hba] at hbv'; cases hbv'; rfl
    obtain ⟨tp, s2, h2, k2⟩ := obind_ok k1
    obtain ⟨htp, hs2⟩ := opure_ok h2
    subst s2
    subst tp
    have hbn : b.node = lastNode root pre := by
      rw [hbv]
      subst hob
      exact lastNode_pre root pre be rest hpos hlt
    exact lineTailT_clG hag hagT lsp hsp Lb pre be rest ob li i hob hli hi b.node blank bl' s c x s' hop hri hpad hst hbn
      (by rw [hbn]; exact hmode) hinv hle hpl hci k2
  · next hi0 =>
    obtain ⟨tp, s2, h2, k2⟩ := obind_ok e0
    obtain ⟨htp, hs2⟩ := opure_ok h2
    subst s2
    subst tp
    have hpe : pre = [] := by
      have : i = 0 := by simpa using hi0
      exact List.length_eq_zero_iff.1 (by omega)
    have hbn : parent = lastNode root pre := by rw [hpe, hroot]; rfl
    exact lineTailT_clG hag hagT lsp hsp Lb pre be rest ob li i hob hli hi parent blank bl' s c x s' hop hri hpad hst hbn
      (by rw [hbn]; exact hmode) hinv hle hpl hci k2

/-- **one pass of the `for i` loop (parser.go:1081-1123) keeps the close discipline**; hypotheses as `lineLoop_ord` -/
theorem lineLoopT_clG {root : Nat} (parent : Nat) (hroot : parent = root) (ob : List Block) (li : Int)
    (hli : li = (ob.length : Int) - 1) (Lb : Int) :
    ∀ (rest pre : List Block) (i : Int) (bl : List LineStat) (s : St) (c : RCur)
      (x : LineOutcome × List LineStat) (s' : St), ob = pre ++ rest → i = (pre.length : Int) →
      s.pc.opened = ob → RI src s.r c → PadOK c → GM.Blocks.L.G.X.StableG src root s →
      (∀ Lk, pre.getLast? = some Lk → Lk.bp = .list → ListHint src s c Lk.node) →
      InvG src Lb s → Lb ≤ c.p → PadL Lb c → CInvG False src s s.pc.opened →
      lineLoopT pts parent ob li rest i bl s = .ok (x, s') → QLG src x s' := by
  intro rest
  induction rest with
  | nil =>
    intro pre i bl s c x s' _ _ _ hri hpad _ _ hinv hle hpl hci h
    unfold lineLoopT at h
    obtain ⟨hx, hs⟩ := opure_ok h
    subst s'
    subst x
    exact ⟨hci, fun h => by cases h⟩
  | cons be rest ih =>
    intro pre i bl s c x s' hob hi hop hri hpad hst hhint hinv hle hpl hci h
    unfold lineLoopT at h
    obtain ⟨y, s1, h1, k1⟩ := obind_ok h
    obtain ⟨rfl, r1, hs1, hr1⟩ := peekLine_inv hri h1
    subst s1
    dsimp only at k1
    have hst1 : GM.Blocks.L.G.X.StableG src root { s with r := r1 } := hst.congr rfl rfl rfl rfl
    have hhint1 : ∀ Lk, pre.getLast? = some Lk → Lk.bp = .list → ListHint src { s with r := r1 } c Lk.node := hhint
    have hc1 : CleanG src Lb { s with r := r1 } c := ⟨hinv.congr_r r1, hr1, hpad, hle, hpl⟩
    have hci1 : CInvG False src { s with r := r1 } s.pc.opened := hci.of_same rfl rfl rfl
    cases hv : RCur.view src c with
    | none =>
      rw [hv] at k1
      dsimp only at k1
      obtain ⟨_, s2, h2, k2⟩ := obind_ok k1
      have e1 : li = (([] : List Block).length : Int) + (ob.length : Int) - 1 := by simp [hli]
      have h2' : closeBlocksT pts ((([] : List Block).length : Int) + (ob.length : Int) - 1) (([] : List Block).length : Int)
          { s with r := r1 } = .ok ((), s2) := by rw [← e1]; exact h2
      obtain ⟨a1, a2, _⟩ := closeBlocksT_mid hag hagT [] ob [] (by show s.pc.opened = _; rw [hop]; simp) hci1 hr1.source
        (fun b hb => (hop ▸ hst.leafy) b (by rw [List.tail_reverse] at hb; simpa using hb))
        (fun g hg => by cases hg) h2'
      obtain ⟨_, s3, h3, k3⟩ := obind_ok k2
      have e3 : s3 = { s2 with r := s2.r.advanceLine } := by cases h3; rfl
      obtain ⟨hx, hs⟩ := opure_ok k3
      subst s'
      subst s3
      subst x
      exact ⟨a1.of_same rfl rfl rfl, fun _ => by show s2.pc.opened = []; rw [a2]; rfl⟩
    | some line =>
      rw [hv] at k1
      dsimp only at k1
      have hp : c.p < src.length := view_some_lt src c hv
      have hlineOf : lineOf src c = line := by unfold lineOf; rw [hv]; rfl
      obtain ⟨pos, s2, h2, k2⟩ := obind_ok k1
      have e2 : s2 = { s with r := r1 } := by cases h2; rfl
      subst s2
      obtain ⟨n, s3, h3, k3⟩ := obind_ok k2
      obtain ⟨hn, e3⟩ := ogetNode_ok h3
      subst s3
      subst n
      have hbemem : be ∈ s.pc.opened := by rw [hop, hob]; simp
      have hbeok := hst1.blocks be hbemem
      obtain ⟨hchpre, hlink, hchrest⟩ := chainedO_split (hob ▸ hop ▸ hst1.chain)
      -- common treatment of the answer `st` of `Continue`, in state `s2`
      have after : ∀ (K : M (LineOutcome × List LineStat)) (st : PState) (s2 : St) (c2 : RCur) (blankv : Bool)
          (bl' : List LineStat), GM.Blocks.L.G.X.StableG src root s2 → s2.pc.opened = ob → PadOK c2 →
          ((st.cont = true ∧ st.hasChildren = false) ∨ RI src s2.r c2) →
          (be.bp.isContainer = true → st.cont = true → st.hasChildren = true) →
          (be.bp.isContainer = false → st.hasChildren = false) →
          (st.cont = true → ∀ Lk, (pre ++ [be]).getLast? = some Lk → Lk.bp = .list → ListHint src s2 c2 Lk.node) →
          CInvG False src s2 s2.pc.opened →
          ((st.hasChildren = true ∨ st.cont = false) → RI src s2.r c2 → InvG src Lb s2 ∧ Lb ≤ c2.p ∧ PadL Lb c2) →
          (st.cont = false → RI src s2.r c2 → K s2 = .ok (x, s') → QLG src x s') →
          (if st.cont = true then
              if (st.hasChildren && i == li) = true then
                openBlocksT pts be.node blankv >>= fun _ => pure (LineOutcome.next, bl')
              else
                if (!false) = true then lineLoopT pts parent ob li rest (i + 1) bl' else K
            else
              if (!true) = true then lineLoopT pts parent ob li rest (i + 1) bl' else K) s2 = .ok (x, s') →
          QLG src x s' := by
        intro K st s2 c2 blankv bl' hst2 hop2 hpad2 hcase2 hcontc hleafc hhint2 hci2 hmine hK e
        by_cases hcont : st.cont = true
        · rw [if_pos hcont] at e
          by_cases hch : (st.hasChildren && i == li) = true
          · rw [if_pos hch] at e
            simp only [Bool.and_eq_true] at hch
            have hri2 : RI src s2.r c2 := by
              rcases hcase2 with ⟨_, h⟩ | h
              · rw [hch.1] at h; cases h
              · exact h
            have hbec : be.bp.isContainer = true := by
              cases hc : be.bp.isContainer with
              | true => rfl
              | false => have := hleafc hc; rw [hch.1] at this; cases this
            obtain ⟨m1, m2, m3⟩ := hmine (.inl hch.1) hri2
            obtain ⟨res, s3, h3', k3'⟩ := obind_ok e
            have hbe2 := hst2.blocks be (by rw [hop2, hob]; simp)
            have how := (openBlocksT_clG hag hagT Lb be.node blankv s2 c2 res s3 ⟨m1, hri2, hpad2, m2, m3⟩ (ent_of_stable hst2) hci2
              hbe2.lt (by rw [hbe2.kind]; exact container_kind_ne_paragraph hbec) h3').1
            obtain ⟨hx, hs⟩ := opure_ok k3'
            subst s'
            subst x
            exact ⟨how.ci, fun h => by cases h⟩
          · rw [if_neg hch, if_pos (by rfl)] at e
            by_cases hhc : st.hasChildren = true
            · have hri2 : RI src s2.r c2 := by
                rcases hcase2 with ⟨_, h⟩ | h
                · rw [hhc] at h; cases h
                · exact h
              obtain ⟨m1, m2, m3⟩ := hmine (.inl hhc) hri2
              exact ih (pre ++ [be]) (i + 1) _ s2 c2 x s' (by rw [hob]; simp) (by simp; omega) hop2 hri2 hpad2 hst2
                (hhint2 hcont) m1 m2 m3 hci2 e
            · have hbec : be.bp.isContainer = false := by
                cases hc : be.bp.isContainer with
                | false => rfl
                | true => exact absurd (hcontc hc hcont) hhc
              have hrest : rest = [] := by
                obtain ⟨_, hbe, _, _⟩ := leafy_split (hob ▸ hop ▸ hst.leafy)
                cases rest with
                | nil => rfl
                | cons r rs => have := hbe (by simp); rw [hbec] at this; cases this
              subst hrest
              unfold lineLoopT at e
              obtain ⟨hx, hs⟩ := opure_ok e
              subst s'
              subst x
              exact ⟨hci2, fun h => by cases h⟩
        · rw [if_neg hcont, if_neg (by decide)] at e
          have hri2 : RI src s2.r c2 := by
            rcases hcase2 with ⟨h, _⟩ | h
            · exact absurd h hcont
            · exact h
          exact hK (by simpa using hcont) hri2 e
      -- the fall-through continuation from a clean state
      have useF : ∀ (s2 : St) (c2 : RCur) (blank : Bool) (bl' : List LineStat), InvG src Lb s2 → Lb ≤ c2.p → PadL Lb c2 →
          PadOK c2 → RI src s2.r c2 → s2.pc.opened = ob → GM.Blocks.L.G.X.StableG src root s2 → CInvG False src s2 s2.pc.opened →
          ((nd s2 (lastNode root pre)).kind = .list → Due src s2 c2 (lastNode root pre)) →
          (if (i != 0) = true then do
              let b ← liftE (blockAt ob (i - 1))
              let thisParent ← pure b.node
              let lastNode ← liftE (blockAt ob li)
              let result ← openBlocksT pts thisParent blank
              if (result != OpenResult.paragraphContinuation) = true then do
                  let __do_lift ← getPc
                  closeBlocksT pts
                      (if (Option.map (fun x => x.node) (slotAfter ob __do_lift.opened li.toNat) != some lastNode.node) = true then
                        li - 1
                      else li)
                      i
                  pure (LineOutcome.next, bl')
                else pure (LineOutcome.next, bl')
            else do
              let thisParent ← pure parent
              let lastNode ← liftE (blockAt ob li)
              let result ← openBlocksT pts thisParent blank
              if (result != OpenResult.paragraphContinuation) = true then do
                  let __do_lift ← getPc
                  closeBlocksT pts
                      (if (Option.map (fun x => x.node) (slotAfter ob __do_lift.opened li.toNat) != some lastNode.node) = true then
                        li - 1
                      else li)
                      i
                  pure (LineOutcome.next, bl')
                else pure (LineOutcome.next, bl') : M _) s2 = .ok (x, s') → QLG src x s' :=
        fun s2 c2 blank bl' m1 m2 m3 hp2 hri2 ho2 hst2 hci2 hmode2 e' =>
          lineFT_clG hag hagT lsp hsp Lb parent hroot pre be rest ob li i hob hli hi blank bl' s2 c2 x s' ho2 hri2 hp2 hst2 hmode2 m1 m2
            m3 hci2 e'
      split at k3
      · next hkind =>
        obtain ⟨st, s4, h4, k4⟩ := obind_ok k3
        by_cases hbl : be.bp = .list
        · -- listParser.Continue: the store and the cursor are what they were
          have hkl : (nd { s with r := r1 } be.node).kind = .list := by rw [hbeok.kind, hbl]; rfl
          have hitem : ListHasItem { s with r := r1 } be.node := by
            cases hr : rest with
            | nil =>
              exfalso
              have := hst1.endOK
              have hob1 : ({ s with r := r1 } : St).pc.opened = pre ++ [be] := by
                show s.pc.opened = _; rw [hop, hob, hr]
              rw [hob1, lastNode_concat] at this
              exact this hkl
            | cons b' rs =>
              rw [hr] at hchrest
              obtain ⟨h1', h2', h3'⟩ := hchrest.1.down hkl
              refine ⟨b'.node, h3', ?_⟩
              have hb'm : b' ∈ s.pc.opened := by rw [hop, hob, hr]; simp
              rw [(hst1.blocks b' hb'm).kind, h1']; rfl
          obtain ⟨lc, hlc, hlck⟩ := hitem
          have hitem : ListHasItem { s with r := r1 } be.node := ⟨lc, hlc, hlck⟩
          have h4' : listContinue be.node { s with r := r1 } = .ok (st, s4) := by
            have ebp : bpContinue be.bp be.node = listContinue be.node := by rw [hbl]; rfl
            rw [← ebp]; exact h4
          obtain ⟨r2, hr2, hri2, hn2, ho2, _, _, ht2, hf2, _, hcc2, hlc2⟩ :=
            (listContinue_okl2 src be.node { s with r := r1 } c hr1 hp hitem).of_ok h4'
          obtain ⟨hbl2, hnb2⟩ := hlc2 lc hlc
          have hst2 : GM.Blocks.L.G.X.StableG src root s4 := hst1.congr hn2 ho2 ht2 hf2
          have hri2' : RI src s4.r c := by rw [hr2]; exact hri2
          have hinv4 : InvG src Lb s4 := hc1.inv.of_same hn2 ho2 ht2
          have hop4 : s4.pc.opened = ob := by rw [ho2]; exact hop
          have hci4 : CInvG False src s4 s4.pc.opened := by rw [ho2]; exact hci1.of_same hn2 ho2 ht2
          refine after _ st s4 c _ _ hst2 hop4 hpad (.inr hri2') (fun _ => hcc2)
            (fun hc => by rw [hbl] at hc; cases hc) ?_ hci4 (fun _ _ => ⟨hinv4, hle, hpl⟩)
            (fun _ hri2'' e => useF s4 c _ _ hinv4 hle hpl hpad hri2'' hop4 hst2 hci4 (fun hk => by
              rw [nd_eq_of_nodes_eq hn2] at hk
              exact absurd (hlink.down hk).1 (by rw [hbl]; decide)) e) k4
          intro hcont Lk hLk hLkl
          rw [List.getLast?_concat] at hLk
          cases hLk
          refine ⟨lc, by rw [nd_eq_of_nodes_eq hn2]; exact hlc, fun hnb => ?_⟩
          obtain ⟨hpc, hg, hth⟩ := hnb2 hnb
          have hst' : st = stContinueHasChildren := by
            rcases hg.1 with h | h
            · rw [h] at hcont; cases hcont
            · exact h
          rw [nd_eq_of_nodes_eq hn2, nd_eq_of_nodes_eq hn2, hpc, ← hst']
          exact ⟨hg, fun a b c' => hth hcont a b c'⟩
        · by_cases hbi : be.bp = .listItem
          · -- listItemParser.Continue: `IndentPosition` is not −1 because the list went on
            have hkL : (nd { s with r := r1 } (lastNode root pre)).kind = .list := hlink.up hbi
            obtain ⟨_, hparL, hlastL⟩ := hlink.down hkL
            obtain ⟨Lk, hLk, hLn⟩ : ∃ Lk, pre.getLast? = some Lk ∧ Lk.node = lastNode root pre := by
              unfold lastNode
              cases hg : pre.getLast? with
              | none =>
                exfalso
                have : lastNode root pre = root := by unfold lastNode; rw [hg]; rfl
                rw [this, hst1.ls.rootKind] at hkL; cases hkL
              | some Lk => exact ⟨Lk, rfl, rfl⟩
            have hLkm : Lk ∈ s.pc.opened := by rw [hop, hob]; exact List.mem_append_left _ (List.mem_of_getLast? hLk)
            have hLkl : Lk.bp = .list := by
              have := (hst1.blocks Lk hLkm).kind
              rw [hLn, hkL] at this
              exact kind_list this.symm
            obtain ⟨lc, hlc, hg⟩ := hhint1 Lk hLk hLkl
            rw [hLn] at hlc hg
            have hlcbe : lc = be.node := by rw [hlastL] at hlc; cases hlc; rfl
            subst hlcbe
            have hkk := li_kidsOK_of hst1.ls.kids (lastNode root pre) hkL
            have hoffe : li_lastOff { s with r := r1 } (lastNode root pre) = (nd { s with r := r1 } be.node).offset := by
              unfold li_lastOff; rw [hlastL]
            have hoff : 0 ≤ li_lastOff { s with r := r1 } (lastNode root pre) := by
              rw [hoffe]; exact hst1.ls.kids.off be.node (by rw [hbeok.kind, hbi]; rfl)
            have hlist : li_ListContinued src { s with r := r1 } c be.node (lastNode root pre) := by
              unfold li_ListContinued
              simp only
              intro hnb
              rw [hoffe]
              obtain ⟨hgo, _⟩ := hg hnb
              have hns := hgo.not_short rfl
              refine ⟨hns.1, fun hh => ?_⟩
              refine hns.2.1 ⟨?_, hh.2.1, fun ⟨m, typ, hm, ht, _⟩ => ?_⟩
              · have := hh.1
                simp only [Bool.and_eq_true, beq_iff_eq] at this
                exact List.isEmpty_iff_length_eq_zero.2 this.1
              · have := hh.2.2.2
                rw [li_matchesListItem_strict] at this
                have hm' : matchesListItem (lineOf src c) false = (m, typ) := hm
                unfold lineOf at hm'
                rw [hm'] at this
                exact ht this
            have h4' : listItemContinue be.node { s with r := r1 } = .ok (st, s4) := by
              have ebp : bpContinue be.bp be.node = listItemContinue be.node := by rw [hbi]; rfl
              rw [← ebp]; exact h4
            obtain ⟨c2, hri2, hpad2, hle2, hn2, ho2, ht2, hf2, hcc2, _, hclose2⟩ :=
              (listItemContinue_okl2 src be.node { s with r := r1 } c hr1 hpad hp (lastNode root pre) hparL hkk hoff
                hlist).of_ok h4'
            have hst2 : GM.Blocks.L.G.X.StableG src root s4 := hst1.congr hn2 ho2 ht2 hf2
            have hinv4 : InvG src Lb s4 := hc1.inv.of_same hn2 ho2 ht2
            have hle4 : Lb ≤ c2.p := by omega
            have hop4 : s4.pc.opened = ob := by rw [ho2]; exact hop
            have hci4 : CInvG False src s4 s4.pc.opened := by rw [ho2]; exact hci1.of_same hn2 ho2 ht2
            have hpl4 : PadL Lb c2 :=
              listItemContinue_padl hr1 hp hle hpl (lastNode root pre) hparL hkk hoff h4' c2 hri2
            refine after _ st s4 c2 _ _ hst2 hop4 hpad2 (.inr hri2) (fun _ => hcc2)
              (fun hc => by rw [hbi] at hc; cases hc) ?_ hci4 (fun _ _ => ⟨hinv4, hle4, hpl4⟩) ?_ k4
            · intro _ Lk' hLk' hLkl'
              rw [List.getLast?_concat] at hLk'
              cases hLk'
              rw [hbi] at hLkl'; cases hLkl'
            · intro hcont hri2'' e
              obtain ⟨hcc, hnb, heib, _, hcase⟩ := hclose2 hcont
              subst c2
              refine useF s4 c _ _ hinv4 hle hpl hpad hri2'' hop4 hst2 hci4 (fun _ => ?_) e
              obtain ⟨hgo, hth⟩ := hg hnb
              -- the list went on because the line starts its next item
              have hdisj := hgo.2 rfl
              have hoff2 : li_lastOff s4 (lastNode root pre) = (nd { s with r := r1 } be.node).offset := by
                rw [← hoffe]; unfold li_lastOff; simp only [nd_eq_of_nodes_eq hn2]
              rcases hcase with ⟨hsk, hm, hi4, hei⟩ | ⟨_, hne, hio, _, hnl⟩
              · rcases hdisj with ⟨_, hor, hnext⟩ | ⟨hle', heb, _⟩
                · obtain ⟨m, typ, hm', ht', hr', _⟩ := hnext
                  refine ⟨hp, by rw [nd_eq_of_nodes_eq hn2]; exact hkL, fun m2 typ2 he2 => ?_, fun _ _ _ _ _ _ _ _ _ =>
                    hth hi4 hor ⟨m, typ, hm', ht', hr'⟩, .inl hsk⟩
                  have : matchesListItem (lineOf src c) false = (m, typ) := hm'
                  rw [this] at he2; cases he2
                  rw [hoff2]
                  exact ⟨ht', by omega⟩
                · exfalso
                  rw [hoffe] at hei
                  rcases hei with h | h
                  · simp only [Bool.and_eq_true] at h
                    rw [h.2] at heb; cases heb
                  · simp only [lineOf] at hle' h; omega
              · exfalso
                rw [hoffe] at hio
                rcases hdisj with ⟨_, _, m, typ, hm', ht', _⟩ | ⟨hle', _⟩
                · rw [li_matchesListItem_strict] at hnl
                  have : matchesListItem (lineOf src c) false = (m, typ) := hm'
                  unfold lineOf at this
                  rw [this] at hnl
                  exact ht' hnl
                · simp only [lineOf] at hle' hio; omega
          · -- the other eight parsers: their contract `ContPost`, and `bpContinue_cinvG`
            have hnl : NotList be.bp := ⟨hbl, hbi⟩
            have hnp : be.bp ≠ .paragraph := by
              intro hbp
              have hkp : (nd { s with r := r1 } be.node).kind = .paragraph := by rw [hbeok.kind, hbp]; rfl
              have hkind' : (nd { s with r := r1 } be.node).kind ≠ .paragraph := by simpa [nd] using hkind
              exact hkind' hkp
            have h2c := (GM.Blocks.W.contW_all src be.bp hnl.1 hnl.2 be.node { s with r := r1 } c hr1 hpad hp hst1.nodes hst1.keys
              hbeok).of_ok h4
            have hts2 := lsp.contTS be.bp be.node _ st s4 h4
            obtain ⟨c2, hria2, hpad2, hle2, _, hcase2⟩ := h2c.ria
            have hst2 : GM.Blocks.L.G.X.StableG src root s4 :=
              hst1.same h2c.ext h2c.nodes hts2 (by rw [h2c.pc]) (by rw [h2c.pc]) (by rw [h2c.pc])
            obtain ⟨hinvE, hrest⟩ := bpContinue_cleanG (c2 := c2) be hc1 hp hst1.keys hbeok.kind hnl hnp h2c h4
            have hle4 : Lb ≤ c2.p := by omega
            have hop4 : s4.pc.opened = ob := by rw [h2c.pc]; exact hop
            have hci4 : CInvG False src s4 s4.pc.opened := by
              rw [h2c.pc]
              exact bpContinue_cinvG be.bp be.node hci1 c hr1 hnl hnp hbeok.kind h2c.pc ⟨_, hinvE⟩ h4
            refine after _ st s4 c2 _ _ hst2 hop4 hpad2 hcase2 h2c.cont h2c.leaf ?_ hci4
              (fun hor hri4 => ⟨(hrest hor).1, hle4, (hrest hor).2 hri4⟩)
              (fun hcf hri2'' e => useF s4 c2 _ _ (hrest (.inr hcf)).1 hle4 ((hrest (.inr hcf)).2 hri2'') hpad2 hri2''
                hop4 hst2 hci4 (fun hk => by
                rw [(hts2.same _).1] at hk
                exact absurd (hlink.down hk).1 hbi) e) k4
            intro _ Lk' hLk' hLkl'
            rw [List.getLast?_concat] at hLk'
            cases hLk'
            exact absurd hLkl' hbl
      · rw [if_neg (by decide)] at k3
        have hkp : (nd { s with r := r1 } be.node).kind = .paragraph := by
          have : ¬ ((nd { s with r := r1 } be.node).kind != Kind.paragraph) = true := by assumption
          simpa using this
        have hbp : be.bp = .paragraph := kind_paragraph (by rw [← hbeok.kind]; exact hkp)
        exact useF { s with r := r1 } c _ _ hc1.inv hle hpl hpad hr1 hop hst1 hci1 (fun hk =>
          absurd (hlink.down hk).1 (by rw [hbp]; decide)) k3

end run

end GM.Blocks.TX
