/-
  GM.Proof.ConvertXLevels — a member set WITHOUT Strikethrough never builds the representation of a Strikethrough node
  (emphasis level −3 / −4): the inline phase of such a member set simulates itself under the relabelling that sends those two
  levels to 1 and fixes every other level (GM.Proof.ConvertXSim), so its result is a fixed point of that relabelling.
-/
import GM.Proof.ConvertXSim
import GM.Proof.ConvertXTotal

namespace GM.Proof.ConvertXLevels
open GM GM.Text GM.Inl GM.Proof.Inlines GM.Proof.ConvertXRelv GM.Proof.ConvertXSim GM.ConvertX GM.Convert

/-- the representation of a Strikethrough goes to level 1, every other level stays -/
def g0 (lv : Int) : Int := if lv == -3 || lv == -4 then 1 else lv

theorem g0_ok : GOK false g0 := ⟨by decide, by decide, fun h => absurd h (by decide), fun h => absurd h (by decide)⟩

theorem relvL_allText (g : Int → Int) : ∀ ks : List Inl.Node, ks.all isText = true → relvL g ks = ks
  | [], _ => rfl
  | n :: rest, h => by
    simp only [List.all_cons, Bool.and_eq_true] at h
    cases n <;> simp_all [isText, relvL_allText g rest]

variable (g : Int → Int)

theorem parseAutoLink_fix {rd rd' : BlockReader} {n : Inl.Node} (h : parseAutoLink rd = .ok (some n, rd')) :
    relv g n = n := by
  unfold parseAutoLink at h
  mpaths h
  all_goals (obtain ⟨rfl, _⟩ := h; rfl)

theorem parseTag_fix {m : Bytes → Option Nat} {rd rd' : BlockReader} {n : Inl.Node}
    (h : parseTag m rd = .ok (some n, rd')) : relv g n = n := by
  unfold parseTag at h
  mpaths h
  all_goals (obtain ⟨rfl, _⟩ := h; rfl)

theorem parseRawHTML_fix {rd rd' : BlockReader} {n : Inl.Node} (h : parseRawHTML rd = .ok (some n, rd')) :
    relv g n = n := by
  unfold parseRawHTML at h
  mpaths h
  all_goals first | exact parseTag_fix g h | (obtain ⟨rfl, _⟩ := h; rfl)

theorem parseEmphasis_fix {env : Env} {id : Nat} {rd rd' : BlockReader} {n : Inl.Node}
    (h : parseEmphasis env id rd = .ok (some n, rd')) : relv g n = n := by
  unfold parseEmphasis at h
  mpaths h
  all_goals (obtain ⟨rfl, _⟩ := h; rfl)

theorem parseCodeSpan_fix {rd rd' : BlockReader} {n : Inl.Node} (h : parseCodeSpan rd = .ok (some n, rd')) :
    relv g n = n := by
  unfold parseCodeSpan at h
  simp only [bind, Except.bind, pure, Except.pure] at h
  split at h
  · contradiction
  · split at h
    · contradiction
    · split at h
      · contradiction
      · rename_i v3 hl
        have sh := csLoop_shape _ _ _ _ _ _ _ hl (by simp)
        split at h
        · rename_i t hr
          simp at h; obtain ⟨rfl, _⟩ := h
          rw [hr] at sh
          cases t <;> simp [isText] at sh
          rfl
        · rename_i ks hr
          rw [hr] at sh
          split at h
          · contradiction
          · rename_i ks' ht
            simp at h; obtain ⟨rfl, _⟩ := h
            simp [relvL_allText g _ (csTrim_shape ht sh)]

theorem liftR_selfsim {f : BlockReader → RRes} (hf : ∀ r r' n, f r = .ok (some n, r') → relv g n = n) (st : St) :
    liftR (relvSt g st) (f st.rd) = (liftR st (f st.rd)).map (relvPR g) := by
  unfold liftR
  cases hfr : f st.rd with
  | error e => rfl
  | ok r =>
    obtain ⟨n, rd⟩ := r
    cases n with
    | none => rfl
    | some nd => simp [Except.map, relvPR, relvSt, hf _ _ _ hfr]

def Tr : List Inl.Node → Prop := fun _ => True

theorem tr_closed : IClosed Tr := ⟨fun _ _ _ => trivial, fun _ _ _ _ _ _ => trivial, fun _ _ _ _ _ _ => trivial⟩

variable {g}

theorem entry_selfsim_of (env : Env) (ip : XIp)
    (h : ∀ st, ip.parse env (relvSt g st) = (ip.parse env st).map (relvPR g)) : EntrySim g Tr env ip ip :=
  fun st _ => ⟨h st, fun _ _ _ => ⟨trivial, fun _ _ => trivial⟩⟩

theorem builtin_selfsim (G : GOK false g) (env : Env) (ip : Ip) : EntrySim g Tr env (.builtin ip) (.builtin ip) := by
  apply entry_selfsim_of
  intro st
  cases ip with
  | codeSpan => exact liftR_selfsim g (fun _ _ _ h => parseCodeSpan_fix g h) st
  | autoLink => exact liftR_selfsim g (fun _ _ _ h => parseAutoLink_fix g h) st
  | rawHTML => exact liftR_selfsim g (fun _ _ _ h => parseRawHTML_fix g h) st
  | emphasis =>
    have := liftR_selfsim g (f := parseEmphasis env st.nextId) (fun _ _ _ h => parseEmphasis_fix g h)
      { st with nextId := st.nextId + 1 }
    exact this
  | link =>
    have hpd : PDSim g processDelimiters := by
      have := fun b k => processDelimitersG_relv G b k
      rw [processDelimitersG_false] at this
      exact this
    have := parseLinkG_relv hpd env st
    rw [parseLinkG_default] at this
    exact this

theorem task_selfsim (hg1 : g (-1) = -1) (hg2 : g (-2) = -2) (inItem : Bool) (env : Env) :
    EntrySim g Tr env (.ext (taskParser inItem)) (.ext (taskParser inItem)) := by
  apply entry_selfsim_of
  intro st
  have hemp : (relvSt g st).kids.isEmpty = st.kids.isEmpty := by
    simp only [relvSt_kids]; cases st.kids <;> rfl
  simp only [XIp.parse, taskParser, parseTask, hemp, relvSt_rd]
  split
  · rfl
  · split
    · rfl
    · simp only [bind, Except.bind]
      cases st.rd.peekLine with
      | error e => rfl
      | ok v =>
        simp only []
        split
        · split
          · cases v.2.advance _ with
            | error e => rfl
            | ok rd =>
              simp only [pure, Except.pure, Except.map, relvPR, Option.map_some, taskNode, relv_emphasis, relvL_nil]
              split <;> simp [hg1, hg2, relvSt]
          · rfl
        · rfl

theorem listSim_builtin (G : GOK false g) (env : Env) : ∀ ips : List Ip, ListSim g Tr env (ips.map .builtin) (ips.map .builtin)
  | [] => .nil
  | ip :: rest => .cons (builtin_selfsim G env ip) (listSim_builtin G env rest)

/-- without Strikethrough the trigger table simulates itself under every relabelling that fixes 1, 2 and the two levels
    of a TaskCheckBox -/
theorem tblOff_selfsim (G : GOK false g) (hg1 : g (-1) = -1) (hg2 : g (-2) = -2) (c : XCfg)
    (hs : c.strikethrough = false) (inItem : Bool) (env : Env) (b : UInt8) :
    ListSim g Tr env (inlineTbl c inItem b) (inlineTbl c inItem b) := by
  have hl : linkX c = .builtin .link := by simp [linkX, hs]
  unfold inlineTbl
  simp only [hs, Bool.false_eq_true, if_false, hl]
  split
  · exact .nil
  · split
    · split
      · exact .cons (task_selfsim hg1 hg2 inItem env) (.cons (builtin_selfsim G env .link) .nil)
      · exact .cons (builtin_selfsim G env .link) .nil
    · split
      · exact .cons (builtin_selfsim G env .link) .nil
      · exact listSim_builtin G env _

mutual
theorem closeLabels_relv (g : Int → Int) : ∀ n : Inl.Node, closeLabels (relv g n) = relv g (closeLabels n)
  | .label .. => rfl
  | .emphasis lv ks => by simp [closeLabels, closeLabelsL_relv g ks]
  | .link im d t ks => by simp [closeLabels, closeLabelsL_relv g ks]
  | .codeSpan ks => by simp [closeLabels, closeLabelsL_relv g ks]
  | .text .. => rfl
  | .autoLink .. => rfl
  | .rawHTML .. => rfl
  | .delim .. => rfl
theorem closeLabelsL_relv (g : Int → Int) : ∀ l : List Inl.Node, closeLabelsL (relvL g l) = relvL g (closeLabelsL l)
  | [] => rfl
  | n :: rest => by simp [closeLabelsL, closeLabels_relv g n, closeLabelsL_relv g rest]
end

/-- **the inline children of a block under a member set without Strikethrough are a fixed point** of every relabelling that
    fixes 1, 2, −1, −2: in particular they hold no emphasis node of level −3 / −4 -/
theorem parseBlockG_fix (G : GOK false g) (hg1 : g (-1) = -1) (hg2 : g (-2) = -2) (c : XCfg) (hs : c.strikethrough = false)
    (inItem : Bool) (env : Env) (src : Bytes) (segs : List Segment) (kids : List Inl.Node)
    (h : parseBlockG env (inlineTbl c inItem) (pdX c) src segs = .ok kids) : relvL g kids = kids := by
  unfold parseBlockG at h
  simp only [bind, Except.bind] at h
  cases hr : BlockReader.new src segs with
  | error e => rw [hr] at h; cases h
  | ok rd =>
    rw [hr] at h
    simp only [] at h
    obtain ⟨s1, _⟩ := lineLoopX_sim (g := g) tr_closed (tblOff_selfsim G hg1 hg2 c hs inItem env)
      (blockFuel src segs) false ({ rd := rd } : St) trivial
    have e0 : relvSt g ({ rd := rd } : St) = { rd := rd } := rfl
    rw [e0] at s1
    cases hl : lineLoopX env (inlineTbl c inItem) (blockFuel src segs) false { rd := rd } with
    | error e => rw [hl] at h; cases h
    | ok st' =>
      rw [hl] at h s1
      simp only [Except.map, Except.ok.injEq] at s1
      simp only [] at h
      have hp : pdX c = processDelimiters := by simp [pdX, hs]
      rw [hp] at h
      have hpd := processDelimitersG_relv G Bottom.nil st'.kids
      rw [processDelimitersG_false] at hpd
      have hk : relvL g st'.kids = st'.kids := by
        have := congrArg St.kids s1
        simpa using this.symm
      rw [hk] at hpd
      cases hq : processDelimiters Bottom.nil st'.kids with
      | error e => rw [hq] at h; cases h
      | ok k =>
        rw [hq] at h hpd
        simp only [pure, Except.pure, Except.ok.injEq] at h
        simp only [Except.map, Except.ok.injEq] at hpd
        rw [← h, ← closeLabelsL_relv, ← hpd]

/-! ### the same for every member set: the table simulates itself under a relabelling that fixes what the members build -/

theorem strike_selfsim (g : Int → Int) (env : Env) : EntrySim g Tr env (.ext strikeParser) (.ext strikeParser) := by
  apply entry_selfsim_of
  intro st
  simp only [XIp.parse, strikeParser, parseStrike, relvSt_rd, relvSt_nextId, bind, Except.bind]
  cases st.rd.precendingCharacter with
  | error e => rfl
  | ok before =>
    simp only []
    cases st.rd.peekLine with
    | error e => rfl
    | ok v =>
      simp only []
      cases scanDelimiterP isStrikeDelim env (v.1.1.getD []) before with
      | error e => rfl
      | ok d =>
        cases d with
        | none => rfl
        | some dd =>
          simp only []
          split
          · rfl
          · cases v.2.advance dd.origLength with
            | error e => rfl
            | ok rd => rfl

theorem linkX_selfsim {g : Int → Int} (c : XCfg) (GS : GOKS c.strikethrough g) (G0 : GOK false g) (env : Env) :
    EntrySim g Tr env (linkX c) (linkX c) := by
  unfold linkX
  split
  · rename_i hs
    apply entry_selfsim_of
    intro st
    have hpd : PDSim2 g (pdX c) (pdX c) := by
      simp only [pdX, hs, if_true]
      exact fun b k => processDelimitersG_relvS (hs ▸ GS) b k
    exact parseLinkG_relv2 hpd env st
  · exact builtin_selfsim G0 env .link

theorem tbl_selfsim {g : Int → Int} (c : XCfg) (GS : GOKS c.strikethrough g) (G0 : GOK false g)
    (ht : c.tasklist = true → g (-1) = -1 ∧ g (-2) = -2) (inItem : Bool) (env : Env) (b : UInt8) :
    ListSim g Tr env (inlineTbl c inItem b) (inlineTbl c inItem b) := by
  unfold inlineTbl
  split
  · split
    · exact .cons (strike_selfsim g env) .nil
    · exact .nil
  · split
    · split
      · rename_i htl
        exact .cons (task_selfsim (ht htl).1 (ht htl).2 inItem env) (.cons (linkX_selfsim c GS G0 env) .nil)
      · exact .cons (linkX_selfsim c GS G0 env) .nil
    · split
      · exact .cons (linkX_selfsim c GS G0 env) .nil
      · exact listSim_builtin G0 env _

theorem pdX_selfsim {g : Int → Int} (c : XCfg) (GS : GOKS c.strikethrough g) (G0 : GOK false g) (b : Bottom)
    (k : List Inl.Node) : pdX c b (relvL g k) = (pdX c b k).map (relvL g) := by
  unfold pdX
  split
  · rename_i hs
    exact processDelimitersG_relvS (hs ▸ GS) b k
  · have := processDelimitersG_relv G0 b k
    rw [processDelimitersG_false] at this
    exact this

/-- the inline children of a block under ANY member set are a fixed point of every relabelling that fixes 1, 2 and the levels
    the members of the set build -/
theorem parseBlockG_fixS {g : Int → Int} (c : XCfg) (GS : GOKS c.strikethrough g) (G0 : GOK false g)
    (ht : c.tasklist = true → g (-1) = -1 ∧ g (-2) = -2)
    (inItem : Bool) (env : Env) (src : Bytes) (segs : List Segment) (kids : List Inl.Node)
    (h : parseBlockG env (inlineTbl c inItem) (pdX c) src segs = .ok kids) : relvL g kids = kids := by
  unfold parseBlockG at h
  simp only [bind, Except.bind] at h
  cases hr : BlockReader.new src segs with
  | error e => rw [hr] at h; cases h
  | ok rd =>
    rw [hr] at h
    simp only [] at h
    obtain ⟨s1, _⟩ := lineLoopX_sim (g := g) tr_closed (tbl_selfsim c GS G0 ht inItem env)
      (blockFuel src segs) false ({ rd := rd } : St) trivial
    have e0 : relvSt g ({ rd := rd } : St) = { rd := rd } := rfl
    rw [e0] at s1
    cases hl : lineLoopX env (inlineTbl c inItem) (blockFuel src segs) false { rd := rd } with
    | error e => rw [hl] at h; cases h
    | ok st' =>
      rw [hl] at h s1
      simp only [Except.map, Except.ok.injEq] at s1
      simp only [] at h
      have hpd := pdX_selfsim c GS G0 Bottom.nil st'.kids
      have hk : relvL g st'.kids = st'.kids := by
        have := congrArg St.kids s1
        simpa using this.symm
      rw [hk] at hpd
      cases hq : pdX c Bottom.nil st'.kids with
      | error e => rw [hq] at h; cases h
      | ok k =>
        rw [hq] at h hpd
        simp only [pure, Except.pure, Except.ok.injEq] at h
        simp only [Except.map, Except.ok.injEq] at hpd
        rw [← h, ← closeLabelsL_relv, ← hpd]

/-- the representation of a TaskCheckBox goes to level 1, every other level stays -/
def g1 (lv : Int) : Int := if lv == -1 || lv == -2 then 1 else lv

theorem g1_ok0 : GOK false g1 := ⟨by decide, by decide, fun h => absurd h (by decide), fun h => absurd h (by decide)⟩
theorem g1_okS (sk : Bool) : GOKS sk g1 := ⟨by decide, by decide, fun _ => by decide, fun _ => by decide⟩

end GM.Proof.ConvertXLevels
