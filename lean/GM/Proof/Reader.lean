/-
  GM.Proof.Reader — lemmas for property C18: the reader models refine the cursor specification.
-/
import GM.Model.Reader
import GM.Spec.Cursor

namespace GM.Proof.Reader
open GM GM.Text GM.Spec

/-! ### scans -/

theorem lineLen_le (l : Bytes) : lineLen l ≤ l.length := by
  induction l with
  | nil => simp [lineLen]
  | cons c cs ih => simp only [lineLen]; split <;> simp <;> omega

theorem lineLen_pos {l : Bytes} (h : l ≠ []) : 0 < lineLen l := by
  cases l with
  | nil => exact absurd rfl h
  | cons c cs => simp only [lineLen]; split <;> omega

theorem lineLen_nl_before (l : Bytes) (h : lineLen l < l.length) : l[lineLen l - 1]? = some 10 := by
  induction l with
  | nil => simp at h
  | cons c cs ih =>
    by_cases hc : c = 10
    · simp [lineLen, hc]
    · have hc' : (c == 10) = false := by simp [hc]
      simp only [lineLen, hc', Bool.false_eq_true, if_false, List.length_cons] at h ⊢
      have h' : lineLen cs < cs.length := by omega
      have hne : cs ≠ [] := by intro e; subst e; simp at h'
      have hp := lineLen_pos hne
      have := ih h'
      have e : 1 + lineLen cs - 1 = (lineLen cs - 1) + 1 := by omega
      rw [e, List.getElem?_cons_succ]; exact this

theorem lineEnd_le (src : Bytes) (p : Nat) : lineEnd src p ≤ src.length := by
  unfold lineEnd; split
  · have := lineLen_le (src.drop p); simp at this; omega
  · omega

theorem lineEnd_ge (src : Bytes) {p : Nat} (h : p ≤ src.length) : p ≤ lineEnd src p := by
  unfold lineEnd; simp [h]

theorem lt_lineEnd (src : Bytes) {p : Nat} (h : p < src.length) : p < lineEnd src p := by
  unfold lineEnd
  have hne : src.drop p ≠ [] := by
    intro e; have := congrArg List.length e; simp at this; omega
  have := lineLen_pos hne
  simp [Nat.le_of_lt h]; omega

theorem lineEnd_of_ge (src : Bytes) {p : Nat} (h : src.length ≤ p) : lineEnd src p = src.length := by
  unfold lineEnd; split
  · have : p = src.length := by omega
    subst this; simp [lineLen]
  · rfl

theorem lineEnd_nl (src : Bytes) {p : Nat} (h : src[p]? = some 10) : lineEnd src p = p + 1 := by
  have hp : p < src.length := by
    rcases Nat.lt_or_ge p src.length with h' | h'
    · exact h'
    · simp [List.getElem?_eq_none h'] at h
  have hb : src[p] = 10 := by simpa [List.getElem?_eq_getElem hp] using h
  unfold lineEnd
  rw [if_pos (Nat.le_of_lt hp), List.drop_eq_getElem_cons hp]
  simp [lineLen, hb]

theorem lineEnd_succ (src : Bytes) {p : Nat} (hp : p < src.length) (h : src[p]? ≠ some 10) :
    lineEnd src p = lineEnd src (p + 1) := by
  have hb : src[p] ≠ 10 := by simpa [List.getElem?_eq_getElem hp] using h
  unfold lineEnd
  rw [if_pos (Nat.le_of_lt hp), if_pos (by omega : p + 1 ≤ src.length), List.drop_eq_getElem_cons hp]
  simp [lineLen, hb]; omega

theorem lineStart_le (src : Bytes) (p : Nat) : lineStart src p ≤ p := by
  induction p with
  | zero => simp [lineStart]
  | succ p ih => simp only [lineStart]; split <;> omega

/-- the byte before the end of a line that is not the end of the source is the newline -/
theorem lineEnd_nl_before (src : Bytes) {p : Nat} (hp : p ≤ src.length) (h : lineEnd src p < src.length) :
    src[lineEnd src p - 1]? = some 10 := by
  unfold lineEnd at h ⊢
  rw [if_pos hp] at h ⊢
  have h1 : lineLen (src.drop p) < (src.drop p).length := by simp; omega
  have h2 := lineLen_nl_before _ h1
  have hne : src.drop p ≠ [] := by intro e; rw [e] at h1; simp at h1
  have h3 := lineLen_pos hne
  rw [List.getElem?_drop] at h2
  have e : p + lineLen (src.drop p) - 1 = p + (lineLen (List.drop p src) - 1) := by omega
  rw [e]; exact h2

theorem lineStart_lineEnd (src : Bytes) {p : Nat} (hp : p < src.length) (h : lineEnd src p < src.length) :
    lineStart src (lineEnd src p) = lineEnd src p := by
  have h1 := lineEnd_nl_before src (Nat.le_of_lt hp) h
  have h2 := lt_lineEnd src hp
  obtain ⟨q, hq⟩ : ∃ q, lineEnd src p = q + 1 := ⟨lineEnd src p - 1, by omega⟩
  rw [hq] at h1 ⊢
  simp only [lineStart]
  simp at h1
  simp [h1]

/-! ### Segment.Value on a well-formed segment -/

theorem sliceB_ok (src : Bytes) {a b : Int} (h0 : 0 ≤ a) (h1 : a ≤ b) (h2 : b ≤ src.length) :
    sliceB src a b = .ok (sub src a.toNat b.toNat) := by
  unfold sliceB; rw [if_pos ⟨h0, h1, h2⟩]

/-- Segment.Value returns the specified value -/
theorem value_spec (src : Bytes) (t : Segment) (h : segInRange src t) :
    t.value src = .ok (segValue src t) := by
  obtain ⟨h0, h1, h2, h3⟩ := h
  unfold Segment.value
  by_cases hp : t.padding = 0
  · have hp' : (t.padding == 0) = true := by simp [hp]
    rw [if_pos hp', sliceB_ok src h0 h1 h2]
    simp only [bind, Except.bind, pure, Except.pure]
    unfold segValue
    simp only [hp, Int.toNat_zero, spaces, List.replicate_zero, List.nil_append]
    by_cases hn : needsNewline t (sub src t.start.toNat t.stop.toNat) = true
    · rw [if_pos hn]
      unfold needsNewline at hn
      simp only [hn, if_true]
    · rw [if_neg hn]
      unfold needsNewline at hn
      simp only [hn]
      simp
  · have hp' : ¬ ((t.padding == 0) = true) := by simp [hp]
    rw [if_neg hp']
    have e1 : ¬ (t.padding + t.stop - t.start + 1 < 0) := by omega
    have e2 : ¬ (t.padding < 0) := by omega
    simp only [bind, Except.bind, pure, Except.pure, e1, e2, if_false, sliceB_ok src h0 h1 h2, throw, throwThe,
      MonadExceptOf.throw]
    unfold segValue needsNewline
    split <;> simp_all

/-! ### the source reader refines `RCur` -/

/-- the abstraction relation: which reader states stand for the cursor `c` over `src` -/
structure RAbs (src : Bytes) (r : Reader) (c : RCur) : Prop where
  source : r.source = src
  line : r.line = c.ln
  pos : r.pos = { start := c.p, stop := lineEnd src c.p, padding := c.pad, forceNewline := false }
  inRange : c.p ≤ src.length
  head : c.p < src.length → r.head = lineStart src c.p
  peeked : r.peekedLine = none ∨ r.peekedLine = RCur.view src c
  lo : r.lineOffset < 0 ∨
    (c.p < src.length ∧ r.lineOffset = (colFrom (sub src (lineStart src c.p) c.p) 0 : Int) - c.pad)

theorem sub_cons (src : Bytes) {p e : Nat} (hp : p < src.length) (he : p < e) :
    sub src p e = src[p] :: sub src (p + 1) e := by
  unfold sub
  rw [List.drop_eq_getElem_cons hp]
  obtain ⟨k, hk⟩ : ∃ k, e - p = k + 1 := ⟨e - p - 1, by omega⟩
  rw [hk, List.take_succ_cons]
  have : e - (p + 1) = k := by omega
  rw [this]

theorem getByte_ok (src : Bytes) {p : Nat} (hp : p < src.length) : getByte src (p : Int) = .ok src[p] := by
  unfold getByte
  have : ¬ ((p : Int) < 0) := by omega
  simp [this, List.getElem?_eq_getElem hp]

variable {src : Bytes} {r : Reader} {c : RCur}

theorem pos_wf (h : RAbs src r c) : segInRange src r.pos := by
  rw [h.pos]
  have h1 := lineEnd_le src c.p
  have h2 := lineEnd_ge src h.inRange
  exact ⟨by simp, by simp; omega, by simp; omega, by simp⟩

theorem segValue_pos (c : RCur) : segValue src (RCur.seg src c) = spaces c.pad ++ sub src c.p (lineEnd src c.p) := by
  simp [segValue, RCur.seg]

theorem peek_ref (h : RAbs src r c) : r.peek = .ok (RCur.peek src c) := by
  unfold Reader.peek Reader.sourceLength RCur.peek RCur.view
  rw [h.pos, h.source]
  by_cases hp : c.p < src.length
  · have h1 : ((c.p : Int) ≥ 0 ∧ (c.p : Int) < (src.length : Int)) := by omega
    simp only [h1, and_self, if_true, hp]
    by_cases hz : c.pad = 0
    · have he := lt_lineEnd src hp
      simp [hz, spaces, getByte_ok src hp, sub_cons src hp he, pure, Except.pure]
    · obtain ⟨k, hk⟩ : ∃ k, c.pad = k + 1 := ⟨c.pad - 1, by omega⟩
      have : ((c.pad : Int) != 0) = true := by simp; omega
      rw [if_pos this]
      simp [hk, spaces, List.replicate_succ, pure, Except.pure]
  · have h1 : ¬ ((c.p : Int) ≥ 0 ∧ (c.p : Int) < (src.length : Int)) := by omega
    simp [h1, hp, pure, Except.pure]

theorem peekLine_ref (h : RAbs src r c) :
    ∃ r', r.peekLine = .ok ((RCur.peekLine src c).1, r') ∧ RAbs src r' (RCur.peekLine src c).2 := by
  unfold Reader.peekLine Reader.sourceLength RCur.peekLine
  by_cases hp : c.p < src.length
  · have h1 : (r.pos.start ≥ 0 ∧ r.pos.start < (r.source.length : Int)) := by rw [h.pos, h.source]; simp; omega
    simp only [h1, and_self, if_true, hp]
    have hv : RCur.view src c = some (spaces c.pad ++ sub src c.p (lineEnd src c.p)) := by simp [RCur.view, hp]
    have hseg : RCur.seg src c = r.pos := by rw [h.pos]; rfl
    rcases hpl : r.peekedLine with _ | l
    · have hw := pos_wf h
      have := value_spec src r.pos hw
      have hsv : segValue src r.pos = spaces c.pad ++ sub src c.p (lineEnd src c.p) := by
        rw [← hseg, segValue_pos]
      rw [h.source, this]
      simp only [bind, Except.bind, pure, Except.pure]
      refine ⟨_, by rw [hv, hsv, hseg], ?_⟩
      exact { source := rfl, line := h.line, pos := h.pos, inRange := h.inRange, head := h.head,
              peeked := Or.inr (by simp [RCur.view, hp, hsv]), lo := h.lo }
    · have := h.peeked
      rw [hpl] at this
      simp at this
      simp only [pure, Except.pure]
      refine ⟨r, by rw [this, hseg], ?_⟩
      exact { source := h.source, line := h.line, pos := h.pos, inRange := h.inRange, head := h.head,
              peeked := h.peeked, lo := h.lo }
  · have h1 : ¬ (r.pos.start ≥ 0 ∧ r.pos.start < (r.source.length : Int)) := by rw [h.pos, h.source]; simp; omega
    have hseg : RCur.seg src c = r.pos := by rw [h.pos]; rfl
    simp only [h1, if_false, hp, pure, Except.pure]
    refine ⟨r, by simp [RCur.view, hp, hseg], h⟩

theorem position_ref (h : RAbs src r c) : r.position = RCur.position src c := by
  simp [Reader.position, RCur.position, h.line, h.pos, RCur.seg]

theorem colLoop_ok (src : Bytes) {a b : Nat} (hab : a ≤ b) (hb : b ≤ src.length) :
    colLoop src a b = .ok (colFrom (sub src a b) 0) := by
  unfold colLoop
  by_cases e : a = b
  · subst e; simp [sub, colFrom]
  · have h1 : ¬ ((a : Int) ≥ (b : Int)) := by omega
    have h2 : ¬ ((a : Int) < 0 ∨ (b : Int) > (src.length : Int)) := by omega
    simp [h1, hb]

theorem lineOffset_ref (h : RAbs src r c) {v : Int} {c' : RCur} (hs : RCur.lineOffset src c = .ok (v, c')) :
    ∃ r', r.lineOffsetOp = .ok (v, r') ∧ RAbs src r' c' := by
  unfold RCur.lineOffset at hs
  by_cases hp : c.p < src.length
  · simp only [hp, if_true, Except.ok.injEq, Prod.mk.injEq] at hs
    obtain ⟨hv, hc⟩ := hs
    subst hc
    unfold Reader.lineOffsetOp
    by_cases hlo : r.lineOffset < 0
    · simp only [hlo, if_true]
      rw [h.source, h.head hp, h.pos]
      simp only [colLoop_ok src (lineStart_le src c.p) h.inRange, bind, Except.bind, pure, Except.pure]
      refine ⟨_, by rw [hv], ?_⟩
      exact { source := rfl, line := h.line, pos := by simp, inRange := h.inRange,
              head := fun _ => by simp, peeked := h.peeked, lo := Or.inr ⟨hp, by simp [← hv]⟩ }
    · simp only [hlo, if_false, pure, Except.pure]
      rcases h.lo with h1 | ⟨_, h1⟩
      · exact absurd h1 hlo
      · refine ⟨r, by simp [h1, ← hv], ?_⟩
        exact { source := h.source, line := h.line, pos := h.pos, inRange := h.inRange, head := h.head,
                peeked := h.peeked, lo := h.lo }
  · simp [hp] at hs

theorem advanceLine_ref (h : RAbs src r c) : RAbs src r.advanceLine (RCur.advanceLine src c) := by
  have h1 := lineEnd_le src c.p
  have h2 := lineEnd_ge src h.inRange
  unfold Reader.advanceLine
  have hs : ¬ (r.pos.stop < 0) := by rw [h.pos]; simp
  simp only [hs, if_false]
  exact {
    source := h.source
    line := by simp [RCur.advanceLine, h.line]
    pos := by simp [RCur.advanceLine, h.pos, h.source]
    inRange := by simp [RCur.advanceLine]; omega
    head := by
      intro hlt
      simp only [RCur.advanceLine] at hlt ⊢
      have hp : c.p < src.length := by
        rcases Nat.lt_or_ge c.p src.length with h' | h'
        · exact h'
        · rw [lineEnd_of_ge src h'] at hlt; omega
      rw [lineStart_lineEnd src hp hlt, h.pos]
    peeked := Or.inl rfl
    lo := Or.inl (by simp) }

theorem setPosition_ref (h : RAbs src r c) {line : Int} {s : Segment} {c' : RCur}
    (hs : RCur.setPosition src line s c = .ok c') : RAbs src (r.setPosition line s) c' := by
  unfold RCur.setPosition at hs
  by_cases hw : RCur.WFPos src s
  · simp only [hw, if_true, Except.ok.injEq] at hs
    subst hs
    obtain ⟨w0, w1, w2, w3, w4⟩ := hw
    unfold Reader.setPosition Reader.sourceLength
    exact {
      source := h.source
      line := rfl
      pos := by
        cases s
        simp_all
        omega
      inRange := by simp; omega
      head := by
        intro _
        simp only [h.source]
        by_cases hz : 0 < s.start
        · have : (0 < s.start ∧ s.start ≤ (src.length : Int)) := ⟨hz, w1⟩
          simp [this]
        · have e : s.start = 0 := by omega
          simp [e, lineStart]
      peeked := Or.inl rfl
      lo := Or.inl (by simp) }
  · simp [hw] at hs

theorem setPadding_ref (h : RAbs src r c) {v : Int} {c' : RCur}
    (hs : RCur.setPadding v c = .ok c') : RAbs src (r.setPadding v) c' := by
  unfold RCur.setPadding at hs
  by_cases hw : 0 ≤ v
  · simp only [hw, if_true, Except.ok.injEq] at hs
    subst hs
    have hv : ((v.toNat : Nat) : Int) = v := Int.toNat_of_nonneg hw
    unfold Reader.setPadding
    exact { source := h.source, line := h.line, pos := by simp [h.pos, hv], inRange := h.inRange,
            head := h.head, peeked := Or.inl rfl, lo := Or.inl (by simp) }
  · simp [hw] at hs

theorem value_ref (h : RAbs src r c) {s : Segment} {v : Bytes} {c' : RCur}
    (hs : RCur.value src s c = .ok (v, c')) : r.valueOp s = .ok v ∧ c' = c := by
  unfold RCur.value at hs
  by_cases hw : segInRange src s
  · simp only [hw, if_true, Except.ok.injEq, Prod.mk.injEq] at hs
    obtain ⟨hv, hc⟩ := hs
    unfold Reader.valueOp
    rw [h.source, value_spec src s hw, hv]
    exact ⟨rfl, hc.symm⟩
  · simp [hw] at hs

/-! #### Advance -/

theorem advN_eof (src : Bytes) (n : Nat) (c : RCur) (h : ¬ c.p < src.length) : RCur.advN src n c = c := by
  induction n with
  | zero => rfl
  | succ n ih => simp only [RCur.advN]; rw [show RCur.adv1 src c = c by simp [RCur.adv1, h]]; exact ih

theorem RAbs.clear (h : RAbs src r c) :
    RAbs src { r with lineOffset := -1, peekedLine := none } c :=
  { source := h.source, line := h.line, pos := h.pos, inRange := h.inRange, head := h.head,
    peeked := Or.inl rfl, lo := Or.inl (by simp) }

theorem advanceLoop_ref (n : Nat) : ∀ {r : Reader} {c : RCur}, RAbs src r c →
    r.peekedLine = none → r.lineOffset < 0 →
    ∃ r', r.advanceLoop n = .ok r' ∧ RAbs src r' (RCur.advN src n c) := by
  induction n with
  | zero => intro r c h _ _; exact ⟨r, rfl, h⟩
  | succ n ih =>
    intro r c h f1 f2
    simp only [Reader.advanceLoop, RCur.advN, Reader.sourceLength]
    by_cases hp : c.p < src.length
    · have h1 : r.pos.start < (r.source.length : Int) := by rw [h.pos, h.source]; simp; omega
      rw [if_pos h1]
      by_cases hz : c.pad = 0
      · have hz' : ¬ ((r.pos.padding != 0) = true) := by rw [h.pos]; simp [hz]
        rw [if_neg hz', h.source, h.pos]
        simp only [getByte_ok src hp, bind, Except.bind]
        by_cases hb : src[c.p] = 10
        · have hb' : src[c.p]? = some 10 := by simp [List.getElem?_eq_getElem hp, hb]
          have e : RCur.adv1 src c = RCur.advanceLine src c := by
            cases c
            simp_all [RCur.adv1, RCur.advanceLine, lineEnd_nl src hb']
          simp only [hb, beq_self_eq_true, if_true]
          rw [e]
          exact ih (advanceLine_ref h) (by simp [Reader.advanceLine]; split <;> rfl) (by simp [Reader.advanceLine]; split <;> simp)
        · have hb' : src[c.p]? ≠ some 10 := by simp [List.getElem?_eq_getElem hp, hb]
          have hb2 : (src[c.p] == 10) = false := by simp [hb]
          simp only [hb2, Bool.false_eq_true, if_false]
          have e : RCur.adv1 src c = { c with p := c.p + 1 } := by
            simp [RCur.adv1, hp, hz, hb]
          rw [e]
          refine ih ?_ f1 f2
          exact {
            source := rfl, line := h.line
            pos := by simp [lineEnd_succ src hp hb']
            inRange := by simp; omega
            head := by
              intro _
              have := h.head hp
              simp only [lineStart]
              simp [hb', this]
            peeked := Or.inl f1, lo := Or.inl f2 }
      · have hz' : (r.pos.padding != 0) = true := by rw [h.pos]; simp; omega
        rw [if_pos hz']
        have e : RCur.adv1 src c = { c with pad := c.pad - 1 } := by simp [RCur.adv1, hp, hz]
        rw [e]
        refine ih (r := { r with pos := { r.pos with padding := r.pos.padding - 1 } }) ?_ f1 f2
        exact {
          source := h.source, line := h.line
          pos := by simp [h.pos]; omega
          inRange := h.inRange, head := h.head
          peeked := Or.inl f1, lo := Or.inl f2 }
    · have h1 : ¬ (r.pos.start < (r.source.length : Int)) := by rw [h.pos, h.source]; simp; omega
      rw [if_neg h1]
      have e : RCur.adv1 src c = c := by simp [RCur.adv1, hp]
      rw [e, advN_eof src n c hp]
      exact ⟨r, rfl, h⟩

/-- inside a line, with no padding, n steps are n bytes -/
theorem advN_inline (src : Bytes) (n : Nat) : ∀ (c : RCur), c.pad = 0 → c.p + n < lineEnd src c.p →
    RCur.advN src n c = { c with p := c.p + n } ∧ lineEnd src (c.p + n) = lineEnd src c.p ∧
    lineStart src (c.p + n) = lineStart src c.p := by
  induction n with
  | zero => intro c _ _; exact ⟨rfl, rfl, rfl⟩
  | succ n ih =>
    intro c hz hlt
    have hle := lineEnd_le src c.p
    have hp : c.p < src.length := by omega
    have hb' : src[c.p]? ≠ some 10 := by
      intro hb; rw [lineEnd_nl src hb] at hlt; omega
    have hb : ¬ src[c.p] = 10 := by simpa [List.getElem?_eq_getElem hp] using hb'
    have e : RCur.adv1 src c = { c with p := c.p + 1 } := by simp [RCur.adv1, hp, hz, hb]
    have hs := lineEnd_succ src hp hb'
    obtain ⟨i1, i2, i3⟩ := ih { c with p := c.p + 1 } hz (by simp; omega)
    simp only [RCur.advN]
    rw [e, i1]
    simp only at i2 i3
    refine ⟨by simp; omega, ?_, ?_⟩
    · rw [show c.p + (n + 1) = c.p + 1 + n by omega, i2, hs]
    · rw [show c.p + (n + 1) = c.p + 1 + n by omega, i3]
      simp only [lineStart]; simp [hb']

theorem length_sub (src : Bytes) {a b : Nat} (hb : b ≤ src.length) : (sub src a b).length = b - a := by
  simp [sub]; omega

theorem advance_ref (h : RAbs src r c) {n : Int} {c' : RCur} (hs : RCur.advance src n c = .ok c') :
    ∃ r', r.advance n = .ok r' ∧ RAbs src r' c' := by
  unfold RCur.advance at hs
  by_cases hn : 0 ≤ n
  · simp only [hn, if_true, Except.ok.injEq] at hs
    subst hs
    obtain ⟨m, rfl⟩ : ∃ m : Nat, n = m := ⟨n.toNat, (Int.toNat_of_nonneg hn).symm⟩
    simp only [Int.toNat_natCast]
    have slow : ∃ r', Reader.advanceLoop { r with lineOffset := -1, peekedLine := none } m = .ok r' ∧
        RAbs src r' (RCur.advN src m c) :=
      advanceLoop_ref (src := src) m (h.clear) rfl (by simp)
    unfold Reader.advance
    simp only
    rcases hpl : r.peekedLine with _ | l
    · have hnf : ¬ (((m : Int) < 0) ∧ (r.pos.padding == 0) = true) := by omega
      simp only [hnf, if_false, Int.toNat_natCast]
      exact slow
    · simp only
      by_cases hfast : ((m : Int) < (l.length : Int)) ∧ (r.pos.padding == 0) = true
      · rw [if_pos hfast]
        obtain ⟨hf1, hf2⟩ := hfast
        have hz : c.pad = 0 := by rw [h.pos] at hf2; simpa using hf2
        have hv := h.peeked
        rw [hpl] at hv
        simp only [reduceCtorEq, false_or] at hv
        have hp : c.p < src.length := by
          rcases Nat.lt_or_ge c.p src.length with h' | h'
          · exact h'
          · simp [RCur.view, Nat.not_lt.mpr h'] at hv
        simp only [RCur.view, hp, if_true, Option.some.injEq] at hv
        have hl : l.length = lineEnd src c.p - c.p := by
          rw [hv, hz]; simp [spaces, length_sub src (lineEnd_le src c.p)]
        have hlt : c.p + m < lineEnd src c.p := by
          have := lt_lineEnd src hp
          omega
        obtain ⟨i1, i2, i3⟩ := advN_inline src m c hz hlt
        refine ⟨_, rfl, ?_⟩
        rw [i1]
        have hle := lineEnd_le src c.p
        exact {
          source := h.source, line := h.line
          pos := by simp [h.pos, i2]
          inRange := by simp; omega
          head := by intro _; simp [h.head hp, i3]
          peeked := Or.inl rfl, lo := Or.inl (by simp) }
      · rw [if_neg hfast]
        simp only [Int.toNat_natCast]
        exact slow
  · simp [hn] at hs

/-! ### the helpers written against the interface simulate whenever the interface calls do -/

theorem bind_ok {ε α β : Type} {x : Except ε α} {f : α → Except ε β} {y : β} (h : (x >>= f) = .ok y) :
    ∃ a, x = .ok a ∧ f a = .ok y := by
  cases x with
  | error e => simp [bind, Except.bind] at h
  | ok a => exact ⟨a, rfl, h⟩

/-- the interface of an implementation simulates the interface of a specification through `A` -/
structure Sim {σ τ : Type} (A : σ → τ → Prop) (oc : Ops σ) (os : Ops τ) : Prop where
  peekLine : ∀ {r c x c'}, A r c → os.peekLine c = .ok (x, c') → ∃ r', oc.peekLine r = .ok (x, r') ∧ A r' c'
  advance : ∀ {r c n c'}, A r c → os.advance n c = .ok c' → ∃ r', oc.advance n r = .ok r' ∧ A r' c'
  advanceLine : ∀ {r c c'}, A r c → os.advanceLine c = .ok c' → ∃ r', oc.advanceLine r = .ok r' ∧ A r' c'
  position : ∀ {r c}, A r c → oc.position r = os.position c
  setPosition : ∀ {r c l p c'}, A r c → os.setPosition l p c = .ok c' →
    ∃ r', oc.setPosition l p r = .ok r' ∧ A r' c'

section generic
variable {σ τ : Type} {A : σ → τ → Prop} {oc : Ops σ} {os : Ops τ}

theorem skipBlankLines_sim (S : Sim A oc os) (fuel : Nat) : ∀ {lines : Int} {r : σ} {c : τ} {x c'}, A r c →
    skipBlankLines os fuel lines c = .ok (x, c') → ∃ r', skipBlankLines oc fuel lines r = .ok (x, r') ∧ A r' c' := by
  induction fuel with
  | zero => intro lines r c x c' _ h; simp [skipBlankLines] at h
  | succ fuel ih =>
    intro lines r c x c' hA h
    simp only [skipBlankLines] at h ⊢
    obtain ⟨⟨⟨line, seg⟩, c1⟩, h1, h2⟩ := bind_ok h
    obtain ⟨r1, hr1, hA1⟩ := S.peekLine hA h1
    rw [hr1]; simp only [bind, Except.bind]
    cases line with
    | none =>
      simp only [pure, Except.pure, Except.ok.injEq, Prod.mk.injEq] at h2 ⊢
      obtain ⟨e1, e2⟩ := h2; subst e2
      exact ⟨r1, ⟨e1, rfl⟩, hA1⟩
    | some l =>
      by_cases hb : isBlank l = true
      · simp only [hb, if_true] at h2 ⊢
        obtain ⟨c2, h3, h4⟩ := bind_ok h2
        obtain ⟨r2, hr2, hA2⟩ := S.advanceLine hA1 h3
        rw [hr2]
        exact ih hA2 h4
      · simp only [hb] at h2 ⊢
        simp only [pure, Except.pure, Except.ok.injEq, Prod.mk.injEq, Bool.false_eq_true, if_false] at h2 ⊢
        obtain ⟨e1, e2⟩ := h2; subst e2
        exact ⟨r1, ⟨e1, rfl⟩, hA1⟩

theorem skipSpacesLine_sim (S : Sim A oc os) (segment : Segment) (l : Bytes) :
    ∀ {i chars : Int} {r : σ} {c : τ} {res ch c'}, A r c →
    skipSpacesLine os segment l i chars c = .ok (res, ch, c') →
    ∃ r', skipSpacesLine oc segment l i chars r = .ok (res, ch, r') ∧ A r' c' := by
  induction l with
  | nil =>
    intro i chars r c res ch c' hA h
    simp only [skipSpacesLine, pure, Except.pure, Except.ok.injEq, Prod.mk.injEq] at h ⊢
    obtain ⟨e1, e2, e3⟩ := h; subst e3
    exact ⟨r, ⟨e1, e2, rfl⟩, hA⟩
  | cons b bs ih =>
    intro i chars r c res ch c' hA h
    simp only [skipSpacesLine] at h ⊢
    by_cases hb : isSpace b = true
    · simp only [hb, if_true] at h ⊢
      obtain ⟨c1, h1, h2⟩ := bind_ok h
      obtain ⟨r1, hr1, hA1⟩ := S.advance hA h1
      rw [hr1]
      exact ih hA1 h2
    · simp only [hb, Bool.false_eq_true, if_false, pure, Except.pure, Except.ok.injEq, Prod.mk.injEq] at h ⊢
      obtain ⟨e1, e2, e3⟩ := h; subst e3
      exact ⟨r, ⟨e1, e2, rfl⟩, hA⟩

theorem skipSpaces_sim (S : Sim A oc os) (fuel : Nat) : ∀ {chars : Int} {r : σ} {c : τ} {x c'}, A r c →
    skipSpaces os fuel chars c = .ok (x, c') → ∃ r', skipSpaces oc fuel chars r = .ok (x, r') ∧ A r' c' := by
  induction fuel with
  | zero => intro chars r c x c' _ h; simp [skipSpaces] at h
  | succ fuel ih =>
    intro chars r c x c' hA h
    simp only [skipSpaces] at h ⊢
    obtain ⟨⟨⟨line, seg⟩, c1⟩, h1, h2⟩ := bind_ok h
    obtain ⟨r1, hr1, hA1⟩ := S.peekLine hA h1
    rw [hr1]; simp only [bind, Except.bind]
    cases line with
    | none =>
      simp only [pure, Except.pure, Except.ok.injEq, Prod.mk.injEq] at h2 ⊢
      obtain ⟨e1, e2⟩ := h2; subst e2
      exact ⟨r1, ⟨e1, rfl⟩, hA1⟩
    | some l =>
      obtain ⟨⟨res, ch, c2⟩, h3, h4⟩ := bind_ok h2
      obtain ⟨r2, hr2, hA2⟩ := skipSpacesLine_sim S seg l hA1 h3
      have : skipSpacesLine oc seg l 0 chars r1 = .ok (res, ch, r2) := hr2
      simp only [bind, Except.bind] at this ⊢
      rw [this]
      cases res with
      | some v =>
        simp only [pure, Except.pure, Except.ok.injEq, Prod.mk.injEq] at h4 ⊢
        obtain ⟨e1, e2⟩ := h4; subst e2
        exact ⟨r2, ⟨e1, rfl⟩, hA2⟩
      | none => exact ih hA2 h4

theorem readRune_sim (S : Sim A oc os) {r : σ} {c : τ} {x c'} (hA : A r c)
    (h : readRune os c = .ok (x, c')) : ∃ r', readRune oc r = .ok (x, r') ∧ A r' c' := by
  simp only [readRune] at h ⊢
  obtain ⟨⟨⟨line, seg⟩, c1⟩, h1, h2⟩ := bind_ok h
  obtain ⟨r1, hr1, hA1⟩ := S.peekLine hA h1
  rw [hr1]; simp only [bind, Except.bind]
  cases line with
  | none =>
    simp only [pure, Except.pure, Except.ok.injEq, Prod.mk.injEq] at h2 ⊢
    obtain ⟨e1, e2⟩ := h2; subst e2
    exact ⟨r1, ⟨e1, rfl⟩, hA1⟩
  | some l =>
    by_cases hb : ((decodeRune l).1 == runeError) = true
    · simp only [hb, if_true, pure, Except.pure, Except.ok.injEq, Prod.mk.injEq] at h2 ⊢
      obtain ⟨e1, e2⟩ := h2; subst e2
      exact ⟨r1, ⟨e1, rfl⟩, hA1⟩
    · simp only [hb, Bool.false_eq_true, if_false] at h2 ⊢
      obtain ⟨c2, h3, h4⟩ := bind_ok h2
      obtain ⟨r2, hr2, hA2⟩ := S.advance hA1 h3
      try simp only [bind, Except.bind] at hr2 ⊢
      rw [hr2]
      simp only [pure, Except.pure, Except.ok.injEq, Prod.mk.injEq] at h4 ⊢
      obtain ⟨e1, e2⟩ := h4; subst e2
      exact ⟨r2, ⟨e1, rfl⟩, hA2⟩

theorem findClosureLoop_sim (S : Sim A oc os) (opener closer : UInt8) (opts : FindClosureOptions) (fuel : Nat) :
    ∀ {opened cso : Nat} {ret : Option (List Segment)} {r : σ} {c : τ} {x c'}, A r c →
    findClosureLoop os opener closer opts fuel opened cso ret c = .ok (x, c') →
    ∃ r', findClosureLoop oc opener closer opts fuel opened cso ret r = .ok (x, r') ∧ A r' c' := by
  induction fuel with
  | zero => intro opened cso ret r c x c' _ h; simp [findClosureLoop] at h
  | succ fuel ih =>
    intro opened cso ret r c x c' hA h
    simp only [findClosureLoop] at h ⊢
    obtain ⟨⟨⟨line, seg⟩, c1⟩, h1, h2⟩ := bind_ok h
    obtain ⟨r1, hr1, hA1⟩ := S.peekLine hA h1
    rw [hr1]; simp only [bind, Except.bind]
    cases line with
    | none =>
      simp only [pure, Except.pure, Except.ok.injEq, Prod.mk.injEq] at h2 ⊢
      obtain ⟨e1, e2⟩ := h2; subst e2
      exact ⟨r1, ⟨e1, rfl⟩, hA1⟩
    | some bs =>
      cases hsc : scanLine opener closer opts.codeSpan opts.nesting bs 0 opened cso with
      | found i =>
        simp only [hsc] at h2 ⊢
        obtain ⟨c2, h3, h4⟩ := bind_ok h2
        obtain ⟨r2, hr2, hA2⟩ := S.advance hA1 h3
        try simp only [bind, Except.bind] at hr2 ⊢
        rw [hr2]
        simp only [pure, Except.pure, Except.ok.injEq, Prod.mk.injEq] at h4 ⊢
        obtain ⟨e1, e2⟩ := h4; subst e2
        exact ⟨r2, ⟨e1, rfl⟩, hA2⟩
      | stop =>
        simp only [hsc, pure, Except.pure, Except.ok.injEq, Prod.mk.injEq] at h2 ⊢
        obtain ⟨e1, e2⟩ := h2; subst e2
        exact ⟨r1, ⟨e1, rfl⟩, hA1⟩
      | eol o2 c2 =>
        simp only [hsc] at h2 ⊢
        by_cases hn : (!opts.newline) = true
        · simp only [hn, if_true, pure, Except.pure, Except.ok.injEq, Prod.mk.injEq] at h2 ⊢
          obtain ⟨e1, e2⟩ := h2; subst e2
          exact ⟨r1, ⟨e1, rfl⟩, hA1⟩
        · simp only [hn, Bool.false_eq_true, if_false] at h2 ⊢
          obtain ⟨c3, h3, h4⟩ := bind_ok h2
          obtain ⟨r3, hr3, hA3⟩ := S.advanceLine hA1 h3
          try simp only [bind, Except.bind] at hr3 ⊢
          rw [hr3]
          exact ih hA3 h4

theorem findClosure_sim (S : Sim A oc os) (fuel : Nat) (opener closer : UInt8) (opts : FindClosureOptions)
    {r : σ} {c : τ} {x c'} (hA : A r c) (h : findClosure os fuel opener closer opts c = .ok (x, c')) :
    ∃ r', findClosure oc fuel opener closer opts r = .ok (x, r') ∧ A r' c' := by
  unfold findClosure at h ⊢
  simp only at h ⊢
  rw [S.position hA]
  obtain ⟨⟨⟨ret, closed⟩, c1⟩, h1, h2⟩ := bind_ok h
  obtain ⟨r1, hr1, hA1⟩ := findClosureLoop_sim S opener closer opts fuel hA h1
  rw [hr1]; simp only [bind, Except.bind]
  obtain ⟨c2, h3, h4⟩ := bind_ok h2
  by_cases ha : (!opts.advance) = true
  · simp only [ha, if_true] at h3 ⊢
    obtain ⟨r2, hr2, hA2⟩ := S.setPosition hA1 h3
    rw [hr2]
    cases closed <;>
      · simp only [pure, Except.pure, Except.ok.injEq, Prod.mk.injEq, Bool.false_eq_true, if_false, if_true] at h4 ⊢
        obtain ⟨e1, e2⟩ := h4; subst e2
        exact ⟨r2, ⟨e1, rfl⟩, hA2⟩
  · simp only [ha, Bool.false_eq_true, if_false, pure, Except.pure, Except.ok.injEq] at h3 ⊢
    subst h3
    cases closed <;>
      · simp only [pure, Except.pure, Except.ok.injEq, Prod.mk.injEq, Bool.false_eq_true, if_false, if_true] at h4 ⊢
        obtain ⟨e1, e2⟩ := h4; subst e2
        exact ⟨r1, ⟨e1, rfl⟩, hA1⟩

end generic

/-! ### every call of the source reader refines the cursor -/

theorem readerSim (src : Bytes) : Sim (RAbs src) readerOps (RCur.ops src) where
  peekLine := by
    intro r c x c' hA h
    simp only [RCur.ops, Except.ok.injEq] at h
    obtain ⟨r', h1, h2⟩ := peekLine_ref hA
    rw [h] at h1 h2
    exact ⟨r', h1, h2⟩
  advance := fun hA h => advance_ref hA h
  advanceLine := by
    intro r c c' hA h
    simp only [RCur.ops, Except.ok.injEq] at h
    subst h
    exact ⟨_, rfl, advanceLine_ref hA⟩
  position := fun hA => position_ref hA
  setPosition := fun hA h => ⟨_, rfl, setPosition_ref hA h⟩

theorem reader_refines {src : Bytes} {r : Reader} {c : RCur} (h : RAbs src r c) {op : Op} {out : Out} {c' : RCur}
    (hs : RCur.step src c op = .ok (out, c')) : ∃ r', r.step op = .ok (out, r') ∧ RAbs src r' c' := by
  cases op with
  | peek =>
    simp only [RCur.step, Except.ok.injEq, Prod.mk.injEq] at hs
    obtain ⟨e1, e2⟩ := hs; subst e1 e2
    exact ⟨r, by simp [Reader.step, peek_ref h, bind, Except.bind, pure, Except.pure], h⟩
  | peekLine =>
    simp only [RCur.step, Except.ok.injEq, Prod.mk.injEq] at hs
    obtain ⟨e1, e2⟩ := hs; subst e1 e2
    obtain ⟨r', h1, h2⟩ := peekLine_ref h
    exact ⟨r', by simp [Reader.step, h1, bind, Except.bind, pure, Except.pure], h2⟩
  | advance n =>
    simp only [RCur.step] at hs
    obtain ⟨c1, h1, h2⟩ := bind_ok hs
    simp only [pure, Except.pure, Except.ok.injEq, Prod.mk.injEq] at h2
    obtain ⟨e1, e2⟩ := h2; subst e1 e2
    obtain ⟨r', h3, h4⟩ := advance_ref h h1
    exact ⟨r', by simp [Reader.step, h3, bind, Except.bind, pure, Except.pure], h4⟩
  | advanceAndSetPadding n pad =>
    simp only [RCur.step] at hs
    obtain ⟨c1, h1, h2⟩ := bind_ok hs
    obtain ⟨r1, h3, h4⟩ := advance_ref h h1
    have hp : r1.pos.padding = c1.pad := by rw [h4.pos]
    by_cases hgt : pad > (c1.pad : Int)
    · simp only [hgt, if_true] at h2
      obtain ⟨c2, h5, h6⟩ := bind_ok h2
      simp only [pure, Except.pure, Except.ok.injEq, Prod.mk.injEq] at h6
      obtain ⟨e1, e2⟩ := h6; subst e1 e2
      refine ⟨r1.setPadding pad, ?_, setPadding_ref h4 h5⟩
      simp [Reader.step, Reader.advanceAndSetPadding, h3, bind, Except.bind, pure, Except.pure, hp, hgt]
    · simp only [hgt, if_false, pure, Except.pure, Except.ok.injEq, Prod.mk.injEq] at h2
      obtain ⟨e1, e2⟩ := h2; subst e1 e2
      refine ⟨r1, ?_, h4⟩
      simp [Reader.step, Reader.advanceAndSetPadding, h3, bind, Except.bind, pure, Except.pure, hp, hgt]
  | advanceLine =>
    simp only [RCur.step, Except.ok.injEq, Prod.mk.injEq] at hs
    obtain ⟨e1, e2⟩ := hs; subst e1 e2
    exact ⟨_, rfl, advanceLine_ref h⟩
  | position =>
    simp only [RCur.step, Except.ok.injEq, Prod.mk.injEq] at hs
    obtain ⟨e1, e2⟩ := hs; subst e1 e2
    exact ⟨r, by simp [Reader.step, position_ref h, pure, Except.pure], h⟩
  | setPosition l s =>
    simp only [RCur.step] at hs
    obtain ⟨c1, h1, h2⟩ := bind_ok hs
    simp only [pure, Except.pure, Except.ok.injEq, Prod.mk.injEq] at h2
    obtain ⟨e1, e2⟩ := h2; subst e1 e2
    exact ⟨_, rfl, setPosition_ref h h1⟩
  | setPadding v =>
    simp only [RCur.step] at hs
    obtain ⟨c1, h1, h2⟩ := bind_ok hs
    simp only [pure, Except.pure, Except.ok.injEq, Prod.mk.injEq] at h2
    obtain ⟨e1, e2⟩ := h2; subst e1 e2
    exact ⟨_, rfl, setPadding_ref h h1⟩
  | lineOffset =>
    simp only [RCur.step] at hs
    obtain ⟨⟨v, c1⟩, h1, h2⟩ := bind_ok hs
    simp only [pure, Except.pure, Except.ok.injEq, Prod.mk.injEq] at h2
    obtain ⟨e1, e2⟩ := h2; subst e1 e2
    obtain ⟨r', h3, h4⟩ := lineOffset_ref h h1
    exact ⟨r', by simp [Reader.step, h3, bind, Except.bind, pure, Except.pure], h4⟩
  | value s =>
    simp only [RCur.step] at hs
    obtain ⟨⟨v, c1⟩, h1, h2⟩ := bind_ok hs
    simp only [pure, Except.pure, Except.ok.injEq, Prod.mk.injEq] at h2
    obtain ⟨e1, e2⟩ := h2; subst e1 e2
    obtain ⟨h3, h4⟩ := value_ref h h1
    subst h4
    exact ⟨r, by simp [Reader.step, h3, bind, Except.bind, pure, Except.pure], h⟩
  | skipSpaces =>
    simp only [RCur.step] at hs
    obtain ⟨⟨v, c1⟩, h1, h2⟩ := bind_ok hs
    simp only [pure, Except.pure, Except.ok.injEq, Prod.mk.injEq] at h2
    obtain ⟨e1, e2⟩ := h2; subst e1 e2
    obtain ⟨r', h3, h4⟩ := skipSpaces_sim (readerSim src) _ h h1
    exact ⟨r', by simp [Reader.step, h.source, h3, bind, Except.bind, pure, Except.pure], h4⟩
  | skipBlankLines =>
    simp only [RCur.step] at hs
    obtain ⟨⟨v, c1⟩, h1, h2⟩ := bind_ok hs
    simp only [pure, Except.pure, Except.ok.injEq, Prod.mk.injEq] at h2
    obtain ⟨e1, e2⟩ := h2; subst e1 e2
    obtain ⟨r', h3, h4⟩ := skipBlankLines_sim (readerSim src) _ h h1
    exact ⟨r', by simp [Reader.step, h.source, h3, bind, Except.bind, pure, Except.pure], h4⟩
  | readRune =>
    simp only [RCur.step] at hs
    obtain ⟨⟨v, c1⟩, h1, h2⟩ := bind_ok hs
    simp only [pure, Except.pure, Except.ok.injEq, Prod.mk.injEq] at h2
    obtain ⟨e1, e2⟩ := h2; subst e1 e2
    obtain ⟨r', h3, h4⟩ := readRune_sim (readerSim src) h h1
    exact ⟨r', by simp [Reader.step, h3, bind, Except.bind, pure, Except.pure], h4⟩
  | findClosure o cl opts =>
    simp only [RCur.step] at hs
    obtain ⟨⟨v, c1⟩, h1, h2⟩ := bind_ok hs
    simp only [pure, Except.pure, Except.ok.injEq, Prod.mk.injEq] at h2
    obtain ⟨e1, e2⟩ := h2; subst e1 e2
    obtain ⟨r', h3, h4⟩ := findClosure_sim (readerSim src) _ o cl opts h h1
    exact ⟨r', by simp [Reader.step, h.source, h3, bind, Except.bind, pure, Except.pure], h4⟩
  | precendingCharacter => simp [RCur.step] at hs
  | resetPosition => simp [RCur.step] at hs

/-- the fresh reader stands for the cursor at the start of the source -/
theorem reader_init (src : Bytes) : RAbs src (Reader.new src) RCur.init := by
  unfold Reader.new Reader.advanceLine
  simp only [show ¬ ((0 : Int) < 0) by omega, if_false]
  exact { source := rfl, line := by simp [RCur.init], pos := by simp [RCur.init], inRange := by simp [RCur.init],
          head := by intro _; simp [RCur.init, lineStart], peeked := Or.inl rfl, lo := Or.inl (by simp) }

/-- lifting one-step refinement to call sequences -/
theorem runSteps_refines {σ τ : Type} {A : σ → τ → Prop} {stepC : σ → Op → Except Panic (Out × σ)}
    {stepS : τ → Op → Except Panic (Out × τ)}
    (one : ∀ {r c op out c'}, A r c → stepS c op = .ok (out, c') → ∃ r', stepC r op = .ok (out, r') ∧ A r' c')
    (ops : List Op) : ∀ {r c outs c'}, A r c → runSteps stepS c ops = .ok (outs, c') →
    ∃ r', runSteps stepC r ops = .ok (outs, r') ∧ A r' c' := by
  induction ops with
  | nil =>
    intro r c outs c' hA h
    simp only [runSteps, pure, Except.pure, Except.ok.injEq, Prod.mk.injEq] at h ⊢
    obtain ⟨e1, e2⟩ := h; subst e2
    exact ⟨r, ⟨e1, rfl⟩, hA⟩
  | cons op rest ih =>
    intro r c outs c' hA h
    simp only [runSteps] at h ⊢
    obtain ⟨⟨o, c1⟩, h1, h2⟩ := bind_ok h
    obtain ⟨⟨os, c2⟩, h3, h4⟩ := bind_ok h2
    obtain ⟨r1, hr1, hA1⟩ := one hA h1
    obtain ⟨r2, hr2, hA2⟩ := ih hA1 h3
    simp only [pure, Except.pure, Except.ok.injEq, Prod.mk.injEq] at h4
    obtain ⟨e1, e2⟩ := h4; subst e2
    refine ⟨r2, ?_, hA2⟩
    simp only [hr1, bind, Except.bind, hr2, pure, Except.pure, e1]


/-! ### restoring positions -/

theorem findClosure_noAdvance_generic {σ : Type} (o : Ops σ) (fuel : Nat) (opener closer : UInt8)
    (opts : FindClosureOptions) (hadv : opts.advance = false) {s s' : σ} {x}
    (h : findClosure o fuel opener closer opts s = .ok (x, s')) :
    ∃ s1, o.setPosition (o.position s).1 (o.position s).2 s1 = .ok s' := by
  unfold findClosure at h
  simp only at h
  obtain ⟨⟨⟨ret, closed⟩, s1⟩, _, h2⟩ := bind_ok h
  obtain ⟨s2, h3, h4⟩ := bind_ok h2
  simp only [hadv, Bool.not_false, if_true] at h3
  refine ⟨s1, ?_⟩
  cases closed <;>
    · simp only [pure, Except.pure, Except.ok.injEq, Prod.mk.injEq, Bool.false_eq_true, if_false, if_true] at h4
      rw [← h4.2]; exact h3

theorem rcur_wfpos_seg (src : Bytes) (c : RCur) (h : c.p ≤ src.length) : RCur.WFPos src (RCur.seg src c) := by
  refine ⟨by simp [RCur.seg], by simp [RCur.seg]; omega, by simp [RCur.seg], by simp [RCur.seg], rfl⟩

theorem rcur_setPosition_seg (src : Bytes) (c c2 : RCur) (h : c.p ≤ src.length) :
    RCur.setPosition src c.ln (RCur.seg src c) c2 = .ok c := by
  unfold RCur.setPosition
  rw [if_pos (rcur_wfpos_seg src c h)]
  cases c; simp [RCur.seg]

/-- SetPosition with what Position returned at `r` leads to a state that stands for the same cursor -/
theorem reader_setPosition_restores {src : Bytes} {r r2 : Reader} {c c2 : RCur} (h : RAbs src r c) (h2 : RAbs src r2 c2) :
    RAbs src (r2.setPosition r.position.1 r.position.2) c := by
  have hp := position_ref h
  rw [hp]
  exact setPosition_ref h2 (rcur_setPosition_seg src c c2 h.inRange)

theorem reader_findClosure_noAdvance {src : Bytes} {c c' : RCur} {o cl : UInt8} {opts : FindClosureOptions} {out : Out}
    (hadv : opts.advance = false) (hc : c.p ≤ src.length)
    (hs : RCur.step src c (.findClosure o cl opts) = .ok (out, c')) : c' = c := by
  simp only [RCur.step] at hs
  obtain ⟨⟨v, c1⟩, h1, h2⟩ := bind_ok hs
  simp only [pure, Except.pure, Except.ok.injEq, Prod.mk.injEq] at h2
  obtain ⟨_, e2⟩ := h2; subst e2
  obtain ⟨s1, h3⟩ := findClosure_noAdvance_generic (RCur.ops src) _ o cl opts hadv h1
  have : (RCur.ops src).setPosition ((RCur.ops src).position c).1 ((RCur.ops src).position c).2 s1 = .ok c :=
    rcur_setPosition_seg src c s1 hc
  rw [this] at h3
  simp only [Except.ok.injEq] at h3
  exact h3.symm

/-- Peek is the first byte of what PeekLine returns, or EOF (0xff) when PeekLine returns nil -/
theorem reader_peek_head {src : Bytes} {r : Reader} {c : RCur} (h : RAbs src r c) :
    ∃ l s r', r.peekLine = .ok ((l, s), r') ∧ r.peek = .ok (match l with | some (b :: _) => b | _ => 255) := by
  obtain ⟨r', h1, _⟩ := peekLine_ref h
  exact ⟨_, _, r', h1, by rw [peek_ref h]; rfl⟩

end GM.Proof.Reader
