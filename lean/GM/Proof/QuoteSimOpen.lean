/-
  GM.Proof.QuoteSimOpen — parser.openBlocks (the `goto retry` loop with the model's contract monitor) preserves the
  simulation relation.
-/
import GM.Proof.QuoteSimDriver

namespace GM.Blocks
open GM GM.Text GM.Spec GM.Proof.Reader

/-- the parsers that can be tried on any line of `src` are covered -/
structure TrigOK (src : Bytes) (al : BP → Bool) : Prop where
  free : ∀ bp ∈ freeParsers, al bp = true ∨ (bp.notList = false ∧ al .list = false ∧ NoItem src) ∨
      (bp = .setext ∧ al .setext = false ∧ NoBar src)
  trig : ∀ c ∈ src, ∀ bp ∈ (triggered c).getD freeParsers, al bp = true ∨ (bp.notList = false ∧ al .list = false ∧ NoItem src) ∨
      (bp = .setext ∧ al .setext = false ∧ NoBar src)

theorem nodesEq_noR (n0 : List Node) : NoR (fun s : St => s.nodes = n0) := ⟨fun _ _ hs => hs⟩

/-! ### the retry measure: B's is A's plus a constant of the line -/

theorem lastIsList_q {src al k ls p} {sA sB : St} (h : DR src al k ls p sA sB) : lastIsList sB = lastIsList sA := by
  unfold lastIsList
  rcases h.s.c.last with ⟨e1, e2⟩ | ⟨x, e1, e2⟩
  · rw [e1, e2]
    have hroot := h.s.n.node 0
    have hk := hroot.kind
    simp only [beq_self_eq_true, if_true] at hk
    simp only [bqBlock]
    have : (sB.nodes.getD (0 + 1) default).kind = .blockquote := hk.1
    simp only [Nat.zero_add] at this
    rw [this]; rfl
  · rw [e1, e2]
    have hx0 := (h.a.opened x (List.mem_of_getLast? e1)).2
    have hn := h.s.n.node x.node
    rw [beq_eq_false_iff_ne.mpr hx0] at hn
    have hk := hn.kind
    simp only [Bool.false_eq_true, if_false] at hk
    simp only [shB]
    rw [hk]

theorem retryMeasure_q {src al k ls p} {sA sB : St} (h : DR src al k ls p sA sB) :
    retryMeasure sA = 2 * (src.length - p) + (if lastIsList sA then 0 else 1) ∧
    retryMeasure sB = 2 * ((quotePrefix src).length - (p + 2 * (k + 1))) + (if lastIsList sA then 0 else 1) := by
  unfold retryMeasure
  rw [lastIsList_q h, h.s.r.a.source, h.s.r.b.source, h.s.r.a.pos, h.s.r.b.pos]
  simp only [Int.toNat_natCast]
  exact ⟨trivial, trivial⟩

theorem retry_cmp {src al k ls p p'} {sA sB sA' sB' : St} (h : DR src al k ls p sA sB) (h' : DR src al k ls p' sA' sB') :
    decide (retryMeasure sB' < retryMeasure sB) = decide (retryMeasure sA' < retryMeasure sA) := by
  obtain ⟨e1, e2⟩ := retryMeasure_q h
  obtain ⟨e3, e4⟩ := retryMeasure_q h'
  rw [e1, e2, e3, e4]
  have b1 := lineEnd_le src ls
  have b2 := qp_length_ge h.s.r.inl.line
  have b3 := h.s.r.inl.le
  have b4 := h'.s.r.inl.le
  generalize (if lastIsList sA = true then 0 else 1 : Nat) = x
  generalize (if lastIsList sA' = true then 0 else 1 : Nat) = y
  apply decide_eq_decide.mpr
  constructor <;> intro hh <;> omega

theorem get_s2 {src al k ls p} {sA sB : St} (h : DR src al k ls p sA sB) :
    S2 (fun a b sA' sB' => a = sA ∧ b = sB ∧ sA' = sA ∧ sB' = sB) ((get : M St) sA) ((get : M St) sB) :=
  S2.ok ⟨rfl, rfl, rfl, rfl⟩

/-! ### one retry of openBlocks -/

/-- what run A's `openBlocks` loop answers when the last opened block is no paragraph: `newBlocksOpened` once something
    was opened, and also when nothing was opened yet but the rest of the line is not blank -/
def OLU (src : Bytes) (ls p : Nat) (cont : Bool) (result : OpenResult) (a : OpenResult) : Prop :=
  cont = false → (result = .newBlocksOpened ∨ (result = .noBlocksOpened ∧ NBV src ls p)) → a = .newBlocksOpened

theorem toContinuable_false (result : OpenResult) (lb : Option Block) (s : St) :
    toContinuable false result lb s = .ok (result, s) := by
  unfold toContinuable
  simp only [Bool.and_false, Bool.false_eq_true, if_false]
  rfl

/-- every candidate list ends with the free parsers -/
theorem free_mem_triggered (c : UInt8) :
    BP.paragraph ∈ (triggered c).getD freeParsers ∧ BP.code ∈ (triggered c).getD freeParsers := by
  unfold triggered
  repeat' split
  all_goals simp [freeParsers]

/-- a rest of line that starts with `\n` is blank -/
theorem nbv_first10 {src k ls p} (h : InL src k ls p) {c : UInt8} (hc : idx ((viewA src ls p).getD []) 0 = .ok c)
    (h10 : c = 10) : ¬ NBV src ls p := by
  obtain ⟨_, hlt, hb⟩ := idx_view_la hc
  simp only [Int.toNat_zero, Nat.add_zero] at hlt hb
  subst h10
  have e1 := lineEnd_nl src hb
  have e2 := h.lineEnd_eq
  intro hn
  unfold NBV viewA at hn
  rw [if_pos hlt, ← e2, e1] at hn
  have : sub src p (p + 1) = [10] := by
    apply List.ext_getElem?
    intro i
    rw [sub_getElem?]
    cases i with
    | zero => simp [hb]
    | succ j => simp
  rw [this] at hn
  simp [isBlank, isSpace] at hn


/-- parser.go:960-1014 with the monitor, for the candidate list `bps` -/
def obJp (b c : Bool) (f q : Nat) (w : Int) (r : OpenResult) (l : Option Block) (bps : List BP) : M OpenResult := do
  let st ← get
  let x ← tryParsers q b c w bps r l
  match x with
  | (outcome, result, lastBlock) =>
    match outcome with
    | TryOutcome.retry parent' => do
      let st' ← get
      if (!decide (retryMeasure st' < retryMeasure st)) = true then do
        let r ← (throw Panic.pre : M Unit)
        (fun _ => openBlocksLoop b c f parent' result lastBlock) r
      else openBlocksLoop b c f parent' result lastBlock
    | TryOutcome.done => toContinuable c result lastBlock

/-- what the induction on the retry fuel provides -/
def LoopIH (src : Bytes) (al : BP → Bool) (bA bB cont : Bool) (fA fB : Nat) : Prop :=
  (FL src → bB = bA) →
  ∀ (q : Nat) (result resultB : OpenResult) (lbA lbB : Option Block) {k ls p : Nat} {sA sB : St},
    DRL src al k ls p sA sB → LRw al lbA lbB → RRes cont result resultB → HC cont result lbA sA →
    q < sA.nodes.length → (al .setext = false → (bB = bA ∨ q = 0 ∨ QE q sA)) →
    S2 (fun a b sA' sB' => RRes cont a b ∧ (resultB = result → b = a) ∧ (∃ p', DR src al k ls p' sA' sB') ∧
        OLU src ls p cont result a)
      (openBlocksLoop bA cont fA q result lbA sA) (openBlocksLoop bB cont fB (q + 1) resultB lbB sB)

theorem obJp_sim {src al} (ps : PS src al) (fr : Frames al) (ot : OT src) (ns : NS src) (bA bB cont : Bool) (hb : FL src → bB = bA) {fA fB : Nat}
    (ih : LoopIH src al bA bB cont fA fB) (q : Nat) (w : Int) (result resultB : OpenResult) {lbA lbB : Option Block}
    (hl : LRw al lbA lbB) (bps : List BP) (hbps : ∀ bp ∈ bps, al bp = true ∨ (bp.notList = false ∧ al .list = false ∧ NoItem src) ∨
      (bp = .setext ∧ al .setext = false ∧ NoBar src)) {k ls p} {sA sB : St}
    (h : DR src al k ls p sA sB) (hres : RRes cont result resultB) (hcl : HC cont result lbA sA)
    (hq : q < sA.nodes.length) (hbq : al .setext = false → (bB = bA ∨ q = 0 ∨ QE q sA))
    (hm1 : w ≤ 3 → BP.paragraph ∈ bps)
    (hm2 : 3 < w → BP.code ∈ bps ∧ ∃ lo : Int, w = (indentWidthI ((viewA src ls p).getD []) lo).1) :
    S2 (fun a b sA' sB' => RRes cont a b ∧ (resultB = result → b = a) ∧ (∃ p', DR src al k ls p' sA' sB') ∧
        OLU src ls p cont result a)
      (obJp bA cont fA q w result lbA bps sA) (obJp bB cont fB (q + 1) w resultB lbB bps sB) := by
  unfold obJp
  refine S2.bind (get_s2 h) (fun stA stB sA1 sB1 hq => ?_)
  obtain ⟨e1, e2, e3, e4⟩ := hq
  rw [e1, e2, e3, e4]
  refine S2.bind (tryParsers_sim ps fr ot bA bB cont hb w q bps hbps result resultB lbA lbB h hl hres hcl hq hbq) (fun a b sA2 sB2 hq => ?_)
  obtain ⟨⟨hout, hr, hl2, hnew⟩, heq, ⟨p', h2⟩, hu, hcl2, hret, _⟩ := hq
  obtain ⟨oA, rA, lA⟩ := a
  obtain ⟨oB, rB, lB⟩ := b
  simp only at hout hr hl2 hnew heq hu hcl2 hret ⊢
  cases oA with
  | retry qa =>
    cases oB with
    | done => exact hout.elim
    | retry qb =>
      have hq' : qb = qa + 1 := hout
      rw [hq']
      obtain ⟨hrA, hrB⟩ := hnew (by intro e; cases e)
      simp only
      refine S2.bind (get_s2 h2) (fun stA' stB' sA3 sB3 hq => ?_)
      obtain ⟨e1, e2, e3, e4⟩ := hq
      rw [e1, e2, e3, e4, retry_cmp h h2]
      by_cases hc : (!decide (retryMeasure sA2 < retryMeasure sA)) = true
      · rw [if_pos hc, if_pos hc]
        exact S2.errL (throw_bind_err _ _ _)
      · rw [if_neg hc, if_neg hc]
        rw [hrA, hrB]
        exact S2.mono (ih hb qa .newBlocksOpened .newBlocksOpened lA lB h2.loose hl2 (.inl rfl) (HC.of_new rfl)
            (hret qa rfl).1 (fun _ => .inr (.inr (hret qa rfl).2)))
          (fun _ _ _ _ hh => ⟨hh.1, fun _ => hh.2.1 rfl, hh.2.2.1, fun hc _ => hh.2.2.2 hc (.inl rfl)⟩)
  | done =>
    cases oB with
    | retry _ => exact hout.elim
    | done =>
      simp only
      refine S2.mono (S2.andL (toContinuable_sim fr cont rA rB hr hl2 h2 hcl2) (F := fun a _ => cont = false → a = rA)
        (fun a sA' e hc => by subst hc; rw [toContinuable_false] at e; cases e; rfl))
        (fun _ _ _ _ hh => ⟨hh.1.1, fun e => hh.1.2.1 (heq e), hh.1.2.2, fun hc hpre => ?_⟩)
      rw [hh.2 hc]
      rcases hpre with e | ⟨e, hnb⟩
      · rcases hu.1 with e' | e'
        · rw [e', e]
        · exact e'
      · exact hu.2 hc e hnb hm1 hm2

theorem liftE_same {α} {src al k ls p} {sA sB : St} (h : DR src al k ls p sA sB) (e : Except Panic α) :
    S2 (fun a b sA' sB' => b = a ∧ e = .ok a ∧ sA' = sA ∧ sB' = sB) (liftE e sA) (liftE e sB) :=
  S2.liftE (fun a ha => ⟨a, ha, rfl, ha, rfl, rfl⟩)

theorem openBlocksLoop_sim {src al} (ps : PS src al) (fr : Frames al) (ot : OT src) (ns : NS src) (tr : TrigOK src al)
    (bA bB cont : Bool) : ∀ (fA fB : Nat), fA ≤ fB → LoopIH src al bA bB cont fA fB := by
  intro fA
  induction fA with
  | zero =>
    intro fB _ hb q result resultB lbA lbB k ls p sA sB _ _ _ _ _ _
    unfold openBlocksLoop
    exact S2.errL rfl
  | succ fA ih =>
    intro fB hle hb q result resultB lbA lbB k ls p sA sB h hl hres hcl hq hbq
    obtain ⟨fB', rfl⟩ : ∃ f, fB = f + 1 := ⟨fB - 1, by omega⟩
    have ih' := ih fB' (by omega)
    -- the exit through `toContinuable` before any parser was tried
    have tc : ∀ {sA3 sB3 : St}, DR src al k ls p sA3 sB3 → sA3.pc.opened = sA.pc.opened → ¬ NBV src ls p →
        S2 (fun a b sA' sB' => RRes cont a b ∧ (resultB = result → b = a) ∧ (∃ p', DR src al k ls p' sA' sB') ∧
          OLU src ls p cont result a) (toContinuable cont result lbA sA3) (toContinuable cont resultB lbB sB3) := by
      intro sA3 sB3 h3 ho3 hnb
      refine S2.mono (S2.andL (toContinuable_sim fr cont result resultB hres hl h3 (hcl.congr ho3))
        (F := fun a _ => cont = false → a = result)
        (fun a sA' e hc => by subst hc; rw [toContinuable_false] at e; cases e; rfl))
        (fun _ _ _ _ hh => ⟨hh.1.1, hh.1.2.1, hh.1.2.2, fun hc hpre => ?_⟩)
      rw [hh.2 hc]
      rcases hpre with e | ⟨_, hn⟩
      · exact e
      · exact absurd hn hnb
    unfold openBlocksLoop
    refine S2.bind (S2.andL (peekLine_l h) (F := fun _ sA' => sA'.pc.opened = sA.pc.opened ∧ sA'.nodes = sA.nodes)
      (fun _ sA' e => ⟨peekLine_keeps (openedIs_frame sA.pc.opened).mods.noR sA _ sA' rfl e,
        peekLine_keeps (nodesEq_noR sA.nodes) sA _ sA' rfl e⟩)) (fun a b sA1 sB1 hq => ?_)
    obtain ⟨⟨ea, eb, h1⟩, ho1, hn1⟩ := hq
    subst ea eb
    simp only
    refine S2.bind (S2.andL (lineOffset_l h1) (F := fun _ sA' => sA'.pc.opened = sA1.pc.opened ∧ sA'.nodes = sA1.nodes)
      (fun _ sA' e => ⟨lineOffset_keeps (openedIs_frame sA1.pc.opened).mods.noR sA1 _ sA' rfl e,
        lineOffset_keeps (nodesEq_noR sA1.nodes) sA1 _ sA' rfl e⟩)) (fun loA loB sA2 sB2 hq => ?_)
    obtain ⟨⟨_, h2⟩, ho2, hn2⟩ := hq
    have htf := viewA_tf_la h.r.tf ls p
    rw [indentWidthI_tf _ htf loB loA]
    generalize hwp : indentWidthI ((viewA src ls p).getD []) loA = wp
    obtain ⟨w, pos⟩ := wp
    have hw : w = (indentWidthI ((viewA src ls p).getD []) loA).1 := by rw [hwp]
    simp only
    refine S2.bind (S2.andL (modPc_l h2 _ _ (fun a b hab => ?_) (fun a n ha => ?_))
      (F := fun _ sA' => sA'.pc.opened = sA2.pc.opened ∧ sA'.nodes = sA2.nodes) (fun _ sA' e => ?_)) (fun _ _ sA3 sB3 hq => ?_)
    · split
      · exact ⟨rfl, rfl, hab.opened, hab.tmpPara, hab.fence, hab.skipList, hab.emptyItemBlank⟩
      · exact ⟨rfl, rfl, hab.opened, hab.tmpPara, hab.fence, hab.skipList, hab.emptyItemBlank⟩
    · split
      · exact ⟨ha.opened, ha.tmp, ha.fence, ha.u, ha.nk, ha.pk, ha.rg⟩
      · exact ⟨ha.opened, ha.tmp, ha.fence, ha.u, ha.nk, ha.pk, ha.rg⟩
    · unfold modPc at e; cases e; simp only; exact ⟨by split <;> rfl, trivial⟩
    obtain ⟨h3, ho3', hn3'⟩ := hq
    have ho3 : sA3.pc.opened = sA.pc.opened := by rw [ho3', ho2, ho1]
    have hn3 : sA3.nodes = sA.nodes := by rw [hn3', hn2, hn1]
    have hq3 : q < sA3.nodes.length := by rw [hn3]; exact hq
    have hbq3 : al .setext = false → (bB = bA ∨ q = 0 ∨ QE q sA3) := fun hns =>
      (hbq hns).imp id (Or.imp id (fun e => by
        show (sA3.nodes.getD q default).children = []
        rw [hn3]; exact e))
    have hcl3 : HC cont result lbA sA3 := hcl.congr ho3
    by_cases hnone : (viewA src ls p).isNone = true
    · rw [if_pos hnone, if_pos hnone]
      refine tc h3 ho3 (fun hn => ?_)
      unfold NBV at hn
      rw [Option.isNone_iff_eq_none.mp hnone] at hn
      simp [isBlank] at hn
    rw [if_neg hnone, if_neg hnone]
    refine S2.bind (liftE_same h3 _) (fun c c' sA4 sB4 hq => ?_)
    obtain ⟨ec, hcidx, e1, e2⟩ := hq
    rw [ec, e1, e2]
    by_cases hc10 : (c == 10) = true
    · rw [if_pos hc10, if_pos hc10]
      exact tc h3 ho3 (nbv_first10 h.r.inl hcidx (by simpa using hc10))
    rw [if_neg hc10, if_neg hc10]
    by_cases hpl : pos < (((viewA src ls p).getD []).length : Int)
    · rw [if_pos hpl, if_pos hpl]
      refine S2.bind (liftE_same h3 _) (fun d d' sA5 sB5 hq => ?_)
      obtain ⟨ed, hd, e1, e2⟩ := hq
      rw [ed, e1, e2]
      have hmem : d ∈ src := by
        obtain ⟨_, _, hb⟩ := idx_view_la hd
        exact List.mem_of_getElem? hb
      exact obJp_sim ps fr ot ns bA bB cont hb ih' q w result resultB hl _ (tr.trig d hmem) h3 hres hcl3 hq3 hbq3
        (fun _ => (free_mem_triggered d).1) (fun _ => ⟨(free_mem_triggered d).2, loA, hw⟩)
    · rw [if_neg hpl, if_neg hpl]
      exact obJp_sim ps fr ot ns bA bB cont hb ih' q w result resultB hl _ tr.free h3 hres hcl3 hq3 hbq3
        (fun _ => by simp [freeParsers]) (fun _ => ⟨by simp [freeParsers], loA, hw⟩)

theorem qp_length_ge_len (src : Bytes) : src.length ≤ (quotePrefix src).length := by
  have := qpg_length src true
  unfold quotePrefix
  split at this <;> simp only [if_true] at this <;> omega

/-- parser.openBlocks, from states that may still disagree on BlockOffset / BlockIndent -/
theorem openBlocks_sim {src al} (ps : PS src al) (fr : Frames al) (ot : OT src) (ns : NS src) (tr : TrigOK src al)
    (bA bB : Bool) (hb : FL src → bB = bA) (q : Nat) {k ls p} {sA sB : St} (h : DRL src al k ls p sA sB)
    (hq : q < sA.nodes.length) (hbq : al .setext = false → (bB = bA ∨ q = 0)) :
    S2 (fun a b sA' sB' => b = a ∧ (∃ p', DR src al k ls p' sA' sB') ∧
        (sA.pc.opened = [] → NBV src ls p → a = .newBlocksOpened))
      (openBlocks q bA sA) (openBlocks (q + 1) bB sB) := by
  unfold openBlocks
  have e1 : lastOpenedBlock sA = .ok (sA.pc.opened.getLast?, sA) := rfl
  have e2 : lastOpenedBlock sB = .ok (sB.pc.opened.getLast?, sB) := rfl
  rw [bind_run e1, bind_run e2]
  have hl : LR al sA.pc.opened.getLast? sB.pc.opened.getLast? :=
    ⟨h.c.last, fun x hx => h.a.opened x (List.mem_of_getLast? hx)⟩
  have fuel : retryFuel sA.r.source ≤ retryFuel sB.r.source := by
    rw [h.r.a.source, h.r.b.source]
    have := qp_length_ge_len src
    unfold retryFuel; omega
  have esA : source sA = .ok (sA.r.source, sA) := rfl
  have esB : source sB = .ok (sB.r.source, sB) := rfl
  rcases h.c.last with ⟨ea, eb⟩ | ⟨x, ea, eb⟩
  · rw [ea, eb] at hl ⊢
    simp only [bqBlock]
    have eg : getNode 1 sB = .ok (sB.nodes.getD 1 default, sB) := rfl
    have hroot := h.n.node 0
    have hk := hroot.kind
    simp only [beq_self_eq_true, if_true] at hk
    have hk1 : (sB.nodes.getD 1 default).kind = .blockquote := by
      have : (sB.nodes.getD (0 + 1) default).kind = .blockquote := hk.1
      simpa using this
    simp only [bind_assoc, pure_bind]
    rw [bind_run eg, hk1]
    show S2 _ ((source >>= fun x => openBlocksLoop bA false (retryFuel x) q .noBlocksOpened none) sA)
      ((source >>= fun x => openBlocksLoop bB false (retryFuel x) (q + 1) .noBlocksOpened (some bqBlock)) sB)
    rw [bind_run esA, bind_run esB]
    exact S2.mono (openBlocksLoop_sim ps fr ot ns tr bA bB false _ _ fuel hb q _ _ _ _ h (.inr hl) (.inl rfl)
        (fun hc => by cases hc) hq (fun hns => (hbq hns).imp id .inl))
      (fun _ _ _ _ hh => ⟨hh.2.1 rfl, hh.2.2.1, fun _ hnb => hh.2.2.2 rfl (.inr ⟨rfl, hnb⟩)⟩)
  · rw [ea, eb] at hl ⊢
    obtain ⟨_, hx0⟩ := hl.ok x rfl
    simp only [shB]
    have egA : getNode x.node sA = .ok (sA.nodes.getD x.node default, sA) := rfl
    have egB : getNode (x.node + 1) sB = .ok (sB.nodes.getD (x.node + 1) default, sB) := rfl
    have hn := h.n.node x.node
    rw [beq_eq_false_iff_ne.mpr hx0] at hn
    have hk := hn.kind
    simp only [Bool.false_eq_true, if_false] at hk
    simp only [bind_assoc, pure_bind]
    rw [bind_run egA, bind_run egB, hk]
    show S2 _ ((source >>= fun y => openBlocksLoop bA _ (retryFuel y) q .noBlocksOpened (some x)) sA)
      ((source >>= fun y => openBlocksLoop bB _ (retryFuel y) (q + 1) .noBlocksOpened (some (shB x))) sB)
    rw [bind_run esA, bind_run esB]
    have hcl : HC ((sA.nodes.getD x.node default).kind == Kind.paragraph) OpenResult.noBlocksOpened (some x) sA := by
      intro hc _
      refine ⟨ea.symm, fun y hy => ?_⟩
      cases hy
      have hk := (h.a.pk x (List.mem_of_getLast? ea)).2
      exact bp_kind_paragraph (by rw [← hk]; simpa using hc)
    exact S2.mono (openBlocksLoop_sim ps fr ot ns tr bA bB _ _ _ fuel hb q _ _ _ _ h (.inr hl) (.inl rfl) hcl
        hq (fun hns => (hbq hns).imp id .inl))
      (fun _ _ _ _ hh => ⟨hh.2.1 rfl, hh.2.2.1, fun ho _ => by rw [ho] at ea; cases ea⟩)

end GM.Blocks
