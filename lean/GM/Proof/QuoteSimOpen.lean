/-
  GM.Proof.QuoteSimOpen — parser.openBlocks (the `goto retry` loop with the model's contract monitor) preserves the
  simulation relation.
-/
import GM.Proof.QuoteSimDriver

namespace GM.Blocks
open GM GM.Text GM.Spec GM.Proof.Reader

/-- the parsers that can be tried on any line of `src` are covered -/
structure TrigOK (src : Bytes) (al : BP → Bool) : Prop where
  free : ∀ bp ∈ freeParsers, al bp = true
  trig : ∀ c ∈ src, ∀ bp ∈ (triggered c).getD freeParsers, al bp = true

/-! ### the retry measure: B's is A's plus a constant of the line -/

theorem lastIsList_q {src al k ls p} {sA sB : St} (h : DR src al k ls p sA sB) : lastIsList sB = lastIsList sA := by
  unfold lastIsList
  rcases h.s.c.last with ⟨e1, e2⟩ | ⟨x, e1, e2⟩
  · rw [e1, e2]
    have hroot := h.s.n.node 0
    have hk := hroot.kind
    simp only [beq_self_eq_true, if_true] at hk
    simp only [bqBlock]
    have : (sB.nodes.getD (0 + 1) default).kind = .blockquote := hk.1
    simp only [Nat.zero_add] at this
    rw [this]; rfl
  · rw [e1, e2]
    have hx0 := (h.a.opened x (List.mem_of_getLast? e1)).2
    have hn := h.s.n.node x.node
    rw [beq_eq_false_iff_ne.mpr hx0] at hn
    have hk := hn.kind
    simp only [Bool.false_eq_true, if_false] at hk
    simp only [shB]
    rw [hk]

theorem retryMeasure_q {src al k ls p} {sA sB : St} (h : DR src al k ls p sA sB) :
    retryMeasure sA = 2 * (src.length - p) + (if lastIsList sA then 0 else 1) ∧
    retryMeasure sB = 2 * ((quotePrefix src).length - (p + 2 * (k + 1))) + (if lastIsList sA then 0 else 1) := by
  unfold retryMeasure
  rw [lastIsList_q h, h.s.r.a.source, h.s.r.b.source, h.s.r.a.pos, h.s.r.b.pos]
  simp only [Int.toNat_natCast]
  exact ⟨trivial, trivial⟩

theorem retry_cmp {src al k ls p p'} {sA sB sA' sB' : St} (h : DR src al k ls p sA sB) (h' : DR src al k ls p' sA' sB') :
    decide (retryMeasure sB' < retryMeasure sB) = decide (retryMeasure sA' < retryMeasure sA) := by
  obtain ⟨e1, e2⟩ := retryMeasure_q h
  obtain ⟨e3, e4⟩ := retryMeasure_q h'
  rw [e1, e2, e3, e4]
  have b1 := lineEnd_le src ls
  have b2 := qp_length_ge h.s.r.inl.line
  have b3 := h.s.r.inl.le
  have b4 := h'.s.r.inl.le
  generalize (if lastIsList sA = true then 0 else 1 : Nat) = x
  generalize (if lastIsList sA' = true then 0 else 1 : Nat) = y
  apply decide_eq_decide.mpr
  constructor <;> intro hh <;> omega

theorem get_s2 {src al k ls p} {sA sB : St} (h : DR src al k ls p sA sB) :
    S2 (fun a b sA' sB' => a = sA ∧ b = sB ∧ sA' = sA ∧ sB' = sB) ((get : M St) sA) ((get : M St) sB) :=
  S2.ok ⟨rfl, rfl, rfl, rfl⟩

/-! ### one retry of openBlocks -/

/-- parser.go:960-1014 with the monitor, for the candidate list `bps` -/
def obJp (b c : Bool) (f q : Nat) (w : Int) (r : OpenResult) (l : Option Block) (bps : List BP) : M OpenResult := do
  let st ← get
  let x ← tryParsers q b c w bps r l
  match x with
  | (outcome, result, lastBlock) =>
    match outcome with
    | TryOutcome.retry parent' => do
      let st' ← get
      if (!decide (retryMeasure st' < retryMeasure st)) = true then do
        let r ← (throw Panic.pre : M Unit)
        (fun _ => openBlocksLoop b c f parent' result lastBlock) r
      else openBlocksLoop b c f parent' result lastBlock
    | TryOutcome.done => toContinuable c result lastBlock

/-- what the induction on the retry fuel provides -/
def LoopIH (src : Bytes) (al : BP → Bool) (bA bB cont : Bool) (fA fB : Nat) : Prop :=
  ∀ (q : Nat) (result resultB : OpenResult) (lbA lbB : Option Block) {k ls p : Nat} {sA sB : St},
    DRL src al k ls p sA sB → LRw al lbA lbB → RRes cont result resultB →
    S2 (fun a b sA' sB' => RRes cont a b ∧ (resultB = result → b = a) ∧ ∃ p', DR src al k ls p' sA' sB')
      (openBlocksLoop bA cont fA q result lbA sA) (openBlocksLoop bB cont fB (q + 1) resultB lbB sB)

theorem obJp_sim {src al} (ps : PS src al) (fr : Frames al) (ns : NS src) (bA bB cont : Bool) {fA fB : Nat}
    (ih : LoopIH src al bA bB cont fA fB) (q : Nat) (w : Int) (result resultB : OpenResult) {lbA lbB : Option Block}
    (hl : LRw al lbA lbB) (bps : List BP) (hbps : ∀ bp ∈ bps, al bp = true) {k ls p} {sA sB : St}
    (h : DR src al k ls p sA sB) (hres : RRes cont result resultB) :
    S2 (fun a b sA' sB' => RRes cont a b ∧ (resultB = result → b = a) ∧ ∃ p', DR src al k ls p' sA' sB')
      (obJp bA cont fA q w result lbA bps sA) (obJp bB cont fB (q + 1) w resultB lbB bps sB) := by
  unfold obJp
  refine S2.bind (get_s2 h) (fun stA stB sA1 sB1 hq => ?_)
  obtain ⟨e1, e2, e3, e4⟩ := hq
  rw [e1, e2, e3, e4]
  refine S2.bind (tryParsers_sim ps fr bA bB cont w q bps hbps result resultB lbA lbB h hl hres) (fun a b sA2 sB2 hq => ?_)
  obtain ⟨⟨hout, hr, hl2, hnew⟩, heq, p', h2⟩ := hq
  obtain ⟨oA, rA, lA⟩ := a
  obtain ⟨oB, rB, lB⟩ := b
  simp only at hout hr hl2 hnew heq ⊢
  cases oA with
  | retry qa =>
    cases oB with
    | done => exact hout.elim
    | retry qb =>
      have hq' : qb = qa + 1 := hout
      rw [hq']
      obtain ⟨hrA, hrB⟩ := hnew (by intro e; cases e)
      simp only
      refine S2.bind (get_s2 h2) (fun stA' stB' sA3 sB3 hq => ?_)
      obtain ⟨e1, e2, e3, e4⟩ := hq
      rw [e1, e2, e3, e4, retry_cmp h h2]
      by_cases hc : (!decide (retryMeasure sA2 < retryMeasure sA)) = true
      · rw [if_pos hc, if_pos hc]
        exact S2.errL (throw_bind_err _ _ _)
      · rw [if_neg hc, if_neg hc]
        rw [hrA, hrB]
        exact S2.mono (ih qa .newBlocksOpened .newBlocksOpened lA lB h2.loose hl2 (.inl rfl))
          (fun _ _ _ _ hh => ⟨hh.1, fun _ => hh.2.1 rfl, hh.2.2⟩)
  | done =>
    cases oB with
    | retry _ => exact hout.elim
    | done =>
      simp only
      exact S2.mono (toContinuable_sim ps fr ns cont rA rB hr hl2 h2)
        (fun _ _ _ _ hh => ⟨hh.1, fun e => hh.2.1 (heq e), hh.2.2⟩)

theorem liftE_same {α} {src al k ls p} {sA sB : St} (h : DR src al k ls p sA sB) (e : Except Panic α) :
    S2 (fun a b sA' sB' => b = a ∧ e = .ok a ∧ sA' = sA ∧ sB' = sB) (liftE e sA) (liftE e sB) :=
  S2.liftE (fun a ha => ⟨a, ha, rfl, ha, rfl, rfl⟩)

theorem openBlocksLoop_sim {src al} (ps : PS src al) (fr : Frames al) (ns : NS src) (tr : TrigOK src al)
    (bA bB cont : Bool) : ∀ (fA fB : Nat), fA ≤ fB → LoopIH src al bA bB cont fA fB := by
  intro fA
  induction fA with
  | zero =>
    intro fB _ q result resultB lbA lbB k ls p sA sB _ _ _
    unfold openBlocksLoop
    exact S2.errL rfl
  | succ fA ih =>
    intro fB hle q result resultB lbA lbB k ls p sA sB h hl hres
    obtain ⟨fB', rfl⟩ : ∃ f, fB = f + 1 := ⟨fB - 1, by omega⟩
    have ih' := ih fB' (by omega)
    unfold openBlocksLoop
    refine S2.bind (peekLine_l h) (fun a b sA1 sB1 hq => ?_)
    obtain ⟨ea, eb, h1⟩ := hq
    subst ea eb
    simp only
    refine S2.bind (lineOffset_l h1) (fun loA loB sA2 sB2 hq => ?_)
    obtain ⟨_, h2⟩ := hq
    have htf := viewA_tf_la h.r.tf ls p
    rw [indentWidthI_tf _ htf loB loA]
    generalize indentWidthI ((viewA src ls p).getD []) loA = wp
    obtain ⟨w, pos⟩ := wp
    simp only
    refine S2.bind (modPc_l h2 _ _ (fun a b hab => ?_) (fun a ha => ?_)) (fun _ _ sA3 sB3 h3 => ?_)
    · split
      · exact ⟨rfl, rfl, hab.opened, hab.tmpPara, hab.fence, hab.skipList, hab.emptyItemBlank⟩
      · exact ⟨rfl, rfl, hab.opened, hab.tmpPara, hab.fence, hab.skipList, hab.emptyItemBlank⟩
    · split
      · exact ⟨ha.opened, ha.tmp, ha.fence⟩
      · exact ⟨ha.opened, ha.tmp, ha.fence⟩
    by_cases hnone : (viewA src ls p).isNone = true
    · rw [if_pos hnone, if_pos hnone]
      exact toContinuable_sim ps fr ns cont result resultB hres hl h3
    rw [if_neg hnone, if_neg hnone]
    refine S2.bind (liftE_same h3 _) (fun c c' sA4 sB4 hq => ?_)
    obtain ⟨ec, _, e1, e2⟩ := hq
    rw [ec, e1, e2]
    by_cases hc10 : (c == 10) = true
    · rw [if_pos hc10, if_pos hc10]
      exact toContinuable_sim ps fr ns cont result resultB hres hl h3
    rw [if_neg hc10, if_neg hc10]
    by_cases hpl : pos < (((viewA src ls p).getD []).length : Int)
    · rw [if_pos hpl, if_pos hpl]
      refine S2.bind (liftE_same h3 _) (fun d d' sA5 sB5 hq => ?_)
      obtain ⟨ed, hd, e1, e2⟩ := hq
      rw [ed, e1, e2]
      have hmem : d ∈ src := by
        obtain ⟨_, _, hb⟩ := idx_view_la hd
        exact List.mem_of_getElem? hb
      exact obJp_sim ps fr ns bA bB cont ih' q w result resultB hl _ (tr.trig d hmem) h3 hres
    · rw [if_neg hpl, if_neg hpl]
      exact obJp_sim ps fr ns bA bB cont ih' q w result resultB hl _ tr.free h3 hres

theorem qp_length_ge_len (src : Bytes) : src.length ≤ (quotePrefix src).length := by
  have := qpg_length src true
  unfold quotePrefix
  split at this <;> simp only [if_true] at this <;> omega

/-- parser.openBlocks, from states that may still disagree on BlockOffset / BlockIndent -/
theorem openBlocks_sim {src al} (ps : PS src al) (fr : Frames al) (ns : NS src) (tr : TrigOK src al)
    (bA bB : Bool) (q : Nat) {k ls p} {sA sB : St} (h : DRL src al k ls p sA sB) :
    S2 (fun a b sA' sB' => b = a ∧ ∃ p', DR src al k ls p' sA' sB') (openBlocks q bA sA) (openBlocks (q + 1) bB sB) := by
  unfold openBlocks
  have e1 : lastOpenedBlock sA = .ok (sA.pc.opened.getLast?, sA) := rfl
  have e2 : lastOpenedBlock sB = .ok (sB.pc.opened.getLast?, sB) := rfl
  rw [bind_run e1, bind_run e2]
  have hl : LR al sA.pc.opened.getLast? sB.pc.opened.getLast? :=
    ⟨h.c.last, fun x hx => h.a.opened x (List.mem_of_getLast? hx)⟩
  have fuel : retryFuel sA.r.source ≤ retryFuel sB.r.source := by
    rw [h.r.a.source, h.r.b.source]
    have := qp_length_ge_len src
    unfold retryFuel; omega
  have esA : source sA = .ok (sA.r.source, sA) := rfl
  have esB : source sB = .ok (sB.r.source, sB) := rfl
  rcases h.c.last with ⟨ea, eb⟩ | ⟨x, ea, eb⟩
  · rw [ea, eb] at hl ⊢
    simp only [bqBlock]
    have eg : getNode 1 sB = .ok (sB.nodes.getD 1 default, sB) := rfl
    have hroot := h.n.node 0
    have hk := hroot.kind
    simp only [beq_self_eq_true, if_true] at hk
    have hk1 : (sB.nodes.getD 1 default).kind = .blockquote := by
      have : (sB.nodes.getD (0 + 1) default).kind = .blockquote := hk.1
      simpa using this
    simp only [bind_assoc, pure_bind]
    rw [bind_run eg, hk1]
    show S2 _ ((source >>= fun x => openBlocksLoop bA false (retryFuel x) q .noBlocksOpened none) sA)
      ((source >>= fun x => openBlocksLoop bB false (retryFuel x) (q + 1) .noBlocksOpened (some bqBlock)) sB)
    rw [bind_run esA, bind_run esB]
    exact S2.mono (openBlocksLoop_sim ps fr ns tr bA bB false _ _ fuel q _ _ _ _ h (.inr hl) (.inl rfl)) (fun _ _ _ _ hh => ⟨hh.2.1 rfl, hh.2.2⟩)
  · rw [ea, eb] at hl ⊢
    obtain ⟨_, hx0⟩ := hl.ok x rfl
    simp only [shB]
    have egA : getNode x.node sA = .ok (sA.nodes.getD x.node default, sA) := rfl
    have egB : getNode (x.node + 1) sB = .ok (sB.nodes.getD (x.node + 1) default, sB) := rfl
    have hn := h.n.node x.node
    rw [beq_eq_false_iff_ne.mpr hx0] at hn
    have hk := hn.kind
    simp only [Bool.false_eq_true, if_false] at hk
    simp only [bind_assoc, pure_bind]
    rw [bind_run egA, bind_run egB, hk]
    show S2 _ ((source >>= fun y => openBlocksLoop bA _ (retryFuel y) q .noBlocksOpened (some x)) sA)
      ((source >>= fun y => openBlocksLoop bB _ (retryFuel y) (q + 1) .noBlocksOpened (some (shB x))) sB)
    rw [bind_run esA, bind_run esB]
    exact S2.mono (openBlocksLoop_sim ps fr ns tr bA bB _ _ _ fuel q _ _ _ _ h (.inr hl) (.inl rfl)) (fun _ _ _ _ hh => ⟨hh.2.1 rfl, hh.2.2⟩)

end GM.Blocks
