/-
  GM.Proof.CMFragRender18 — the renderer half of the conformance proof for stage 18 (URI autolinks inside the text
  lines):
  * `urlOut_uri18`, `escapeHTML_uri18`: the renderer's URL escaping (util.URLEscape without reference resolution, then
    util.EscapeHTML) and the escaping of the label are the identity on a URI of letters, digits, `/`, `.` and `:`;
  * `renderDoc_arich18`: the renderer model on Document[Paragraph[arich nodes]…] writes every paragraph as `<p>` + its
    lines (`arichLineHtml`) joined by a line feed + `</p>` and never panics — for lines that end with a text atom and
    whose URIs are made of these bytes (`LineShape18`; both follow from `ARichLine`: `renderDoc_arichLines18`);
  * the bridge to the spec side: `aatomOfS`, `arichLineHtml_aatomOfS18` (the prescribed HTML of a line),
    `alineSrc_aatomOfS18` (the source of a line), `arichLine_aatomOfS18` (`ARichLine` from `alineOKS`),
    `renderDoc_expectedAD18` (the whole prescribed HTML `expectedAD`).
-/
import GM.Proof.CMFrag18Defs
import GM.Proof.CMFragRender16
namespace GM.Proof.CMFrag
open GM GM.Spec.CM GM.Spec.CMFrag

/-! ### the renderer's escaping on a URI of letters, digits, `/`, `.` and `:` -/

/-- a byte of the URI of a stage-18 autolink -/
def isUriC18 (c : UInt8) : Bool := isAlnumC c || c == 47 || c == 46 || c == 58

theorem uriC_facts18 : ∀ c : UInt8, (isLetter c = true → isUriC18 c = true) ∧ (isAutoC18 c = true → isUriC18 c = true) ∧
    (isUriC18 c = true → urlSafe c = true ∧ escByte c = [c]) := GM.forall_uint8 _ (by decide +kernel)

theorem urlCopies_uri18 (total : Nat) (d : Bytes) (h : ∀ c ∈ d, isUriC18 c = true) :
    urlCopies total d = false := by
  induction d with
  | nil => simp [urlCopies]
  | cons c rest ih =>
    rw [urlCopies]
    simp only [((uriC_facts18 c).2.2 (h c (by simp))).1, if_true]
    exact ih (fun x hx => h x (by simp [hx]))

theorem escapeHTML_uri18 (d : Bytes) (h : ∀ c ∈ d, isUriC18 c = true) : escapeHTML d = d := by
  induction d with
  | nil => rfl
  | cons c rest ih =>
    have := ih (fun x hx => h x (by simp [hx]))
    simp only [escapeHTML, List.flatMap_cons] at this ⊢
    rw [this, ((uriC_facts18 c).2.2 (h c (by simp))).2]
    rfl

/-- what the renderer writes into `href` of an autolink (option Unsafe set: no dangerous-URL filter) -/
theorem urlOut_uri18 (d : Bytes) (h : ∀ c ∈ d, isUriC18 c = true) : urlOut true (urlEscape d false) = d := by
  simp [urlOut, urlEscape, urlEscapeRaw, urlCopies_uri18 _ d h, escapeHTML_uri18 d h]

/-! ### the renderer on the nodes of a line -/

structure LineShape18 (l : List AAtom) : Prop where
  last : ∃ init bs, l = init ++ [.txt bs]
  auto : ∀ s r, AAtom.auto s r ∈ l → ∀ c ∈ autoUri18 s r, isUriC18 c = true

theorem handled_auto18 (e : Exts) (m : Bool) (u l : Bytes) : handled e (.autoLink m u l) = true := rfl

theorem renderNode_auto18 (rc : RCfg) (hu : rc.core.unsafe_ = true) (ph : Bool) (next : Option Node) (u : Bytes)
    (hd : ∀ c ∈ u, isUriC18 c = true) :
    renderNode rc ph next (.mk (.autoLink false u u) none []) =
      strBytes "<a href=\"" ++ u ++ strBytes "\">" ++ u ++ strBytes "</a>" := by
  rw [renderNode]
  have h2 : strBytes "\">" = [34, 62] := by decide +kernel
  simp [enter, leave, handled_auto18, skipsChildren, renderNodes, hu, urlOut_uri18 u hd, escapeHTML_uri18 u hd, h2]

theorem aatomNodes_txt_cons18 (soft : Bool) (b : Bytes) (rest : List AAtom) (h : rest ≠ []) :
    aatomNodes soft (.txt b :: rest) = .mk (.text b false false false false) none [] :: aatomNodes soft rest := by
  cases rest with
  | nil => exact absurd rfl h
  | cons a rest => rfl

/-- the nodes of one line, followed by any other nodes -/
theorem renderNodes_aatoms18 (rc : RCfg) (hes : rc.core.escSpace = false) (hhw : rc.core.hardWraps = false)
    (hea : rc.core.ea = 0) (hu : rc.core.unsafe_ = true) (ph soft : Bool) (init : List AAtom) (bs : Bytes)
    (tail : List Node) (hc : ∀ s r, AAtom.auto s r ∈ init → ∀ c ∈ autoUri18 s r, isUriC18 c = true) :
    renderNodes rc ph (aatomNodes soft (init ++ [.txt bs]) ++ tail) =
      arichLineHtml (init ++ [.txt bs]) ++ (if soft then [10] else []) ++ renderNodes rc ph tail := by
  induction init with
  | nil =>
    simp only [List.nil_append, aatomNodes, List.cons_append, renderNodes, renderNode_text rc hes hhw hea,
      arichLineHtml, List.flatMap_cons, List.flatMap_nil, aatomHtml, List.append_nil]
  | cons a init ih =>
    have ih' := ih (fun s r hb => hc s r (by simp [hb]))
    cases a with
    | txt b =>
      rw [List.cons_append, aatomNodes_txt_cons18 soft b _ (by simp), List.cons_append, renderNodes,
        renderNode_text rc hes hhw hea, ih']
      simp [arichLineHtml, aatomHtml]
    | auto s r =>
      rw [List.cons_append, aatomNodes, List.cons_append, renderNodes,
        renderNode_auto18 rc hu _ _ _ (hc s r (by simp)), ih']
      simp [arichLineHtml, aatomHtml]

theorem renderNodes_arich18 (rc : RCfg) (hes : rc.core.escSpace = false) (hhw : rc.core.hardWraps = false)
    (hea : rc.core.ea = 0) (hu : rc.core.unsafe_ = true) (ph : Bool) (ls : List (List AAtom))
    (hl : ∀ l ∈ ls, LineShape18 l) :
    renderNodes rc ph (arichNodes ls) = GM.Proof.CMFrag.joinNl (ls.map arichLineHtml) := by
  induction ls with
  | nil => simp [arichNodes, renderNodes, GM.Proof.CMFrag.joinNl]
  | cons l rest ih =>
    obtain ⟨⟨init, bs, rfl⟩, hc⟩ := hl l (by simp)
    have hc' : ∀ s r, AAtom.auto s r ∈ init → ∀ c ∈ autoUri18 s r, isUriC18 c = true := fun s r hb => hc s r (by simp [hb])
    cases rest with
    | nil =>
      have := renderNodes_aatoms18 rc hes hhw hea hu ph false init bs [] hc'
      simp only [List.append_nil] at this
      simp [arichNodes, GM.Proof.CMFrag.joinNl, this, renderNodes]
    | cons l' rest =>
      rw [arichNodes, renderNodes_aatoms18 rc hes hhw hea hu ph true init bs _ hc',
        ih (fun x hx => hl x (by simp [hx]))]
      simp [GM.Proof.CMFrag.joinNl]

/-- a paragraph of rich lines as the renderer reads it -/
def arichPara18 (ls : List (List AAtom)) : GM.Node := .mk .paragraph none (arichNodes ls)

def arichParaHtml18 (ls : List (List AAtom)) : Bytes :=
  strBytes "<p>" ++ GM.Proof.CMFrag.joinNl (ls.map arichLineHtml) ++ strBytes "</p>\n"

theorem renderNode_arichPara18 (rc : RCfg) (hes : rc.core.escSpace = false) (hhw : rc.core.hardWraps = false)
    (hea : rc.core.ea = 0) (hu : rc.core.unsafe_ = true) (ph : Bool) (next : Option Node) (ls : List (List AAtom))
    (hl : ∀ l ∈ ls, LineShape18 l) :
    renderNode rc ph next (arichPara18 ls) = arichParaHtml18 ls := by
  rw [arichPara18, renderNode]
  simp only [enter, leave, handled_para, skipsChildren, openTag, Kind.isTableHeader,
    renderNodes_arich18 rc hes hhw hea hu _ ls hl, arichParaHtml18]
  have h1 : strBytes "<p>" = [60] ++ strBytes "p" ++ [62] := by decide +kernel
  rw [h1]; simp

theorem renderNodes_arichParas18 (rc : RCfg) (hes : rc.core.escSpace = false) (hhw : rc.core.hardWraps = false)
    (hea : rc.core.ea = 0) (hu : rc.core.unsafe_ = true) (ph : Bool) (ps : List (List (List AAtom)))
    (hl : ∀ ls ∈ ps, ∀ l ∈ ls, LineShape18 l) :
    renderNodes rc ph (ps.map arichPara18) = ps.flatMap arichParaHtml18 := by
  induction ps with
  | nil => simp [renderNodes]
  | cons p rest ih =>
    rw [List.map_cons, renderNodes, renderNode_arichPara18 rc hes hhw hea hu _ _ p (hl p (by simp)),
      ih (fun x hx => hl x (by simp [hx]))]
    simp

/-! ### no panic -/

theorem renderPanicsNodes_aatoms18 (rc : RCfg) (soft : Bool) (l : List AAtom) (tail : List Node)
    (ht : renderPanicsNodes rc tail = none) :
    renderPanicsNodes rc (aatomNodes soft l ++ tail) = none := by
  induction l with
  | nil => simpa [aatomNodes] using ht
  | cons a rest ih =>
    cases a with
    | txt b =>
      cases rest with
      | nil => simp [aatomNodes, renderPanicsNodes, renderPanicsNode, nodePanic, ht]
      | cons a' rest' =>
        rw [aatomNodes_txt_cons18 soft b _ (by simp), List.cons_append, renderPanicsNodes, ih]
        simp [renderPanicsNode, nodePanic, renderPanicsNodes]
    | auto s r =>
      rw [aatomNodes, List.cons_append, renderPanicsNodes, ih]
      simp [renderPanicsNode, nodePanic, handled_auto18, skipsChildren, renderPanicsNodes]

theorem renderPanicsNodes_arich18 (rc : RCfg) (ls : List (List AAtom)) :
    renderPanicsNodes rc (arichNodes ls) = none := by
  induction ls with
  | nil => simp [arichNodes, renderPanicsNodes]
  | cons l rest ih =>
    cases rest with
    | nil =>
      have := renderPanicsNodes_aatoms18 rc false l [] (by simp [renderPanicsNodes])
      simpa [arichNodes] using this
    | cons l' rest =>
      rw [arichNodes]
      exact renderPanicsNodes_aatoms18 rc true l _ ih

theorem renderPanicsNodes_arichParas18 (rc : RCfg) (ps : List (List (List AAtom))) :
    renderPanicsNodes rc (ps.map arichPara18) = none := by
  induction ps with
  | nil => simp [renderPanicsNodes]
  | cons p rest ih =>
    rw [List.map_cons, renderPanicsNodes, ih]
    simp [arichPara18, renderPanicsNode, nodePanic, renderPanicsNodes_arich18]

/-! ### the document -/

theorem renderDoc_arich18_any (o : GM.Convert.ROpts) (ho : o.hardWraps = false) (hu : o.unsafe_ = true)
    (ps : List (List (List AAtom))) (hl : ∀ ls ∈ ps, ∀ l ∈ ls, LineShape18 l) :
    GM.Convert.renderDoc o (.mk .document none (ps.map fun ls => .mk .paragraph none (arichNodes ls))) =
      .ok (ps.flatMap fun ls =>
        strBytes "<p>" ++ GM.Proof.CMFrag.joinNl (ls.map arichLineHtml) ++ strBytes "</p>\n") := by
  have hp : renderPanics o.rcfg (.mk .document none (ps.map arichPara18)) = none := by
    simp [renderPanics, renderPanicsNode, nodePanic, renderPanicsNodes_arichParas18]
  have hr : render o.rcfg (.mk .document none (ps.map arichPara18)) = ps.flatMap arichParaHtml18 := by
    rw [render, renderNode]
    simp [enter, leave, handled_doc, skipsChildren, Kind.isTableHeader,
      renderNodes_arichParas18 o.rcfg (rcfg_escSpace o) (by rw [rcfg_hardWraps, ho]) (rcfg_ea o)
        (by rw [rcfg_unsafe16, hu]) _ ps hl]
  have e1 : (ps.map fun ls => GM.Node.mk .paragraph none (arichNodes ls)) = ps.map arichPara18 := rfl
  rw [e1, GM.Convert.renderDoc, hp, hr]
  rfl

/-- the renderer on a document of paragraphs of rich lines with URI autolinks -/
theorem renderDoc_arich18 (ps : List (List (List AAtom))) (hl : ∀ ls ∈ ps, ∀ l ∈ ls, LineShape18 l) :
    GM.Convert.renderDoc cmOpts (.mk .document none (ps.map fun ls => .mk .paragraph none (arichNodes ls))) =
      .ok (ps.flatMap fun ls =>
        strBytes "<p>" ++ GM.Proof.CMFrag.joinNl (ls.map arichLineHtml) ++ strBytes "</p>\n") :=
  renderDoc_arich18_any cmOpts rfl rfl ps hl

theorem lineShape_of_arichLine18 (l : List AAtom) (h : ARichLine l) : LineShape18 l := by
  obtain ⟨init, bs, hl, _⟩ := h.last
  refine ⟨⟨init, bs, hl⟩, fun s r hb c hc => ?_⟩
  obtain ⟨⟨_, _, hs⟩, ⟨_, hr⟩⟩ := h.ok _ hb
  simp only [autoUri18, List.mem_append, List.mem_singleton] at hc
  rcases hc with (hc | hc) | hc
  · exact (uriC_facts18 c).1 (hs c hc)
  · subst hc; rfl
  · exact (uriC_facts18 c).2.1 (hr c hc)

theorem renderDoc_arichLines18 (ps : List (List (List AAtom))) (hl : ∀ ls ∈ ps, ∀ l ∈ ls, ARichLine l) :
    GM.Convert.renderDoc cmOpts (.mk .document none (ps.map fun ls => .mk .paragraph none (arichNodes ls))) =
      .ok (ps.flatMap fun ls =>
        strBytes "<p>" ++ GM.Proof.CMFrag.joinNl (ls.map arichLineHtml) ++ strBytes "</p>\n") :=
  renderDoc_arich18 ps (fun ls hls l hlm => lineShape_of_arichLine18 l (hl ls hls l hlm))

/-! ### the bridge to the spec side -/

/-- a spec-side atom as source bytes -/
def aatomOfS : AAtomS → AAtom
  | .txt cs => .txt (escSpell cs)
  | .auto s r => .auto s r

theorem aatomSrc_aatomOfS18 (a : AAtomS) : aatomSrc (aatomOfS a) = spellAAtom a := by
  cases a with
  | txt cs => rfl
  | auto s r => simp [aatomOfS, aatomSrc, spellAAtom, autoUri]

theorem alineSrc_aatomOfS18 (l : ALine) : alineSrc (l.map aatomOfS) = spellALine l := by
  simp only [alineSrc, spellALine, List.flatMap_map]
  congr 1; funext a; exact aatomSrc_aatomOfS18 a

/-- what `aatomOKS` says, atom kind by atom kind -/
theorem aatomOKS_txt18 (cs : List TChar) (h : aatomOKS (.txt cs) = true) : cs ≠ [] ∧ ∀ t ∈ cs, charOK t = true := by
  simp only [aatomOKS, Bool.and_eq_true, Bool.not_eq_true', List.isEmpty_eq_false_iff, List.all_eq_true] at h
  exact h

theorem aatomOKS_auto18 (s r : Bytes) (h : aatomOKS (.auto s r) = true) :
    (2 ≤ s.length ∧ s.length ≤ 32 ∧ ∀ c ∈ s, isLetter c = true) ∧ (r ≠ [] ∧ ∀ c ∈ r, isAutoC18 c = true) := by
  simp only [aatomOKS, Bool.and_eq_true, Bool.not_eq_true', List.isEmpty_eq_false_iff, List.all_eq_true,
    decide_eq_true_eq] at h
  exact ⟨⟨h.1.1.1.1, h.1.1.1.2, h.1.1.2⟩, ⟨h.1.2, h.2⟩⟩

theorem aatomHtml_aatomOfS18 (a : AAtomS) (h : aatomOKS a = true) : aatomHtml (aatomOfS a) = expAAtom a := by
  cases a with
  | txt cs =>
    exact write_spelled cs (fun t ht => charOK_printable t ((aatomOKS_txt18 cs h).2 t ht))
  | auto s r => rfl

theorem arichLineHtml_aatomOfS18 (l : ALine) (h : ∀ a ∈ l, aatomOKS a = true) :
    arichLineHtml (l.map aatomOfS) = expALine l := by
  simp only [arichLineHtml, expALine, List.flatMap_map]
  induction l with
  | nil => rfl
  | cons a rest ih =>
    simp only [List.flatMap_cons]
    rw [aatomHtml_aatomOfS18 a (h a (by simp)), ih (fun x hx => h x (by simp [hx]))]

theorem aatomOK_aatomOfS18 (a : AAtomS) (h : aatomOKS a = true) : AAtomOK (aatomOfS a) := by
  cases a with
  | txt cs =>
    obtain ⟨hne, hall⟩ := aatomOKS_txt18 cs h
    exact ⟨escSpell_ne_nil8 cs hne, fun i => quiet_escSpell cs hall i, escAfter_escSpell8 cs⟩
  | auto s r => exact aatomOKS_auto18 s r h

theorem isTxt_aatomOfS18 (a : AAtomS) : (aatomOfS a).isTxt = a.isTxt := by cases a <;> rfl

theorem aalternating_aatomOfS18 (l : ALine) : aalternating (l.map aatomOfS) = aalternatingS l := by
  induction l with
  | nil => rfl
  | cons a rest ih =>
    cases rest with
    | nil => rfl
    | cons b rest =>
      simp only [List.map_cons, aalternating, aalternatingS, isTxt_aatomOfS18] at ih ⊢
      rw [ih]

theorem arichLine_aatomOfS18 (l : ALine) (h : alineOKS l = true) : ARichLine (l.map aatomOfS) := by
  simp only [alineOKS, Bool.and_eq_true, List.all_eq_true] at h
  obtain ⟨⟨⟨halt, hfirst⟩, hlast⟩, hok⟩ := h
  refine ⟨by rw [aalternating_aatomOfS18]; exact halt, ?_, ?_, ?_⟩
  · -- first
    unfold afirstOKS at hfirst
    split at hfirst
    · rename_i t ts rest
      obtain ⟨tc, te⟩ := t
      obtain ⟨sp, lt⟩ := spell_first tc te hfirst
      refine ⟨escSpell (⟨tc, te⟩ :: ts), rest.map aatomOfS, rfl, ?_⟩
      intro c hc
      simp only [escSpell, List.flatMap_cons, sp, List.cons_append, List.nil_append, List.head?_cons,
        Option.some.injEq] at hc
      subst hc; exact lt
    · cases hfirst
  · -- last
    unfold alastOKS at hlast
    split at hlast
    · rename_i cs hl
      split at hlast
      · rename_i z hz
        obtain ⟨zc, ze⟩ := z
        obtain ⟨sp, nsp, nbs⟩ := spell_last zc ze hlast
        obtain ⟨init, hinit⟩ := List.getLast?_eq_some_iff.mp hl
        obtain ⟨cinit, hcs⟩ := List.getLast?_eq_some_iff.mp hz
        refine ⟨init.map aatomOfS, escSpell cs, by rw [hinit]; simp [aatomOfS], ?_⟩
        intro c hc
        have e : escSpell cs = escSpell cinit ++ [zc] := by rw [hcs]; simp [escSpell, sp]
        rw [e] at hc
        simp at hc
        subst hc; exact ⟨nsp, nbs⟩
      · cases hlast
    · cases hlast
  · intro a ha
    obtain ⟨r, hr, rfl⟩ := List.mem_map.mp ha
    exact aatomOK_aatomOfS18 r (hok r hr)

/-! #### the prescribed HTML of a whole document -/

theorem alineOKS_atoms18 (l : ALine) (h : alineOKS l = true) : ∀ a ∈ l, aatomOKS a = true := by
  simp only [alineOKS, Bool.and_eq_true, List.all_eq_true] at h
  exact h.2

theorem aitemOKS_lines18 (it : AItem) (h : aitemOKS it = true) :
    it.lines ≠ [] ∧ ∀ l ∈ it.lines, alineOKS l = true := by
  simp only [aitemOKS, Bool.and_eq_true, Bool.not_eq_true', List.isEmpty_eq_false_iff, List.all_eq_true] at h
  exact h

/-- the paragraphs of a stage-18 document as lists of proof-side atoms -/
def atomsOfA (d : ADoc) : List (List (List AAtom)) := d.items.map fun it => it.lines.map (·.map aatomOfS)

theorem docHtml_aatomOfS18 (d : ADoc) (h : AFrag d) :
    ((atomsOfA d).flatMap fun ls =>
      strBytes "<p>" ++ GM.Proof.CMFrag.joinNl (ls.map arichLineHtml) ++ strBytes "</p>\n") = expectedAD d := by
  simp only [AFrag, afragB, List.all_eq_true] at h
  simp only [atomsOfA, expectedAD, List.flatMap_map]
  apply flatMap_congr8
  intro it hit
  have hls := (aitemOKS_lines18 it (h it hit)).2
  have : (it.lines.map (·.map aatomOfS)).map arichLineHtml = it.lines.map expALine := by
    rw [List.map_map]
    apply List.map_congr_left
    intro l hl
    exact arichLineHtml_aatomOfS18 l (alineOKS_atoms18 l (hls l hl))
  rw [this, joinNl_eq, expAItem]

theorem arichLines_atomsOfA18 (d : ADoc) (h : AFrag d) : ∀ ls ∈ atomsOfA d, ∀ l ∈ ls, ARichLine l := by
  simp only [AFrag, afragB, List.all_eq_true] at h
  intro ls hls l hl
  simp only [atomsOfA, List.mem_map] at hls
  obtain ⟨it, hit, rfl⟩ := hls
  obtain ⟨r, hr, rfl⟩ := List.mem_map.mp hl
  exact arichLine_aatomOfS18 r ((aitemOKS_lines18 it (h it hit)).2 r hr)

/-- the renderer on the nodes of a stage-18 document writes the prescribed HTML -/
theorem renderDoc_expectedAD18 (d : ADoc) (h : AFrag d) :
    GM.Convert.renderDoc cmOpts
        (.mk .document none ((atomsOfA d).map fun ls => .mk .paragraph none (arichNodes ls))) =
      .ok (expectedAD d) := by
  rw [renderDoc_arichLines18 _ (arichLines_atomsOfA18 d h), docHtml_aatomOfS18 d h]

end GM.Proof.CMFrag
