/-
  GM.Proof.ExtLoop — the extensions' inline parsers as parsers of the inline driver model (GM.Model.InlineLoop):
  trigger bytes taken from the REGENERATED facts (GM.Spec.ExtFacts over GM.Gen.ExtFacts), the script given by the
  decline models of GM.Model.ExtDecline applied to the line the reader shows at the consulted position.
  Combines `run_unused` / `run_silent` with the per-extension decline theorems.
-/
import GM.Model.InlineLoop
import GM.Model.ExtLoop
import GM.Proof.InlineLoop
import GM.Proof.InlineLoopUnused
import GM.Proof.ExtDecline
import GM.Spec.ExtFacts

namespace GM.Proof.ExtLoop
open GM GM.InlineLoop GM.ExtLoop GM.Proof.InlineLoop GM.Proof.InlineLoopUnused

theorem mem_peekAt {b : Block} {l p : Nat} {c : UInt8} (h : c ∈ peekAt b l p) : c ∈ b.src := by
  unfold peekAt at h
  split at h
  · exact mem_slice h
  · cases h

/-! ### occurrences survive slicing -/

theorem hasInfix_drop {pat l : Bytes} (h : Ext.hasInfix pat l = false) (k : Nat) : Ext.hasInfix pat (l.drop k) = false := by
  induction l generalizing k with
  | nil => simpa using h
  | cons c cs ih =>
    cases k with
    | zero => simpa using h
    | succ k =>
      simp only [Ext.hasInfix, Bool.or_eq_false_iff] at h
      simpa using ih h.2 k

theorem isPrefixOf_take {pat l : Bytes} {n : Nat} (h : pat.isPrefixOf (l.take n) = true) : pat.isPrefixOf l = true := by
  rw [List.isPrefixOf_iff_prefix] at h ⊢
  exact h.trans (List.take_prefix n l)

theorem hasInfix_take {pat l : Bytes} (hne : pat ≠ []) (h : Ext.hasInfix pat l = false) (n : Nat) :
    Ext.hasInfix pat (l.take n) = false := by
  induction l generalizing n with
  | nil =>
    cases pat with
    | nil => exact absurd rfl hne
    | cons a as => simp [Ext.hasInfix, List.isPrefixOf]
  | cons c cs ih =>
    simp only [Ext.hasInfix, Bool.or_eq_false_iff] at h
    cases n with
    | zero =>
      cases pat with
      | nil => exact absurd rfl hne
      | cons a as => simp [Ext.hasInfix, List.isPrefixOf]
    | succ n =>
      simp only [List.take_succ_cons, Ext.hasInfix, Bool.or_eq_false_iff]
      refine ⟨?_, ih h.2 n⟩
      cases hp : pat.isPrefixOf (c :: cs.take n) with
      | false => rfl
      | true =>
        have : pat.isPrefixOf (c :: cs) = true := by
          have h2 : (c :: cs).take (n + 1) = c :: cs.take n := rfl
          rw [← h2] at hp
          exact isPrefixOf_take hp
        rw [this] at h
        exact absurd h.1 (by simp)

theorem hasInfix_peekAt {pat : Bytes} {b : Block} (hne : pat ≠ []) (h : Ext.hasInfix pat b.src = false) (l p : Nat) :
    Ext.hasInfix pat (peekAt b l p) = false := by
  unfold peekAt
  split
  · unfold slice
    exact hasInfix_take hne (hasInfix_drop h _) _
  · cases pat with
    | nil => exact absurd rfl hne
    | cons a as => simp [Ext.hasInfix, List.isPrefixOf]

/-! ### Silent instances -/

theorem typographer_silent (b : Block) (id : Nat) (trig : Bytes)
    (hsrc : ∀ c ∈ b.src, c ≠ 39 ∧ c ≠ 34 ∧ c ≠ 45 ∧ c ≠ 46 ∧ c ≠ 60 ∧ c ≠ 62) :
    Silent (extParser b id trig fun _ _ => Ext.typoParse) := by
  intro l p
  show ∃ m, toRes id (Ext.typoParse (peekAt b l p)) = .decline m
  cases hl : peekAt b l p with
  | nil => exact ⟨0, rfl⟩
  | cons c rest =>
    have hc : c ∈ b.src := mem_peekAt (l := l) (p := p) (by rw [hl]; simp)
    rw [Ext.typoParse_declines c rest (hsrc c hc)]
    exact ⟨0, rfl⟩

theorem linkify_silent (b : Block) (id : Nat) (trig : Bytes) (inLabel : Nat → Nat → Bool)
    (hcolon : (58 : UInt8) ∉ b.src) (hat : (64 : UInt8) ∉ b.src) (hwww : Ext.hasInfix Ext.domainWWW b.src = false) :
    Silent (extParser b id trig fun l p => Ext.linkifyParse (inLabel l p)) := by
  intro l p
  show ∃ m, toRes id (Ext.linkifyParse (inLabel l p) (peekAt b l p)) = .decline m
  by_cases hl : peekAt b l p = []
  · rw [hl]
    unfold Ext.linkifyParse
    split <;> exact ⟨0, rfl⟩
  · rw [Ext.linkifyParse_declines (inLabel l p) _ hl (fun h => hcolon (mem_peekAt h)) (fun h => hat (mem_peekAt h))
      (hasInfix_peekAt (by decide) hwww l p)]
    exact ⟨0, rfl⟩

theorem footnote_silent (b : Block) (id : Nat) (trig : Bytes) :
    Silent (extParser b id trig fun _ _ => Ext.footnoteParse none) := by
  intro l p
  show ∃ m, toRes id (Ext.footnoteParse none (peekAt b l p)) = .decline m
  obtain ⟨m, hm⟩ := Ext.footnoteParse_noList (peekAt b l p)
  rw [hm]
  exact ⟨m, rfl⟩

/-! ### the regenerated trigger sets, evaluated -/

theorem mem_of_subset {xs ys : List UInt8} (h : Spec.Ext.subset xs ys = true) {c : UInt8} (hc : c ∈ xs) : c ∈ ys := by
  unfold Spec.Ext.subset at h
  rw [List.all_eq_true] at h
  simpa using h c hc

theorem strikethrough_triggers : Spec.Ext.subset (Spec.Ext.triggersOf "strikethrough" "inline") [126] = true := by
  decide +kernel
theorem taskList_triggers : Spec.Ext.subset (Spec.Ext.triggersOf "taskList" "inline") [91] = true := by decide +kernel

/-- a parser whose triggers all lie in `allowed` (no ' ' among them) is never consulted on a source without them -/
theorem run_unused_of_subset (b : Block) (l1 l2 : List Parser) (q : Parser) (esc : Bool) (allowed : List UInt8)
    (hsub : Spec.Ext.subset q.triggers allowed = true) (h32 : (32 : UInt8) ∉ allowed) (hsrc : ∀ c ∈ allowed, c ∉ b.src) :
    run ⟨l1 ++ q :: l2, esc⟩ b = run ⟨l1 ++ l2, esc⟩ b :=
  run_unused b l1 l2 q esc (fun h => h32 (mem_of_subset hsub h)) (fun c hc ht => hsrc c (mem_of_subset hsub ht) hc)

end GM.Proof.ExtLoop
