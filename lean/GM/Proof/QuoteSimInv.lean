/-
  GM.Proof.QuoteSimInv — a unary invariant of the node store of ONE run (the original run A of the C08 simulation):
  `UStore nodes`: the store is not empty, node 0 (the Document) has no lines, no node is a List / ListItem, and
  node 0 is nobody's child. Three of the four clauses of `WellShaped` (GM.Proof.QuoteSimFinal); the fourth ("no
  stored segment is empty") is not covered.

  The invariant is kept by every store primitive under side conditions on the node ids (`… ≠ 0`), by the tree
  operations, and (GM.Proof.QuoteSimInvP) by Open / Continue / Close of the eight block parsers that are not list
  parsers. Calculus: `Keeps` of GM.Proof.QuoteSimFrame; tactic `uk` = `keeps` with the store rules.
-/
import GM.Proof.QuoteSimFrame

namespace GM.Blocks
open GM GM.Text

/-- the parsers that are not list parsers -/
def BP.notList : BP → Bool
  | .list => false
  | .listItem => false
  | _ => true

structure UNode (n : Node) : Prop where
  kind : n.kind ≠ .list ∧ n.kind ≠ .listItem
  kids : 0 ∉ n.children

structure UStore (nodes : List Node) : Prop where
  pos : 0 < nodes.length
  doc : (nodes.getD 0 default).lines = []
  node : ∀ n ∈ nodes, UNode n

/-- the invariant as a state predicate -/
def US : St → Prop := fun s => UStore s.nodes

theorem unode_default : UNode (default : Node) := ⟨⟨by decide, by decide⟩, by intro h; cases h⟩

theorem UStore.getD {nodes : List Node} (h : UStore nodes) (i : Nat) : UNode (nodes.getD i default) := by
  rw [List.getD_eq_getElem?_getD]
  cases hg : nodes[i]? with
  | none => exact unode_default
  | some n => exact h.node n (List.mem_of_getElem? hg)

theorem us_noR : NoR US := ⟨fun _ _ hs => hs⟩

theorem us_modPc (f : Ctx → Ctx) : Keeps US (modPc f) := by
  intro s a s' hs h; cases h; exact hs

/-- `modNode id f`: `f` keeps `UNode`; the Document's lines are not touched -/
theorem us_modNode (id : Nat) (f : Node → Node) (hf : ∀ n, UNode n → UNode (f n))
    (h0 : id = 0 → ∀ n, (f n).lines = n.lines) : Keeps US (modNode id f) := by
  intro s a s' hs h
  cases h
  show UStore (s.nodes.set id (f (s.nodes.getD id default)))
  refine ⟨by simpa using hs.pos, ?_, ?_⟩
  · rw [List.getD_eq_getElem?_getD, List.getElem?_set]
    by_cases hid : id = 0
    · subst hid
      simp only [if_true]
      have hp := hs.pos
      rw [if_pos hp]
      simp only [Option.getD_some]
      rw [h0 rfl]; exact hs.doc
    · rw [if_neg hid]
      have := hs.doc
      rw [List.getD_eq_getElem?_getD] at this
      exact this
  · intro n hn
    rcases List.mem_or_eq_of_mem_set hn with h | h
    · exact hs.node n h
    · rw [h]; exact hf _ (hs.getD id)

theorem us_appendLine (id : Nat) (seg : Segment) (h : id ≠ 0) : Keeps US (appendLine id seg) :=
  us_modNode id _ (fun _ hn => ⟨hn.kind, hn.kids⟩) (fun e => absurd e h)

theorem us_newNode_st {n : Node} (hn : UNode n) {s : St} (hs : US s) : US { s with nodes := s.nodes ++ [n] } := by
  refine ⟨by simp, ?_, ?_⟩
  · show ((s.nodes ++ [n]).getD 0 default).lines = []
    rw [List.getD_eq_getElem?_getD, List.getElem?_append_left hs.pos]
    have := hs.doc
    rw [List.getD_eq_getElem?_getD] at this
    exact this
  · intro m hm
    rcases List.mem_append.mp hm with h | h
    · exact hs.node m h
    · simp only [List.mem_singleton] at h; rw [h]; exact hn

/-- `newNode n >>= f`: the fresh id is not 0 -/
theorem us_newNode_bind {β} (n : Node) (f : Nat → M β) (hn : UNode n) (hf : ∀ id, id ≠ 0 → Keeps US (f id)) :
    Keeps US (newNode n >>= f) := by
  intro s b s' hs h
  have e : newNode n s = .ok (s.nodes.length, { s with nodes := s.nodes ++ [n] }) := rfl
  change StateT.bind (newNode n) f s = _ at h
  unfold StateT.bind at h
  rw [e] at h
  exact hf s.nodes.length (by have := hs.pos; omega) _ b s' (us_newNode_st hn hs) h

theorem us_newNode (n : Node) (hn : UNode n) : Keeps US (newNode n) := by
  intro s a s' hs h; cases h; exact us_newNode_st hn hs

/-- a freshly built node of a kind that is not List / ListItem, without children -/
theorem unode_new (n : Node) (h1 : n.kind ≠ .list) (h2 : n.kind ≠ .listItem) (h3 : n.children = []) : UNode n :=
  ⟨⟨h1, h2⟩, by rw [h3]; intro h; cases h⟩

open Lean Elab Tactic Meta in
/-- side conditions of the store rules -/
macro "uk_side" : tactic =>
  `(tactic| first
    | assumption
    | (intro n hn; exact ⟨hn.kind, hn.kids⟩)
    | (intro e; exact absurd e (by assumption))
    | (intro _ n; rfl)
    | (apply unode_new <;> first | rfl | decide | (intro h; exact Kind.noConfusion h) | (intro h; cases h))
    | omega)

macro "uk_step" : tactic =>
  `(tactic| first
    | with_reducible apply Keeps.pure
    | ((with_reducible apply us_newNode_bind) <;> (first | uk_side | (intro_pi; intro_pi)))
    | with_reducible apply Keeps.bind
    | with_reducible apply Keeps.ite
    | with_reducible apply Keeps.throw
    | with_reducible apply getNode_keeps
    | with_reducible apply getPc_keeps
    | with_reducible apply source_keeps
    | with_reducible apply position_keeps
    | with_reducible apply get_keeps
    | with_reducible apply liftE_keeps
    | with_reducible apply lastOpenedBlock_keeps
    | (with_reducible apply peekLine_keeps; exact us_noR)
    | (with_reducible apply lineOffset_keeps; exact us_noR)
    | (with_reducible apply advance_keeps; exact us_noR)
    | (with_reducible apply advanceAndSetPadding_keeps; exact us_noR)
    | (with_reducible apply advanceLine_keeps; exact us_noR)
    | (with_reducible apply setPosition_keeps; exact us_noR)
    | (with_reducible apply skipBlankLinesR_keeps; exact us_noR)
    | with_reducible apply us_modPc
    | ((with_reducible apply us_appendLine); uk_side)
    | ((with_reducible apply us_modNode) <;> uk_side)
    | ((with_reducible apply us_newNode); uk_side)
    | apply_hyp
    | intro_pi
    | split)

/-- walk over an `M` do block -/
macro "uk" : tactic => `(tactic| repeat' uk_step)

/-! ### tree operations -/

theorem us_removeChild (p c : Nat) : Keeps US (removeChild p c) := by
  unfold removeChild
  refine Keeps.bind (getNode_keeps _) (fun cn => Keeps.ite (fun _ => Keeps.pure _) (fun _ => ?_))
  refine Keeps.bind (us_modNode p _ (fun n hn => ⟨hn.kind, fun h => hn.kids (List.mem_of_mem_erase h)⟩) (fun _ _ => rfl))
    (fun _ => us_modNode c _ (fun n hn => ⟨hn.kind, hn.kids⟩) (fun _ _ => rfl))

theorem us_ensureIsolated (c : Nat) : Keeps US (ensureIsolated c) := by
  have := us_removeChild
  unfold ensureIsolated; uk

theorem us_appendChild (p c : Nat) (hc : c ≠ 0) : Keeps US (appendChild p c) := by
  unfold appendChild
  refine Keeps.bind (us_ensureIsolated c) (fun _ => ?_)
  refine Keeps.bind (us_modNode p _ (fun n hn => ⟨hn.kind, fun h => ?_⟩) (fun _ _ => rfl))
    (fun _ => us_modNode c _ (fun n hn => ⟨hn.kind, hn.kids⟩) (fun _ _ => rfl))
  rcases List.mem_append.mp h with h | h
  · exact hn.kids h
  · simp only [List.mem_singleton] at h; exact hc h.symm

theorem qs_mem_insertBeforeIn {b v x : Nat} : ∀ {l : List Nat}, x ∈ insertBeforeIn b v l → x = v ∨ x ∈ l
  | [], h => by simp [insertBeforeIn] at h; exact .inl h
  | a :: rest, h => by
    unfold insertBeforeIn at h
    split at h
    · rcases List.mem_cons.mp h with h | h
      · exact .inl h
      · exact .inr h
    · rcases List.mem_cons.mp h with h | h
      · exact .inr (by rw [h]; exact List.mem_cons_self ..)
      · rcases qs_mem_insertBeforeIn h with h | h
        · exact .inl h
        · exact .inr (List.mem_cons_of_mem _ h)

theorem us_insertBefore (p : Nat) (v1 : Option Nat) (ins : Nat) (hi : ins ≠ 0) : Keeps US (insertBefore p v1 ins) := by
  unfold insertBefore
  split
  · exact us_appendChild p ins hi
  · refine Keeps.bind (getNode_keeps _) (fun vn => Keeps.ite (fun _ => us_appendChild p ins hi) (fun _ => ?_))
    refine Keeps.bind (us_ensureIsolated ins) (fun _ => ?_)
    refine Keeps.bind (us_modNode p _ (fun n hn => ⟨hn.kind, fun h => ?_⟩) (fun _ _ => rfl))
      (fun _ => us_modNode ins _ (fun n hn => ⟨hn.kind, hn.kids⟩) (fun _ _ => rfl))
    rcases qs_mem_insertBeforeIn h with h | h
    · exact hi h.symm
    · exact hn.kids h

theorem us_nextSibling (c : Nat) : Keeps US (nextSibling c) := by
  unfold nextSibling; uk

theorem us_insertAfter (p : Nat) (v1 : Option Nat) (ins : Nat) (hi : ins ≠ 0) : Keeps US (insertAfter p v1 ins) := by
  have h1 := us_nextSibling
  have h2 := fun v => us_insertBefore p v ins hi
  have h3 := us_appendChild p ins hi
  unfold insertAfter; uk

theorem us_replaceChild (p v1 ins : Nat) (hi : ins ≠ 0) : Keeps US (replaceChild p v1 ins) := by
  unfold replaceChild
  exact Keeps.bind (us_insertBefore p (some v1) ins hi) (fun _ => us_removeChild p v1)

theorem mem_nextIn {c x : Nat} : ∀ {l : List Nat}, nextIn c l = some x → x ∈ l
  | [], h => by simp [nextIn] at h
  | [a], h => by simp [nextIn] at h
  | a :: b :: rest, h => by
    unfold nextIn at h
    split at h
    · simp at h; rw [← h]; simp
    · exact List.mem_cons_of_mem _ (mem_nextIn h)

theorem bind_inv_u {α β} {m : M α} {f : α → M β} {s : St} {b : β} {s' : St} (h : (m >>= f) s = .ok (b, s')) :
    ∃ a s1, m s = .ok (a, s1) ∧ f a s1 = .ok (b, s') := by
  change StateT.bind m f s = _ at h
  unfold StateT.bind at h
  cases hm : m s with
  | error e => rw [hm] at h; cases h
  | ok x => obtain ⟨a, s1⟩ := x; rw [hm] at h; exact ⟨a, s1, rfl, h⟩

/-- the next sibling of a node is a child of some node, hence not node 0 -/
theorem nextSibling_ne0 {c : Nat} {s s' : St} {nx : Nat} (hs : US s) (h : nextSibling c s = .ok (some nx, s')) :
    nx ≠ 0 := by
  unfold nextSibling at h
  obtain ⟨cn, s1, e1, h⟩ := bind_inv_u h
  cases e1
  cases hp : (s.nodes.getD c default).parent with
  | none => rw [hp] at h; cases h
  | some p =>
    rw [hp] at h
    obtain ⟨pn, s2, e2, h⟩ := bind_inv_u h
    cases e2
    have hnx : nextIn c (s.nodes.getD p default).children = some nx := by
      have h' : (Except.ok (nextIn c (s.nodes.getD p default).children, s) : Except Panic (Option Nat × St)) =
          .ok (some nx, s') := h
      simp only [Except.ok.injEq, Prod.mk.injEq] at h'
      exact h'.1
    intro e
    subst e
    exact (hs.getD p).kids (mem_nextIn hnx)

end GM.Blocks
