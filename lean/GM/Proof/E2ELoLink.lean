/-
  GM.Proof.E2ELoLink — GENERATED copy of GM.Proof.InlinesLink over the loop invariant with a parametric lower bound
  (GM.Proof.E2ELoLoop): the link parser's contract, all contracts, and the segment theorem with the lower bound `lo0` =
  the start of the block's first line. The original file is untouched.
-/
import GM.Proof.E2ELoLoop
import GM.Proof.InlinesDelims
import GM.Proof.BlockReaderFuel

namespace GM.Proof.InlinesLoLink
open GM GM.Text GM.Spec GM.Inl GM.Proof.Reader GM.Proof.InlinesReader GM.Proof.Inlines GM.Proof.InlinesTotal GM.Proof.InlinesLo
open GM.Proof.InlinesDelims GM.Proof.BlockReaderFuel

/-! ### the context invariant -/

/-- the ids of the top-level delimiters, in order -/
def dids : List Node → List Nat
  | [] => []
  | .delim id _ :: r => id :: dids r
  | _ :: r => dids r

theorem dids_append (a b : List Node) : dids (a ++ b) = dids a ++ dids b := by
  induction a with
  | nil => simp [dids]
  | cons x r ih => cases x <;> simp [dids, ih]

theorem mem_dids {l : List Node} {id : Nat} {d : Delim} (h : Node.delim id d ∈ l) : id ∈ dids l := by
  induction l with
  | nil => simp at h
  | cons x r ih =>
    simp only [List.mem_cons] at h
    rcases h with h | h
    · subst h; simp [dids]
    · cases x <;> simp [dids, ih h]

theorem dids_nondelim {n : Node} (h : n.isDelim = false) : dids [n] = [] := by
  cases n <;> simp_all [dids, Node.isDelim]

/-- `pc.LastDelimiter()` as pushLinkBottom stores it, read off the reversed child list -/
def lastBR (l : List Node) : Bottom :=
  match splitFirstDelim l with
  | some (_, id, _, _) => .id id
  | none => .tnil

/-- the `linkBottom` stack that belongs to the (reversed) child list: one entry per top-level label -/
def botsR : List Node → List Bottom
  | [] => []
  | .label _ _ _ :: rest => lastBR rest :: botsR rest
  | _ :: rest => botsR rest

def bots (k : List Node) : List Bottom := botsR k.reverse

theorem lastBR_cons_nondelim {n : Node} (h : n.isDelim = false) (l : List Node) : lastBR (n :: l) = lastBR l := by
  cases n <;> simp_all [lastBR, splitFirstDelim, Node.isDelim] <;> cases splitFirstDelim l <;> simp

theorem lastBR_ne_nil (l : List Node) : lastBR l ≠ .nil := by
  unfold lastBR; split <;> simp

theorem stopsAt_lastBR : ∀ (l : List Node), stopsAt (lastBR l) l
  | [] => trivial
  | n :: rest => by
    cases n with
    | delim id d => simp [stopsAt, lastBR, splitFirstDelim]
    | _ =>
      rw [lastBR_cons_nondelim (by simp [Node.isDelim])]
      simp only [stopsAt]
      exact stopsAt_lastBR rest

theorem botsR_skip {a : List Node} (h : ∀ n ∈ a, n.isLabel = false) (r : List Node) : botsR (a ++ r) = botsR r := by
  induction a with
  | nil => rfl
  | cons x rest ih =>
    have hx := h x (by simp)
    have ih' := ih (fun n hn => h n (by simp [hn]))
    cases x <;> simp_all [botsR, Node.isLabel]

theorem bots_append_nolabel (k a : List Node) (h : ∀ n ∈ a, n.isLabel = false) : bots (k ++ a) = bots k := by
  unfold bots
  rw [List.reverse_append]
  exact botsR_skip (by intro n hn; exact h n (by simpa using hn)) _

theorem bots_append_label (k : List Node) (id : Nat) (s : Segment) (im : Bool) :
    bots (k ++ [.label id s im]) = lastBR k.reverse :: bots k := by
  simp [bots, botsR]

/-- the context invariant of the link parser; `lo` = the start of the block's first line -/
structure LK (lo : Int) (k : List Node) (n : Nat) (b : List Bottom) : Prop where
  pos : posL k
  dseg : allQ DSeg k
  sorted : (dids k).Pairwise (· < ·)
  lt : ∀ i ∈ dids k, i < n
  nest : ∀ nd ∈ k, nd.isLabel = false → hasLabel nd = false
  lablo : ∀ id s im, Node.label id s im ∈ k → lo ≤ s.start
  stack : b = bots k

theorem isLabel_of_hasLabel_false {n : Node} (h : hasLabel n = false) : n.isLabel = false := by
  cases n <;> simp_all [hasLabel, Node.isLabel]

/-- the invariant goes over to a child list made of old children and Text nodes whose delimiters are (some of) the
    old ones in the old order -/
theorem LK.transfer {lo : Int} {k k' : List Node} {n : Nat} {b : List Bottom} (h : LK lo k n b)
    (hmem : ∀ nd ∈ k', nd ∈ k ∨ isTextNode nd = true) (hd : (dids k').Sublist (dids k)) : LK lo k' n (bots k') where
  pos := by
    intro id d hm
    rcases hmem _ hm with h1 | h1
    · exact h.pos id d h1
    · simp [isTextNode] at h1
  dseg := by
    intro nd hm
    rcases hmem _ hm with h1 | h1
    · exact h.dseg nd h1
    · intro id d e; subst e; simp [isTextNode] at h1
  sorted := h.sorted.sublist hd
  lt := fun i hi => h.lt i (hd.subset hi)
  nest := by
    intro nd hm hl
    rcases hmem _ hm with h1 | h1
    · exact h.nest nd h1 hl
    · cases nd <;> simp_all [isTextNode, hasLabel]
  lablo := by
    intro id s im hm
    rcases hmem _ hm with h1 | h1
    · exact h.lablo id s im h1
    · simp [isTextNode] at h1
  stack := rfl

theorem LK.appendPlain {lo : Int} {k : List Node} {n : Nat} {b : List Bottom} (h : LK lo k n b) {nd : Node}
    (h1 : nd.isDelim = false) (h2 : hasLabel nd = false) : LK lo (k ++ [nd]) n b where
  pos := posL_append.mpr ⟨h.pos, posL_nondelim h1⟩
  dseg := allQ_append.mpr ⟨h.dseg, allQ_single.mpr (by intro id d e; subst e; simp [Node.isDelim] at h1)⟩
  sorted := by rw [dids_append, dids_nondelim h1]; simpa using h.sorted
  lt := by rw [dids_append, dids_nondelim h1]; simpa using h.lt
  nest := by
    intro x hx hl
    simp only [List.mem_append, List.mem_singleton] at hx
    rcases hx with hx | rfl
    · exact h.nest x hx hl
    · exact h2
  lablo := by
    intro id s im hm
    simp only [List.mem_append, List.mem_singleton] at hm
    rcases hm with hm | hm
    · exact h.lablo id s im hm
    · subst hm; simp [hasLabel] at h2
  stack := by
    rw [bots_append_nolabel k [nd] (by intro x hx; simp at hx; subst hx; exact isLabel_of_hasLabel_false h2)]
    exact h.stack

theorem LK.dropPlain {lo : Int} {k : List Node} {n : Nat} {b : List Bottom} {nd : Node} (h : LK lo (k ++ [nd]) n b)
    (h2 : nd.isLabel = false) : LK lo k n b := by
  have := h.transfer (k' := k) (fun x hx => Or.inl (by simp [hx])) (by rw [dids_append]; exact List.sublist_append_left _ _)
  rw [h.stack, bots_append_nolabel k [nd] (by intro x hx; simp at hx; subst hx; exact h2)]
  exact this

mutual
theorem wf_false_hasLabel : ∀ (n : Node), wf false n = true → hasLabel n = false
  | .text .., _ => by simp [hasLabel]
  | .codeSpan ks, h => by
    simp only [wf] at h
    simp only [hasLabel]
    exact allText_hasLabelL ks h
  | .emphasis _ ks, h => by
    simp only [wf, Bool.and_eq_true] at h
    simp only [hasLabel]; exact wfL_false_hasLabelL ks h.2
  | .link _ _ _ ks, h => by
    simp only [wf, Bool.and_eq_true] at h
    simp only [hasLabel]; exact wfL_false_hasLabelL ks h.1
  | .autoLink .., _ => by simp [hasLabel]
  | .rawHTML .., _ => by simp [hasLabel]
  | .delim .., h => by simp [wf] at h
  | .label .., h => by simp [wf] at h
theorem wfL_false_hasLabelL : ∀ (l : List Node), wfL false l = true → hasLabelL l = false
  | [], _ => by simp [hasLabelL]
  | n :: rest, h => by
    simp only [wfL, Bool.and_eq_true] at h
    simp only [hasLabelL, Bool.or_eq_false_iff]
    exact ⟨wf_false_hasLabel n h.1, wfL_false_hasLabelL rest h.2⟩
theorem allText_hasLabelL : ∀ (l : List Node), l.all isText = true → hasLabelL l = false
  | [], _ => by simp [hasLabelL]
  | n :: rest, h => by
    simp only [List.all_cons, Bool.and_eq_true] at h
    simp only [hasLabelL, Bool.or_eq_false_iff]
    refine ⟨?_, allText_hasLabelL rest h.2⟩
    cases n <;> simp_all [isText, hasLabel]
end

/-- the loop's own steps keep the invariant -/
def linkCtx (lo : Int) : Ctx where
  LK := LK lo
  appendText := fun s so ha ra h => h.appendPlain (by simp [Node.isDelim]) (by simp [hasLabel])
  swapText := fun s t so ha ra h =>
    (h.dropPlain (by simp [Node.isLabel])).appendPlain (by simp [Node.isDelim]) (by simp [hasLabel])
  appendPlain := fun nd h hw => h.appendPlain (by cases nd <;> simp_all [wf, Node.isDelim]) (wf_false_hasLabel nd hw)
  appendDelim := by
    intro k n b d h h1 h2
    exact {
      pos := posL_append.mpr ⟨h.pos, posL_delim.mpr h1⟩
      dseg := allQ_append.mpr ⟨h.dseg, allQ_single.mpr (by intro id d' e; simp at e; rw [← e.2]; exact h2)⟩
      sorted := by
        rw [dids_append]
        simp only [dids, List.pairwise_append, List.pairwise_cons, List.mem_singleton, List.Pairwise.nil, and_true]
        exact ⟨h.sorted, by simp, fun a ha b hb => by subst hb; exact h.lt a ha⟩
      lt := by
        rw [dids_append]
        intro i hi
        simp only [dids, List.mem_append, List.mem_singleton] at hi
        rcases hi with hi | hi
        · have := h.lt i hi; omega
        · omega
      nest := by
        intro x hx hl
        simp only [List.mem_append, List.mem_singleton] at hx
        rcases hx with hx | rfl
        · exact h.nest x hx hl
        · rfl
      lablo := by
        intro id s im hm
        simp only [List.mem_append, List.mem_singleton] at hm
        rcases hm with hm | hm
        · exact h.lablo id s im hm
        · simp at hm
      stack := by
        rw [bots_append_nolabel k _ (by intro x hx; simp at hx; subst hx; rfl)]
        exact h.stack }
  bumpId := fun h => { h with lt := fun i hi => by have := h.lt i hi; omega }

theorem LK.appendLabel {lo : Int} {k : List Node} {n : Nat} {b : List Bottom} (h : LK lo k n b) (s : Segment)
    (im : Bool) (hs : lo ≤ s.start) : LK lo (k ++ [.label n s im]) (n + 1) (lastBR k.reverse :: b) where
  pos := posL_append.mpr ⟨h.pos, posL_nondelim rfl⟩
  dseg := allQ_append.mpr ⟨h.dseg, allQ_single.mpr (by intro id d e; simp at e)⟩
  sorted := by rw [dids_append]; simpa [dids] using h.sorted
  lt := by
    rw [dids_append]
    intro i hi
    simp only [dids, List.append_nil] at hi
    have := h.lt i hi; omega
  nest := by
    intro x hx hl
    simp only [List.mem_append, List.mem_singleton] at hx
    rcases hx with hx | rfl
    · exact h.nest x hx hl
    · simp [Node.isLabel] at hl
  lablo := by
    intro id s' im' hm
    simp only [List.mem_append, List.mem_singleton] at hm
    rcases hm with hm | hm
    · exact h.lablo id s' im' hm
    · simp at hm; rw [hm.2.1]; exact hs
  stack := by rw [bots_append_label, h.stack]

/-! ### `processLinkLabel` -/

theorem splitFirstLabel_pre {l pre post : List Node} {x : Nat × Segment × Bool}
    (h : splitFirstLabel l = some (pre, x, post)) : ∀ n ∈ pre, n.isLabel = false := by
  induction l generalizing pre with
  | nil => simp [splitFirstLabel] at h
  | cons n rest ih =>
    cases n with
    | label i sg m => simp [splitFirstLabel] at h; obtain ⟨rfl, _⟩ := h; simp
    | _ =>
      simp only [splitFirstLabel] at h
      split at h
      · rename_i p y po heq
        simp at h; obtain ⟨rfl, rfl, rfl⟩ := h
        intro m hm
        simp at hm
        rcases hm with rfl | hm
        · simp [Node.isLabel]
        · exact ih heq m hm
      · simp at h

theorem splitLastLabel_post {l pre post : List Node} {x : Nat × Segment × Bool}
    (h : splitLastLabel l = some (pre, x, post)) : ∀ n ∈ post, n.isLabel = false := by
  unfold splitLastLabel at h
  split at h
  · rename_i postR y preR hq
    simp at h; obtain ⟨rfl, rfl, rfl⟩ := h
    intro n hn
    exact splitFirstLabel_pre hq n (by simpa using hn)
  · simp at h

theorem splitFirstLabel_skip {a : List Node} (h : ∀ n ∈ a, n.isLabel = false) (id : Nat) (s : Segment) (im : Bool)
    (r : List Node) : splitFirstLabel (a ++ .label id s im :: r) = some (a, (id, s, im), r) := by
  induction a with
  | nil => simp [splitFirstLabel]
  | cons x rest ih =>
    have hx := h x (by simp)
    have ih' := ih (fun n hn => h n (by simp [hn]))
    cases x <;> simp_all [splitFirstLabel, Node.isLabel]

theorem splitLastLabel_of {pre post : List Node} (h : ∀ n ∈ post, n.isLabel = false) (id : Nat) (s : Segment)
    (im : Bool) : splitLastLabel (pre ++ .label id s im :: post) = some (pre, (id, s, im), post) := by
  unfold splitLastLabel
  have : (pre ++ Node.label id s im :: post).reverse = post.reverse ++ Node.label id s im :: pre.reverse := by simp
  rw [this, splitFirstLabel_skip (by intro n hn; exact h n (by simpa using hn))]
  simp

theorem lastBR_mem {l : List Node} {n : Nat} (h : lastBR l = .id n) : n ∈ dids l := by
  unfold lastBR at h
  split at h
  · rename_i pre id d post heq
    simp at h; subst h
    rw [splitFirstDelim_eq heq, dids_append]
    simp [dids]
  · simp at h

theorem dids_reverse (l : List Node) : dids l.reverse = (dids l).reverse := by
  induction l with
  | nil => rfl
  | cons x r ih => rw [List.reverse_cons, dids_append, ih]; cases x <;> simp [dids]

/-- what a successful `processLinkLabel` hands back -/
structure LabelDone (st : St) (pre : List Node) (lab : Node) (post y' : List Node) (st' : St) : Prop where
  state : st' = { st with bottoms := bots pre, kids := pre ++ [lab] }
  noDelim : ∀ n ∈ y', n.isDelim = false
  noLabel : hasLabelL y' = false
  chain : ∀ m hi, chain m hi (segsOfL post) → chain m hi (segsOfL y')

theorem processLinkLabel_ok {lo : Int} {st : St} {pre post : List Node} {lid : Nat} {lseg : Segment} {im : Bool}
    (hs : splitLastLabel st.kids = some (pre, (lid, lseg, im), post))
    (hlk : LK lo st.kids st.nextId st.bottoms) :
    ∃ y' st', processLinkLabel st = .ok (y', st') ∧ LabelDone st pre (.label lid lseg im) post y' st' := by
  have ek := splitLastLabel_eq hs
  have hpostL := splitLastLabel_post hs
  have hpostNest : hasLabelL post = false := by
    rw [hasLabelL_false_iff]
    intro n hn
    exact hlk.nest n (by rw [ek]; simp [hn]) (hpostL n hn)
  -- the stack
  have hst : st.bottoms = lastBR pre.reverse :: bots pre := by
    rw [hlk.stack, ek]
    have : pre ++ Node.label lid lseg im :: post = (pre ++ [Node.label lid lseg im]) ++ post := by simp
    rw [this, bots_append_nolabel _ _ hpostL, bots_append_label]
  have hpop : popBottom st = (lastBR pre.reverse, { st with bottoms := bots pre }) := by
    unfold popBottom; rw [hst]
  -- locality
  have hclosed : Closed (lastBR pre.reverse) (pre ++ [Node.label lid lseg im]).reverse := by
    refine ⟨⟨Node.label lid lseg im, pre.reverse, by simp, rfl, rfl⟩, ?_⟩
    simp only [List.reverse_append, List.reverse_cons, List.reverse_nil, List.nil_append, List.singleton_append, stopsAt]
    exact stopsAt_lastBR _
  have hsorted := hlk.sorted
  rw [ek, dids_append] at hsorted
  have hdisj : ∀ id d d', Node.delim id d ∈ pre ++ [Node.label lid lseg im] → Node.delim id d' ∈ post → False := by
    intro id d d' h1 h2
    have m1 : id ∈ dids pre := by
      simp only [List.mem_append, List.mem_singleton] at h1
      rcases h1 with h1 | h1
      · exact mem_dids h1
      · simp at h1
    have m2 : id ∈ dids (Node.label lid lseg im :: post) := by simp only [dids]; exact mem_dids h2
    have := (List.pairwise_append.mp hsorted).2.2 id m1 id m2
    omega
  have hloc := processDelimiters_prefix (lastBR_ne_nil pre.reverse) hclosed post hdisj
  have hposPost : posL post := fun id d hm => hlk.pos id d (by rw [ek]; simp [hm])
  obtain ⟨y', hy', _⟩ := processDelimiters_ok (lastBR pre.reverse) post hposPost
  have hbfree : bfree (lastBR pre.reverse) post := by
    intro id d hm hb
    have m1 : id ∈ dids pre := by
      have := lastBR_mem hb
      rw [dids_reverse] at this
      simpa using this
    have m2 : id ∈ dids (Node.label lid lseg im :: post) := by simp only [dids]; exact mem_dids hm
    have := (List.pairwise_append.mp hsorted).2.2 id m1 id m2
    omega
  have hnd := processDelimiters_clears hy' hbfree
  have hnl : hasLabelL y' = false := by rw [processDelimiters_hasLabelL hy']; exact hpostNest
  have hy'L : ∀ n ∈ y', n.isLabel = false := fun n hn => isLabel_of_hasLabel_false (hasLabelL_false_iff.mp hnl n hn)
  have hDpost : allQ DSeg post := fun n hn => hlk.dseg n (by rw [ek]; simp [hn])
  refine ⟨y', { st with bottoms := bots pre, kids := pre ++ [Node.label lid lseg im] }, ?_,
    ⟨rfl, hnd, hnl, fun m hi hc => processDelimiters_chain hy' hposPost hDpost hc⟩⟩
  unfold processLinkLabel
  simp only [hpop, hs, hpostNest, Bool.false_eq_true, if_false]
  have ek' : st.kids = (pre ++ [Node.label lid lseg im]) ++ post := by rw [ek]; simp
  rw [ek', hloc, hy']
  simp only [Except.map]
  have : pre ++ [Node.label lid lseg im] ++ y' = pre ++ Node.label lid lseg im :: y' := by simp
  rw [this, splitLastLabel_of hy'L]
  have hany : y'.any Node.isDelim = false := by
    rw [List.any_eq_false]; intro n hn; simp [hnd n hn]
  simp [hany, hnl]

/-! ### the reader side of the `]` branch -/

variable {src : Bytes} {segs : List Segment} {lo0 : Int}

/-- a step returned and the reader stands for a padding-free cursor that did not move back -/
def RStep (src : Bytes) (segs : List Segment) (c : BCur) {α : Type} (res : Except Panic (α × BlockReader)) : Prop :=
  ∃ a r' c', res = .ok (a, r') ∧ RS src segs r' c' ∧ c.p ≤ c'.p ∧ c.ln ≤ c'.ln ∧
    BCur.remaining segs c' ≤ BCur.remaining segs c

theorem peek_view {c : BCur} {b : UInt8} (h : BCur.peek src segs c = b) (hb : b ≠ 255) :
    ∃ l, BCur.view src segs c = some (b :: l) := by
  unfold BCur.peek at h
  split at h
  · rename_i b' l hv; subst h; exact ⟨l, hv⟩
  · exact absurd h.symm hb

theorem skipSpaces_step (W : WFSegs src segs) (Z : ∀ s ∈ segs, s.padding = 0) {r : BlockReader} {c : BCur}
    (h : RS src segs r c) : RStep src segs c (skipSpaces blockOps (rdFuel r) 0 r) := by
  obtain ⟨x, r', c', e, h', a1, a2, a3⟩ := skipSpaces_post (segFacts W) Z (rdFuel r) 0 h (rdFuel_gt W Z h)
  exact ⟨x, r', c', e, h', a1, a2, a3⟩

/-- Advance(n) for `n` bytes of the peeked line -/
theorem advance_in_view (F : SegFacts src segs) (Z : ∀ s ∈ segs, s.padding = 0) {r : BlockReader} {c : BCur}
    (h : RS src segs r c) {l : Bytes} (hv : BCur.view src segs c = some l) {n : Nat} (hn : n ≤ l.length) :
    ∃ r' c', r.advance (n : Int) = .ok r' ∧ RS src segs r' c' ∧ c.p + n ≤ c'.p ∧ c.ln ≤ c'.ln ∧
      BCur.remaining segs c' = BCur.remaining segs c - n := by
  obtain ⟨v1, v2, v3, v4, v5, v6, v7, v8⟩ := view_some F h.abs.wf h.pad hv
  obtain ⟨r', c', e1, e2, e3, e4, e5, _⟩ := advance_ok F Z h (n := (n : Int)) (by omega) (by omega)
  exact ⟨r', c', e1, e2, e5, e4, e3⟩

theorem parseLinkDestination_step (W : WFSegs src segs) (Z : ∀ s ∈ segs, s.padding = 0) {r : BlockReader} {c : BCur}
    (h : RS src segs r c) : RStep src segs c (parseLinkDestination r) := by
  have F := segFacts W
  obtain ⟨x, r1, c1, e1, h1, a1, a2, a3⟩ := skipSpaces_step W Z h
  obtain ⟨hpl, hpos⟩ := peekLine_facts F h1
  have hpk := peek_ok F h1
  unfold parseLinkDestination
  simp only [e1, hpl, hpk, bind, Except.bind, pure, Except.pure]
  split
  · rename_i h60
    simp only [beq_iff_eq] at h60
    obtain ⟨l, hv⟩ := peek_view h60 (by decide)
    simp only [hv, Option.getD_some, List.drop_succ_cons, List.drop_zero]
    cases hd : destAngle l 1 with
    | none => exact ⟨_, r1, c1, rfl, h1, a1, a2, a3⟩
    | some i =>
      have hb := destAngle_bound _ l (Nat.le_refl _) 1 i hd
      obtain ⟨r2, c2, g1, g2, g3, g4, g5⟩ := advance_in_view F Z h1 hv (n := i + 1) (by simp only [List.length_cons]; omega)
      have g1' : BlockReader.advance ((i : Int) + 1) r1 = .ok r2 := by exact_mod_cast g1
      simp only [g1']
      exact ⟨_, r2, c2, rfl, g2, by omega, by omega, by omega⟩
  · cases hv : BCur.view src segs c1 with
    | none =>
      have hn := remaining_nonneg F h1.abs.wf
      obtain ⟨r2, c2, g1, g2, g3, g4, g5, _⟩ := advance_ok F Z h1 (n := 0) (Int.le_refl _) hn
      have g1' : BlockReader.advance ((0 : Nat) : Int) r1 = .ok r2 := by exact_mod_cast g1
      simp only [Option.getD_none]
      split
      · exact ⟨_, r1, c1, rfl, h1, a1, a2, a3⟩
      simp only [destPlain, g1']
      exact ⟨_, r2, c2, rfl, g2, by omega, by omega, by omega⟩
    | some l =>
      have hb := destPlain_bound _ l (Nat.le_refl _) 0 0
      obtain ⟨r2, c2, g1, g2, g3, g4, g5⟩ := advance_in_view F Z h1 hv (n := destPlain l 0 0) (by omega)
      simp only [Option.getD_some]
      split
      · exact ⟨_, r1, c1, rfl, h1, a1, a2, a3⟩   -- an open parenthesis is left (repair ce3b6c4): rejected, reader not advanced
      simp only [g1]
      exact ⟨_, r2, c2, rfl, g2, by omega, by omega, by omega⟩

theorem parseLinkTitle_step (W : WFSegs src segs) (Z : ∀ s ∈ segs, s.padding = 0) {r : BlockReader} {c : BCur}
    (h : RS src segs r c) : RStep src segs c (parseLinkTitle r) := by
  have F := segFacts W
  obtain ⟨x, r1, c1, e1, h1, a1, a2, a3⟩ := skipSpaces_step W Z h
  have hpk := peek_ok F h1
  unfold parseLinkTitle
  simp only [e1, hpk, bind, Except.bind, pure, Except.pure]
  split
  · exact ⟨_, r1, c1, rfl, h1, a1, a2, a3⟩
  · rename_i hop
    have hne : BCur.peek src segs c1 ≠ 255 := by
      intro e; rw [e] at hop; simp at hop
    obtain ⟨l, hv⟩ := peek_view (rfl : BCur.peek src segs c1 = _) hne
    obtain ⟨r2, c2, g1, g2, g3, g4, g5⟩ := advance_in_view F Z h1 hv (n := 1) (by simp)
    have g1' : BlockReader.advance 1 r1 = .ok r2 := by exact_mod_cast g1
    simp only [g1']
    obtain ⟨y, r3, c3, k1, k2, k3, k4, k5, k6⟩ := findClosure_post F Z (BCur.peek src segs c1)
      (if (BCur.peek src segs c1 == 40) = true then 41 else BCur.peek src segs c1) linkFindClosureOptions (rdFuel r2) g2
      (rdFuel_gt W Z g2)
    simp only [k1]
    split
    · have hfirst := first_le_p F g2.abs.wf
      obtain ⟨v, hv'⟩ := segsValue_ok F k2.abs (y.1.getD []) (fun s hs => by have := k6 s hs; exact ⟨by omega, this.2⟩)
      simp only [hv']
      split
      · exact ⟨_, r3, c3, rfl, k2, by omega, by omega, by omega⟩
      · exact ⟨_, r3, c3, rfl, k2, by omega, by omega, by omega⟩
    · exact ⟨_, r3, c3, rfl, k2, by omega, by omega, by omega⟩

/-- what an attempt of the `]` branch leaves: nothing but a moved reader, or a processed label -/
def TryRes (st : St) (pre : List Node) (lab : Node) (post : List Node) (res : Option LinkInfo) (st' : St) : Prop :=
  match res with
  | none => st' = { st with rd := st'.rd }
  | some info => LabelDone { st with rd := st'.rd } pre lab post info.kids st'

theorem finish_post {lo : Int} {st : St} {pre post : List Node} {lid : Nat} {lseg : Segment} {im : Bool}
    (hs : splitLastLabel st.kids = some (pre, (lid, lseg, im), post))
    (hlk : LK lo st.kids st.nextId st.bottoms) (rd : BlockReader) :
    ∃ y' st', processLinkLabel { st with rd := rd } = .ok (y', st') ∧ st'.rd = rd ∧
      LabelDone { st with rd := rd } pre (.label lid lseg im) post y' st' := by
  obtain ⟨y', st', e, hd⟩ := processLinkLabel_ok (st := { st with rd := rd }) hs hlk
  exact ⟨y', st', e, by rw [hd.state], hd⟩

theorem close_paren (F : SegFacts src segs) (Z : ∀ s ∈ segs, s.padding = 0) {lo : Int} {st : St}
    {pre post : List Node} {lid : Nat} {lseg : Segment} {im : Bool}
    (hs : splitLastLabel st.kids = some (pre, (lid, lseg, im), post))
    (hlk : LK lo st.kids st.nextId st.bottoms) {r : BlockReader} {c : BCur} (hr : RS src segs r c)
    (hpk : (BCur.peek src segs c == 41) = true) :
    ∃ r1 y' st' c', BlockReader.advance 1 r = .ok r1 ∧
      processLinkLabel { rd := r1, kids := st.kids, nextId := st.nextId, bottoms := st.bottoms } = .ok (y', st') ∧
      RS src segs st'.rd c' ∧ c.p ≤ c'.p ∧ c.ln ≤ c'.ln ∧ BCur.remaining segs c' ≤ BCur.remaining segs c ∧
      LabelDone { st with rd := st'.rd } pre (.label lid lseg im) post y' st' := by
  simp only [beq_iff_eq] at hpk
  obtain ⟨l, hv⟩ := peek_view hpk (by decide)
  obtain ⟨r1, c2, g1, g2, g3, g4, g5⟩ := advance_in_view F Z hr hv (n := 1) (by simp)
  have g1' : BlockReader.advance 1 r = .ok r1 := by exact_mod_cast g1
  obtain ⟨y', st', e, hrd, hd⟩ := finish_post hs hlk r1
  refine ⟨r1, y', st', c2, g1', e, by rw [hrd]; exact g2, by omega, g4, by omega, ?_⟩
  rw [hrd]; exact hd

theorem parseLinkInline_post (W : WFSegs src segs) (Z : ∀ s ∈ segs, s.padding = 0) {lo : Int} {st : St} {c1 : BCur}
    {pre post : List Node} {lid : Nat} {lseg : Segment} {im : Bool}
    (h : RS src segs st.rd c1) (hpk : BCur.peek src segs c1 = 40)
    (hs : splitLastLabel st.kids = some (pre, (lid, lseg, im), post))
    (hlk : LK lo st.kids st.nextId st.bottoms) :
    ∃ res st' c', parseLinkInline st = .ok (res, st') ∧ RS src segs st'.rd c' ∧ c1.p ≤ c'.p ∧ c1.ln ≤ c'.ln ∧
      BCur.remaining segs c' ≤ BCur.remaining segs c1 ∧ TryRes st pre (.label lid lseg im) post res st' := by
  have F := segFacts W
  obtain ⟨l, hv⟩ := peek_view hpk (by decide)
  obtain ⟨r1, c2, g1, g2, g3, g4, g5⟩ := advance_in_view F Z h hv (n := 1) (by simp)
  have g1' : BlockReader.advance 1 st.rd = .ok r1 := by exact_mod_cast g1
  obtain ⟨x, r2, c3, e2, h2, a1, a2, a3⟩ := skipSpaces_step W Z g2
  have hpk2 := peek_ok F h2
  unfold parseLinkInline
  simp only [g1', e2, hpk2, bind, Except.bind, pure, Except.pure]
  split
  · rename_i hp
    obtain ⟨rr, y', st', c', q0, q1, q2, q3, q4, q5, q6⟩ := close_paren F Z hs hlk h2 hp
    simp only [q0, q1]
    exact ⟨_, st', c', rfl, q2, by omega, by omega, by omega, q6⟩
  · obtain ⟨d, r3, c4, e3, h3, b1, b2, b3⟩ := parseLinkDestination_step W Z h2
    simp only [e3]
    cases d with
    | none => exact ⟨none, _, c4, rfl, h3, by omega, by omega, by omega, rfl⟩
    | some dest =>
      obtain ⟨x4, r4, c5, e4, h4, d1, d2, d3⟩ := skipSpaces_step W Z h3
      have hpk4 := peek_ok F h4
      simp only [e4, hpk4]
      split
      · rename_i hp
        obtain ⟨rr, y', st', c', q0, q1, q2, q3, q4, q5, q6⟩ := close_paren F Z hs hlk h4 hp
        simp only [q0, q1]
        exact ⟨_, st', c', rfl, q2, by omega, by omega, by omega, q6⟩
      · split
        · exact ⟨none, _, c5, rfl, h4, by omega, by omega, by omega, rfl⟩   -- no white space in front of a title (8c83fd9)
        obtain ⟨t, r5, c6, e5, h5, f1, f2, f3⟩ := parseLinkTitle_step W Z h4
        simp only [e5]
        cases t with
        | none => exact ⟨none, _, c6, rfl, h5, by omega, by omega, by omega, rfl⟩
        | some title =>
          obtain ⟨x6, r6, c7, e6, h6, k1, k2, k3⟩ := skipSpaces_step W Z h5
          have hpk6 := peek_ok F h6
          simp only [e6, hpk6]
          split
          · rename_i hp
            obtain ⟨rr, y', st', c', q0, q1, q2, q3, q4, q5, q6⟩ := close_paren F Z hs hlk h6 hp
            simp only [q0, q1]
            exact ⟨_, st', c', rfl, q2, by omega, by omega, by omega, q6⟩
          · exact ⟨none, _, c7, rfl, h6, by omega, by omega, by omega, rfl⟩

theorem parseReferenceLink_post (W : WFSegs src segs) (Z : ∀ s ∈ segs, s.padding = 0) {lo : Int} (env : Env) {st : St}
    {c1 : BCur} {pre post : List Node} {lid : Nat} {lseg : Segment} {im : Bool}
    (h : RS src segs st.rd c1) (hpk : BCur.peek src segs c1 = 91)
    (hs : splitLastLabel st.kids = some (pre, (lid, lseg, im), post))
    (hlk : LK lo st.kids st.nextId st.bottoms)
    (hl1 : (BCur.segOf segs 0).start ≤ lseg.stop) (hl2 : lseg.stop ≤ c1.p) :
    ∃ res hv st' c', parseReferenceLink env st lseg = .ok ((res, hv), st') ∧ RS src segs st'.rd c' ∧ c1.p ≤ c'.p ∧
      c1.ln ≤ c'.ln ∧ BCur.remaining segs c' ≤ BCur.remaining segs c1 ∧
      TryRes st pre (.label lid lseg im) post res st' := by
  have F := segFacts W
  obtain ⟨l, hv⟩ := peek_view hpk (by decide)
  obtain ⟨r1, c2, g1, g2, g3, g4, g5⟩ := advance_in_view F Z h hv (n := 1) (by simp)
  have g1' : BlockReader.advance 1 st.rd = .ok r1 := by exact_mod_cast g1
  obtain ⟨y, r3, c3, k1, k2, k3, k4, k5, k6⟩ := findClosure_post F Z 91 93 linkFindClosureOptions (rdFuel r1) g2
    (rdFuel_gt W Z g2)
  have hpos := (peekLine_facts F h).2
  unfold parseReferenceLink
  simp only [g1', k1, bind, Except.bind, pure, Except.pure]
  obtain ⟨y', st2, e, hrd, hd⟩ := finish_post hs hlk r3
  have e' : processLinkLabel { rd := r3, kids := st.kids, nextId := st.nextId, bottoms := st.bottoms } = .ok (y', st2) := e
  have hfirst := first_le_p F g2.abs.wf
  obtain ⟨sv, hsv⟩ := segsValue_ok F k2.abs (y.1.getD []) (fun s hs => by have := k6 s hs; exact ⟨by omega, this.2⟩)
  obtain ⟨vv, hval⟩ := valueOp_ok F k2.abs { start := lseg.stop, stop := st.rd.position.snd.start - 1 } hl1
    (by simp only [BlockReader.position, hpos]; omega)
  have hrs2 : RS src segs st2.rd c3 := by rw [hrd]; exact k2
  have hd2 : LabelDone { st with rd := st2.rd } pre (.label lid lseg im) post y' st2 := by rw [hrd]; exact hd
  simp only [e', hsv, hval]
  repeat' split
  all_goals first
    | exact ⟨none, _, _, c3, rfl, k2, by omega, by omega, by omega, rfl⟩
    | exact ⟨some _, _, st2, c3, rfl, hrs2, by omega, by omega, by omega, hd2⟩

/-! ### the two ways the `]` branch ends -/

/-- what the loop expects of a parser call (the conclusion of `PContract` for `linkCtx lo`) -/
def ClosePost (lo0 : Int) (lo : Int) (src : Bytes) (segs : List Segment) (c : BCur) (res : PRes) : Prop :=
  ∃ n st' c', res = .ok (n, st') ∧ RS src segs st'.rd c' ∧ c.p ≤ c'.p ∧ c.ln ≤ c'.ln ∧
    (match n with
      | none => chain lo0 c.p (segsOfL st'.kids) ∧ LK lo st'.kids st'.nextId st'.bottoms
      | some nd => BCur.remaining segs c' + 1 ≤ BCur.remaining segs c ∧
          chain lo0 c'.p (segsOfL (st'.kids ++ [nd])) ∧ LK lo (st'.kids ++ [nd]) st'.nextId st'.bottoms)

theorem chain_label_split {cp : Int} {pre post : List Node} {lid : Nat} {lseg : Segment} {im : Bool}
    (h : chain lo0 cp (segsOfL (pre ++ .label lid lseg im :: post))) :
    ∃ a, chain lo0 a (segsOfL pre) ∧ a ≤ lseg.start ∧ lseg.start ≤ lseg.stop ∧ chain lseg.stop cp (segsOfL post) := by
  rw [segsOfL_append] at h
  obtain ⟨a, h1, h2⟩ := chain_split h
  simp only [segsOfL, segsOf, List.singleton_append, chain] at h2
  exact ⟨a, h1, h2.1, h2.2.1, h2.2.2⟩

theorem dids_mergeOrAppend (l : List Node) (s : Segment) : dids (mergeOrAppend l s) = dids l := by
  unfold mergeOrAppend
  split
  · rename_i seg so ha ra hl
    obtain ⟨ys, rfl⟩ := List.getLast?_eq_some_iff.mp hl
    split <;> simp [dids_append, dids, textOf]
  · simp [dids_append, dids, textOf]

theorem mem_mergeOrAppend {l : List Node} {s : Segment} {nd : Node} (h : nd ∈ mergeOrAppend l s) :
    nd ∈ l ∨ isTextNode nd = true := by
  unfold mergeOrAppend at h
  split at h
  · split at h
    · simp only [List.mem_append, List.mem_singleton] at h
      rcases h with h | h
      · exact Or.inl (List.dropLast_subset _ h)
      · subst h; exact Or.inr rfl
    · simp only [List.mem_append, List.mem_singleton] at h
      rcases h with h | h
      · exact Or.inl h
      · subst h; exact Or.inr rfl
  · simp only [List.mem_append, List.mem_singleton] at h
    rcases h with h | h
    · exact Or.inl h
    · subst h; exact Or.inr rfl

theorem bots_mergeOrAppend (l : List Node) (s : Segment) : bots (mergeOrAppend l s) = bots l := by
  unfold mergeOrAppend
  split
  · rename_i seg so ha ra hl
    obtain ⟨ys, rfl⟩ := List.getLast?_eq_some_iff.mp hl
    split
    · simp only [List.dropLast_concat]
      rw [bots_append_nolabel _ _ (by intro x hx; simp at hx; subst hx; rfl),
        bots_append_nolabel _ _ (by intro x hx; simp at hx; subst hx; rfl)]
    · rw [bots_append_nolabel _ _ (by intro x hx; simp [textOf] at hx; subst hx; rfl)]
  · rw [bots_append_nolabel _ _ (by intro x hx; simp [textOf] at hx; subst hx; rfl)]

theorem popBottom_of {lo : Int} {st : St} {pre post : List Node} {lid : Nat} {lseg : Segment} {im : Bool}
    (hs : splitLastLabel st.kids = some (pre, (lid, lseg, im), post))
    (hlk : LK lo st.kids st.nextId st.bottoms) : (popBottom st).2 = { st with bottoms := bots pre } := by
  have ek := splitLastLabel_eq hs
  have hpostL := splitLastLabel_post hs
  have hst : st.bottoms = lastBR pre.reverse :: bots pre := by
    rw [hlk.stack, ek]
    have : pre ++ Node.label lid lseg im :: post = (pre ++ [Node.label lid lseg im]) ++ post := by simp
    rw [this, bots_append_nolabel _ _ hpostL, bots_append_label]
  unfold popBottom; rw [hst]

/-- every failure path of the `]` branch: the bracket becomes Text, the invariants stay -/
theorem linkFail_close {lo : Int} {st : St} {c c' : BCur} {pre post : List Node} {lid : Nat} {lseg : Segment} {im : Bool}
    (hs : splitLastLabel st.kids = some (pre, (lid, lseg, im), post))
    (hlk : LK lo st.kids st.nextId st.bottoms) (hch : chain lo0 c.p (segsOfL st.kids)) {rd' : BlockReader}
    (hr : RS src segs rd' c') (h1 : c.p ≤ c'.p) (h2 : c.ln ≤ c'.ln) :
    ClosePost lo0 lo src segs c (linkFail pre lseg post { st with rd := rd' }) := by
  have ek := splitLastLabel_eq hs
  have hpostL := splitLastLabel_post hs
  have hpop := popBottom_of (st := { st with rd := rd' }) hs hlk
  unfold linkFail
  rw [hpop]
  refine ⟨none, _, c', rfl, hr, h1, h2, ?_, ?_⟩
  · rw [ek] at hch
    obtain ⟨a, c1, c2, c3, c4⟩ := chain_label_split hch
    simp only
    rw [segsOfL_append]
    exact chain_append (chain_text_merge (chain_mono (Int.le_refl _) c2 c1) c3) c4
  · simp only
    have htr := hlk.transfer (k' := mergeOrAppend pre lseg ++ post) (by
        intro nd hm
        simp only [List.mem_append] at hm
        rcases hm with hm | hm
        · rcases mem_mergeOrAppend hm with h' | h'
          · exact Or.inl (by rw [ek]; simp [h'])
          · exact Or.inr h'
        · exact Or.inl (by rw [ek]; simp [hm]))
      (by rw [ek, dids_append, dids_append, dids_mergeOrAppend]; simp [dids])
    rw [bots_append_nolabel _ _ hpostL, bots_mergeOrAppend] at htr
    exact htr

/-- the success path of the `]` branch: the label goes, the Link / Image takes the children behind it -/
theorem linkDone_close {lo : Int} {st st2 : St} {c c' : BCur} {pre post y' : List Node} {lid : Nat} {lseg : Segment}
    {im : Bool} (hs : splitLastLabel st.kids = some (pre, (lid, lseg, im), post))
    (hlk : LK lo st.kids st.nextId st.bottoms) (hch : chain lo0 c.p (segsOfL st.kids))
    (hd : LabelDone { st with rd := st2.rd } pre (.label lid lseg im) post y' st2)
    (hr : RS src segs st2.rd c') (h1 : c.p ≤ c'.p) (h2 : c.ln ≤ c'.ln)
    (h3 : BCur.remaining segs c' + 1 ≤ BCur.remaining segs c) (isImage : Bool) (dest : Bytes) (title : Option Bytes) :
    ClosePost lo0 lo src segs c (linkDone isImage { dest := dest, title := title, kids := y' } st2) := by
  have ek := splitLastLabel_eq hs
  have hk2 : st2.kids = pre ++ [.label lid lseg im] := by rw [hd.state]
  have hn2 : st2.nextId = st.nextId := by rw [hd.state]
  have hb2 : st2.bottoms = bots pre := by rw [hd.state]
  unfold linkDone
  refine ⟨some _, _, c', rfl, hr, h1, h2, h3, ?_, ?_⟩
  · simp only [hk2, List.dropLast_concat]
    rw [ek] at hch
    obtain ⟨a, c1, c2, c3, c4⟩ := chain_label_split hch
    rw [segsOfL_append]
    simp only [segsOfL, segsOf, List.append_nil]
    exact chain_append c1 (chain_mono (by omega) h1 (hd.chain _ _ c4))
  · simp only [hk2, List.dropLast_concat, hn2, hb2]
    have hpre : LK lo pre st.nextId (bots pre) :=
      hlk.transfer (k' := pre) (fun nd hm => Or.inl (by rw [ek]; simp [hm]))
        (by rw [ek, dids_append]; exact List.sublist_append_left _ _)
    exact hpre.appendPlain rfl (by simp only [hasLabel]; exact hd.noLabel)

/-! ### the `]` branch -/

theorem linkTry_post (W : WFSegs src segs) (Z : ∀ s ∈ segs, s.padding = 0) {lo : Int} (env : Env) {st : St}
    {c1 : BCur} {pre post : List Node} {lid : Nat} {lseg : Segment} {im : Bool}
    (h : RS src segs st.rd c1)
    (hs : splitLastLabel st.kids = some (pre, (lid, lseg, im), post))
    (hlk : LK lo st.kids st.nextId st.bottoms)
    (hl1 : (BCur.segOf segs 0).start ≤ lseg.stop) (hl2 : lseg.stop ≤ c1.p) :
    ∃ res hv st' c', linkTry env st lseg (BCur.peek src segs c1) = .ok (res, hv, st') ∧ RS src segs st'.rd c' ∧
      c1.p ≤ c'.p ∧ c1.ln ≤ c'.ln ∧ BCur.remaining segs c' ≤ BCur.remaining segs c1 ∧
      TryRes st pre (.label lid lseg im) post res st' := by
  unfold linkTry
  split
  · rename_i h40
    simp only [beq_iff_eq] at h40
    obtain ⟨res, st', c', e, q⟩ := parseLinkInline_post W Z h h40 hs hlk
    simp only [e]
    exact ⟨res, false, st', c', rfl, q⟩
  · split
    · rename_i h91
      simp only [beq_iff_eq] at h91
      obtain ⟨res, hv, st', c', e, q⟩ := parseReferenceLink_post W Z env h h91 hs hlk hl1 hl2
      simp only [e]
      exact ⟨res, hv, st', c', rfl, q⟩
    · exact ⟨none, false, st, c1, rfl, h, Int.le_refl _, Int.le_refl _, Int.le_refl _, rfl⟩

theorem linkShortcut_post (W : WFSegs src segs) (_Z : ∀ s ∈ segs, s.padding = 0) {lo : Int} (env : Env) {st : St}
    {c c1 c2 : BCur} {pre post : List Node} {lid : Nat} {lseg : Segment} {im : Bool} {rd1 rd2 : BlockReader}
    (h1 : RS src segs rd1 c1) (h2 : RS src segs rd2 c2)
    (hs : splitLastLabel st.kids = some (pre, (lid, lseg, im), post))
    (hlk : LK lo st.kids st.nextId st.bottoms) (hch : chain lo0 c.p (segsOfL st.kids))
    (hl1 : (BCur.segOf segs 0).start ≤ lseg.stop) (hl2 : lseg.stop ≤ c.p)
    (hp : c.p ≤ c1.p) (hl : c.ln ≤ c1.ln) (hrem : BCur.remaining segs c1 + 1 ≤ BCur.remaining segs c)
    (segment : Segment) (hseg : segment.start = c.p) (isImage : Bool) :
    ClosePost lo0 lo src segs c
      (linkShortcut env { st with rd := rd2 } lseg segment rd1.position.1 rd1.position.2 isImage pre post) := by
  have F := segFacts W
  obtain ⟨r3, s1, s2⟩ := setPosition_restore F h1 h2
  obtain ⟨vv, hval⟩ := valueOp_ok F s2.abs { start := lseg.stop, stop := segment.start } hl1 (by simp only; omega)
  obtain ⟨y', st2, e, hrd, hd⟩ := finish_post hs hlk r3
  have e' : processLinkLabel { rd := r3, kids := st.kids, nextId := st.nextId, bottoms := st.bottoms } = .ok (y', st2) := e
  have hrs2 : RS src segs st2.rd c1 := by rw [hrd]; exact s2
  have hd2 : LabelDone { st with rd := st2.rd } pre (.label lid lseg im) post y' st2 := by rw [hrd]; exact hd
  unfold linkShortcut
  simp only [s1, hval, e', bind, Except.bind]
  repeat' split
  all_goals first
    | exact linkFail_close hs hlk hch s2 hp hl
    | exact linkDone_close hs hlk hch hd2 hrs2 hp hl hrem _ _ _

theorem parseLinkClose_post (W : WFSegs src segs) (Z : ∀ s ∈ segs, s.padding = 0) (env : Env) {st : St} {c : BCur}
    {l : Bytes} (hI : LInv lo0 (linkCtx (BCur.segOf segs 0).start) src segs st c)
    (hv : BCur.view src segs c = some (93 :: l)) :
    ClosePost lo0 (BCur.segOf segs 0).start src segs c (parseLinkClose env st st.rd.pos) := by
  have F := segFacts W
  have hlk : LK (BCur.segOf segs 0).start st.kids st.nextId st.bottoms := hI.lk
  unfold parseLinkClose
  cases hs : splitLastLabel st.kids with
  | none => exact ⟨none, st, c, rfl, hI.rs, Int.le_refl _, Int.le_refl _, hI.ch, hlk⟩
  | some x =>
    obtain ⟨pre, ⟨lid, lseg, im⟩, post⟩ := x
    have ek := splitLastLabel_eq hs
    have hch := hI.ch
    have hch' := hch
    rw [ek] at hch'
    obtain ⟨a, k1, k2, k3, k4⟩ := chain_label_split hch'
    have hl2 : lseg.stop ≤ c.p := chain_le k4
    have hl1 : (BCur.segOf segs 0).start ≤ lseg.stop := by
      have := hlk.lablo lid lseg im (by rw [ek]; simp)
      omega
    obtain ⟨r1, c1, g1, g2, g3, g4, g5⟩ := advance_in_view F Z hI.rs hv (n := 1) (by simp)
    have g1' : BlockReader.advance 1 st.rd = .ok r1 := by exact_mod_cast g1
    have hpos := (peekLine_facts F hI.rs).2
    simp only [g1', bind, Except.bind]
    split
    · exact linkFail_close hs hlk hch g2 (by omega) g4
    · split
      · exact linkFail_close hs hlk hch g2 (by omega) g4
      · have hpk := peek_ok F g2
        simp only [hpk]
        obtain ⟨res, hvv, st', c', e, q1, q2, q3, q4, q5⟩ := linkTry_post W Z env (st := { st with rd := r1 }) g2 hs hlk
          hl1 (by omega)
        have e' : linkTry env { rd := r1, kids := st.kids, nextId := st.nextId, bottoms := st.bottoms } lseg
            (BCur.peek src segs c1) = .ok (res, hvv, st') := e
        simp only [e']
        cases res with
        | some info =>
          simp only [TryRes] at q5
          exact linkDone_close hs hlk hch q5 q1 (by omega) (by omega) (by omega) _ _ _
        | none =>
          simp only [TryRes] at q5
          have q5' : st' = { st with rd := st'.rd } := q5
          simp only
          split
          · rw [q5']
            exact linkFail_close hs hlk hch q1 (by omega) (by omega)
          · rw [q5']
            exact linkShortcut_post W Z env g2 q1 hs hlk hch hl1 hl2 (by omega) g4 (by omega) st.rd.pos
              (by rw [hpos]) _

/-! ### the contract of `linkParser.Parse` -/

theorem pushBottom_eq (st : St) : pushBottom st = { st with bottoms := lastBR st.kids.reverse :: st.bottoms } := by
  unfold pushBottom lastBR splitLastDelim
  cases splitFirstDelim st.kids.reverse with
  | none => rfl
  | some x => rfl

/-- `[` / `![`: the label node is created behind the bracket(s) -/
theorem labelOpen_post (F : SegFacts src segs) (Z : ∀ s ∈ segs, s.padding = 0) {st : St} {c0 c : BCur} {l : Bytes}
    {rd : BlockReader} (hlk : LK (BCur.segOf segs 0).start st.kids st.nextId st.bottoms)
    (hch : chain lo0 c0.p (segsOfL st.kids)) (hr : RS src segs rd c) (hv : BCur.view src segs c = some (91 :: l))
    (isImage : Bool) (hp : c.p = if isImage then c0.p + 1 else c0.p) (hln : c0.ln ≤ c.ln)
    (hrem : BCur.remaining segs c ≤ BCur.remaining segs c0) (w0 : BWF segs c0) :
    ClosePost lo0 (BCur.segOf segs 0).start src segs c0 (labelOpen (pushBottom { st with rd := rd }) c.p isImage) := by
  obtain ⟨r1, c1, g1, g2, g3, g4, g5⟩ := advance_in_view F Z hr hv (n := 1) (by simp)
  have g1' : BlockReader.advance 1 rd = .ok r1 := by exact_mod_cast g1
  have hfirst := first_le_p F w0
  rw [pushBottom_eq]
  unfold labelOpen
  simp only [g1', bind, Except.bind, pure, Except.pure]
  refine ⟨some _, _, c1, rfl, g2, by split at hp <;> omega, by omega, by omega, ?_, ?_⟩
  · simp only
    rw [segsOfL_append]
    refine chain_append hch ?_
    simp only [segsOfL, segsOf, List.append_nil, chain]
    split at hp <;> simp_all <;> omega
  · simp only
    exact hlk.appendLabel _ _ (by simp only; split at hp <;> simp_all <;> omega)

/-- `linkParser.Parse` keeps the loop's contract for every source (`lo` = the start of the first line) -/
theorem link_contract (W : WFSegs src segs) (Z : ∀ s ∈ segs, s.padding = 0) (env : Env) :
    PContract lo0 (linkCtx (BCur.segOf segs 0).start) src segs (trigOf .link) (Ip.link.parse env) := by
  intro st c b l hI hv ht
  have F := segFacts W
  obtain ⟨hpl, hpos⟩ := peekLine_facts F hI.rs
  obtain ⟨v1, v2, v3, v4, v5, v6, v7, v8⟩ := view_some F hI.rs.abs.wf hI.rs.pad hv
  have hlk : LK (BCur.segOf segs 0).start st.kids st.nextId st.bottoms := hI.lk
  have hst : ({ st with rd := st.rd } : St) = st := rfl
  show ClosePost lo0 (BCur.segOf segs 0).start src segs c (parseLink env st)
  unfold parseLink
  simp only [hpl, hv, bind, Except.bind, Option.getD_some, pure, Except.pure]
  split
  · rename_i h33
    simp only [beq_iff_eq] at h33; subst h33
    split
    · rename_i _ tl
      obtain ⟨r1, c1, g1, g2, g3, g4, g5⟩ := advance_in_view F Z hI.rs hv (n := 1) (by simp)
      have g1' : BlockReader.advance 1 st.rd = .ok r1 := by exact_mod_cast g1
      simp only [g1']
      -- one byte forward inside the line
      obtain ⟨r1', a1, a2⟩ := advance_inline F Z hI.rs (n := 1) (by omega) (by simp only [List.length_cons] at v6; omega) (by simp only [List.length_cons] at v7; omega)
      rw [g1'] at a1; simp at a1; subst a1
      obtain ⟨vs1, vs2⟩ := view_shift F hI.rs.abs.wf hI.rs.pad hv (n := 1) (by simp)
      simp only [List.drop_succ_cons, List.drop_zero] at vs1
      have e1 : ((1 : Nat) : Int) = 1 := rfl
      rw [e1] at vs1 vs2
      have hrem1 : BCur.remaining segs { c with p := c.p + 1 } ≤ BCur.remaining segs c := by
        have e : c1 = { c with p := c.p + 1 } := by
          have h1 := g2.abs.line; have h2 := g2.abs.pos; have h3 := a2.abs.line; have h4 := a2.abs.pos
          cases c1; simp only [BCur.mk.injEq]
          rw [h3] at h1; rw [h4] at h2
          simp at h2
          exact ⟨h1.symm, h2.1.symm, h2.2.2.symm⟩
        rw [← e, g5]; omega
      have := labelOpen_post F Z (st := st) (c0 := c) (c := { c with p := c.p + 1 }) hlk hI.ch a2 vs1 true (by simp)
        (Int.le_refl _) hrem1 hI.rs.abs.wf
      rw [hpos]
      exact this
    · exact ⟨none, st, c, rfl, hI.rs, Int.le_refl _, Int.le_refl _, hI.ch, hlk⟩
  · split
    · rename_i h91
      simp only [beq_iff_eq] at h91; subst h91
      have := labelOpen_post F Z (st := st) (c0 := c) (c := c) hlk hI.ch hI.rs hv false (by simp) (Int.le_refl _)
        (Int.le_refl _) hI.rs.abs.wf
      rw [hpos]
      exact this
    · rename_i h33 h91
      have h93 : b = 93 := by
        simp only [trigOf, Bool.or_eq_true, beq_iff_eq] at ht
        simp only [beq_iff_eq] at h33 h91
        rcases ht with (h | h) | h
        · exact absurd h h33
        · exact absurd h h91
        · exact h
      subst h93
      exact parseLinkClose_post W Z env hI hv

/-! ### the whole inline phase, every source -/

theorem LK_base (lo : Int) : LK lo [] 0 [] where
  pos := posL_nil
  dseg := allQ_nil
  sorted := by simp [dids]
  lt := by simp [dids]
  nest := by simp
  lablo := by simp
  stack := rfl

theorem all_contracts (W : WFSegs src segs) (Z : ∀ s ∈ segs, s.padding = 0) (env : Env) :
    ∀ ip, PContract lo0 (linkCtx (BCur.segOf segs 0).start) src segs (trigOf ip) (ip.parse env) := by
  intro ip
  cases ip with
  | codeSpan => exact codeSpan_contract _ W Z env
  | link => exact link_contract W Z env
  | autoLink => exact autoLink_contract _ W Z env
  | rawHTML => exact rawHTML_contract _ W Z env
  | emphasis => exact emphasis_contract _ W Z env

mutual
theorem segsOf_closeLabels : ∀ (n : Node), segsOf (closeLabels n) = segsOf n
  | .text .. => rfl
  | .codeSpan ks => by simp only [closeLabels, segsOf]; exact segsOfL_closeLabelsL ks
  | .emphasis _ ks => by simp only [closeLabels, segsOf]; exact segsOfL_closeLabelsL ks
  | .link _ _ _ ks => by simp only [closeLabels, segsOf]; exact segsOfL_closeLabelsL ks
  | .autoLink .. => rfl
  | .rawHTML .. => rfl
  | .delim .. => rfl
  | .label .. => by simp [closeLabels, segsOf, textOf]
theorem segsOfL_closeLabelsL : ∀ (l : List Node), segsOfL (closeLabelsL l) = segsOfL l
  | [] => rfl
  | n :: rest => by simp only [closeLabelsL, segsOfL]; rw [segsOf_closeLabels n, segsOfL_closeLabelsL rest]
end

/-- C05(c) for inline content WITH the lower bound: the segments of the tree `parseBlock` returns, in tree order, start
    at or behind the start of the block's first line, end at or before the end of its last line, none is inverted, each
    starts at or behind the end of the one before -/
theorem parseBlock_segments_lo (W : WFSegs src segs) (Z : ∀ s ∈ segs, s.padding = 0) (env : Env) {kids : List Node}
    (h : parseBlock env src segs = .ok kids) :
    chain (BCur.segOf segs 0).start (BCur.lastStop segs) (segsOfL kids) := by
  have F := segFacts W
  obtain ⟨r0, e0, a0⟩ := blockReader_init F
  have hz0 : (BCur.init segs).pad = 0 := segOf_pad F Z 0 (Int.le_refl _) F.kpos
  have hlo : 0 ≤ (BCur.segOf segs 0).start := (F.rng 0 (Int.le_refl _) F.kpos).1
  have hI : LInv (BCur.segOf segs 0).start (linkCtx (BCur.segOf segs 0).start) src segs { rd := r0 } (BCur.init segs) :=
    ⟨⟨a0, hz0⟩, by simp only [segsOfL, chain, BCur.init]; exact Int.le_refl _, LK_base _⟩
  obtain ⟨st', c', l1, l2⟩ := lineLoop_total _ F Z env (all_contracts W Z env) hlo (blockFuel src segs) false _ _ hI
    (blockFuel_gt W Z a0.wf hz0)
  have hlk : LK (BCur.segOf segs 0).start st'.kids st'.nextId st'.bottoms := l2.lk
  obtain ⟨res, p1, _⟩ := processDelimiters_ok .nil st'.kids hlk.pos
  unfold parseBlock at h
  simp only [e0, l1, p1, bind, Except.bind, pure, Except.pure, Except.ok.injEq] at h
  subst h
  rw [segsOfL_closeLabelsL]
  have hr := bpos_wf F l2.rs.abs
  rw [(peekLine_facts F l2.rs).2] at hr
  have hle : BCur.stopOf segs c' ≤ BCur.lastStop segs := by
    unfold BCur.stopOf
    split
    · rename_i hl
      rw [F.last]
      by_cases e : c'.ln = BCur.k segs - 1
      · rw [e]; exact Int.le_refl _
      · have h1 := F.mono c'.ln (BCur.k segs - 1) l2.rs.abs.wf.ln0 (by omega) (by omega)
        have h2 := F.rng (BCur.k segs - 1) (by have := F.kpos; omega) (by omega)
        omega
    · exact Int.le_refl _
  have hch : chain (BCur.segOf segs 0).start (BCur.lastStop segs) (segsOfL st'.kids) :=
    chain_mono (Int.le_refl _) (by have := hr.2.1; simp only at *; omega) l2.ch
  exact processDelimiters_chain p1 hlk.pos hlk.dseg hch

end GM.Proof.InlinesLoLink
