/-
  GM.Proof.Attribute — lemmas about GM.Model.Attribute: reader arithmetic, where a successful parse leaves the
  reader, totality (no panic, fuel suffices), lexical validity of names, SetAttribute keeps names distinct.
-/
import GM.Model.Attribute
import GM.Spec.RenderInv
import GM.Proof.LineRec

namespace GM.Proof.Attribute
open GM GM.Attr GM.Text

/-! ### reader arithmetic -/

theorem adv_ge (src : Bytes) (p n : Nat) (hp : p ≤ src.length) : p ≤ adv src p n := by
  unfold adv; split <;> omega

theorem adv_le (src : Bytes) (p n : Nat) (_hp : p ≤ src.length) : adv src p n ≤ src.length := by
  unfold adv; split <;> omega

theorem adv_one (src : Bytes) (p : Nat) (hp : p < src.length) : adv src p 1 = p + 1 := by
  unfold adv; split <;> omega

theorem adv_eq (src : Bytes) (p n : Nat) (h : p + n ≤ src.length) : adv src p n = p + n := by
  unfold adv; simp [h]

theorem takeWhile_length_le {α} (q : α → Bool) (l : List α) : (l.takeWhile q).length ≤ l.length := by
  induction l with
  | nil => simp
  | cons a l ih => simp only [List.takeWhile]; split <;> simp <;> omega

theorem skipWs_ge (src : Bytes) (p : Nat) : p ≤ skipWs src p := by unfold skipWs; omega

theorem skipWs_le (src : Bytes) (p : Nat) (hp : p ≤ src.length) : skipWs src p ≤ src.length := by
  unfold skipWs
  have := takeWhile_length_le isSpace (src.drop p)
  simp at this
  omega

theorem peekAt_lt (src : Bytes) (p : Nat) (h : peekAt src p ≠ 255) : p < src.length := by
  unfold peekAt at h
  rcases Nat.lt_or_ge p src.length with h' | h'
  · exact h'
  · simp [List.getElem?_eq_none h'] at h

theorem peekAt_eq (src : Bytes) (p : Nat) (hp : p < src.length) : src[p]? = some (peekAt src p) := by
  unfold peekAt
  simp [List.getElem?_eq_getElem hp]

theorem lineLen_le (l : Bytes) : lineLen l ≤ l.length := by
  induction l with
  | nil => simp [lineLen]
  | cons c cs ih => simp only [lineLen]; split <;> simp <;> omega

theorem lineLen_pos (l : Bytes) (h : l ≠ []) : 0 < lineLen l := by
  cases l with
  | nil => exact absurd rfl h
  | cons c cs => simp only [lineLen]; split <;> omega

theorem restLine_length_le (src : Bytes) (p : Nat) : (restLine src p).length ≤ src.length - p := by
  unfold restLine
  have := lineLen_le (src.drop p)
  simp at this ⊢
  omega

theorem restLine_ne_nil (src : Bytes) (p : Nat) (hp : p < src.length) : restLine src p ≠ [] := by
  unfold restLine
  have h1 : src.drop p ≠ [] := by
    intro h
    have := congrArg List.length h
    simp at this
    omega
  have h2 := lineLen_pos _ h1
  intro h
  have := congrArg List.length h
  simp at this
  omega

/-- a prefix of the rest of the line taken by a predicate fits into the source -/
theorem takeWhile_restLine_le (src : Bytes) (p : Nat) (q : UInt8 → Bool) (hp : p ≤ src.length) :
    p + ((restLine src p).takeWhile q).length ≤ src.length := by
  have h1 := takeWhile_length_le q (restLine src p)
  have h2 := restLine_length_le src p
  omega

theorem digitsAt_le (src : Bytes) (p : Nat) (hp : p ≤ src.length) : p + (digitsAt src p).length ≤ src.length := by
  unfold digitsAt
  have := takeWhile_length_le isNumeric (src.drop p)
  simp at this
  omega


/-! ### where a successful parse leaves the reader -/

/-- a successful result consumed at least one byte and stays inside the source -/
def Adv (src : Bytes) (p : Nat) {α : Type} (r : Res α) : Prop :=
  ∀ v p', r = .ok v p' → p < p' ∧ p' ≤ src.length

theorem digitsAt_pos (src : Bytes) (p : Nat) (h : isNumeric (peekAt src p) = true) : 1 ≤ (digitsAt src p).length := by
  have hp : p < src.length := peekAt_lt src p (by intro h'; rw [h'] at h; exact absurd h (by decide))
  have e := peekAt_eq src p hp
  unfold digitsAt
  rw [List.drop_eq_getElem_cons hp]
  have : src[p] = peekAt src p := by
    rw [List.getElem?_eq_getElem hp] at e; exact Option.some.inj e
  rw [this, List.takeWhile_cons, h]
  simp

theorem signEnd_b (src : Bytes) (p : Nat) (hp : p ≤ src.length) : p ≤ signEnd src p ∧ signEnd src p ≤ src.length := by
  unfold signEnd
  split
  · exact ⟨adv_ge src p 1 hp, adv_le src p 1 hp⟩
  · exact ⟨Nat.le_refl _, hp⟩

theorem intEnd_b (src : Bytes) (p : Nat) (hp : p ≤ src.length) : p ≤ intEnd src p ∧ intEnd src p ≤ src.length :=
  ⟨adv_ge src p _ hp, adv_le src p _ hp⟩

theorem intEnd_pos (src : Bytes) (p : Nat) (hp : p ≤ src.length) (h : isNumeric (peekAt src p) = true) :
    p < intEnd src p := by
  unfold intEnd
  rw [adv_eq src p _ (digitsAt_le src p hp)]
  have := digitsAt_pos src p h
  omega

theorem fracEnd_b (src : Bytes) (p : Nat) (hp : p ≤ src.length) : p ≤ fracEnd src p ∧ fracEnd src p ≤ src.length := by
  unfold fracEnd
  split
  · have h1 := adv_ge src p 1 hp
    have h2 := adv_le src p 1 hp
    have h3 := intEnd_b src (adv src p 1) h2
    omega
  · exact ⟨Nat.le_refl _, hp⟩

theorem expEnd_b (src : Bytes) (p : Nat) (hp : p ≤ src.length) : p ≤ expEnd src p ∧ expEnd src p ≤ src.length := by
  unfold expEnd
  split
  · have h1 := adv_ge src p 1 hp
    have h2 := adv_le src p 1 hp
    have h3 := signEnd_b src (adv src p 1) h2
    have h4 := intEnd_b src (signEnd src (adv src p 1)) h3.2
    omega
  · exact ⟨Nat.le_refl _, hp⟩

theorem pNumber_adv (src : Bytes) (p : Nat) (hp : p ≤ src.length) : Adv src p (pNumber src p) := by
  intro v p' h
  unfold pNumber at h
  simp only [] at h
  split at h
  · cases h
  · rename_i hn
    simp only [Bool.not_eq_true, Bool.not_eq_false'] at hn
    have h0 := signEnd_b src p hp
    have h1 := intEnd_b src _ h0.2
    have h1' := intEnd_pos src _ h0.2 (by simpa using hn)
    have h2 := fracEnd_b src _ h1.2
    have h3 := expEnd_b src _ h2.2
    split at h
    · cases h
      omega
    · cases h

theorem pString_adv (src : Bytes) (p : Nat) (hp : p < src.length) : Adv src p (pString src p) := by
  intro v p' h
  unfold pString at h
  simp only [] at h
  split at h
  · cases h
    have h1 := adv_one src p hp
    have h2 := adv_ge src (adv src p 1) (‹Nat› + 1) (by omega)
    have h3 := adv_le src (adv src p 1) (‹Nat› + 1) (by omega)
    omega
  · cases h

theorem nameStart_nameChar (c : UInt8) (h : isNameStart c = true) : isNameChar c = true := by
  revert h
  exact forall_uint8 (fun c => isNameStart c = true → isNameChar c = true) (by decide +kernel) c

theorem pOthers_adv (src : Bytes) (p : Nat) (hp : p ≤ src.length) : Adv src p (pOthers src p) := by
  intro v p' h
  unfold pOthers at h
  split at h
  · cases h
  · rename_i c rest hl
    split at h
    · cases h
    · rename_i hs
      simp only [Bool.not_eq_true, Bool.not_eq_false'] at hs
      have hs' : isNameStart c = true := by simpa using hs
      have hc := nameStart_nameChar c hs'
      have hlen : 1 ≤ ((c :: rest).takeWhile isNameChar).length := by
        rw [List.takeWhile_cons, hc]; simp
      have hfit := takeWhile_restLine_le src p isNameChar hp
      rw [hl] at hfit
      have he := adv_eq src p _ hfit
      simp only [] at h
      have : p' = adv src p ((c :: rest).takeWhile isNameChar).length := by
        split at h
        · cases h; rfl
        · split at h
          · cases h; rfl
          · split at h
            · cases h; rfl
            · cases h; rfl
      omega
/-- success of ParseAttributes / its loop: progress, inside the source, the last byte consumed is `}` -/
def AdvBrace (src : Bytes) (p : Nat) (r : Res (List PAttr)) : Prop :=
  ∀ v p', r = .ok v p' → p < p' ∧ p' ≤ src.length ∧ src[p' - 1]? = some 125

structure PosAll (src : Bytes) (f : Nat) : Prop where
  attrs : ∀ p, p ≤ src.length → AdvBrace src p (pAttributes src f p)
  loop : ∀ p acc, p ≤ src.length → AdvBrace src p (pAttrsLoop src f p acc)
  attr : ∀ p, p ≤ src.length → Adv src p (pAttribute src f p)
  value : ∀ p, p ≤ src.length → Adv src p (pValue src f p)
  arr : ∀ p first acc, p ≤ src.length → Adv src p (pArrayLoop src f p first acc)

theorem peek_eq_lt (src : Bytes) (p : Nat) (c : UInt8) (hc : c ≠ 255) (h : peekAt src p = c) : p < src.length :=
  peekAt_lt src p (by rw [h]; exact hc)

/-- the position after an optional comma (attribute.go:79-83) -/
theorem comma_b (src : Bytes) (p : Nat) (hp : p ≤ src.length) :
    p ≤ (if peekAt src (skipWs src p) == 44 then skipWs src (adv src (skipWs src p) 1) else skipWs src p) ∧
    (if peekAt src (skipWs src p) == 44 then skipWs src (adv src (skipWs src p) 1) else skipWs src p) ≤ src.length := by
  have h1 := skipWs_ge src p
  have h2 := skipWs_le src p hp
  split
  · have h3 := adv_ge src (skipWs src p) 1 h2
    have h4 := adv_le src (skipWs src p) 1 h2
    have h5 := skipWs_ge src (adv src (skipWs src p) 1)
    have h6 := skipWs_le src _ h4
    omega
  · omega

theorem posAll (src : Bytes) : ∀ f, PosAll src f := by
  intro f
  induction f with
  | zero =>
    refine ⟨?_, ?_, ?_, ?_, ?_⟩ <;> intros <;> intro v p' h <;> simp [pAttributes, pAttrsLoop, pAttribute, pValue, pArrayLoop] at h
  | succ f ih =>
    refine ⟨?_, ?_, ?_, ?_, ?_⟩
    · -- pAttributes
      intro p hp v p' h
      simp only [pAttributes] at h
      split at h
      · cases h
      · rename_i hb
        have hb' : peekAt src (skipWs src p) = 123 := by simpa using hb
        have h1 := skipWs_ge src p
        have h2 := skipWs_le src p hp
        have h3 := peek_eq_lt src _ 123 (by decide) hb'
        have h4 := adv_one src _ h3
        obtain ⟨a, b, c⟩ := ih.loop _ _ (by omega) v p' h
        exact ⟨by omega, b, c⟩
    · -- the loop
      intro p acc hp v p' h
      simp only [pAttrsLoop] at h
      split at h
      · rename_i hb
        have hb' : peekAt src p = 125 := by simpa using hb
        have h3 := peek_eq_lt src _ 125 (by decide) hb'
        have h4 := adv_one src _ h3
        cases h
        refine ⟨by omega, by omega, ?_⟩
        rw [h4, Nat.add_sub_cancel, peekAt_eq src p h3, hb']
      · split at h
        · rename_i a p1 heq
          split at h
          · cases h
          · have h1 := ih.attr p hp a p1 heq
            have h2 := comma_b src p1 h1.2
            obtain ⟨a, b, c⟩ := ih.loop _ _ h2.2 v p' h
            exact ⟨by omega, b, c⟩
        · cases h
        · cases h
        · cases h
    · -- pAttribute
      intro p0 hp0 v p' h
      simp only [pAttribute] at h
      have h1 := skipWs_ge src p0
      have h2 := skipWs_le src p0 hp0
      split at h
      · rename_i hc
        have h3 : skipWs src p0 < src.length := by
          apply peekAt_lt
          intro h'
          rw [h'] at hc
          exact absurd hc (by decide)
        have h4 := adv_one src _ h3
        cases h
        have h5 := takeWhile_restLine_le src (adv src (skipWs src p0) 1) isIdChar (by omega)
        rw [adv_eq src _ _ h5]
        omega
      · split at h
        · cases h
        · rename_i c0 rest hl
          split at h
          · cases h
          · rename_i hs
            have hs' : isNameStart c0 = true := by simpa using hs
            have hc := nameStart_nameChar c0 hs'
            have hlen : 1 ≤ ((c0 :: rest).takeWhile isNameChar).length := by
              rw [List.takeWhile_cons, hc]; simp
            have hfit := takeWhile_restLine_le src (skipWs src p0) isNameChar h2
            rw [hl] at hfit
            have he := adv_eq src _ _ hfit
            split at h
            · cases h
            · have h5 := skipWs_ge src (adv src (skipWs src p0) ((c0 :: rest).takeWhile isNameChar).length)
              have h6 := skipWs_le src (adv src (skipWs src p0) ((c0 :: rest).takeWhile isNameChar).length) (by omega)
              have h7 := adv_ge src _ 1 h6
              have h8 := adv_le src _ 1 h6
              have h9 := skipWs_ge src (adv src (skipWs src (adv src (skipWs src p0) ((c0 :: rest).takeWhile isNameChar).length)) 1)
              have h10 := skipWs_le src _ h8
              split at h
              · rename_i v' p3 heq
                have := ih.value _ h10 v' p3 heq
                split at h
                · cases h
                · cases h; omega
              · cases h
              · cases h
              · cases h
    · -- pValue
      intro p0 hp0 v p' h
      simp only [pValue] at h
      have h1 := skipWs_ge src p0
      have h2 := skipWs_le src p0 hp0
      split at h
      · cases h
      · rename_i hne
        have h3 : skipWs src p0 < src.length := peekAt_lt src _ (by simpa using hne)
        split at h
        · split at h
          · rename_i as p3 heq
            have := ih.attrs _ h2 as p3 heq
            cases h; omega
          · cases h
          · cases h
          · cases h
        · split at h
          · split at h
            · rename_i vs p3 heq
              have h4 := adv_one src _ h3
              have := ih.arr _ _ _ (by omega) vs p3 heq
              cases h; omega
            · cases h
            · cases h
            · cases h
          · split at h
            · have := pString_adv src _ h3 v p' h; omega
            · split at h
              · have := pNumber_adv src _ h2 v p' h; omega
              · have := pOthers_adv src _ h2 v p' h; omega
    · -- the array loop
      intro p first acc hp v p' h
      simp only [pArrayLoop] at h
      split at h
      · rename_i hb
        have hb' : peekAt src p = 93 := by simpa using hb
        have h3 := peek_eq_lt src _ 93 (by decide) hb'
        split at h
        · rename_i hcm
          have : (!first && peekAt src p == 44) = false := by
            cases hx : (!first && peekAt src p == 44)
            · rfl
            · rw [hx] at hcm; simp at hcm
          simp only [this] at h
          cases h
          have h4 := adv_one src _ h3
          simp only [Bool.false_eq_true, if_false]
          omega
        · cases h
      · have hp1 : p ≤ (if (!first && peekAt src p == 44) = true then adv src p 1 else p) ∧
            (if (!first && peekAt src p == 44) = true then adv src p 1 else p) ≤ src.length := by
          split
          · exact ⟨adv_ge src p 1 hp, adv_le src p 1 hp⟩
          · exact ⟨Nat.le_refl _, hp⟩
        have h5 := skipWs_ge src (if (!first && peekAt src p == 44) = true then adv src p 1 else p)
        have h6 := skipWs_le src _ hp1.2
        split at h
        · rename_i v' p2 heq
          have h7 := ih.value _ h6 v' p2 heq
          have h8 := skipWs_ge src p2
          have h9 := skipWs_le src p2 h7.2
          have := ih.arr _ _ _ h9 v p' h
          omega
        · cases h
        · cases h
        · cases h

/-! ### totality: no panic, the fuel suffices -/

/-- neither a panic nor fuel exhaustion -/
def Good {α : Type} (r : Res α) : Prop := (∃ v p, r = .ok v p) ∨ r = .fail

/-- what parseAttribute guarantees and the class merge relies on: a `class` attribute holds bytes -/
def classOK (a : PAttr) : Prop := a.1 = nameClass → a.2.isBytes = true
def ClassOK (acc : List PAttr) : Prop := ∀ a ∈ acc, classOK a

theorem mergeClass_ok (acc : List PAttr) (a : PAttr) (hacc : ClassOK acc) (ha : a.1 = nameClass) (hb : a.2.isBytes = true) :
    ∃ acc', mergeClass acc a = .ok acc' ∧ ClassOK acc' := by
  induction acc with
  | nil => exact ⟨[a], rfl, by intro x hx; simp at hx; subst hx; exact fun _ => hb⟩
  | cons x rest ih =>
    obtain ⟨n, v⟩ := x
    simp only [mergeClass]
    have hx := hacc (n, v) (by simp)
    have hrest : ClassOK rest := fun y hy => hacc y (by simp [hy])
    split
    · rename_i hn
      have hn' : n = nameClass := by simpa using hn
      have hv := hx hn'
      cases v <;> simp [Val.isBytes] at hv
      cases hav : a.2 <;> rw [hav] at hb <;> simp [Val.isBytes] at hb
      refine ⟨_, rfl, ?_⟩
      intro y hy
      simp at hy
      rcases hy with rfl | hy
      · exact fun _ => rfl
      · exact hrest y hy
    · obtain ⟨acc', e, h'⟩ := ih hrest
      rw [e]
      refine ⟨(n, v) :: acc', rfl, ?_⟩
      intro y hy
      simp at hy
      rcases hy with rfl | hy
      · exact hx
      · exact h' y hy

theorem addAttr_ok (acc : List PAttr) (a : PAttr) (hacc : ClassOK acc) (ha : classOK a) :
    ∃ acc', addAttr acc a = .ok acc' ∧ ClassOK acc' := by
  unfold addAttr
  split
  · rename_i hn
    have hn' : a.1 = nameClass := by simpa using hn
    exact mergeClass_ok acc a hacc hn' (ha hn')
  · refine ⟨_, rfl, ?_⟩
    intro y hy
    simp at hy
    rcases hy with hy | rfl
    · exact hacc y hy
    · exact ha

theorem pAttribute_classOK (src : Bytes) (f p : Nat) (a : PAttr) (p' : Nat) (h : pAttribute src f p = .ok a p') :
    classOK a := by
  cases f with
  | zero => simp [pAttribute] at h
  | succ f =>
    simp only [pAttribute] at h
    split at h
    · cases h
      intro _; rfl
    · split at h
      · cases h
      · split at h
        · cases h
        · split at h
          · cases h
          · split at h
            · split at h
              · cases h
              · rename_i hc
                cases h
                intro hn
                simp only [] at hn
                simp only [hn, beq_self_eq_true, Bool.true_and, Bool.not_eq_true', Bool.not_eq_false] at hc
                simpa using hc
            · cases h
            · cases h
            · cases h

theorem pString_good (src : Bytes) (p : Nat) : Good (pString src p) := by
  unfold pString
  simp only []
  split
  · exact .inl ⟨_, _, rfl⟩
  · exact .inr rfl

theorem pNumber_good (src : Bytes) (p : Nat) : Good (pNumber src p) := by
  unfold pNumber
  simp only []
  split
  · exact .inr rfl
  · split
    · exact .inl ⟨_, _, rfl⟩
    · exact .inr rfl

theorem pOthers_good (src : Bytes) (p : Nat) (hp : p < src.length) : Good (pOthers src p) := by
  unfold pOthers
  split
  · rename_i hl
    exact absurd hl (restLine_ne_nil src p hp)
  · split
    · exact .inr rfl
    · simp only []
      split
      · exact .inl ⟨_, _, rfl⟩
      · split
        · exact .inl ⟨_, _, rfl⟩
        · split
          · exact .inl ⟨_, _, rfl⟩
          · exact .inl ⟨_, _, rfl⟩

structure TotAll (src : Bytes) (f : Nat) : Prop where
  attrs : ∀ p, p ≤ src.length → 5 * (src.length - p) + 3 ≤ f → Good (pAttributes src f p)
  loop : ∀ p acc, p ≤ src.length → ClassOK acc → 5 * (src.length - p) + 2 ≤ f → Good (pAttrsLoop src f p acc)
  attr : ∀ p, p ≤ src.length → 5 * (src.length - p) + 1 ≤ f → Good (pAttribute src f p)
  value : ∀ p, p ≤ src.length → 5 * (src.length - p) + 4 ≤ f → Good (pValue src f p)
  arr : ∀ p first acc, p ≤ src.length → 5 * (src.length - p) + 5 ≤ f → Good (pArrayLoop src f p first acc)

theorem totAll (src : Bytes) : ∀ f, TotAll src f := by
  intro f
  induction f with
  | zero => refine ⟨?_, ?_, ?_, ?_, ?_⟩ <;> intros <;> omega
  | succ f ih =>
    have pos := posAll src f
    refine ⟨?_, ?_, ?_, ?_, ?_⟩
    · intro p hp hf
      simp only [pAttributes]
      split
      · exact .inr rfl
      · rename_i hb
        have hb' : peekAt src (skipWs src p) = 123 := by simpa using hb
        have h1 := skipWs_ge src p
        have h2 := skipWs_le src p hp
        have h3 := peek_eq_lt src _ 123 (by decide) hb'
        have h4 := adv_one src _ h3
        exact ih.loop _ [] (by omega) (by intro a ha; simp at ha) (by omega)
    · intro p acc hp hacc hf
      simp only [pAttrsLoop]
      split
      · exact .inl ⟨_, _, rfl⟩
      · have hg := ih.attr p hp (by omega)
        rcases hg with ⟨a, p1, heq⟩ | heq
        · rw [heq]
          simp only []
          obtain ⟨acc', e, hacc'⟩ := addAttr_ok acc a hacc (pAttribute_classOK src f p a p1 heq)
          rw [e]
          simp only []
          have h1 := pos.attr p hp a p1 heq
          have h2 := comma_b src p1 h1.2
          exact ih.loop _ acc' h2.2 hacc' (by omega)
        · rw [heq]; exact .inr rfl
    · -- pAttribute
      intro p0 hp0 hf
      simp only [pAttribute]
      have h1 := skipWs_ge src p0
      have h2 := skipWs_le src p0 hp0
      split
      · exact .inl ⟨_, _, rfl⟩
      · split
        · exact .inr rfl
        · rename_i c0 rest hl
          split
          · exact .inr rfl
          · rename_i hs
            have hs' : isNameStart c0 = true := by simpa using hs
            have hc := nameStart_nameChar c0 hs'
            have hlen : 1 ≤ ((c0 :: rest).takeWhile isNameChar).length := by
              rw [List.takeWhile_cons, hc]; simp
            have hfit := takeWhile_restLine_le src (skipWs src p0) isNameChar h2
            rw [hl] at hfit
            have he := adv_eq src _ _ hfit
            split
            · exact .inr rfl
            · have h5 := skipWs_ge src (adv src (skipWs src p0) ((c0 :: rest).takeWhile isNameChar).length)
              have h6 := skipWs_le src (adv src (skipWs src p0) ((c0 :: rest).takeWhile isNameChar).length) (by omega)
              have h7 := adv_ge src _ 1 h6
              have h8 := adv_le src _ 1 h6
              have h9 := skipWs_ge src (adv src (skipWs src (adv src (skipWs src p0) ((c0 :: rest).takeWhile isNameChar).length)) 1)
              have h10 := skipWs_le src _ h8
              have hg := ih.value _ h10 (by omega)
              rcases hg with ⟨v, p3, heq⟩ | heq
              · rw [heq]
                simp only []
                split
                · exact .inr rfl
                · exact .inl ⟨_, _, rfl⟩
              · rw [heq]; exact .inr rfl
    · -- pValue
      intro p0 hp0 hf
      simp only [pValue]
      have h1 := skipWs_ge src p0
      have h2 := skipWs_le src p0 hp0
      split
      · exact .inr rfl
      · rename_i hne
        have h3 : skipWs src p0 < src.length := peekAt_lt src _ (by simpa using hne)
        split
        · have hg := ih.attrs _ h2 (by omega)
          rcases hg with ⟨v, p3, heq⟩ | heq
          · rw [heq]; exact .inl ⟨_, _, rfl⟩
          · rw [heq]; exact .inr rfl
        · split
          · have h4 := adv_one src _ h3
            have hg := ih.arr (adv src (skipWs src p0) 1) true [] (by omega) (by omega)
            rcases hg with ⟨v, p3, heq⟩ | heq
            · rw [heq]; exact .inl ⟨_, _, rfl⟩
            · rw [heq]; exact .inr rfl
          · split
            · exact pString_good src _
            · split
              · exact pNumber_good src _
              · exact pOthers_good src _ h3
    · -- the array loop
      intro p first acc hp hf
      simp only [pArrayLoop]
      split
      · split
        · exact .inl ⟨_, _, rfl⟩
        · exact .inr rfl
      · have hp1 : p ≤ (if (!first && peekAt src p == 44) = true then adv src p 1 else p) ∧
            (if (!first && peekAt src p == 44) = true then adv src p 1 else p) ≤ src.length := by
          split
          · exact ⟨adv_ge src p 1 hp, adv_le src p 1 hp⟩
          · exact ⟨Nat.le_refl _, hp⟩
        have h5 := skipWs_ge src (if (!first && peekAt src p == 44) = true then adv src p 1 else p)
        have h6 := skipWs_le src _ hp1.2
        have hg := ih.value _ h6 (by omega)
        rcases hg with ⟨v, p2, heq⟩ | heq
        · rw [heq]
          simp only []
          have h7 := pos.value _ h6 v p2 heq
          have h8 := skipWs_ge src p2
          have h9 := skipWs_le src p2 h7.2
          exact ih.arr _ _ _ h9 (by omega)
        · rw [heq]; exact .inr rfl

/-- ParseAttributes never panics and never runs out of the fuel it is given -/
theorem parseAttributes_good (src : Bytes) (p : Nat) (hp : p ≤ src.length) : Good (parseAttributes src p) :=
  (totAll src _).attrs p hp (by unfold fuelFor; omega)

theorem parseAttributes_pos (src : Bytes) (p : Nat) (hp : p ≤ src.length) : AdvBrace src p (parseAttributes src p) :=
  (posAll src _).attrs p hp

/-! ### names are lexically valid -/

def NamesOK (l : List PAttr) : Prop := ∀ a ∈ l, Spec.attrNameOK a.1 = true

theorem nameStart_attrStart (c : UInt8) (h : isNameStart c = true) : Spec.isAttrStartB c = true := by
  revert h
  exact forall_uint8 (fun c => isNameStart c = true → Spec.isAttrStartB c = true) (by decide +kernel) c

theorem nameChar_attrName (c : UInt8) (h : isNameChar c = true) : Spec.isAttrNameB c = true := by
  revert h
  exact forall_uint8 (fun c => isNameChar c = true → Spec.isAttrNameB c = true) (by decide +kernel) c

theorem takeWhile_all (q : UInt8 → Bool) (l : Bytes) : (l.takeWhile q).all q = true := by
  induction l with
  | nil => simp
  | cons a l ih =>
    simp only [List.takeWhile]
    split
    · rename_i h; simp [List.all_cons, h, ih]
    · simp

theorem all_imp (q r : UInt8 → Bool) (l : Bytes) (h : ∀ c, q c = true → r c = true) (hl : l.all q = true) :
    l.all r = true := by
  simp only [List.all_eq_true] at hl ⊢
  exact fun c hc => h c (hl c hc)

/-- the name scanned by parseAttribute (attribute.go:106-121) is an attribute name in the sense of Spec.Inv -/
theorem scanned_name_ok (c0 : UInt8) (rest : Bytes) (hs : isNameStart c0 = true) :
    Spec.attrNameOK ((c0 :: rest).takeWhile isNameChar) = true := by
  rw [List.takeWhile_cons, nameStart_nameChar c0 hs]
  simp only [Spec.attrNameOK, if_true, Bool.and_eq_true]
  exact ⟨nameStart_attrStart c0 hs, all_imp _ _ _ nameChar_attrName (takeWhile_all _ _)⟩

theorem pAttribute_name_ok (src : Bytes) (f p : Nat) (a : PAttr) (p' : Nat) (h : pAttribute src f p = .ok a p') :
    Spec.attrNameOK a.1 = true := by
  cases f with
  | zero => simp [pAttribute] at h
  | succ f =>
    simp only [pAttribute] at h
    split at h
    · cases h
      simp only []
      split <;> decide
    · split at h
      · cases h
      · split at h
        · cases h
        · rename_i c0 rest _ hs
          have hs' : isNameStart c0 = true := by simpa using hs
          split at h
          · cases h
          · split at h
            · split at h
              · cases h
              · cases h
                exact scanned_name_ok c0 rest hs'
            · cases h
            · cases h
            · cases h

theorem mergeClass_names (acc : List PAttr) (a : PAttr) (acc' : List PAttr) (h : mergeClass acc a = .ok acc')
    (hacc : NamesOK acc) (ha : Spec.attrNameOK a.1 = true) : NamesOK acc' := by
  induction acc generalizing acc' with
  | nil =>
    simp only [mergeClass] at h
    cases h
    intro x hx; simp at hx; subst hx; exact ha
  | cons x rest ih =>
    obtain ⟨n, v⟩ := x
    simp only [mergeClass] at h
    have hx := hacc (n, v) (by simp)
    have hrest : NamesOK rest := fun y hy => hacc y (by simp [hy])
    split at h
    · split at h
      · cases h
        intro y hy
        simp at hy
        rcases hy with rfl | hy
        · exact hx
        · exact hrest y hy
      · cases h
    · cases hm : mergeClass rest a with
      | error e => rw [hm] at h; cases h
      | ok r =>
        rw [hm] at h
        cases h
        intro y hy
        simp at hy
        rcases hy with rfl | hy
        · exact hx
        · exact ih r hm hrest y hy

theorem addAttr_names (acc : List PAttr) (a : PAttr) (acc' : List PAttr) (h : addAttr acc a = .ok acc')
    (hacc : NamesOK acc) (ha : Spec.attrNameOK a.1 = true) : NamesOK acc' := by
  unfold addAttr at h
  split at h
  · exact mergeClass_names acc a acc' h hacc ha
  · cases h
    intro y hy
    simp at hy
    rcases hy with hy | rfl
    · exact hacc y hy
    · exact ha

theorem loop_names (src : Bytes) : ∀ f p acc v p', NamesOK acc → pAttrsLoop src f p acc = .ok v p' → NamesOK v := by
  intro f
  induction f with
  | zero => intro p acc v p' _ h; simp [pAttrsLoop] at h
  | succ f ih =>
    intro p acc v p' hacc h
    simp only [pAttrsLoop] at h
    split at h
    · cases h; exact hacc
    · split at h
      · rename_i a p1 heq
        split at h
        · cases h
        · rename_i acc' he
          exact ih _ _ _ _ (addAttr_names acc a acc' he hacc (pAttribute_name_ok src f p a p1 heq)) h
      · cases h
      · cases h
      · cases h

theorem parseAttributes_names (src : Bytes) (p : Nat) (v : List PAttr) (p' : Nat)
    (h : parseAttributes src p = .ok v p') : NamesOK v := by
  unfold parseAttributes at h
  generalize fuelFor src p = f at h
  cases f with
  | zero => simp [pAttributes] at h
  | succ f =>
    simp only [pAttributes] at h
    split at h
    · cases h
    · exact loop_names src f _ [] v p' (by intro a ha; simp at ha) h

/-! ### SetAttribute keeps the names of a node pairwise distinct -/

def names (l : List PAttr) : List Bytes := l.map (·.1)

theorem setAttribute_names (node : List PAttr) (a : PAttr) :
    names (setAttribute node a) = if a.1 ∈ names node then names node else names node ++ [a.1] := by
  induction node with
  | nil => simp [setAttribute, names]
  | cons x rest ih =>
    obtain ⟨n, v⟩ := x
    simp only [setAttribute]
    by_cases hn : n = a.1
    · simp [hn, names]
    · have hn' : (n == a.1) = false := by simpa using hn
      simp only [hn', Bool.false_eq_true, if_false]
      simp only [names, List.map_cons] at ih ⊢
      rw [ih]
      have : a.1 ≠ n := fun h => hn h.symm
      by_cases hm : a.1 ∈ List.map (fun x => x.1) rest
      · simp [hm]
      · simp [hm, this]

theorem setAttribute_nodup (node : List PAttr) (a : PAttr) (h : (names node).Nodup) :
    (names (setAttribute node a)).Nodup := by
  rw [setAttribute_names]
  split
  · exact h
  · rename_i hm
    rw [List.nodup_append]
    refine ⟨h, by simp, ?_⟩
    intro x hx y hy
    simp at hy
    subst hy
    intro e
    subst e
    exact hm hx

theorem setAttribute_namesOK (node : List PAttr) (a : PAttr) (h : NamesOK node) (ha : Spec.attrNameOK a.1 = true) :
    NamesOK (setAttribute node a) := by
  induction node with
  | nil => intro x hx; simp [setAttribute] at hx; subst hx; exact ha
  | cons y rest ih =>
    obtain ⟨n, v⟩ := y
    have hy := h (n, v) (by simp)
    have hrest : NamesOK rest := fun z hz => h z (by simp [hz])
    simp only [setAttribute]
    split
    · intro x hx
      simp at hx
      rcases hx with rfl | hx
      · exact ha
      · exact hrest x hx
    · intro x hx
      simp at hx
      rcases hx with rfl | hx
      · exact hy
      · exact ih hrest x hx

theorem setAll_nodup (node as : List PAttr) (h : (names node).Nodup) : (names (setAll node as)).Nodup := by
  unfold setAll
  induction as generalizing node with
  | nil => exact h
  | cons a as ih => exact ih _ (setAttribute_nodup node a h)

theorem setAll_namesOK (node as : List PAttr) (h : NamesOK node) (has : NamesOK as) : NamesOK (setAll node as) := by
  unfold setAll
  induction as generalizing node with
  | nil => exact h
  | cons a as ih =>
    exact ih _ (setAttribute_namesOK node a h (has a (by simp))) (fun x hx => has x (by simp [hx]))


/-! ### the heading glue -/

/-- the attribute clauses of `Spec.Inv` for a heading of the model -/
def HOK (h : Heading) : Prop := NamesOK h.attrList ∧ (names h.attrList).Nodup ∧ 1 ≤ h.level ∧ h.level ≤ 6

theorem eraseDups_of_nodup' (l : List Bytes) (h : l.Nodup) : l.eraseDups = l := by
  induction l with
  | nil => simp
  | cons a as ih =>
    rw [List.nodup_cons] at h
    rw [List.eraseDups_cons]
    have : as.filter (fun b => !b == a) = as := by
      rw [List.filter_eq_self]
      intro b hb
      have : b ≠ a := by rintro rfl; exact h.1 hb
      simp [this]
    rw [this, ih h.2]

/-- … which is literally `Spec.attrsInv` of the attributes as the renderer model sees them -/
theorem attrsInv_of_HOK (h : Heading) (hk : HOK h) :
    Spec.attrsInv (h.attrs.map (List.map toTreeAttr)) = true := by
  cases ha : h.attrs with
  | none => rfl
  | some as =>
    rw [HOK, Heading.attrList, ha] at hk
    simp only [Option.getD_some] at hk
    simp only [Option.map_some, Spec.attrsInv, Bool.and_eq_true, List.all_eq_true, beq_iff_eq]
    constructor
    · intro a ha'
      simp only [List.mem_map] at ha'
      obtain ⟨x, hx, rfl⟩ := ha'
      exact hk.1 x hx
    · have e : (List.map toTreeAttr as).map (·.name) = names as := by
        simp [names, toTreeAttr, List.map_map, Function.comp_def]
      rw [e, eraseDups_of_nodup' _ hk.2.1]
      simp [names]

theorem hok_none (lvl : Nat) (ls : List (Nat × Nat)) (hl : 1 ≤ lvl ∧ lvl ≤ 6) :
    HOK { level := lvl, lines := ls, attrs := none } :=
  ⟨by intro a ha; simp [Heading.attrList] at ha, by simp [Heading.attrList, names], hl.1, hl.2⟩

theorem hok_setAll (h : Heading) (as : List PAttr) (hk : HOK h) (has : NamesOK as) : HOK (h.setAll as) := by
  unfold Heading.setAll
  split
  · exact hk
  · exact ⟨setAll_namesOK _ _ hk.1 has, setAll_nodup _ _ hk.2.1, hk.2.2⟩

theorem hok_lines (h : Heading) (ls : List (Nat × Nat)) (hk : HOK h) : HOK { h with lines := ls } := hk

theorem lastScan_names (line : Bytes) : ∀ f p st st', NamesOK st.attrs → lastScan line f p st = .ok st' →
    NamesOK st'.attrs := by
  intro f
  induction f with
  | zero => intro p st st' _ h; simp [lastScan] at h
  | succ f ih =>
    intro p st st' hst h
    simp only [lastScan] at h
    split at h
    · cases h; exact hst
    · split at h
      · exact ih _ _ _ hst h
      · split at h
        · split at h
          · rename_i as p' heq
            exact ih _ _ _ (parseAttributes_names line p as p' heq) h
          · exact ih _ _ _ (by intro a ha; simp at ha) h
          · cases h
          · cases h
        · exact ih _ _ _ hst h

theorem lastScan_ok (line : Bytes) : ∀ f p st, p ≤ line.length → line.length - p < f →
    ∃ st', lastScan line f p st = .ok st' := by
  intro f
  induction f with
  | zero => intro p st _ h; omega
  | succ f ih =>
    intro p st hp hf
    simp only [lastScan]
    split
    · exact ⟨_, rfl⟩
    · rename_i hne
      have hlt : p < line.length := peekAt_lt line p (by simpa using hne)
      have h1 := adv_one line p hlt
      split
      · have h2 := adv_ge line (adv line p 1) 1 (by omega)
        have h3 := adv_le line (adv line p 1) 1 (by omega)
        split
        · exact ih _ _ h3 (by omega)
        · exact ih _ _ (by omega) (by omega)
      · split
        · rcases parseAttributes_good line p hp with ⟨v, p', heq⟩ | heq
          · rw [heq]; exact ih _ _ (by omega) (by omega)
          · rw [heq]; exact ih _ _ (by omega) (by omega)
        · exact ih _ _ (by omega) (by omega)

/-- parseLastLineAttributes never panics; what it attaches has valid names -/
theorem lastLineAttrs_ok (line : Bytes) :
    ∃ r, lastLineAttrs line = .ok r ∧ ∀ as n, r = some (as, n) → NamesOK as := by
  unfold lastLineAttrs
  obtain ⟨st, hst⟩ := lastScan_ok line (line.length + 1) 0 {} (Nat.zero_le _) (by omega)
  rw [hst]
  have hn := lastScan_names line _ _ _ _ (by intro a ha; simp at ha) hst
  simp only []
  split
  · refine ⟨_, rfl, ?_⟩
    intro as n e
    cases e
    exact hn
  · exact ⟨_, rfl, by intro as n e; cases e⟩

theorem nameId_ok : Spec.attrNameOK nameId = true := by decide

theorem closeAttrs_ok (src : Bytes) (h : Heading) (hk : HOK h) : ∃ h', closeAttrs src h = .ok h' ∧ HOK h' := by
  unfold closeAttrs
  split
  · exact ⟨h, rfl, hk⟩
  · rename_i x y _
    obtain ⟨r, hr, hn⟩ := lastLineAttrs_ok (sub src x y)
    rw [hr]
    cases r with
    | none => exact ⟨h, rfl, hk⟩
    | some q =>
      obtain ⟨as, n⟩ := q
      exact ⟨_, rfl, hok_setAll h as hk (hn as n rfl)⟩

theorem closeAutoId_ok (src : Bytes) (h : Heading) (hk : HOK h) : ∃ h', closeAutoId src h = .ok h' ∧ HOK h' := by
  unfold closeAutoId
  simp only [Ids.generate, List.contains_nil, Bool.false_eq_true, if_false]
  exact ⟨_, rfl, setAttribute_namesOK _ _ hk.1 nameId_ok, setAttribute_nodup _ _ hk.2.1, hk.2.2⟩

/-- Close of the heading parsers never panics and keeps the attribute invariant -/
theorem closeHeading_ok (src : Bytes) (a i : Bool) (h : Heading) (hk : HOK h) :
    ∃ h', closeHeading src a i h = .ok h' ∧ HOK h' := by
  unfold closeHeading
  have step1 : ∃ h1, (if (a && !hasName h.attrList nameId) = true then closeAttrs src h else .ok h) = .ok h1 ∧ HOK h1 := by
    split
    · exact closeAttrs_ok src h hk
    · exact ⟨h, rfl, hk⟩
  obtain ⟨h1, e1, hk1⟩ := step1
  rw [e1]
  simp only []
  split
  · exact closeAutoId_ok src h1 hk1
  · exact ⟨h1, rfl, hk1⟩

theorem atxPlain_ok (line : Bytes) (ls n start stop0 : Nat) (hs : 1 ≤ start) (hstop : stop0 ≤ line.length)
    (hn : 1 ≤ n ∧ n ≤ 6) :
    ∃ r, atxPlain line ls n start stop0 = .ok r ∧ ∀ h, r = some h → HOK h := by
  unfold atxPlain
  obtain ⟨c, hc⟩ := GM.Proof.LineRec.atxContent_ok line start stop0 hs hstop
  rw [hc]
  cases c with
  | none => exact ⟨_, rfl, by intro h e; cases e; exact hok_none _ _ hn⟩
  | some q =>
    obtain ⟨x, y⟩ := q
    exact ⟨_, rfl, by intro h e; cases e; exact hok_none _ _ hn⟩

theorem closureScan_le (line : Bytes) (stop : Nat) : ∀ f j o c, closureScan line stop f j = some (o, c) →
    o ≤ c ∧ c ≤ stop := by
  intro f
  induction f with
  | zero => intro j o c h; simp [closureScan] at h
  | succ f ih =>
    intro j o c h
    simp only [closureScan] at h
    split at h
    · split at h
      · exact ih _ _ _ h
      · split at h
        · rename_i hsp
          simp only [Option.some.injEq, Prod.mk.injEq] at h
          obtain ⟨rfl, rfl⟩ := h
          have h1 := takeWhile_length_le (· == (35 : UInt8)) ((line.drop (j + 1)).take (stop - (j + 1)))
          simp only [List.length_take, List.length_drop] at h1
          simp only [Bool.and_eq_true, decide_eq_true_eq] at hsp
          omega
        · exact ih _ _ _ h
    · cases h

theorem atxAttrs_ok (src line : Bytes) (ls n start stop0 : Nat) (hls : ls ≤ src.length) (hn : 1 ≤ n ∧ n ≤ 6) :
    ∃ r, atxAttrs src line ls n start stop0 = .ok r ∧ ∀ h, r = some h → HOK h := by
  unfold atxAttrs
  split
  · rename_i cOpen cClose _
    split
    · have hp := adv_le src ls cClose hls
      rcases parseAttributes_good src _ hp with ⟨v, p', heq⟩ | heq
      · rw [heq]
        simp only []
        split
        · refine ⟨_, rfl, ?_⟩
          intro h e
          cases e
          exact hok_setAll _ _ (hok_none _ _ hn) (parseAttributes_names src _ v p' heq)
        · exact ⟨_, rfl, by intro h e; cases e⟩
      · rw [heq]; exact ⟨_, rfl, by intro h e; cases e⟩
    · exact ⟨_, rfl, by intro h e; cases e⟩
  · exact ⟨_, rfl, by intro h e; cases e⟩

/-- atxHeadingParser.Open with the Attribute option never panics; the heading it builds has valid, distinct names -/
theorem atxOpen_ok (src : Bytes) (ls pos : Nat) (a : Bool) (hls : ls ≤ src.length) :
    ∃ r, atxOpen src ls pos a = .ok r ∧ ∀ h, r = some h → HOK h := by
  unfold atxOpen
  simp only []
  split
  · exact ⟨_, rfl, by intro h e; cases e⟩
  · rename_i hn
    split
    · exact ⟨_, rfl, by intro h e; cases e; exact hok_none _ _ (GM.Proof.LineRec.lvl_bounds _ hn)⟩
    · rename_i hi
      split
      · exact ⟨_, rfl, by intro h e; cases e⟩
      · rename_i hl
        simp only [beq_iff_eq] at hi
        have hn' := GM.Proof.LineRec.lvl_bounds _ hn
        have hl' : 1 ≤ trimLeftSpaceLength (List.drop (pos + ((restLine src ls).drop pos |>.takeWhile (· == 35)).length) (restLine src ls)) := by
          simp only [beq_iff_eq] at hl; omega
        have hstart : 1 ≤ (if pos + ((restLine src ls).drop pos |>.takeWhile (· == 35)).length +
              trimLeftSpaceLength (List.drop (pos + ((restLine src ls).drop pos |>.takeWhile (· == 35)).length) (restLine src ls)) ≥
              (restLine src ls).length then (restLine src ls).length - 1
            else pos + ((restLine src ls).drop pos |>.takeWhile (· == 35)).length +
              trimLeftSpaceLength (List.drop (pos + ((restLine src ls).drop pos |>.takeWhile (· == 35)).length) (restLine src ls))) := by
          have hrun := takeWhile_length_le (· == (35 : UInt8)) ((restLine src ls).drop pos)
          simp only [List.length_drop] at hrun
          have hl2 := takeWhile_length_le isSpace (List.drop (pos + ((restLine src ls).drop pos |>.takeWhile (· == 35)).length) (restLine src ls))
          simp only [List.length_drop] at hl2
          unfold trimLeftSpaceLength at hl' ⊢
          split <;> omega
        have hplain := atxPlain_ok (restLine src ls) ls ((restLine src ls).drop pos |>.takeWhile (· == 35)).length _
          ((restLine src ls).length - trimRightSpaceLength (restLine src ls)) hstart (by omega) hn'
        split
        · exact hplain
        · obtain ⟨r, hr, hk⟩ := atxAttrs_ok src (restLine src ls) ls ((restLine src ls).drop pos |>.takeWhile (· == 35)).length
            (if pos + ((restLine src ls).drop pos |>.takeWhile (· == 35)).length +
              trimLeftSpaceLength (List.drop (pos + ((restLine src ls).drop pos |>.takeWhile (· == 35)).length) (restLine src ls)) ≥
              (restLine src ls).length then (restLine src ls).length - 1
            else pos + ((restLine src ls).drop pos |>.takeWhile (· == 35)).length +
              trimLeftSpaceLength (List.drop (pos + ((restLine src ls).drop pos |>.takeWhile (· == 35)).length) (restLine src ls)))
            ((restLine src ls).length - trimRightSpaceLength (restLine src ls)) hls hn'
          rw [hr]
          cases r with
          | none => exact hplain
          | some h => exact ⟨_, rfl, by intro h' e; cases e; exact hk h rfl⟩

/-- the first heading of a document, Open then Close: no panic, attribute names valid and pairwise distinct -/
theorem atxHeading_ok (src : Bytes) (a i : Bool) :
    ∃ r, atxHeading src a i = .ok r ∧ ∀ h, r = some h → HOK h := by
  unfold atxHeading
  obtain ⟨r, hr, hk⟩ := atxOpen_ok src 0 ((restLine src 0).takeWhile (· == 32)).length a (Nat.zero_le _)
  rw [hr]
  cases r with
  | none => exact ⟨_, rfl, by intro h e; cases e⟩
  | some h =>
    obtain ⟨h', e', hk'⟩ := closeHeading_ok src a i h (hk h rfl)
    simp only [e']
    exact ⟨_, rfl, by intro h'' e; cases e; exact hk'⟩


end GM.Proof.Attribute
