/-
  GM.Proof.Bufio — invariant of the bufio.Writer model (GM.Model.Bufio) for property C14.
-/
import GM.Model.Bufio

namespace GM.Proof.Bufio
open GM GM.Bufio

/-! ### the destination writer -/

theorem under_write_spec (u : Under) (p : Bytes) :
    (u.write p).1 ≤ p.length ∧ (u.write p).2.2.acc = u.acc ++ p.take (u.write p).1 ∧
    (u.write p).2.2.mode = u.mode ∧ (u.write p).2.2.sw = u.sw ∧
    ((u.write p).2.1 = none → (u.write p).1 = p.length ∧ (u.write p).2.2.failed = u.failed) ∧
    (∀ e, (u.write p).2.1 = some e → e = .injected ∧ (u.write p).2.2.failed = true ∧ (p ≠ [] → (u.write p).1 < p.length)) ∧
    (u.mode = .ok → (u.write p).2.1 = none) := by
  unfold Under.write
  cases hm : u.mode with
  | ok => simp [Under.acc]
  | always =>
    simp [Under.acc]
    intro h; exact List.length_pos_iff.2 h
  | short =>
    simp only
    split
    · simp [Under.acc]
    · rename_i hlt
      simp [Under.acc]
      refine ⟨by omega, ?_⟩
      intro _; omega

/-- a property of the destination that every `Write` call preserves. -/
def Closed (P : Under → Prop) : Prop := ∀ u p, P u → P (u.write p).2.2

/-! ### the invariant -/

/-- `total` = all bytes handed to the bufio.Writer so far, of which `rest` is the not yet consumed tail of the
    argument of a `Write`/`WriteString` in progress (`[]` between calls). While no error has occurred, the
    destination has accepted `total` minus what is buffered or pending; after the first error the destination
    holds a strict prefix of `total`, and the sticky error is the destination's error. -/
structure Inv (P : Under → Prop) (w : W) (rest total : Bytes) : Prop where
  np : w.panicked = false
  ns : w.starved = false
  pos : 0 < w.size
  hn : w.n = w.rbuf.length
  hP : P w.u
  hok : w.err = none → w.u.failed = false ∧ w.u.acc ++ w.rbuf.reverse ++ rest = total
  herr : ∀ e, w.err = some e → e = .injected ∧ w.u.failed = true ∧ w.u.acc <+: total ∧ w.u.acc.length < total.length

variable {P : Under → Prop}

/-- handing `x` to the writer: it becomes the pending rest. -/
theorem Inv.push {w : W} {sent : Bytes} (h : Inv P w [] sent) (x : Bytes) : Inv P w x (sent ++ x) := by
  refine { h with hok := ?_, herr := ?_ }
  · intro h0
    obtain ⟨h1, h2⟩ := h.hok h0
    refine ⟨h1, ?_⟩
    rw [← h2]; simp
  · intro e' he'
    obtain ⟨h1, h2, h3, h4⟩ := h.herr e' he'
    refine ⟨h1, h2, ?_, ?_⟩
    · exact List.IsPrefix.trans h3 (List.prefix_append _ _)
    · simp only [List.length_append]; omega

/-- once the sticky error is set the pending rest is irrelevant (it is dropped). -/
theorem Inv.drop_rest {w : W} {rest total : Bytes} (h : Inv P w rest total) (e : Err) (he : w.err = some e) :
    Inv P w [] total := by
  refine { h with hok := ?_ }
  intro h0; rw [he] at h0; cases h0

theorem Inv.acc_prefix {w : W} {rest total : Bytes} (h : Inv P w rest total) : w.u.acc <+: total := by
  cases he : w.err with
  | none =>
    obtain ⟨_, h2⟩ := h.hok he
    exact ⟨w.rbuf.reverse ++ rest, by rw [← h2]; simp⟩
  | some e => exact (h.herr e he).2.2.1

theorem Inv.err_iff_failed {w : W} {rest total : Bytes} (h : Inv P w rest total) :
    (w.u.failed = true → w.err = some .injected) ∧ (w.u.failed = false → w.err = none) := by
  cases he : w.err with
  | none =>
    obtain ⟨h1, _⟩ := h.hok he
    simp [h1]
  | some e =>
    obtain ⟨h1, h2, _⟩ := h.herr e he
    simp [h1, h2]

/-! ### Flush -/

theorem flush_of_err {w : W} {e : Err} (he : w.err = some e) : w.flush = (w, some e) := by
  unfold W.flush; rw [he]

theorem flush_of_empty {w : W} (he : w.err = none) (hz : w.n = 0) : w.flush = (w, none) := by
  unfold W.flush; rw [he]; simp [hz]

theorem flush_of_ok {w : W} (he : w.err = none) (hz : w.n ≠ 0)
    (hr : (w.u.write w.rbuf.reverse).2.1 = none) (hfull : ¬ (w.u.write w.rbuf.reverse).1 < w.n) :
    w.flush = ({ w with rbuf := [], n := 0, u := (w.u.write w.rbuf.reverse).2.2 }, none) := by
  unfold W.flush; rw [he]; simp [hz, hr, hfull]

theorem flush_of_fail {w : W} {e : Err} (he : w.err = none) (hz : w.n ≠ 0)
    (hr : (w.u.write w.rbuf.reverse).2.1 = some e) :
    w.flush = ({ w with rbuf := (w.rbuf.reverse.drop (w.u.write w.rbuf.reverse).1).reverse,
                        n := w.n - (w.u.write w.rbuf.reverse).1, err := some e,
                        u := (w.u.write w.rbuf.reverse).2.2 }, some e) := by
  unfold W.flush; rw [he]; simp [hz, hr]

theorem flush_spec (hc : Closed P) {w : W} {rest total : Bytes} (h : Inv P w rest total) :
    Inv P w.flush.1 rest total ∧ w.flush.2 = w.flush.1.err ∧ (w.flush.1.err = none → w.flush.1.n = 0) ∧
    w.flush.1.size = w.size := by
  cases he : w.err with
  | some e =>
    rw [flush_of_err he]
    refine ⟨h, he.symm, ?_, rfl⟩
    intro h0
    simp [he] at h0
  | none =>
    by_cases hz : w.n = 0
    · rw [flush_of_empty he hz]
      exact ⟨h, he.symm, fun _ => hz, rfl⟩
    · obtain ⟨hf, hacc⟩ := h.hok he
      obtain ⟨s1, s2, _, _, s5, s6, _⟩ := under_write_spec w.u w.rbuf.reverse
      have hP' := hc w.u w.rbuf.reverse h.hP
      have hlen : w.rbuf.reverse.length = w.n := by simp [h.hn]
      have hne : w.rbuf.reverse ≠ [] := by
        intro h0; rw [h0] at hlen; simp at hlen; omega
      cases hr : (w.u.write w.rbuf.reverse).2.1 with
      | none =>
        obtain ⟨h1, h2⟩ := s5 hr
        rw [flush_of_ok he hz hr (by omega)]
        refine ⟨?_, by simp [he], fun _ => rfl, rfl⟩
        refine { np := h.np, ns := h.ns, pos := h.pos, hn := by simp, hP := hP', hok := ?_, herr := ?_ }
        · intro _
          refine ⟨by simp [h2, hf], ?_⟩
          show (w.u.write w.rbuf.reverse).2.2.acc ++ ([] : Bytes).reverse ++ rest = total
          rw [s2, h1, List.take_length, List.reverse_nil, List.append_nil, hacc]
        · intro e he'; exact absurd he' (by simp [he])
      | some e =>
        obtain ⟨h1, h2, h3⟩ := s6 e hr
        have hlt := h3 hne
        rw [flush_of_fail he hz hr]
        refine ⟨?_, rfl, ?_, rfl⟩
        rotate_left
        · intro h0; simp at h0
        refine { np := h.np, ns := h.ns, pos := h.pos, hn := ?_, hP := hP', hok := ?_, herr := ?_ }
        · simp [h.hn]
        · intro h0; cases h0
        · intro e' he'
          have he' : e = e' := by simpa using he'
          subst he'
          have hpre : w.u.acc ++ List.take (w.u.write w.rbuf.reverse).1 w.rbuf.reverse <+: w.u.acc ++ w.rbuf.reverse :=
            (List.prefix_append_right_inj _).2 (List.take_prefix _ _)
          refine ⟨h1, h2, ?_, ?_⟩
          · show (w.u.write w.rbuf.reverse).2.2.acc <+: total
            rw [s2, ← hacc]
            exact List.IsPrefix.trans hpre (List.prefix_append _ _)
          · show (w.u.write w.rbuf.reverse).2.2.acc.length < total.length
            rw [s2, ← hacc]
            simp only [List.length_append, List.length_take]
            omega

/-! ### Write / WriteString -/

theorem writeLoop_spec (hc : Closed P) (str : Bool) : ∀ (fuel : Nat) (w : W) (p total : Bytes),
    Inv P w p total → (w.err = none → 2 * p.length + (if w.n = 0 then 0 else 1) < fuel) →
    Inv P (W.writeLoop str fuel w p).1 (W.writeLoop str fuel w p).2 total ∧
    (W.writeLoop str fuel w p).1.size = w.size := by
  intro fuel
  induction fuel with
  | zero =>
    intro w p total h hfuel
    unfold W.writeLoop
    split
    · rename_i hcnd
      have : w.err = none := by
        cases he : w.err with
        | none => rfl
        | some e => simp [he] at hcnd
      have := hfuel this
      omega
    · exact ⟨h, rfl⟩
  | succ f ih =>
    intro w p total h hfuel
    unfold W.writeLoop
    split
    · rename_i hcnd
      have he : w.err = none := by
        cases he : w.err with
        | none => rfl
        | some e => simp [he] at hcnd
      have hlt : w.available < p.length := by
        simp [he] at hcnd; exact hcnd
      have hμ := hfuel he
      obtain ⟨hf, hacc⟩ := h.hok he
      split
      · -- large write, empty buffer
        rename_i hdir
        have hz : w.n = 0 := by
          simp [W.buffered] at hdir; exact hdir.1
        have hb : w.rbuf = [] := List.eq_nil_of_length_eq_zero (by rw [← h.hn]; exact hz)
        obtain ⟨s1, s2, _, _, s5, s6, _⟩ := under_write_spec w.u p
        have hP' := hc w.u p h.hP
        have hpne : p ≠ [] := by
          intro h0; rw [h0] at hlt; simp at hlt
        rw [hb] at hacc
        simp only [List.reverse_nil, List.append_nil] at hacc
        have hinv : Inv P { w with err := (w.u.write p).2.1, u := (w.u.write p).2.2 } (p.drop (w.u.write p).1) total := by
          refine { np := h.np, ns := h.ns, pos := h.pos, hn := h.hn, hP := hP', hok := ?_, herr := ?_ }
          · intro h0
            have h0 : (w.u.write p).2.1 = none := h0
            obtain ⟨h1, h2⟩ := s5 h0
            refine ⟨by simp [h2, hf], ?_⟩
            show (w.u.write p).2.2.acc ++ w.rbuf.reverse ++ p.drop (w.u.write p).1 = total
            rw [s2, hb, h1]
            simp [hacc]
          · intro e h0
            have h0 : (w.u.write p).2.1 = some e := h0
            obtain ⟨h1, h2, h3⟩ := s6 e h0
            have h3 := h3 hpne
            refine ⟨h1, h2, ?_, ?_⟩
            · show (w.u.write p).2.2.acc <+: total
              rw [s2, ← hacc]
              exact (List.prefix_append_right_inj _).2 (List.take_prefix _ _)
            · show (w.u.write p).2.2.acc.length < total.length
              rw [s2, ← hacc]
              simp only [List.length_append, List.length_take]
              omega
        have := ih _ _ total hinv (by
          intro h0
          have h0 : (w.u.write p).2.1 = none := h0
          obtain ⟨h1, _⟩ := s5 h0
          have : p.length ≥ 1 := by omega
          simp only [List.length_drop, h1]
          show 2 * (p.length - p.length) + (if w.n = 0 then 0 else 1) < f
          simp only [hz] at hμ ⊢
          simp at hμ ⊢
          omega)
        exact this
      · -- copy what fits, flush
        rename_i hdir
        have hinv1 : Inv P { w with rbuf := (p.take w.available).reverse ++ w.rbuf, n := w.n + w.available }
            (p.drop w.available) total := by
          refine { np := h.np, ns := h.ns, pos := h.pos, hn := ?_, hP := h.hP, hok := ?_, herr := ?_ }
          · show w.n + w.available = ((p.take w.available).reverse ++ w.rbuf).length
            simp only [List.length_append, List.length_reverse, List.length_take, h.hn]
            have := h.hn
            omega
          · intro _
            refine ⟨hf, ?_⟩
            show w.u.acc ++ ((p.take w.available).reverse ++ w.rbuf).reverse ++ p.drop w.available = total
            rw [← hacc]
            simp
          · intro e h0
            have h0 : w.err = some e := h0
            rw [he] at h0; cases h0
        obtain ⟨hi2, _, hz2, hsz⟩ := flush_spec hc hinv1
        have := ih _ _ total hi2 (by
          intro h0
          have hn0 := hz2 h0
          simp only [hn0, List.length_drop]
          by_cases hav : w.available = 0
          · -- the buffer was full, hence non-empty
            have hpos := h.pos
            have : w.n ≠ 0 := by
              unfold W.available at hav; omega
            simp [this] at hμ
            simp [hav]
            omega
          · have : (if w.n = 0 then 0 else 1) ≥ 0 := by omega
            simp
            omega)
        refine ⟨this.1, ?_⟩
        rw [this.2, hsz]
    · exact ⟨h, rfl⟩

theorem writeGen_spec (hc : Closed P) (str : Bool) {w : W} {sent : Bytes} (h : Inv P w [] sent) (p : Bytes) :
    Inv P (w.writeGen str p) [] (sent ++ p) ∧ (w.writeGen str p).size = w.size := by
  unfold W.writeGen
  obtain ⟨hl, hsz⟩ := writeLoop_spec hc str (2 * p.length + 2) w p (sent ++ p) (h.push p) (by
    intro _; split <;> omega)
  simp only
  split
  · rename_i hcnd
    refine ⟨?_, hsz⟩
    cases he : (W.writeLoop str (2 * p.length + 2) w p).1.err with
    | some e => exact hl.drop_rest e he
    | none => simp [he, hl.ns] at hcnd
  · rename_i hcnd
    have he : (W.writeLoop str (2 * p.length + 2) w p).1.err = none := by
      cases he : (W.writeLoop str (2 * p.length + 2) w p).1.err with
      | none => rfl
      | some e => simp [he] at hcnd
    obtain ⟨hf, hacc⟩ := hl.hok he
    refine ⟨?_, hsz⟩
    refine { np := hl.np, ns := hl.ns, pos := hl.pos, hn := ?_, hP := hl.hP, hok := ?_, herr := ?_ }
    · show (W.writeLoop str (2 * p.length + 2) w p).1.n + (W.writeLoop str (2 * p.length + 2) w p).2.length = _
      simp [hl.hn]; omega
    · intro _
      refine ⟨hf, ?_⟩
      show _ ++ ((W.writeLoop str (2 * p.length + 2) w p).2.reverse ++ (W.writeLoop str (2 * p.length + 2) w p).1.rbuf).reverse ++ [] = _
      rw [← hacc]; simp
    · intro e h0
      have h0 : (W.writeLoop str (2 * p.length + 2) w p).1.err = some e := h0
      rw [he] at h0; cases h0

/-! ### WriteByte / WriteRune -/

theorem push_inv {w : W} {sent : Bytes} (h : Inv P w [] sent) (he : w.err = none) (x : Bytes) :
    Inv P { w with rbuf := x.reverse ++ w.rbuf, n := w.n + x.length } [] (sent ++ x) := by
  obtain ⟨hf, hacc⟩ := h.hok he
  refine { np := h.np, ns := h.ns, pos := h.pos, hn := ?_, hP := h.hP, hok := ?_, herr := ?_ }
  · show w.n + x.length = (x.reverse ++ w.rbuf).length
    simp [h.hn]; omega
  · intro _
    refine ⟨hf, ?_⟩
    show w.u.acc ++ (x.reverse ++ w.rbuf).reverse ++ [] = sent ++ x
    rw [← hacc]; simp
  · intro e h0
    have h0 : w.err = some e := h0
    rw [he] at h0; cases h0

theorem writeByte_of_err {w : W} {e : Err} (he : w.err = some e) (c : UInt8) : w.writeByte c = w := by
  unfold W.writeByte; simp [he]

theorem writeByte_room {w : W} (he : w.err = none) (hlt : w.n < w.size) (c : UInt8) :
    w.writeByte c = { w with rbuf := c :: w.rbuf, n := w.n + 1 } := by
  have hav : ¬ w.available ≤ 0 := by unfold W.available; omega
  unfold W.writeByte; simp [he, hav, hlt]

theorem writeByte_full_fail {w : W} {e : Err} (he : w.err = none) (hge : ¬ w.n < w.size)
    (he1 : w.flush.1.err = some e) (c : UInt8) : w.writeByte c = w.flush.1 := by
  have hav : w.available ≤ 0 := by unfold W.available; omega
  unfold W.writeByte; simp [he, hav, he1]

theorem writeByte_full_ok {w : W} (he : w.err = none) (hge : ¬ w.n < w.size)
    (he1 : w.flush.1.err = none) (hlt : w.flush.1.n < w.flush.1.size) (c : UInt8) :
    w.writeByte c = { w.flush.1 with rbuf := c :: w.flush.1.rbuf, n := w.flush.1.n + 1 } := by
  have hav : w.available ≤ 0 := by unfold W.available; omega
  unfold W.writeByte; simp [he, hav, he1, hlt]

theorem writeByte_spec (hc : Closed P) {w : W} {sent : Bytes} (h : Inv P w [] sent) (c : UInt8) :
    Inv P (w.writeByte c) [] (sent ++ [c]) ∧ (w.writeByte c).size = w.size := by
  cases he : w.err with
  | some e =>
    rw [writeByte_of_err he]
    exact ⟨(h.push [c]).drop_rest e he, rfl⟩
  | none =>
    by_cases hlt : w.n < w.size
    · rw [writeByte_room he hlt]
      exact ⟨push_inv h he [c], rfl⟩
    · obtain ⟨hi, _, hz, hsz⟩ := flush_spec hc h
      cases he1 : w.flush.1.err with
      | some e =>
        rw [writeByte_full_fail he hlt he1]
        exact ⟨(hi.push [c]).drop_rest e he1, hsz⟩
      | none =>
        have hn0 := hz he1
        have hpos := hi.pos
        rw [writeByte_full_ok he hlt he1 (by omega)]
        exact ⟨push_inv hi he1 [c], hsz⟩

theorem runeBytes_ascii {r : Int} (h0 : 0 ≤ r) (h1 : r < 128) : runeBytes r = [UInt8.ofNat r.toNat] := by
  have h2 : r.toNat < 128 := by omega
  have h3 : ¬ r < 0 := by omega
  have h4 : r.toNat < 0xD800 := by omega
  simp [runeBytes, h3, encodeRune, validRune, h4, h2]

theorem writeRune_ascii {w : W} {r : Int} (h0 : 0 ≤ r) (h1 : r < 128) :
    w.writeRune r = w.writeByte (UInt8.ofNat r.toNat) := by
  unfold W.writeRune; simp [h0, h1]

theorem writeRune_of_err {w : W} {r : Int} {e : Err} (ha : ¬ (0 ≤ r ∧ r < 128)) (he : w.err = some e) :
    w.writeRune r = w := by
  unfold W.writeRune
  have : (decide (0 ≤ r) && decide (r < 128)) = false := by simpa using ha
  simp [this, he]

theorem writeRune_room {w : W} {r : Int} (ha : ¬ (0 ≤ r ∧ r < 128)) (he : w.err = none) (hav : ¬ w.available < 4) :
    w.writeRune r = { w with rbuf := (runeBytes r).reverse ++ w.rbuf, n := w.n + (runeBytes r).length } := by
  unfold W.writeRune
  have : (decide (0 ≤ r) && decide (r < 128)) = false := by simpa using ha
  simp [this, he, hav]

theorem writeRune_flush_fail {w : W} {r : Int} {e : Err} (ha : ¬ (0 ≤ r ∧ r < 128)) (he : w.err = none)
    (hav : w.available < 4) (he1 : w.flush.1.err = some e) : w.writeRune r = w.flush.1 := by
  unfold W.writeRune
  have : (decide (0 ≤ r) && decide (r < 128)) = false := by simpa using ha
  simp [this, he, hav, he1]

theorem writeRune_flush_small {w : W} {r : Int} (ha : ¬ (0 ≤ r ∧ r < 128)) (he : w.err = none)
    (hav : w.available < 4) (he1 : w.flush.1.err = none) (hav1 : w.flush.1.available < 4) :
    w.writeRune r = w.flush.1.writeString (runeBytes r) := by
  unfold W.writeRune
  have : (decide (0 ≤ r) && decide (r < 128)) = false := by simpa using ha
  simp [this, he, hav, he1, hav1]

theorem writeRune_flush_room {w : W} {r : Int} (ha : ¬ (0 ≤ r ∧ r < 128)) (he : w.err = none)
    (hav : w.available < 4) (he1 : w.flush.1.err = none) (hav1 : ¬ w.flush.1.available < 4) :
    w.writeRune r = { w.flush.1 with rbuf := (runeBytes r).reverse ++ w.flush.1.rbuf,
                                     n := w.flush.1.n + (runeBytes r).length } := by
  unfold W.writeRune
  have : (decide (0 ≤ r) && decide (r < 128)) = false := by simpa using ha
  simp [this, he, hav, he1, hav1]

theorem writeRune_spec (hc : Closed P) {w : W} {sent : Bytes} (h : Inv P w [] sent) (r : Int) :
    Inv P (w.writeRune r) [] (sent ++ runeBytes r) ∧ (w.writeRune r).size = w.size := by
  by_cases ha : 0 ≤ r ∧ r < 128
  · rw [writeRune_ascii ha.1 ha.2, runeBytes_ascii ha.1 ha.2]
    exact writeByte_spec hc h _
  · cases he : w.err with
    | some e =>
      rw [writeRune_of_err ha he]
      exact ⟨(h.push _).drop_rest e he, rfl⟩
    | none =>
      by_cases hav : w.available < 4
      · obtain ⟨hi, _, _, hsz⟩ := flush_spec hc h
        cases he1 : w.flush.1.err with
        | some e =>
          rw [writeRune_flush_fail ha he hav he1]
          exact ⟨(hi.push _).drop_rest e he1, hsz⟩
        | none =>
          by_cases hav1 : w.flush.1.available < 4
          · rw [writeRune_flush_small ha he hav he1 hav1]
            obtain ⟨h2, hsz2⟩ := writeGen_spec hc true hi (runeBytes r)
            exact ⟨h2, by rw [W.writeString, hsz2, hsz]⟩
          · rw [writeRune_flush_room ha he hav he1 hav1]
            exact ⟨push_inv hi he1 _, hsz⟩
      · rw [writeRune_room ha he hav]
        exact ⟨push_inv h he _, rfl⟩

/-! ### call sequences -/

theorem step_spec (hc : Closed P) {w : W} {sent : Bytes} (h : Inv P w [] sent) (c : Call) :
    Inv P (w.step c) [] (sent ++ c.bytes) ∧ (w.step c).size = w.size := by
  cases c with
  | write p => simp only [W.step, h.np, Bool.false_eq_true, if_false, Call.bytes]; exact writeGen_spec hc false h p
  | writeString s => simp only [W.step, h.np, Bool.false_eq_true, if_false, Call.bytes]; exact writeGen_spec hc true h s
  | writeByte c => simp only [W.step, h.np, Bool.false_eq_true, if_false, Call.bytes]; exact writeByte_spec hc h c
  | writeRune r => simp only [W.step, h.np, Bool.false_eq_true, if_false, Call.bytes]; exact writeRune_spec hc h r

theorem run_spec (hc : Closed P) : ∀ (cs : List Call) (w : W) (sent : Bytes), Inv P w [] sent →
    Inv P (w.run cs) [] (sent ++ allBytes cs) ∧ (w.run cs).size = w.size := by
  intro cs
  induction cs with
  | nil => intro w sent h; simpa [W.run, allBytes] using h
  | cons c cs ih =>
    intro w sent h
    obtain ⟨h1, hs1⟩ := step_spec hc h c
    obtain ⟨h2, hs2⟩ := ih (w.step c) _ h1
    refine ⟨?_, by rw [← hs1, ← hs2]; rfl⟩
    have e : sent ++ allBytes (c :: cs) = sent ++ c.bytes ++ allBytes cs := by simp [allBytes]
    rw [e]
    exact h2

theorem fresh_inv {size : Nat} (hs : 0 < size) {u : Under} (hu : u.acc = [] ∧ u.failed = false) (hP : P u) :
    Inv P (fresh size u) [] [] := by
  refine { np := rfl, ns := rfl, pos := hs, hn := rfl, hP := hP, hok := ?_, herr := ?_ }
  · intro _; exact ⟨hu.2, by simp [fresh, hu.1]⟩
  · intro e h0; cases h0

theorem allBytes_append (a b : List Call) : allBytes (a ++ b) = allBytes a ++ allBytes b := by
  simp [allBytes]

theorem allBytes_take_prefix (cs : List Call) (j : Nat) : allBytes (cs.take j) <+: allBytes cs := by
  have : allBytes cs = allBytes (cs.take j) ++ allBytes (cs.drop j) := by
    rw [← allBytes_append, List.take_append_drop]
  exact ⟨_, this.symm⟩

/-! ### Render -/

/-- everything `Render` guarantees, on a BufWriter satisfying the invariant. -/
theorem renderOn_spec (hc : Closed P) {w : W} {sent : Bytes} (h : Inv P w [] sent) (calls : List Call)
    (nodeErr : Option Nat) :
    let r := renderOn w calls nodeErr
    Inv P r.1 [] (sent ++ allBytes (match nodeErr with | some j => calls.take j | none => calls)) ∧
    (nodeErr = none → r.2 = r.1.err ∧ (r.1.err = none → r.1.n = 0)) ∧
    (∀ j, nodeErr = some j → r.2 = some .node) := by
  cases nodeErr with
  | some j =>
    refine ⟨(run_spec hc _ _ _ h).1, ?_, fun _ _ => rfl⟩
    intro h0; cases h0
  | none =>
    obtain ⟨h1, _⟩ := run_spec hc calls _ _ h
    obtain ⟨h2, h3, h4, _⟩ := flush_spec hc h1
    refine ⟨h2, fun _ => ⟨h3, h4⟩, ?_⟩
    intro j h0; cases h0

/-! ### instances of the closed destination property -/

def PTrue : Under → Prop := fun _ => True
theorem closed_true : Closed PTrue := fun _ _ _ => trivial

/-- the never-failing destination never fails -/
def POk : Under → Prop := fun u => u.mode = .ok ∧ u.failed = false
theorem closed_ok : Closed POk := by
  intro u p h
  obtain ⟨_, _, s3, _, s5, _, s7⟩ := under_write_spec u p
  exact ⟨by rw [s3]; exact h.1, by rw [(s5 (s7 h.1)).2]; exact h.2⟩

/-- the `short` destination with capacity `k`: accepted + room = k until it fails; accepted = k and no room afterwards -/
def PShort (k : Nat) : Under → Prop := fun u =>
  u.mode = .short ∧ (u.failed = false → u.acc.length + u.room = k) ∧ (u.failed = true → u.acc.length = k ∧ u.room = 0)
theorem closed_short (k : Nat) : Closed (PShort k) := by
  intro u p h
  obtain ⟨hm, h1, h2⟩ := h
  unfold Under.write
  rw [hm]
  simp only
  split
  · rename_i hle
    refine ⟨rfl, ?_, ?_⟩
    · intro hf
      have hf : u.failed = false := hf
      have := h1 hf
      simp [Under.acc] at this ⊢
      omega
    · intro hf
      have hf : u.failed = true := hf
      have := h2 hf
      simp [Under.acc] at this ⊢
      omega
  · rename_i hgt
    refine ⟨rfl, ?_, ?_⟩
    · intro hf; cases hf
    · intro _
      cases hfl : u.failed with
      | false =>
        have := h1 hfl
        simp [Under.acc] at this ⊢
        omega
      | true =>
        have := h2 hfl
        simp [Under.acc] at this ⊢
        omega

/-! ### the two paths into Render, and the facts the property theorems are read off from -/

theorem new_fresh (m : Mode) (k : Nat) (sw : Bool) : (Under.new m k sw).acc = [] ∧ (Under.new m k sw).failed = false := by
  simp [Under.new, Under.acc]

/-- the calls Render's walk gets to make: all of them, or the first `j` when a node renderer fails. -/
def made (calls : List Call) : Option Nat → List Call
  | some j => calls.take j
  | none => calls

theorem render_spec (hc : Closed P) {u0 : Under} (hu : u0.acc = [] ∧ u0.failed = false) (hP : P u0)
    {d : Dest} {pre : List Call} (hd : Dest.From u0 d pre) (calls : List Call) (nodeErr : Option Nat) :
    Inv P (render d calls nodeErr).1 [] (allBytes pre ++ allBytes (made calls nodeErr)) ∧
    (nodeErr = none → (render d calls nodeErr).2 = (render d calls nodeErr).1.err ∧
      ((render d calls nodeErr).1.err = none → (render d calls nodeErr).1.n = 0)) ∧
    (∀ j, nodeErr = some j → (render d calls nodeErr).2 = some .node) := by
  have key : ∀ (w : W), Inv P w [] (allBytes pre) →
      Inv P (renderOn w calls nodeErr).1 [] (allBytes pre ++ allBytes (made calls nodeErr)) ∧
      (nodeErr = none → (renderOn w calls nodeErr).2 = (renderOn w calls nodeErr).1.err ∧
        ((renderOn w calls nodeErr).1.err = none → (renderOn w calls nodeErr).1.n = 0)) ∧
      (∀ j, nodeErr = some j → (renderOn w calls nodeErr).2 = some .node) := by
    intro w hw
    have := renderOn_spec hc hw calls nodeErr
    cases nodeErr <;> exact this
  cases hd with
  | wrapped =>
    have h0 : Inv P (fresh 4096 u0) [] (allBytes []) := by
      simpa [allBytes] using fresh_inv (P := P) (by omega : 0 < 4096) hu hP
    exact key _ h0
  | supplied size hsize pre =>
    have h0 := (run_spec hc pre _ _ (fresh_inv (P := P) hsize hu hP)).1
    simp only [List.nil_append] at h0
    exact key _ h0

/-- after a successful final Flush nothing is left in the buffer: the destination holds everything. -/
theorem complete_of_no_err {w : W} {total : Bytes} (h : Inv P w [] total) (he : w.err = none) (hn : w.n = 0) :
    w.u.acc = total := by
  obtain ⟨_, h2⟩ := h.hok he
  have : w.rbuf = [] := List.eq_nil_of_length_eq_zero (by rw [← h.hn]; exact hn)
  simpa [this] using h2

theorem prefix_length_eq {a b : Bytes} (h : a <+: b) : a = b.take a.length := by
  obtain ⟨t, rfl⟩ := h
  simp

/-- the destination is in `always` mode and has accepted nothing -/
def PAlways : Under → Prop := fun u => u.mode = .always ∧ u.acc = []
theorem closed_always : Closed PAlways := by
  intro u p h
  obtain ⟨hm, ha⟩ := h
  unfold Under.write
  rw [hm]
  exact ⟨rfl, by simpa [Under.acc] using ha⟩

end GM.Proof.Bufio
