/-
  GM.Proof.ShiftSimXEnd3 — right-extension simulation: the two line loops of `parseBlocks`, run A on `b`, run B on
  `b ++ "\n" ++ L ++ rest`. Result: when run A ends, run B stands on `L` at the top of the outer loop with run A's final
  store (`GoalQ`).
-/
import GM.Proof.ShiftSimXEnd2
import GM.Proof.ShiftSimXSafe2

namespace GM.Blocks.Xs
open GM GM.Text GM.Spec GM.Proof.Reader GM.Blocks GM.Blocks.L

variable {b L rest : Bytes}

theorem SLe.mono {st : List LineStat} {s s' : St} (h : SLe st s) (hl : s.r.line ≤ s'.r.line) : SLe st s' :=
  fun e he => Int.le_trans (h e he) hl

/-! ### the inner `for {}` over lines -/

theorem linesLoop_x (hnl : b.getLast? = some 10)
    (hP : PSim (FQ L rest) b Cov6) (hO : OpenBlocksSim (FQ L rest) b Cov6)
    (hcl : ∀ bp, Cov6 bp → ∀ node s s' st, HL b s → bpContinue bp node s = .ok (st, s') → st.cont = false →
      HL b s')
    (hPK : PassKeeps b) (hXE : LinesXEndP b L rest) :
    ∀ (fuelA fuelB : Nat) (sa sb : List LineStat) (sA sB : St),
      TopRel (FQ L rest) b sA sB → AI Cov6 sA → StatsRel (FQ L rest) sa sb → 1 ≤ sA.r.line → AU b sA → SLe sa sA →
      P2 (LinesQX b L rest sA sa) (linesLoop 0 fuelA sa sA) (linesLoop 0 fuelB sb sB) := by
  intro fuelA
  induction fuelA with
  | zero => intro fuelB sa sb sA sB _ _ _ _ _ _; unfold linesLoop; exact P2.throwL
  | succ fuelA ih =>
    intro fuelB sa sb sA sB htop hc hst hline hau hsle
    rcases htop with ⟨h, hl⟩ | hx
    · cases fuelB with
      | zero => unfold linesLoop; exact P2.throwR
      | succ fuelB =>
        have hNL : NL b := .inr hnl
        have hq : QNL (FQ L rest) b := .inr hnl
        unfold linesLoop
        refine P2.bind (getPc_p2 h) (fun x y sA1 sB1 ⟨hx, hy, hxy, e1, e2⟩ => ?_)
        rw [e1, e2]
        have ho : y.opened = x.opened.map (shB (FQ L rest)) := hxy.opened
        rw [ho, List.length_map]
        by_cases hl0 : (x.opened.length == 0) = true
        · rw [if_pos hl0, if_pos hl0]
          have hnil : sA.pc.opened = [] := by
            rw [← hx]; exact List.eq_nil_of_length_eq_zero (by simpa using hl0)
          refine P2.pure ⟨fun _ => ⟨rfl, hst, .inl ⟨h, hl⟩, hnil, hc, hline, hau, hsle, fun hh => ?_⟩, fun e => by cases e⟩
          rcases hh with hh | hh
          · exact hh
          · exact absurd hnil hh
        · rw [if_neg hl0, if_neg hl0]
          have hne : x.opened ≠ [] := by
            intro e; rw [e] at hl0; simp at hl0
          have hob : ∀ z ∈ x.opened, Cov6 z.bp := by rw [hx]; exact hc.1
          have hleaf := Sh.leaf_of_stable hau.st
          rw [← hx] at hleaf
          have hcont : ∀ bp, Cov6 bp → bp.isContainer = true → ∀ node s s' (st : PState),
              bpContinue bp node s = .ok (st, s') → st.cont = true → st.hasChildren = true :=
            fun bp hb => Sh.leafCont_notList bp ⟨hb.1, hb.2.1⟩
          have key := lineLoop_p2 hP (FQ_ok L rest) hq hNL hO hcl 0 x.opened ((x.opened.length : Int) - 1) hob hleaf hcont
            x.opened 0 sa sb sA sB ⟨[], rfl⟩ h hc hl hst hline (by omega)
          rw [ι_zero] at key
          refine P2.bind (key.withL (R := fun a sA' => AUr b sA' ∧ SLe a.2 sA' ∧ a.1 = .next)
              (fun a sA' e => hPK x.opened sA sA' sa a hau (by rw [hx]) hne hob hl hsle e))
            (fun u v sA2 sB2 ⟨⟨hv1, hst2, hlim2, hai2, hline2, hne2⟩, haur2, hsle2, hnext⟩ => ?_)
          obtain ⟨uo, us⟩ := u
          obtain ⟨vo, vs⟩ := v
          simp only at hv1 hst2 hne2 hnext hsle2
          subst hv1 hnext
          simp only
          refine P2.bind (advanceLine_limbo_x (FQ_qne L rest) hlim2) (fun _ _ sA3 sB3 ⟨h3, hpc3, hl3, he3⟩ => ?_)
          have hc3 : AI Cov6 sA3 := by rw [he3]; exact hai2
          have hline3 : 1 ≤ sA3.r.line := by omega
          have hu2 : us ≠ [] := hne2 rfl hne
          have hau3 : AU b sA3 := by
            rw [he3]; exact haur2.adv (limbo_stop' hlim2.2) (fun t r' ht => ht)
          have hsle3 : SLe us sA3 := hsle2.mono (by omega)
          refine (ih fuelB us vs sA3 sB3 h3 hc3 hst2 hline3 hau3 hsle3).mono
            (fun w z sA' sB' ⟨hf, ht⟩ => ⟨fun e => ?_, ht⟩)
          obtain ⟨f1, f2, f3, f4, f5, f6, f7, f8, f9⟩ := hf e
          exact ⟨f1, f2, f3, f4, f5, f6, f7, f8, fun _ => f9 (.inl hu2)⟩
    · exact hXE (fuelA + 1) fuelB sa sb sA sB hx hc hst hline hau hsle

/-! ### helpers for the outer loop -/

theorem P2.apply {α β} {Q : α → β → St → St → Prop} {x y} (h : P2 Q x y) {a sA c sB}
    (e1 : x = .ok (a, sA)) (e2 : y = .ok (c, sB)) : Q a c sA sB := h a sA c sB e1 e2

/-- at the end of the source `SkipBlankLines` answers "no line" -/
theorem skip_at_end {s : St} {c : RCur} (hri : RI b s.r c) (hp : c.p = b.length)
    (x : Segment × Int × Bool) (s' : St) (h : skipBlankLinesR s = .ok (x, s')) :
    x.2.2 = false ∧ s'.nodes = s.nodes ∧ s'.pc = s.pc := by
  unfold skipBlankLinesR at h
  have hf : loopFuel s.r.source = ((4 * s.r.source.length + 62) + 1) + 1 := rfl
  rw [hf] at h
  unfold skipBlankLines at h
  obtain ⟨r1, h1, _⟩ := ri_peekLine hri
  have hv : RCur.view b c = none := view_none b c (by omega)
  simp only [readerOps, h1, hv, bind, Except.bind, pure, Except.pure] at h
  cases h
  exact ⟨rfl, rfl, rfl⟩

/-- on a line that is not blank `SkipBlankLines` skips nothing -/
theorem skip_zero {s : St} {line : Bytes} (hl : AtLine line s.r) (hnb : isBlank line = false)
    (x : Segment × Int × Bool) (s' : St) (h : skipBlankLinesR s = .ok (x, s')) :
    x.2.1 = 0 ∧ x.2.2 = true ∧ s'.nodes = s.nodes ∧ s'.pc = s.pc ∧ AtLine line s'.r ∧
      s'.r.source = s.r.source ∧ s'.r.pos = s.r.pos ∧ s'.r.line = s.r.line := by
  unfold skipBlankLinesR at h
  have hf : loopFuel s.r.source = ((4 * s.r.source.length + 62) + 1) + 1 := rfl
  rw [hf] at h
  unfold skipBlankLines at h
  obtain ⟨r2, h2, hl2, rc2⟩ := Sh.h2_peekLineR hl
  simp only [readerOps, h2, bind, Except.bind, hnb, Bool.false_eq_true, if_false, pure, Except.pure] at h
  cases h
  exact ⟨rfl, rfl, rfl, rfl, hl2, rc2.1, rc2.2.1, rc2.2.2⟩

theorem keysOff_of_ctxRel {sA sB : St} (h : CtxRelW (FQ L rest) sA.pc sB.pc) (hk : KeysOff sA) : KeysOff sB := by
  obtain ⟨k1, k2, k3, k4⟩ := hk
  refine ⟨?_, ?_, ?_, ?_⟩
  · rw [h.tmpPara, k1]; rfl
  · rw [h.fence, k2]; rfl
  · rw [h.skipList, k3]
  · rw [h.emptyItemBlank rfl, k4]

/-! ### the outer `for {}` -/

/-- run B stands at the top of the outer loop, nothing open, keys unset, store `N`, and its `SkipBlankLines` takes it to
    the start of `L` -/
structure AtTop (b L rest : Bytes) (N : List Node) (s1 : St) (stats1 : List LineStat) : Prop where
  nodes : s1.nodes = N
  opened : s1.pc.opened = []
  keys : KeysOff s1
  skip : ∃ x s1', skipBlankLinesR s1 = .ok (x, s1') ∧ x.2.2 = true ∧ s1'.nodes = s1.nodes ∧ s1'.pc = s1.pc ∧
    AtLine L s1'.r ∧ s1'.r.source = b ++ 10 :: (L ++ rest) ∧
    s1'.r.pos = { start := ((b.length + 1 : Nat) : Int), stop := ((b.length + 1 + L.length : Nat) : Int),
                  padding := 0, forceNewline := false } ∧
    (x.2.1 = 0 → ∀ e ∈ stats1, e.lineNum ≤ s1'.r.line)

/-- what the simulation delivers: if run A's final tree does not end in a raw block, the rest of run B IS the outer loop
    started at the top with run A's final store, on the way to `L` -/
def GoalQ (b L rest : Bytes) (sA' sd : St) : Prop :=
  endsInRawBlock sA' = false →
    ∃ s1 stats1 f1, AtTop b L rest sA'.nodes s1 stats1 ∧ blocksLoop 0 f1 stats1 s1 = .ok ((), sd)

/-- the statistics at the head of the outer loop (as in GM.Proof.ShiftSimMain) -/
def BInv (F : Frame) (sa sb : List LineStat) (line : Int) : Prop :=
  ∃ stale, sb = stale ++ sa.map (shS F) ∧ (∀ e ∈ stale, e.lineNum < F.dl) ∧
    (sa = [] → stale = [] ∨ (line = 0 ∧ isBlankLine (F.dl - 1) 0 stale = true)) ∧ (sa ≠ [] → 1 ≤ line)

theorem topB_atTop {sA' sB' : St} {stB : List LineStat} (hLb : isBlank L = false) (h : TopB b L rest sA' sB' stB)
    {fuel : Nat} {sd : St} (e : blocksLoop 0 fuel stB sB' = .ok ((), sd)) : AtTop b L rest sA'.nodes sB' stB := by
  cases fuel with
  | zero => unfold blocksLoop at e; cases e
  | succ fuel =>
    unfold blocksLoop at e
    obtain ⟨x, s1', hsk, _⟩ := GM.Blocks.bind_ok e
    obtain ⟨q1, q2, q3, q4, q5, q6, q7, q8⟩ := skip_zero h.atLine hLb x s1' hsk
    refine ⟨h.nodes, h.opened, h.keys, x, s1', hsk, q2, q3, q4, q5, by rw [q6]; exact h.source, by rw [q7]; exact h.pos,
      fun _ => ?_⟩
    rw [q8]; exact h.stats

theorem binv_sle {sa sb : List LineStat} {sA : St} (hbi : BInv (FQ L rest) sa sb sA.r.line) (hsle : SLe sa sA)
    (hline : 0 ≤ sA.r.line) : ∀ e ∈ sb, e.lineNum ≤ sA.r.line := by
  obtain ⟨stale, hsb, hstale, _, _⟩ := hbi
  intro e he
  rw [hsb] at he
  rcases List.mem_append.1 he with he | he
  · have := hstale e he
    have hd0 : (FQ L rest).dl = 0 := rfl
    omega
  · obtain ⟨e0, he0, rfl⟩ := List.mem_map.1 he
    have := hsle e0 he0
    simp only [shS]
    have hd0 : (FQ L rest).dl = 0 := rfl
    omega

theorem statsRel_sle {sa sb : List LineStat} {sA : St} (hst : StatsRel (FQ L rest) sa sb) (hsle : SLe sa sA)
    (hline : 0 ≤ sA.r.line) : ∀ e ∈ sb, e.lineNum ≤ sA.r.line := by
  obtain ⟨stale, hsb, hstale⟩ := hst
  intro e he
  rw [hsb] at he
  rcases List.mem_append.1 he with he | he
  · have := hstale e he
    have hd0 : (FQ L rest).dl = 0 := rfl
    omega
  · obtain ⟨e0, he0, rfl⟩ := List.mem_map.1 he
    have := hsle e0 he0
    simp only [shS]
    have hd0 : (FQ L rest).dl = 0 := rfl
    omega

/-- at the top of the outer loop: both runs have a line (weak relation), or run A is at its end -/
def TopRelW (F : Frame) (b : Bytes) (sA sB : St) : Prop := (SRw F b sA sB ∧ HL b sA) ∨ XEnd F b sA sB

theorem TopRel.w {F : Frame} {sA sB : St} (h : TopRel F b sA sB) : TopRelW F b sA sB := by
  rcases h with ⟨h1, h2⟩ | h
  · exact .inl ⟨h1.w, h2⟩
  · exact .inr h

theorem blocksLoop_x (hnl : b.getLast? = some 10) (hL : ∃ body, L = body ++ [10] ∧ ∀ c ∈ body, c ≠ 10)
    (hLb : isBlank L = false)
    (hP : PSim (FQ L rest) b Cov6) (hO : OpenBlocksSim (FQ L rest) b Cov6)
    (hcl : ∀ bp, Cov6 bp → ∀ node s s' st, HL b s → bpContinue bp node s = .ok (st, s') → st.cont = false →
      HL b s')
    (hPK : PassKeeps b) (hOK : OpenKeeps b) (hXE : LinesXEndP b L rest) :
    ∀ (fuelA fuelB : Nat) (sa sb : List LineStat) (sA sB : St),
      TopRelW (FQ L rest) b sA sB → AI Cov6 sA → sA.pc.opened = [] → 0 ≤ sA.r.line →
      BInv (FQ L rest) sa sb sA.r.line → AU b sA → SLe sa sA →
      P2 (fun _ _ sA' sd => GoalQ b L rest sA' sd) (blocksLoop 0 fuelA sa sA) (blocksLoop 0 fuelB sb sB) := by
  intro fuelA
  induction fuelA with
  | zero => intro fuelB sa sb sA sB _ _ _ _ _ _ _; unfold blocksLoop; exact P2.throwL
  | succ fuelA ih =>
    intro fuelB sa sb sA sB htop hc hop hline hbi hau hsle
    cases fuelB with
    | zero => unfold blocksLoop; exact P2.throwR
    | succ fuelB =>
      intro u sA' v sd e1 e2
      have e2' := e2
      unfold blocksLoop at e1 e2
      obtain ⟨xa, sA1, ha, ka⟩ := GM.Blocks.bind_ok e1
      obtain ⟨xb, sB1, hb, kb⟩ := GM.Blocks.bind_ok e2
      rcases htop with ⟨h, hl⟩ | hx
      · -- both runs have a line
        have hs := (skipBlankLinesR_x L rest (FQ_q L rest) hL hLb hnl h.rd hl.1).apply ha hb
        have hts1 : TS b sA1 := skip_ts hl.2 ha
        obtain ⟨c0, hri0, _⟩ := hl.1
        by_cases hok : xa.2.2 = true
        · obtain ⟨hy, hs1, hl1'⟩ := hs.1 hok
          have hl1 : HL b sA1 := ⟨hl1', hts1⟩
          have hcont : P2 (fun _ _ sA' sd => GoalQ b L rest sA' sd)
              ((match xa with
                | (_, lines, ok) => do
                  if (!ok) = true then pure ()
                  else do
                    let y ← position
                    let pc ← getPc
                    let r ← openBlocks 0 (isBlankLine (y.1 - 1) 0
                      (if (lines != 0) = true then blankStats y.1 lines pc.opened.length else sa))
                    if (r != OpenResult.newBlocksOpened) = true then pure ()
                    else do
                      advanceLine
                      let w ← linesLoop 0 fuelA
                        (if (lines != 0) = true then blankStats y.1 lines pc.opened.length else sa)
                      if w.1 = true then pure () else blocksLoop 0 fuelA w.2) sA1)
              ((match xb with
                | (_, lines, ok) => do
                  if (!ok) = true then pure ()
                  else do
                    let y ← position
                    let pc ← getPc
                    let r ← openBlocks 0 (isBlankLine (y.1 - 1) 0
                      (if (lines != 0) = true then blankStats y.1 lines pc.opened.length else sb))
                    if (r != OpenResult.newBlocksOpened) = true then pure ()
                    else do
                      advanceLine
                      let w ← linesLoop 0 fuelB
                        (if (lines != 0) = true then blankStats y.1 lines pc.opened.length else sb)
                      if w.1 = true then pure () else blocksLoop 0 fuelB w.2) sB1) := by
            obtain ⟨segA, linesA, okA⟩ := xa
            simp only at hok hy
            subst hok
            rw [hy]
            simp only [Bool.not_true, Bool.false_eq_true, if_false]
            have h1 := hs1.srw h
            obtain ⟨rA1, cA1, hcA1, eA1, eB1⟩ := hs1
            have epc1 : sA1.pc = sA.pc := by rw [eA1]
            have hlA := skipBlankLinesR_line _ _ _ ha
            obtain ⟨hl1', hl1''⟩ := hlA
            simp only at hl1''
            obtain ⟨c1, hri1, hpad1, hlt1, hnb1, _, _⟩ :=
              skipBlankLinesR_nonblank b sA sA1 (segA, linesA, true) c0 hri0 (hau.pad c0 hri0) ha rfl
            have hau1 : AU b sA1 := by
              rw [eA1]
              refine { st := hau.st.congr_r _, k := Sh.K.congr_r hau.k _, top := hau.top.congr_r _, gp := hau.gp, att := hau.att,
                       pad := fun c hc => ?_ }
              have hc' : RI b sA1.r c := by rw [eA1]; exact hc
              rw [Sh.ri_unique hc' hri1]; exact hpad1
            have hop1 : sA1.pc.opened = [] := by rw [epc1]; exact hop
            refine P2.bind (P := fun u v sA' sB' => u = sA1.r.position ∧
                v = (u.1 + (FQ L rest).dl, moveSeg (FQ L rest).d u.2) ∧ sA' = sA1 ∧ sB' = sB1)
              ?_ (fun u v sA2 sB2 ⟨hu, hv, e1, e2⟩ => ?_)
            · unfold GM.Blocks.position
              refine P2.ok ⟨rfl, ?_, rfl, rfl⟩
              rw [h1.r]; rfl
            rw [hv, e1, e2]
            simp only
            refine P2.bind (P := fun u' v' sA' sB' => u' = sA1.pc ∧ v'.opened = u'.opened.map (shB (FQ L rest)) ∧
                sA' = sA1 ∧ sB' = sB1)
              (by unfold getPc; exact P2.ok ⟨rfl, h1.c.opened, rfl, rfl⟩)
              (fun pcA pcB sA3 sB3 ⟨hpa, hpb, e1, e2⟩ => ?_)
            rw [hpb, List.length_map, e1, e2]
            have hlen0 : pcA.opened.length = 0 := by rw [hpa, epc1, hop]; rfl
            rw [hlen0]
            have hlineNum : u.1 = sA1.r.line := by rw [hu]; rfl
            have hd0 : (FQ L rest).dl = 0 := rfl
            obtain ⟨stale, hsb, hstale, hfirst, hsane⟩ := hbi
            have key : ∃ sa' sb', (if (linesA != 0) = true then blankStats u.1 linesA 0 else sa) = sa' ∧
                (if (linesA != 0) = true then blankStats (u.1 + (FQ L rest).dl) linesA 0 else sb) = sb' ∧
                StatsRel (FQ L rest) sa' sb' ∧
                isBlankLine (u.1 + (FQ L rest).dl - 1) 0 sb' = isBlankLine (u.1 - 1) 0 sa' ∧
                (sa' ≠ [] → sa ≠ [] ∧ sA1.r.line = sA.r.line) ∧ SLe sa' sA1 := by
              by_cases hz : (linesA != 0) = true
              · rw [if_pos hz, if_pos hz]
                refine ⟨_, _, rfl, rfl, ?_, ?_, ?_, ?_⟩
                · simp only [blankStats]; exact StatsRel.map (FQ L rest) []
                · simp only [blankStats]
                  rw [isBlankLine_nil _ _ (Int.le_refl 0), isBlankLine_nil _ _ (Int.le_refl 0)]
                · intro hh; simp [blankStats] at hh
                · intro e he; simp [blankStats] at he
              · rw [if_neg hz, if_neg hz]
                have hz0 : linesA = 0 := by simpa using hz
                have hsame := hl1'' hz0
                refine ⟨_, _, rfl, rfl, ⟨stale, hsb, hstale⟩, ?_, fun hh => ⟨hh, hsame⟩, hsle.mono hl1'⟩
                by_cases hsa : sa = []
                · subst hsa
                  rw [isBlankLine_nil _ _ (Int.le_refl 0)]
                  simp only [List.map_nil, List.append_nil] at hsb
                  rw [hsb]
                  rcases hfirst rfl with hs | ⟨hl0, hs⟩
                  · rw [hs]; exact isBlankLine_nil _ _ (Int.le_refl 0)
                  · have : u.1 + (FQ L rest).dl - 1 = (FQ L rest).dl - 1 := by rw [hlineNum, hsame, hl0]; omega
                    rw [this]; exact hs
                · have h1le := hsane hsa
                  have e : u.1 + (FQ L rest).dl - 1 = (u.1 - 1) + (FQ L rest).dl := by omega
                  rw [e]
                  refine isBlankLine_shift ⟨stale, hsb, hstale⟩ (u.1 - 1) 0 (by rw [hlineNum, hsame]; omega) ?_
                  have : 0 < sa.length := List.length_pos_iff.mpr hsa
                  omega
            obtain ⟨sa', sb', e1, e2, hst', hblank, hsa', hsle1⟩ := key
            rw [e1, e2, hblank]
            have hc1 : AI Cov6 sA1 := by rw [eA1]; exact hc
            have hO' := hO 0 (isBlankLine (u.1 - 1) 0 sa') sA1 sB1 h1 hc1 hl1
            rw [ι_zero] at hO'
            refine P2.bind (hO'.withL (R := fun r sA' => AUr b sA' ∧ r = OpenResult.newBlocksOpened)
                (fun a sA4 e => ⟨hOK _ sA1 sA4 a hau1 hop1 hl1 e,
                  openBlocks0_new b sA1 sA4 _ a c1 hop1 hri1 hlt1 hnb1 e⟩))
              (fun r r' sA4 sB4 ⟨⟨hr, hlim4, hai4, hline4, hne4⟩, haur4, hrnew⟩ => ?_)
            rw [hr, hrnew]
            simp only [bne_self_eq_false, Bool.false_eq_true, if_false]
            refine P2.bind (advanceLine_limbo_x (FQ_qne L rest) hlim4) (fun _ _ sA5 sB5 ⟨h5, hpc5, hl5, he5⟩ => ?_)
            have hc5 : AI Cov6 sA5 := by rw [he5]; exact hai4
            have hline5 : 1 ≤ sA5.r.line := by omega
            have hau5 : AU b sA5 := by
              rw [he5]; exact haur4.adv (limbo_stop' hlim4.2) (fun t r' ht => ht)
            have hsle5 : SLe sa' sA5 := hsle1.mono (by omega)
            refine P2.bind (linesLoop_x hnl hP hO hcl hPK hXE fuelA fuelB sa' sb' sA5 sB5 h5 hc5 hst' hline5 hau5 hsle5)
              (fun w z sA6 sB6 ⟨hqf, hqt⟩ => ?_)
            by_cases hret : w.1 = true
            · -- run A is done; run B has arrived on `L`
              rw [if_pos hret]
              intro _ sAf _ sdf f1 f2
              simp only [pure, StateT.pure, Except.pure, Except.ok.injEq, Prod.mk.injEq] at f1
              obtain ⟨_, rfl⟩ := f1
              intro hraw
              obtain ⟨hz, htb⟩ := hqt hret hraw
              rw [hz] at f2
              simp only [Bool.false_eq_true, if_false] at f2
              exact ⟨sB6, z.2, fuelB, topB_atTop hLb htb f2, f2⟩
            · rw [if_neg hret]
              have hwf : w.1 = false := by simpa using hret
              obtain ⟨hz, hst6, htop6, hop6, hai6, hline6, hau6, hsle6, hne6⟩ := hqf hwf
              rw [hz]
              simp only [Bool.false_eq_true, if_false]
              have hw2 : w.2 ≠ [] := hne6 (.inr (by rw [hpc5]; exact hne4 hrnew))
              obtain ⟨stale6, hsb6, hstale6⟩ := hst6
              exact ih fuelB w.2 z.2 sA6 sB6 htop6.w hai6 hop6 (by omega)
                ⟨stale6, hsb6, hstale6, fun e => absurd e hw2, fun _ => hline6⟩ hau6 hsle6
          exact hcont.apply ka kb
        · -- run A's SkipBlankLines reaches the end of `b`: run B's goes on to `L`
          have hokf : xa.2.2 = false := by simpa using hok
          obtain ⟨q1, q2, q3, q4, q5, q6, q7, q8, q9, q10, q11⟩ := hs.2 hokf
          obtain ⟨_, lines, ok⟩ := xa
          simp only at hokf
          subst hokf
          simp only [Bool.not_false, if_true, pure, StateT.pure, Except.pure] at ka
          cases ka
          intro _
          have hlA := (skipBlankLinesR_line _ _ _ ha).1
          refine ⟨sB, sb, fuelB + 1, ⟨?_, ?_, keysOff_of_ctxRel (L := L) (rest := rest) h.c hc.2, ?_⟩, e2'⟩
          · rw [q5]; exact FX_store h.n
          · rw [h.c.opened, hop]; rfl
          · refine ⟨xb, sB1, hb, q1, q3, q4, q10, ?_, ?_, fun _ e he => ?_⟩
            · rw [q7]; rfl
            · rw [q8]; simp [FQ, FX]
            · have := binv_sle hbi hsle hline e he
              rw [q9]
              have hd0 : (FQ L rest).dl = 0 := rfl
              omega
      · -- run A stands at the end of `b`
        obtain ⟨⟨c, hri, hcp⟩, hn, hctx, hl1, hl2, hsrc, hpos2, _, _⟩ := xend_facts hL hx
        obtain ⟨a1, a2, a3⟩ := skip_at_end hri hcp xa sA1 ha
        obtain ⟨_, lines, ok⟩ := xa
        simp only at a1
        subst a1
        simp only [Bool.not_false, if_true, pure, StateT.pure, Except.pure] at ka
        cases ka
        intro _
        obtain ⟨p1, p2, p3, p4, p5, p6, p7, _⟩ := Sh.skip_one_blank sB L hl1 hl2 hLb xb sB1 hb
        refine ⟨sB, sb, fuelB + 1, ⟨?_, ?_, keysOff_of_ctxRel (L := L) (rest := rest) hctx.toCtxRelW hc.2, ?_⟩, e2'⟩
        · rw [a2]; exact FX_store hn
        · rw [hctx.opened, hop]; rfl
        · refine ⟨xb, sB1, hb, p2, p3, p4, p5, by rw [p6]; exact hsrc, by rw [p7]; exact hpos2, fun h0 => ?_⟩
          rw [p1] at h0; cases h0

end GM.Blocks.Xs
