/-
  GM.Proof.BlocksTNO9 — GM.Proof.BlocksTNO4 for EVERY source: one pass of the `for i` loop (`lineLoopT`), the loop over
  lines, the outer loop, with two transformer lists that agree on guarded paragraphs. The walk carries `InvG`
  (GM.Proof.BlocksTNO6) NEXT TO the invariant `StableG` of the general no-panic walk (GM.Proof.BlocksTNP20–25), whose lemmas
  are used as black boxes for the first list; `StableG` also supplies what `openBlocksT_eqg` needs of its entry state
  (`Ent`: the stack is leafy, a last Paragraph block is the last child of its parent).
-/
import GM.Proof.BlocksTNO33

namespace GM.Blocks.TX
open GM GM.Text GM.Spec GM.Proof.Reader GM.Blocks.L GM.Blocks.T GM.Blocks.TR GM.Blocks.TO GM.TableX
open GM.Proof.BlocksWF0 (isRaw)

theorem InvGFX.of_same {F : Prop} {src : Bytes} {B : Int} {s s' : St} (hi : InvGF F src B s) (hn : s'.nodes = s.nodes)
    (ho : s'.pc.opened = s.pc.opened) (ht : s'.pc.tmpPara = s.pc.tmpPara) : InvGF F src B s' :=
  ⟨fun i => by simp only [nd, hn]; exact hi.nrb i, by rw [ho]; exact hi.ord,
    fun i => by simp only [nd, hn]; exact hi.pnb i,
    fun t h => by rw [ht] at h; simp only [nd, hn]; exact hi.tmpk t h,
    fun b hb => by rw [ho] at hb; simp only [nd, hn]; exact hi.kinds b hb,
    fun m hm => hi.nodes m (by rw [← hn]; exact hm),
    fun t h hm => by rw [ht] at h; rw [ho] at hm ⊢; simp only [nd, hn]; exact hi.tl t h hm,
    fun i => by simp only [nd, hn]; exact hi.raw i,
    fun i => by simp only [nd, hn]; exact hi.pnl i,
    fun b hb hd hbp => by rw [ho] at hb; simp only [nd, hn]; exact hi.pol b hb hd hbp⟩

/-- `Continue` of the eight list-free parsers, on a block that is not a Paragraph and whose node has the kind its
    parser builds: the invariant is kept for every bound (a container and the one-line leaves write no node; the raw
    leaves write their own, raw node) -/
theorem bpContinue_invG {src : Bytes} {B : Int} {s s' : St} {st : PState} (bp : BP) (node : Nat) (hi : InvG src B s)
    (c : RCur) (hri : RI src s.r c)
    (hnl : bp ≠ .list ∧ bp ≠ .listItem) (hnp : bp ≠ .paragraph) (hk : (nd s node).kind = bp.kind)
    (hpc : s'.pc = s.pc) (hn : NodesOK src s') (e : bpContinue bp node s = .ok (st, s'))
    (hx : isRaw bp.kind = true → OrdFrom 0 (nd s' node).lines ∧ Below B (nd s' node).lines) : InvG src B s' := by
  have same : s' = s → InvG src B s' := fun h => by rw [h]; exact hi
  have raw : isRaw bp.kind = true → FrN node (bpContinue bp node) → InvG src B s' := fun hr hf =>
    hi.onlyN (hf.h s st s' e) (by rw [hk]; exact hr) hpc hn (hx hr)
  cases bp
  case setext => exact same (by have e' : (pure stClose : M PState) s = .ok (st, s') := e; exact (opure_ok e').2)
  case thematic => exact same (by have e' : (pure stClose : M PState) s = .ok (st, s') := e; exact (opure_ok e').2)
  case list => exact absurd rfl hnl.1
  case listItem => exact absurd rfl hnl.2
  case code => exact raw rfl codeContinue_frn
  case atx => exact same (by have e' : (pure stClose : M PState) s = .ok (st, s') := e; exact (opure_ok e').2)
  case fenced => exact raw rfl fencedContinue_frn
  case blockquote =>
    have e' : blockquoteContinue node s = .ok (st, s') := e
    unfold blockquoteContinue at e'
    obtain ⟨b, s1, h1, k1⟩ := obind_ok e'
    obtain ⟨r1, c1, hs1, _⟩ := (blockquoteProcess_okl hri).of_ok h1
    have hs' : s' = s1 := by
      split at k1
      · exact (opure_ok k1).2
      · exact (opure_ok k1).2
    rw [hs', hs1]
    exact hi.congr_r r1
  case html => exact raw rfl htmlContinue_frn
  case paragraph => exact absurd rfl hnp

/-- `Continue` of the eight list-free parsers from a clean state, on an open block that is not a Paragraph: the
    invariant up to the line end; and, when the walk over the line goes on (children, or `Close`), the invariant up to
    the line start and `PadL` for the cursor -/
theorem bpContinue_cleanG {src : Bytes} {Lb : Int} {s s' : St} {c c2 : RCur} {st : PState} (be : Block)
    (hc1 : CleanG src Lb s c) (hp : c.p < src.length) (hkeys : GM.Blocks.W.KeysOKF s) (hkind : (nd s be.node).kind = be.bp.kind)
    (hnl : be.bp ≠ .list ∧ be.bp ≠ .listItem) (hnp : be.bp ≠ .paragraph)
    (h2c : ContPost src be.bp s c st s') (h4 : bpContinue be.bp be.node s = .ok (st, s')) :
    InvG src (lineEnd src c.p : Int) s' ∧
      ((st.hasChildren = true ∨ st.cont = false) → InvG src Lb s' ∧ (RI src s'.r c2 → PadL Lb c2)) := by
  have hr1 := hc1.ri
  have hle := hc1.le
  have hpl := hc1.padl
  have hrc : isRaw be.bp.kind = true → RawC src Lb (lineEnd src c.p : Int) be.node s s' st :=
    fun hr => bpContinue_rawC be.bp be.node hr hr1 hp hle hpl (fun f hf => (hkeys.fence f hf).2.1) h4
  have hge := lineEnd_ge src hr1.inRange
  have h04 : ∀ t ∈ (nd s' be.node).lines, 0 ≤ t.start := fun t ht =>
    ((nodeOK_nd h2c.nodes be.node).lines t ht).1
  have hinvE : InvG src (lineEnd src c.p : Int) s' :=
    bpContinue_invG be.bp be.node hc1.invE c hr1 hnl hnp hkind h2c.pc h2c.nodes h4 (fun hr =>
      (hrc hr).1.nodeR (hc1.inv.raw be.node (by rw [hkind]; exact hr)) (by omega) h04)
  have hleafraw : isRaw be.bp.kind = true → st.hasChildren = false := fun hr => h2c.leaf (by
    cases hbp : be.bp <;> rw [hbp] at hr <;> first | rfl | exact absurd hr (by decide))
  refine ⟨hinvE, fun hor => ⟨?_, fun hri4 => ?_⟩⟩
  · exact bpContinue_invG be.bp be.node hc1.inv c hr1 hnl hnp hkind h2c.pc h2c.nodes h4 (fun hr => by
      have hcf : st.cont = false := by
        rcases hor with h' | h'
        · rw [hleafraw hr] at h'; cases h'
        · exact h'
      rw [((hrc hr).2 hcf).1]
      exact hc1.inv.raw be.node (by rw [hkind]; exact hr))
  · by_cases hr : isRaw be.bp.kind = true
    · have hcf : st.cont = false := by
        rcases hor with h' | h'
        · rw [hleafraw hr] at h'; cases h'
        · exact h'
      exact ((hrc hr).2 hcf).2 c2 hri4
    · have pureC : (pure stClose : M PState) s = .ok (st, s') → PadL Lb c2 := fun e' => by
        obtain ⟨_, hs4⟩ := opure_ok e'
        rw [hs4] at hri4
        exact padl_of_ri_ri hr1 hri4 hpl
      cases hbp : be.bp <;> rw [hbp] at h4 hr hnl hnp
      case setext => exact pureC h4
      case thematic => exact pureC h4
      case list => exact absurd rfl hnl.1
      case listItem => exact absurd rfl hnl.2
      case code => exact absurd rfl hr
      case atx => exact pureC h4
      case fenced => exact absurd rfl hr
      case blockquote =>
        have e' : blockquoteContinue be.node s = .ok (st, s') := h4
        unfold blockquoteContinue at e'
        obtain ⟨b, s5, h5, k5⟩ := obind_ok e'
        obtain ⟨r5, c5, hs5, hri5, hle5, hb1, hb2⟩ := (blockquoteProcess_okl hr1).of_ok h5
        have hs45 : s' = s5 := by
          split at k5
          · exact (opure_ok k5).2
          · exact (opure_ok k5).2
        rw [hs45, hs5] at hri4
        refine padl_of_ri_ri hri5 hri4 ?_
        cases b with
        | true => intro _; have := hb1 rfl; omega
        | false => rw [hb2 rfl]; exact hpl
      case html => exact absurd rfl hr
      case paragraph => exact absurd rfl hnp


section line
variable {src : Bytes} {pts1 pts2 : List PT} (hag : AgreeP src pts1 pts2)
include hag

/-- `openBlocksT(thisParent)` then `closeBlocksT(lastIndex, i)` (parser.go:1108-1121) from a clean state -/
theorem lineTailT_eqg (L : Int) (ob : List Block) (li i : Int) (thisParent : Nat) (blank : Bool) (bl' : List LineStat)
    (s : St) (c : RCur) (hc : CleanG src L s c) (hent : Ent s.pc.opened s) (hil : i ≤ li) :
    EQV (fun _ s' => DirtyG src s')
      (do
        let lastNode ← liftE (blockAt ob li)
        let result ← openBlocksT pts1 thisParent blank
        if (result != OpenResult.paragraphContinuation) = true then do
            let __do_lift ← getPc
            closeBlocksT pts1
                (if (Option.map (fun x => x.node) (slotAfter ob __do_lift.opened li.toNat) != some lastNode.node) = true then
                  li - 1
                else li)
                i
            pure (LineOutcome.next, bl')
          else pure (LineOutcome.next, bl') : M _)
      (do
        let lastNode ← liftE (blockAt ob li)
        let result ← openBlocksT pts2 thisParent blank
        if (result != OpenResult.paragraphContinuation) = true then do
            let __do_lift ← getPc
            closeBlocksT pts2
                (if (Option.map (fun x => x.node) (slotAfter ob __do_lift.opened li.toNat) != some lastNode.node) = true then
                  li - 1
                else li)
                i
            pure (LineOutcome.next, bl')
          else pure (LineOutcome.next, bl') : M _) s := by
  refine EQV.bind_same (fun ln s1 h1 => ?_)
  obtain ⟨_, hs1⟩ := oliftE_ok h1
  subst s1
  refine EQV.bind (openBlocksT_eqg hag L thisParent blank s c hc hent) (fun res s2 _ hd => ?_)
  obtain ⟨E, hE, hstop⟩ := hd
  refine EQV.ite (fun _ => ?_) (fun _ => EQV.pure ⟨E, hE, hstop⟩)
  refine EQV.bind_same (fun pc s3 h3 => ?_)
  obtain ⟨_, hs3⟩ := ogetPc_ok h3
  subst s3
  refine EQV.bind (closeBlocksT_eqg hag.agree _ _ (by split <;> omega) hE hstop.source) (fun _ s4 _ h4 => ?_)
  obtain ⟨a1, a2, _, _⟩ := h4
  exact EQV.pure ⟨E, a1, hstop.congr a2⟩

/-- the fall-through continuation of one iteration of the `for i` loop -/
theorem lineFT_eqg (L : Int) (parent : Nat) (ob : List Block) (li i : Int) (blank : Bool) (bl' : List LineStat)
    (s : St) (c : RCur) (hc : CleanG src L s c) (hent : Ent s.pc.opened s) (hil : i ≤ li) :
    EQV (fun _ s' => DirtyG src s')
      (if (i != 0) = true then do
          let b ← liftE (blockAt ob (i - 1))
          let thisParent ← pure b.node
          let lastNode ← liftE (blockAt ob li)
          let result ← openBlocksT pts1 thisParent blank
          if (result != OpenResult.paragraphContinuation) = true then do
              let __do_lift ← getPc
              closeBlocksT pts1
                  (if (Option.map (fun x => x.node) (slotAfter ob __do_lift.opened li.toNat) != some lastNode.node) = true then
                    li - 1
                  else li)
                  i
              pure (LineOutcome.next, bl')
            else pure (LineOutcome.next, bl')
        else do
          let thisParent ← pure parent
          let lastNode ← liftE (blockAt ob li)
          let result ← openBlocksT pts1 thisParent blank
          if (result != OpenResult.paragraphContinuation) = true then do
              let __do_lift ← getPc
              closeBlocksT pts1
                  (if (Option.map (fun x => x.node) (slotAfter ob __do_lift.opened li.toNat) != some lastNode.node) = true then
                    li - 1
                  else li)
                  i
              pure (LineOutcome.next, bl')
            else pure (LineOutcome.next, bl') : M _)
      (if (i != 0) = true then do
          let b ← liftE (blockAt ob (i - 1))
          let thisParent ← pure b.node
          let lastNode ← liftE (blockAt ob li)
          let result ← openBlocksT pts2 thisParent blank
          if (result != OpenResult.paragraphContinuation) = true then do
              let __do_lift ← getPc
              closeBlocksT pts2
                  (if (Option.map (fun x => x.node) (slotAfter ob __do_lift.opened li.toNat) != some lastNode.node) = true then
                    li - 1
                  else li)
                  i
              pure (LineOutcome.next, bl')
            else pure (LineOutcome.next, bl')
        else do
          let thisParent ← pure parent
          let lastNode ← liftE (blockAt ob li)
          let result ← openBlocksT pts2 thisParent blank
          if (result != OpenResult.paragraphContinuation) = true then do
              let __do_lift ← getPc
              closeBlocksT pts2
                  (if (Option.map (fun x => x.node) (slotAfter ob __do_lift.opened li.toNat) != some lastNode.node) = true then
                    li - 1
                  else li)
                  i
              pure (LineOutcome.next, bl')
            else pure (LineOutcome.next, bl') : M _) s := by
  refine EQV.ite (fun _ => ?_) (fun _ => ?_)
  · refine EQV.bind_same (fun b s1 h1 => ?_)
    obtain ⟨_, hs1⟩ := oliftE_ok h1
    subst s1
    refine EQV.bind_same (fun tp s2 h2 => ?_)
    obtain ⟨htp, hs2⟩ := opure_ok h2
    subst s2
    subst tp
    exact lineTailT_eqg hag L ob li i b.node blank bl' s c hc hent hil
  · refine EQV.bind_same (fun tp s2 h2 => ?_)
    obtain ⟨htp, hs2⟩ := opure_ok h2
    subst s2
    subst tp
    exact lineTailT_eqg hag L ob li i parent blank bl' s c hc hent hil

end line

section run
variable {src : Bytes} (lsp : LSp src) {e : Panic} {pts1 pts2 : List PT} (hag : AgreeP src pts1 pts2)
  (hsp : GM.Blocks.L.G.X.PTsSpecX src e pts1)
include lsp hag hsp

omit lsp hag hsp in
/-- what `openBlocksT_eqg` needs of its entry state, from `StableG` -/
theorem ent_of_stable {root : Nat} {s : St} (hst : GM.Blocks.L.G.X.StableG src root s) : Ent s.pc.opened s := by
  refine ⟨hst.leafy, fun lb hl hk p hp => ?_⟩
  have hm := List.mem_of_getLast? hl
  have hbp : lb.bp = .paragraph := kind_paragraph (by rw [← (hst.blocks lb hm).kind]; exact hk)
  obtain ⟨q, hq⟩ := hst.leafLast lb hl (by rw [hbp]; rfl)
  have : p = q := by have := hq.par; rw [hp] at this; cases this; rfl
  subst this
  exact ⟨hq.last, hq.qlt⟩


omit hsp in
/-- one pass of the `for i` loop (parser.go:1081-1123), both transformer lists; hypotheses as `L.B.lineLoopL` -/
theorem lineLoopT_eqg {root : Nat} (parent : Nat) (hroot : parent = root) (ob : List Block) (li : Int)
    (hli : li = (ob.length : Int) - 1) (Lb : Int) :
    ∀ (rest pre : List Block) (i : Int) (bl : List LineStat) (s : St) (c : RCur), ob = pre ++ rest → i = (pre.length : Int) →
      s.pc.opened = ob → RI src s.r c → PadOK c → GM.Blocks.L.G.X.StableG src root s →
      (∀ Lk, pre.getLast? = some Lk → Lk.bp = .list → ListHint src s c Lk.node) →
      InvG src Lb s → Lb ≤ c.p → PadL Lb c →
      EQV (fun _ s' => DirtyG src s') (lineLoopT pts1 parent ob li rest i bl) (lineLoopT pts2 parent ob li rest i bl) s := by
  intro rest
  induction rest with
  | nil =>
    intro pre i bl s c _ _ _ hri hpad _ _ hinv hle hpl
    unfold lineLoopT
    exact EQV.pure (CleanG.mk hinv hri hpad hle hpl).dirty
  | cons be rest ih =>
    intro pre i bl s c hob hi hop hri hpad hst hhint hinv hle hpl
    unfold lineLoopT
    refine EQV.bind_same (fun y s1 h1 => ?_)
    obtain ⟨rfl, r1, hs1, hr1⟩ := peekLine_inv hri h1
    subst s1
    dsimp only
    have hst1 : GM.Blocks.L.G.X.StableG src root { s with r := r1 } := hst.congr rfl rfl rfl rfl
    have hhint1 : ∀ Lk, pre.getLast? = some Lk → Lk.bp = .list → ListHint src { s with r := r1 } c Lk.node := hhint
    have hc1 : CleanG src Lb { s with r := r1 } c := ⟨hinv.congr_r r1, hr1, hpad, hle, hpl⟩
    cases hv : RCur.view src c with
    | none =>
      dsimp only
      refine EQV.bind (closeBlocksT_eqg hag.agree _ _ (by rw [hli]; omega) hc1.invE hr1.source) (fun _ s2 _ h2 => ?_)
      obtain ⟨a1, a2, _, _⟩ := h2
      refine EQV.bind_same (fun _ s3 h3 => ?_)
      have e3 : s3 = { s2 with r := s2.r.advanceLine } := by cases h3; rfl
      subst s3
      have hstop2 : Stop src (lineEnd src c.p : Int) s2 := (RI.stop (s := { s with r := r1 }) hr1).congr a2
      exact EQV.pure ⟨_, a1.congr_r _, hstop2.toR.advanceLine.toS⟩
    | some line =>
      dsimp only
      have hp : c.p < src.length := view_some_lt src c hv
      have hlineOf : lineOf src c = line := by unfold lineOf; rw [hv]; rfl
      refine EQV.bind_same (fun pos s2 h2 => ?_)
      have e2 : s2 = { s with r := r1 } := by cases h2; rfl
      subst s2
      refine EQV.bind_same (fun n s3 h3 => ?_)
      obtain ⟨hn, e3⟩ := ogetNode_ok h3
      subst s3
      subst n
      have hbemem : be ∈ s.pc.opened := by rw [hop, hob]; simp
      have hbeok := hst1.blocks be hbemem
      obtain ⟨hchpre, hlink, hchrest⟩ := chainedO_split (hob ▸ hop ▸ hst1.chain)
      -- common treatment of the answer `st` of `Continue`, in state `s2`
      have after : ∀ (K1 K2 : M (LineOutcome × List LineStat)) (st : PState) (s2 : St) (c2 : RCur) (blankv : Bool)
          (bl' : List LineStat), GM.Blocks.L.G.X.StableG src root s2 → s2.pc.opened = ob → PadOK c2 →
          ((st.cont = true ∧ st.hasChildren = false) ∨ RI src s2.r c2) →
          (be.bp.isContainer = true → st.cont = true → st.hasChildren = true) →
          (be.bp.isContainer = false → st.hasChildren = false) →
          (st.cont = true → ∀ Lk, (pre ++ [be]).getLast? = some Lk → Lk.bp = .list → ListHint src s2 c2 Lk.node) →
          DirtyG src s2 →
          ((st.hasChildren = true ∨ st.cont = false) → RI src s2.r c2 → InvG src Lb s2 ∧ Lb ≤ c2.p ∧ PadL Lb c2) →
          (st.cont = false → RI src s2.r c2 → EQV (fun _ s' => DirtyG src s') K1 K2 s2) →
          EQV (fun _ s' => DirtyG src s')
            (if st.cont = true then
              if (st.hasChildren && i == li) = true then
                openBlocksT pts1 be.node blankv >>= fun _ => pure (LineOutcome.next, bl')
              else
                if (!false) = true then lineLoopT pts1 parent ob li rest (i + 1) bl' else K1
            else
              if (!true) = true then lineLoopT pts1 parent ob li rest (i + 1) bl' else K1)
            (if st.cont = true then
              if (st.hasChildren && i == li) = true then
                openBlocksT pts2 be.node blankv >>= fun _ => pure (LineOutcome.next, bl')
              else
                if (!false) = true then lineLoopT pts2 parent ob li rest (i + 1) bl' else K2
            else
              if (!true) = true then lineLoopT pts2 parent ob li rest (i + 1) bl' else K2) s2 := by
        intro K1 K2 st s2 c2 blankv bl' hst2 hop2 hpad2 hcase2 hcontc hleafc hhint2 hd2 hmine hK
        refine EQV.ite (fun hcont => ?_) (fun hcont => ?_)
        · refine EQV.ite (fun hch => ?_) (fun hch => ?_)
          · simp only [Bool.and_eq_true] at hch
            have hri2 : RI src s2.r c2 := by
              rcases hcase2 with ⟨_, h⟩ | h
              · rw [hch.1] at h; cases h
              · exact h
            obtain ⟨m1, m2, m3⟩ := hmine (.inl hch.1) hri2
            exact EQV.bind (openBlocksT_eqg hag Lb be.node blankv s2 c2 ⟨m1, hri2, hpad2, m2, m3⟩ (ent_of_stable hst2))
              (fun _ s3 _ hd3 => EQV.pure hd3)
          · refine EQV.ite (fun _ => ?_) (fun hf => absurd rfl hf)
            by_cases hhc : st.hasChildren = true
            · have hri2 : RI src s2.r c2 := by
                rcases hcase2 with ⟨_, h⟩ | h
                · rw [hhc] at h; cases h
                · exact h
              obtain ⟨m1, m2, m3⟩ := hmine (.inl hhc) hri2
              exact ih (pre ++ [be]) (i + 1) _ s2 c2 (by rw [hob]; simp) (by simp; omega) hop2 hri2 hpad2 hst2
                (hhint2 hcont) m1 m2 m3
            · have hbec : be.bp.isContainer = false := by
                cases hc : be.bp.isContainer with
                | false => rfl
                | true => exact absurd (hcontc hc hcont) hhc
              have hrest : rest = [] := by
                obtain ⟨_, hbe, _, _⟩ := leafy_split (hob ▸ hop ▸ hst.leafy)
                cases rest with
                | nil => rfl
                | cons r rs => have := hbe (by simp); rw [hbec] at this; cases this
              subst hrest
              unfold lineLoopT
              exact EQV.pure hd2
        · refine EQV.ite (fun h => absurd h (by decide)) (fun _ => ?_)
          have hri2 : RI src s2.r c2 := by
            rcases hcase2 with ⟨h, _⟩ | h
            · exact absurd h hcont
            · exact h
          exact hK (by simpa using hcont) hri2
      -- the fall-through continuation from a clean state
      have hil : i ≤ li := by
        have : (ob.length : Int) = pre.length + (rest.length + 1) := by rw [hob]; simp
        omega
      have useF := fun (s2 : St) (c2 : RCur) (blank : Bool) (bl' : List LineStat) (m1 : InvG src Lb s2) (m2 : Lb ≤ c2.p)
          (m3 : PadL Lb c2) (hp2 : PadOK c2) (hri2 : RI src s2.r c2) (hst2 : GM.Blocks.L.G.X.StableG src root s2) =>
        lineFT_eqg hag Lb parent ob li i blank bl' s2 c2 ⟨m1, hri2, hp2, m2, m3⟩ (ent_of_stable hst2) hil
      refine EQV.ite (fun hkind => ?_) (fun _ => ?_)
      · refine EQV.bind_same (fun st s4 h4 => ?_)
        by_cases hbl : be.bp = .list
        · -- listParser.Continue: the store and the cursor are what they were
          have hkl : (nd { s with r := r1 } be.node).kind = .list := by rw [hbeok.kind, hbl]; rfl
          have hitem : ListHasItem { s with r := r1 } be.node := by
            cases hr : rest with
            | nil =>
              exfalso
              have := hst1.endOK
              have hob1 : ({ s with r := r1 } : St).pc.opened = pre ++ [be] := by
                show s.pc.opened = _; rw [hop, hob, hr]
              rw [hob1, lastNode_concat] at this
              exact this hkl
            | cons b' rs =>
              rw [hr] at hchrest
              obtain ⟨h1', h2', h3'⟩ := hchrest.1.down hkl
              refine ⟨b'.node, h3', ?_⟩
              have hb'm : b' ∈ s.pc.opened := by rw [hop, hob, hr]; simp
              rw [(hst1.blocks b' hb'm).kind, h1']; rfl
          obtain ⟨lc, hlc, hlck⟩ := hitem
          have hitem : ListHasItem { s with r := r1 } be.node := ⟨lc, hlc, hlck⟩
          have h4' : listContinue be.node { s with r := r1 } = .ok (st, s4) := by
            have ebp : bpContinue be.bp be.node = listContinue be.node := by rw [hbl]; rfl
            rw [← ebp]; exact h4
          obtain ⟨r2, hr2, hri2, hn2, ho2, _, _, ht2, hf2, _, hcc2, hlc2⟩ :=
            (listContinue_okl2 src be.node { s with r := r1 } c hr1 hp hitem).of_ok h4'
          obtain ⟨hbl2, hnb2⟩ := hlc2 lc hlc
          have hst2 : GM.Blocks.L.G.X.StableG src root s4 := hst1.congr hn2 ho2 ht2 hf2
          have hri2' : RI src s4.r c := by rw [hr2]; exact hri2
          have hinv4 : InvG src Lb s4 := hc1.inv.of_same hn2 ho2 ht2
          refine after _ _ st s4 c _ _ hst2 (by rw [ho2]; exact hop) hpad (.inr hri2') (fun _ => hcc2)
            (fun hc => by rw [hbl] at hc; cases hc) ?_ (CleanG.mk hinv4 hri2' hpad hle hpl).dirty (fun _ _ => ⟨hinv4, hle, hpl⟩)
            (fun _ hri2'' => useF s4 c _ _ hinv4 hle hpl hpad hri2'' hst2)
          intro hcont Lk hLk hLkl
          rw [List.getLast?_concat] at hLk
          cases hLk
          refine ⟨lc, by rw [nd_eq_of_nodes_eq hn2]; exact hlc, fun hnb => ?_⟩
          obtain ⟨hpc, hg, hth⟩ := hnb2 hnb
          have hst' : st = stContinueHasChildren := by
            rcases hg.1 with h | h
            · rw [h] at hcont; cases hcont
            · exact h
          rw [nd_eq_of_nodes_eq hn2, nd_eq_of_nodes_eq hn2, hpc, ← hst']
          exact ⟨hg, fun a b c' => hth hcont a b c'⟩
        · by_cases hbi : be.bp = .listItem
          · -- listItemParser.Continue: `IndentPosition` is not −1 because the list went on
            have hkL : (nd { s with r := r1 } (lastNode root pre)).kind = .list := hlink.up hbi
            obtain ⟨_, hparL, hlastL⟩ := hlink.down hkL
            obtain ⟨Lk, hLk, hLn⟩ : ∃ Lk, pre.getLast? = some Lk ∧ Lk.node = lastNode root pre := by
              unfold lastNode
              cases hg : pre.getLast? with
              | none =>
                exfalso
                have : lastNode root pre = root := by unfold lastNode; rw [hg]; rfl
                rw [this, hst1.ls.rootKind] at hkL; cases hkL
              | some Lk => exact ⟨Lk, rfl, rfl⟩
            have hLkm : Lk ∈ s.pc.opened := by rw [hop, hob]; exact List.mem_append_left _ (List.mem_of_getLast? hLk)
            have hLkl : Lk.bp = .list := by
              have := (hst1.blocks Lk hLkm).kind
              rw [hLn, hkL] at this
              exact kind_list this.symm
            obtain ⟨lc, hlc, hg⟩ := hhint1 Lk hLk hLkl
            rw [hLn] at hlc hg
            have hlcbe : lc = be.node := by rw [hlastL] at hlc; cases hlc; rfl
            subst hlcbe
            have hkk := li_kidsOK_of hst1.ls.kids (lastNode root pre) hkL
            have hoffe : li_lastOff { s with r := r1 } (lastNode root pre) = (nd { s with r := r1 } be.node).offset := by
              unfold li_lastOff; rw [hlastL]
            have hoff : 0 ≤ li_lastOff { s with r := r1 } (lastNode root pre) := by
              rw [hoffe]; exact hst1.ls.kids.off be.node (by rw [hbeok.kind, hbi]; rfl)
            have hlist : li_ListContinued src { s with r := r1 } c be.node (lastNode root pre) := by
              unfold li_ListContinued
              simp only
              intro hnb
              rw [hoffe]
              obtain ⟨hgo, _⟩ := hg hnb
              have hns := hgo.not_short rfl
              refine ⟨hns.1, fun hh => ?_⟩
              refine hns.2.1 ⟨?_, hh.2.1, fun ⟨m, typ, hm, ht, _⟩ => ?_⟩
              · have := hh.1
                simp only [Bool.and_eq_true, beq_iff_eq] at this
                exact List.isEmpty_iff_length_eq_zero.2 this.1
              · have := hh.2.2.2
                rw [li_matchesListItem_strict] at this
                have hm' : matchesListItem (lineOf src c) false = (m, typ) := hm
                unfold lineOf at hm'
                rw [hm'] at this
                exact ht this
            have h4' : listItemContinue be.node { s with r := r1 } = .ok (st, s4) := by
              have ebp : bpContinue be.bp be.node = listItemContinue be.node := by rw [hbi]; rfl
              rw [← ebp]; exact h4
            obtain ⟨c2, hri2, hpad2, hle2, hn2, ho2, ht2, hf2, hcc2, _, _⟩ :=
              (listItemContinue_okl2 src be.node { s with r := r1 } c hr1 hpad hp (lastNode root pre) hparL hkk hoff
                hlist).of_ok h4'
            have hst2 : GM.Blocks.L.G.X.StableG src root s4 := hst1.congr hn2 ho2 ht2 hf2
            have hinv4 : InvG src Lb s4 := hc1.inv.of_same hn2 ho2 ht2
            have hle4 : Lb ≤ c2.p := by omega
            have hpl4 : PadL Lb c2 :=
              listItemContinue_padl hr1 hp hle hpl (lastNode root pre) hparL hkk hoff h4' c2 hri2
            refine after _ _ st s4 c2 _ _ hst2 (by rw [ho2]; exact hop) hpad2 (.inr hri2) (fun _ => hcc2)
              (fun hc => by rw [hbi] at hc; cases hc) ?_ (CleanG.mk hinv4 hri2 hpad2 hle4 hpl4).dirty
              (fun _ _ => ⟨hinv4, hle4, hpl4⟩)
              (fun _ hri2'' => useF s4 c2 _ _ hinv4 hle4 (listItemContinue_padl hr1 hp hle hpl (lastNode root pre) hparL hkk
                hoff h4' c2 hri2'') hpad2 hri2'' hst2)
            intro _ Lk' hLk' hLkl'
            rw [List.getLast?_concat] at hLk'
            cases hLk'
            rw [hbi] at hLkl'; cases hLkl'
          · -- the other eight parsers: their contract `ContPost`, and `bpContinue_invGT`
            have hnl : NotList be.bp := ⟨hbl, hbi⟩
            have hnp : be.bp ≠ .paragraph := by
              intro hbp
              have hkp : (nd { s with r := r1 } be.node).kind = .paragraph := by rw [hbeok.kind, hbp]; rfl
              have hkind' : (nd { s with r := r1 } be.node).kind ≠ .paragraph := by simpa [nd] using hkind
              exact hkind' hkp
            have h2c := (GM.Blocks.W.contW_all src be.bp hnl.1 hnl.2 be.node { s with r := r1 } c hr1 hpad hp hst1.nodes hst1.keys
              hbeok).of_ok h4
            have hts2 := lsp.contTS be.bp be.node _ st s4 h4
            obtain ⟨c2, hria2, hpad2, hle2, _, hcase2⟩ := h2c.ria
            have hst2 : GM.Blocks.L.G.X.StableG src root s4 :=
              hst1.same h2c.ext h2c.nodes hts2 (by rw [h2c.pc]) (by rw [h2c.pc]) (by rw [h2c.pc])
            obtain ⟨hinvE, hrest⟩ := bpContinue_cleanG (c2 := c2) be hc1 hp hst1.keys hbeok.kind hnl hnp h2c h4
            have hle4 : Lb ≤ c2.p := by omega
            have hstop4 : Stop src (lineEnd src c.p : Int) s4 := by
              have := (bpContinue_pres (stop_prims src (lineEnd src c.p : Int)) be.bp be.node).h _
                (RI.stop (s := { s with r := r1 }) hr1)
              rw [h4] at this; exact this
            refine after _ _ st s4 c2 _ _ hst2 (by rw [h2c.pc]; exact hop) hpad2 hcase2 h2c.cont h2c.leaf ?_
              ⟨_, hinvE, hstop4⟩ (fun hor hri4 => ⟨(hrest hor).1, hle4, (hrest hor).2 hri4⟩)
              (fun hcf hri2'' => useF s4 c2 _ _ (hrest (.inr hcf)).1 hle4 ((hrest (.inr hcf)).2 hri2'') hpad2 hri2'' hst2)
            intro _ Lk' hLk' hLkl'
            rw [List.getLast?_concat] at hLk'
            cases hLk'
            exact absurd hLkl' hbl
      · refine EQV.ite (fun h => absurd h (by decide)) (fun _ => ?_)
        exact useF { s with r := r1 } c _ _ hc1.inv hle hpl hpad hr1 hst1

omit lsp hag hsp in
/-- `DirtyG` at the end of a line gives `InvG` up to the start of the next line -/
theorem dirty_nextG {s : St} {c : RCur} (hd : DirtyG src s) (hria : RIa src s.r c) :
    InvG src ((RCur.advanceLine src c).p : Int) { s with r := s.r.advanceLine } := by
  obtain ⟨E, hE, hstop⟩ := hd
  have h1 := GM.Blocks.L.ria_stop hria
  have h2 := hstop.lb
  exact (hE.mono (by show E ≤ (lineEnd src c.p : Int); omega)).congr_r _

/-- the loop over lines (parser.go:1074-1126), both transformer lists -/
theorem linesLoopT_eqg {root : Nat} (parent : Nat) (hroot : parent = root) :
    ∀ (fuel : Nat) (bl : List LineStat) (s : St) (c : RCur),
      RI src s.r c → PadOK c → GM.Blocks.L.G.X.StableG src root s → InvG src (c.p : Int) s → c.pad = 0 →
      EQV (fun x s' => (x.1 = true → DirtyG src s') ∧
          (x.1 = false → ∃ c', RI src s'.r c' ∧ PadOK c' ∧ GM.Blocks.L.G.X.StableG src root s' ∧ s'.pc.opened = [] ∧
            InvG src (c'.p : Int) s' ∧ c'.pad = 0))
        (linesLoopT pts1 parent fuel bl) (linesLoopT pts2 parent fuel bl) s := by
  intro fuel
  induction fuel with
  | zero => intro bl s c _ _ _ _ _; unfold linesLoopT; exact EQV.throw
  | succ fuel ih =>
    intro bl s c hri hpad hst hinv hp0
    unfold linesLoopT
    refine EQV.bind_same (fun pc s0 h0 => ?_)
    obtain ⟨hpc, hs0⟩ := ogetPc_ok h0
    subst s0
    subst pc
    dsimp only
    refine EQV.ite (fun hl => ?_) (fun _ => ?_)
    · refine EQV.pure ⟨(fun h => by cases h), fun _ => ⟨c, hri, hpad, hst, ?_, hinv, hp0⟩⟩
      exact List.length_eq_zero_iff.1 (by simpa using hl)
    · refine EQV.bind (lineLoopT_eqg lsp hag parent hroot s.pc.opened ((s.pc.opened.length : Int) - 1) rfl (c.p : Int)
        s.pc.opened [] 0 bl s c (by simp) (by simp) rfl hri hpad hst (fun Lk h => by simp at h) hinv (Int.le_refl _)
        (fun hne => absurd hp0 hne))
        (fun y s1 h1 hd1 => ?_)
      have hll := oke_of_ok (GM.Blocks.L.G.X.lineLoopL lsp hsp parent hroot s.pc.opened ((s.pc.opened.length : Int) - 1) rfl
        s.pc.opened [] 0 bl s c (by simp) (by simp) rfl hri hpad hst (fun Lk h => by simp at h)) h1
      obtain ⟨c1, hria1, hst1⟩ := hll
      obtain ⟨outcome, bl1⟩ := y
      cases outcome with
      | eof =>
        dsimp only
        exact EQV.pure ⟨fun _ => hd1, (fun h => by cases h)⟩
      | next =>
        dsimp only
        refine EQV.bind_same (fun _ s2 h2 => ?_)
        have e2 : s2 = { s1 with r := s1.r.advanceLine } := by cases h2; rfl
        subst s2
        exact ih bl1 _ _ (advanceLine_ria hria1) (padOK_advanceLine c1) (hst1.congr_r _) (dirty_nextG hd1 hria1) rfl

/-- the outer loop of parseBlocksT (parser.go:1055-1127), both transformer lists -/
theorem blocksLoopT_eqg {root : Nat} (parent : Nat) (hroot : parent = root) :
    ∀ (fuel : Nat) (bl : List LineStat) (s : St) (c : RCur), RI src s.r c → PadOK c → GM.Blocks.L.G.X.StableG src root s →
      s.pc.opened = [] → InvG src (c.p : Int) s → c.pad = 0 →
      EQV (fun _ s' => ∃ E, InvG src E s') (blocksLoopT pts1 parent fuel bl) (blocksLoopT pts2 parent fuel bl) s := by
  intro fuel
  induction fuel with
  | zero => intro _ _ _ _ _ _ _ _ _; unfold blocksLoopT; exact EQV.throw
  | succ fuel ih =>
    intro bl s c hri hpad hst hemp hinv hp0
    unfold blocksLoopT
    refine EQV.bind_same (fun y s1 h1 => ?_)
    -- SkipBlankLines
    have hskip : ∃ r1 c1, s1 = { s with r := r1 } ∧ RI src r1 c1 ∧ PadOK c1 ∧ c.p ≤ c1.p ∧ c1.pad = 0 := by
      unfold skipBlankLinesR at h1
      cases hsk : skipBlankLines readerOps (loopFuel s.r.source) 0 s.r with
      | error e => rw [hsk] at h1; simp [bind, Except.bind] at h1
      | ok p =>
        rw [hsk] at h1
        simp only [bind, Except.bind, pure, Except.pure] at h1
        cases h1
        obtain ⟨c1, a1, a2, a3⟩ := GM.Blocks.L.skipBlankLines_mono (src := src) _ _ _ c p.1 p.2 hri hpad hsk
        exact ⟨p.2, c1, rfl, a1, a2, a3.1, a3.2 hp0⟩
    obtain ⟨r1, c1, hs1, hri1, hpad1, hle1, hp1⟩ := hskip
    subst s1
    obtain ⟨seg, lines, ok⟩ := y
    have hst1 := hst.congr_r r1
    have hinv1 : InvG src (c1.p : Int) { s with r := r1 } := (hinv.mono (by omega)).congr_r r1
    dsimp only
    refine EQV.ite (fun _ => EQV.pure ⟨_, hinv1⟩) (fun _ => ?_)
    refine EQV.bind_same (fun pos s2 h2 => ?_)
    have e2 : s2 = { s with r := r1 } := by cases h2; rfl
    subst s2
    refine EQV.bind_same (fun pc s3 h3 => ?_)
    obtain ⟨hpc, e3⟩ := ogetPc_ok h3
    subst s3
    subst pc
    dsimp only
    refine EQV.bind (openBlocksT_eqg hag (c1.p : Int) parent _ { s with r := r1 } c1
      ⟨hinv1, hri1, hpad1, Int.le_refl _, fun hne => absurd hp1 hne⟩
      (ent_of_stable hst1))
      (fun res s4 h4 hd4 => ?_)
    have hcl : Call ({ s with r := r1 } : St).pc.opened [] := ⟨⟨s.pc.opened, by simp, fun h b hb => by
      rw [show ({ s with r := r1 } : St).pc.opened = s.pc.opened from rfl, hemp] at hb; cases hb⟩⟩
    have hkroot : (nd ({ s with r := r1 } : St) parent).kind ≠ .list := by
      rw [hroot, hst1.ls.rootKind]; decide
    have hob := oke_of_ok (GM.Blocks.L.G.X.openBlocksL (e := e) (pts := pts1) lsp hsp [] parent _ { s with r := r1 } c1 hri1 hpad1
      hst1 hcl (by rw [hroot]; rfl) (fun hk => absurd hk hkroot)) h4
    obtain ⟨c2, new2, hria2, _, hw2, hleafy2, _, _, hend2, _, htl2, _, hlk2, _⟩ := hob
    have hop2 : s4.pc.opened = new2 := by
      rcases hw2.shape with e | ⟨h, _⟩
      · rw [e]; show s.pc.opened ++ new2 = new2; rw [hemp]; rfl
      · exact absurd hemp h
    have hst2 : GM.Blocks.L.G.X.StableG src root s4 :=
      ⟨hw2.nodes, hw2.keys, hw2.blocks, by rw [hop2]; exact hleafy2, hw2.ls, by rw [hop2]; simpa using hw2.chain,
        by rw [hop2]; simpa using hend2, htl2, hw2.tree,
        fun lb hlb hl => ⟨_, hlk2 lb (by rw [← hop2]; exact hlb) hl⟩,
        fun t ht => Nat.lt_of_lt_of_le (hw2.tmplt t ht) hw2.ext.len⟩
    refine EQV.ite (fun _ => ?_) (fun _ => ?_)
    · obtain ⟨E, hE, _⟩ := hd4
      exact EQV.pure ⟨E, hE⟩
    · refine EQV.bind_same (fun _ s5 h5 => ?_)
      have e5 : s5 = { s4 with r := s4.r.advanceLine } := by cases h5; rfl
      subst s5
      have hri5 := advanceLine_ria hria2
      have hpad5 := padOK_advanceLine (src := src) c2
      have hst5 := hst2.congr_r s4.r.advanceLine
      have hinv5 := dirty_nextG hd4 hria2
      refine EQV.bind (linesLoopT_eqg lsp hag hsp parent hroot fuel _ _ _ hri5 hpad5 hst5 hinv5 rfl) (fun z s6 _ hq => ?_)
      obtain ⟨q1, q2⟩ := hq
      obtain ⟨ret, bl3⟩ := z
      dsimp only
      refine EQV.ite (fun hret => ?_) (fun hret => ?_)
      · obtain ⟨E, hE, _⟩ := q1 hret
        exact EQV.pure ⟨E, hE⟩
      · obtain ⟨c3, hri3, hpad3, hst3, hemp3, hinv3, hp3⟩ := q2 (by simpa using hret)
        exact ih bl3 s6 c3 hri3 hpad3 hst3 hemp3 hinv3 hp3

end run

end GM.Blocks.TX
