/-
  GM.Proof.BlocksClosedAll — "every block that closeBlocks pops is handed to its parser's `Close`", as an equation.

  parser.closeBlocks (parser.go:900-918) skips the `Close` of a block whose node is detached (`Parent() == nil`,
  parser.go:904-909). Under the close discipline (`CInv`, GM.Proof.BlocksClosedInv) that test never fails: the loop of
  closeBlocks equals the loop WITHOUT the test (`closeAll`), as state transformers — same final state, same panic.
  For users who reason about what `Close` does (heading ids, attributes): they may work with `closeAll`.
-/
import GM.Proof.BlocksClosedEnd

namespace GM.Blocks
open GM GM.Text GM.Spec GM.Proof.Reader
open GM.Proof.BlocksWF0 (isRaw)

/-- the loop of closeBlocks without the `Parent() != nil` test: `Close` for every block of the list, in order -/
def closeAll : List Block → M Unit
  | [] => pure ()
  | b :: bs => do
    bpClose b.bp b.node
    closeAll bs

/-- **closeBlocks never skips a `Close`** under the close discipline: the hypotheses are those of `closeList_cl`
    (the blocks `l` are closed top first, only the top may be a leaf; the Paragraph / setext blocks `K` that stay open are
    guarded; a closing setext heading's paragraph is not an open block). -/
theorem closeList_eq_closeAll {src : Bytes} : ∀ (l K : List Block) (s : St), CInv src s (l ++ K) → s.r.source = src →
    (∀ b ∈ l.tail, b.bp.isContainer = true) → (∀ g ∈ K, PSb g → Guard s l g) →
    ((∃ b ∈ l, b.bp = .setext) → ∀ t, s.pc.tmpPara = some t → ∀ g ∈ l ++ K, g.bp = .paragraph → g.node ≠ t) →
    closeList l s = closeAll l s := by
  intro l
  induction l with
  | nil => intro K s _ _ _ _ _; rfl
  | cons b rest ih =>
    intro K s h hsrc hcont hG hsx
    have h' : CInv src s (b :: (rest ++ K)) := by simpa using h
    have hatt := h'.att b (List.mem_cons_self ..)
    have hrestc : ∀ g ∈ rest, g.bp.isContainer = true := fun g hg => hcont g (by simpa using hg)
    unfold closeList closeAll
    have hnode : (s.nodes.getD b.node default).parent.isSome = true := hatt
    simp only [bind, StateT.bind, getNode, pure, StateT.pure, Except.bind, Except.pure, hnode, if_true]
    cases hb : bpClose b.bp b.node s with
    | error e => rfl
    | ok p =>
      obtain ⟨u, s1⟩ := p
      simp only
      obtain ⟨hc1, hs1⟩ := bpClose_cl h' hsrc (fun g hg hp => by
          rcases List.mem_append.1 hg with hg | hg
          · exact absurd hp (not_ps_of_container (hrestc g hg))
          · obtain ⟨q, q1, q2, q3, q4⟩ := hG g hg hp
            exact ⟨q, q1, q2, q3, fun L hL => q4 L (by
              simp only [List.mem_singleton] at hL; rw [hL]; exact List.mem_cons_self ..)⟩)
        (fun hbs t ht g hg hgp => hsx ⟨b, List.mem_cons_self .., hbs⟩ t ht g (by simpa using hg) hgp) hb
      have hG1 : ∀ g ∈ K, PSb g → Guard s1 rest g := fun g hg hp =>
        (hG g hg hp).step hs1 (List.mem_append_right _ hg) hp (fun L hL => List.mem_cons_of_mem _ hL)
      have hsx1 : (∃ b' ∈ rest, b'.bp = .setext) → ∀ t, s1.pc.tmpPara = some t → ∀ g ∈ rest ++ K, g.bp = .paragraph →
          g.node ≠ t := by
        rintro ⟨b', hb', hbs⟩
        have := hrestc b' hb'
        rw [hbs] at this; cases this
      exact ih K s1 hc1 (by rw [hs1.r]; exact hsrc) (fun g hg => hrestc g (List.mem_of_mem_tail hg)) hG1 hsx1

end GM.Blocks
