/-
  GM.Proof.CMFragClassUQ — stage 15 of GM.Spec.CMFrag (a stage-13 union document inside one block quote):
  * `uqclean_class`: the source `spellU d` of the contents (`UQFrag d`) is in the class `GM.Blocks.C08Class` of the
    block-quote simulation (GM.Proof.QuoteSimTop): no tab, no carriage return, a final line feed, no byte that could
    start a list item; `uqclean_no_bracket`: it contains no `[`; `uqclean_no_star`: and no `*` (no emphasis atom);
  * `spellUQ_eq`: the spec-side `quoteLines` is the model-side `GM.Blocks.quotePrefix`;
  * `expectedUQ_eq_expected`: the prescribed HTML agrees with the spec model GM.Spec.CommonMark through `uqembed`.
-/
import GM.Proof.CMFragClassQ
import GM.Proof.CMFrag13Bridge
import GM.Proof.CMFragRenderQ
import GM.Proof.CMFragSpecQ
import GM.Proof.CMFragSpec13
namespace GM.Proof.CMFrag
open GM GM.Spec.CM GM.Spec.CMFrag

theorem uqfrag_partsUQ (d : UDocS) (h : UQFrag d) :
    UFrag d ∧ d.items ≠ [] ∧ (∀ c ∈ spellU d, qcleanByte c = true) ∧ ∀ it ∈ d.items, it.block.isIc = false := by
  have := h
  simp only [UQFrag, uqfragB, Bool.and_eq_true, List.all_eq_true, Bool.not_eq_true', List.isEmpty_eq_false_iff] at this
  exact ⟨this.1.1.1, this.1.1.2, this.1.2, this.2⟩

/-- a quoted union document has no indented code block -/
theorem uqfrag_noic {d : UDocS} (h : UQFrag d) : ∀ it ∈ d.items, it.block.isIc = false := (uqfrag_partsUQ d h).2.2.2

theorem uqfrag_ufrag {d : UDocS} (h : UQFrag d) : UFrag d := (uqfrag_partsUQ d h).1

theorem uqfrag_items_ne {d : UDocS} (h : UQFrag d) : d.items ≠ [] := (uqfrag_partsUQ d h).2.1

/-! ### the source ends with a line feed -/

theorem uqendsNl_spellUBlock (b : UBlockS) (hok : ublockOKS b = true) : EndsNlQ (spellUBlock b) := by
  cases b with
  | para lines =>
    simp only [ublockOKS, Bool.and_eq_true, Bool.not_eq_true', List.isEmpty_eq_false_iff] at hok
    rw [spellUBlock]
    exact endsNl_flatMapQ _ lines hok.1.1 (fun x _ => ⟨spellULine x, rfl⟩)
  | heading level text => exact ⟨_, rfl⟩
  | thematic c n => exact ⟨_, rfl⟩
  | fcode tilde n info lines => exact ⟨_, rfl⟩
  | icode lines =>
    simp only [ublockOKS, Bool.and_eq_true, Bool.not_eq_true', List.isEmpty_eq_false_iff] at hok
    rw [spellUBlock]
    exact endsNl_flatMapQ _ lines hok.1 (fun x _ => ⟨[32, 32, 32, 32] ++ x, rfl⟩)

theorem uqendsNl_spellU (d : UDocS) (hok : ∀ it ∈ d.items, ublockOKS it.block = true) (hne : d.items ≠ []) :
    EndsNlQ (spellU d) := by
  rw [spellU]
  refine EndsNlQ.trailQ ?_ _
  exact endsNl_flatMapQ _ d.items hne (fun it hit => (uqendsNl_spellUBlock it.block (hok it hit)).prepend _)

/-! ### the class -/

/-- the contents of a stage-15 document are in the class of the block-quote simulation -/
theorem uqclean_class (d : UDocS) (h : UQFrag d) : GM.Blocks.C08Class (spellU d) := by
  obtain ⟨hu, hne, hc, _⟩ := uqfrag_partsUQ d h
  exact
    { tf := fun c hcm => (qclean_facts c (hc c hcm)).1
      cr := fun c hcm => (qclean_facts c (hc c hcm)).2.1
      nl := (uqendsNl_spellU d (ufrag_parts13 d hu).1 hne).getLast
      nolist := fun c hcm => (qclean_facts c (hc c hcm)).2.2.2 }

/-- no `[` in the contents: no link reference definition, no link -/
theorem uqclean_no_bracket (d : UDocS) (h : UQFrag d) : ∀ c ∈ spellU d, c ≠ 91 :=
  fun c hcm => (qclean_facts c ((uqfrag_partsUQ d h).2.2.1 c hcm)).2.2.1

/-- no `*` in the contents: no emphasis delimiter run at all -/
theorem uqclean_no_star (d : UDocS) (h : UQFrag d) : ∀ c ∈ spellU d, c ≠ 42 :=
  fun c hcm => (qclean_facts c ((uqfrag_partsUQ d h).2.2.1 c hcm)).2.2.2.2.1

/-! ### the source and the prescribed HTML -/

theorem spellUQ_eq (d : UDocS) : spellUQ d = GM.Blocks.quotePrefix (spellU d) := quoteLines_eq _

/-- UQ1: the prescribed HTML -/
theorem expectedUQ_eq_expected (d : UDocS) (h : UFrag d) : expectedUQ d = expected (uqembed d) := by
  have hk := expectedU_eq_expected d h
  rw [expected, expectedPieces] at hk
  rw [expected, expectedPieces, uqembed, expectedUQ, hk]
  simp only [expBs, expB, wrap, Spec.CM.nl, List.append_nil]
  rw [List.cons_append, List.cons_append]
  simp only [Spec.CM.render, List.flatMap_cons, List.flatMap_append, List.flatMap_nil, Spec.CM.renderPiece, quoteOpenQ,
    quoteCloseQ, List.append_assoc, List.append_nil]

end GM.Proof.CMFrag
