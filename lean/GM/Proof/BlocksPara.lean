/-
  GM.Proof.BlocksPara — paragraph.go and thematic_break.go entry points: no panic from an `RI` reader, and the
  line segments they put into the tree lie inside the source (the local half of C05(c) for these parsers).
-/
import GM.Proof.BlocksQuote

namespace GM.Blocks
open GM GM.Text GM.Spec GM.Proof.Reader

theorem set_length_append {α} (l : List α) (x y : α) : (l ++ [x]).set l.length y = l ++ [y] := by
  induction l with
  | nil => rfl
  | cons a l ih => simp [List.set, ih]

theorem getD_length_append {α} (l : List α) (x d : α) : (l ++ [x]).getD l.length d = x := by
  induction l with
  | nil => rfl
  | cons a l ih => simpa using ih

theorem length_takeWhile_le'' {α} (p : α → Bool) (l : List α) : (l.takeWhile p).length ≤ l.length := by
  induction l with
  | nil => simp
  | cons c cs ih => simp only [List.takeWhile]; split <;> simp <;> omega

/-- Segment.TrimLeftSpace on a segment inside the source -/
theorem trimLeftSpace_ok {src : Bytes} {t : Segment} (h : SegOK src t) :
    ∃ t', t.trimLeftSpace src = .ok t' ∧ SegOK src t' ∧ t'.stop = t.stop ∧ t.start ≤ t'.start ∧ t'.padding = 0 := by
  obtain ⟨h0, h1, h2, h3⟩ := h
  unfold Segment.trimLeftSpace
  rw [sliceB_ok src h0 h1 h2]
  simp only [bind, Except.bind, pure, Except.pure]
  have hl : (trimLeftSpaceLength (sub src t.start.toNat t.stop.toNat) : Int) ≤ t.stop - t.start := by
    have a := length_takeWhile_le'' isSpace (sub src t.start.toNat t.stop.toNat)
    have b := length_sub src (a := t.start.toNat) (b := t.stop.toNat) (by omega)
    unfold trimLeftSpaceLength
    omega
  refine ⟨_, rfl, ⟨?_, ?_, h2, ?_⟩, rfl, ?_, rfl⟩ <;> simp only <;> omega

/-- Segment.TrimRightSpace on a segment inside the source -/
theorem trimRightSpace_ok {src : Bytes} {t : Segment} (h : SegOK src t) :
    ∃ t', t.trimRightSpace src = .ok t' ∧ SegOK src t' ∧ t'.start = t.start ∧ t'.stop ≤ t.stop := by
  obtain ⟨h0, h1, h2, h3⟩ := h
  unfold Segment.trimRightSpace
  rw [sliceB_ok src h0 h1 h2]
  simp only [bind, Except.bind, pure, Except.pure]
  have hl : (trimRightSpaceLength (sub src t.start.toNat t.stop.toNat) : Int) ≤ t.stop - t.start := by
    have a := length_takeWhile_le'' isSpace (sub src t.start.toNat t.stop.toNat).reverse
    have b := length_sub src (a := t.start.toNat) (b := t.stop.toNat) (by omega)
    unfold trimRightSpaceLength
    simp only [List.length_reverse] at a
    omega
  split
  · exact ⟨_, rfl, ⟨h0, Int.le_refl _, by simp only; omega, by simp⟩, rfl, h1⟩
  · refine ⟨_, rfl, ⟨h0, ?_, ?_, h3⟩, rfl, ?_⟩ <;> simp only <;> omega

/-- paragraphParser.Open: total on an `RI` reader; a new Paragraph node, when there is one, is the next node of
    the store and holds exactly one line, inside the source; nothing else of the store or context changes -/
theorem paragraphOpen_okl {src} {s : St} {c : RCur} (h : RI src s.r c) (parent : Nat) :
    OKL (fun a s' => ∃ r' c', s'.r = r' ∧ RI src r' c' ∧ c.p ≤ c'.p ∧ s'.pc = s.pc ∧ a.2 = stNoChildren ∧
        ((a.1 = none ∧ s'.nodes = s.nodes ∧ c' = c) ∨
         (a.1 = some s.nodes.length ∧ ∃ nd seg, s'.nodes = s.nodes ++ [nd] ∧ nd.kind = .paragraph ∧
            nd.lines = [seg] ∧ SegOK src seg ∧ nd.parent = none)))
      (paragraphOpen parent s) := by
  unfold paragraphOpen
  refine OKL.bind (peekLine_okl h) (fun x s1 hx => ?_)
  obtain ⟨hx, r1, hs1, h1⟩ := hx
  subst hx hs1
  simp only
  obtain ⟨t', ht, hok, hstop, hstart, hpad⟩ := trimLeftSpace_ok (seg_ok src c h.inRange)
  refine OKL.bind (m := source) (P := fun v s' => v = src ∧ s' = { s with r := r1 }) (OKL.ok ⟨h1.source, rfl⟩) (fun v s2 hv => ?_)
  obtain ⟨hv, hs2⟩ := hv
  subst hs2
  rw [hv]
  refine OKL.bind (liftE_okl (P := fun a s' => a = t' ∧ s' = { s with r := r1 }) ht ⟨rfl, rfl⟩) (fun a s3 ha => ?_)
  obtain ⟨ha, hs3⟩ := ha
  subst ha hs3
  by_cases he : a.isEmpty = true
  · rw [if_pos he]
    exact OKL.ok ⟨r1, c, rfl, h1, Nat.le_refl _, rfl, rfl, .inl ⟨rfl, rfl, rfl⟩⟩
  · rw [if_neg he]
    have hlen : 0 ≤ a.len - 1 := by
      unfold Segment.isEmpty at he
      unfold Segment.len
      simp only [hpad] at he ⊢
      have : ¬ (a.start ≥ a.stop) := by intro hh; apply he; simp [hh]
      omega
    simp only [bind, StateT.bind, newNode, appendLine, modNode, pure, StateT.pure, Except.bind, Except.pure]
    have hadv := advance_okl (src := src)
      (s := { r := r1, nodes := (s.nodes ++ [({ kind := Kind.paragraph } : Node)]).set s.nodes.length
                ({ ((s.nodes ++ [({ kind := Kind.paragraph } : Node)]).getD s.nodes.length default) with
                    lines := ((s.nodes ++ [({ kind := Kind.paragraph } : Node)]).getD s.nodes.length default).lines ++ [a],
                    linesNil := false }), pc := s.pc }) (c := c) h1 hlen
    rcases hadv with ⟨_, s4, e4, r4, hs4, h4⟩ | e4
    · rw [e4]
      simp only
      refine OKL.ok ⟨r4, _, by rw [hs4], h4, (GM.Proof.Reader.advN_mono src _ c h.inRange).1, by rw [hs4], rfl, .inr ⟨rfl, ?_⟩⟩
      rw [hs4]
      simp only [getD_length_append, set_length_append]
      exact ⟨_, a, rfl, rfl, rfl, hok, rfl⟩
    · rw [e4]; exact .inr rfl


/-- paragraphParser.Continue: total on an `RI` reader; either `Close` with nothing changed, or the current
    line's segment (inside the source, not empty) is appended to `node` and the cursor moves on in the line -/
theorem paragraphContinue_okl {src} {s : St} {c : RCur} (h : RI src s.r c) (node : Nat) :
    OKL (fun st s' => ∃ r' c', s'.r = r' ∧ RI src r' c' ∧ c.p ≤ c'.p ∧ s'.pc = s.pc ∧
        ((st = stClose ∧ s'.nodes = s.nodes ∧ c' = c) ∨
         (st = stContinueNoChildren ∧ c.p < src.length ∧ SegOK src (RCur.seg src c) ∧
            s'.nodes = s.nodes.set node
              { (s.nodes.getD node default) with
                  lines := (s.nodes.getD node default).lines ++ [RCur.seg src c], linesNil := false })))
      (paragraphContinue node s) := by
  unfold paragraphContinue
  refine OKL.bind (peekLine_okl h) (fun x s1 hx => ?_)
  obtain ⟨hx, r1, hs1, h1⟩ := hx
  subst hx hs1
  simp only
  by_cases hb : isBlank ((RCur.view src c).getD []) = true
  · rw [if_pos hb]
    exact OKL.ok ⟨r1, c, rfl, h1, Nat.le_refl _, rfl, .inl ⟨rfl, rfl, rfl⟩⟩
  · rw [if_neg hb]
    have hp : c.p < src.length := by
      rcases Nat.lt_or_ge c.p src.length with hp | hp
      · exact hp
      · rw [view_none src c (by omega)] at hb; simp [isBlank] at hb
    have hv := view_eq src c hp
    have hl := view_len src c hp hv
    have hl2 := view_length src c hp hv
    have hlen : 0 ≤ (RCur.seg src c).len - 1 := by omega
    simp only [bind, StateT.bind, appendLine, modNode, pure, StateT.pure, Except.bind, Except.pure]
    have hadv := advance_okl (src := src)
      (s := { r := r1, nodes := s.nodes.set node
                { (s.nodes.getD node default) with
                    lines := (s.nodes.getD node default).lines ++ [RCur.seg src c], linesNil := false }, pc := s.pc })
      (c := c) h1 hlen
    rcases hadv with ⟨_, s4, e4, r4, hs4, h4⟩ | e4
    · rw [e4]
      simp only
      refine OKL.ok ⟨r4, _, by rw [hs4], h4, (GM.Proof.Reader.advN_mono src _ c h.inRange).1, by rw [hs4], .inr ⟨rfl, hp, seg_ok src c h.inRange, by rw [hs4]⟩⟩
    · rw [e4]; exact .inr rfl

theorem tbLoop_nil : isThematicBreak [] 0 = false ∧ ∀ off, isThematicBreak [] off = false := by
  constructor
  · simp [isThematicBreak, indentWidthI, indentWidthGo, tbLoop]
  · intro off; simp [isThematicBreak, indentWidthI, indentWidthGo, tbLoop]

/-- thematicBreakParser.Open: total on an `RI` reader; a new ThematicBreak node without lines, or nothing -/
theorem thematicOpen_okl {src} {s : St} {c : RCur} (h : RI src s.r c) (parent : Nat) :
    OKL (fun a s' => ∃ r' c', s'.r = r' ∧ RI src r' c' ∧ c.p ≤ c'.p ∧ s'.pc = s.pc ∧ a.2 = stNoChildren ∧
        ((a.1 = none ∧ s'.nodes = s.nodes ∧ c' = c) ∨
         (a.1 = some s.nodes.length ∧ s'.nodes = s.nodes ++ [{ kind := .thematicBreak }])))
      (thematicOpen parent s) := by
  unfold thematicOpen
  refine OKL.bind (peekLine_okl h) (fun x s1 hx => ?_)
  obtain ⟨hx, r1, hs1, h1⟩ := hx
  subst hx hs1
  simp only
  refine OKL.bind (lineOffset_okl (s := { s with r := r1 }) h1) (fun lo s2 hlo => ?_)
  obtain ⟨_, r2, hs2, h2⟩ := hlo
  subst hs2
  by_cases hb : isThematicBreak ((RCur.view src c).getD []) lo = true
  · rw [if_pos hb]
    have hp : c.p < src.length := by
      rcases Nat.lt_or_ge c.p src.length with hp | hp
      · exact hp
      · rw [view_none src c (by omega)] at hb; simp [tbLoop_nil.2] at hb
    have hv := view_eq src c hp
    have hl := view_len src c hp hv
    have hl2 := view_length src c hp hv
    have hlen : 0 ≤ (RCur.seg src c).len - 1 := by omega
    refine OKL.bind (advance_okl (s := { s with r := r2 }) h2 hlen) (fun _ s4 h4 => ?_)
    obtain ⟨r4, hs4, h4⟩ := h4
    subst hs4
    simp only [bind, StateT.bind, newNode, pure, StateT.pure, Except.bind, Except.pure]
    exact OKL.ok ⟨r4, _, rfl, h4, (GM.Proof.Reader.advN_mono src _ c h.inRange).1, rfl, rfl, .inr ⟨rfl, rfl⟩⟩
  · rw [if_neg hb]
    exact OKL.ok ⟨r2, c, rfl, h2, Nat.le_refl _, rfl, rfl, .inl ⟨rfl, rfl, rfl⟩⟩

/-- every line of a block inside the source -/
def LinesOK (src : Bytes) (ls : List Segment) : Prop := ∀ t ∈ ls, SegOK src t

theorem trimLeftAll_ok {src : Bytes} : ∀ {ls : List Segment}, LinesOK src ls →
    ∃ ls', trimLeftAll src ls = .ok ls' ∧ LinesOK src ls' ∧ ls'.length = ls.length := by
  intro ls
  induction ls with
  | nil => intro _; exact ⟨[], rfl, (fun _ h => by cases h), rfl⟩
  | cons l ls ih =>
    intro h
    obtain ⟨t', ht, hok, _⟩ := trimLeftSpace_ok (h l (by simp))
    obtain ⟨ls', hls, hok', hlen⟩ := ih (fun t ht => h t (by simp [ht]))
    unfold trimLeftAll
    rw [ht, hls]
    simp only [bind, Except.bind, pure, Except.pure]
    refine ⟨_, rfl, ?_, by simp [hlen]⟩
    intro t ht
    simp only [List.mem_cons] at ht
    rcases ht with rfl | ht
    · exact hok
    · exact hok' t ht

/-- paragraphParser.Close on a paragraph whose lines lie in the source and that has a line: no panic, the
    reader and the context are untouched, the node keeps as many lines, all still inside the source, and
    stays where it is in the tree -/
theorem paragraphClose_okl {src} {s : St} (node : Nat) (hsrc : s.r.source = src)
    (hl : LinesOK src (s.nodes.getD node default).lines) (hne : (s.nodes.getD node default).lines ≠ []) :
    OKL (fun _ s' => s'.r = s.r ∧ s'.pc = s.pc ∧ ∃ ls, LinesOK src ls ∧
        ls.length = (s.nodes.getD node default).lines.length ∧
        s'.nodes = s.nodes.set node { (s.nodes.getD node default) with lines := ls })
      (paragraphClose node s) := by
  have hlen : ((s.nodes.getD node default).lines.length != 0) = true := by
    cases hh : (s.nodes.getD node default).lines with
    | nil => exact absurd hh hne
    | cons a b => simp
  obtain ⟨ls', hls, hok', hlen'⟩ := trimLeftAll_ok hl
  have hpos : 0 < ls'.length := by
    rw [hlen']; cases hh : (s.nodes.getD node default).lines with
    | nil => exact absurd hh hne
    | cons a b => simp
  -- lines.At(length-1)
  have hidx : ((ls'.length : Int) - 1).toNat < ls'.length := by omega
  have hat : lineAt ls' ((ls'.length : Int) - 1) = .ok (ls'[((ls'.length : Int) - 1).toNat]) := by
    unfold lineAt segAt
    have : ¬ ((ls'.length : Int) - 1 < 0) := by omega
    rw [if_neg this, List.getElem?_eq_getElem hidx]
  obtain ⟨t', ht, hokt, _, _⟩ := trimRightSpace_ok (hok' _ (List.getElem_mem hidx))
  have hset : lineSet ls' ((ls'.length : Int) - 1) t' = .ok (ls'.set ((ls'.length : Int) - 1).toNat t') := by
    unfold lineSet
    rw [if_pos ⟨by omega, by omega⟩]
  have hls'' : LinesOK src (ls'.set ((ls'.length : Int) - 1).toNat t') := by
    intro t htm
    rcases List.mem_or_eq_of_mem_set htm with h1 | h1
    · exact hok' t h1
    · rw [h1]; exact hokt
  unfold paragraphClose
  simp only [bind, StateT.bind, getNode, source, pure, StateT.pure, Except.bind, Except.pure, liftE, Except.map,
    hlen, if_true, hsrc, hls, hat, ht, hset, modNode]
  -- the paragraph still has lines: it is not removed
  by_cases hnode : node < s.nodes.length
  · have hget : (s.nodes.set node { (s.nodes.getD node default) with lines := ls'.set ((ls'.length : Int) - 1).toNat t' }).getD node default
        = { (s.nodes.getD node default) with lines := ls'.set ((ls'.length : Int) - 1).toNat t' } := by
      simp [List.getD, List.getElem?_set, hnode]
    rw [hget]
    have hz : (((ls'.set ((ls'.length : Int) - 1).toNat t').length == 0) = false) := by
      rw [List.length_set]; exact beq_false_of_ne (by omega)
    simp only [hz, Bool.false_eq_true, if_false]
    exact OKL.ok ⟨rfl, rfl, _, hls'', by simp [hlen'], rfl⟩
  · exfalso
    have : s.nodes.getD node default = default := by
      simp [List.getD, List.getElem?_eq_none (Nat.le_of_not_lt hnode)]
    rw [this] at hne
    exact hne rfl

end GM.Blocks
