/-
  GM.Proof.BlocksTNO16 — THE CLOSE DISCIPLINE FOR WHOLE RUNS of the block phase WITH paragraph transformers
  (GM.Proof.BlocksClosedEnd for `runT`): at every line boundary `CInvG src s s.pc.opened` holds, the run ends with an empty
  stack, and in the final store every non-raw node has padding 0 on all its lines — EXCEPT a parentless Heading node: the
  node setextHeadingParser.Open built on an underline whose paragraph was then transformed away (link reference
  definitions only) stays in the store, unattached, with its raw bar line. (So wf0's `run_closed`, ∀ n ∈ s.nodes, is FALSE
  for `runT [transform]`: `> [a]: /u⏎>⇥===⏎`, example at the end.) Every node that is attached — every entry of a child
  list — has padding 0.
-/
import GM.Proof.BlocksTNO41

namespace GM.Blocks.TX
open GM GM.Text GM.Spec GM.Proof.Reader GM.LinkRef GM.Blocks.L GM.Blocks.T GM.Blocks.TO GM.TableX
open GM.Proof.BlocksWF0 (isRaw)

section run
variable {src : Bytes} {pts : List PT} (hag : AgreeP src pts pts) (hagT : AgreeT src pts) (lsp : LSp src) {e : Panic} (hsp : GM.Blocks.L.G.X.PTsSpecX src e pts)
include hag hagT lsp hsp

/-- the loop over lines (parser.go:1074-1126) under the close discipline -/
theorem linesLoopT_clG {root : Nat} (parent : Nat) (hroot : parent = root) :
    ∀ (fuel : Nat) (bl : List LineStat) (s : St) (c : RCur) (x : Bool × List LineStat) (s' : St),
      RI src s.r c → PadOK c → GM.Blocks.L.G.X.StableG src root s → InvG src (c.p : Int) s → c.pad = 0 →
      CInvG False src s s.pc.opened →
      linesLoopT pts parent fuel bl s = .ok (x, s') →
      CInvG False src s' s'.pc.opened ∧ (x.1 = true → s'.pc.opened = []) := by
  intro fuel
  induction fuel with
  | zero => intro bl s c x s' _ _ _ _ _ _ h; unfold linesLoopT at h; cases h
  | succ fuel ih =>
    intro bl s c x s' hri hpad hst hinv hp0 hci h
    unfold linesLoopT at h
    obtain ⟨pc, s0, h0, k0⟩ := obind_ok h
    obtain ⟨hpc, hs0⟩ := ogetPc_ok h0
    subst s0
    subst pc
    dsimp only at k0
    split at k0
    · next hl =>
      obtain ⟨hx, hs⟩ := opure_ok k0
      subst s'
      subst x
      exact ⟨hci, fun h => by cases h⟩
    · obtain ⟨y, s1, h1, k1⟩ := obind_ok k0
      have hll := oke_of_ok (GM.Blocks.L.G.X.lineLoopL lsp hsp parent hroot s.pc.opened ((s.pc.opened.length : Int) - 1) rfl
        s.pc.opened [] 0 bl s c (by simp) (by simp) rfl hri hpad hst (fun Lk h => by simp at h)) h1
      obtain ⟨c1, hria1, hst1⟩ := hll
      have hd1 := (lineLoopT_eqg lsp hag parent hroot s.pc.opened ((s.pc.opened.length : Int) - 1) rfl (c.p : Int)
        s.pc.opened [] 0 bl s c (by simp) (by simp) rfl hri hpad hst (fun Lk h => by simp at h) hinv (Int.le_refl _)
        (fun hne => absurd hp0 hne)).2 y s1 h1
      have hq1 := lineLoopT_clG hag hagT lsp hsp parent hroot s.pc.opened ((s.pc.opened.length : Int) - 1) rfl (c.p : Int)
        s.pc.opened [] 0 bl s c y s1 (by simp) (by simp) rfl hri hpad hst (fun Lk h => by simp at h) hinv (Int.le_refl _)
        (fun hne => absurd hp0 hne) hci h1
      obtain ⟨outcome, bl1⟩ := y
      cases outcome with
      | eof =>
        dsimp only at k1
        obtain ⟨hx, hs⟩ := opure_ok k1
        subst s'
        subst x
        exact ⟨hq1.1, fun _ => hq1.2 rfl⟩
      | next =>
        dsimp only at k1
        obtain ⟨_, s2, h2, k2⟩ := obind_ok k1
        have e2 : s2 = { s1 with r := s1.r.advanceLine } := by cases h2; rfl
        subst s2
        exact ih bl1 _ _ x s' (advanceLine_ria hria1) (padOK_advanceLine c1) (hst1.congr_r _) (dirty_nextG hd1 hria1) rfl
          (hq1.1.of_same rfl rfl rfl) k2

/-- the outer loop of parseBlocksT (parser.go:1055-1127) under the close discipline: it ends with an empty stack -/
theorem blocksLoopT_clG {root : Nat} (parent : Nat) (hroot : parent = root) :
    ∀ (fuel : Nat) (bl : List LineStat) (s : St) (c : RCur) (s' : St), RI src s.r c → PadOK c →
      GM.Blocks.L.G.X.StableG src root s → s.pc.opened = [] → InvG src (c.p : Int) s → c.pad = 0 →
      CInvG False src s s.pc.opened →
      blocksLoopT pts parent fuel bl s = .ok ((), s') →
      CInvG False src s' s'.pc.opened ∧ s'.pc.opened = [] := by
  intro fuel
  induction fuel with
  | zero => intro _ _ _ _ _ _ _ _ _ _ _ h; unfold blocksLoopT at h; cases h
  | succ fuel ih =>
    intro bl s c s' hri hpad hst hemp hinv hp0 hci h
    unfold blocksLoopT at h
    obtain ⟨y, s1, h1, k1⟩ := obind_ok h
    have hskip : ∃ r1 c1, s1 = { s with r := r1 } ∧ RI src r1 c1 ∧ PadOK c1 ∧ c.p ≤ c1.p ∧ c1.pad = 0 := by
      unfold skipBlankLinesR at h1
      cases hsk : skipBlankLines readerOps (loopFuel s.r.source) 0 s.r with
      | error e => rw [hsk] at h1; simp [bind, Except.bind] at h1
      | ok p =>
        rw [hsk] at h1
        simp only [bind, Except.bind, pure, Except.pure] at h1
        cases h1
        obtain ⟨c1, a1, a2, a3⟩ := GM.Blocks.L.skipBlankLines_mono (src := src) _ _ _ c p.1 p.2 hri hpad hsk
        exact ⟨p.2, c1, rfl, a1, a2, a3.1, a3.2 hp0⟩
    obtain ⟨r1, c1, hs1, hri1, hpad1, hle1, hp1⟩ := hskip
    subst s1
    obtain ⟨seg, lines, ok⟩ := y
    have hst1 := hst.congr_r r1
    have hinv1 : InvG src (c1.p : Int) { s with r := r1 } := (hinv.mono (by omega)).congr_r r1
    have hci1 : CInvG False src { s with r := r1 } s.pc.opened := hci.of_same rfl rfl rfl
    dsimp only at k1
    split at k1
    · obtain ⟨_, hs⟩ := opure_ok k1
      subst s'
      exact ⟨hci1, hemp⟩
    · obtain ⟨pos, s2, h2, k2⟩ := obind_ok k1
      have e2 : s2 = { s with r := r1 } := by cases h2; rfl
      subst s2
      obtain ⟨pc, s3, h3, k3⟩ := obind_ok k2
      obtain ⟨hpc, e3⟩ := ogetPc_ok h3
      subst s3
      subst pc
      dsimp only at k3
      obtain ⟨res, s4, h4, k4⟩ := obind_ok k3
      have hcl : Call ({ s with r := r1 } : St).pc.opened [] := ⟨⟨s.pc.opened, by simp, fun h b hb => by
        rw [show ({ s with r := r1 } : St).pc.opened = s.pc.opened from rfl, hemp] at hb; cases hb⟩⟩
      have hkroot : (nd ({ s with r := r1 } : St) parent).kind ≠ .list := by
        rw [hroot, hst1.ls.rootKind]; decide
      have hob := oke_of_ok (GM.Blocks.L.G.X.openBlocksL (e := e) (pts := pts) lsp hsp [] parent _ { s with r := r1 } c1 hri1 hpad1
        hst1 hcl (by rw [hroot]; rfl) (fun hk => absurd hk hkroot)) h4
      obtain ⟨c2, new2, hria2, _, hw2, hleafy2, _, _, hend2, _, htl2, _, hlk2, _⟩ := hob
      have hop2 : s4.pc.opened = new2 := by
        rcases hw2.shape with e | ⟨h, _⟩
        · rw [e]; show s.pc.opened ++ new2 = new2; rw [hemp]; rfl
        · exact absurd hemp h
      have hst2 : GM.Blocks.L.G.X.StableG src root s4 :=
        ⟨hw2.nodes, hw2.keys, hw2.blocks, by rw [hop2]; exact hleafy2, hw2.ls, by rw [hop2]; simpa using hw2.chain,
          by rw [hop2]; simpa using hend2, htl2, hw2.tree,
          fun lb hlb hl => ⟨_, hlk2 lb (by rw [← hop2]; exact hlb) hl⟩,
          fun t ht => Nat.lt_of_lt_of_le (hw2.tmplt t ht) hw2.ext.len⟩
      have hd4 := (openBlocksT_eqg hag (c1.p : Int) parent _ { s with r := r1 } c1
        ⟨hinv1, hri1, hpad1, Int.le_refl _, fun hne => absurd hp1 hne⟩
        (ent_of_stable hst1)).2 res s4 h4
      obtain ⟨how, hsame⟩ := openBlocksT_clG hag hagT (c1.p : Int) parent _ { s with r := r1 } c1 res s4
        ⟨hinv1, hri1, hpad1, Int.le_refl _, fun hne => absurd hp1 hne⟩ (ent_of_stable hst1) hci1 (by rw [hroot]; exact hst1.ls.rootLt)
        (by rw [hroot, hst1.ls.rootKind]; decide) h4
      split at k4
      · next hres =>
        obtain ⟨_, hs⟩ := opure_ok k4
        subst s'
        have hne : res ≠ .newBlocksOpened := by simpa using hres
        refine ⟨how.ci, ?_⟩
        have := hsame hne
        rw [show ({ s with r := r1 } : St).pc.opened = s.pc.opened from rfl, hemp] at this
        exact List.eq_nil_of_sublist_nil this
      · obtain ⟨_, s5, h5, k5⟩ := obind_ok k4
        have e5 : s5 = { s4 with r := s4.r.advanceLine } := by cases h5; rfl
        subst s5
        obtain ⟨z, s6, h6, k6⟩ := obind_ok k5
        have hri5 := advanceLine_ria hria2
        have hpad5 := padOK_advanceLine (src := src) c2
        have hst5 := hst2.congr_r s4.r.advanceLine
        have hinv5 := dirty_nextG hd4 hria2
        obtain ⟨q1, q2⟩ := (linesLoopT_eqg lsp hag hsp parent hroot fuel _ _ _ hri5 hpad5 hst5 hinv5 rfl).2 z s6 h6
        obtain ⟨p1, p2⟩ := linesLoopT_clG hag hagT lsp hsp parent hroot fuel _ _ _ z s6 hri5 hpad5 hst5 hinv5 rfl
          (how.ci.of_same rfl rfl rfl) h6
        obtain ⟨ret, bl3⟩ := z
        dsimp only at k6
        split at k6
        · next hret =>
          obtain ⟨_, hs⟩ := opure_ok k6
          subst s'
          exact ⟨p1, p2 hret⟩
        · next hret =>
          obtain ⟨c3, hri3, hpad3, hst3, hemp3, hinv3, hp3⟩ := q2 (by simpa using hret)
          exact ih bl3 s6 c3 s' hri3 hpad3 hst3 hemp3 hinv3 hp3 p1 k6

end run

section fin
variable {src : Bytes} {pts : List PT} {e : Panic}

/-- the whole block phase with transformers: the close discipline holds of the final store, with an empty stack -/
theorem runT_closed_aux (hag : AgreeP src pts pts) (hagT : AgreeT src pts) (hsp : GM.Blocks.L.G.X.PTsSpecX src e pts) (s : St) (h : runT pts src = .ok s) :
    CInvG False src s [] ∧ s.pc.opened = [] := by
  have hnd0 : ∀ i, nd ({ (initSt src) with pc := { (initSt src).pc with opened := [] } } : St) i =
      if i = 0 then { kind := .document } else default := by
    intro i
    cases i with
    | zero => rfl
    | succ n => rfl
  have hnodes0 : NodesOK src { (initSt src) with pc := { (initSt src).pc with opened := [] } } := by
    intro n hn
    simp only [initSt, List.mem_singleton] at hn
    subst hn
    exact ⟨by intro t ht; simp at ht, fun _ => rfl⟩
  have hinit : GM.Blocks.L.G.X.StableG src 0 { (initSt src) with pc := { (initSt src).pc with opened := [] } } := by
    refine ⟨hnodes0, ⟨?_⟩, ?_, ?_, ⟨⟨?_, ?_, ?_⟩, ?_, ?_, ?_, ?_, ?_⟩, ?_, ?_, (fun ⟨b, hb, _⟩ => by simp at hb), ?tree,
      (fun lb hlb _ => by simp at hlb), (fun t h => by simp [initSt] at h)⟩
    case tree =>
      refine ⟨fun i p hp => ?_, fun p i hi => ?_, fun p => ?_⟩
      · rw [hnd0] at hp; split at hp <;> cases hp
      · rw [hnd0] at hi; split at hi <;> cases hi
      · rw [hnd0]; split <;> exact List.nodup_nil
    · intro f h; simp [initSt] at h
    · intro b hb; simp at hb
    · intro b hb; simp at hb
    · intro i lc hk; rw [hnd0] at hk; split at hk <;> cases hk
    · intro i hk; rw [hnd0] at hk; split at hk <;> cases hk
    · intro i p hp; rw [hnd0] at hp; split at hp <;> cases hp
    · intro i p hp; rw [hnd0] at hp; split at hp <;> cases hp
    · rw [hnd0]; rfl
    · simp [initSt]
    · intro b hb; simp at hb
    · simp
    · trivial
    · show (nd _ (lastNode 0 [])).kind ≠ .list
      rw [lastNode_nil, hnd0]; decide
  have hinv0 : InvG src ((RCur.init).p : Int) { (initSt src) with pc := { (initSt src).pc with opened := [] } } := by
    refine ⟨fun i _ _ => ?_, List.Pairwise.nil, fun i hk => ?_, fun t ht => ?_, fun b hb => ?_, hnodes0, fun t ht => ?_,
      fun i _ => ?_, fun i hk => ?_, fun b hb => (by simp at hb)⟩
    · rw [hnd0]; split
      · exact ⟨trivial, fun _ => Below.nil _, fun t ht => by cases ht⟩
      · exact ⟨trivial, fun _ => Below.nil _, fun t ht => by cases ht⟩
    · rw [hnd0] at hk; split at hk <;> cases hk
    · simp [initSt] at ht
    · simp at hb
    · simp [initSt] at ht
    · rw [hnd0]; split
      · exact ⟨trivial, Below.nil _⟩
      · exact ⟨trivial, Below.nil _⟩
    · rw [hnd0] at hk; split at hk <;> cases hk
  have hci0 : CInvG False src { (initSt src) with pc := { (initSt src).pc with opened := [] } } [] := by
    refine ⟨⟨_, _, hinv0⟩, ⟨fun i p hp => ?_, fun x c hc => ?_, fun x => ?_⟩, fun i _ => .inl (fun t ht => ?_),
      (fun b hb => by cases hb), List.nodup_nil, (fun b hb => by cases hb), fun i _ => by rw [hnd0]; split <;> rfl⟩
    · rw [hnd0] at hp; split at hp <;> cases hp
    · rw [hnd0] at hc; split at hc <;> cases hc
    · rw [hnd0]; split <;> exact List.nodup_nil
    · rw [hnd0] at ht; split at ht <;> cases ht
  have hp : parseBlocksT pts 0 (initSt src) = blocksLoopT pts 0 (linesFuel src) []
      { (initSt src) with pc := { (initSt src).pc with opened := [] } } := rfl
  unfold runT at h
  rw [hp] at h
  cases hx : blocksLoopT pts 0 (linesFuel src) [] { (initSt src) with pc := { (initSt src).pc with opened := [] } } with
  | error e' => rw [hx] at h; cases h
  | ok p =>
    obtain ⟨u, s1⟩ := p
    rw [hx] at h
    have : s1 = s := by simpa [Except.map] using h
    subst this
    obtain ⟨a1, a2⟩ := blocksLoopT_clG hag hagT (lsp_all src) hsp 0 rfl (linesFuel src) []
      { (initSt src) with pc := { (initSt src).pc with opened := [] } } RCur.init s1 (ri_init src)
      (fun h => absurd rfl h) hinit rfl hinv0 rfl hci0 hx
    rw [a2] at a1
    exact ⟨a1, a2⟩

end fin

/-! ### the twins' list: agreement with itself, the tree form of the table step -/

theorem agreeP_self_twins (src : Bytes) (e : Panic) : AgreeP src [guardE e, tableE e src] [guardE e, tableE e src] :=
  fun node s a b c d f => ⟨rfl, fun g s' h => by
    have h1 := agreeP_twins src e node s a b c d f
    exact h1.2 g s' h⟩

theorem agreeT_twins (src : Bytes) (e : Panic) : AgreeT src [guardE e, tableE e src] := by
  intro node s hsrc hlt hk hn hok htr g s' hrun
  have hok' : linesOKB s.r.source (nd s node).lines = true := by rw [hsrc]; exact hok
  unfold transformParagraph at hrun
  obtain ⟨_, s1, h1, k1⟩ := obind_ok hrun
  rw [GM.Proof.LinkRefTot2.guardE_passes e node s hok'] at h1
  have hp1 : PTPost node s s1 := TO.transform_post node s s1 (GM.Proof.LinkRefTot2.linesOKB_sound hok') h1
  obtain ⟨n2, s2, h2, k2⟩ := obind_ok k1
  obtain ⟨hn2, hs2⟩ := ogetNode_ok h2
  subst s2
  split at k2
  · obtain ⟨_, hs'⟩ := opure_ok k2
    subst s'
    exact .inl hp1
  · have hv1 : TO.tblLinesB src (nd s1 node).lines = true := by
      obtain ⟨k, hk'⟩ := ptpost_lines hlt hp1 node
      rw [hk']; exact tblLinesB_drop k (tblLinesB_of_linesOKB hok)
    unfold transformParagraph at k2
    obtain ⟨_, s3, h3, k3⟩ := obind_ok k2
    rw [tableE_passes e src node s1 hv1] at h3
    have hs' : s' = s3 := by
      obtain ⟨n4, s4, h4, k4⟩ := obind_ok k3
      obtain ⟨_, hs4⟩ := ogetNode_ok h4
      subst s4
      split at k4
      · exact (opure_ok k4).2
      · unfold transformParagraph at k4
        exact (opure_ok k4).2
    subst hs'
    rcases transformPT_data src h3 with ⟨_, hs⟩ | ⟨t, htb, hpar, _⟩
    · subst hs; exact .inl hp1
    · obtain ⟨p, hp⟩ := Option.isSome_iff_exists.1 hpar
      refine .inr ⟨s1, t, p, hp1, htb, hp, fun htr1 => ?_⟩
      rcases transformPT_post src htr1 h3 with ⟨hnone, _⟩ | ⟨t', p', htb', hpar', hT⟩
      · rw [hnone] at htb; cases htb
      · rw [htb] at htb'; cases htb'
        rw [hp] at hpar'; cases hpar'
        exact hT

/-- the close discipline of the final store of the run with the link reference and the table transformer -/
theorem runT_tableX_cinv (src : Bytes) (s : St) (h : runT [transform, transformPT src] src = .ok s) :
    CInvG False src s [] ∧ s.pc.opened = [] := by
  rw [← twins_never_fire src .nil] at h
  exact runT_closed_aux (agreeP_self_twins src .nil) (agreeT_twins src .nil) (twins_specX src .nil) s h

end GM.Blocks.TX
