/-
  GM.Proof.BlocksTotal — total correctness (no Go panic) of block-parser entry points, one at a time, from the
  reader invariant `RI` (GM.Proof.BlocksReader), with what they append to the tree.

  `OKL P x`: the run `x : Except Panic (α × St)` ended normally in a value and state satisfying `P`, or it is
  the fuel error (which GM.Proof.BlocksRetry.run_noLoop excludes for whole runs). Forward symbolic execution:
  `OKL.bind` hands the intermediate value and state, with their facts, to the rest of the `do` block.
-/
import GM.Proof.BlocksReader

namespace GM.Blocks
open GM GM.Text GM.Spec GM.Proof.Reader

def OKL {α : Type} (P : α → St → Prop) (x : Except Panic (α × St)) : Prop :=
  (∃ a s', x = .ok (a, s') ∧ P a s') ∨ x = .error .loop

theorem OKL.ok {α} {P : α → St → Prop} {a : α} {s' : St} (h : P a s') : OKL P (.ok (a, s')) :=
  .inl ⟨a, s', rfl, h⟩

theorem OKL.bind {α β} {P : α → St → Prop} {Q : β → St → Prop} {m : M α} {f : α → M β} {s : St}
    (hm : OKL P (m s)) (hf : ∀ a s', P a s' → OKL Q (f a s')) : OKL Q ((m >>= f) s) := by
  show OKL Q (StateT.bind m f s)
  unfold StateT.bind
  rcases hm with ⟨a, s', h1, h2⟩ | h1
  · rw [h1]; exact hf a s' h2
  · rw [h1]; exact .inr rfl

theorem OKL.mono {α} {P Q : α → St → Prop} {x : Except Panic (α × St)} (h : OKL P x)
    (hpq : ∀ a s, P a s → Q a s) : OKL Q x := by
  rcases h with ⟨a, s', h1, h2⟩ | h1
  · exact .inl ⟨a, s', h1, hpq a s' h2⟩
  · exact .inr h1

/-- a run that ended normally -/
theorem OKL.get {α} {P : α → St → Prop} {x : Except Panic (α × St)} (h : OKL P x) (hl : x ≠ .error .loop) :
    ∃ a s', x = .ok (a, s') ∧ P a s' := by
  rcases h with h | h
  · exact h
  · exact absurd h hl

/-! ### the reader calls at the level of `M` -/

theorem peekLine_okl {src} {s : St} {c : RCur} (h : RI src s.r c) :
    OKL (fun x s' => x = (RCur.view src c, RCur.seg src c) ∧ ∃ r', s' = { s with r := r' } ∧ RI src r' c)
      (peekLine s) := by
  obtain ⟨r', h1, h2⟩ := ri_peekLine h
  unfold GM.Blocks.peekLine
  rw [h1]
  exact OKL.ok ⟨rfl, r', rfl, h2⟩

theorem lineOffset_okl {src} {s : St} {c : RCur} (h : RI src s.r c) :
    OKL (fun v s' => (c.p < src.length → v = loVal src c) ∧ ∃ r', s' = { s with r := r' } ∧ RI src r' c)
      (lineOffset s) := by
  obtain ⟨v, r', h1, h2, h3⟩ := ri_lineOffset h
  unfold GM.Blocks.lineOffset
  rw [h1]
  exact OKL.ok ⟨h3, r', rfl, h2⟩

theorem advance_okl {src} {s : St} {c : RCur} (h : RI src s.r c) {n : Int} (hn : 0 ≤ n) :
    OKL (fun _ s' => ∃ r', s' = { s with r := r' } ∧ RI src r' (RCur.advN src n.toNat c)) (advance n s) := by
  obtain ⟨r', h1, h2⟩ := ri_advance h hn
  unfold GM.Blocks.advance
  rw [h1]
  exact OKL.ok ⟨r', rfl, h2⟩

theorem advanceAndSetPadding_okl {src} {s : St} {c : RCur} (h : RI src s.r c) {n : Int} (hn : 0 ≤ n) (p : Int) :
    OKL (fun _ s' => ∃ r', s' = { s with r := r' } ∧ RI src r' (advPadCur src n p c))
      (advanceAndSetPadding n p s) := by
  obtain ⟨r', h1, h2⟩ := ri_advanceAndSetPadding h hn p
  unfold GM.Blocks.advanceAndSetPadding
  rw [h1]
  exact OKL.ok ⟨r', rfl, h2⟩

theorem liftE_okl {α} {P : α → St → Prop} {e : Except Panic α} {a : α} {s : St} (he : e = .ok a) (h : P a s) :
    OKL P (liftE e s) := by
  subst he; exact OKL.ok h

/-! ### facts about a line view -/

/-- a segment inside the source, as C05(c) wants it -/
def SegOK (src : Bytes) (t : Segment) : Prop :=
  0 ≤ t.start ∧ t.start ≤ t.stop ∧ t.stop ≤ src.length ∧ 0 ≤ t.padding

theorem seg_ok (src : Bytes) (c : RCur) (h : c.p ≤ src.length) : SegOK src (RCur.seg src c) := by
  have h1 := lineEnd_le src c.p
  have h2 := lineEnd_ge src h
  unfold RCur.seg SegOK
  simp only
  omega

theorem view_eq (src : Bytes) (c : RCur) (hp : c.p < src.length) :
    RCur.view src c = some (spaces c.pad ++ sub src c.p (lineEnd src c.p)) := by
  simp [RCur.view, hp]

theorem view_none (src : Bytes) (c : RCur) (hp : ¬ c.p < src.length) : RCur.view src c = none := by
  simp [RCur.view, hp]

/-- the length of the view is `Segment.Len()` of its segment -/
theorem view_len (src : Bytes) (c : RCur) (hp : c.p < src.length) {l : Bytes} (h : RCur.view src c = some l) :
    (l.length : Int) = (RCur.seg src c).len := by
  rw [view_eq src c hp] at h
  cases h
  have h1 := lineEnd_le src c.p
  have h2 := lt_lineEnd src hp
  simp [spaces, length_sub src h1, RCur.seg, Segment.len]
  omega

end GM.Blocks
