/-
  GM.Proof.BlocksOrdAtx — atxHeadingParser.Open (atx_heading.go:82-166), the line it takes: a new Heading has no line
  (empty heading `#`, `## ##`) or exactly one, the heading's body: a NON-EMPTY segment strictly behind the cursor
  (at least one `#` lies between) and inside the current source line, padding 0, no ForceNewline.
  (GM.Proof.BlocksAtx proves the same walk panic-free; this file adds where the segment lies.)
-/
import GM.Proof.BlocksOrdPar

namespace GM.Blocks
open GM GM.Text GM.Spec GM.Proof.Reader

/-- a byte that starts a run counted by `scanWhileEq` is that byte -/
theorem scanWhileEq_first (line : Bytes) (c : UInt8) (pos : Int) (h0 : 0 ≤ pos) (h : scanWhileEq line c pos ≠ pos) :
    line[pos.toNat]? = some c := by
  unfold scanWhileEq at h
  rw [if_neg (by omega)] at h
  have hc : countLeading c (line.drop pos.toNat) ≠ 0 := by intro e; apply h; rw [e]; simp
  unfold countLeading at hc
  cases hd : line.drop pos.toNat with
  | nil => rw [hd] at hc; simp at hc
  | cons b rest =>
    rw [hd] at hc
    have hb : (b == c) = true := by
      cases hbc : (b == c) with
      | true => rfl
      | false => simp [List.takeWhile, hbc] at hc
    have hbe : b = c := by simpa using hb
    have := congrArg List.head? hd
    rw [List.head?_drop] at this
    rw [this, hbe]; rfl

theorem slice_len {l : Bytes} {a b : Int} {v : Bytes} (h : slice l a b = .ok v) : (v.length : Int) = b - a := by
  unfold slice sliceB at h
  split at h
  · next hc =>
    cases h
    have := length_sub l (a := a.toNat) (b := b.toNat) (by omega)
    omega
  · cases h

/-- the first `pad` bytes of a view are spaces: a `#` of the view lies behind them -/
theorem view_hash_behind_pad (src : Bytes) (c : RCur) (hp : c.p < src.length) (k : Nat)
    (h : ((RCur.view src c).getD [])[k]? = some 35) : c.pad ≤ k := by
  rw [view_eq src c hp] at h
  simp only [Option.getD_some] at h
  rcases Nat.lt_or_ge k c.pad with hk | hk
  · rw [List.getElem?_append_left (by simpa [spaces] using hk)] at h
    simp only [spaces] at h
    rw [List.getElem?_replicate] at h
    split at h
    · cases h
    · cases h
  · exact hk

/-- **atxHeadingParser.Open, the line it takes** (atx_heading.go:82-166) on an `RI` reader: cursor and context are
    untouched; it builds nothing, or the next node of the store, a parentless Heading with no line or with exactly one
    line `t` — `c.p < t.start < t.stop ≤ (lineEnd src c.p : Int)`, padding 0, no ForceNewline. -/
theorem atxOpen_line {src} {s : St} {c : RCur} (h : RI src s.r c) (parent : Nat) :
    OKL (fun a s' => ∃ r', s'.r = r' ∧ RI src r' c ∧ s'.pc = s.pc ∧ a.2 = stNoChildren ∧
        ((a.1 = none ∧ s'.nodes = s.nodes) ∨
         (a.1 = some s.nodes.length ∧ ∃ n, s'.nodes = s.nodes ++ [n] ∧ n.kind = .heading ∧ n.parent = none ∧
            (n.lines = [] ∨ ∃ t, n.lines = [t] ∧ (c.p : Int) < t.start ∧ t.start < t.stop ∧
              t.stop ≤ (lineEnd src c.p : Int) ∧ t.padding = 0 ∧ t.forceNewline = false))))
      (atxOpen parent s) := by
  unfold atxOpen
  refine OKL.bind (peekLine_okl h) (fun x s1 hx => ?_)
  obtain ⟨hx, r1, hs1, h1⟩ := hx
  subst hx hs1
  simp only
  refine OKL.bind (m := getPc) (P := fun v s' => v = s.pc ∧ s' = { s with r := r1 }) (OKL.ok ⟨rfl, rfl⟩) (fun pc s2 hv => ?_)
  obtain ⟨hv, hs2⟩ := hv
  subst hv hs2
  have fin : ∀ (v : Option Nat × PState) (nodes : List Node), v.2 = stNoChildren →
      ((v.1 = none ∧ nodes = s.nodes) ∨
        (v.1 = some s.nodes.length ∧ ∃ n, nodes = s.nodes ++ [n] ∧ n.kind = .heading ∧ n.parent = none ∧
          (n.lines = [] ∨ ∃ t, n.lines = [t] ∧ (c.p : Int) < t.start ∧ t.start < t.stop ∧
            t.stop ≤ (lineEnd src c.p : Int) ∧ t.padding = 0 ∧ t.forceNewline = false))) →
      OKL (fun a s' => ∃ r', s'.r = r' ∧ RI src r' c ∧ s'.pc = s.pc ∧ a.2 = stNoChildren ∧
        ((a.1 = none ∧ s'.nodes = s.nodes) ∨
         (a.1 = some s.nodes.length ∧ ∃ n, s'.nodes = s.nodes ++ [n] ∧ n.kind = .heading ∧ n.parent = none ∧
            (n.lines = [] ∨ ∃ t, n.lines = [t] ∧ (c.p : Int) < t.start ∧ t.start < t.stop ∧
              t.stop ≤ (lineEnd src c.p : Int) ∧ t.padding = 0 ∧ t.forceNewline = false))))
        (.ok (v, { r := r1, nodes := nodes, pc := s.pc })) :=
    fun v nodes hv hn => OKL.ok ⟨r1, rfl, h1, rfl, hv, hn⟩
  by_cases hc0 : s.pc.blockOffset < 0
  · rw [if_pos hc0]
    exact fin _ _ rfl (.inl ⟨rfl, rfl⟩)
  · rw [if_neg hc0]
    generalize hline : (RCur.view src c).getD [] = line
    have hpos0 : 0 ≤ s.pc.blockOffset := by omega
    obtain ⟨hsb1, hsb2⟩ := scanWhileEq_bounds line 35 s.pc.blockOffset hpos0
    have hfirst := scanWhileEq_first line 35 s.pc.blockOffset hpos0
    generalize hi : scanWhileEq line 35 s.pc.blockOffset = i at hsb1 hsb2 hfirst ⊢
    by_cases hc1 : (i == s.pc.blockOffset || decide (i - s.pc.blockOffset > 6)) = true
    · rw [if_pos hc1]; exact fin _ _ rfl (.inl ⟨rfl, rfl⟩)
    · rw [if_neg hc1]
      have hne : i ≠ s.pc.blockOffset := by
        intro e; apply hc1; simp [e]
      obtain ⟨hplt, hile⟩ := hsb2 hne
      have hhash := hfirst hne
      -- the line is there, and the `#` lies behind the virtual padding
      have hp : c.p < src.length := by
        rcases Nat.lt_or_ge c.p src.length with hp | hp
        · exact hp
        · rw [view_none src c (by omega)] at hline
          simp only [Option.getD_none] at hline
          rw [← hline] at hplt; simp at hplt; omega
      have hpadle : (c.pad : Int) ≤ s.pc.blockOffset := by
        have := view_hash_behind_pad src c hp s.pc.blockOffset.toNat (by rw [hline]; exact hhash)
        omega
      have hlinelen : (line.length : Int) = c.pad + (lineEnd src c.p - c.p : Nat) := by
        rw [← hline]; exact view_getD_length src c hp
      have hle := lineEnd_le src c.p
      have hge := lt_lineEnd src hp
      by_cases hc2 : (i == (line.length : Int)) = true
      · rw [if_pos hc2]
        simp only [bind, StateT.bind, newNode, pure, StateT.pure, Except.bind, Except.pure]
        exact fin _ _ rfl (.inr ⟨rfl, _, rfl, rfl, rfl, .inl rfl⟩)
      · rw [if_neg hc2]
        have hilt : i < line.length := by
          have : i ≠ (line.length : Int) := by intro e; apply hc2; simp [e]
          omega
        have hsf := sliceFrom_ok line i (by omega) hile
        simp only [bind, StateT.bind, liftE, hsf, Except.map, Except.bind]
        generalize trimLeftSpaceLength (List.drop i.toNat line) = ln
        by_cases hc3 : (((ln : Int)) == 0) = true
        · rw [if_pos hc3]; exact fin _ _ rfl (.inl ⟨rfl, rfl⟩)
        · rw [if_neg hc3]
          generalize hstart : (if i + (ln : Int) ≥ (line.length : Int) then (line.length : Int) - 1 else i + (ln : Int)) = start
          have hst1 : 1 ≤ start := by rw [← hstart]; split <;> omega
          have hst2 : start < line.length := by rw [← hstart]; split <;> omega
          have hst3 : i ≤ start := by rw [← hstart]; split <;> omega
          have htr := trimRightSpaceLength_le line
          generalize hstop0 : ((line.length : Int) - (trimRightSpaceLength line : Int)) = stop0
          have hs0 : stop0 ≤ line.length := by omega
          simp only [bind, StateT.bind, newNode, pure, StateT.pure, Except.pure, Except.bind]
          -- the segment the body `[start, stop)` of the view stands for
          have hseg : ∀ (stop : Int) (v : Bytes), slice line start stop = .ok v → stop ≤ line.length →
              ((v.reverse.dropWhile fun x => x == 35).length != 0) = true →
              ∃ t : Segment, t = { start := (RCur.seg src c).start + start - (RCur.seg src c).padding,
                                   stop := (RCur.seg src c).start + stop - (RCur.seg src c).padding } ∧
                (c.p : Int) < t.start ∧ t.start < t.stop ∧ t.stop ≤ (lineEnd src c.p : Int) ∧ t.padding = 0 ∧
                t.forceNewline = false := by
            intro stop v hv hstopl hbody
            have hvl := slice_len hv
            have hvne : 0 < v.length := by
              rcases Nat.eq_zero_or_pos v.length with h0 | h0
              · have : v = [] := List.length_eq_zero_iff.1 h0
                rw [this] at hbody; simp at hbody
              · exact h0
            refine ⟨_, rfl, ?_, ?_, ?_, rfl, rfl⟩ <;> simp only [RCur.seg] <;> omega
          by_cases hc4 : stop0 ≤ start
          · rw [if_pos hc4]
            obtain ⟨v, hv⟩ := slice_ok' line start start (by omega) (Int.le_refl _) (by omega)
            simp only [bind, StateT.bind, Except.bind, liftE, hv, Except.map, pure, StateT.pure, Except.pure]
            split
            · next hbody =>
              exfalso
              have := slice_len hv
              have hv0 : v = [] := List.length_eq_zero_iff.1 (by omega)
              rw [hv0] at hbody; simp at hbody
            · exact fin _ _ rfl (.inr ⟨rfl, _, rfl, rfl, rfl, .inl rfl⟩)
          · rw [if_neg hc4]
            obtain ⟨r, hr, hr1, hr2⟩ := atxBackLoop_ok line start hst1 stop0.toNat (by omega) (by omega)
            obtain ⟨cc, hcc, _⟩ := idx_ok line r (by omega) (by omega)
            simp only [bind, StateT.bind, Except.bind, liftE, hr, hcc, Except.map, pure, StateT.pure, Except.pure]
            generalize hi2 : (if (r != stop0 - 1 && !isSpace cc) = true then stop0 - 1 else r) = i2
            have hi2b : start - 1 ≤ i2 ∧ i2 ≤ stop0 - 1 := by rw [← hi2]; split <;> omega
            obtain ⟨v, hv⟩ := slice_ok' line start (i2 + 1) (by omega) (by omega) (by omega)
            simp only [hv]
            split
            · next hbody =>
              obtain ⟨t, ht, hf⟩ := hseg (i2 + 1) v hv (by omega) hbody
              simp only [appendLine, modNode, pure, StateT.pure, Except.pure]
              refine fin _ _ rfl (.inr ⟨rfl, ?_⟩)
              simp only [getD_length_append, set_length_append]
              exact ⟨_, rfl, rfl, rfl, .inr ⟨t, by rw [ht]; rfl, hf⟩⟩
            · exact fin _ _ rfl (.inr ⟨rfl, _, rfl, rfl, rfl, .inl rfl⟩)

end GM.Blocks
