/-
  GM.Proof.E2ENT — the composed pipeline over an ARBITRARY list of paragraph transformers (`convertT pts`), of which
  `GM.Convert.convertWith guard` is the instance `pts = paragraphTransformers guard` (by `rfl`) and `convertNT` the
  instance `pts = []`: goldmark with a parser built WITHOUT paragraph transformers
  (`parser.NewParser(parser.WithBlockParsers(parser.DefaultBlockParsers()...), parser.WithInlineParsers(...))`, the
  configuration GM.Model.Blocks.Driver models).

    * `docTree_total`: the inline phase + the renderer's view answer a tree from every store whose raw segments are in
      range and whose inline-bearing blocks have `WF0` lines;
    * `convertT_total_of_store`: so `convertT pts` answers HTML whenever the block phase answers such a store;
    * `convertNT_total`: **for `pts = []` it ALWAYS does** — `runT [] = run` (GM.Proof.E2ERunEq), `GM.Props.Blocks.no_panic`,
      `lines_in_range`, wf0's `inline_lines_wf0`, `parseBlock_total`, the frame invariants of this package.
-/
import GM.Proof.E2EStoreDone
import GM.Proof.E2ERunEq
import GM.Props.Wf0
import GM.Props.Inlines
import GM.Proof.E2EListHalf
import GM.Proof.E2EList
import GM.Proof.E2ERel

namespace GM.E2E
open GM GM.Text GM.Convert GM.Spec
open GM.Blocks (PT runT run)
open GM.Proof.InlinesReader (WF0)
open GM.Inl (Env)

/-- `parser.Parse` over a parser with the paragraph transformers `pts` -/
def parseDocT (pts : List PT) (guard : Bool) (uc : List (Nat × (Bool × Bool))) (src : Bytes) : Except Err GM.Node := do
  let st ← liftErr .blocks (runT pts src)
  let env : GM.Inl.Env := { refs := st.pc.refs, uc := uc }
  docTree guard env src (GM.Blocks.treeOf st.nodes st.nodes.length 0)

/-- `Markdown.Convert` over a parser with the paragraph transformers `pts` -/
def convertT (pts : List PT) (guard : Bool) (uc : List (Nat × (Bool × Bool))) (o : ROpts) (src : Bytes) :
    Except Err Bytes := do
  let t ← parseDocT pts guard uc src
  renderDoc o t

theorem parseDoc_eq_parseDocT (guard : Bool) (uc : List (Nat × (Bool × Bool))) (src : Bytes) :
    parseDoc guard uc src = parseDocT (paragraphTransformers guard) guard uc src := rfl

theorem convertWith_eq_convertT (guard : Bool) (uc : List (Nat × (Bool × Bool))) (o : ROpts) (src : Bytes) :
    convertWith guard uc o src = convertT (paragraphTransformers guard) guard uc o src := rfl

/-- the default CommonMark pipeline with NO paragraph transformer (so: no link reference definitions) -/
def convertNT (uc : List (Nat × (Bool × Bool))) (o : ROpts) (src : Bytes) : Except Err Bytes :=
  convertT [] true uc o src

/-! ### the tree phases are total on a good store -/

/-- what `docTree` needs of a block node -/
structure NodeTot (src : Bytes) (n : GM.Blocks.Node) : Prop where
  raw : RawSegsP src n
  wf0 : isRawKind n.kind = false → n.lines ≠ [] → WF0 src n.lines

theorem wfSegsFromB_complete (src : Bytes) : ∀ (segs : List Segment) (lo : Int),
    WFSegsFrom src lo segs → GM.LinkRef.wfSegsFromB src lo segs = true
  | [], _, _ => rfl
  | s :: rest, lo, h => by
    obtain ⟨h1, h2, h3, h4, h5, h6⟩ := h
    simp only [GM.LinkRef.wfSegsFromB, Bool.and_eq_true, decide_eq_true_eq, Bool.not_eq_true']
    exact ⟨⟨⟨⟨⟨h1, h2⟩, h3⟩, h4⟩, h5⟩, wfSegsFromB_complete src rest s.stop h6⟩

/-- the run-time check of `convertCore`'s inline phase accepts `WF0` lines -/
theorem wf0B_complete {src : Bytes} {segs : List Segment} (h : WF0 src segs) : GM.LinkRef.wf0B src segs = true := by
  obtain ⟨⟨hne, hw⟩, hp⟩ := h
  simp only [GM.LinkRef.wf0B, GM.LinkRef.wfSegsB, GM.LinkRef.pad0B, Bool.and_eq_true, Bool.not_eq_true',
    List.all_eq_true, beq_iff_eq]
  refine ⟨⟨?_, wfSegsFromB_complete src segs 0 hw⟩, hp⟩
  cases segs with
  | nil => exact absurd rfl hne
  | cons a b => rfl

theorem inlinePhase_total {env : Env} {src : Bytes} {n : GM.Blocks.Node} (h : NodeTot src n) :
    ∃ kids, inlinePhase true env src n = .ok kids := by
  unfold inlinePhase
  split
  · exact ⟨_, rfl⟩
  · rename_i hr
    split
    · exact ⟨_, rfl⟩
    · rename_i he
      have hw : WF0 src n.lines := h.wf0 (by simpa using hr) (by intro e; rw [e] at he; simp at he)
      have hb : GM.LinkRef.wf0B src n.lines = true := wf0B_complete hw
      rw [hb]
      simp only [Bool.not_true, Bool.and_false, Bool.false_eq_true, ↓reduceIte]
      obtain ⟨kids, hk⟩ := GM.Props.Inlines.parseBlock_total env src n.lines hw
      exact ⟨kids, by rw [hk]; rfl⟩

mutual
theorem docTree_total (env : Env) (src : Bytes) : ∀ (t : GM.Blocks.Tree), treeAll (NodeTot src) t →
    ∃ x, docTree true env src t = .ok x
  | .node n cs, ha => by
    simp only [treeAll] at ha
    obtain ⟨bs, hbs⟩ := docTrees_total env src cs ha.2
    obtain ⟨kids, hk⟩ := inlinePhase_total (env := env) ha.1
    obtain ⟨is, his⟩ := inlinePhase_values_total hk
    obtain ⟨k, hkk⟩ := blockKind_total ha.1.raw
    refine ⟨.mk k none (bs ++ is), ?_⟩
    unfold docTree
    simp only [bind, Except.bind, hbs, hk, his, hkk, liftErr, pure, Except.pure]
theorem docTrees_total (env : Env) (src : Bytes) : ∀ (ts : List GM.Blocks.Tree), treesAll (NodeTot src) ts →
    ∃ xs, docTrees true env src ts = .ok xs
  | [], _ => ⟨[], by unfold docTrees; rfl⟩
  | t :: rest, ha => by
    simp only [treesAll] at ha
    obtain ⟨x, hx⟩ := docTree_total env src t ha.1
    obtain ⟨xs, hxs⟩ := docTrees_total env src rest ha.2
    refine ⟨x :: xs, ?_⟩
    unfold docTrees
    simp only [bind, Except.bind, hx, hxs, pure, Except.pure]
end

theorem nodeTot_default (src : Bytes) : NodeTot src (default : GM.Blocks.Node) :=
  ⟨rawSegsP_default src, fun _ h => absurd rfl h⟩

/-- the store facts the tree phases need: raw segments in range, inline-bearing lines `WF0` -/
structure StoreTot (src : Bytes) (st : GM.Blocks.St) : Prop where
  raw : RawSegsInRange src st
  wf0 : ∀ n ∈ st.nodes, isRawKind n.kind = false → n.lines ≠ [] → WF0 src n.lines

theorem nodeTot_getD {src : Bytes} {st : GM.Blocks.St} (h : StoreTot src st) (i : Nat) : NodeTot src (st.nodes.getD i default) := by
  by_cases hlt : i < st.nodes.length
  · have e : st.nodes.getD i default = st.nodes[i] := by simp [List.getD, hlt]
    have hm : st.nodes[i] ∈ st.nodes := List.getElem_mem hlt
    rw [e]
    exact ⟨h.raw _ hm, h.wf0 _ hm⟩
  · have e : st.nodes.getD i default = default := by
      simp [List.getD, List.getElem?_eq_none (Nat.le_of_not_lt hlt)]
    rw [e]; exact nodeTot_default src

/-! ### from a store to HTML -/

/-- whatever tree `parseDocT` answers satisfies `Spec.Inv` (as `parseDoc_inv`, for any transformers that keep `HeadOK`) -/
theorem parseDocT_inv {pts : List PT} (hp : PTsKeep HeadOK pts) (o : Opts) (e : Exts) (guard : Bool)
    (uc : List (Nat × (Bool × Bool))) (src : Bytes) (t : GM.Node) (h : parseDocT pts guard uc src = .ok t) :
    Spec.Inv (mkRCfg o e) t = true := by
  unfold parseDocT at h
  obtain ⟨st, hst, h⟩ := exc_bind_ok h
  have hs := runT_headOK hp src st (liftErr_ok hst)
  simp only [Spec.Inv, Bool.and_eq_true]
  exact ⟨docTree_inv_of_store _ guard _ src st hs _ _ t h, footCfgInv_mkRCfg o e⟩

/-- `convertT pts` answers HTML whenever the block phase answers a store with `StoreTot` -/
theorem convertT_total_of_store {pts : List PT} (hp : PTsKeep HeadOK pts) (uc : List (Nat × (Bool × Bool))) (o : ROpts)
    (src : Bytes) (st : GM.Blocks.St) (hst : runT pts src = .ok st) (hS : StoreTot src st) :
    ∃ html, convertT pts true uc o src = .ok html := by
  obtain ⟨t, ht⟩ := docTree_total { refs := st.pc.refs, uc := uc } src _
    (treeOf_all st.nodes (nodeTot_getD hS) st.nodes.length 0)
  have hpd : parseDocT pts true uc src = .ok t := by
    unfold parseDocT
    simp only [bind, Except.bind, hst, liftErr]
    exact ht
  have hr : renderPanics o.rcfg t = none :=
    GM.Proof.RenderWF.inv_noPanic o.rcfg t (parseDocT_inv hp (ROpts.opts o) {} true uc src t hpd)
  refine ⟨render o.rcfg t, ?_⟩
  unfold convertT
  simp only [bind, Except.bind, hpd, renderDoc, hr]

theorem ptsKeep_nil (I : GM.Blocks.St → Prop) : PTsKeep I [] := fun _ h => by cases h

theorem isRaw_eq_isRawKind (k : GM.Blocks.Kind) : GM.Proof.BlocksWF0.isRaw k = isRawKind k := by cases k <;> rfl

/-- the store of the transformer-free block phase has `StoreTot`, for EVERY source -/
theorem run_storeTot (src : Bytes) (st : GM.Blocks.St) (h : run src = .ok st) : StoreTot src st := by
  have hT : runT [] src = .ok st := by rw [GM.Blocks.runT_nil]; exact h
  have hx := runT_xsegs src (ptsKeep_nil _) st hT
  have hl := GM.Props.Blocks.lines_in_range src st h
  have hw := GM.Props.Wf0.inline_lines_wf0 src st h
  refine ⟨fun n hn => ⟨fun _ t ht => (hl n hn).1 t ht, (hx n hn).info, (hx n hn).closure⟩, fun n hn hr hne => ?_⟩
  refine GM.Proof.BlocksWF0.wf0_of_allInlineWF0 hw hn ?_
  simp only [GM.Proof.BlocksWF0.inlineBearing, isRaw_eq_isRawKind, hr, Bool.not_false, Bool.true_and, Bool.not_eq_true']
  cases hls : n.lines with
  | nil => exact absurd hls hne
  | cons a b => rfl

/-- `StoreTot` from the facts the block-phase packages state: every line in range (`NodesOK` / `lines_in_range`), the
    lines of non-raw blocks `WFSegs` (wf0 / tnopanic `…_lines_wellformed`) and of padding 0 (wf0 `nonraw_lines_padding_zero`) -/
theorem storeTot_of_facts {pts : List PT} {src : Bytes} (hp : PTsKeep (XS src) pts) (st : GM.Blocks.St)
    (hst : runT pts src = .ok st)
    (hL : ∀ n ∈ st.nodes, ∀ t ∈ n.lines, 0 ≤ t.start ∧ t.start ≤ t.stop ∧ t.stop ≤ src.length ∧ 0 ≤ t.padding)
    (hW : ∀ n ∈ st.nodes, GM.Proof.BlocksWF0.isRaw n.kind = false → n.lines ≠ [] → WFSegs src n.lines)
    (hP : ∀ n ∈ st.nodes, GM.Proof.BlocksWF0.isRaw n.kind = false → ∀ t ∈ n.lines, t.padding = 0) : StoreTot src st := by
  have hx := runT_xsegs src hp st hst
  refine ⟨fun n hn => ⟨fun _ t ht => hL n hn t ht, (hx n hn).info, (hx n hn).closure⟩, fun n hn hr hne => ?_⟩
  have hr' : GM.Proof.BlocksWF0.isRaw n.kind = false := by rw [isRaw_eq_isRawKind]; exact hr
  exact ⟨hW n hn hr' hne, hP n hn hr'⟩

/-- **the interface to the block-phase packages**: `convertCore` answers HTML on every source on which the block phase with
    the link-reference transformer answers a store whose lines are in range and whose non-raw blocks have `WFSegs` lines
    of padding 0 -/
theorem convertCore_total_of_facts (uc : List (Nat × (Bool × Bool))) (o : ROpts) (src : Bytes) (st : GM.Blocks.St)
    (hst : blockPhase true src = .ok st)
    (hL : ∀ n ∈ st.nodes, ∀ t ∈ n.lines, 0 ≤ t.start ∧ t.start ≤ t.stop ∧ t.stop ≤ src.length ∧ 0 ≤ t.padding)
    (hW : ∀ n ∈ st.nodes, GM.Proof.BlocksWF0.isRaw n.kind = false → n.lines ≠ [] → WFSegs src n.lines)
    (hP : ∀ n ∈ st.nodes, GM.Proof.BlocksWF0.isRaw n.kind = false → ∀ t ∈ n.lines, t.padding = 0) :
    ∃ html, convertCore uc o src = .ok html :=
  convertT_total_of_store (paragraphTransformers_keep true) uc o src st hst
    (storeTot_of_facts (paragraphTransformers_keep true) st hst hL hW hP)

/-! ### the same from facts about the nodes REACHABLE from the Document only

The store of the driver WITH transformers contains nodes that are not in the tree (a Paragraph that was transformed away, a
setext Heading abandoned on the `goto retry` behind it — package tnopanic's witness `> [a]: /u⏎>⇥===⏎`: the abandoned Heading
keeps a padded line), so facts like "padding 0" only hold of attached nodes. `docTree` only ever visits the tree. -/

theorem treesAll_map_mem {P : GM.Blocks.Node → Prop} (f : Nat → GM.Blocks.Tree) :
    ∀ (l : List Nat), (∀ i ∈ l, treeAll P (f i)) → treesAll P (l.map f)
  | [], _ => by simp [treesAll]
  | i :: rest, h => by
    simp only [List.map, treesAll]
    exact ⟨h i (List.mem_cons_self ..), treesAll_map_mem f rest (fun j hj => h j (List.mem_cons_of_mem _ hj))⟩

/-- the tree read out of a store: the root satisfies `P`, and so does every node that is somebody's child -/
theorem treeOf_all_reach {P : GM.Blocks.Node → Prop} (nodes : List GM.Blocks.Node)
    (hk : ∀ p c, c ∈ (nodes.getD p default).children → P (nodes.getD c default)) :
    ∀ fuel id, P (nodes.getD id default) → treeAll P (GM.Blocks.treeOf nodes fuel id)
  | 0, id, h => by simp only [GM.Blocks.treeOf, treeAll, treesAll]; exact ⟨h, trivial⟩
  | fuel + 1, id, h => by
    simp only [GM.Blocks.treeOf, treeAll]
    exact ⟨h, treesAll_map_mem _ _ (fun c hc => treeOf_all_reach nodes hk fuel c (hk id c hc))⟩

/-- `convertT pts` answers HTML whenever the block phase answers a store whose TREE nodes are good -/
theorem convertT_total_of_tree {pts : List PT} (hp : PTsKeep HeadOK pts) (uc : List (Nat × (Bool × Bool))) (o : ROpts)
    (src : Bytes) (st : GM.Blocks.St) (hst : runT pts src = .ok st)
    (h0 : NodeTot src (st.nodes.getD 0 default))
    (hk : ∀ p c, c ∈ (st.nodes.getD p default).children → NodeTot src (st.nodes.getD c default)) :
    ∃ html, convertT pts true uc o src = .ok html := by
  obtain ⟨t, ht⟩ := docTree_total { refs := st.pc.refs, uc := uc } src _
    (treeOf_all_reach st.nodes hk st.nodes.length 0 h0)
  have hpd : parseDocT pts true uc src = .ok t := by
    unfold parseDocT
    simp only [bind, Except.bind, hst, liftErr]
    exact ht
  have hr : renderPanics o.rcfg t = none :=
    GM.Proof.RenderWF.inv_noPanic o.rcfg t (parseDocT_inv hp (ROpts.opts o) {} true uc src t hpd)
  refine ⟨render o.rcfg t, ?_⟩
  unfold convertT
  simp only [bind, Except.bind, hpd, renderDoc, hr]

/-- **the interface to the block-phase packages, tree form**: `convertCore` answers HTML on every source on which the block
    phase with the link-reference transformer answers a store in which every line is in range, the lines of non-raw blocks
    with lines are `WFSegs` (both may be stated store-wide), and every line of a non-raw node THAT IS SOMEBODY'S CHILD has
    padding 0 (the Document, node 0, has no lines) -/
theorem convertCore_total_of_tree_facts (uc : List (Nat × (Bool × Bool))) (o : ROpts) (src : Bytes) (st : GM.Blocks.St)
    (hst : blockPhase true src = .ok st)
    (hL : ∀ n ∈ st.nodes, ∀ t ∈ n.lines, 0 ≤ t.start ∧ t.start ≤ t.stop ∧ t.stop ≤ src.length ∧ 0 ≤ t.padding)
    (hW : ∀ n ∈ st.nodes, GM.Proof.BlocksWF0.isRaw n.kind = false → n.lines ≠ [] → WFSegs src n.lines)
    (hP : ∀ p c, c ∈ (st.nodes.getD p default).children → GM.Proof.BlocksWF0.isRaw (st.nodes.getD c default).kind = false →
      ∀ t ∈ (st.nodes.getD c default).lines, t.padding = 0)
    (h0 : (st.nodes.getD 0 default).lines = []) :
    ∃ html, convertCore uc o src = .ok html := by
  have hx := runT_xsegs src (paragraphTransformers_keep true) st hst
  have raw : ∀ i, RawSegsP src (st.nodes.getD i default) := by
    intro i
    by_cases hlt : i < st.nodes.length
    · have e : st.nodes.getD i default = st.nodes[i] := by simp [List.getD, hlt]
      have hm : st.nodes[i] ∈ st.nodes := List.getElem_mem hlt
      rw [e]
      exact ⟨fun _ t ht => hL _ hm t ht, (hx _ hm).info, (hx _ hm).closure⟩
    · have e : st.nodes.getD i default = default := by
        simp [List.getD, List.getElem?_eq_none (Nat.le_of_not_lt hlt)]
      rw [e]; exact rawSegsP_default src
  have wfs : ∀ i, isRawKind (st.nodes.getD i default).kind = false → (st.nodes.getD i default).lines ≠ [] →
      WFSegs src (st.nodes.getD i default).lines := by
    intro i hr hne
    by_cases hlt : i < st.nodes.length
    · have e : st.nodes.getD i default = st.nodes[i] := by simp [List.getD, hlt]
      have hm : st.nodes[i] ∈ st.nodes := List.getElem_mem hlt
      rw [e] at hr hne ⊢
      exact hW _ hm (by rw [isRaw_eq_isRawKind]; exact hr) hne
    · have e : st.nodes.getD i default = default := by
        simp [List.getD, List.getElem?_eq_none (Nat.le_of_not_lt hlt)]
      rw [e] at hne; exact absurd rfl hne
  refine convertT_total_of_tree (paragraphTransformers_keep true) uc o src st hst
    ⟨raw 0, fun _ hne => absurd h0 hne⟩ (fun p c hc => ⟨raw c, fun hr hne => ⟨wfs c hr hne, ?_⟩⟩)
  exact hP p c hc (by rw [isRaw_eq_isRawKind]; exact hr)

/-- **END-TO-END TOTALITY for the parser without paragraph transformers.** For every source, every Unicode-class
    assignment and every option set, `convertNT` answers HTML: no error outcome of any phase — no Go panic of the block
    phase, the inline phase, a `Segment.Value` or a node renderer; the run-time `WF0` check passes; no fuel runs out. -/
theorem convertNT_total (uc : List (Nat × (Bool × Bool))) (o : ROpts) (src : Bytes) :
    ∃ html, convertNT uc o src = .ok html := by
  obtain ⟨st, hst⟩ := GM.Props.Blocks.no_panic src
  have hT : runT [] src = .ok st := by rw [GM.Blocks.runT_nil]; exact hst
  exact convertT_total_of_store (ptsKeep_nil _) uc o src st hT (run_storeTot src st hst)

/-- the same for `convertCore` on every source on which the default block phase agrees with the transformer-free one -/
theorem convertCore_total_of_agree (uc : List (Nat × (Bool × Bool))) (o : ROpts) (src : Bytes)
    (hA : ∃ st st', blockPhase true src = .ok st ∧ run src = .ok st' ∧ st.nodes = st'.nodes) :
    ∃ html, convertCore uc o src = .ok html := by
  obtain ⟨st, st', hb, hr, hn⟩ := hA
  have hS' := run_storeTot src st' hr
  have hS : StoreTot src st := ⟨fun n hm => hS'.raw n (hn ▸ hm), fun n hm => hS'.wf0 n (hn ▸ hm)⟩
  exact convertT_total_of_store (paragraphTransformers_keep true) uc o src st hb hS

/-! ### C05 over `convertT` -/

/-- `parseAst` over a parser with the paragraph transformers `pts` -/
def parseAstT (pts : List PT) (guard : Bool) (uc : List (Nat × (Bool × Bool))) (src : Bytes) : Except Err ATree := do
  let st ← liftErr .blocks (runT pts src)
  let env : Env := { refs := st.pc.refs, uc := uc }
  annot guard env src (GM.Blocks.treeOf st.nodes st.nodes.length 0)

theorem parseAst_eq_parseAstT (guard : Bool) (uc : List (Nat × (Bool × Bool))) (src : Bytes) :
    parseAst guard uc src = parseAstT (paragraphTransformers guard) guard uc src := rfl

/-- the three frame invariants of this package, for a list of transformers -/
structure PTsGood (src : Bytes) (pts : List PT) : Prop where
  head : PTsKeep HeadOK pts
  root : PTsKeep RootDoc pts
  xs : PTsKeep (XS src) pts

theorem ptsGood_nil (src : Bytes) : PTsGood src [] := ⟨ptsKeep_nil _, ptsKeep_nil _, ptsKeep_nil _⟩

theorem ptsGood_default (src : Bytes) (guard : Bool) : PTsGood src (paragraphTransformers guard) :=
  ⟨paragraphTransformers_keep guard, paragraphTransformers_keep guard, paragraphTransformers_keep guard⟩

/-- `parseAst_wfAst_core` for any transformers that keep the frame invariants -/
theorem parseAstT_wfAst {pts : List PT} {src : Bytes} (hp : PTsGood src pts) (uc : List (Nat × (Bool × Bool))) (a : ATree)
    (h : parseAstT pts true uc src = .ok a) (hS : ∀ st, runT pts src = .ok st → StoreHypsCore src st) :
    wfAst src.length (dumpAst a) = none := by
  unfold parseAstT at h
  obtain ⟨st, hst, h⟩ := exc_bind_ok h
  have hb := liftErr_ok hst
  have hc := hS st hb
  have hx := runT_xsegs src hp.xs st hb
  have hs : StoreHyps src st :=
    ⟨hc.lines, fun n hn => (hx n hn).info, fun n hn => (hx n hn).closure, hc.ord, hc.noLines, hc.listShape⟩
  have hh := runT_headOK hp.head src st hb
  obtain ⟨d, rest, e, hd⟩ := runT_rootDoc hp.root src st hb
  apply wfAst_dumpAst
  refine annot_AOK inlineSegsUnpadded inlineSegsAfterLineStart _ src _ none a
    (treeOf_rel st.nodes (blockP_getD hh hs) ?_ _ _) ?_ h
  · intro i c hc'
    exact hs.listShape i c hc'
  · rw [treeOf_root]
    simp only [ListRel, e, List.getD_cons_zero]
    exact hd

theorem ordFrom_of_OrdFrom : ∀ (l : List Segment) (lo : Int), GM.Blocks.OrdFrom lo l → ordFrom lo l
  | [], _, _ => trivial
  | s :: rest, lo, h => ⟨h.1, ordFrom_of_OrdFrom rest s.stop h.2⟩

/-- what is STILL ASSUMED of the store of the transformer-free block phase for C05: a child is a ListItem exactly when
    its parent is a List (`⇐` is `GM.Blocks.KidsOK.kids`; `⇒` = "a ListItem is only ever attached below a List") -/
def ListShape (st : GM.Blocks.St) : Prop :=
  ∀ i, ∀ c ∈ (st.nodes.getD i default).children,
    ((st.nodes.getD c default).kind = .listItem ↔ (st.nodes.getD i default).kind = .list)

/-- one half of `ListShape`: a ListItem is only ever a child of a List -/
def ItemsUnderLists (st : GM.Blocks.St) : Prop :=
  ∀ i, ∀ c ∈ (st.nodes.getD i default).children,
    (st.nodes.getD c default).kind = .listItem → (st.nodes.getD i default).kind = .list

theorem itemsUnderLists_of_lc {st : GM.Blocks.St} (h : GM.E2E.LI.LC st) : ItemsUnderLists st :=
  fun i c hc => (h i c hc).2

/-- **a ListItem is only ever a child of a List**, in the store the block phase with the link-reference transformer returns —
    every source (GM.Proof.E2EList) -/
theorem blockPhase_itemsUnderLists (guard : Bool) (src : Bytes) (st : GM.Blocks.St) (h : blockPhase guard src = .ok st) :
    ItemsUnderLists st :=
  itemsUnderLists_of_lc (GM.E2E.LI.blockPhase_lc guard src st h)

/-- `ListShape` from its two halves: `KidsOK.kids` (the children of a List are ListItems) and `ItemsUnderLists` -/
theorem listShape_of_halves {st : GM.Blocks.St} (hK : GM.Blocks.KidsOK st) (hI : ItemsUnderLists st) : ListShape st :=
  fun i c hc => ⟨hI i c hc, fun hk => (hK.kids i c hk hc).2⟩

/-- `ListShape` of the final store of the transformer-free block phase, every source -/
theorem run_listShape (src : Bytes) (st : GM.Blocks.St) (h : run src = .ok st) : ListShape st :=
  listShape_of_halves (GM.Blocks.run_kidsOK src st h)
    (itemsUnderLists_of_lc (GM.E2E.LI.run_lc src st (by rw [GM.Blocks.runT_nil]; exact h)))

/-- **`StoreHypsCore` of `run`'s store is a theorem, every source**: `lines` (`lines_in_range`), `ord` (wf0: `all_lines_ordered`),
    `noLines` (wf0: `container_nodes_no_lines`), `listShape` (`KidsOK` of the final store + GM.Proof.E2EList) -/
theorem run_storeHypsCore (src : Bytes) (st : GM.Blocks.St) (h : run src = .ok st) : StoreHypsCore src st where
  lines := fun n hn => (GM.Props.Blocks.lines_in_range src st h n hn).1
  ord := fun n hn => ordFrom_of_OrdFrom _ _ (GM.Props.Wf0.all_lines_ordered src st h n hn)
  noLines := fun n hn hk => GM.Props.Wf0.container_nodes_no_lines src st h n hn (by
    rcases hk with hk | hk <;> rw [hk] <;> rfl)
  listShape := run_listShape src st h

/-- the parser without transformers always answers a tree with its segments -/
theorem parseAstNT_exists (uc : List (Nat × (Bool × Bool))) (src : Bytes) : ∃ a, parseAstT [] true uc src = .ok a := by
  obtain ⟨st, hst⟩ := GM.Props.Blocks.no_panic src
  have hT : runT [] src = .ok st := by rw [GM.Blocks.runT_nil]; exact hst
  obtain ⟨t, ht⟩ := docTree_total { refs := st.pc.refs, uc := uc } src _
    (treeOf_all st.nodes (nodeTot_getD (run_storeTot src st hst)) st.nodes.length 0)
  obtain ⟨a, ha⟩ := docTree_ok_annot true _ src _ t ht
  refine ⟨a, ?_⟩
  unfold parseAstT
  simp only [bind, Except.bind, hT, liftErr]
  exact ha

/-- **C05 END TO END for the parser without transformers, every source**: there always is a tree, and its position dump
    passes `wfAst` — no hypothesis left -/
theorem parseAstNT_wfAst (uc : List (Nat × (Bool × Bool))) (src : Bytes) :
    ∃ a, parseAstT [] true uc src = .ok a ∧ wfAst src.length (dumpAst a) = none := by
  obtain ⟨a, ha⟩ := parseAstNT_exists uc src
  refine ⟨a, ha, parseAstT_wfAst (ptsGood_nil src) uc a ha (fun st hst => ?_)⟩
  have hr : run src = .ok st := by rw [← GM.Blocks.runT_nil]; exact hst
  exact run_storeHypsCore src st hr

end GM.E2E
