/-
  GM.Proof.CMFragRender4 — the renderer half of the conformance proof for the stage-4 fragment (paragraphs, ATX
  headings, thematic breaks) of GM.Spec.CMFrag:
  * `renderDoc_gdoc`: the renderer model on Document[Paragraph[Text…] | Heading[Text] | ThematicBreak …] writes
    `gdocHtml` and never panics (heading levels ≤ 6);
  * `gdocHtml_spelled`: on the spelled blocks of a stage-4 document that is the prescribed HTML;
  * `rawOfG_level`: the heading levels of the spelled blocks are 1–6.
-/
import GM.Proof.CMFragRender
import GM.Proof.CMFragSpec
namespace GM.Proof.CMFrag
open GM GM.Spec.CM GM.Spec.CMFrag

/-! ### G1: the renderer on a stage-4 document -/

theorem handled_heading4 (e : Exts) (level : Nat) : handled e (.heading level) = true := rfl
theorem handled_thematic4 (e : Exts) : handled e .thematicBreak = true := rfl

theorem renderNode_atx4 (rc : RCfg) (hes : rc.core.escSpace = false) (hhw : rc.core.hardWraps = false)
    (hea : rc.core.ea = 0) (ph : Bool) (next : Option Node) (level : Nat) (l : Bytes) :
    renderNode rc ph next (rawNode (.atx level l)) = rawHtml (.atx level l) := by
  rw [rawNode, renderNode]
  simp only [enter, leave, handled_heading4, skipsChildren, Kind.isTableHeader, renderAttrs, renderNodes,
    renderNode_text rc hes hhw hea, rawHtml]
  have h1 : strBytes ">\n" = [62, 10] := by decide +kernel
  rw [h1]; simp

theorem renderNode_hr4 (rc : RCfg) (hx : rc.core.xhtml = true) (ph : Bool) (next : Option Node) (l : Bytes) :
    renderNode rc ph next (rawNode (.hr l)) = rawHtml (.hr l) := by
  rw [rawNode, renderNode]
  simp only [enter, leave, handled_thematic4, skipsChildren, renderAttrs, renderNodes, rawHtml, hx]
  have h1 : strBytes "<hr />\n" = strBytes "<hr" ++ strBytes " />\n" := by decide +kernel
  rw [h1]; simp

theorem renderNode_raw4 (rc : RCfg) (hes : rc.core.escSpace = false) (hhw : rc.core.hardWraps = false)
    (hea : rc.core.ea = 0) (hx : rc.core.xhtml = true) (ph : Bool) (next : Option Node) (b : RawBlock) :
    renderNode rc ph next (rawNode b) = rawHtml b := by
  cases b with
  | para ls => rw [rawNode, renderNode_para rc hes hhw hea, rawHtml]
  | atx level l => exact renderNode_atx4 rc hes hhw hea ph next level l
  | hr l => exact renderNode_hr4 rc hx ph next l

theorem renderNodes_raw4 (rc : RCfg) (hes : rc.core.escSpace = false) (hhw : rc.core.hardWraps = false)
    (hea : rc.core.ea = 0) (hx : rc.core.xhtml = true) (ph : Bool) (bs : List RawBlock) :
    renderNodes rc ph (bs.map rawNode) = gdocHtml bs := by
  induction bs with
  | nil => simp [renderNodes, gdocHtml]
  | cons b rest ih =>
    rw [List.map_cons, renderNodes, renderNode_raw4 rc hes hhw hea hx, ih]
    simp [gdocHtml]

theorem render_gdocNode4 (rc : RCfg) (hes : rc.core.escSpace = false) (hhw : rc.core.hardWraps = false)
    (hea : rc.core.ea = 0) (hx : rc.core.xhtml = true) (bs : List RawBlock) :
    render rc (gdocNode bs) = gdocHtml bs := by
  rw [render, gdocNode, renderNode]
  simp [enter, leave, handled_doc, skipsChildren, Kind.isTableHeader, renderNodes_raw4 rc hes hhw hea hx]

theorem renderPanicsNode_raw4 (rc : RCfg) (b : RawBlock) (hlev : ∀ level l, b = .atx level l → level ≤ 6) :
    renderPanicsNode rc (rawNode b) = none := by
  cases b with
  | para ls =>
    simp [rawNode, paraNode, renderPanicsNode, nodePanic, renderPanicsNodes_textNodes]
  | atx level l =>
    have h6 : ¬ level > 6 := by have := hlev level l rfl; omega
    simp [rawNode, renderPanicsNode, nodePanic, renderPanicsNodes, handled_heading4, h6, skipsChildren]
  | hr l => simp [rawNode, renderPanicsNode, nodePanic, renderPanicsNodes]

theorem renderPanicsNodes_raw4 (rc : RCfg) (bs : List RawBlock)
    (hlev : ∀ b ∈ bs, ∀ level l, b = .atx level l → level ≤ 6) :
    renderPanicsNodes rc (bs.map rawNode) = none := by
  induction bs with
  | nil => simp [renderPanicsNodes]
  | cons b rest ih =>
    rw [List.map_cons, renderPanicsNodes, ih (fun x hx => hlev x (by simp [hx])),
      renderPanicsNode_raw4 rc b (hlev b (by simp))]

theorem renderPanics_gdocNode4 (rc : RCfg) (bs : List RawBlock)
    (hlev : ∀ b ∈ bs, ∀ level l, b = .atx level l → level ≤ 6) : renderPanics rc (gdocNode bs) = none := by
  simp [renderPanics, gdocNode, renderPanicsNode, nodePanic, renderPanicsNodes_raw4 rc bs hlev]

theorem rcfg_xhtml4 (o : GM.Convert.ROpts) : o.rcfg.core.xhtml = o.xhtml := by
  cases o with | mk u x h => cases x <;> rfl

theorem renderDoc_gdoc_any (o : GM.Convert.ROpts) (ho : o.hardWraps = false) (hx : o.xhtml = true)
    (bs : List RawBlock) (hlev : ∀ b ∈ bs, ∀ level l, b = .atx level l → level ≤ 6) :
    GM.Convert.renderDoc o (gdocNode bs) = .ok (gdocHtml bs) := by
  rw [GM.Convert.renderDoc, renderPanics_gdocNode4 o.rcfg bs hlev,
    render_gdocNode4 o.rcfg (rcfg_escSpace o) (by rw [rcfg_hardWraps, ho]) (rcfg_ea o) (by rw [rcfg_xhtml4, hx])]

/-- G1 -/
theorem renderDoc_gdoc (bs : List RawBlock) (hlev : ∀ b ∈ bs, ∀ level l, b = .atx level l → level ≤ 6) :
    GM.Convert.renderDoc cmOpts (gdocNode bs) = .ok (gdocHtml bs) :=
  renderDoc_gdoc_any cmOpts rfl rfl bs hlev

/-! ### G2, G3: the spelled blocks -/

/-- a block of a stage-4 document as the source bytes the renderer sees -/
def rawOfG : GBlock → RawBlock
  | .para lines => .para (lines.map escSpell)
  | .heading level text => .atx level (escSpell text)
  | .thematic c n => .hr (thematicLine c n false)

theorem rawHtml_spelled4 (b : GBlock) (hok : gblockOK b = true) : rawHtml (rawOfG b) = expGBlock b := by
  cases b with
  | para lines =>
    simp only [gblockOK, Bool.and_eq_true, List.all_eq_true] at hok
    rw [rawOfG, rawHtml, expGBlock, map_write_spelled lines (fun l hl => lineOK_printable l (hok.2 l hl)), joinNl_eq]
  | heading level text =>
    simp only [gblockOK, Bool.and_eq_true] at hok
    rw [rawOfG, rawHtml, expGBlock, write_spelled text (lineOK_printable text hok.2)]
  | thematic c n => rfl

/-- G2 -/
theorem gdocHtml_spelled (blocks : List GBlock) (hok : ∀ b ∈ blocks, gblockOK b = true) :
    gdocHtml (blocks.map rawOfG) = blocks.flatMap expGBlock := by
  induction blocks with
  | nil => rfl
  | cons b rest ih =>
    have h2 := ih (fun x hx => hok x (by simp [hx]))
    simp only [gdocHtml, List.map_cons, List.flatMap_cons] at h2 ⊢
    rw [h2, rawHtml_spelled4 b (hok b (by simp))]

/-- G3 -/
theorem rawOfG_level (b : GBlock) (h : gblockOK b = true) :
    ∀ level l, rawOfG b = .atx level l → 1 ≤ level ∧ level ≤ 6 := by
  intro level l he
  cases b with
  | para lines => simp [rawOfG] at he
  | heading lv text =>
    simp only [rawOfG, RawBlock.atx.injEq] at he
    simp only [gblockOK, Bool.and_eq_true, decide_eq_true_eq] at h
    omega
  | thematic c n => simp [rawOfG] at he

end GM.Proof.CMFrag
