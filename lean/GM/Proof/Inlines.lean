/-
  GM.Proof.Inlines — shared lemmas about the inline-phase model (GM.Model.Inlines*): the shape invariant of the
  tree under construction and its preservation by the text merge helpers, the delimiter list operations and
  `ProcessDelimiters`.
-/
import GM.Model.InlinesLoop

namespace GM.Proof.Inlines
open GM GM.Text GM.Inl

/-! ### the shape predicates -/

def isText : Node → Bool
  | .text .. => true
  | _ => false

mutual
/-- the shape of a finished or unfinished subtree: no delimiter below it, emphasis levels 1 or 2, code spans
    hold only text, a Link (not an Image) has no Link below it at any depth. Link-label bookkeeping nodes are
    tolerated iff `lab` (they live on until CloseBlock). -/
def wf (lab : Bool) : Node → Bool
  | .text .. => true
  | .codeSpan ks => ks.all isText
  | .emphasis lv ks => (lv == 1 || lv == 2) && wfL lab ks
  | .link im _ _ ks => wfL lab ks && (im || !containsLinkL ks)
  | .autoLink .. => true
  | .rawHTML .. => true
  | .delim .. => false
  | .label .. => lab
def wfL (lab : Bool) : List Node → Bool
  | [] => true
  | n :: rest => wf lab n && wfL lab rest
end

/-- a child of `parent` while the block is being parsed: an open delimiter, or a well-shaped subtree -/
def top (n : Node) : Bool := n.isDelim || wf true n

def topL (l : List Node) : Bool := l.all top

theorem wfL_iff {lab : Bool} {l : List Node} : wfL lab l = true ↔ ∀ n ∈ l, wf lab n = true := by
  induction l with
  | nil => simp [wfL]
  | cons a r ih => simp [wfL, ih]

theorem wfL_append {lab : Bool} {a b : List Node} : wfL lab (a ++ b) = (wfL lab a && wfL lab b) := by
  induction a with
  | nil => simp [wfL]
  | cons x r ih => simp [wfL, ih, Bool.and_assoc]

theorem topL_append {a b : List Node} : topL (a ++ b) = (topL a && topL b) := by
  simp [topL]

theorem topL_cons {a : Node} {b : List Node} : topL (a :: b) = (top a && topL b) := by
  simp [topL]

theorem topL_of_wfL {l : List Node} (h : wfL true l = true) : topL l = true := by
  rw [wfL_iff] at h
  simp only [topL, List.all_eq_true]
  intro n hn
  simp [top, h n hn]

theorem top_text (s : Segment) (a b c : Bool) : top (.text s a b c) = true := by simp [top, wf]
theorem wf_text (lab : Bool) (s : Segment) (a b c : Bool) : wf lab (.text s a b c) = true := by simp [wf]

theorem topL_reverse {l : List Node} : topL l.reverse = topL l := by simp [topL]

theorem topL_dropLast {l : List Node} (h : topL l = true) : topL l.dropLast = true := by
  simp only [topL, List.all_eq_true] at *
  intro n hn
  exact h n ((List.dropLast_subset _ hn))

theorem wfL_dropLast {lab : Bool} {l : List Node} (h : wfL lab l = true) : wfL lab l.dropLast = true := by
  rw [wfL_iff] at *
  intro n hn
  exact h n ((List.dropLast_subset _ hn))

/-! ### MergeOrAppendTextSegment -/

theorem mergeOrAppend_topL {kids : List Node} {s : Segment} (h : topL kids = true) :
    topL (mergeOrAppend kids s) = true := by
  unfold mergeOrAppend
  split
  · split
    · rw [topL_append, topL_dropLast h]; simp [topL, top_text]
    · rw [topL_append, h]; simp [topL, textOf, top_text]
  · rw [topL_append, h]; simp [topL, textOf, top_text]

theorem mergeOrAppend_wfL {lab : Bool} {kids : List Node} {s : Segment} (h : wfL lab kids = true) :
    wfL lab (mergeOrAppend kids s) = true := by
  unfold mergeOrAppend
  split
  · split
    · rw [wfL_append, wfL_dropLast h]; simp [wfL, wf]
    · rw [wfL_append, h]; simp [wfL, textOf, wf]
  · rw [wfL_append, h]; simp [wfL, textOf, wf]

theorem removeDelim_topL {pre : List Node} {d : Delim} (h : topL pre = true) : topL (removeDelim pre d) = true := by
  unfold removeDelim
  split
  · exact mergeOrAppend_topL h
  · exact h

theorem removeDelim_wfL {lab : Bool} {pre : List Node} {d : Delim} (h : wfL lab pre = true) :
    wfL lab (removeDelim pre d) = true := by
  unfold removeDelim
  split
  · exact mergeOrAppend_wfL h
  · exact h

/-! ### the loops over delimiters -/

/-- the children moved into a new emphasis node come out without a delimiter -/
theorem clearInner_wfL {acc mid : List Node} (ha : wfL true acc = true) (hm : topL mid = true) :
    wfL true (clearInner acc mid) = true := by
  induction mid generalizing acc with
  | nil => simpa [clearInner] using ha
  | cons n rest ih =>
    rw [topL_cons] at hm
    simp only [Bool.and_eq_true] at hm
    cases n with
    | delim id d => simp only [clearInner]; exact ih (removeDelim_wfL ha) hm.2
    | _ =>
      simp only [clearInner]
      apply ih _ hm.2
      rw [wfL_append, ha]
      have := hm.1
      simp [top, Node.isDelim] at this
      simp [wfL, this]

theorem clearRev_topL (b : Bottom) {l : List Node} (h : topL l = true) : topL (clearRev b l) = true := by
  induction l with
  | nil => simp [clearRev, topL]
  | cons n rest ih =>
    rw [topL_cons] at h
    simp only [Bool.and_eq_true] at h
    have ihr := ih h.2
    cases n with
    | delim id d =>
      simp only [clearRev]
      split
      · rw [topL_cons]; simp [h.1, h.2]
      · split
        · split
          · split
            · rename_i heq _
              rw [heq, topL_cons] at ihr
              simp only [Bool.and_eq_true] at ihr
              rw [topL_cons]; simp [top_text, ihr.2]
            · rw [topL_cons]; simp [textOf, top_text, ihr]
          · rw [topL_cons]; simp [textOf, top_text, ihr]
        · exact ihr
    | _ => simp only [clearRev]; rw [topL_cons]; simp [h.1, ihr]

/-- with the nil bottom the walk never stops: no delimiter is left -/
theorem clearRev_nil_wfL {l : List Node} (h : topL l = true) : wfL true (clearRev .nil l) = true := by
  induction l with
  | nil => simp [clearRev, wfL]
  | cons n rest ih =>
    rw [topL_cons] at h
    simp only [Bool.and_eq_true] at h
    have ihr := ih h.2
    cases n with
    | delim id d =>
      simp only [clearRev]
      split
      · rename_i hb; simp at hb
      · split
        · split
          · split
            · rename_i heq _
              rw [heq] at ihr
              simp only [wfL, Bool.and_eq_true] at ihr
              simp [wfL, wf, ihr.2]
            · simp [wfL, textOf, wf, ihr]
          · simp [wfL, textOf, wf, ihr]
        · exact ihr
    | _ =>
      simp only [clearRev]
      have := h.1
      simp [top, Node.isDelim] at this
      simp [wfL, this, ihr]

/-! ### splitting the child list -/

theorem splitFirstDelim_eq {l pre post : List Node} {id : Nat} {d : Delim}
    (h : splitFirstDelim l = some (pre, id, d, post)) : l = pre ++ .delim id d :: post := by
  induction l generalizing pre with
  | nil => simp [splitFirstDelim] at h
  | cons n rest ih =>
    cases n with
    | delim i dd => simp [splitFirstDelim] at h; obtain ⟨rfl, rfl, rfl, rfl⟩ := h; simp
    | _ =>
      simp only [splitFirstDelim] at h
      split at h
      · rename_i p i dd po heq
        simp at h; obtain ⟨rfl, rfl, rfl, rfl⟩ := h
        simp [ih heq]
      · simp at h

theorem splitLastDelim_eq {l pre post : List Node} {id : Nat} {d : Delim}
    (h : splitLastDelim l = some (pre, id, d, post)) : l = pre ++ .delim id d :: post := by
  unfold splitLastDelim at h
  split at h
  · rename_i postR i dd preR heq
    simp at h; obtain ⟨rfl, rfl, rfl, rfl⟩ := h
    have := splitFirstDelim_eq heq
    have h2 := congrArg List.reverse this
    simpa using h2
  · simp at h

theorem splitAtDelim_eq {id : Nat} {l pre post : List Node} {d : Delim}
    (h : splitAtDelim id l = some (pre, d, post)) : l = pre ++ .delim id d :: post := by
  induction l generalizing pre with
  | nil => simp [splitAtDelim] at h
  | cons n rest ih =>
    cases n with
    | delim i dd =>
      simp only [splitAtDelim] at h
      split at h
      · rename_i hi; simp at hi; simp at h; obtain ⟨rfl, rfl, rfl⟩ := h; simp [hi]
      · split at h
        · rename_i p dd2 po heq
          simp at h; obtain ⟨rfl, rfl, rfl⟩ := h
          simp [ih heq]
        · simp at h
    | _ =>
      simp only [splitAtDelim] at h
      split at h
      · rename_i p dd2 po heq
        simp at h; obtain ⟨rfl, rfl, rfl⟩ := h
        simp [ih heq]
      · simp at h

theorem top_delim (id : Nat) (d : Delim) : top (.delim id d) = true := by simp [top, Node.isDelim]

theorem topL_split {pre post : List Node} {n : Node} (h : topL (pre ++ n :: post) = true) :
    topL pre = true ∧ top n = true ∧ topL post = true := by
  rw [topL_append, topL_cons] at h
  simp only [Bool.and_eq_true] at h
  exact ⟨h.1, h.2.1, h.2.2⟩

theorem topL_join {pre post : List Node} {n : Node} (h1 : topL pre = true) (h2 : top n = true)
    (h3 : topL post = true) : topL (pre ++ n :: post) = true := by
  rw [topL_append, topL_cons]; simp [h1, h2, h3]

/-! ### ClearDelimiters / ProcessDelimiters -/

theorem clearDelimiters_topL (b : Bottom) {kids : List Node} (h : topL kids = true) :
    topL (clearDelimiters b kids) = true := by
  unfold clearDelimiters
  split
  · exact h
  · rename_i pre id d post heq
    rw [splitLastDelim_eq heq] at h
    obtain ⟨h1, h2, h3⟩ := topL_split h
    rw [topL_append, topL_reverse, h3]
    simp only [Bool.and_true]
    apply clearRev_topL
    rw [topL_cons, topL_reverse]; simp [h1, h2]

/-- what lies behind the last delimiter has no delimiter -/
theorem splitFirstDelim_none {l : List Node} (h : splitFirstDelim l = none) : ∀ n ∈ l, n.isDelim = false := by
  induction l with
  | nil => simp
  | cons n rest ih =>
    cases n with
    | delim i dd => simp [splitFirstDelim] at h
    | _ =>
      simp only [splitFirstDelim] at h
      split at h
      · simp at h
      · rename_i heq
        intro m hm
        simp at hm
        rcases hm with rfl | hm
        · simp [Node.isDelim]
        · exact ih heq m hm

theorem splitFirstDelim_pre {l pre post : List Node} {id : Nat} {d : Delim}
    (h : splitFirstDelim l = some (pre, id, d, post)) : ∀ n ∈ pre, n.isDelim = false := by
  induction l generalizing pre with
  | nil => simp [splitFirstDelim] at h
  | cons n rest ih =>
    cases n with
    | delim i dd => simp [splitFirstDelim] at h; obtain ⟨rfl, _⟩ := h; simp
    | _ =>
      simp only [splitFirstDelim] at h
      split at h
      · rename_i p i dd po heq
        simp at h; obtain ⟨rfl, rfl, rfl, rfl⟩ := h
        intro m hm
        simp at hm
        rcases hm with rfl | hm
        · simp [Node.isDelim]
        · exact ih heq m hm
      · simp at h

theorem wfL_of_topL_noDelim {l : List Node} (h : topL l = true) (hn : ∀ n ∈ l, n.isDelim = false) :
    wfL true l = true := by
  rw [wfL_iff]
  intro n hm
  simp only [topL, List.all_eq_true] at h
  have := h n hm
  simp [top, hn n hm] at this
  exact this

/-- ClearDelimiters(nil) leaves a child list without any delimiter -/
theorem clearDelimiters_nil_wfL {kids : List Node} (h : topL kids = true) :
    wfL true (clearDelimiters .nil kids) = true := by
  unfold clearDelimiters
  split
  · rename_i heq
    unfold splitLastDelim at heq
    split at heq
    · simp at heq
    · rename_i hnone
      apply wfL_of_topL_noDelim h
      intro n hn
      exact splitFirstDelim_none hnone n (by simpa using hn)
  · rename_i pre id d post heq
    have hl := splitLastDelim_eq heq
    rw [hl] at h
    obtain ⟨h1, h2, h3⟩ := topL_split h
    rw [wfL_append]
    have hpost : wfL true post = true := by
      unfold splitLastDelim at heq
      split at heq
      · rename_i postR i dd preR hq
        simp at heq; obtain ⟨rfl, rfl, rfl, rfl⟩ := heq
        apply wfL_of_topL_noDelim h3
        intro n hn
        exact splitFirstDelim_pre hq n (by simpa using hn)
      · simp at heq
    rw [hpost]
    simp only [Bool.and_true]
    have : wfL true (clearRev .nil (.delim id d :: pre.reverse)) = true := by
      apply clearRev_nil_wfL
      rw [topL_cons, topL_reverse]; simp [h1, h2]
    rw [wfL_iff] at this ⊢
    intro n hn
    exact this n (by simpa using hn)

theorem calc_range (d c : Delim) : d.calcConsumption c = 0 ∨ d.calcConsumption c = 1 ∨ d.calcConsumption c = 2 := by
  unfold Delim.calcConsumption
  split
  · simp
  · split <;> simp

theorem findOpener_spec (b : Bottom) (cd : Delim) :
    ∀ (preR mid : List Node) (m : Bool) {p1 mid' : List Node} {oid : Nat} {od : Delim} {c : Int} {m' : Bool},
    findOpener b cd preR mid m = (some (p1, oid, od, mid', c), m') →
    topL preR = true → topL mid = true →
    topL p1 = true ∧ topL mid' = true ∧ (c = 1 ∨ c = 2) := by
  intro preR
  induction preR with
  | nil => intro mid m p1 mid' oid od c m' h; simp [findOpener] at h
  | cons n rest ih =>
    intro mid m p1 mid' oid od c m' h hp hm
    rw [topL_cons] at hp
    simp only [Bool.and_eq_true] at hp
    cases n with
    | delim id d =>
      simp only [findOpener] at h
      split at h
      · simp at h
      · split at h
        · split at h
          · rename_i hc
            simp at h
            obtain ⟨⟨rfl, rfl, rfl, rfl, rfl⟩, _⟩ := h
            refine ⟨by rw [topL_reverse]; exact hp.2, hm, ?_⟩
            rcases calc_range d cd with h0 | h1 | h2
            · rw [h0] at hc; simp at hc
            · exact Or.inl h1
            · exact Or.inr h2
          · exact ih _ _ h hp.2 (by rw [topL_cons]; simp [top_delim, hm])
        · exact ih _ _ h hp.2 (by rw [topL_cons]; simp [top_delim, hm])
    | _ =>
      simp only [findOpener] at h
      exact ih _ _ h hp.2 (by rw [topL_cons]; simp [hp.1, hm])

theorem top_emphasis {c : Int} {ks : List Node} (hc : c = 1 ∨ c = 2) (h : wfL true ks = true) :
    top (.emphasis c ks) = true := by
  rcases hc with rfl | rfl <;> simp [top, wf, h, Node.isDelim]

theorem advanceCloser_done {pre post res : List Node} (h : advanceCloser pre post = .done res)
    (hp : topL pre = true) (hq : topL post = true) : topL res = true := by
  unfold advanceCloser at h
  split at h
  · simp at h; subst h; rw [topL_append, hp, hq]; rfl
  · simp at h

theorem advanceCloser_next {pre post pre' post' : List Node} {cid : Nat} {cd : Delim}
    (h : advanceCloser pre post = .next pre' cid cd post')
    (hp : topL pre = true) (hq : topL post = true) : topL pre' = true ∧ topL post' = true := by
  unfold advanceCloser at h
  split at h
  · simp at h
  · rename_i heq
    simp at h; obtain ⟨rfl, _, _, rfl⟩ := h
    have e := splitFirstDelim_eq heq
    rw [e] at hq
    obtain ⟨q1, _, q3⟩ := topL_split hq
    exact ⟨by rw [topL_append, hp, q1]; rfl, q3⟩

/-- what `closerStep` hands to `advanceCloser` / the next round as "everything in front" is well-shaped -/
theorem closerStep_pre {b : Bottom} {pre : List Node} {cid : Nat} {cd : Delim} (hp : topL pre = true) :
    topL (pre ++ [.delim cid cd]) = true ∧
    (∀ m : Bool, topL (if !m && !cd.canOpen then removeDelim pre cd else pre ++ [.delim cid cd]) = true) ∧
    (∀ {p1 mid : List Node} {oid : Nat} {od : Delim} {consume : Int} {m : Bool},
      findOpener b cd pre.reverse [] false = (some (p1, oid, od, mid, consume), m) →
      topL ((if (od.consume consume).length == 0 then p1 else p1 ++ [.delim oid (od.consume consume)]) ++
        [Node.emphasis consume (clearInner [] mid)]) = true) := by
  have h1 : topL (pre ++ [.delim cid cd]) = true := by rw [topL_append, hp]; simp [topL, top_delim]
  refine ⟨h1, ?_, ?_⟩
  · intro m
    split
    · exact removeDelim_topL hp
    · exact h1
  · intro p1 mid oid od consume m hf
    obtain ⟨f1, f2, f3⟩ := findOpener_spec b cd _ _ _ hf (by rw [topL_reverse]; exact hp) (by simp [topL])
    rw [topL_append]
    have hn : topL [Node.emphasis consume (clearInner [] mid)] = true := by
      simp only [topL, List.all_cons, List.all_nil, Bool.and_true]
      exact top_emphasis f3 (clearInner_wfL (by simp [wfL]) f2)
    rw [hn]
    simp only [Bool.and_true]
    split
    · exact f1
    · rw [topL_append, f1]; simp [topL, top_delim]

theorem closerStep_done {b : Bottom} {pre post res : List Node} {cid : Nat} {cd : Delim}
    (h : closerStep b pre cid cd post = .done res) (hp : topL pre = true) (hq : topL post = true) :
    topL res = true := by
  obtain ⟨a1, a2, a3⟩ := closerStep_pre (b := b) (cid := cid) (cd := cd) hp
  unfold closerStep at h
  split at h
  · simp at h
  · split at h
    · exact advanceCloser_done h a1 hq
    · split at h
      · exact advanceCloser_done h (a2 _) hq
      · rename_i hf
        split at h
        · simp at h
        · simp only at h
          split at h
          · exact advanceCloser_done h (a3 hf) hq
          · simp at h

theorem closerStep_next {b : Bottom} {pre post pre' post' : List Node} {cid cid' : Nat} {cd cd' : Delim}
    (h : closerStep b pre cid cd post = .next pre' cid' cd' post') (hp : topL pre = true) (hq : topL post = true) :
    topL pre' = true ∧ topL post' = true := by
  obtain ⟨a1, a2, a3⟩ := closerStep_pre (b := b) (cid := cid) (cd := cd) hp
  unfold closerStep at h
  split at h
  · simp at h
  · split at h
    · exact advanceCloser_next h a1 hq
    · split at h
      · exact advanceCloser_next h (a2 _) hq
      · rename_i hf
        split at h
        · simp at h
        · simp only at h
          split at h
          · exact advanceCloser_next h (a3 hf) hq
          · simp only [CStep.next.injEq] at h
            obtain ⟨rfl, _, _, rfl⟩ := h
            exact ⟨a3 hf, hq⟩

theorem closerLoop_topL (b : Bottom) (pre : List Node) (cid : Nat) (cd : Delim) (post : List Node) :
    ∀ {res : List Node}, closerLoop b pre cid cd post = .ok res → topL pre = true → topL post = true →
    topL res = true := by
  fun_induction closerLoop b pre cid cd post with
  | case1 pre cid cd post kids hs =>
    intro res h hp hq
    simp at h; subst h
    exact closerStep_done hs hp hq
  | case2 => intro res h; simp at h
  | case3 pre cid cd post pre' cid' cd' post' hs ih =>
    intro res h hp hq
    obtain ⟨n1, n2⟩ := closerStep_next hs hp hq
    exact ih h n1 n2

/-- ProcessDelimiters keeps the children well-shaped -/
theorem processDelimiters_topL {b : Bottom} {kids res : List Node} (h : processDelimiters b kids = .ok res)
    (hk : topL kids = true) : topL res = true := by
  unfold processDelimiters at h
  split at h
  · simp at h; subst h; exact hk
  · simp only at h
    split at h
    · simp at h; subst h; exact clearDelimiters_topL b hk
    · split at h
      · simp at h
      · rename_i pre cd post hs
        split at h
        · rename_i kids' hl
          simp at h; subst h
          have e := splitAtDelim_eq hs
          rw [e] at hk
          obtain ⟨q1, _, q3⟩ := topL_split hk
          exact clearDelimiters_topL b (closerLoop_topL _ _ _ _ _ hl q1 q3)
        · simp at h

/-- ProcessDelimiters(nil, pc): no delimiter is left among the children -/
theorem processDelimiters_nil_wfL {kids res : List Node} (h : processDelimiters .nil kids = .ok res)
    (hk : topL kids = true) : wfL true res = true := by
  unfold processDelimiters at h
  split at h
  · rename_i heq
    simp at h; subst h
    unfold splitLastDelim at heq
    split at heq
    · simp at heq
    · rename_i hnone
      apply wfL_of_topL_noDelim hk
      intro n hn
      exact splitFirstDelim_none hnone n (by simpa using hn)
  · simp only at h
    split at h
    · simp at h; subst h; exact clearDelimiters_nil_wfL hk
    · split at h
      · simp at h
      · rename_i pre cd post hs
        split at h
        · rename_i kids' hl
          simp at h; subst h
          have e := splitAtDelim_eq hs
          rw [e] at hk
          obtain ⟨q1, _, q3⟩ := topL_split hk
          exact clearDelimiters_nil_wfL (closerLoop_topL _ _ _ _ _ hl q1 q3)
        · simp at h

/-! ### the parsers that only move the reader -/

/-- take a hypothesis `h : (monadic program) = .ok r` apart into its paths -/
macro "mpaths" h:ident : tactic =>
  `(tactic| (
    simp only [bind, Except.bind, pure, Except.pure, throw, throwThe, MonadExceptOf.throw] at $h:ident
    repeat (any_goals (first | contradiction | split at $h:ident))
    all_goals (try (simp only [Except.ok.injEq, Prod.mk.injEq, Option.some.injEq, reduceCtorEq, false_and,
      and_false] at $h:ident))))

theorem parseAutoLink_top {rd rd' : BlockReader} {n : Node} (h : parseAutoLink rd = .ok (some n, rd')) :
    top n = true := by
  unfold parseAutoLink at h
  mpaths h
  all_goals (obtain ⟨rfl, _⟩ := h; simp [top, wf, Node.isDelim])

theorem parseEmphasis_top {env : Env} {id : Nat} {rd rd' : BlockReader} {n : Node}
    (h : parseEmphasis env id rd = .ok (some n, rd')) : top n = true := by
  unfold parseEmphasis at h
  mpaths h
  all_goals (obtain ⟨rfl, _⟩ := h; simp [top, wf, Node.isDelim])

theorem parseTag_top {m : Bytes → Option Nat} {rd rd' : BlockReader} {n : Node}
    (h : parseTag m rd = .ok (some n, rd')) : top n = true := by
  unfold parseTag at h
  mpaths h
  all_goals (obtain ⟨rfl, _⟩ := h; simp [top, wf, Node.isDelim])

theorem parseRawHTML_top {rd rd' : BlockReader} {n : Node} (h : parseRawHTML rd = .ok (some n, rd')) :
    top n = true := by
  unfold parseRawHTML at h
  mpaths h
  all_goals first | exact parseTag_top h | (obtain ⟨rfl, _⟩ := h; simp [top, wf, Node.isDelim])

theorem all_isText_append {a b : List Node} : (a ++ b).all isText = (a.all isText && b.all isText) := by simp

theorem csLoop_shape (opener : Nat) (l : Int) (pos ss : Segment) :
    ∀ (fuel : Nat) (rd : BlockReader) (acc : List Node) {r : Sum Node (List Node)} {rd' : BlockReader},
    csLoop opener l pos ss fuel rd acc = .ok (r, rd') → acc.all isText = true →
    (match r with | .inl t => isText t = true | .inr ks => ks.all isText = true) := by
  intro fuel
  induction fuel with
  | zero => intro rd acc r rd' h; simp [csLoop] at h
  | succ f ih =>
    intro rd acc r rd' h ha
    simp only [csLoop, bind, Except.bind, pure, Except.pure] at h
    split at h
    · contradiction
    · split at h
      · split at h
        · contradiction
        · simp at h; obtain ⟨rfl, _⟩ := h; simp [textOf, isText]
      · split at h
        · split at h
          · contradiction
          · simp at h; obtain ⟨rfl, _⟩ := h
            simp only
            split
            · rw [all_isText_append, ha]; simp [rawTextOf, isText]
            · exact ha
        · split at h
          · contradiction
          · apply ih _ _ h
            rw [all_isText_append, ha]; simp [rawTextOf, isText]

theorem all_isText_dropLast {l : List Node} (h : l.all isText = true) : l.dropLast.all isText = true := by
  simp only [List.all_eq_true] at *
  intro n hn
  exact h n (List.dropLast_subset _ hn)

theorem csTrim_shape {src : Bytes} {ks ks' : List Node} (h : csTrim src ks = .ok ks') (ha : ks.all isText = true) :
    ks'.all isText = true := by
  unfold csTrim at h
  mpaths h
  all_goals (try subst h)
  all_goals (try exact ha)
  all_goals (try (simp only [all_isText_append]; rw [all_isText_dropLast]))
  all_goals (try (simp_all [isText]))

theorem parseCodeSpan_top {rd rd' : BlockReader} {n : Node} (h : parseCodeSpan rd = .ok (some n, rd')) :
    top n = true := by
  unfold parseCodeSpan at h
  simp only [bind, Except.bind, pure, Except.pure] at h
  split at h
  · contradiction
  · split at h
    · contradiction
    · split at h
      · contradiction
      · rename_i v3 hl
        have sh := csLoop_shape _ _ _ _ _ _ _ hl (by simp)
        split at h
        · rename_i t hr
          simp at h; obtain ⟨rfl, _⟩ := h
          rw [hr] at sh
          cases t <;> simp [isText] at sh
          simp [top, wf]
        · rename_i ks hr
          rw [hr] at sh
          split at h
          · contradiction
          · rename_i ks' ht
            simp at h; obtain ⟨rfl, _⟩ := h
            simp [top, wf, Node.isDelim, csTrim_shape ht sh]

/-! ### what ProcessDelimiters cannot move: the sequence of nodes other than text, delimiters, emphasis -/

mutual
/-- the subtree with Emphasis nodes opened up and Text / Delimiter nodes dropped -/
def flat : Node → List Node
  | .emphasis _ ks => flatL ks
  | .text .. => []
  | .delim .. => []
  | .codeSpan ks => [.codeSpan ks]
  | .link a b c ks => [.link a b c ks]
  | .autoLink a b => [.autoLink a b]
  | .rawHTML a => [.rawHTML a]
  | .label a b c => [.label a b c]
def flatL : List Node → List Node
  | [] => []
  | n :: rest => flat n ++ flatL rest
end

theorem flatL_append (a b : List Node) : flatL (a ++ b) = flatL a ++ flatL b := by
  induction a with
  | nil => simp [flatL]
  | cons x r ih => simp [flatL, ih]

theorem flatL_text (s : Segment) (a b c : Bool) : flatL [.text s a b c] = [] := by simp [flatL, flat]

theorem flatL_mergeOrAppend (l : List Node) (s : Segment) : flatL (mergeOrAppend l s) = flatL l := by
  unfold mergeOrAppend
  split
  · rename_i seg so ha ra hl
    split
    · obtain ⟨ys, rfl⟩ := List.getLast?_eq_some_iff.mp hl
      simp [flatL_append, flatL_text]
    · simp [flatL_append, textOf, flatL_text]
  · simp [flatL_append, textOf, flatL_text]

theorem flatL_removeDelim (pre : List Node) (d : Delim) : flatL (removeDelim pre d) = flatL pre := by
  unfold removeDelim; split
  · exact flatL_mergeOrAppend _ _
  · rfl

theorem flatL_clearInner (acc mid : List Node) : flatL (clearInner acc mid) = flatL acc ++ flatL mid := by
  induction mid generalizing acc with
  | nil => simp [clearInner, flatL]
  | cons n rest ih =>
    cases n with
    | delim id d => simp only [clearInner]; rw [ih, flatL_removeDelim]; simp [flatL, flat]
    | _ => simp only [clearInner]; rw [ih, flatL_append]; simp [flatL]

theorem flatL_clearRev (b : Bottom) (l : List Node) : flatL (clearRev b l).reverse = flatL l.reverse := by
  induction l with
  | nil => simp [clearRev]
  | cons n rest ih =>
    cases n with
    | delim id d =>
      simp only [clearRev]
      split
      · rfl
      · split
        · cases rest with
          | nil => simp [clearRev, textOf, flatL, flat]
          | cons t rest' =>
            have hd : flatL (Node.delim id d :: t :: rest').reverse = flatL (t :: rest').reverse := by
              simp [flatL_append, flatL, flat]
            rw [hd]
            cases t with
            | text seg so ha ra =>
              simp only [clearRev] at ih ⊢
              simp only [List.reverse_cons, flatL_append, flatL_text, List.append_nil] at ih ⊢
              split
              · simp only [List.reverse_cons, flatL_append, flatL_text, List.append_nil]; exact ih
              · simp only [List.reverse_cons, flatL_append, textOf, flatL_text, List.append_nil]; exact ih
            | _ =>
              simp only [List.reverse_cons, flatL_append, textOf, flatL_text, List.append_nil]
              simpa [List.reverse_cons, flatL_append] using ih
        · rw [ih]; simp [flatL_append, flatL, flat]
    | _ => simp only [clearRev, List.reverse_cons, flatL_append]; rw [ih]

theorem flatL_clearDelimiters (b : Bottom) (kids : List Node) : flatL (clearDelimiters b kids) = flatL kids := by
  unfold clearDelimiters
  split
  · rfl
  · rename_i pre id d post heq
    rw [flatL_append, flatL_clearRev]
    conv => rhs; rw [splitLastDelim_eq heq]
    simp [flatL_append, flatL, flat]

theorem findOpener_eq (b : Bottom) (cd : Delim) :
    ∀ (preR mid : List Node) (m : Bool) {p1 mid' : List Node} {oid : Nat} {od : Delim} {c : Int} {m' : Bool},
    findOpener b cd preR mid m = (some (p1, oid, od, mid', c), m') →
    preR.reverse ++ mid = p1 ++ .delim oid od :: mid' := by
  intro preR
  induction preR with
  | nil => intro mid m p1 mid' oid od c m' h; simp [findOpener] at h
  | cons n rest ih =>
    intro mid m p1 mid' oid od c m' h
    cases n with
    | delim id d =>
      simp only [findOpener] at h
      split at h
      · simp at h
      · split at h
        · split at h
          · simp at h
            obtain ⟨⟨rfl, rfl, rfl, rfl, rfl⟩, _⟩ := h
            simp
          · have := ih _ _ h; simpa using this
        · have := ih _ _ h; simpa using this
    | _ =>
      simp only [findOpener] at h
      have := ih _ _ h; simpa using this

/-- the child list a round of the closer loop stands for -/
def wholeOf : CStep → List Node
  | .done kids => kids
  | .next pre cid cd post => pre ++ .delim cid cd :: post
  | .bad => []

theorem advanceCloser_whole (pre post : List Node) : wholeOf (advanceCloser pre post) = pre ++ post := by
  unfold advanceCloser
  split
  · rfl
  · rename_i heq
    simp [wholeOf, splitFirstDelim_eq heq]

theorem flatL_delim_mid (a b : List Node) (id : Nat) (d : Delim) :
    flatL (a ++ .delim id d :: b) = flatL a ++ flatL b := by
  simp [flatL_append, flatL, flat]

theorem closerStep_flat {b : Bottom} {pre post : List Node} {cid : Nat} {cd : Delim} {r : CStep}
    (hr : closerStep b pre cid cd post = r) (hne : r ≠ .bad) :
    flatL (wholeOf r) = flatL (pre ++ .delim cid cd :: post) := by
  unfold closerStep at hr
  split at hr
  · subst hr; exact absurd rfl hne
  · split at hr
    · subst hr; rw [advanceCloser_whole]; simp [flatL_append, flatL, flat]
    · split at hr
      · subst hr
        rw [advanceCloser_whole]
        split
        · rw [flatL_append, flatL_removeDelim, flatL_delim_mid]
        · simp [flatL_append, flatL, flat]
      · rename_i p1 oid od mid consume m hf
        have e := findOpener_eq b cd _ _ _ hf
        simp only [List.reverse_reverse, List.append_nil] at e
        split at hr
        · subst hr; exact absurd rfl hne
        · simp only at hr
          have hp : flatL pre = flatL p1 ++ flatL mid := by rw [e, flatL_delim_mid]
          split at hr
          · subst hr
            rw [advanceCloser_whole, flatL_delim_mid, hp]
            simp only [flatL_append]
            split <;> simp [flatL_append, flatL, flat, flatL_clearInner]
          · subst hr
            simp only [wholeOf]
            rw [flatL_delim_mid, flatL_delim_mid, hp]
            simp only [flatL_append]
            split <;> simp [flatL_append, flatL, flat, flatL_clearInner]

theorem closerLoop_flat (b : Bottom) (pre : List Node) (cid : Nat) (cd : Delim) (post : List Node) :
    ∀ {res : List Node}, closerLoop b pre cid cd post = .ok res →
    flatL res = flatL (pre ++ .delim cid cd :: post) := by
  fun_induction closerLoop b pre cid cd post with
  | case1 pre cid cd post kids hs =>
    intro res h
    simp at h; subst h
    exact closerStep_flat hs (by simp)
  | case2 => intro res h; simp at h
  | case3 pre cid cd post pre' cid' cd' post' hs ih =>
    intro res h
    rw [ih h]
    exact closerStep_flat hs (by simp)

theorem processDelimiters_flat {b : Bottom} {kids res : List Node} (h : processDelimiters b kids = .ok res) :
    flatL res = flatL kids := by
  unfold processDelimiters at h
  split at h
  · simp at h; subst h; rfl
  · simp only at h
    split at h
    · simp at h; subst h; exact flatL_clearDelimiters _ _
    · split at h
      · simp at h
      · rename_i pre cd post hs
        split at h
        · rename_i kids' hl
          simp at h; subst h
          rw [flatL_clearDelimiters, closerLoop_flat _ _ _ _ _ hl, ← splitAtDelim_eq hs]
        · simp at h

mutual
theorem containsLink_flat : ∀ (n : Node), containsLink n = (flat n).any containsLink
  | .text .. => by simp [containsLink, flat]
  | .codeSpan ks => by simp [flat]
  | .emphasis _ ks => by simp only [containsLink, flat]; exact containsLinkL_flat ks
  | .link _ _ _ ks => by simp [flat]
  | .autoLink .. => by simp [containsLink, flat]
  | .rawHTML .. => by simp [containsLink, flat]
  | .delim .. => by simp [containsLink, flat]
  | .label .. => by simp [containsLink, flat]
theorem containsLinkL_flat : ∀ (l : List Node), containsLinkL l = (flatL l).any containsLink
  | [] => by simp [containsLinkL, flatL]
  | n :: rest => by
    simp only [containsLinkL, flatL, List.any_append]
    rw [containsLink_flat n, containsLinkL_flat rest]
end

mutual
theorem hasLabel_flat : ∀ (n : Node), hasLabel n = false → ∀ m ∈ flat n, m.isLabel = false
  | .text .., _ => by simp [flat]
  | .codeSpan ks, _ => by simp [flat, Node.isLabel]
  | .emphasis _ ks, h => by simp only [hasLabel] at h; simp only [flat]; exact hasLabelL_flat ks h
  | .link .., _ => by simp [flat, Node.isLabel]
  | .autoLink .., _ => by simp [flat, Node.isLabel]
  | .rawHTML .., _ => by simp [flat, Node.isLabel]
  | .delim .., _ => by simp [flat]
  | .label .., h => by simp [hasLabel] at h
theorem hasLabelL_flat : ∀ (l : List Node), hasLabelL l = false → ∀ m ∈ flatL l, m.isLabel = false
  | [], _ => by simp [flatL]
  | n :: rest, h => by
    simp only [hasLabelL, Bool.or_eq_false_iff] at h
    intro m hm
    simp only [flatL, List.mem_append] at hm
    rcases hm with hm | hm
    · exact hasLabel_flat n h.1 m hm
    · exact hasLabelL_flat rest h.2 m hm
end

theorem takeWhile_prefix {α : Type} (p : α → Bool) (u v : List α) (x : α) (hu : ∀ n ∈ u, p n = true) (hx : p x = false) :
    (u ++ x :: v).takeWhile p = u := by
  induction u with
  | nil => simp [List.takeWhile, hx]
  | cons a r ih =>
    have ha := hu a (by simp)
    simp only [List.cons_append, List.takeWhile_cons, ha, if_true]
    rw [ih (fun n hn => hu n (by simp [hn]))]

/-- two decompositions of one list at its last label agree on what follows -/
theorem last_label_suffix {a b a' b' : List Node} {x x' : Node} (h : a ++ x :: b = a' ++ x' :: b')
    (hx : x.isLabel = true) (hx' : x'.isLabel = true) (hb : ∀ n ∈ b, n.isLabel = false)
    (hb' : ∀ n ∈ b', n.isLabel = false) : b = b' := by
  have h2 := congrArg List.reverse h
  simp only [List.reverse_append, List.reverse_cons, List.append_assoc, List.singleton_append] at h2
  have t1 := takeWhile_prefix (fun n : Node => !n.isLabel) b.reverse a.reverse x
    (by intro n hn; simp [hb n (by simpa using hn)]) (by simp [hx])
  have t2 := takeWhile_prefix (fun n : Node => !n.isLabel) b'.reverse a'.reverse x'
    (by intro n hn; simp [hb' n (by simpa using hn)]) (by simp [hx'])
  rw [h2, t2] at t1
  have := congrArg List.reverse t1
  simpa using this.symm

/-! ### the link parser -/

theorem splitFirstLabel_eq {l pre post : List Node} {id : Nat} {seg : Segment} {im : Bool}
    (h : splitFirstLabel l = some (pre, (id, seg, im), post)) : l = pre ++ .label id seg im :: post := by
  induction l generalizing pre with
  | nil => simp [splitFirstLabel] at h
  | cons n rest ih =>
    cases n with
    | label i sg m => simp [splitFirstLabel] at h; obtain ⟨rfl, ⟨rfl, rfl, rfl⟩, rfl⟩ := h; simp
    | _ =>
      simp only [splitFirstLabel] at h
      split at h
      · rename_i p x po heq
        simp at h; obtain ⟨rfl, rfl, rfl⟩ := h
        simp [ih heq]
      · simp at h

theorem splitLastLabel_eq {l pre post : List Node} {id : Nat} {seg : Segment} {im : Bool}
    (h : splitLastLabel l = some (pre, (id, seg, im), post)) : l = pre ++ .label id seg im :: post := by
  unfold splitLastLabel at h
  split at h
  · rename_i postR x preR heq
    simp at h; obtain ⟨rfl, rfl, rfl⟩ := h
    have := splitFirstLabel_eq heq
    have h2 := congrArg List.reverse this
    simpa using h2
  · simp at h

theorem popBottom_kids (st : St) : (popBottom st).2.kids = st.kids := by
  unfold popBottom; split <;> rfl

theorem pushBottom_kids (st : St) : (pushBottom st).kids = st.kids := by
  unfold pushBottom; rfl

/-- what the `]` branch knows about the children a link parse hands back: they are well-shaped, they contain a
    Link exactly if the children behind `last` did before, and a failed attempt leaves the children alone -/
def LinkRes (kids0 : List Node) (res : Option LinkInfo) (st' : St) : Prop :=
  topL st'.kids = true ∧ (res = none → st'.kids = kids0) ∧
  ∀ info, res = some info → wfL true info.kids = true ∧
    ∀ pre0 x0 post0, splitLastLabel kids0 = some (pre0, x0, post0) → containsLinkL info.kids = containsLinkL post0

theorem processLinkLabel_inv {st st' : St} {post : List Node}
    (h : processLinkLabel st = .ok (post, st')) (hk : topL st.kids = true) :
    topL st'.kids = true ∧ wfL true post = true ∧
    ∀ pre0 x0 post0, splitLastLabel st.kids = some (pre0, x0, post0) → containsLinkL post = containsLinkL post0 := by
  unfold processLinkLabel at h
  simp only [popBottom_kids] at h
  split at h
  · contradiction
  · rename_i p0 x0 post0 hs0
    split at h
    · contradiction
    · rename_i hl0
      split at h
      · contradiction
      · rename_i kids hp
        have hk' := processDelimiters_topL hp hk
        have hfl := processDelimiters_flat hp
        split at h
        · contradiction
        · rename_i pre lid lseg im po hs
          split at h
          · contradiction
          · rename_i hg
            simp at h; obtain ⟨rfl, rfl⟩ := h
            simp only [Bool.or_eq_true, not_or, Bool.not_eq_true] at hg
            have e := splitLastLabel_eq hs
            rw [e] at hk'
            obtain ⟨q1, q2, q3⟩ := topL_split hk'
            refine ⟨?_, ?_, ?_⟩
            · simp only; rw [topL_append, q1]; simp [topL, q2]
            · apply wfL_of_topL_noDelim q3
              intro n hn
              have := hg.1
              simp only [List.any_eq_false] at this
              simpa using this n hn
            · intro pre1 x1 post1 hs1
              rw [hs0] at hs1
              simp at hs1; obtain ⟨rfl, rfl, rfl⟩ := hs1
              obtain ⟨i0, sg0, im0⟩ := x0
              have e0 := splitLastLabel_eq hs0
              rw [e, e0] at hfl
              simp only [flatL_append, flatL, flat, List.singleton_append, List.cons_append, List.nil_append] at hfl
              have := last_label_suffix hfl (by simp [Node.isLabel]) (by simp [Node.isLabel])
                (hasLabelL_flat _ hg.2) (hasLabelL_flat _ (by simpa using hl0))
              rw [containsLinkL_flat, containsLinkL_flat post0, this]

theorem top_link {im : Bool} {d : Bytes} {t : Option Bytes} {ks : List Node} (h : wfL true ks = true)
    (hl : (im || !containsLinkL ks) = true) : top (.link im d t ks) = true := by
  simp only [top, wf, h, Node.isDelim, Bool.true_and, Bool.false_or]; exact hl

theorem linkRes_fail {kids0 : List Node} {st' : St} (hk : topL kids0 = true) (e : st'.kids = kids0) :
    LinkRes kids0 none st' :=
  ⟨by rw [e]; exact hk, fun _ => e, by intro info hi; simp at hi⟩

theorem linkRes_ok {st st' : St} {post : List Node} {d : Bytes} {t : Option Bytes} {kids0 : List Node}
    (h : processLinkLabel st = .ok (post, st')) (hk : topL st.kids = true) (e : st.kids = kids0) :
    LinkRes kids0 (some { dest := d, title := t, kids := post }) st' := by
  obtain ⟨a1, a2, a3⟩ := processLinkLabel_inv h hk
  refine ⟨a1, by intro hh; simp at hh, ?_⟩
  intro info hi
  simp at hi; subst hi
  exact ⟨a2, by rw [← e]; exact a3⟩

theorem parseLinkInline_inv {st st' : St} {res : Option LinkInfo}
    (h : parseLinkInline st = .ok (res, st')) (hk : topL st.kids = true) : LinkRes st.kids res st' := by
  unfold parseLinkInline at h
  mpaths h
  all_goals first
    | (obtain ⟨rfl, rfl⟩ := h; exact linkRes_fail hk rfl)
    | (rename_i v heq
       obtain ⟨rfl, rfl⟩ := h
       exact linkRes_ok (st := { st with rd := _ }) heq hk rfl)

theorem parseReferenceLink_inv {env : Env} {st st' : St} {lseg : Segment} {res : Option LinkInfo} {hv : Bool}
    (h : parseReferenceLink env st lseg = .ok ((res, hv), st')) (hk : topL st.kids = true) :
    LinkRes st.kids res st' := by
  unfold parseReferenceLink at h
  mpaths h
  all_goals first
    | (obtain ⟨⟨rfl, _⟩, rfl⟩ := h; exact linkRes_fail hk rfl)
    | (rename_i v heq
       obtain ⟨⟨rfl, _⟩, rfl⟩ := h
       exact linkRes_ok (st := { st with rd := _ }) heq hk rfl)

/-- the invariant a parser call keeps: the children stay well-shaped and the node it returns is a legal child -/
def ParserOK (r : Option Node × St) : Prop :=
  topL r.2.kids = true ∧ ∀ n, r.1 = some n → top n = true

theorem linkFail_inv {pre post : List Node} {lseg : Segment} {st : St} {r : Option Node × St}
    (h : linkFail pre lseg post st = .ok r) (q1 : topL pre = true) (q3 : topL post = true) : ParserOK r := by
  unfold linkFail at h
  simp at h; subst h
  refine ⟨?_, by simp⟩
  simp only; rw [topL_append, mergeOrAppend_topL q1, q3]; rfl

theorem linkDone_inv {isImage : Bool} {info : LinkInfo} {st : St} {r : Option Node × St}
    (h : linkDone isImage info st = .ok r) (hk : topL st.kids = true) (hi : wfL true info.kids = true)
    (hl : (isImage || !containsLinkL info.kids) = true) : ParserOK r := by
  unfold linkDone at h
  simp at h; subst h
  exact ⟨topL_dropLast hk, by intro n hn; simp at hn; subst hn; exact top_link hi hl⟩

theorem linkShortcut_inv {env : Env} {st : St} {lseg segment pos : Segment} {l : Int} {isImage : Bool}
    {pre post pre0 post0 : List Node} {x0 : Nat × Segment × Bool} {r : Option Node × St}
    (h : linkShortcut env st lseg segment l pos isImage pre post = .ok r)
    (hk : topL st.kids = true) (q1 : topL pre = true) (q3 : topL post = true)
    (hs : splitLastLabel st.kids = some (pre0, x0, post0))
    (hc : (isImage || !containsLinkL post0) = true) : ParserOK r := by
  unfold linkShortcut at h
  simp only [bind, Except.bind, pure, Except.pure] at h
  split at h
  · contradiction
  · split at h
    · contradiction
    · split at h
      · exact linkFail_inv h q1 q3
      · split at h
        · exact linkFail_inv h q1 q3
        · split at h
          · contradiction
          · rename_i v hv
            obtain ⟨a1, a2, a3⟩ := processLinkLabel_inv (st := { st with rd := _ }) hv hk
            exact linkDone_inv h a1 a2 (by simp only; rw [a3 _ _ _ hs]; exact hc)

theorem linkTry_inv {env : Env} {st st' : St} {lseg : Segment} {c : UInt8} {link : Option LinkInfo}
    {hv : Bool} (h : linkTry env st lseg c = .ok (link, hv, st')) (hk : topL st.kids = true) :
    LinkRes st.kids link st' := by
  unfold linkTry at h
  split at h
  · split at h
    · rename_i l s hl
      simp at h; obtain ⟨rfl, _, rfl⟩ := h
      exact parseLinkInline_inv hl hk
    · contradiction
  · split at h
    · split at h
      · rename_i l v s hl
        simp at h; obtain ⟨rfl, _, rfl⟩ := h
        exact parseReferenceLink_inv hl hk
      · contradiction
    · simp at h; obtain ⟨rfl, _, rfl⟩ := h
      exact linkRes_fail hk rfl

theorem parseLinkClose_inv {env : Env} {st : St} {segment : Segment} {r : Option Node × St}
    (h : parseLinkClose env st segment = .ok r) (hk : topL st.kids = true) : ParserOK r := by
  unfold parseLinkClose at h
  split at h
  · simp at h; subst h; exact ⟨hk, by simp⟩
  · rename_i pre lid lseg isImage post hs
    have e := splitLastLabel_eq hs
    have hk0 := hk
    rw [e] at hk
    obtain ⟨q1, _, q3⟩ := topL_split hk
    simp only [bind, Except.bind, pure, Except.pure] at h
    split at h
    · contradiction
    · rename_i rd hadv
      split at h
      · exact linkFail_inv h q1 q3
      · split at h
        · exact linkFail_inv h q1 q3
        · rename_i hchk
          have hchk' : (isImage || !containsLinkL post) = true := by
            cases isImage <;> cases hcl : containsLinkL post <;> simp_all
          split at h
          · contradiction
          · split at h
            · contradiction
            · rename_i v hv
              obtain ⟨t1, t2, t3⟩ := linkTry_inv (st := { st with rd := rd }) (link := v.1) (hv := v.2.1) (st' := v.2.2) hv
                (by simpa using hk0)
              split at h
              · rename_i info hi
                obtain ⟨w1, w2⟩ := t3 info hi
                exact linkDone_inv h t1 w1 (by rw [w2 _ _ _ hs]; exact hchk')
              · rename_i hnone
                split at h
                · exact linkFail_inv h q1 q3
                · have ek := t2 hnone
                  exact linkShortcut_inv h t1 q1 q3 (by rw [ek]; exact hs) hchk'

theorem labelOpen_inv {st : St} {pos : Int} {im : Bool} {r : Option Node × St}
    (h : labelOpen st pos im = .ok r) (hk : topL st.kids = true) : ParserOK r := by
  unfold labelOpen at h
  mpaths h
  all_goals (subst h; exact ⟨hk, by intro n hn; simp at hn; subst hn; simp [top, wf]⟩)

theorem parseLink_inv {env : Env} {st : St} {r : Option Node × St}
    (h : parseLink env st = .ok r) (hk : topL st.kids = true) : ParserOK r := by
  unfold parseLink at h
  simp only [bind, Except.bind, pure, Except.pure, throw, throwThe, MonadExceptOf.throw] at h
  split at h
  · contradiction
  · split at h
    · contradiction
    · split at h
      · split at h
        · split at h
          · contradiction
          · have := labelOpen_inv (st := pushBottom _) h (by rw [pushBottom_kids]; exact hk)
            exact this
        · simp at h; subst h; exact ⟨hk, by simp⟩
      · split at h
        · exact labelOpen_inv (st := pushBottom _) h (by rw [pushBottom_kids]; exact hk)
        · exact parseLinkClose_inv (st := { st with rd := _ }) h hk

/-! ### the loop of parseBlock -/

theorem liftR_inv {st : St} {x : RRes} {r : Option Node × St} (h : liftR st x = .ok r)
    (hk : topL st.kids = true) (hn : ∀ n rd, x = .ok (some n, rd) → top n = true) : ParserOK r := by
  unfold liftR at h
  split at h
  · rename_i n rd
    simp at h; subst h
    exact ⟨hk, by intro m hm; simp at hm; subst hm; exact hn _ _ rfl⟩
  · contradiction

theorem ipParse_inv {env : Env} {ip : Ip} {st : St} {r : Option Node × St}
    (h : ip.parse env st = .ok r) (hk : topL st.kids = true) : ParserOK r := by
  cases ip with
  | codeSpan => exact liftR_inv h hk (fun _ _ e => parseCodeSpan_top e)
  | link => exact parseLink_inv h hk
  | autoLink => exact liftR_inv h hk (fun _ _ e => parseAutoLink_top e)
  | rawHTML => exact liftR_inv h hk (fun _ _ e => parseRawHTML_top e)
  | emphasis => exact liftR_inv (st := { st with nextId := _ }) h hk (fun _ _ e => parseEmphasis_top e)

theorem tryParsers_inv {env : Env} {sl : Int} {sp : Segment} :
    ∀ (ips : List Ip) {st : St} {r : Option Node × St},
    tryParsers env sl sp ips st = .ok r → topL st.kids = true → ParserOK r := by
  intro ips
  induction ips with
  | nil => intro st r h hk; simp [tryParsers, pure, Except.pure] at h; subst h; exact ⟨hk, by simp⟩
  | cons ip rest ih =>
    intro st r h hk
    simp only [tryParsers, bind, Except.bind, pure, Except.pure] at h
    split at h
    · contradiction
    · rename_i v hv
      have := ipParse_inv hv hk
      split at h
      · rename_i n hn
        simp at h; subst h
        exact ⟨this.1, by intro m hm; simp at hm; subst hm; exact this.2 _ hn⟩
      · split at h
        · contradiction
        · exact ih (st := { v.2 with rd := _ }) h this.1

theorem bind_ok {α β : Type} {x : Except Panic α} {f : α → Except Panic β} {b : β}
    (h : (x >>= f) = .ok b) : ∃ a, x = .ok a ∧ f a = .ok b := by
  cases x with
  | error e => simp [bind, Except.bind] at h
  | ok a => exact ⟨a, rfl, h⟩

theorem bump_st (c : UInt8) (s : Inl.Scan) : (bump c s).st = s.st := by
  unfold bump; split
  · rfl
  · split <;> rfl

theorem trigger_inv {env : Env} {ips : List Ip} {i : Nat} {s : Inl.Scan} {r : Sum St Inl.Scan}
    (h : trigger env ips i s = .ok r) (hk : topL s.st.kids = true) :
    (match r with | .inl st => topL st.kids = true | .inr s' => topL s'.st.kids = true) := by
  unfold trigger at h
  obtain ⟨rd, _, h⟩ := bind_ok h
  obtain ⟨ks, hks, h⟩ := bind_ok h
  obtain ⟨w, hw, h⟩ := bind_ok h
  have hkids : topL ks.1 = true := by
    split at hks
    · cases hb : s.sp.between rd.position.2 with
      | error e => rw [hb] at hks; simp [Except.map] at hks
      | ok seg => rw [hb] at hks; simp [Except.map] at hks; subst hks; exact mergeOrAppend_topL hk
    · simp [pure, Except.pure] at hks; subst hks; exact hk
  have := tryParsers_inv _ (st := { s.st with rd := _, kids := _ }) hw hkids
  split at h
  · rename_i nd hnd
    simp [pure, Except.pure] at h; subst h
    simp only
    rw [topL_append, this.1]
    simp [topL, this.2 _ hnd]
  · simp [pure, Except.pure] at h; subst h; exact this.1

theorem scan_inv {env : Env} :
    ∀ (bs : Bytes) (i : Nat) (s : Inl.Scan) {res : ScanRes}, scan env bs i s = .ok res → topL s.st.kids = true →
    (match res with | .hit st _ => topL st.kids = true | .eol s' => topL s'.st.kids = true) := by
  intro bs
  induction bs with
  | nil => intro i s res h hk; simp [scan, pure, Except.pure] at h; subst h; exact hk
  | cons c cs ih =>
    intro i s res h hk
    simp only [scan] at h
    split at h
    · simp [pure, Except.pure] at h; subst h; exact hk
    · split at h
      · split at h
        · rename_i st ht
          simp [pure, Except.pure] at h; subst h
          exact trigger_inv ht hk
        · rename_i s' ht
          exact ih _ _ h (by rw [bump_st]; exact trigger_inv ht hk)
        · contradiction
      · exact ih _ _ h (by rw [bump_st]; exact hk)

theorem eolText_inv {src : Bytes} {flags : Nat} {diff : Segment} {kids : List Node} {r : Segment × List Node}
    (h : eolText src flags diff kids = .ok r) (hk : topL kids = true) : topL r.2 = true := by
  unfold eolText at h
  split at h
  · simp [pure, Except.pure] at h; subst h; exact hk
  · obtain ⟨seg, _, h⟩ := bind_ok h
    split at h
    · split at h
      · split at h
        · obtain ⟨t', _, h⟩ := bind_ok h
          simp [pure, Except.pure] at h; subst h
          simp only; rw [topL_append, topL_dropLast hk]; simp [topL, top_text]
        · simp [pure, Except.pure] at h; subst h; exact hk
      · simp [pure, Except.pure] at h; subst h; exact hk
    · simp [pure, Except.pure] at h; subst h; exact hk

theorem endOfLine_inv {flags : Nat} {l : Int} {s : Inl.Scan} {st' : St} (h : endOfLine flags l s = .ok st')
    (hk : topL s.st.kids = true) : topL st'.kids = true := by
  unfold endOfLine at h
  obtain ⟨rd, _, h⟩ := bind_ok h
  dsimp only at h
  split at h
  · simp [pure, Except.pure] at h; subst h; exact hk
  · obtain ⟨diff, _, h⟩ := bind_ok h
    obtain ⟨tk, htk, h⟩ := bind_ok h
    obtain ⟨rd', _, h⟩ := bind_ok h
    simp [pure, Except.pure] at h; subst h
    simp only; rw [topL_append, eolText_inv htk hk]; simp [topL, top_text]

theorem lineLoop_inv {env : Env} :
    ∀ (fuel : Nat) (esc : Bool) (st : St) {st' : St}, lineLoop env fuel esc st = .ok st' → topL st.kids = true →
    topL st'.kids = true := by
  intro fuel
  induction fuel with
  | zero => intro esc st st' h; simp [lineLoop] at h
  | succ f ih =>
    intro esc st st' h hk
    simp only [lineLoop] at h
    obtain ⟨pl, _, h⟩ := bind_ok h
    split at h
    · simp [pure, Except.pure] at h; subst h; exact hk
    · split at h
      · simp [throw, throwThe, MonadExceptOf.throw] at h
      · obtain ⟨r, hr, h⟩ := bind_ok h
        have hs := scan_inv _ _ _ hr (by exact hk)
        split at h
        · exact ih _ _ h hs
        · obtain ⟨st2, h2, h⟩ := bind_ok h
          exact ih _ _ h (endOfLine_inv h2 hs)

/-! ### CloseBlock and the whole phase -/

theorem all_isText_closeLabelsL : ∀ (ks : List Node), ks.all isText = true → closeLabelsL ks = ks
  | [], _ => by simp [closeLabelsL]
  | k :: rest, h => by
    simp only [List.all_cons, Bool.and_eq_true] at h
    obtain ⟨h1, h2⟩ := h
    cases k <;> simp [isText] at h1
    simp [closeLabelsL, closeLabels, all_isText_closeLabelsL rest h2]

mutual
theorem containsLink_closeLabels : ∀ (n : Node), containsLink (closeLabels n) = containsLink n
  | .text .. => by simp [closeLabels]
  | .codeSpan ks => by simp only [closeLabels, containsLink]; exact containsLinkL_closeLabelsL ks
  | .emphasis _ ks => by simp only [closeLabels, containsLink]; exact containsLinkL_closeLabelsL ks
  | .link true _ _ ks => by simp only [closeLabels, containsLink]; exact containsLinkL_closeLabelsL ks
  | .link false _ _ ks => by simp [closeLabels, containsLink]
  | .autoLink .. => by simp [closeLabels]
  | .rawHTML .. => by simp [closeLabels]
  | .delim .. => by simp [closeLabels]
  | .label .. => by simp [closeLabels, textOf, containsLink]
theorem containsLinkL_closeLabelsL : ∀ (l : List Node), containsLinkL (closeLabelsL l) = containsLinkL l
  | [] => by simp [closeLabelsL]
  | n :: rest => by
    simp only [closeLabelsL, containsLinkL]
    rw [containsLink_closeLabels n, containsLinkL_closeLabelsL rest]
end

mutual
theorem closeLabels_wf : ∀ (n : Node), wf true n = true → wf false (closeLabels n) = true
  | .text .., _ => by simp [closeLabels, wf]
  | .codeSpan ks, h => by
    simp only [wf] at h
    simp [closeLabels, wf, all_isText_closeLabelsL ks h, h]
  | .emphasis lv ks, h => by
    simp only [wf, Bool.and_eq_true] at h
    simp only [closeLabels, wf, Bool.and_eq_true]
    exact ⟨h.1, closeLabelsL_wf ks h.2⟩
  | .link _ _ _ ks, h => by
    simp only [wf, Bool.and_eq_true] at h
    simp only [closeLabels, wf, Bool.and_eq_true]
    exact ⟨closeLabelsL_wf ks h.1, by rw [containsLinkL_closeLabelsL]; exact h.2⟩
  | .autoLink .., _ => by simp [closeLabels, wf]
  | .rawHTML .., _ => by simp [closeLabels, wf]
  | .delim .., h => by simp [wf] at h
  | .label .., _ => by simp [closeLabels, textOf, wf]
theorem closeLabelsL_wf : ∀ (l : List Node), wfL true l = true → wfL false (closeLabelsL l) = true
  | [], _ => by simp [closeLabelsL, wfL]
  | n :: rest, h => by
    simp only [wfL, Bool.and_eq_true] at h
    simp only [closeLabelsL, wfL, Bool.and_eq_true]
    exact ⟨closeLabels_wf n h.1, closeLabelsL_wf rest h.2⟩
end

/-- the inline tree of a block is well-shaped: no bookkeeping node, emphasis levels 1 or 2, code spans hold text -/
theorem parseBlock_wf {env : Env} {src : Bytes} {segs : List Segment} {kids : List Node}
    (h : parseBlock env src segs = .ok kids) : wfL false kids = true := by
  unfold parseBlock at h
  obtain ⟨rd, _, h⟩ := bind_ok h
  obtain ⟨st, hst, h⟩ := bind_ok h
  obtain ⟨ks, hks, h⟩ := bind_ok h
  simp [pure, Except.pure] at h; subst h
  have h1 := lineLoop_inv _ _ _ hst (by simp [topL])
  exact closeLabelsL_wf _ (processDelimiters_nil_wfL hks h1)

/-! ### the readable predicates of GM.Props.Inlines, read off `wf false` -/

mutual
/-- a Delimiter or link-label bookkeeping node occurs in the subtree -/
def hasBookkeeping : Node → Bool
  | .delim .. => true
  | .label .. => true
  | .codeSpan ks => hasBookkeepingL ks
  | .emphasis _ ks => hasBookkeepingL ks
  | .link _ _ _ ks => hasBookkeepingL ks
  | _ => false
def hasBookkeepingL : List Node → Bool
  | [] => false
  | n :: rest => hasBookkeeping n || hasBookkeepingL rest
end

mutual
/-- every Emphasis node of the subtree has level 1 or 2 -/
def emphasisLevelsOK : Node → Bool
  | .emphasis lv ks => (lv == 1 || lv == 2) && emphasisLevelsOKL ks
  | .codeSpan ks => emphasisLevelsOKL ks
  | .link _ _ _ ks => emphasisLevelsOKL ks
  | _ => true
def emphasisLevelsOKL : List Node → Bool
  | [] => true
  | n :: rest => emphasisLevelsOK n && emphasisLevelsOKL rest
end

mutual
/-- every CodeSpan node of the subtree has only Text children -/
def codeSpansHoldText : Node → Bool
  | .codeSpan ks => ks.all isText
  | .emphasis _ ks => codeSpansHoldTextL ks
  | .link _ _ _ ks => codeSpansHoldTextL ks
  | _ => true
def codeSpansHoldTextL : List Node → Bool
  | [] => true
  | n :: rest => codeSpansHoldText n && codeSpansHoldTextL rest
end

theorem all_isText_noBook : ∀ (ks : List Node), ks.all isText = true → hasBookkeepingL ks = false
  | [], _ => by simp [hasBookkeepingL]
  | k :: rest, h => by
    simp only [List.all_cons, Bool.and_eq_true] at h
    obtain ⟨h1, h2⟩ := h
    cases k <;> simp [isText] at h1
    simp [hasBookkeepingL, hasBookkeeping, all_isText_noBook rest h2]

theorem all_isText_levels : ∀ (ks : List Node), ks.all isText = true → emphasisLevelsOKL ks = true
  | [], _ => by simp [emphasisLevelsOKL]
  | k :: rest, h => by
    simp only [List.all_cons, Bool.and_eq_true] at h
    obtain ⟨h1, h2⟩ := h
    cases k <;> simp [isText] at h1
    simp [emphasisLevelsOKL, emphasisLevelsOK, all_isText_levels rest h2]

mutual
theorem wf_noBook : ∀ (n : Node), wf false n = true → hasBookkeeping n = false
  | .text .., _ => by simp [hasBookkeeping]
  | .codeSpan ks, h => by simp only [wf] at h; simp [hasBookkeeping, all_isText_noBook ks h]
  | .emphasis _ ks, h => by
    simp only [wf, Bool.and_eq_true] at h; simp only [hasBookkeeping]; exact wfL_noBook ks h.2
  | .link _ _ _ ks, h => by
    simp only [wf, Bool.and_eq_true] at h; simp only [hasBookkeeping]; exact wfL_noBook ks h.1
  | .autoLink .., _ => by simp [hasBookkeeping]
  | .rawHTML .., _ => by simp [hasBookkeeping]
  | .delim .., h => by simp [wf] at h
  | .label .., h => by simp [wf] at h
theorem wfL_noBook : ∀ (l : List Node), wfL false l = true → hasBookkeepingL l = false
  | [], _ => by simp [hasBookkeepingL]
  | n :: rest, h => by
    simp only [wfL, Bool.and_eq_true] at h
    simp [hasBookkeepingL, wf_noBook n h.1, wfL_noBook rest h.2]
end

mutual
theorem wf_levels : ∀ (n : Node), wf false n = true → emphasisLevelsOK n = true
  | .text .., _ => by simp [emphasisLevelsOK]
  | .codeSpan ks, h => by simp only [wf] at h; simp [emphasisLevelsOK, all_isText_levels ks h]
  | .emphasis _ ks, h => by
    simp only [wf, Bool.and_eq_true] at h
    simp only [emphasisLevelsOK, Bool.and_eq_true]; exact ⟨h.1, wfL_levels ks h.2⟩
  | .link _ _ _ ks, h => by
    simp only [wf, Bool.and_eq_true] at h; simp only [emphasisLevelsOK]; exact wfL_levels ks h.1
  | .autoLink .., _ => by simp [emphasisLevelsOK]
  | .rawHTML .., _ => by simp [emphasisLevelsOK]
  | .delim .., _ => by simp [emphasisLevelsOK]
  | .label .., _ => by simp [emphasisLevelsOK]
theorem wfL_levels : ∀ (l : List Node), wfL false l = true → emphasisLevelsOKL l = true
  | [], _ => by simp [emphasisLevelsOKL]
  | n :: rest, h => by
    simp only [wfL, Bool.and_eq_true] at h
    simp [emphasisLevelsOKL, wf_levels n h.1, wfL_levels rest h.2]
end

mutual
theorem wf_codeSpans : ∀ (n : Node), wf false n = true → codeSpansHoldText n = true
  | .text .., _ => by simp [codeSpansHoldText]
  | .codeSpan ks, h => by simp only [wf] at h; simp [codeSpansHoldText, h]
  | .emphasis _ ks, h => by
    simp only [wf, Bool.and_eq_true] at h; simp only [codeSpansHoldText]; exact wfL_codeSpans ks h.2
  | .link _ _ _ ks, h => by
    simp only [wf, Bool.and_eq_true] at h; simp only [codeSpansHoldText]; exact wfL_codeSpans ks h.1
  | .autoLink .., _ => by simp [codeSpansHoldText]
  | .rawHTML .., _ => by simp [codeSpansHoldText]
  | .delim .., _ => by simp [codeSpansHoldText]
  | .label .., _ => by simp [codeSpansHoldText]
theorem wfL_codeSpans : ∀ (l : List Node), wfL false l = true → codeSpansHoldTextL l = true
  | [], _ => by simp [codeSpansHoldTextL]
  | n :: rest, h => by
    simp only [wfL, Bool.and_eq_true] at h
    simp [codeSpansHoldTextL, wf_codeSpans n h.1, wfL_codeSpans rest h.2]
end

/-! ### ProcessDelimiters cannot panic -/

theorem closerLoop_total (b : Bottom) (pre : List Node) (cid : Nat) (cd : Delim) (post : List Node) :
    (∃ r, closerLoop b pre cid cd post = .ok r) ∨ closerLoop b pre cid cd post = .error .pre := by
  fun_induction closerLoop b pre cid cd post with
  | case1 pre cid cd post kids hs => exact Or.inl ⟨kids, rfl⟩
  | case2 => exact Or.inr rfl
  | case3 pre cid cd post pre' cid' cd' post' hs ih => exact ih

theorem processDelimiters_total (b : Bottom) (kids : List Node) :
    (∃ r, processDelimiters b kids = .ok r) ∨ processDelimiters b kids = .error .pre := by
  unfold processDelimiters
  split
  · exact Or.inl ⟨_, rfl⟩
  · simp only
    split
    · exact Or.inl ⟨_, rfl⟩
    · split
      · exact Or.inr rfl
      · rename_i pre cd post hs
        rcases closerLoop_total b pre _ cd post with ⟨r, hr⟩ | he
        · rw [hr]; exact Or.inl ⟨_, rfl⟩
        · rw [he]; exact Or.inr rfl

mutual
/-- some Link (not Image) node of the subtree has a Link below it, at any depth (through Emphasis, Image, …) -/
def linkInLink : Node → Bool
  | .link false _ _ ks => containsLinkL ks || linkInLinkL ks
  | .link true _ _ ks => linkInLinkL ks
  | .emphasis _ ks => linkInLinkL ks
  | .codeSpan ks => linkInLinkL ks
  | _ => false
def linkInLinkL : List Node → Bool
  | [] => false
  | n :: rest => linkInLink n || linkInLinkL rest
end

theorem all_isText_noLinkInLink : ∀ (ks : List Node), ks.all isText = true → linkInLinkL ks = false
  | [], _ => by simp [linkInLinkL]
  | k :: rest, h => by
    simp only [List.all_cons, Bool.and_eq_true] at h
    obtain ⟨h1, h2⟩ := h
    cases k <;> simp [isText] at h1
    simp [linkInLinkL, linkInLink, all_isText_noLinkInLink rest h2]

mutual
theorem wf_noLinkInLink : ∀ (n : Node), wf false n = true → linkInLink n = false
  | .text .., _ => by simp [linkInLink]
  | .codeSpan ks, h => by simp only [wf] at h; simp [linkInLink, all_isText_noLinkInLink ks h]
  | .emphasis _ ks, h => by
    simp only [wf, Bool.and_eq_true] at h; simp only [linkInLink]; exact wfL_noLinkInLink ks h.2
  | .link true _ _ ks, h => by
    simp only [wf, Bool.and_eq_true] at h; simp only [linkInLink]; exact wfL_noLinkInLink ks h.1
  | .link false _ _ ks, h => by
    simp only [wf, Bool.and_eq_true, Bool.false_or, Bool.not_eq_true'] at h
    simp only [linkInLink, Bool.or_eq_false_iff]
    exact ⟨h.2, wfL_noLinkInLink ks h.1⟩
  | .autoLink .., _ => by simp [linkInLink]
  | .rawHTML .., _ => by simp [linkInLink]
  | .delim .., _ => by simp [linkInLink]
  | .label .., _ => by simp [linkInLink]
theorem wfL_noLinkInLink : ∀ (l : List Node), wfL false l = true → linkInLinkL l = false
  | [], _ => by simp [linkInLinkL]
  | n :: rest, h => by
    simp only [wfL, Bool.and_eq_true] at h
    simp [linkInLinkL, wf_noLinkInLink n h.1, wfL_noLinkInLink rest h.2]
end

/-! ### ProcessDelimiters succeeds whenever every listed delimiter has a positive length -/

/-- every delimiter among the children still has characters (`Length ≥ 1`) -/
def posL (l : List Node) : Prop := ∀ id d, Node.delim id d ∈ l → 1 ≤ d.length

theorem posL_append {a b : List Node} : posL (a ++ b) ↔ posL a ∧ posL b := by
  simp only [posL, List.mem_append]
  constructor
  · intro h; exact ⟨fun id d hm => h id d (Or.inl hm), fun id d hm => h id d (Or.inr hm)⟩
  · intro h id d hm; rcases hm with hm | hm
    · exact h.1 id d hm
    · exact h.2 id d hm

theorem posL_reverse {l : List Node} : posL l.reverse ↔ posL l := by simp [posL]

theorem posL_text (s : Segment) (a b c : Bool) : posL [.text s a b c] := by intro id d hm; simp at hm

theorem posL_nil : posL [] := by intro id d hm; simp at hm

theorem posL_dropLast {l : List Node} (h : posL l) : posL l.dropLast :=
  fun id d hm => h id d (List.dropLast_subset _ hm)

theorem posL_cons {n : Node} {l : List Node} : posL (n :: l) ↔ posL [n] ∧ posL l := by
  have := posL_append (a := [n]) (b := l); simpa using this

theorem posL_delim {id : Nat} {d : Delim} : posL [.delim id d] ↔ 1 ≤ d.length := by
  simp only [posL, List.mem_singleton]
  constructor
  · intro h; exact h id d rfl
  · intro h i dd e; simp at e; obtain ⟨_, rfl⟩ := e; exact h

theorem posL_nondelim {n : Node} (h : n.isDelim = false) : posL [n] := by
  intro id d hm; simp at hm; subst hm; simp [Node.isDelim] at h

theorem mergeOrAppend_posL {l : List Node} {s : Segment} (h : posL l) : posL (mergeOrAppend l s) := by
  unfold mergeOrAppend
  split
  · split
    · exact posL_append.mpr ⟨posL_dropLast h, posL_text _ _ _ _⟩
    · exact posL_append.mpr ⟨h, posL_text _ _ _ _⟩
  · exact posL_append.mpr ⟨h, posL_text _ _ _ _⟩

theorem removeDelim_posL {l : List Node} {d : Delim} (h : posL l) : posL (removeDelim l d) := by
  unfold removeDelim; split
  · exact mergeOrAppend_posL h
  · exact h

theorem clearRev_posL (b : Bottom) {l : List Node} (h : posL l) : posL (clearRev b l) := by
  induction l with
  | nil => simpa [clearRev] using h
  | cons n rest ih =>
    have hh := posL_cons.mp h
    have ihr := ih hh.2
    cases n with
    | delim id d =>
      simp only [clearRev]
      split
      · exact h
      · split
        · split
          · split
            · rename_i heq _
              rw [heq] at ihr
              exact posL_cons.mpr ⟨posL_text _ _ _ _, (posL_cons.mp ihr).2⟩
            · exact posL_cons.mpr ⟨posL_text _ _ _ _, ihr⟩
          · exact posL_cons.mpr ⟨posL_text _ _ _ _, ihr⟩
        · exact ihr
    | _ => simp only [clearRev]; exact posL_cons.mpr ⟨hh.1, ihr⟩

theorem clearDelimiters_posL (b : Bottom) {kids : List Node} (h : posL kids) : posL (clearDelimiters b kids) := by
  unfold clearDelimiters
  split
  · exact h
  · rename_i pre id d post heq
    rw [splitLastDelim_eq heq] at h
    have h1 := posL_append.mp h
    have h2 := posL_cons.mp h1.2
    refine posL_append.mpr ⟨posL_reverse.mpr (clearRev_posL b ?_), h2.2⟩
    exact posL_cons.mpr ⟨h2.1, posL_reverse.mpr h1.1⟩

/-- the opener found has characters, and the match consumes no more than either side has -/
theorem findOpener_pos (b : Bottom) (cd : Delim) (hcd : 1 ≤ cd.length) :
    ∀ (preR mid : List Node) (m : Bool) {p1 mid' : List Node} {oid : Nat} {od : Delim} {c : Int} {m' : Bool},
    findOpener b cd preR mid m = (some (p1, oid, od, mid', c), m') → posL preR → posL mid →
    posL p1 ∧ posL mid' ∧ 1 ≤ c ∧ c ≤ od.length ∧ c ≤ cd.length := by
  intro preR
  induction preR with
  | nil => intro mid m p1 mid' oid od c m' h; simp [findOpener] at h
  | cons n rest ih =>
    intro mid m p1 mid' oid od c m' h hp hm
    have hh := posL_cons.mp hp
    cases n with
    | delim id d =>
      simp only [findOpener] at h
      split at h
      · simp at h
      · split at h
        · split at h
          · rename_i hc
            simp at h
            obtain ⟨⟨rfl, rfl, rfl, rfl, rfl⟩, _⟩ := h
            have hd : 1 ≤ d.length := posL_delim.mp hh.1
            refine ⟨posL_reverse.mpr hh.2, hm, ?_⟩
            unfold Delim.calcConsumption at hc ⊢
            split
            · rename_i h0; simp [h0] at hc
            · split
              · rename_i h2; simp only [Bool.and_eq_true, decide_eq_true_eq] at h2; omega
              · omega
          · exact ih _ _ h hh.2 (posL_cons.mpr ⟨hh.1, hm⟩)
        · exact ih _ _ h hh.2 (posL_cons.mpr ⟨hh.1, hm⟩)
    | _ =>
      simp only [findOpener] at h
      exact ih _ _ h hh.2 (posL_cons.mpr ⟨hh.1, hm⟩)

theorem clearInner_posL {acc mid : List Node} (ha : posL acc) (hm : posL mid) : posL (clearInner acc mid) := by
  induction mid generalizing acc with
  | nil => simpa [clearInner] using ha
  | cons n rest ih =>
    have hh := posL_cons.mp hm
    cases n with
    | delim id d => simp only [clearInner]; exact ih (removeDelim_posL ha) hh.2
    | _ => simp only [clearInner]; exact ih (posL_append.mpr ⟨ha, hh.1⟩) hh.2

theorem advanceCloser_pos {pre post : List Node} (hp : posL pre) (hq : posL post) :
    advanceCloser pre post ≠ .bad ∧ posL (wholeOf (advanceCloser pre post)) := by
  refine ⟨?_, ?_⟩
  · unfold advanceCloser; split <;> simp
  · rw [advanceCloser_whole]; exact posL_append.mpr ⟨hp, hq⟩

/-- one round never answers `bad` on children whose delimiters all have characters, and keeps that -/
theorem closerStep_pos {b : Bottom} {pre post : List Node} {cid : Nat} {cd : Delim}
    (hp : posL pre) (hcd : 1 ≤ cd.length) (hq : posL post) :
    closerStep b pre cid cd post ≠ .bad ∧ posL (wholeOf (closerStep b pre cid cd post)) := by
  have hc1 : posL (pre ++ [.delim cid cd]) := posL_append.mpr ⟨hp, posL_delim.mpr hcd⟩
  unfold closerStep
  split
  · omega
  · split
    · exact advanceCloser_pos hc1 hq
    · split
      · apply advanceCloser_pos _ hq
        split
        · exact removeDelim_posL hp
        · exact hc1
      · rename_i p1 oid od mid consume m hf
        obtain ⟨f1, f2, f3, f4, f5⟩ := findOpener_pos b cd hcd _ _ _ hf (posL_reverse.mpr hp) posL_nil
        split
        · omega
        · simp only
          have hpre' : posL ((if ((od.consume consume).length == 0) = true then p1
              else p1 ++ [Node.delim oid (od.consume consume)]) ++ [Node.emphasis consume (clearInner [] mid)]) := by
            refine posL_append.mpr ⟨?_, posL_nondelim (by simp [Node.isDelim])⟩
            split
            · exact f1
            · rename_i hz
              refine posL_append.mpr ⟨f1, posL_delim.mpr ?_⟩
              simp only [Delim.consume, beq_iff_eq] at hz ⊢
              omega
          split
          · exact advanceCloser_pos hpre' hq
          · rename_i hz
            refine ⟨by simp, ?_⟩
            simp only [wholeOf]
            refine posL_append.mpr ⟨hpre', posL_cons.mpr ⟨posL_delim.mpr ?_, hq⟩⟩
            simp only [Delim.consume, beq_iff_eq] at hz ⊢
            omega

theorem closerLoop_pos (b : Bottom) (pre : List Node) (cid : Nat) (cd : Delim) (post : List Node) :
    posL pre → 1 ≤ cd.length → posL post → ∃ res, closerLoop b pre cid cd post = .ok res ∧ posL res := by
  fun_induction closerLoop b pre cid cd post with
  | case1 pre cid cd post kids hs =>
    intro hp hcd hq
    have := (closerStep_pos (b := b) (cid := cid) hp hcd hq).2
    rw [hs] at this
    exact ⟨kids, rfl, this⟩
  | case2 pre cid cd post hs =>
    intro hp hcd hq
    exact absurd hs (closerStep_pos (b := b) (cid := cid) hp hcd hq).1
  | case3 pre cid cd post pre' cid' cd' post' hs ih =>
    intro hp hcd hq
    have := (closerStep_pos (b := b) (cid := cid) hp hcd hq).2
    rw [hs] at this
    simp only [wholeOf] at this
    have h1 := posL_append.mp this
    have h2 := posL_cons.mp h1.2
    exact ih h1.1 (posL_delim.mp h2.1) h2.2

theorem splitAtDelim_some {id : Nat} {l : List Node} {d : Delim} (h : Node.delim id d ∈ l) :
    ∃ r, splitAtDelim id l = some r := by
  induction l with
  | nil => simp at h
  | cons n rest ih =>
    cases n with
    | delim i dd =>
      simp only [splitAtDelim]
      split
      · exact ⟨_, rfl⟩
      · rename_i hne
        simp only [List.mem_cons] at h
        rcases h with h | h
        · simp at h; simp [h.1] at hne
        · obtain ⟨r, hr⟩ := ih h
          rw [hr]; exact ⟨_, rfl⟩
    | _ =>
      simp only [splitAtDelim]
      simp only [List.mem_cons] at h
      rcases h with h | h
      · simp at h
      · obtain ⟨r, hr⟩ := ih h
        rw [hr]; exact ⟨_, rfl⟩

theorem firstCloserAfter_mem (b : Bottom) :
    ∀ (l : List Node) (acc : Option Nat) {id : Nat}, firstCloserAfter b l acc = some id →
    acc = some id ∨ ∃ d, Node.delim id d ∈ l := by
  intro l
  induction l with
  | nil => intro acc id h; simp [firstCloserAfter] at h; exact Or.inl h
  | cons n rest ih =>
    intro acc id h
    cases n with
    | delim i dd =>
      simp only [firstCloserAfter] at h
      split at h
      · exact Or.inl h
      · rcases ih _ h with e | ⟨d, hd⟩
        · simp at e; subst e; exact Or.inr ⟨dd, by simp⟩
        · exact Or.inr ⟨d, by simp [hd]⟩
    | _ =>
      simp only [firstCloserAfter] at h
      rcases ih _ h with e | ⟨d, hd⟩
      · exact Or.inl e
      · exact Or.inr ⟨d, by simp [hd]⟩

/-- ProcessDelimiters succeeds — no `pre`, no panic — on every child list whose delimiters all have characters,
    and hands such a list back -/
theorem processDelimiters_ok (b : Bottom) (kids : List Node) (h : posL kids) :
    ∃ res, processDelimiters b kids = .ok res ∧ posL res := by
  unfold processDelimiters
  split
  · exact ⟨kids, rfl, h⟩
  · rename_i preL lastId ld lpost hl
    simp only
    split
    · exact ⟨_, rfl, clearDelimiters_posL b h⟩
    · rename_i cid hc
      have hmem : ∃ d, Node.delim cid d ∈ kids := by
        split at hc
        · cases hf : splitFirstDelim kids with
          | none => rw [hf] at hc; simp at hc
          | some x =>
            obtain ⟨p, i, d, q⟩ := x
            rw [hf] at hc; simp at hc; subst hc
            exact ⟨d, by rw [splitFirstDelim_eq hf]; simp⟩
        · split at hc
          · simp at hc
          · rcases firstCloserAfter_mem _ _ _ hc with e | ⟨d, hd⟩
            · simp at e
            · exact ⟨d, by rw [splitLastDelim_eq hl]; simp at hd; simp [hd]⟩
      obtain ⟨d, hd⟩ := hmem
      obtain ⟨r, hr⟩ := splitAtDelim_some hd
      rw [hr]
      obtain ⟨pre, cd, post⟩ := r
      simp only
      have e := splitAtDelim_eq hr
      rw [e] at h
      have h1 := posL_append.mp h
      have h2 := posL_cons.mp h1.2
      obtain ⟨res, hres, hpos⟩ := closerLoop_pos b pre cid cd post h1.1 (posL_delim.mp h2.1) h2.2
      rw [hres]
      exact ⟨_, rfl, clearDelimiters_posL b hpos⟩

end GM.Proof.Inlines
