/-
  GM.Proof.CMFragRenderQ — the renderer half of the conformance proof for the stage-10 fragment (a stage-6 document
  inside one block quote) of GM.Spec.CMFrag:
  * `renderDoc_quoteQ`: the renderer model on a document whose only child is a block quote around stage-5 blocks writes
    `<blockquote>`, a line feed, `hdocHtml` of the blocks, `</blockquote>`, a line feed, and never panics;
  * `quoteLines_eq`: the spec-side `quoteLines` is the model-side `GM.Blocks.quotePrefix`.
-/
import GM.Proof.CMFragRender5
import GM.Model.Blocks.QuoteSim
namespace GM.Proof.CMFrag
open GM GM.Spec.CM GM.Spec.CMFrag

/-- the tree of a stage-10 document: a document node, one block quote, the stage-5 blocks -/
def qdocNode (bs : List Raw5) : GM.Node := .mk .document none [.mk .blockquote none (bs.map rawNode5)]

theorem handled_quoteQ (e : Exts) : handled e .blockquote = true := rfl

theorem quoteOpen_bytes : strBytes "<blockquote>\n" = [60] ++ strBytes "blockquote" ++ [62, 10] := by decide +kernel

theorem render_qdocNode (rc : RCfg) (hes : rc.core.escSpace = false) (hhw : rc.core.hardWraps = false)
    (hea : rc.core.ea = 0) (hx : rc.core.xhtml = true) (bs : List Raw5) :
    render rc (qdocNode bs) = strBytes "<blockquote>\n" ++ hdocHtml bs ++ strBytes "</blockquote>\n" := by
  rw [render, qdocNode, renderNode]
  simp only [enter, leave, handled_doc, skipsChildren, Kind.isTableHeader, renderNodes, renderNode,
    handled_quoteQ, renderNodes_raw5 rc hes hhw hea hx, openTag, quoteOpen_bytes]
  simp

theorem renderPanics_qdocNode (rc : RCfg) (bs : List Raw5)
    (hlev : ∀ b ∈ bs, ∀ level l, b = .old (.atx level l) → level ≤ 6) : renderPanics rc (qdocNode bs) = none := by
  simp [renderPanics, qdocNode, renderPanicsNode, nodePanic, renderPanicsNodes, renderPanicsNodes_raw5 rc bs hlev]

theorem renderDoc_quoteQ_any (o : GM.Convert.ROpts) (ho : o.hardWraps = false) (hx : o.xhtml = true)
    (bs : List Raw5) (hlev : ∀ b ∈ bs, ∀ level l, b = .old (.atx level l) → level ≤ 6) :
    GM.Convert.renderDoc o (qdocNode bs) =
      .ok (strBytes "<blockquote>\n" ++ hdocHtml bs ++ strBytes "</blockquote>\n") := by
  rw [GM.Convert.renderDoc, renderPanics_qdocNode o.rcfg bs hlev,
    render_qdocNode o.rcfg (rcfg_escSpace o) (by rw [rcfg_hardWraps, ho]) (rcfg_ea o) (by rw [rcfg_xhtml4, hx])]

/-- the renderer on one block quote around stage-5 blocks -/
theorem renderDoc_quoteQ (blks : List Raw5)
    (hlev : ∀ b ∈ blks, ∀ level l, b = Raw5.old (RawBlock.atx level l) → level ≤ 6) :
    GM.Convert.renderDoc cmOpts (.mk .document none [.mk .blockquote none (blks.map rawNode5)]) =
      .ok (strBytes "<blockquote>\n" ++ hdocHtml blks ++ strBytes "</blockquote>\n") :=
  renderDoc_quoteQ_any cmOpts rfl rfl blks hlev

/-! ### the spec-side `quoteLines` is the model-side `quotePrefix` -/

theorem quoteLines_eq_go (s : Bytes) (b : Bool) : quoteLines s b = GM.Blocks.quotePrefixGo s b := by
  induction s generalizing b with
  | nil => rfl
  | cons c cs ih => rw [quoteLines, GM.Blocks.quotePrefixGo, ih]

theorem quoteLines_eq (s : Bytes) : quoteLines s true = GM.Blocks.quotePrefix s :=
  quoteLines_eq_go s true

theorem spellQ_eq (d : KDoc) : spellQ d = GM.Blocks.quotePrefix (spellK d) := quoteLines_eq _

end GM.Proof.CMFrag
