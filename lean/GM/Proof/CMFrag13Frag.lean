/-
  GM.Proof.CMFrag13Frag — stage 13 at the level of the spec-side fragment `UDocS`: the conformance theorems of the union
  fragment (with / without final line feed; inside a block quote), from the inline facts `U13InlG`.
-/
import GM.Proof.CMFrag13Quote
import GM.Proof.CMFragQGenE
import GM.Proof.CMFrag13Bridge
import GM.Proof.CMFragRender13

namespace GM.Proof.CMFrag
open GM GM.Text GM.Blocks GM.Spec GM.Spec.CM GM.Spec.CMFrag

/-- the blocks of a union document with their separators -/
def uitemsOf (d : UDocS) : List (Nat × UBlock) := d.items.map fun it => (it.sep, ublockOfS it.block)

theorem uitemsOf_raw (d : UDocS) : (uitemsOf d).map (fun it => (it.1, uraw it.2)) = d.items.map convU := by
  simp [uitemsOf, convU, List.map_map, Function.comp_def]

theorem uitemsOf_nodes (d : UDocS) : (uitemsOf d).map (fun it => uNode it.2) = (d.items.map fun it => ublockOfS it.block).map uNode := by
  simp [uitemsOf, List.map_map, Function.comp_def]

theorem uitemsOf_good (d : UDocS) (h : UFrag d) : ∀ it ∈ uitemsOf d, UGood it.2 := by
  obtain ⟨hok, _⟩ := ufrag_parts13 d h
  intro x hx
  obtain ⟨it, hit, rfl⟩ := List.mem_map.mp hx
  exact ugood_ofS it.block (hok it hit)

theorem ublocks_good (d : UDocS) (h : UFrag d) : ∀ b ∈ d.items.map (fun it => ublockOfS it.block), UGood b := by
  obtain ⟨hok, _⟩ := ufrag_parts13 d h
  intro x hx
  obtain ⟨it, hit, rfl⟩ := List.mem_map.mp hx
  exact ugood_ofS it.block (hok it hit)

theorem uitemsOf_seps (d : UDocS) (h : UFrag d) : SepsOK6 none ((uitemsOf d).map fun it => (it.1, uraw it.2)) := by
  obtain ⟨_, hs⟩ := ufrag_parts13 d h
  rw [uitemsOf_raw]
  exact usepsOK_of none d.items hs

theorem uitemsOf_ic (d : UDocS) (h : UFrag d) : IcOK6 false ((uitemsOf d).map fun it => (it.1, uraw it.2)) := by
  obtain ⟨_, hs⟩ := ufrag_parts13 d h
  rw [uitemsOf_raw]
  exact uicOK_of none d.items hs

theorem uitemsOf_noic (d : UDocS) (hn : ∀ it ∈ d.items, it.block.isIc = false) :
    ∀ it ∈ uitemsOf d, it.2.isIc = false := by
  intro x hx
  obtain ⟨it, hit, rfl⟩ := List.mem_map.mp hx
  show (ublockOfS it.block).isIc = false
  rw [isIc_ublockOfS13]; exact hn it hit

/-- **the conformance theorem of the union fragment** -/
theorem fragment13_conforms_of (H : U13InlG) (d : UDocS) (h : UFrag d) (uc : List (Nat × (Bool × Bool))) :
    GM.Convert.convertCore uc cmOpts (spellU d) = .ok (expectedU d) := by
  rw [spellU_raw, ← uitemsOf_raw]
  refine convert_raw13 (u13Inl_of_G H) uc (uitemsOf d) d.trail (uitemsOf_good d h) (uitemsOf_seps d h)
    (uitemsOf_ic d h) _ ?_
  rw [uitemsOf_nodes, renderDoc_u13 _ (ublocks_good d h), uDocHtml_ofS d h]

/-- … without the final line feed (the last block is not an indented code block) -/
theorem fragment13E_conforms_of (H : U13InlG) (d : UDocS) (h : UFragE d) (uc : List (Nat × (Bool × Bool))) :
    GM.Convert.convertCore uc cmOpts (spellUE d) = .ok (expectedU d) := by
  have hf : UFrag d := by
    have := h; unfold UFragE ufragEB at this
    simp only [Bool.and_eq_true] at this
    exact this.1.1.1
  obtain ⟨_, _, _, hne, hl⟩ := ufragE_parts13 d h
  rw [spellUE_raw d h, ← uitemsOf_raw]
  refine convert_raw13E (u13Inl_of_G H) uc (uitemsOf d) (by simpa [uitemsOf] using hne) (uitemsOf_good d hf)
    (uitemsOf_seps d hf) (uitemsOf_ic d hf) (by rw [uitemsOf_raw]; exact ulastNotIc_of d hl) _ ?_
  rw [uitemsOf_nodes, renderDoc_u13 _ (ublocks_good d hf), uDocHtml_ofS d hf]

/-- … inside a block quote: `"> "` in front of every line of `spellU d`, for a document without indented code blocks
    whose source is in quotesim2's class and without `[` -/
theorem fragment13Q_conforms_of (HB : BPFree) (H : U13InlG) (d : UDocS) (h : UFrag d)
    (hnoic : ∀ it ∈ d.items, it.block.isIc = false)
    (hclass : C08ClassL (spellU d)) (hnb : ∀ b ∈ spellU d, b ≠ 91) (uc : List (Nat × (Bool × Bool))) :
    GM.Convert.convertCore uc cmOpts (quotePrefix (spellU d)) =
      .ok (strBytes "<blockquote>\n" ++ expectedU d ++ strBytes "</blockquote>\n") := by
  rw [spellU_raw, ← uitemsOf_raw] at hclass hnb ⊢
  refine convert_quote13 HB H uc (uitemsOf d) d.trail (uitemsOf_good d h) (uitemsOf_noic d hnoic) (uitemsOf_seps d h)
    hclass hnb _ ?_
  rw [uitemsOf_nodes, renderDoc_quote_u13 _ (ublocks_good d h), uDocHtml_ofS d h]

end GM.Proof.CMFrag
