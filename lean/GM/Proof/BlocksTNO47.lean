/-
  GM.Proof.BlocksTNO47 — the records a table-making call allocates have the shape `RecS` when they carry lines
  (`recD_recS`): the witness `offset = dashAt src` points at a `-` because a table is only made from a source with a `-`.
-/
import GM.Proof.BlocksTNO46

namespace GM.Blocks.TX
open GM GM.Text GM.Spec GM.Proof.Reader GM.Blocks.TO GM.TableX

theorem witness_of_mem {src : Bytes} (h : (45 : UInt8) ∈ src) (n : Node) (ho : n.offset = (dashAt src : Nat)) :
    hasWitness src n = true := by
  unfold hasWitness dashAt at *
  rw [ho]
  have hlt : src.idxOf 45 < src.length := List.idxOf_lt_length_of_mem h
  have : src[src.idxOf 45]? = some 45 := by
    rw [List.getElem?_eq_getElem hlt, List.getElem_idxOf hlt]
  simp [this]

theorem recD_recS {src : Bytes} {t : GM.Table.Table} {n : Node} (hd : (45 : UInt8) ∈ src) (h : RecD src t (dataOf n))
    (hne : n.lines ≠ []) : RecS src n := by
  rcases h with h | h | ⟨r, _, h⟩ | ⟨r, _, c, _, h⟩
  · exfalso; apply hne; have := congrArg Node.lines h; exact this
  · have h1 := congrArg Node.offset h
    have h2 := congrArg Node.htmlType h
    exact ⟨witness_of_mem hd n h1, .inl h2⟩
  · have h1 := congrArg Node.offset h
    have h2 := congrArg Node.htmlType h
    exact ⟨witness_of_mem hd n h1, .inr (.inl h2)⟩
  · have h1 := congrArg Node.offset h
    have h2 := congrArg Node.htmlType h
    have h3 : n.lines = (cellNode src c).lines := data_lines h
    refine ⟨witness_of_mem hd n h1, .inr (.inr ⟨h2, ?_⟩)⟩
    unfold cellNode at h3
    cases hs : c.seg with
    | none => rw [hs] at h3; exact absurd h3 hne
    | some sg => rw [hs] at h3; exact ⟨ofSeg sg, h3, rfl⟩

/-- the record clause of a store -/
def RecOK (src : Bytes) (s : St) : Prop :=
  ∀ i, (nd s i).kind = .thematicBreak → (nd s i).lines ≠ [] → RecS src (nd s i)

theorem st3_kind {n m : Node} (h : st3 n = st3 m) : n.kind = m.kind := by
  simp only [st3, Prod.mk.injEq] at h; exact h.1

/-- a step with the static-field frame that keeps the lines of the old `thematicBreak` nodes and allocates records only -/
theorem RecOK.step {src : Bytes} {s s' : St} (h : RecOK src s) (hsf : SFr s s')
    (hl : ∀ i, i < s.nodes.length → (nd s i).kind = .thematicBreak → (nd s' i).lines = (nd s i).lines)
    (hnew : ∀ i, s.nodes.length ≤ i → (nd s' i).kind = .thematicBreak → (nd s' i).lines ≠ [] → RecS src (nd s' i)) :
    RecOK src s' := by
  intro i hk hne
  rcases Nat.lt_or_ge i s.nodes.length with hi | hi
  · have h3 := hsf.2 i hi
    have hk0 : (nd s i).kind = .thematicBreak := by rw [← st3_kind h3]; exact hk
    have hl0 := hl i hi hk0
    exact (h i hk0 (by rw [← hl0]; exact hne)).congr h3 hl0
  · exact hnew i hi hk hne

/-- a step that keeps every node (as far as `RecOK` looks) -/
theorem RecOK.of_nd {src : Bytes} {s s' : St} (h : RecOK src s) (hn : ∀ i, nd s' i = nd s i) : RecOK src s' :=
  fun i hk hne => by rw [hn] at hk hne ⊢; exact h i hk hne

end GM.Blocks.TX
