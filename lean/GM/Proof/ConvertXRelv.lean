/-
  GM.Proof.ConvertXRelv — the inline model is BLIND to emphasis levels: every function of GM.Model.Inlines / InlinesParsers
  that works on `parent`'s children commutes with a relabelling `relv g` of the levels of all Emphasis nodes, provided `g`
  fixes 1 and 2 (the levels ProcessDelimiters itself writes); and the generalised functions of GM.Model.ExtStrike
  (ProcessDelimiters / the link parser over both delimiter processors) are the default ones up to such a relabelling that sends
  the representation of a Strikethrough made by `consume` tildes (level −2 − consume) to `consume`.
  Consequences (GM.Proof.ConvertXTotal): the contracts and the totality proof of the default inline phase carry over to every
  member set; level sets are kept by the default functions.
-/
import GM.Model.ConvertX
import GM.Proof.InlinesLink

namespace GM.Proof.ConvertXRelv
open GM GM.Text GM.Inl

mutual
/-- relabel the level of every Emphasis node, at any depth -/
def relv (g : Int → Int) : Inl.Node → Inl.Node
  | .emphasis lv ks => .emphasis (g lv) (relvL g ks)
  | .codeSpan ks => .codeSpan (relvL g ks)
  | .link im d t ks => .link im d t (relvL g ks)
  | .text s so ha ra => .text s so ha ra
  | .autoLink e s => .autoLink e s
  | .rawHTML ss => .rawHTML ss
  | .delim id d => .delim id d
  | .label id s im => .label id s im
def relvL (g : Int → Int) : List Inl.Node → List Inl.Node
  | [] => []
  | n :: rest => relv g n :: relvL g rest
end

variable (g : Int → Int)

theorem relvL_map : ∀ l : List Inl.Node, relvL g l = l.map (relv g)
  | [] => rfl
  | n :: rest => by simp [relvL, relvL_map rest]

@[simp] theorem relvL_nil : relvL g [] = [] := rfl
@[simp] theorem relvL_cons (n : Inl.Node) (l : List Inl.Node) : relvL g (n :: l) = relv g n :: relvL g l := rfl
@[simp] theorem relvL_append (a b : List Inl.Node) : relvL g (a ++ b) = relvL g a ++ relvL g b := by simp [relvL_map]
@[simp] theorem relvL_reverse (a : List Inl.Node) : relvL g a.reverse = (relvL g a).reverse := by simp [relvL_map]
@[simp] theorem relvL_dropLast (a : List Inl.Node) : relvL g a.dropLast = (relvL g a).dropLast := by simp [relvL_map]
@[simp] theorem relvL_length (a : List Inl.Node) : (relvL g a).length = a.length := by simp [relvL_map]
@[simp] theorem relv_delim (id : Nat) (d : Delim) : relv g (.delim id d) = .delim id d := rfl
@[simp] theorem relv_label (id : Nat) (s : Segment) (im : Bool) : relv g (.label id s im) = .label id s im := rfl
@[simp] theorem relv_text (s : Segment) (a b c : Bool) : relv g (.text s a b c) = .text s a b c := rfl
@[simp] theorem relv_emphasis (lv : Int) (ks : List Inl.Node) : relv g (.emphasis lv ks) = .emphasis (g lv) (relvL g ks) := by
  simp [relv]
@[simp] theorem relv_codeSpan (ks : List Inl.Node) : relv g (.codeSpan ks) = .codeSpan (relvL g ks) := by simp [relv]
@[simp] theorem relv_link (im : Bool) (d : Bytes) (t : Option Bytes) (ks : List Inl.Node) :
    relv g (.link im d t ks) = .link im d t (relvL g ks) := by simp [relv]
@[simp] theorem relv_autoLink (e : Bool) (s : Segment) : relv g (.autoLink e s) = .autoLink e s := by simp [relv]
@[simp] theorem relv_rawHTML (ss : List Segment) : relv g (.rawHTML ss) = .rawHTML ss := by simp [relv]
@[simp] theorem relv_textOf (s : Segment) : relv g (textOf s) = textOf s := rfl

theorem relvL_getLast? (a : List Inl.Node) : (relvL g a).getLast? = a.getLast?.map (relv g) := by
  simp [relvL_map]

@[simp] theorem relv_isDelim (n : Inl.Node) : (relv g n).isDelim = n.isDelim := by cases n <;> rfl
@[simp] theorem relv_isLabel (n : Inl.Node) : (relv g n).isLabel = n.isLabel := by cases n <;> rfl
@[simp] theorem relv_isBottom (b : Bottom) (n : Inl.Node) : (relv g n).isBottom b = n.isBottom b := by cases n <;> rfl

theorem relvL_any_isDelim (l : List Inl.Node) : (relvL g l).any Inl.Node.isDelim = l.any Inl.Node.isDelim := by
  induction l with
  | nil => rfl
  | cons n r ih => simp [ih]

/-! ### text merging, delimiter list -/

theorem relvL_mergeOrAppend (kids : List Inl.Node) (s : Segment) :
    relvL g (mergeOrAppend kids s) = mergeOrAppend (relvL g kids) s := by
  unfold mergeOrAppend
  rw [relvL_getLast?]
  cases h : kids.getLast? with
  | none => simp
  | some n =>
    cases n <;> simp
    split <;> simp [textOf]

theorem splitFirstDelim_relv : ∀ l : List Inl.Node,
    splitFirstDelim (relvL g l) = (splitFirstDelim l).map fun x => (relvL g x.1, x.2.1, x.2.2.1, relvL g x.2.2.2)
  | [] => rfl
  | n :: rest => by
    have ih := splitFirstDelim_relv rest
    cases n <;> simp only [relvL_cons, relv_emphasis, relv_codeSpan, relv_link, relv_autoLink, relv_rawHTML, relv_text,
      relv_delim, relv_label, splitFirstDelim, ih, Option.map] <;>
      (cases splitFirstDelim rest <;> simp)

theorem splitLastDelim_relv (l : List Inl.Node) :
    splitLastDelim (relvL g l) = (splitLastDelim l).map fun x => (relvL g x.1, x.2.1, x.2.2.1, relvL g x.2.2.2) := by
  unfold splitLastDelim
  rw [← relvL_reverse, splitFirstDelim_relv]
  cases splitFirstDelim l.reverse with
  | none => rfl
  | some x => obtain ⟨a, b, c, d⟩ := x; simp

theorem relvL_removeDelim (pre : List Inl.Node) (d : Delim) : relvL g (removeDelim pre d) = removeDelim (relvL g pre) d := by
  unfold removeDelim
  split
  · exact relvL_mergeOrAppend g pre d.seg
  · rfl

theorem relvL_clearInner : ∀ (rest acc : List Inl.Node), relvL g (clearInner acc rest) = clearInner (relvL g acc) (relvL g rest)
  | [], acc => by simp [clearInner]
  | n :: rest, acc => by
    cases n <;> simp only [relvL_cons, relv_emphasis, relv_codeSpan, relv_link, relv_autoLink, relv_rawHTML, relv_text,
      relv_delim, relv_label, clearInner] <;>
      first
        | (rw [relvL_clearInner rest, relvL_removeDelim])
        | (rw [relvL_clearInner rest]; simp)

theorem relvL_clearRev (b : Bottom) : ∀ l : List Inl.Node, relvL g (clearRev b l) = clearRev b (relvL g l)
  | [] => rfl
  | n :: rest => by
    have ih := relvL_clearRev b rest
    cases n with
    | delim id d =>
      simp only [relvL_cons, relv_delim, clearRev]
      split
      · simp
      · split
        · -- the delimiter becomes text: merged into the Text in front or a fresh Text
          rw [← ih]
          cases rest with
          | nil => simp [clearRev]
          | cons x xs =>
            cases hr : clearRev b (x :: xs) with
            | nil => cases x <;> simp
            | cons y ys =>
              cases x <;> simp
              split <;> simp
        · exact ih
    | text s a b' c => simp only [relvL_cons, relv_text, clearRev, ih]
    | codeSpan ks => simp only [relvL_cons, relv_codeSpan, clearRev, ih]
    | emphasis lv ks => simp only [relvL_cons, relv_emphasis, clearRev, ih]
    | link im d t ks => simp only [relvL_cons, relv_link, clearRev, ih]
    | autoLink e s => simp only [relvL_cons, relv_autoLink, clearRev, ih]
    | rawHTML ss => simp only [relvL_cons, relv_rawHTML, clearRev, ih]
    | label id s im => simp only [relvL_cons, relv_label, clearRev, ih]

theorem relvL_clearDelimiters (b : Bottom) (kids : List Inl.Node) :
    relvL g (clearDelimiters b kids) = clearDelimiters b (relvL g kids) := by
  unfold clearDelimiters
  rw [splitLastDelim_relv]
  cases splitLastDelim kids with
  | none => rfl
  | some x =>
    obtain ⟨pre, id, d, post⟩ := x
    simp only [Option.map, relvL_append, relvL_reverse, relvL_clearRev, relvL_cons, relv_delim]

/-- the result of the opener search under the relabelling -/
def relvOpener (x : Option (List Inl.Node × Nat × Delim × List Inl.Node × Int) × Bool) :
    Option (List Inl.Node × Nat × Delim × List Inl.Node × Int) × Bool :=
  (x.1.map fun y => (relvL g y.1, y.2.1, y.2.2.1, relvL g y.2.2.2.1, y.2.2.2.2), x.2)

theorem findOpener_relv (b : Bottom) (closer : Delim) : ∀ (l mid : List Inl.Node) (maybe : Bool),
    findOpener b closer (relvL g l) (relvL g mid) maybe = relvOpener g (findOpener b closer l mid maybe)
  | [], mid, maybe => rfl
  | n :: restR, mid, maybe => by
    cases n with
    | delim id d =>
      simp only [relvL_cons, relv_delim, findOpener]
      split
      · rfl
      · split
        · split
          · simp [relvOpener]
          · have := findOpener_relv b closer restR (.delim id d :: mid) true
            simpa using this
        · have := findOpener_relv b closer restR (.delim id d :: mid) maybe
          simpa using this
    | text s a b' c => have := findOpener_relv b closer restR (.text s a b' c :: mid) maybe; simpa [findOpener] using this
    | codeSpan ks => have := findOpener_relv b closer restR (.codeSpan ks :: mid) maybe; simpa [findOpener] using this
    | emphasis lv ks => have := findOpener_relv b closer restR (.emphasis lv ks :: mid) maybe; simpa [findOpener] using this
    | link im d t ks => have := findOpener_relv b closer restR (.link im d t ks :: mid) maybe; simpa [findOpener] using this
    | autoLink e s => have := findOpener_relv b closer restR (.autoLink e s :: mid) maybe; simpa [findOpener] using this
    | rawHTML ss => have := findOpener_relv b closer restR (.rawHTML ss :: mid) maybe; simpa [findOpener] using this
    | label id s im => have := findOpener_relv b closer restR (.label id s im :: mid) maybe; simpa [findOpener] using this

/-- a round's outcome under the relabelling -/
def relvC : CStep → CStep
  | .done kids => .done (relvL g kids)
  | .next pre cid cd post => .next (relvL g pre) cid cd (relvL g post)
  | .bad => .bad

theorem advanceCloser_relv (pre post : List Inl.Node) :
    advanceCloser (relvL g pre) (relvL g post) = relvC g (advanceCloser pre post) := by
  unfold advanceCloser
  rw [splitFirstDelim_relv]
  cases splitFirstDelim post with
  | none => simp [relvC]
  | some x => obtain ⟨a, b, c, d⟩ := x; simp [relvC]

/-! ### ProcessDelimiters -/

theorem findOpener_consume (b : Bottom) (cd : Delim) : ∀ (preR mid : List Inl.Node) (m : Bool) {p1 mid' : List Inl.Node}
    {oid : Nat} {od : Delim} {c : Int} {m' : Bool},
    findOpener b cd preR mid m = (some (p1, oid, od, mid', c), m') → c = 1 ∨ c = 2 := by
  intro preR
  induction preR with
  | nil => intro mid m p1 mid' oid od c m' h; simp [findOpener] at h
  | cons n rest ih =>
    intro mid m p1 mid' oid od c m' h
    cases n with
    | delim id d =>
      simp only [findOpener] at h
      split at h
      · simp at h
      · split at h
        · split at h
          · rename_i hc
            simp at h
            obtain ⟨⟨_, _, _, _, rfl⟩, _⟩ := h
            rcases GM.Proof.Inlines.calc_range d cd with h0 | h1 | h2
            · rw [h0] at hc; simp at hc
            · exact Or.inl h1
            · exact Or.inr h2
          · exact ih _ _ h
        · exact ih _ _ h
    | _ =>
      simp only [findOpener] at h
      exact ih _ _ h

/-- the relabellings under which the generalised ProcessDelimiters is the default one: 1 and 2 are fixed, and with the
    strikethrough processor the representation of a Strikethrough made by `c` tildes goes to `c` -/
structure GOK (sk : Bool) (g : Int → Int) : Prop where
  g1 : g 1 = 1
  g2 : g 2 = 2
  s1 : sk = true → g (-3) = 1
  s2 : sk = true → g (-4) = 2

variable {g}

theorem relv_onMatch {sk : Bool} (G : GOK sk g) (od : Delim) {c : Int} (hc : c = 1 ∨ c = 2) (ks : List Inl.Node) :
    relv g (onMatch sk od c ks) = .emphasis c (relvL g ks) := by
  unfold onMatch strikeNode
  split
  · rename_i h
    have hsk : sk = true := by cases sk <;> simp_all
    rcases hc with rfl | rfl
    · simp [G.s1 hsk]
    · simp [G.s2 hsk]
  · rcases hc with rfl | rfl
    · simp [G.g1]
    · simp [G.g2]

theorem closerStepG_relv {sk : Bool} (G : GOK sk g) (b : Bottom) (pre : List Inl.Node) (cid : Nat) (cd : Delim)
    (post : List Inl.Node) :
    closerStep b (relvL g pre) cid cd (relvL g post) = relvC g (closerStepG sk b pre cid cd post) := by
  unfold closerStep closerStepG
  split
  · rfl
  · split
    · have := advanceCloser_relv g (pre ++ [.delim cid cd]) post
      simpa using this
    · have hf := findOpener_relv g b cd pre.reverse [] false
      simp only [relvL_reverse, relvL_nil] at hf
      rw [hf]
      cases hfo : findOpener b cd pre.reverse [] false with
      | mk o maybe =>
        cases o with
        | none =>
          simp only [relvOpener, Option.map]
          split
          · have := advanceCloser_relv g (removeDelim pre cd) post
            rw [relvL_removeDelim] at this
            exact this
          · have := advanceCloser_relv g (pre ++ [.delim cid cd]) post
            simpa using this
        | some x =>
          obtain ⟨p1, oid, od, mid, consume⟩ := x
          have hc := findOpener_consume b cd _ _ _ hfo
          simp only [relvOpener, Option.map]
          split
          · rfl
          · have hnode : relv g (onMatch sk od consume (clearInner [] mid)) =
                .emphasis consume (clearInner [] (relvL g mid)) := by
              rw [relv_onMatch G od hc, relvL_clearInner]; rfl
            split
            · have := advanceCloser_relv g ((if ((od.consume consume).length == 0) = true then p1
                  else p1 ++ [.delim oid (od.consume consume)]) ++ [onMatch sk od consume (clearInner [] mid)]) post
              rw [← this]
              congr 1
              simp only [relvL_append, relvL_cons, relvL_nil, hnode]
              split <;> simp
            · simp only [relvC, relvL_append, relvL_cons, relvL_nil, hnode]
              congr 1
              split <;> simp

theorem closerLoopG_relv {sk : Bool} (G : GOK sk g) (b : Bottom) (pre : List Inl.Node) (cid : Nat) (cd : Delim)
    (post : List Inl.Node) :
    closerLoop b (relvL g pre) cid cd (relvL g post) = (closerLoopG sk b pre cid cd post).map (relvL g) := by
  fun_induction closerLoopG sk b pre cid cd post with
  | case1 pre cid cd post kids hs =>
    rw [closerLoop, ]
    have := closerStepG_relv G b pre cid cd post
    rw [hs] at this
    simp only [relvC] at this
    split <;> simp_all [Except.map]
  | case2 pre cid cd post hs =>
    rw [closerLoop]
    have := closerStepG_relv G b pre cid cd post
    rw [hs] at this
    simp only [relvC] at this
    split <;> simp_all [Except.map]
  | case3 pre cid cd post pre' cid' cd' post' hs ih =>
    rw [closerLoop]
    have := closerStepG_relv G b pre cid cd post
    rw [hs] at this
    simp only [relvC] at this
    split <;> simp_all [Except.map]

theorem firstCloserAfter_relv (g : Int → Int) (b : Bottom) : ∀ (l : List Inl.Node) (acc : Option Nat),
    firstCloserAfter b (relvL g l) acc = firstCloserAfter b l acc
  | [], _ => rfl
  | n :: rest, acc => by
    cases n <;> simp only [relvL_cons, relv_emphasis, relv_codeSpan, relv_link, relv_autoLink, relv_rawHTML, relv_text,
      relv_delim, relv_label, firstCloserAfter] <;>
      first
        | exact firstCloserAfter_relv g b rest acc
        | (split
           · rfl
           · exact firstCloserAfter_relv g b rest _)

theorem splitAtDelim_relv (g : Int → Int) (id : Nat) : ∀ l : List Inl.Node,
    splitAtDelim id (relvL g l) = (splitAtDelim id l).map fun x => (relvL g x.1, x.2.1, relvL g x.2.2)
  | [] => rfl
  | n :: rest => by
    have ih := splitAtDelim_relv g id rest
    cases n with
    | delim i d =>
      simp only [relvL_cons, relv_delim, splitAtDelim, ih]
      by_cases h : (i == id) = true
      · simp [h]
      · simp only [h, Bool.false_eq_true, if_false]
        cases splitAtDelim id rest <;> simp
    | text s a b' c => simp only [relvL_cons, relv_text, splitAtDelim, ih]; cases splitAtDelim id rest <;> simp
    | codeSpan ks => simp only [relvL_cons, relv_codeSpan, splitAtDelim, ih]; cases splitAtDelim id rest <;> simp
    | emphasis lv ks => simp only [relvL_cons, relv_emphasis, splitAtDelim, ih]; cases splitAtDelim id rest <;> simp
    | link im d t ks => simp only [relvL_cons, relv_link, splitAtDelim, ih]; cases splitAtDelim id rest <;> simp
    | autoLink e s => simp only [relvL_cons, relv_autoLink, splitAtDelim, ih]; cases splitAtDelim id rest <;> simp
    | rawHTML ss => simp only [relvL_cons, relv_rawHTML, splitAtDelim, ih]; cases splitAtDelim id rest <;> simp
    | label i s im => simp only [relvL_cons, relv_label, splitAtDelim, ih]; cases splitAtDelim id rest <;> simp

theorem processDelimitersG_relv {sk : Bool} (G : GOK sk g) (b : Bottom) (kids : List Inl.Node) :
    processDelimiters b (relvL g kids) = (processDelimitersG sk b kids).map (relvL g) := by
  have tail : ∀ (closer : Option Nat),
      (match closer with
        | none => (.ok (clearDelimiters b (relvL g kids)) : Except Panic (List Inl.Node))
        | some cid =>
          match splitAtDelim cid (relvL g kids) with
          | none => .error .pre
          | some (pre, cd, post) =>
            match closerLoop b pre cid cd post with
            | .ok kids' => .ok (clearDelimiters b kids')
            | .error e => .error e) =
      (match closer with
        | none => (.ok (clearDelimiters b kids) : Except Panic (List Inl.Node))
        | some cid =>
          match splitAtDelim cid kids with
          | none => .error .pre
          | some (pre, cd, post) =>
            match closerLoopG sk b pre cid cd post with
            | .ok kids' => .ok (clearDelimiters b kids')
            | .error e => .error e).map (relvL g) := by
    intro closer
    cases closer with
    | none => simp [Except.map, relvL_clearDelimiters]
    | some cid =>
      simp only [splitAtDelim_relv]
      cases splitAtDelim cid kids with
      | none => rfl
      | some y =>
        obtain ⟨pre, cd, post⟩ := y
        simp only [Option.map, closerLoopG_relv G]
        cases closerLoopG sk b pre cid cd post with
        | error e => rfl
        | ok k => simp [Except.map, relvL_clearDelimiters]
  unfold processDelimiters processDelimitersG
  rw [splitLastDelim_relv]
  cases hl : splitLastDelim kids with
  | none => rfl
  | some x =>
    obtain ⟨preL, lastId, ld, lpost⟩ := x
    simp only [Option.map_some]
    cases b with
    | nil =>
      dsimp only
      have hc : (splitFirstDelim (relvL g kids)).map (·.2.1) = (splitFirstDelim kids).map (·.2.1) := by
        rw [splitFirstDelim_relv]; cases splitFirstDelim kids <;> rfl
      rw [hc]
      exact tail _
    | tnil =>
      simp only [← relvL_reverse, firstCloserAfter_relv]
      exact tail _
    | id n =>
      simp only [← relvL_reverse, firstCloserAfter_relv]
      exact tail _

/-- the relabellings the generalised ProcessDelimiters itself commutes with: 1, 2 and — with the strikethrough processor —
    the two Strikethrough levels are fixed -/
structure GOKS (sk : Bool) (g : Int → Int) : Prop where
  g1 : g 1 = 1
  g2 : g 2 = 2
  s1 : sk = true → g (-3) = -3
  s2 : sk = true → g (-4) = -4

theorem relv_onMatchS {sk : Bool} (G : GOKS sk g) (od : Delim) {c : Int} (hc : c = 1 ∨ c = 2) (ks : List Inl.Node) :
    relv g (onMatch sk od c ks) = onMatch sk od c (relvL g ks) := by
  unfold onMatch strikeNode
  split
  · rename_i h
    have hsk : sk = true := by cases sk <;> simp_all
    rcases hc with rfl | rfl
    · simp [G.s1 hsk]
    · simp [G.s2 hsk]
  · rcases hc with rfl | rfl
    · simp [G.g1]
    · simp [G.g2]

theorem closerStepG_relvS {sk : Bool} (G : GOKS sk g) (b : Bottom) (pre : List Inl.Node) (cid : Nat) (cd : Delim)
    (post : List Inl.Node) :
    closerStepG sk b (relvL g pre) cid cd (relvL g post) = relvC g (closerStepG sk b pre cid cd post) := by
  unfold closerStepG
  split
  · rfl
  · split
    · have := advanceCloser_relv g (pre ++ [.delim cid cd]) post
      simpa using this
    · have hf := findOpener_relv g b cd pre.reverse [] false
      simp only [relvL_reverse, relvL_nil] at hf
      rw [hf]
      cases hfo : findOpener b cd pre.reverse [] false with
      | mk o maybe =>
        cases o with
        | none =>
          simp only [relvOpener, Option.map]
          split
          · have := advanceCloser_relv g (removeDelim pre cd) post
            rw [relvL_removeDelim] at this
            exact this
          · have := advanceCloser_relv g (pre ++ [.delim cid cd]) post
            simpa using this
        | some x =>
          obtain ⟨p1, oid, od, mid, consume⟩ := x
          have hc := findOpener_consume b cd _ _ _ hfo
          simp only [relvOpener, Option.map]
          split
          · rfl
          · have hnode : relv g (onMatch sk od consume (clearInner [] mid)) =
                onMatch sk od consume (clearInner [] (relvL g mid)) := by
              rw [relv_onMatchS G od hc, relvL_clearInner]; rfl
            split
            · have := advanceCloser_relv g ((if ((od.consume consume).length == 0) = true then p1
                  else p1 ++ [.delim oid (od.consume consume)]) ++ [onMatch sk od consume (clearInner [] mid)]) post
              rw [← this]
              congr 1
              simp only [relvL_append, relvL_cons, relvL_nil, hnode]
              split <;> simp
            · simp only [relvC, relvL_append, relvL_cons, relvL_nil, hnode]
              congr 1
              split <;> simp

theorem closerLoopG_relvS {sk : Bool} (G : GOKS sk g) (b : Bottom) (pre : List Inl.Node) (cid : Nat) (cd : Delim)
    (post : List Inl.Node) :
    closerLoopG sk b (relvL g pre) cid cd (relvL g post) = (closerLoopG sk b pre cid cd post).map (relvL g) := by
  fun_induction closerLoopG sk b pre cid cd post with
  | case1 pre cid cd post kids hs =>
    have := closerStepG_relvS G b pre cid cd post
    rw [hs] at this
    simp only [relvC] at this
    rw [closerLoopG]
    split <;> simp_all [Except.map]
  | case2 pre cid cd post hs =>
    have := closerStepG_relvS G b pre cid cd post
    rw [hs] at this
    simp only [relvC] at this
    rw [closerLoopG]
    split <;> simp_all [Except.map]
  | case3 pre cid cd post pre' cid' cd' post' hs ih =>
    have := closerStepG_relvS G b pre cid cd post
    rw [hs] at this
    simp only [relvC] at this
    rw [closerLoopG]
    split <;> simp_all [Except.map]

theorem processDelimitersG_relvS {sk : Bool} (G : GOKS sk g) (b : Bottom) (kids : List Inl.Node) :
    processDelimitersG sk b (relvL g kids) = (processDelimitersG sk b kids).map (relvL g) := by
  have tail : ∀ (closer : Option Nat),
      (match closer with
        | none => (.ok (clearDelimiters b (relvL g kids)) : Except Panic (List Inl.Node))
        | some cid =>
          match splitAtDelim cid (relvL g kids) with
          | none => .error .pre
          | some (pre, cd, post) =>
            match closerLoopG sk b pre cid cd post with
            | .ok kids' => .ok (clearDelimiters b kids')
            | .error e => .error e) =
      (match closer with
        | none => (.ok (clearDelimiters b kids) : Except Panic (List Inl.Node))
        | some cid =>
          match splitAtDelim cid kids with
          | none => .error .pre
          | some (pre, cd, post) =>
            match closerLoopG sk b pre cid cd post with
            | .ok kids' => .ok (clearDelimiters b kids')
            | .error e => .error e).map (relvL g) := by
    intro closer
    cases closer with
    | none => simp [Except.map, relvL_clearDelimiters]
    | some cid =>
      simp only [splitAtDelim_relv]
      cases splitAtDelim cid kids with
      | none => rfl
      | some y =>
        obtain ⟨pre, cd, post⟩ := y
        simp only [Option.map, closerLoopG_relvS G]
        cases closerLoopG sk b pre cid cd post with
        | error e => rfl
        | ok k => simp [Except.map, relvL_clearDelimiters]
  unfold processDelimitersG
  rw [splitLastDelim_relv]
  cases hl : splitLastDelim kids with
  | none => rfl
  | some x =>
    obtain ⟨preL, lastId, ld, lpost⟩ := x
    simp only [Option.map_some]
    cases b with
    | nil =>
      dsimp only
      have hc : (splitFirstDelim (relvL g kids)).map (·.2.1) = (splitFirstDelim kids).map (·.2.1) := by
        rw [splitFirstDelim_relv]; cases splitFirstDelim kids <;> rfl
      rw [hc]
      exact tail _
    | tnil =>
      simp only [← relvL_reverse, firstCloserAfter_relv]
      exact tail _
    | id n =>
      simp only [← relvL_reverse, firstCloserAfter_relv]
      exact tail _

theorem closerStepG_false (b : Bottom) (pre : List Inl.Node) (cid : Nat) (cd : Delim) (post : List Inl.Node) :
    closerStepG false b pre cid cd post = closerStep b pre cid cd post := by
  unfold closerStepG closerStep onMatch
  simp only [Bool.false_and, Bool.false_eq_true, if_false]
  rfl

theorem closerLoopG_false (b : Bottom) (pre : List Inl.Node) (cid : Nat) (cd : Delim) (post : List Inl.Node) :
    closerLoopG false b pre cid cd post = closerLoop b pre cid cd post := by
  fun_induction closerLoop b pre cid cd post with
  | case1 pre cid cd post kids hs => rw [closerLoopG]; split <;> simp_all [closerStepG_false]
  | case2 pre cid cd post hs => rw [closerLoopG]; split <;> simp_all [closerStepG_false]
  | case3 pre cid cd post pre' cid' cd' post' hs ih => rw [closerLoopG]; split <;> simp_all [closerStepG_false]

/-- with the flag off the generalised ProcessDelimiters IS the default one -/
theorem processDelimitersG_false : processDelimitersG false = processDelimiters := by
  funext b kids
  unfold processDelimitersG processDelimiters
  simp only [closerLoopG_false]
  rfl

/-! ### link labels -/

theorem splitFirstLabel_relv (g : Int → Int) : ∀ l : List Inl.Node,
    splitFirstLabel (relvL g l) = (splitFirstLabel l).map fun x => (relvL g x.1, x.2.1, relvL g x.2.2)
  | [] => rfl
  | n :: rest => by
    have ih := splitFirstLabel_relv g rest
    cases n with
    | label i s im => simp [splitFirstLabel]
    | text s a b' c => simp only [relvL_cons, relv_text, splitFirstLabel, ih]; cases splitFirstLabel rest <;> simp
    | codeSpan ks => simp only [relvL_cons, relv_codeSpan, splitFirstLabel, ih]; cases splitFirstLabel rest <;> simp
    | emphasis lv ks => simp only [relvL_cons, relv_emphasis, splitFirstLabel, ih]; cases splitFirstLabel rest <;> simp
    | link im d t ks => simp only [relvL_cons, relv_link, splitFirstLabel, ih]; cases splitFirstLabel rest <;> simp
    | autoLink e s => simp only [relvL_cons, relv_autoLink, splitFirstLabel, ih]; cases splitFirstLabel rest <;> simp
    | rawHTML ss => simp only [relvL_cons, relv_rawHTML, splitFirstLabel, ih]; cases splitFirstLabel rest <;> simp
    | delim i d => simp only [relvL_cons, relv_delim, splitFirstLabel, ih]; cases splitFirstLabel rest <;> simp

theorem splitLastLabel_relv (g : Int → Int) (l : List Inl.Node) :
    splitLastLabel (relvL g l) = (splitLastLabel l).map fun x => (relvL g x.1, x.2.1, relvL g x.2.2) := by
  unfold splitLastLabel
  rw [← relvL_reverse, splitFirstLabel_relv]
  cases splitFirstLabel l.reverse with
  | none => rfl
  | some x => obtain ⟨a, b, c⟩ := x; simp

mutual
theorem containsLink_relv (g : Int → Int) : ∀ n : Inl.Node, containsLink (relv g n) = containsLink n
  | .link im d t ks => by cases im <;> simp [containsLink, containsLinkL_relv g ks]
  | .emphasis lv ks => by simp [containsLink, containsLinkL_relv g ks]
  | .codeSpan ks => by simp [containsLink, containsLinkL_relv g ks]
  | .text .. => rfl
  | .autoLink .. => rfl
  | .rawHTML .. => rfl
  | .delim .. => rfl
  | .label .. => rfl
theorem containsLinkL_relv (g : Int → Int) : ∀ l : List Inl.Node, containsLinkL (relvL g l) = containsLinkL l
  | [] => rfl
  | n :: rest => by simp [containsLinkL, containsLink_relv g n, containsLinkL_relv g rest]
end

mutual
theorem hasLabel_relv (g : Int → Int) : ∀ n : Inl.Node, hasLabel (relv g n) = hasLabel n
  | .link im d t ks => by simp [hasLabel, hasLabelL_relv g ks]
  | .emphasis lv ks => by simp [hasLabel, hasLabelL_relv g ks]
  | .codeSpan ks => by simp [hasLabel, hasLabelL_relv g ks]
  | .text .. => rfl
  | .autoLink .. => rfl
  | .rawHTML .. => rfl
  | .delim .. => rfl
  | .label .. => rfl
theorem hasLabelL_relv (g : Int → Int) : ∀ l : List Inl.Node, hasLabelL (relvL g l) = hasLabelL l
  | [] => rfl
  | n :: rest => by simp [hasLabelL, hasLabel_relv g n, hasLabelL_relv g rest]
end

/-! ### the parser state -/

def relvSt (g : Int → Int) (st : St) : St := { st with kids := relvL g st.kids }
def relvPR (g : Int → Int) (r : Option Inl.Node × St) : Option Inl.Node × St := (r.1.map (relv g), relvSt g r.2)

@[simp] theorem relvSt_rd (g : Int → Int) (st : St) : (relvSt g st).rd = st.rd := rfl
@[simp] theorem relvSt_kids (g : Int → Int) (st : St) : (relvSt g st).kids = relvL g st.kids := rfl
@[simp] theorem relvSt_nextId (g : Int → Int) (st : St) : (relvSt g st).nextId = st.nextId := rfl
@[simp] theorem relvSt_bottoms (g : Int → Int) (st : St) : (relvSt g st).bottoms = st.bottoms := rfl
theorem relvSt_withRd (g : Int → Int) (st : St) (rd : BlockReader) :
    { relvSt g st with rd := rd } = relvSt g { st with rd := rd } := rfl

theorem pushBottom_relv (g : Int → Int) (st : St) : pushBottom (relvSt g st) = relvSt g (pushBottom st) := by
  unfold pushBottom
  simp only [relvSt_kids, splitLastDelim_relv]
  cases splitLastDelim st.kids with
  | none => rfl
  | some x => obtain ⟨a, b, c, d⟩ := x; rfl

theorem popBottom_relv (g : Int → Int) (st : St) : popBottom (relvSt g st) = ((popBottom st).1, relvSt g (popBottom st).2) := by
  unfold popBottom
  simp only [relvSt_bottoms]
  cases st.bottoms <;> rfl

theorem labelOpen_relv (g : Int → Int) (st : St) (pos : Int) (im : Bool) :
    labelOpen (relvSt g st) pos im = (labelOpen st pos im).map (relvPR g) := by
  unfold labelOpen
  simp only [relvSt_rd, bind, Except.bind]
  cases st.rd.advance 1 with
  | error e => rfl
  | ok rd => rfl

theorem linkFail_relv (g : Int → Int) (pre : List Inl.Node) (lseg : Segment) (post : List Inl.Node) (st : St) :
    linkFail (relvL g pre) lseg (relvL g post) (relvSt g st) = (linkFail pre lseg post st).map (relvPR g) := by
  unfold linkFail
  rw [popBottom_relv]
  simp [Except.map, relvPR, relvSt, relvL_mergeOrAppend]

theorem linkDone_relv (g : Int → Int) (im : Bool) (info : LinkInfo) (st : St) :
    linkDone im { info with kids := relvL g info.kids } (relvSt g st) = (linkDone im info st).map (relvPR g) := by
  unfold linkDone
  simp [Except.map, relvPR, relvSt]

theorem labelLen_relv (g : Int → Int) (pre : List Inl.Node) : labelLen (relvL g pre) = labelLen pre := by
  unfold labelLen
  rw [splitFirstLabel_relv, splitLastLabel_relv]
  cases splitFirstLabel pre with
  | none => rfl
  | some x =>
    cases splitLastLabel pre with
    | none => rfl
    | some y => rfl

/-! ### the link parser -/

/-- `pd` is the default ProcessDelimiters up to the relabelling -/
def PDSim (g : Int → Int) (pd : PD) : Prop :=
  ∀ b k, processDelimiters b (relvL g k) = (pd b k).map (relvL g)

def relvKS (g : Int → Int) (r : List Inl.Node × St) : List Inl.Node × St := (relvL g r.1, relvSt g r.2)

theorem processLinkLabelG_relv {pd : PD} (hpd : PDSim g pd) (st : St) :
    processLinkLabel (relvSt g st) = (processLinkLabelG pd st).map (relvKS g) := by
  unfold processLinkLabel processLinkLabelG
  rw [popBottom_relv]
  simp only [relvSt_kids, splitLastLabel_relv]
  cases splitLastLabel (popBottom st).2.kids with
  | none => rfl
  | some x =>
    obtain ⟨a, lab, post0⟩ := x
    simp only [Option.map_some, hasLabelL_relv]
    split
    · rfl
    · rw [hpd]
      cases pd (popBottom st).1 (popBottom st).2.kids with
      | error e => rfl
      | ok kids =>
        simp only [Except.map, splitLastLabel_relv]
        cases splitLastLabel kids with
        | none => rfl
        | some y =>
          obtain ⟨pre, ⟨lid, lseg, im⟩, post⟩ := y
          simp only [Option.map_some, hasLabelL_relv, relvL_any_isDelim]
          split
          · rfl
          · simp [relvKS, relvSt]

def relvLI (g : Int → Int) (r : Option LinkInfo × St) : Option LinkInfo × St :=
  (r.1.map fun i => { i with kids := relvL g i.kids }, relvSt g r.2)

theorem parseLinkInlineG_relv {pd : PD} (hpd : PDSim g pd) (st : St) :
    parseLinkInline (relvSt g st) = (parseLinkInlineG pd st).map (relvLI g) := by
  unfold parseLinkInline parseLinkInlineG
  simp only [relvSt_rd, relvSt_withRd, processLinkLabelG_relv hpd, bind, Except.bind, pure, Except.pure]
  repeat' (first | rfl | split)
  all_goals (simp_all [Except.map, relvLI, relvKS])
  all_goals (subst_vars; exact ⟨rfl, rfl⟩)

def relvRL (g : Int → Int) (r : (Option LinkInfo × Bool) × St) : (Option LinkInfo × Bool) × St :=
  ((r.1.1.map fun i => { i with kids := relvL g i.kids }, r.1.2), relvSt g r.2)

theorem parseReferenceLinkG_relv {pd : PD} (hpd : PDSim g pd) (env : Env) (st : St) (lseg : Segment) :
    parseReferenceLink env (relvSt g st) lseg = (parseReferenceLinkG pd env st lseg).map (relvRL g) := by
  unfold parseReferenceLink parseReferenceLinkG
  simp only [relvSt_rd, relvSt_withRd, processLinkLabelG_relv hpd, bind, Except.bind, pure, Except.pure]
  repeat' (first | rfl | split)
  all_goals (simp_all [Except.map, relvRL, relvKS])
  all_goals (subst_vars; exact ⟨rfl, rfl⟩)

theorem linkShortcutG_relv {pd : PD} (hpd : PDSim g pd) (env : Env) (st : St) (lseg segment : Segment) (l : Int)
    (pos : Segment) (im : Bool) (pre post : List Inl.Node) :
    linkShortcut env (relvSt g st) lseg segment l pos im (relvL g pre) (relvL g post) =
      (linkShortcutG pd env st lseg segment l pos im pre post).map (relvPR g) := by
  unfold linkShortcut linkShortcutG
  simp only [relvSt_rd, relvSt_withRd, processLinkLabelG_relv hpd, linkFail_relv, bind, Except.bind, pure, Except.pure]
  repeat' (first | rfl | split)
  all_goals (simp_all [Except.map, relvKS])
  all_goals (subst_vars; first | rfl | (simp [linkDone, relvPR, relvSt]))

def relvTry (g : Int → Int) (r : Option LinkInfo × Bool × St) : Option LinkInfo × Bool × St :=
  (r.1.map fun i => { i with kids := relvL g i.kids }, r.2.1, relvSt g r.2.2)

theorem linkTryG_relv {pd : PD} (hpd : PDSim g pd) (env : Env) (st : St) (lseg : Segment) (c : UInt8) :
    linkTry env (relvSt g st) lseg c = (linkTryG pd env st lseg c).map (relvTry g) := by
  unfold linkTry linkTryG
  simp only [parseLinkInlineG_relv hpd, parseReferenceLinkG_relv hpd]
  repeat' (first | rfl | split)
  all_goals (simp_all [Except.map, relvTry, relvLI, relvRL])

theorem relvSt_mk (g : Int → Int) (rd : BlockReader) (k : List Inl.Node) (n : Nat) (b : List Bottom) :
    ({ rd := rd, kids := relvL g k, nextId := n, bottoms := b } : St) =
      relvSt g { rd := rd, kids := k, nextId := n, bottoms := b } := rfl

theorem parseLinkCloseG_relv {pd : PD} (hpd : PDSim g pd) (env : Env) (st : St) (segment : Segment) :
    parseLinkClose env (relvSt g st) segment = (parseLinkCloseG pd env st segment).map (relvPR g) := by
  unfold parseLinkClose parseLinkCloseG
  simp only [relvSt_kids, splitLastLabel_relv]
  cases splitLastLabel st.kids with
  | none => rfl
  | some x =>
    obtain ⟨pre, ⟨lid, lseg, im⟩, post⟩ := x
    simp only [Option.map_some, relvSt_rd, relvSt_nextId, relvSt_bottoms, relvSt_mk, labelLen_relv, containsLinkL_relv,
      linkFail_relv, linkTryG_relv hpd, bind, Except.bind, pure, Except.pure]
    cases st.rd.advance 1 with
    | error e => rfl
    | ok rd =>
      simp only []
      split
      · rfl
      · split
        · rfl
        · cases rd.peek with
          | error e => rfl
          | ok c =>
            simp only []
            cases linkTryG pd env { rd := rd, kids := st.kids, nextId := st.nextId, bottoms := st.bottoms } lseg c with
            | error e => rfl
            | ok r =>
              obtain ⟨link, hv, st'⟩ := r
              simp only [Except.map, relvTry]
              cases link with
              | some info =>
                simp only [Option.map_some]
                exact linkDone_relv g im info st'
              | none =>
                simp only [Option.map_none]
                split
                · exact linkFail_relv g pre lseg post st'
                · exact linkShortcutG_relv hpd env st' lseg segment _ _ im pre post

theorem parseLinkG_relv {pd : PD} (hpd : PDSim g pd) (env : Env) (st : St) :
    parseLink env (relvSt g st) = (parseLinkG pd env st).map (relvPR g) := by
  unfold parseLink parseLinkG
  simp only [relvSt_rd, bind, Except.bind, pure, Except.pure]
  cases st.rd.peekLine with
  | error e => rfl
  | ok v =>
    simp only [relvSt_kids, relvSt_nextId, relvSt_bottoms, relvSt_mk]
    cases v.1.1.getD [] with
    | nil => rfl
    | cons c rest =>
      simp only []
      by_cases hc : (c == 33) = true
      · simp only [hc, if_true]
        cases rest with
        | nil => rfl
        | cons d rest' =>
          by_cases hd : d = 91
          · subst hd
            simp only []
            cases v.2.advance 1 with
            | error e => rfl
            | ok rd' =>
              simp only [relvSt_mk, pushBottom_relv, labelOpen_relv]
          · have : ∀ tail, d :: rest' ≠ 91 :: tail := fun tail h => hd (by injection h)
            split
            · rename_i heq; exact absurd heq (this _)
            · split
              · rename_i heq; exact absurd heq (this _)
              · rfl
      · simp only [hc, Bool.false_eq_true, if_false]
        split
        · simp only [pushBottom_relv, labelOpen_relv]
        · exact parseLinkCloseG_relv hpd env _ _

/-! ### the same with a generalised ProcessDelimiters on both sides -/

/-- `pd2` on the relabelled children is `pd` relabelled -/
def PDSim2 (g : Int → Int) (pd pd2 : PD) : Prop :=
  ∀ b k, pd2 b (relvL g k) = (pd b k).map (relvL g)

theorem processLinkLabelG_relv2 {pd pd2 : PD} (hpd : PDSim2 g pd pd2) (st : St) :
    processLinkLabelG pd2 (relvSt g st) = (processLinkLabelG pd st).map (relvKS g) := by
  unfold processLinkLabelG
  rw [popBottom_relv]
  simp only [relvSt_kids, splitLastLabel_relv]
  cases splitLastLabel (popBottom st).2.kids with
  | none => rfl
  | some x =>
    obtain ⟨a, lab, post0⟩ := x
    simp only [Option.map_some, hasLabelL_relv]
    split
    · rfl
    · rw [hpd]
      cases pd (popBottom st).1 (popBottom st).2.kids with
      | error e => rfl
      | ok kids =>
        simp only [Except.map, splitLastLabel_relv]
        cases splitLastLabel kids with
        | none => rfl
        | some y =>
          obtain ⟨pre, ⟨lid, lseg, im⟩, post⟩ := y
          simp only [Option.map_some, hasLabelL_relv, relvL_any_isDelim]
          split
          · rfl
          · simp [relvKS, relvSt]

theorem parseLinkInlineG_relv2 {pd pd2 : PD} (hpd : PDSim2 g pd pd2) (st : St) :
    parseLinkInlineG pd2 (relvSt g st) = (parseLinkInlineG pd st).map (relvLI g) := by
  unfold parseLinkInlineG
  simp only [relvSt_rd, relvSt_withRd, processLinkLabelG_relv2 hpd, bind, Except.bind, pure, Except.pure]
  repeat' (first | rfl | split)
  all_goals (simp_all [Except.map, relvLI, relvKS])
  all_goals (subst_vars; exact ⟨rfl, rfl⟩)

theorem parseReferenceLinkG_relv2 {pd pd2 : PD} (hpd : PDSim2 g pd pd2) (env : Env) (st : St) (lseg : Segment) :
    parseReferenceLinkG pd2 env (relvSt g st) lseg = (parseReferenceLinkG pd env st lseg).map (relvRL g) := by
  unfold parseReferenceLinkG
  simp only [relvSt_rd, relvSt_withRd, processLinkLabelG_relv2 hpd, bind, Except.bind, pure, Except.pure]
  repeat' (first | rfl | split)
  all_goals (simp_all [Except.map, relvRL, relvKS])
  all_goals (subst_vars; exact ⟨rfl, rfl⟩)

theorem linkShortcutG_relv2 {pd pd2 : PD} (hpd : PDSim2 g pd pd2) (env : Env) (st : St) (lseg segment : Segment) (l : Int)
    (pos : Segment) (im : Bool) (pre post : List Inl.Node) :
    linkShortcutG pd2 env (relvSt g st) lseg segment l pos im (relvL g pre) (relvL g post) =
      (linkShortcutG pd env st lseg segment l pos im pre post).map (relvPR g) := by
  unfold linkShortcutG
  simp only [relvSt_rd, relvSt_withRd, processLinkLabelG_relv2 hpd, linkFail_relv, bind, Except.bind, pure, Except.pure]
  repeat' (first | rfl | split)
  all_goals (simp_all [Except.map, relvKS])
  all_goals (subst_vars; first | rfl | (simp [linkDone, relvPR, relvSt]))

theorem linkTryG_relv2 {pd pd2 : PD} (hpd : PDSim2 g pd pd2) (env : Env) (st : St) (lseg : Segment) (c : UInt8) :
    linkTryG pd2 env (relvSt g st) lseg c = (linkTryG pd env st lseg c).map (relvTry g) := by
  unfold linkTryG
  simp only [parseLinkInlineG_relv2 hpd, parseReferenceLinkG_relv2 hpd]
  repeat' (first | rfl | split)
  all_goals (simp_all [Except.map, relvTry, relvLI, relvRL])

theorem parseLinkCloseG_relv2 {pd pd2 : PD} (hpd : PDSim2 g pd pd2) (env : Env) (st : St) (segment : Segment) :
    parseLinkCloseG pd2 env (relvSt g st) segment = (parseLinkCloseG pd env st segment).map (relvPR g) := by
  unfold parseLinkCloseG
  simp only [relvSt_kids, splitLastLabel_relv]
  cases splitLastLabel st.kids with
  | none => rfl
  | some x =>
    obtain ⟨pre, ⟨lid, lseg, im⟩, post⟩ := x
    simp only [Option.map_some, relvSt_rd, relvSt_nextId, relvSt_bottoms, relvSt_mk, labelLen_relv, containsLinkL_relv,
      linkFail_relv, linkTryG_relv2 hpd, bind, Except.bind, pure, Except.pure]
    cases st.rd.advance 1 with
    | error e => rfl
    | ok rd =>
      simp only []
      split
      · rfl
      · split
        · rfl
        · cases rd.peek with
          | error e => rfl
          | ok c =>
            simp only []
            cases linkTryG pd env { rd := rd, kids := st.kids, nextId := st.nextId, bottoms := st.bottoms } lseg c with
            | error e => rfl
            | ok r =>
              obtain ⟨link, hv, st'⟩ := r
              simp only [Except.map, relvTry]
              cases link with
              | some info =>
                simp only [Option.map_some]
                exact linkDone_relv g im info st'
              | none =>
                simp only [Option.map_none]
                split
                · exact linkFail_relv g pre lseg post st'
                · exact linkShortcutG_relv2 hpd env st' lseg segment _ _ im pre post

theorem parseLinkG_relv2 {pd pd2 : PD} (hpd : PDSim2 g pd pd2) (env : Env) (st : St) :
    parseLinkG pd2 env (relvSt g st) = (parseLinkG pd env st).map (relvPR g) := by
  unfold parseLinkG
  simp only [relvSt_rd, bind, Except.bind, pure, Except.pure]
  cases st.rd.peekLine with
  | error e => rfl
  | ok v =>
    simp only [relvSt_kids, relvSt_nextId, relvSt_bottoms, relvSt_mk]
    cases v.1.1.getD [] with
    | nil => rfl
    | cons c rest =>
      simp only []
      by_cases hc : (c == 33) = true
      · simp only [hc, if_true]
        cases rest with
        | nil => rfl
        | cons d rest' =>
          by_cases hd : d = 91
          · subst hd
            simp only []
            cases v.2.advance 1 with
            | error e => rfl
            | ok rd' =>
              simp only [relvSt_mk, pushBottom_relv, labelOpen_relv]
          · have : ∀ tail, d :: rest' ≠ 91 :: tail := fun tail h => hd (by injection h)
            split
            · rename_i heq; exact absurd heq (this _)
            · rfl
      · simp only [hc, Bool.false_eq_true, if_false]
        split
        · simp only [pushBottom_relv, labelOpen_relv]
        · exact parseLinkCloseG_relv2 hpd env _ _

/-! ### over the default ProcessDelimiters the generalised link parser IS the default one -/

theorem processLinkLabelG_default : processLinkLabelG processDelimiters = processLinkLabel := rfl
theorem parseLinkInlineG_default : parseLinkInlineG processDelimiters = parseLinkInline := rfl
theorem parseReferenceLinkG_default : parseReferenceLinkG processDelimiters = parseReferenceLink := rfl
theorem linkShortcutG_default : linkShortcutG processDelimiters = linkShortcut := rfl
theorem linkTryG_default : linkTryG processDelimiters = linkTry := rfl
theorem parseLinkCloseG_default : parseLinkCloseG processDelimiters = parseLinkClose := rfl
theorem parseLinkG_default : parseLinkG processDelimiters = parseLink := rfl

end GM.Proof.ConvertXRelv
