/-
  GM.Proof.CMFrag13Bridge — stage 13 (the union of the stages): the bridge from the spec-side documents `UDocS` of
  GM.Spec.CMFrag to the proof-side blocks `UBlock` of GM.Proof.CMFrag13Defs:
  * `ublockOfS`, `convU`: a spec-side block as a proof-side block / as a pair (blank lines in front, byte lines);
  * `spellU_raw`, `spellUE_raw`: the source of a document is `rawDoc6` / `rawDoc6E` of its converted items;
  * `ugood_ofS`: a block of the fragment is `UGood`; `usepsOK_of`: `usepsOK` gives `SepsOK6`; `uicOK_of`: … and `IcOK6`
    (no indented code block behind an indented code block); `ulastNotIc_of`: `ulastNotIc` gives `LastNotIc`;
  * `uDocHtml_ofS`: the proof-side HTML of the converted blocks is the prescribed HTML `expectedU`.
-/
import GM.Proof.CMFrag13Defs
import GM.Proof.CMFrag6Main
import GM.Proof.CMFrag12Main
import GM.Proof.CMFragRender11

namespace GM.Proof.CMFrag
open GM GM.Text GM.Blocks GM.Spec GM.Spec.CM GM.Spec.CMFrag

/-! ### the conversion -/

def ulineOfS (x : ULineS) : ULine := ⟨x.atoms.map eatomOfS, x.hard⟩

def ublockOfS : UBlockS → UBlock
  | .para lines => .para (lines.map ulineOfS)
  | .heading level text => .atx level (text.map eatomOfS)
  | .thematic c n => .hr (thematicLine c n false)
  | .fcode tilde n info lines => .fence (fenceChar tilde) n info lines
  | .icode lines => .icode lines

def convU (it : UItem) : Nat × Raw5 := (it.sep, uraw (ublockOfS it.block))

/-! ### the source -/

theorem ulineSrc_ofS13 (x : ULineS) : ulineSrc (ulineOfS x) = spellULine x := by
  obtain ⟨atoms, hard⟩ := x
  cases hard <;> simp [ulineSrc, ulineOfS, spellULine, elineSrc_eatomOfS11]

theorem paraBytes_uraw13 (b : UBlockS) : paraBytes (lines5 (uraw (ublockOfS b))) = spellUBlock b := by
  cases b with
  | para lines =>
    simp only [ublockOfS, uraw, lines5, lines4, paraBytes, spellUBlock, List.flatMap_map, ulineSrc_ofS13]
  | heading level text =>
    simp [ublockOfS, uraw, lines5, lines4, paraBytes, spellUBlock, elineSrc_eatomOfS11]
  | thematic c n => exact paraBytes_rawOfH (.base (.thematic c n))
  | fcode tilde n info lines => exact paraBytes_rawOfH (.fcode tilde n info lines)
  | icode lines => exact paraBytes_rawOfI (.icode lines)

theorem spellU_raw (d : UDocS) : spellU d = rawDoc6 (d.items.map convU) d.trail := by
  obtain ⟨items, trail⟩ := d
  simp only [spellU]
  induction items with
  | nil => rfl
  | cons it rest ih =>
    simp only [List.flatMap_cons, List.map_cons, convU, rawDoc6, paraBytes_uraw13, blanks_eq] at ih ⊢
    rw [← ih]
    simp

theorem lines5_uraw_ne13 (b : UBlockS) (h : ublockOKS b = true) : lines5 (uraw (ublockOfS b)) ≠ [] := by
  cases b with
  | para lines =>
    simp only [ublockOKS, Bool.and_eq_true, Bool.not_eq_true', List.isEmpty_eq_false_iff] at h
    simpa [ublockOfS, uraw, lines5, lines4] using h.1.1
  | heading level text => simp [ublockOfS, uraw, lines5, lines4]
  | thematic c n => simp [ublockOfS, uraw, lines5, lines4]
  | fcode tilde n info lines => simp [ublockOfS, uraw, lines5]
  | icode lines =>
    simp only [ublockOKS, Bool.and_eq_true, Bool.not_eq_true', List.isEmpty_eq_false_iff] at h
    simpa [ublockOfS, uraw, lines5, icLines] using h.1

theorem ufragE_parts13 (d : UDocS) (h : UFragE d) :
    (∀ it ∈ d.items, ublockOKS it.block = true) ∧ usepsOK none d.items = true ∧ d.trail = 0 ∧ d.items ≠ [] ∧
      ulastNotIc d = true := by
  unfold UFragE ufragEB at h
  simp only [Bool.and_eq_true, beq_iff_eq, Bool.not_eq_true', List.isEmpty_eq_false_iff] at h
  obtain ⟨⟨⟨hk, ht⟩, hne⟩, hl⟩ := h
  unfold ufragB at hk
  simp only [Bool.and_eq_true, List.all_eq_true] at hk
  exact ⟨hk.1, hk.2, ht, hne, hl⟩

theorem ufrag_parts13 (d : UDocS) (h : UFrag d) :
    (∀ it ∈ d.items, ublockOKS it.block = true) ∧ usepsOK none d.items = true := by
  unfold UFrag ufragB at h
  simp only [Bool.and_eq_true, List.all_eq_true] at h
  exact h

theorem spellUE_raw (d : UDocS) (h : UFragE d) : spellUE d = rawDoc6E (d.items.map convU) := by
  obtain ⟨hok, _, ht, hne, _⟩ := ufragE_parts13 d h
  have hne' : d.items.map convU ≠ [] := by simpa using hne
  unfold spellUE
  rw [spellU_raw, ht, rawDoc6_dropLast _ hne' (by
    intro x hx
    obtain ⟨it, hit, rfl⟩ := List.mem_map.mp hx
    exact lines5_uraw_ne13 it.block (hok it hit))]

/-! ### the blocks are good -/

theorem spellELine_last_not_hash13 (l : ELine) (h : elineOKS l = true) :
    ∀ c, (spellELine l).getLast? = some c → c ≠ 35 := by
  simp only [elineOKS, Bool.and_eq_true] at h
  have hlast := h.1.2
  unfold elastOKS at hlast
  split at hlast
  · rename_i cs hl
    split at hlast
    · rename_i z hz
      obtain ⟨zc, ze⟩ := z
      obtain ⟨sp, _, _⟩ := spell_last zc ze hlast
      obtain ⟨init, hinit⟩ := List.getLast?_eq_some_iff.mp hl
      obtain ⟨cinit, hcs⟩ := List.getLast?_eq_some_iff.mp hz
      have e : spellELine l = (spellELine init ++ escSpell cinit) ++ [zc] := by
        rw [hinit, hcs]; simp [spellELine, spellEAtom, escSpell, sp]
      intro c hc
      rw [e] at hc
      simp at hc
      subst hc
      simp only [lastOK, Bool.and_eq_true] at hlast
      exact alnum_not_hash zc hlast.1
    · cases hlast
  · cases hlast

theorem ugood_ofS (b : UBlockS) (h : ublockOKS b = true) : UGood (ublockOfS b) := by
  cases b with
  | para lines =>
    simp only [ublockOKS, Bool.and_eq_true, Bool.not_eq_true', List.isEmpty_eq_false_iff, List.all_eq_true] at h
    obtain ⟨⟨hne, hl⟩, hlast⟩ := h
    show lines.map ulineOfS ≠ [] ∧
      ((∀ x ∈ lines.map ulineOfS, ERichLine x.atoms) ∧ ∀ x, (lines.map ulineOfS).getLast? = some x → x.hard = false)
    refine ⟨by simpa using hne, ?_, ?_⟩
    · intro x hx
      obtain ⟨y, hy, rfl⟩ := List.mem_map.mp hx
      exact erichLine_eatomOfS11 y.atoms (hl y hy)
    · intro x hx
      rw [List.getLast?_map] at hx
      unfold ulastSoftS at hlast
      cases hg : lines.getLast? with
      | none => rw [hg] at hx; cases hx
      | some z =>
        rw [hg] at hx hlast
        simp only [Option.map_some, Option.some.injEq] at hx
        subst hx
        simpa [ulineOfS] using hlast
  | heading level text =>
    simp only [ublockOKS, Bool.and_eq_true, decide_eq_true_eq] at h
    show 1 ≤ level ∧ level ≤ 6 ∧ ERichLine (text.map eatomOfS) ∧
      ∀ c, (elineSrc (text.map eatomOfS)).getLast? = some c → c ≠ 35
    refine ⟨h.1.1, h.1.2, erichLine_eatomOfS11 text h.2, ?_⟩
    rw [elineSrc_eatomOfS11]
    exact spellELine_last_not_hash13 text h.2
  | thematic c n => exact good5_rawOfH (.base (.thematic c n)) rfl
  | fcode tilde n info lines => exact good5_rawOfH (.fcode tilde n info lines) h
  | icode lines => exact good5_rawOfI (.icode lines) h

/-! ### blocks directly behind each other -/

theorem isParaB_ublockOfS13 (a : UBlockS) :
    isParaB (uraw (ublockOfS a)) = (match a with | .para _ => true | _ => false) := by
  cases a <;> rfl

theorem uabutOK_of (a b : UBlockS) (h : uabutOK a b = true) :
    AbutOK5 (isParaB (uraw (ublockOfS a))) (uraw (ublockOfS b)) := by
  cases b with
  | para lines =>
    cases a <;> simp [uabutOK] at h <;> simp [ublockOfS, uraw, AbutOK5, isParaB]
  | heading level text => simp [ublockOfS, uraw, AbutOK5]
  | thematic c n =>
    simp only [ublockOfS, uraw, AbutOK5]
    intro hp
    cases a with
    | para lines =>
      simp only [uabutOK, bne_iff_ne, ne_eq] at h
      simp only [thematicLine, Bool.false_eq_true, if_false, List.replicate_succ, List.head?_cons]
      intro he
      simp only [Option.some.injEq] at he
      split at he
      · cases he
      · rename_i h0
        split at he
        · rename_i h1; simp at h1; exact h h1
        · cases he
    | heading _ _ => simp [isParaB] at hp
    | thematic _ _ => simp [isParaB] at hp
    | fcode _ _ _ _ => simp [isParaB] at hp
    | icode _ => simp [isParaB] at hp
  | fcode tilde n info lines => simp [ublockOfS, uraw, AbutOK5]
  | icode lines =>
    cases a <;> simp [uabutOK] at h <;> simp [ublockOfS, uraw, AbutOK5, isParaB]

theorem usepsOK_of : ∀ (prev : Option UBlockS) (items : List UItem), usepsOK prev items = true →
    SepsOK6 (prev.map fun b => isParaB (uraw (ublockOfS b))) (items.map convU)
  | _, [], _ => by cases ‹Option UBlockS› <;> trivial
  | none, it :: rest, h => by
    simp only [usepsOK] at h
    exact usepsOK_of (some it.block) rest h
  | some a, it :: rest, h => by
    simp only [usepsOK, Bool.and_eq_true, Bool.or_eq_true, bne_iff_ne, ne_eq] at h
    refine ⟨?_, usepsOK_of (some it.block) rest h.2⟩
    intro hs
    rcases h.1.1 with h1 | h1
    · exact absurd hs h1
    · exact uabutOK_of a it.block h1

theorem isIcB_ublockOfS13 (a : UBlockS) : isIcB (uraw (ublockOfS a)) = a.isIc := by cases a <;> rfl

theorem isIc_ublockOfS13 (a : UBlockS) : (ublockOfS a).isIc = a.isIc := by cases a <;> rfl

/-- `usepsOK` gives `IcOK6`: no indented code block follows an indented code block -/
theorem uicOK_of : ∀ (prev : Option UBlockS) (items : List UItem), usepsOK prev items = true →
    IcOK6 (match prev with | some a => a.isIc | none => false) (items.map convU)
  | _, [], _ => trivial
  | none, it :: rest, h => by
    simp only [usepsOK] at h
    refine ⟨fun hf => Bool.noConfusion hf, ?_⟩
    have := uicOK_of (some it.block) rest h
    simpa [convU, isIcB_ublockOfS13] using this
  | some a, it :: rest, h => by
    simp only [usepsOK, Bool.and_eq_true, Bool.not_eq_true', Bool.and_eq_false_iff] at h
    refine ⟨?_, ?_⟩
    · intro ha
      simp only [convU, isIcB_ublockOfS13]
      rcases h.1.2 with h1 | h1
      · have ha' : a.isIc = true := ha
        rw [h1] at ha'; exact Bool.noConfusion ha'
      · exact h1
    · have := uicOK_of (some it.block) rest h.2
      simpa [convU, isIcB_ublockOfS13] using this

theorem lastNotIc_map_convU : ∀ (items : List UItem),
    (match items.getLast? with | some it => !it.block.isIc | none => true) = true → LastNotIc (items.map convU)
  | [], _ => trivial
  | [it], h => by
    simp only [List.getLast?_singleton, Bool.not_eq_true'] at h
    show isIcB (uraw (ublockOfS it.block)) = false
    rw [isIcB_ublockOfS13]; exact h
  | _ :: it :: rest, h => by
    rw [List.getLast?_cons_cons] at h
    exact lastNotIc_map_convU (it :: rest) h

/-- the last block of a `UFragE` document is not an indented code block -/
theorem ulastNotIc_of (d : UDocS) (h : ulastNotIc d = true) : LastNotIc (d.items.map convU) :=
  lastNotIc_map_convU d.items h

/-! ### the prescribed HTML -/

theorem uHtml_ofS13 (ls : List ULineS) (h : ∀ x ∈ ls, ∀ a ∈ x.atoms, eatomOKS a = true) :
    uHtml (ls.map ulineOfS) = expULines ls := by
  induction ls with
  | nil => rfl
  | cons x rest ih =>
    have hx := erichLineHtml_eatomOfS11 x.atoms (h x (by simp))
    cases rest with
    | nil => simpa [uHtml, expULines, ulineOfS] using hx
    | cons y rest =>
      have ih' := ih (fun z hz => h z (by simp [hz]))
      have e1 : uHtml ((x :: y :: rest).map ulineOfS) =
          erichLineHtml (ulineOfS x).atoms ++ (if (ulineOfS x).hard then strBytes "<br />\n" else [10]) ++
            uHtml ((y :: rest).map ulineOfS) := rfl
      have e2 : expULines (x :: y :: rest) =
          expELine x.atoms ++ (if x.hard then strBytes "<br />\n" else [10]) ++ expULines (y :: rest) := rfl
      rw [e1, e2, ih']
      show erichLineHtml (x.atoms.map eatomOfS) ++ (if x.hard then strBytes "<br />\n" else [10]) ++ _ = _
      rw [hx]

theorem uBlockHtml_ofS13 (b : UBlockS) (h : ublockOKS b = true) : uBlockHtml (ublockOfS b) = expUBlock b := by
  cases b with
  | para lines =>
    simp only [ublockOKS, Bool.and_eq_true, List.all_eq_true] at h
    simp only [ublockOfS, uBlockHtml, expUBlock,
      uHtml_ofS13 lines (fun x hx => elineOKS_atoms11 x.atoms (h.1.2 x hx))]
  | heading level text =>
    simp only [ublockOKS, Bool.and_eq_true] at h
    simp only [ublockOfS, uBlockHtml, expUBlock, erichLineHtml_eatomOfS11 text (elineOKS_atoms11 text h.2)]
  | thematic c n => rfl
  | fcode tilde n info lines => exact rawHtml_spelled5 (.fcode tilde n info lines) h
  | icode lines => exact rawHtml_spelledI (.icode lines) h

theorem uDocHtml_ofS (d : UDocS) (h : UFrag d) :
    uDocHtml (d.items.map fun it => ublockOfS it.block) = expectedU d := by
  obtain ⟨hok, _⟩ := ufrag_parts13 d h
  simp only [uDocHtml, expectedU, List.flatMap_map]
  apply flatMap_congr8
  intro it hit
  exact uBlockHtml_ofS13 it.block (hok it hit)

end GM.Proof.CMFrag
