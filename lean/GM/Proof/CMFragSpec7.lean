/-
  GM.Proof.CMFragSpec7 — the stage-7 fragment (stage 6 written without the final line feed) of GM.Spec.CMFrag inside
  the spec model GM.Spec.CommonMark:
  * `expectedKE_eq_expected`: the prescribed HTML of a stage-7 document is `expected` of the embedded document
    (the one with the choice "no final line ending");
  * `spellKE_eq_spell`: for a stage-7 document without extra blank lines the source is `spell` of the embedded
    document, byte for byte.
-/
import GM.Proof.CMFragSpec6
namespace GM.Proof.CMFrag
open GM GM.Spec.CM GM.Spec.CMFrag

/-- a stage-7 document is a stage-6 document that ends with a block -/
theorem kfragE_parts7 (d : KDoc) (h : KFragE d) : KFrag d ∧ d.trail = 0 ∧ d.items ≠ [] := by
  have := h
  simp only [KFragE, kfragEB, Bool.and_eq_true, beq_iff_eq, Bool.not_eq_true', List.isEmpty_eq_false_iff] at this
  exact ⟨this.1.1, this.1.2, this.2⟩

/-- the prescribed HTML does not depend on the choice "final line ending" -/
theorem expected_kembedE7 (d : KDoc) : expected (kembedE d) = expected (kembed d) := rfl

/-- E1 -/
theorem expectedKE_eq_expected (d : KDoc) (h : KFragE d) : expectedK d = expected (kembedE d) := by
  rw [expected_kembedE7, expectedK_eq_expected d (kfragE_parts7 d h).1]

/-- the source of the embedded document with a final line ending is the one without it plus one line feed -/
theorem spell_kembed_split7 (d : KDoc) : spell (kembed d) = spell (kembedE d) ++ [10] := by
  simp [spell, kembed, kembedE]

/-- E2: a stage-7 document without extra blank lines is spelled byte for byte like the embedded one -/
theorem spellKE_eq_spell (d : KDoc) (h : KFragE d) (hb : knoExtraBlanks d = true) : spellKE d = spell (kembedE d) := by
  obtain ⟨hk, _, hne⟩ := kfragE_parts7 d h
  rw [spellKE, spellK_eq_spell d hk hb hne, spell_kembed_split7, List.dropLast_concat]

end GM.Proof.CMFrag
